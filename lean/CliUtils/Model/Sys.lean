import CliUtils.Model.Basic
import CliUtils.Model.IdSet
import CliUtils.Model.IdStr
import CliUtils.Model.Manager
import CliUtils.Model.Wait
import CliUtils.Model.Graph
import CliUtils.Model.DepEdges
import CliUtils.Model.Event
/-
  System-level model: one apply / destroy run of the library against a cluster.

    pkg/apply/applier.go, destroyer.go        Run: validate, prepareObjects, build plan, policy switch, runner
    pkg/apply/solver/solver.go                TaskQueueBuilder.Build
    pkg/apply/taskrunner/runner.go            sequential execution, abort handling
    pkg/apply/task/{inv_add,apply,prune,inv_set}_task.go, pkg/apply/prune/prune.go, pkg/apply/filter/*.go
    pkg/inventory/{inventory-client,inventorycm,policy}.go, pkg/common/common.go, pkg/object/validation/*

  Environment (modelled, not verified): the API server is the in-memory store of harness/internal/fakecluster
  (uid counter, generation bump on content change, delete with UID precondition, finalizers as deletionTimestamp),
  kubectl's ApplyOptions.Run is GET + (POST | PATCH-if-changed) or one server-side-apply PATCH, and the status feed is
  the scripted one of harness/cmd/corr/sys_run.go.  The correspondence run compares events, mutating requests (with the
  store snapshot after each one) and the final store with the real Applier/Destroyer on the same histories.
-/
namespace CliUtils.Sys
open CliUtils

/-! ## inputs -/

structure Manifest where
  id : Id
  deps : List Id := []
  depsRaw : String := ""
  keep : Bool := false
  detach : Bool := false
  rev : Int := 0
  mutFrom : Option Id := none
  /-- the apply-time-mutation annotation lists, BEFORE the source above, a source that is in neither set (external) -/
  mutExt : Bool := false
  mutBad : Bool := false   -- a second substitution (same source, a source path matching nothing) follows the first
  owner : String := ""           -- only for pre-existing objects
deriving DecidableEq, Repr, Inhabited

inductive Dry | none | client | server
deriving DecidableEq, Repr, Inhabited

structure Opts where
  noPrune : Bool := false
  policy : Nat := 0              -- 0 MustMatch, 1 AdoptIfNoInventory, 2 AdoptAll
  dry : Dry := .none
  skipInvalid : Bool := false
  ssa : Bool := false
  timeout : Bool := false
  emitStatus : Bool := false
  foreground : Bool := false
  statusAll : Bool := false      -- inventory client built with StatusPolicyAll (object statuses stored in the inventory)
deriving Repr, Inhabited

inductive CancelAt
  | never
  | beforeSync
  | wait (n : Nat) (j : Option Nat)   -- during the n-th wait group, instead of delivery j (none = after the script)
  | mut (k : Nat)                     -- while mutating request k is in flight
deriving DecidableEq, Repr, Inhabited

structure Run where
  destroy : Bool
  objs : List Manifest
  opts : Opts
  failMut : List Nat := []
  failInvRead : List Nat := []
  failGet : List Id := []
  ctrl : List (Id × String) := []
  del : List (Id × String) := []
  cancel : CancelAt := .never
  watchErr : Option (Nat × Nat) := none
  watchErrMut : Option Nat := none   -- the watcher reports a fatal error while mutating request k is in flight
  envDel : List Id := []
  initial : List Id := []        -- objects whose current status the watcher reports before its sync event
  failInfo : List String := []   -- the kinds (`Id.kind`) whose `InfoHelper.BuildInfo` fails in this run (no REST client / unmapped kind)
deriving Repr, Inhabited

def invId : String := "inv-1"
def invNs : String := "ns1"
def invObjId : Id := { ns := "ns1", name := "inv", group := "", kind := "ConfigMap" }

/-! ## cluster -/

structure Live where
  id : Id
  uid : String
  gen : Int
  owner : String                  -- owning-inventory annotation ("" = none)
  deleting : Bool := false
  rev : String := ""
  frm : Option String := none     -- data.from (apply-time mutation target)
  keep : Bool := false
  detach : Bool := false
  deps : List Id := []
  depsRaw : String := ""
  mutFrom : Option Id := none
  /-- content recorded in the last-applied-configuration annotation (rev, from); none if kubectl never wrote one -/
  lastApplied : Option (String × Option String) := none
deriving DecidableEq, Repr, Inhabited

structure Cluster where
  objs : List Live := []
  inv : Option (List Id) := none
  invUid : String := ""
  nextUid : Nat := 0
deriving Repr, Inhabited

def Cluster.find? (c : Cluster) (id : Id) : Option Live := c.objs.find? (fun o => o.id = id)
def Cluster.remove (c : Cluster) (id : Id) : Cluster := { c with objs := c.objs.filter (fun o => o.id ≠ id) }
def Cluster.put (c : Cluster) (o : Live) : Cluster :=
  if (c.find? o.id).isSome then { c with objs := c.objs.map (fun x => if x.id = o.id then o else x) }
  else { c with objs := c.objs ++ [o] }
def Cluster.freshUid (c : Cluster) : String × Cluster :=
  (s!"uid-{c.nextUid + 1}", { c with nextUid := c.nextUid + 1 })

/-- only ConfigMaps and Secrets (and unknown kinds) carry content in the generated manifests -/
def revStr (m : Manifest) : String :=
  if m.id.group = "" ∧ (m.id.kind = "ConfigMap" ∨ m.id.kind = "Secret") then toString m.rev
  else if (m.id.group = "" ∧ m.id.kind = "Namespace") ∨ (m.id.group = "rbac.authorization.k8s.io" ∧ m.id.kind = "ClusterRole") ∨
          (m.id.group = "apps" ∧ m.id.kind = "Deployment") then ""
  else toString m.rev

/-- an object put into the store by somebody else (the environment) -/
def Cluster.putPre (c : Cluster) (m : Manifest) : Cluster :=
  let (u, c1) := c.freshUid
  c1.put { id := m.id, uid := u, gen := 1, owner := m.owner, rev := revStr m,
           frm := if m.mutFrom.isSome then some "unset" else none, keep := m.keep, detach := m.detach,
           deps := m.deps, depsRaw := m.depsRaw, mutFrom := m.mutFrom }

/-! ## kinds, validation -/

inductive Scope | namespaced | cluster
deriving DecidableEq, Repr

def scopeOf (group kind : String) : Option Scope :=
  if group = "" ∧ (kind = "ConfigMap" ∨ kind = "Secret") then some .namespaced
  else if group = "apps" ∧ kind = "Deployment" then some .namespaced
  else if group = "" ∧ kind = "Namespace" then some .cluster
  else if group = "rbac.authorization.k8s.io" ∧ kind = "ClusterRole" then some .cluster
  else none

/-- `Validator.Validate` for one object: does it produce a validation error? -/
def fieldInvalid (m : Manifest) : Bool :=
  m.id.kind = "" || m.id.name = "" ||
  (match scopeOf m.id.group m.id.kind with
   | none => true
   | some .namespaced => m.id.ns = ""
   | some .cluster => m.id.ns ≠ "")

def depAnn (deps : List Id) (depsRaw : String) : DepEdges.Ann :=
  if depsRaw ≠ "" then
    match IdStr.depSetParse depsRaw.toList with
    | some l => .refs (l.map fun c => { ns := String.ofList c.ns, name := String.ofList c.name, group := String.ofList c.group, kind := String.ofList c.kind })
    | none => .invalid
  else if deps.isEmpty then .absent else .refs deps

def mutExtSource : Id := { ns := "ns1", name := "absent", group := "", kind := "ConfigMap" }

def mutAnn (mf : Option Id) (ext : Bool := false) : DepEdges.Ann :=
  match mf with
  | some s => .refs (if ext then [mutExtSource, s] else [s])
  | none => .absent

/-! ## events, requests, run state -/

structure Snap where
  inv : Option (List Id)
  objs : List Live
deriving Repr

structure MutRec where
  verb : String
  id : Id
  dry : Bool
  precond : String
  prop : String
  result : String
  rejected : Bool
  evIdx : Nat                     -- number of events emitted before the request
  snap : Snap
deriving Repr

/-- reasons attached to skipped / failed actuation events (classes, not wording) -/
abbrev Reason := String

inductive Ev
  | init (groups : List (String × String × List Id))
  | error (kind : String)
  | group (name action status : String)
  | op (kind group : String) (id : Id) (status : String) (reason : Reason)   -- kind = apply | prune | delete
  | wait (group : String) (id : Id) (status : String)
  | status (id : Id) (st : String)
  | validation (ids : List Id) (kind : String)
deriving Repr, DecidableEq

structure St where
  cl : Cluster
  run : Run
  mutIdx : Nat := 0
  invReads : Nat := 0
  events : List Ev := []          -- newest first
  muts : List MutRec := []        -- newest first
  mgr : Mgr Id := []
  abandoned : List Id := []
  invalid : List Id := []
  cache : List (Id × Wait.Obs) := []
  cancelled : Bool := false       -- the caller's context has been cancelled
  watcherFailed : Bool := false
  graph : Graph.Adj Id := []
  edges : List (Id × Id) := []    -- the AddEdge calls of DependencyGraph in order
  waitIdx : Nat := 0
deriving Repr

def St.emit (s : St) (e : Ev) : St := { s with events := e :: s.events }

def snapOf (c : Cluster) : Snap := { inv := c.inv, objs := c.objs }

/-- a mutating request: fault injection, in-flight cancellation, effect on the store, log entry -/
def St.mutReq (s : St) (verb : String) (id : Id) (dry : Bool) (precond prop : String)
    (effect : Cluster → Cluster × String) : St × String :=
  let k := s.mutIdx
  -- in flight: first the caller's cancellation (if scheduled here), then the watcher's fatal error (if scheduled here); the
  -- runner ignores status events, errors included, once it is aborting (dry-runs use the library's blind watcher, which
  -- never fails)
  let c' := s.cancelled || decide (s.run.cancel = CancelAt.mut k)
  let s := { s with mutIdx := k + 1, cancelled := c',
                    watcherFailed := s.watcherFailed ||
                      (decide (s.run.watchErrMut = some k) && !c' && decide (s.run.opts.dry = Dry.none)) }
  if k ∈ s.run.failMut then
    ({ s with muts := ⟨verb, id, dry, precond, prop, "error", true, s.events.length, snapOf s.cl⟩ :: s.muts }, "error")
  else
    let (c', res) := effect s.cl
    ({ s with cl := c', muts := ⟨verb, id, dry, precond, prop, res, false, s.events.length, snapOf c'⟩ :: s.muts }, res)

/-- a LIST of the inventory objects (by label): `none` = injected failure -/
def St.invRead (s : St) : St × Option (Option (List Id)) :=
  let k := s.invReads
  let s := { s with invReads := k + 1 }
  if k ∈ s.run.failInvRead then (s, none) else (s, some s.cl.inv)

/-- a GET of an object: `none` = injected failure, `some none` = NotFound -/
def St.get (s : St) (id : Id) : Option (Option Live) :=
  if id ∈ s.run.failGet then none else some (s.cl.find? id)

/-! ## policy and filters -/

inductive Match | empty | yes | no
deriving DecidableEq, Repr

def idMatch (owner : String) : Match := if owner = "" then .empty else if owner = invId then .yes else .no

/-- `inventory.CanApply` -/
def canApply (owner : String) (policy : Nat) : Bool :=
  match idMatch owner with
  | .empty => policy ≠ 0
  | .yes => true
  | .no => policy = 2

/-- `inventory.CanPrune` -/
def canPrune (owner : String) (policy : Nat) : Bool :=
  match idMatch owner with
  | .empty => policy = 1 || policy = 2
  | .yes => true
  | .no => policy = 2

/-- `common.NoDeletion` -/
def noDeletion (key value : String) : Bool :=
  (key = "client.lifecycle.config.k8s.io/deletion" && value = "detach") ||
  (key = "cli-utils.sigs.k8s.io/on-remove" && value = "keep")

/-- `PreventRemoveFilter`: some annotation prevents deletion -/
def preventRemove (annots : List (String × String)) : Bool := annots.any (fun kv => noDeletion kv.1 kv.2)

/-- `LocalNamespacesFilter` -/
def namespaceInUse (id : Id) (localNs : List String) : Bool :=
  id.group = "" && id.kind = "Namespace" && decide (id.name ∈ localNs)

/-- `CurrentUIDFilter` -/
def justApplied (uid : String) (applied : List String) : Bool := decide (uid ∈ applied)

/-- outcome of the dependency filter for one relation -/
inductive DepOutcome | pass | skip (reason : Reason) | fatal (reason : Reason)
deriving DecidableEq, Repr

/-- `DependencyFilter.filterByRelationship` -/
def depRelation (invalid : List Id) (mgr : Mgr Id) (strategy : Strategy) (dry : Bool) (b : Id) : DepOutcome :=
  if b ∈ invalid then .fatal "dep-invalid"
  else match mgr.find? b with
    | none => .fatal "dep-unknown"
    | some r =>
      if r.strategy ≠ strategy then .skip "dep-mismatch"
      else match r.actuation with
        | .pending => .fatal "dep-premature"
        | .skipped | .failed => .skip "dep-blocked"
        | .succeeded =>
          if dry then .pass
          else match r.reconcile with
            | .pending => .fatal "dep-premature"
            | .skipped | .failed | .timeout => .skip "dep-blocked"
            | .succeeded => .pass

/-- `DependencyFilter.Filter`: first relation that does not pass decides -/
def depFilter (invalid : List Id) (mgr : Mgr Id) (strategy : Strategy) (dry : Bool) : List Id → DepOutcome
  | [] => .pass
  | b :: bs => match depRelation invalid mgr strategy dry b with
    | .pass => depFilter invalid mgr strategy dry bs
    | o => o

/-! ## plan -/

inductive TaskKind
  | invAdd (ids : List Id)
  | apply (ids : List Id)
  | prune (ids : List Id)
  | wait (ids : List Id) (cond : Wait.Cond)
  | invSet (prev : List Id) (prevErr : Bool)     -- prevErr: the previous inventory could not be read
deriving Repr

structure Task where
  name : String
  kind : TaskKind
deriving Repr

def Task.action (t : Task) (destroy : Bool) : String :=
  match t.kind with
  | .invAdd _ | .invSet _ _ => "Inventory"
  | .apply _ => "Apply"
  | .prune _ => if destroy then "Delete" else "Prune"
  | .wait _ _ => "Wait"

def Task.ids (t : Task) : List Id :=
  match t.kind with
  | .invAdd ids | .apply ids | .prune ids | .wait ids _ => ids
  | .invSet _ _ => []

def numbered (pfx : String) (n : Nat) : String := s!"{pfx}-{n}"

/-- apply (or prune) tasks, one per layer, each followed by a wait task unless dry-run; counters threaded -/
def layerTasks (isApply dryRun : Bool) : List (List Id) → Nat → Nat → List Task × Nat
  | [], _, w => ([], w)
  | l :: ls, c, w =>
    let t : Task := if isApply then ⟨numbered "apply" c, .apply l⟩ else ⟨numbered "prune" c, .prune l⟩
    if dryRun then
      let r := layerTasks isApply dryRun ls (c + 1) w
      (t :: r.1, r.2)
    else
      let wt : Task := ⟨numbered "wait" w, .wait l (if isApply then .allCurrent else .allNotFound)⟩
      let r := layerTasks isApply dryRun ls (c + 1) (w + 1)
      (t :: wt :: r.1, r.2)

structure Plan where
  tasks : List Task
  invalid : List Id               -- Collector.InvalidIds after Build
  valErrors : List (List Id × String)   -- validation errors in collector order: ids, kind
  applyIds : List Id              -- valid apply objects (in input order)
  pruneIds : List Id
  graph : Graph.Adj Id
  edges : List (Id × Id)
deriving Repr

/-- `Graph.Dependents(to)`: `reverseEdges[to]`, i.e. the sources in the order in which `AddEdge` first saw them -/
def dependentsOrdered (edges : List (Id × Id)) (v : Id) : List Id :=
  dedup ((edges.filter (fun e => e.2 = v)).map (·.1))

def dobjOfManifest (m : Manifest) : DepEdges.DObj :=
  { id := m.id, dependsOn := depAnn m.deps m.depsRaw, mutation := mutAnn m.mutFrom m.mutExt }
def dobjOfLive (o : Live) : DepEdges.DObj :=
  { id := o.id, dependsOn := depAnn o.deps o.depsRaw, mutation := mutAnn o.mutFrom }

def depErrKind (e : DepEdges.DepErr) : String :=
  match e.items with
  | (.invalid, _) :: _ => if e.ann = .dependsOn then "bad-annotation" else "bad-mutation"
  | (.duplicate, _) :: _ => "duplicate-dep"
  | (.external, _) :: _ => "external-dep"
  | [] => "field"

/-- the task list of `Build` from the valid ids and the layering: inventory-add, per apply layer (apply, wait),
per prune layer in reverse order (prune, wait), final inventory task; no wait tasks under dry-run -/
def planTasks (run : Run) (applyIds pruneIds : List Id) (layers : List (List Id)) (prev : List Id) (prevErr : Bool) : List Task :=
  let dryRun := decide (run.opts.dry ≠ .none)
  let t0 : List Task := if run.destroy then [] else [⟨"inventory-add-0", .invAdd applyIds⟩]
  let applyLayers := Graph.hydrate Ordering.less (fun v => decide (v ∈ applyIds)) layers
  let ta := if applyIds.isEmpty then ([], 0) else layerTasks true dryRun applyLayers 0 0
  let pruneLayers := Graph.reverseSetList (Graph.hydrate Ordering.less (fun v => decide (v ∈ pruneIds)) layers)
  let tp := if (run.destroy || !run.opts.noPrune) && !pruneIds.isEmpty then layerTasks false dryRun pruneLayers 0 ta.2 else ([], ta.2)
  let tEnd : Task := ⟨if run.destroy then "inventory-delete-or-update-0" else "inventory-set-0", .invSet prev prevErr⟩
  t0 ++ ta.1 ++ tp.1 ++ [tEnd]

/-- what validation found: objects failing field validation, the errors of `DependencyGraph`, the ids on/behind a cycle -/
structure Validation where
  fieldBad : List Id
  depErrs : List DepEdges.DepErr
  cyc : List Id
deriving Repr

/-- `Collector.InvalidIds` -/
def Validation.invalid (v : Validation) : List Id :=
  IdSet.union (IdSet.union (dedup v.fieldBad) (v.depErrs.map (·.obj))) v.cyc

/-- `Collector.Errors` in order: ids named, class -/
def Validation.errors (v : Validation) : List (List Id × String) :=
  v.fieldBad.map (fun i => ([i], "field")) ++ v.depErrs.map (fun e => ([e.obj], depErrKind e)) ++
  (if v.cyc.isEmpty then [] else [(v.cyc, "cycle")])

/-- `TaskQueueBuilder.Build` (+ the field validation done before it); `prev` = GetClusterObjs at the end of Build -/
def buildPlan (run : Run) (applyMs : List Manifest) (pruneObjs : List Live) (prev : List Id) (prevErr : Bool) : Plan :=
  -- field validation (applier validates the apply set, destroyer the delete set)
  let fieldBad : List Id :=
    if run.destroy then (pruneObjs.filter (fun o => fieldInvalid { id := o.id })).map (·.id)
    else (applyMs.filter fieldInvalid).map (·.id)
  let inv1 := dedup fieldBad
  let applyMs1 := applyMs.filter (fun m => m.id ∉ inv1)
  let pruneObjs1 := pruneObjs.filter (fun o => o.id ∉ inv1)
  let dobjs := applyMs1.map dobjOfManifest ++ pruneObjs1.map dobjOfLive
  let de := DepEdges.dependencyEdges dobjs
  let g := Graph.build (dobjs.map (·.id)) de.edges
  let s := Graph.sort g
  let v : Validation := { fieldBad := fieldBad, depErrs := de.errors, cyc := Graph.cycleIds Ordering.less s.2 }
  let applyIds := (applyMs.filter (fun m => m.id ∉ v.invalid)).map (·.id)
  let pruneIds := (pruneObjs.filter (fun o => o.id ∉ v.invalid)).map (·.id)
  { tasks := planTasks run applyIds pruneIds s.1 prev prevErr, invalid := v.invalid, valErrors := v.errors,
    applyIds := applyIds, pruneIds := pruneIds, graph := g, edges := de.edges }

/-! ## tasks -/

def dryOf (s : St) : Bool := s.run.opts.dry ≠ .none

def manifestOf (s : St) (id : Id) : Option Manifest := s.run.objs.find? (fun m => m.id = id)

/-- content a manifest would have after apply-time mutation: (rev, from) -/
def contentOf (m : Manifest) (frm : Option String) : String × Option String := (revStr m, frm)

/-- the store effect of a create (POST or first server-side apply) of manifest `m` -/
def createLive (m : Manifest) (frm : Option String) (lastApplied : Bool) (c : Cluster) : Cluster × Live :=
  let (u, c1) := c.freshUid
  let o : Live := { id := m.id, uid := u, gen := 1, owner := invId, rev := revStr m, frm := frm, keep := m.keep, detach := m.detach,
                    deps := m.deps, depsRaw := m.depsRaw, mutFrom := m.mutFrom,
                    lastApplied := if lastApplied then some (contentOf m frm) else none }
  (c1.put o, o)

/-- the store effect of a patch / server-side apply of manifest `m` over the live object `old` -/
def patchLive (m : Manifest) (frm : Option String) (lastApplied : Bool) (old : Live) : Live :=
  let changed := old.rev ≠ revStr m || (frm.isSome && old.frm ≠ frm)
  { old with owner := invId, rev := revStr m, frm := if frm.isSome then frm else old.frm,
             keep := old.keep || m.keep, detach := old.detach || m.detach,
             deps := if m.deps.isEmpty && m.depsRaw = "" then old.deps else m.deps,
             depsRaw := if m.deps.isEmpty && m.depsRaw = "" then old.depsRaw else m.depsRaw,
             mutFrom := if m.mutFrom.isSome then m.mutFrom else old.mutFrom,
             gen := if changed then old.gen + 1 else old.gen,
             lastApplied := if lastApplied then some (contentOf m frm) else old.lastApplied }

def opKind (s : St) : String := if s.run.destroy then "delete" else "prune"

/-! ### apply: decision, then effect -/

/-- what `ApplyTask.Start` decides for one object before it talks to kubectl -/
inductive ApplyDecision
  | fail (r : Reason)                 -- a filter failed fatally / the mutation failed
  | skip (r : Reason)                 -- a filter said no
  | go (frm : Option String)          -- apply, with this apply-time-mutation value (if any)
deriving DecidableEq, Repr

/-- `InventoryPolicyApplyFilter`: none = fatal (GET failed), some none = pass, some (some r) = skip -/
def policyApply (s : St) (id : Id) : Option (Option Reason) :=
  if s.run.opts.policy = 2 then some none
  else match s.get id with
    | none => none
    | some none => some none
    | some (some live) => if canApply live.owner s.run.opts.policy then some none else some (some "policy")

/-- `ApplyTimeMutator.Mutate` for the one substitution the generated manifests use -/
def mutateSource (s : St) (m : Manifest) : Except Reason (Option String) :=
  match m.mutFrom with
  | none => .ok none
  | some src =>
    match (match s.cache.lookup src with
           | some o => if o.hasRes && o.status = Wait.KStatus.current then some () else none
           | none => none) with
    | some _ => (match s.cl.find? src with
                 | some l => if m.mutBad then .error "mutate" else .ok (some l.rev)
                 | none => .error "mutate")
    | none => match s.get src with
      | none => .error "fault"
      | some none => .error "mutate"
      | some (some l) => if m.mutBad then .error "mutate" else .ok (some l.rev)

/-- `ApplyTask.Start`, per object: first `InfoHelper.BuildInfo` (fails for the kinds in `run.failInfo`: Failed, no filter is
evaluated, no request), then the filter chain, then the apply-time mutation -/
def applyDecision (s : St) (m : Manifest) : ApplyDecision :=
  if m.id.kind ∈ s.run.failInfo then .fail "info"
  else
  match policyApply s m.id with
  | none => .fail "fault"
  | some (some r) => .skip r
  | some none =>
    match depFilter s.invalid s.mgr .apply (dryOf s) (Graph.deps s.graph m.id) with
    | .fatal r => .fail r
    | .skip r => .skip r
    | .pass =>
      match mutateSource s m with
      | .error r => .fail r
      | .ok frm => .go frm

/-- a failing `BuildInfo` decides the step, whatever the filters would say -/
theorem applyDecision_info (s : St) (m : Manifest) (h : m.id.kind ∈ s.run.failInfo) : applyDecision s m = .fail "info" := by
  simp [applyDecision, h]

/-- an object is handed to kubectl only if its `Info` could be built -/
theorem applyDecision_go_info (s : St) (m : Manifest) (frm : Option String) (h : applyDecision s m = .go frm) :
    m.id.kind ∉ s.run.failInfo := by
  intro hin; rw [applyDecision_info s m hin] at h; cases h

def applyFail (group : String) (s : St) (id : Id) (r : Reason) : St :=
  { (s.emit (.op "apply" group id "Failed" r)) with mgr := s.mgr.add id .apply .failed }
def applySkip (group : String) (s : St) (id : Id) (r : Reason) : St :=
  { (s.emit (.op "apply" group id "Skipped" r)) with mgr := s.mgr.add id .apply .skipped }
def applyOk (group : String) (s : St) (id : Id) (uid : String) (gen : Int) : St :=
  { (s.emit (.op "apply" group id "Successful" "")) with mgr := s.mgr.add id .apply .succeeded uid gen }

/-- store effect of one server-side-apply PATCH -/
def ssaEffect (m : Manifest) (frm : Option String) (dry : Bool) (c : Cluster) : Cluster × String :=
  match c.find? m.id with
  | none => if dry then (c, "ok") else ((createLive m frm false c).1, "ok")
  | some old => if dry then (c, "ok") else (c.put (patchLive m frm false old), "ok")

/-- `newApplyOptions`: which kubectl path is taken (as repaired: never the server-side path under client dry-run) -/
def useSSA (o : Opts) : Bool := (o.ssa && o.dry != .client) || o.dry == .server

/-- kubectl, server-side apply: one PATCH (create or update), carrying the dry-run directive under server dry-run -/
def ssaApply (group : String) (s : St) (m : Manifest) (frm : Option String) : St :=
  let id := m.id
  let dry := s.run.opts.dry == .server
  let r := s.mutReq "patch" id dry "" "" (ssaEffect m frm dry)
  if r.2 = "error" then applyFail group r.1 id "fault"
  else
    -- uid/generation returned by the server (for a dry-run: of the object that would result)
    match s.cl.find? id with
    | none => if dry then applyOk group r.1 id s!"uid-dry-{s.cl.nextUid + 1}" 1
              else (match r.1.cl.find? id with | some l => applyOk group r.1 id l.uid l.gen | none => applyOk group r.1 id "" 0)
    | some old => applyOk group r.1 id (patchLive m frm false old).uid (patchLive m frm false old).gen

/-- kubectl, client-side apply: GET, then POST or PATCH (only if something changed; nothing under client dry-run) -/
def csaApply (group : String) (s : St) (m : Manifest) (frm : Option String) : St :=
  let id := m.id
  match s.get id with
  | none => applyFail group s id "fault"
  | some none =>
    if s.run.opts.dry = .client then applyOk group s id "" 0
    else
      let r := s.mutReq "create" id false "" "" (fun c => ((createLive m frm true c).1, "ok"))
      if r.2 = "error" then applyFail group r.1 id "fault"
      else match r.1.cl.find? id with | some l => applyOk group r.1 id l.uid l.gen | none => applyOk group r.1 id "" 0
  | some (some old) =>
    let n := patchLive m frm true old
    let unchanged := old.lastApplied = some (contentOf m frm) && old.owner = invId && n = old
    if unchanged || s.run.opts.dry = .client then applyOk group s id old.uid old.gen
    else
      let r := s.mutReq "patch" id false "" "" (fun c => (c.put n, "ok"))
      if r.2 = "error" then applyFail group r.1 id "fault" else applyOk group r.1 id n.uid n.gen

/-- kubectl's `ApplyOptions.Run` for one object -/
def kubectlApply (group : String) (s : St) (m : Manifest) (frm : Option String) : St :=
  if useSSA s.run.opts then ssaApply group s m frm else csaApply group s m frm

/-- `ApplyTask.Start` for one object -/
def applyOne (group : String) (s : St) (id : Id) : St :=
  match manifestOf s id with
  | none => s
  | some m =>
    match applyDecision s m with
    | .fail r => applyFail group s id r
    | .skip r => applySkip group s id r
    | .go frm => kubectlApply group s m frm

/-! ### prune: decision, then effect -/

inductive PruneDecision
  | failNoUid
  | preventDry                        -- deletion-prevention annotation, dry-run: skipped only
  | preventNoAnnotation               -- … object carries no owning annotation: abandoned without a request
  | preventUpdate                     -- … annotation removed with an update request, then abandoned
  | skip (r : Reason)                 -- inventory policy / namespace in use / dependents
  | fail (r : Reason)
  | justApplied
  | deleteDry
  | delete
deriving DecidableEq, Repr

/-- the filter chain of `Pruner.Prune` for one object (`live` = the object as read at planning time) -/
def pruneDecision (uids : List String) (localNs : List String) (s : St) (live : Live) : PruneDecision :=
  if live.uid = "" then .failNoUid
  else if live.keep || live.detach then
    if dryOf s then .preventDry else if live.owner = "" then .preventNoAnnotation else .preventUpdate
  else if !(canPrune live.owner s.run.opts.policy) then .skip "policy"
  else if !s.run.destroy && namespaceInUse live.id localNs then .skip "namespace-in-use"
  else match depFilter s.invalid s.mgr .delete (dryOf s) (dependentsOrdered s.edges live.id) with
    | .fatal r => .fail r
    | .skip r => .skip r
    | .pass =>
      if justApplied live.uid uids then .justApplied
      else if dryOf s then .deleteDry else .delete

def pruneFail (kind group : String) (s : St) (id : Id) (r : Reason) : St :=
  { (s.emit (.op kind group id "Failed" r)) with mgr := s.mgr.add id .delete .failed }
def pruneSkip (kind group : String) (s : St) (id : Id) (r : Reason) : St :=
  { (s.emit (.op kind group id "Skipped" r)) with mgr := s.mgr.add id .delete .skipped }
def pruneOk (kind group : String) (s : St) (id : Id) (uid : String) : St :=
  { (s.emit (.op kind group id "Successful" "")) with mgr := s.mgr.add id .delete .succeeded uid }

def propagationOf (s : St) : String := if s.run.opts.foreground then "Foreground" else "Background"

/-- store effect of the annotation removal (the planned copy of the object, minus the annotation, is written) -/
def abandonEffect (live : Live) (c : Cluster) : Cluster × String :=
  match c.find? live.id with
  | none => (c, "notfound")
  | some cur => (c.put { cur with owner := "", keep := live.keep, detach := live.detach, rev := live.rev, frm := live.frm,
                                  gen := if cur.rev ≠ live.rev || cur.frm ≠ live.frm then cur.gen + 1 else cur.gen }, "ok")

/-- store effect of a delete with UID precondition (`finalizer`: the object is only marked) -/
def deleteEffect (finalizer : Bool) (live : Live) (c : Cluster) : Cluster × String :=
  match c.find? live.id with
  | none => (c, "notfound")
  | some cur =>
    if cur.uid ≠ live.uid then (c, "conflict")
    else if finalizer then (c.put { cur with deleting := true }, "ok")
    else (c.remove live.id, "ok")

/-- the scripted environment keeps the object (deletionTimestamp only) when a finalizer is configured for it -/
def hasFinalizer (run : Run) (id : Id) : Bool :=
  (run.del.lookup id).getD "gone" == "finalizer" || (run.del.lookup id).getD "gone" == "finalizer-gone"

/-- `Pruner.Prune` for one object -/
def pruneOne (group : String) (uids : List String) (localNs : List String) (s : St) (live : Live) : St :=
  let id := live.id
  let kind := opKind s
  match pruneDecision uids localNs s live with
  | .failNoUid => pruneFail kind group s id "notfound"
  | .preventDry => pruneSkip kind group s id "prevent-remove"
  | .preventNoAnnotation => pruneSkip kind group { s with abandoned := s.abandoned ++ [id] } id "prevent-remove"
  | .preventUpdate =>
    let r := s.mutReq "update" id false "" "" (abandonEffect live)
    if r.2 = "ok" then pruneSkip kind group { r.1 with abandoned := r.1.abandoned ++ [id] } id "prevent-remove"
    else pruneFail kind group r.1 id (if r.2 = "error" then "fault" else "notfound")
  | .skip r => pruneSkip kind group s id r
  | .fail r => pruneFail kind group s id r
  | .justApplied => pruneSkip kind group (if dryOf s then s else { s with abandoned := s.abandoned ++ [id] }) id "just-applied"
  | .deleteDry => pruneOk kind group s id live.uid
  | .delete =>
    let r := s.mutReq "delete" id false live.uid (propagationOf s)
      (deleteEffect (hasFinalizer s.run id) live)
    if r.2 = "ok" || r.2 = "notfound" then pruneOk kind group r.1 id live.uid
    else pruneFail kind group r.1 id (if r.2 = "error" then "fault" else "precondition")

/-- `DeleteOrUpdateInvTask.updateInventory`: the ids of the final inventory -/
def finalInventory (mgr : Mgr Id) (prev abandoned invalid : List Id) : List Id :=
  let i0 : List Id := []
  let i1 := IdSet.union i0 (mgr.withActuation .apply .succeeded)
  let i2 := IdSet.union i1 (IdSet.inter prev (mgr.withActuation .apply .failed))
  let i3 := IdSet.union i2 (IdSet.inter prev (mgr.withActuation .apply .skipped))
  let i4 := IdSet.union i3 (IdSet.inter prev (mgr.withActuation .delete .failed))
  let i5 := IdSet.union i4 (IdSet.inter prev (mgr.withActuation .delete .skipped))
  let i6 := IdSet.union i5 (IdSet.inter prev (mgr.withReconcile .failed))
  let i7 := IdSet.union i6 (IdSet.inter prev (mgr.withReconcile .timeout))
  let i8 := IdSet.diff i7 abandoned
  IdSet.union i8 (IdSet.inter prev invalid)

/-- `destroySuccessful` (as repaired: nothing that is still tracked may remain) -/
def destroySuccessful (mgr : Mgr Id) (prev abandoned invalid : List Id) : Bool :=
  (mgr.withActuation .delete .failed).isEmpty && (mgr.withReconcile .failed).isEmpty && (mgr.withReconcile .timeout).isEmpty &&
  (IdSet.diff (mgr.withActuation .delete .skipped) abandoned).isEmpty && (IdSet.inter prev invalid).isEmpty

def storable (ids : List Id) : Bool :=
  ids.all fun i => IdStr.roundTrips { ns := i.ns.toList, name := i.name.toList, group := i.group.toList, kind := i.kind.toList }

/-- result of running a task: the state and whether the task reported an error (and its class) -/
abbrev TaskRes := St × Option String

def nsInv : Id := { ns := "", name := invNs, group := "", kind := "Namespace" }

/-- store effect of `ApplyInventoryNamespace` (a plain create of the annotated namespace; AlreadyExists is tolerated) -/
def nsCreateEffect (run : Run) (c : Cluster) : Cluster × String :=
  match c.find? nsInv with
  | some _ => (c, "exists")
  | none =>
    match run.objs.find? (fun m => m.id = nsInv) with
    | some m =>
      ((c.freshUid.2).put { id := nsInv, uid := c.freshUid.1, gen := 1, owner := invId, rev := "", keep := m.keep, detach := m.detach,
                            lastApplied := some ("", none) }, "ok")
    | none => (c, "ok")

/-- first write of the inventory object -/
def invCreateEffect (ids : List Id) (c : Cluster) : Cluster × String :=
  ({ c.freshUid.2 with inv := some (dedup ids), invUid := c.freshUid.1 }, "ok")

/-- update of the inventory object -/
def invUpdateEffect (ids : List Id) (c : Cluster) : Cluster × String :=
  match c.inv with
  | none => (c, "notfound")
  | some _ => ({ c with inv := some ids }, "ok")

def errOfRes (res : String) : Option String := if res = "ok" then none else some (if res = "error" then "fault" else "other")

/-- `ClusterClient.Merge` -/
def mergeInv (s : St) (ids : List Id) : TaskRes :=
  let r1 := s.invRead
  match r1.2 with
  | none => (r1.1, some "fault")
  | some none =>
    if !storable ids then (r1.1, some "other")
    else if dryOf r1.1 then (r1.1, none)
    else
      let r := r1.1.mutReq "create" invObjId false "" "" (invCreateEffect ids)
      (r.1, if r.2 = "error" then some "fault" else none)
  | some (some _) =>
    let r2 := r1.1.invRead
    match r2.2 with
    | none => (r2.1, some "fault")
    | some cur =>
      let clusterObjs := cur.getD []
      let union := IdSet.union clusterObjs ids
      if !storable union then (r2.1, some "other")
      else if IdSet.equal ids clusterObjs && !r2.1.run.opts.statusAll then (r2.1, none)
      else if dryOf r2.1 then (r2.1, none)
      else
        let r := r2.1.mutReq "update" invObjId false "" "" (invUpdateEffect union)
        (r.1, errOfRes r.2)

/-- `InvAddTask.Start` -/
def runInvAdd (s : St) (ids : List Id) : TaskRes :=
  -- inventory namespace in the apply set: created first (not under dry-run)
  if nsInv ∈ ids && !dryOf s then
    let r := s.mutReq "create" nsInv false "" "" (nsCreateEffect s.run)
    if r.2 = "error" then (r.1, some "fault") else mergeInv r.1 ids
  else mergeInv s ids

/-- `ClusterClient.Replace` -/
def replaceInv (s : St) (objs : List Id) : TaskRes :=
  if dryOf s then (s, none)
  else
    let r1 := s.invRead
    match r1.2 with
    | none => (r1.1, some "fault")
    | some _ =>
      let r2 := r1.1.invRead
      match r2.2 with
      | none => (r2.1, some "fault")
      | some cur =>
        let clusterObjs := cur.getD []
        if !storable objs then (r2.1, some "other")
        else if IdSet.equal objs clusterObjs && !r2.1.run.opts.statusAll then (r2.1, none)
        else
          let r := r2.1.mutReq "update" invObjId false "" "" (invUpdateEffect (dedup objs))
          (r.1, errOfRes r.2)

/-- `DeleteInventoryObj` (by label: list, then delete each — the dry-run test sits in the per-object delete) -/
def deleteInv (s : St) : TaskRes :=
  let r1 := s.invRead
  match r1.2 with
  | none => (r1.1, some "fault")
  | some none => (r1.1, none)
  | some (some _) =>
    if dryOf r1.1 then (r1.1, none)
    else
      let r := r1.1.mutReq "delete" invObjId false "" "" (fun c => ({ c with inv := none }, "ok"))
      (r.1, if r.2 = "error" then some "fault" else none)

/-- `DeleteOrUpdateInvTask.Start` -/
def runInvSet (s : St) (prev : List Id) (prevErr : Bool) : TaskRes :=
  if prevErr then (s, some "fault")
  else if s.run.destroy && destroySuccessful s.mgr prev s.abandoned s.invalid then deleteInv s
  else replaceInv s (finalInventory s.mgr prev s.abandoned s.invalid)

/-! ## wait phases: the scripted status feed -/

def kstatusName : Wait.KStatus → String
  | .inProgress => "InProgress" | .failed => "Failed" | .current => "Current"
  | .terminating => "Terminating" | .notFound => "NotFound" | .unknown => "Unknown"

def wevName : Wait.WEv → String
  | .pending => "Pending" | .successful => "Successful" | .skipped => "Skipped" | .timeout => "Timeout" | .failed => "Failed"

/-- one scripted delivery: which object, which status, with the live object attached?, generation offset, replaced uid?,
and an environment action performed just before it (the finalizer completes) -/
structure Delivery where
  id : Id
  status : Wait.KStatus
  withRes : Bool
  genDelta : Int := 0
  newUid : Bool := false
  envRemove : Bool := false
deriving Repr

def scriptFor (run : Run) (cond : Wait.Cond) (id : Id) : List (List Delivery) :=
  -- a list of chains: within a chain a delivery is attempted only if the previous one was made
  match cond with
  | .allNotFound =>
    match (run.del.lookup id).getD "gone" with
    | "finalizer" => [[⟨id, .terminating, true, 0, false, false⟩]]
    | "finalizer-gone" => [[⟨id, .terminating, true, 0, false, false⟩, ⟨id, .notFound, false, 0, false, true⟩]]
    -- deleted and re-created by another client: the watcher reports the new object (new UID) as Current
    | "replaced" => [[⟨id, .current, true, 0, true, false⟩]]
    | _ => [[⟨id, .notFound, false, 0, false, false⟩]]
  | .allCurrent =>
    match (run.ctrl.lookup id).getD "current" with
    | "never" => [[⟨id, .inProgress, true, 0, false, false⟩]]
    | "stale" => [[⟨id, .current, true, -1, false, false⟩]]
    | "failed" => [[⟨id, .failed, true, 0, false, false⟩]]
    | "failed-current" => [[⟨id, .failed, true, 0, false, false⟩, ⟨id, .current, true, 0, false, false⟩]]
    | "failed-stale" => [[⟨id, .failed, true, 0, false, false⟩, ⟨id, .current, true, -1, false, false⟩]]
    | "replaced" => [[⟨id, .current, true, 0, true, false⟩]]
    | _ => [[⟨id, .current, true, 0, false, false⟩]]

structure WaitSt where
  s : St
  w : Wait.WState Id
  delivered : Nat := 0
  stopped : Bool := false      -- cancellation / watcher failure happened: no further deliveries

def obsOf (c : Cluster) (d : Delivery) : Wait.Obs :=
  if d.withRes then
    match c.find? d.id with
    | some l => { status := d.status, hasRes := true, gen := l.gen + d.genDelta, uid := if d.newUid then "uid-replaced" else l.uid }
    | none => { status := d.status, hasRes := false, gen := 0, uid := "" }
  else { status := d.status, hasRes := false, gen := 0, uid := "" }

/-- flush the wait events produced since `n0` into the run's event list -/
def flushWait (group : String) (s : St) (w : Wait.WState Id) (n0 : Nat) : St :=
  (w.events.drop n0).foldl (fun s e => s.emit (.wait group e.1 (wevName e.2))) s

/-- what the runner does with a status event before the task sees it: (environment action first,) cache Put, optional
forwarded status event -/
def deliverState (s : St) (d : Delivery) : St :=
  let cl := if d.envRemove then s.cl.remove d.id else s.cl
  let s1 : St := { s with cl := cl, cache := (d.id, obsOf cl d) :: s.cache }
  if s1.run.opts.emitStatus then s1.emit (.status d.id (kstatusName d.status)) else s1

/-- one delivery attempt (`deliver` in the harness); returns the new state and whether the delivery was made -/
def deliverOne (group : String) (n : Nat) (ws : WaitSt) (d : Delivery) : WaitSt × Bool :=
  if ws.stopped || ws.w.cancelled || ws.w.pending.isEmpty then (ws, false)
  else if ws.s.run.cancel = .wait n (some ws.delivered) then
    ({ ws with s := { ws.s with cancelled := true }, w := Wait.cancel ws.w, stopped := true }, false)
  else if ws.s.run.watchErr = some (n, ws.delivered) then
    ({ ws with s := { ws.s with watcherFailed := true }, w := Wait.cancel ws.w, stopped := true }, false)
  else
    let s2 := deliverState ws.s d
    let o := obsOf s2.cl d
    let n0 := ws.w.events.length
    let w' := Wait.statusUpdate { ws.w with mgr := s2.mgr } d.id o
    let s3 := flushWait group { s2 with mgr := w'.mgr } w' n0
    ({ ws with s := s3, w := w', delivered := ws.delivered + 1 }, true)

def deliverChain (group : String) (n : Nat) : WaitSt → List Delivery → WaitSt
  | ws, [] => ws
  | ws, d :: ds =>
    let (ws', made) := deliverOne group n ws d
    if made then deliverChain group n ws' ds else ws'

/-- `WaitTask` under the scripted feed -/
def runWait (group : String) (s : St) (ids : List Id) (cond : Wait.Cond) : TaskRes :=
  let n := s.waitIdx
  let s := { s with waitIdx := n + 1 }
  let w0 := Wait.start ids cond s.mgr s.cache
  let s1 := flushWait group { s with mgr := w0.mgr } w0 0
  let chains := ids.flatMap (scriptFor s.run cond)
  let ws := chains.foldl (deliverChain group n) { s := s1, w := w0 }
  -- after the script: cancellation "at the end", or the deadline
  let ws :=
    if !ws.stopped && !ws.w.cancelled && !ws.w.pending.isEmpty && ws.s.run.cancel = .wait n none then
      { ws with s := { ws.s with cancelled := true }, w := Wait.cancel ws.w, stopped := true }
    else ws
  if ws.w.cancelled then (ws.s, none)
  else if !ws.s.run.opts.timeout then
    -- no deadline configured and objects still pending: the real phase would wait forever (the harness reports a hang;
    -- the generator configures a timeout whenever a phase can stay pending, so this branch is not exercised)
    (ws.s, some "hang")
  else
    -- the deadline fires: Timeout for exactly the pending objects
    let n0 := ws.w.events.length
    let w' := Wait.timeout { ws.w with mgr := ws.s.mgr }
    (flushWait group { ws.s with mgr := w'.mgr } w' n0, none)

/-! ## the runner -/

def runTask (s : St) (t : Task) (pruneObjs : List Live) (localNs : List String) : TaskRes :=
  match t.kind with
  | .invAdd ids => runInvAdd s ids
  | .apply ids => (ids.foldl (applyOne t.name) s, none)
  | .prune ids =>
    let uids := s.mgr.appliedUIDs
    let lives := ids.filterMap (fun i => pruneObjs.find? (fun o => o.id = i))
    (lives.foldl (pruneOne t.name uids localNs) s, none)
  | .wait ids cond => runWait t.name s ids cond
  | .invSet prev prevErr => runInvSet s prev prevErr

/-- `TaskStatusRunner.Run` after the sync event: tasks in order; stop after the task during which the run was aborted -/
def runTasks (pruneObjs : List Live) (localNs : List String) : St → List Task → St
  | s, [] => s
  | s, t :: ts =>
    let act := t.action s.run.destroy
    let s1 := s.emit (.group t.name act "Started")
    let (s2, err) := runTask s1 t pruneObjs localNs
    let s3 := s2.emit (.group t.name act "Finished")
    match err with
    | some k => s3.emit (.error k)
    | none =>
      -- a cancellation that comes after a watcher error replaces the reason; one that came before makes the runner ignore it
      if s3.cancelled then s3.emit (.error "canceled")
      else if s3.watcherFailed then s3.emit (.error "watcher")
      else runTasks pruneObjs localNs s3 ts

/-- `GetPruneObjs`: the stored ids not in the apply set that still exist; `none` = read error -/
def getPruneObjs (s : St) (applyIds : List Id) : St × Option (List Live) :=
  let (s, r) := s.invRead
  match r with
  | none => (s, none)
  | some inv =>
    let ids := IdSet.diff (inv.getD []) applyIds
    -- a failing GET aborts; NotFound (and unknown types) are skipped
    let res := ids.foldl (fun (acc : Option (List Live)) i =>
      match acc with
      | none => none
      | some l =>
        if (scopeOf i.group i.kind).isNone then some l
        else match s.get i with
          | none => none
          | some none => some l
          | some (some o) => some (l ++ [o])) (some [])
    (s, res)

/-- bookkeeping between `Build` and the runner: validation events, invalid ids, the graph, the pending registrations
made by `Build` (and, with pruning disabled, the skipped-delete registration of the un-applied tracked objects), plan event -/
def prepare (s : St) (plan : Plan) (pruneObjs : List Live) : St :=
  let run := s.run
  let s := plan.valErrors.foldl (fun s e => s.emit (.validation e.1 e.2)) s
  let m1 := plan.applyIds.foldl (fun m i => m.add i .apply .pending) s.mgr
  let m2 := if (run.destroy || !run.opts.noPrune) && !plan.pruneIds.isEmpty then
      plan.pruneIds.foldl (fun m i => m.add i .delete .pending) m1 else m1
  let m3 := if !run.destroy && run.opts.noPrune then pruneObjs.foldl (fun m o => m.add o.id .delete .skipped) m2 else m2
  { s with invalid := plan.invalid, graph := plan.graph, edges := plan.edges, mgr := m3,
           events := .init (plan.tasks.map (fun t => (t.name, t.action run.destroy, t.ids))) :: s.events }

/-- statuses the watcher reports before its sync event (informers' initial adds): cached, forwarded if requested -/
def initialStatuses (s : St) : St :=
  if s.run.opts.dry ≠ .none then s else     -- dry-runs use the library's blind watcher
  s.run.initial.foldl (fun s id =>
    match s.cl.find? id with
    | none => s
    | some l =>
      let s1 := { s with cache := (id, { status := .current, hasRes := true, gen := l.gen, uid := l.uid }) :: s.cache }
      if s1.run.opts.emitStatus then s1.emit (.status id "Current") else s1) s

def localNamespaces (applyIdsAll : List Id) : List String := dedup ((applyIdsAll.map (·.ns)).filter (· ≠ "") ++ [invNs])

/-- `Applier.Run` / `Destroyer.Run` -/
def runOne (c : Cluster) (run : Run) : St :=
  let s0 : St := { cl := run.envDel.foldl (fun c i => c.remove i) c, run := run }
  let applyMs := if run.destroy then [] else run.objs
  let applyIdsAll := applyMs.map (·.id)
  let r1 := getPruneObjs s0 applyIdsAll
  match r1.2 with
  | none => r1.1.emit (.error "fault")
  | some pruneObjs =>
    -- Build reads the stored inventory once more (an error is handed to the final task)
    let r2 := r1.1.invRead
    let prev : List Id := match r2.2 with | some (some l) => l | _ => []
    let plan := buildPlan run applyMs pruneObjs prev r2.2.isNone
    if !run.opts.skipInvalid && !plan.valErrors.isEmpty then r2.1.emit (.error "other")
    else
      let s := initialStatuses (prepare r2.1 plan pruneObjs)
      if run.cancel = .beforeSync && run.opts.dry = .none then s.emit (.error "canceled")
      else runTasks pruneObjs (localNamespaces applyIdsAll) s plan.tasks

/-- the caller's cancellation and the watcher's sync event become ready together (the runner was busy forwarding a status
event): Go's `select` may take either.  `syncFirst = false`: the cancellation is seen first — nothing is started
(`CancelAt.beforeSync`).  `syncFirst = true`: the sync event is taken first — the first task is started, the cancellation is
seen while it runs, it is finished (only wait tasks can be interrupted) and the run ends with the context error. -/
def runOneAtSync (c : Cluster) (run : Run) (syncFirst : Bool) : St :=
  if !syncFirst then runOne c { run with cancel := .beforeSync }
  else
    let run := { run with cancel := .never }
    let s0 : St := { cl := run.envDel.foldl (fun c i => c.remove i) c, run := run }
    let applyMs := if run.destroy then [] else run.objs
    let applyIdsAll := applyMs.map (·.id)
    let r1 := getPruneObjs s0 applyIdsAll
    match r1.2 with
    | none => r1.1.emit (.error "fault")
    | some pruneObjs =>
      let r2 := r1.1.invRead
      let prev : List Id := match r2.2 with | some (some l) => l | _ => []
      let plan := buildPlan run applyMs pruneObjs prev r2.2.isNone
      if !run.opts.skipInvalid && !plan.valErrors.isEmpty then r2.1.emit (.error "other")
      else
        let s := initialStatuses (prepare r2.1 plan pruneObjs)
        runTasks pruneObjs (localNamespaces applyIdsAll) { s with cancelled := run.opts.dry = .none } plan.tasks

end CliUtils.Sys
