import CliUtils.Model.Basic
import CliUtils.Model.IdSet
import CliUtils.Model.IdStr
import CliUtils.Model.Manager
import CliUtils.Model.Wait
import CliUtils.Model.Graph
import CliUtils.Model.DepEdges
import CliUtils.Model.Event
/-
  System-level model: one apply / destroy run of the library against a cluster.

    pkg/apply/applier.go, destroyer.go        Run: validate, prepareObjects, build plan, policy switch, runner
    pkg/apply/solver/solver.go                TaskQueueBuilder.Build
    pkg/apply/taskrunner/runner.go            sequential execution, abort handling
    pkg/apply/task/{inv_add,apply,prune,inv_set}_task.go, pkg/apply/prune/prune.go, pkg/apply/filter/*.go
    pkg/inventory/{inventory-client,inventorycm,policy}.go, pkg/common/common.go, pkg/object/validation/*

  Environment (modelled, not verified): the API server is the in-memory store of harness/internal/fakecluster
  (uid counter, generation bump on content change, delete with UID precondition, finalizers as deletionTimestamp),
  kubectl's ApplyOptions.Run is GET + (POST | PATCH-if-changed) or one server-side-apply PATCH, and the status feed is
  the scripted one of harness/cmd/corr/sys_run.go.  The correspondence run compares events, mutating requests (with the
  store snapshot after each one) and the final store with the real Applier/Destroyer on the same histories.
-/
namespace CliUtils.Sys
open CliUtils

/-! ## inputs -/

structure Manifest where
  id : Id
  deps : List Id := []
  depsRaw : String := ""
  keep : Bool := false
  detach : Bool := false
  rev : Int := 0
  mutFrom : Option Id := none
  owner : String := ""           -- only for pre-existing objects
deriving DecidableEq, Repr, Inhabited

inductive Dry | none | client | server
deriving DecidableEq, Repr, Inhabited

structure Opts where
  noPrune : Bool := false
  policy : Nat := 0              -- 0 MustMatch, 1 AdoptIfNoInventory, 2 AdoptAll
  dry : Dry := .none
  skipInvalid : Bool := false
  ssa : Bool := false
  timeout : Bool := false
  emitStatus : Bool := false
  foreground : Bool := false
deriving Repr, Inhabited

inductive CancelAt
  | never
  | beforeSync
  | wait (n : Nat) (j : Option Nat)   -- during the n-th wait group, instead of delivery j (none = after the script)
  | mut (k : Nat)                     -- while mutating request k is in flight
deriving DecidableEq, Repr, Inhabited

structure Run where
  destroy : Bool
  objs : List Manifest
  opts : Opts
  failMut : List Nat := []
  failInvRead : List Nat := []
  failGet : List Id := []
  ctrl : List (Id × String) := []
  del : List (Id × String) := []
  cancel : CancelAt := .never
  watchErr : Option (Nat × Nat) := none
  envDel : List Id := []
deriving Repr, Inhabited

def invId : String := "inv-1"
def invNs : String := "ns1"
def invObjId : Id := { ns := "ns1", name := "inv", group := "", kind := "ConfigMap" }

/-! ## cluster -/

structure Live where
  id : Id
  uid : String
  gen : Int
  owner : String                  -- owning-inventory annotation ("" = none)
  deleting : Bool := false
  rev : String := ""
  frm : Option String := none     -- data.from (apply-time mutation target)
  keep : Bool := false
  detach : Bool := false
  deps : List Id := []
  depsRaw : String := ""
  mutFrom : Option Id := none
  /-- content recorded in the last-applied-configuration annotation (rev, from); none if kubectl never wrote one -/
  lastApplied : Option (String × Option String) := none
deriving DecidableEq, Repr, Inhabited

structure Cluster where
  objs : List Live := []
  inv : Option (List Id) := none
  invUid : String := ""
  nextUid : Nat := 0
deriving Repr, Inhabited

def Cluster.find? (c : Cluster) (id : Id) : Option Live := c.objs.find? (fun o => o.id = id)
def Cluster.remove (c : Cluster) (id : Id) : Cluster := { c with objs := c.objs.filter (fun o => o.id ≠ id) }
def Cluster.put (c : Cluster) (o : Live) : Cluster :=
  if (c.find? o.id).isSome then { c with objs := c.objs.map (fun x => if x.id = o.id then o else x) }
  else { c with objs := c.objs ++ [o] }
def Cluster.freshUid (c : Cluster) : String × Cluster :=
  (s!"uid-{c.nextUid + 1}", { c with nextUid := c.nextUid + 1 })

/-- only ConfigMaps and Secrets (and unknown kinds) carry content in the generated manifests -/
def revStr (m : Manifest) : String :=
  if m.id.group = "" ∧ (m.id.kind = "ConfigMap" ∨ m.id.kind = "Secret") then toString m.rev
  else if (m.id.group = "" ∧ m.id.kind = "Namespace") ∨ (m.id.group = "rbac.authorization.k8s.io" ∧ m.id.kind = "ClusterRole") ∨
          (m.id.group = "apps" ∧ m.id.kind = "Deployment") then ""
  else toString m.rev

/-- an object put into the store by somebody else (the environment) -/
def Cluster.putPre (c : Cluster) (m : Manifest) : Cluster :=
  let (u, c1) := c.freshUid
  c1.put { id := m.id, uid := u, gen := 1, owner := m.owner, rev := revStr m,
           frm := if m.mutFrom.isSome then some "unset" else none, keep := m.keep, detach := m.detach,
           deps := m.deps, depsRaw := m.depsRaw, mutFrom := m.mutFrom }

/-! ## kinds, validation -/

inductive Scope | namespaced | cluster
deriving DecidableEq, Repr

def scopeOf (group kind : String) : Option Scope :=
  if group = "" ∧ (kind = "ConfigMap" ∨ kind = "Secret") then some .namespaced
  else if group = "apps" ∧ kind = "Deployment" then some .namespaced
  else if group = "" ∧ kind = "Namespace" then some .cluster
  else if group = "rbac.authorization.k8s.io" ∧ kind = "ClusterRole" then some .cluster
  else none

/-- `Validator.Validate` for one object: does it produce a validation error? -/
def fieldInvalid (m : Manifest) : Bool :=
  m.id.kind = "" || m.id.name = "" ||
  (match scopeOf m.id.group m.id.kind with
   | none => true
   | some .namespaced => m.id.ns = ""
   | some .cluster => m.id.ns ≠ "")

def depAnn (deps : List Id) (depsRaw : String) : DepEdges.Ann :=
  if depsRaw ≠ "" then
    match IdStr.depSetParse depsRaw.toList with
    | some l => .refs (l.map fun c => { ns := String.ofList c.ns, name := String.ofList c.name, group := String.ofList c.group, kind := String.ofList c.kind })
    | none => .invalid
  else if deps.isEmpty then .absent else .refs deps

def mutAnn (mf : Option Id) : DepEdges.Ann := match mf with | some s => .refs [s] | none => .absent

/-! ## events, requests, run state -/

structure Snap where
  inv : Option (List Id)
  objs : List Live
deriving Repr

structure MutRec where
  verb : String
  id : Id
  dry : Bool
  precond : String
  prop : String
  result : String
  rejected : Bool
  evIdx : Nat                     -- number of events emitted before the request
  snap : Snap
deriving Repr

/-- reasons attached to skipped / failed actuation events (classes, not wording) -/
abbrev Reason := String

inductive Ev
  | init (groups : List (String × String × List Id))
  | error (kind : String)
  | group (name action status : String)
  | op (kind group : String) (id : Id) (status : String) (reason : Reason)   -- kind = apply | prune | delete
  | wait (group : String) (id : Id) (status : String)
  | status (id : Id) (st : String)
  | validation (ids : List Id) (kind : String)
deriving Repr, DecidableEq

structure St where
  cl : Cluster
  run : Run
  mutIdx : Nat := 0
  invReads : Nat := 0
  events : List Ev := []          -- newest first
  muts : List MutRec := []        -- newest first
  mgr : Mgr Id := []
  abandoned : List Id := []
  invalid : List Id := []
  cache : List (Id × Wait.Obs) := []
  cancelled : Bool := false       -- the caller's context has been cancelled
  watcherFailed : Bool := false
  graph : Graph.Adj Id := []
  edges : List (Id × Id) := []    -- the AddEdge calls of DependencyGraph in order
  waitIdx : Nat := 0
deriving Repr

def St.emit (s : St) (e : Ev) : St := { s with events := e :: s.events }

def snapOf (c : Cluster) : Snap := { inv := c.inv, objs := c.objs }

/-- a mutating request: fault injection, in-flight cancellation, effect on the store, log entry -/
def St.mutReq (s : St) (verb : String) (id : Id) (dry : Bool) (precond prop : String)
    (effect : Cluster → Cluster × String) : St × String :=
  let k := s.mutIdx
  let s := { s with mutIdx := k + 1, cancelled := s.cancelled || decide (s.run.cancel = CancelAt.mut k) }
  if k ∈ s.run.failMut then
    ({ s with muts := ⟨verb, id, dry, precond, prop, "error", true, s.events.length, snapOf s.cl⟩ :: s.muts }, "error")
  else
    let (c', res) := effect s.cl
    ({ s with cl := c', muts := ⟨verb, id, dry, precond, prop, res, false, s.events.length, snapOf c'⟩ :: s.muts }, res)

/-- a LIST of the inventory objects (by label): `none` = injected failure -/
def St.invRead (s : St) : St × Option (Option (List Id)) :=
  let k := s.invReads
  let s := { s with invReads := k + 1 }
  if k ∈ s.run.failInvRead then (s, none) else (s, some s.cl.inv)

/-- a GET of an object: `none` = injected failure, `some none` = NotFound -/
def St.get (s : St) (id : Id) : Option (Option Live) :=
  if id ∈ s.run.failGet then none else some (s.cl.find? id)

/-! ## policy and filters -/

inductive Match | empty | yes | no
deriving DecidableEq, Repr

def idMatch (owner : String) : Match := if owner = "" then .empty else if owner = invId then .yes else .no

/-- `inventory.CanApply` -/
def canApply (owner : String) (policy : Nat) : Bool :=
  match idMatch owner with
  | .empty => policy ≠ 0
  | .yes => true
  | .no => policy = 2

/-- `inventory.CanPrune` -/
def canPrune (owner : String) (policy : Nat) : Bool :=
  match idMatch owner with
  | .empty => policy = 1 || policy = 2
  | .yes => true
  | .no => policy = 2

/-- outcome of the dependency filter for one relation -/
inductive DepOutcome | pass | skip (reason : Reason) | fatal (reason : Reason)
deriving DecidableEq, Repr

/-- `DependencyFilter.filterByRelationship` -/
def depRelation (invalid : List Id) (mgr : Mgr Id) (strategy : Strategy) (dry : Bool) (b : Id) : DepOutcome :=
  if b ∈ invalid then .fatal "dep-invalid"
  else match mgr.find? b with
    | none => .fatal "dep-unknown"
    | some r =>
      if r.strategy ≠ strategy then .skip "dep-mismatch"
      else match r.actuation with
        | .pending => .fatal "dep-premature"
        | .skipped | .failed => .skip "dep-blocked"
        | .succeeded =>
          if dry then .pass
          else match r.reconcile with
            | .pending => .fatal "dep-premature"
            | .skipped | .failed | .timeout => .skip "dep-blocked"
            | .succeeded => .pass

/-- `DependencyFilter.Filter`: first relation that does not pass decides -/
def depFilter (invalid : List Id) (mgr : Mgr Id) (strategy : Strategy) (dry : Bool) : List Id → DepOutcome
  | [] => .pass
  | b :: bs => match depRelation invalid mgr strategy dry b with
    | .pass => depFilter invalid mgr strategy dry bs
    | o => o

/-! ## plan -/

inductive TaskKind
  | invAdd (ids : List Id)
  | apply (ids : List Id)
  | prune (ids : List Id)
  | wait (ids : List Id) (cond : Wait.Cond)
  | invSet (prev : List Id) (prevErr : Bool)     -- prevErr: the previous inventory could not be read
deriving Repr

structure Task where
  name : String
  kind : TaskKind
deriving Repr

def Task.action (t : Task) (destroy : Bool) : String :=
  match t.kind with
  | .invAdd _ | .invSet _ _ => "Inventory"
  | .apply _ => "Apply"
  | .prune _ => if destroy then "Delete" else "Prune"
  | .wait _ _ => "Wait"

def Task.ids (t : Task) : List Id :=
  match t.kind with
  | .invAdd ids | .apply ids | .prune ids | .wait ids _ => ids
  | .invSet _ _ => []

def numbered (pfx : String) (n : Nat) : String := s!"{pfx}-{n}"

/-- apply (or prune) tasks, one per layer, each followed by a wait task unless dry-run; counters threaded -/
def layerTasks (isApply dryRun : Bool) : List (List Id) → Nat → Nat → List Task × Nat
  | [], _, w => ([], w)
  | l :: ls, c, w =>
    let t : Task := if isApply then ⟨numbered "apply" c, .apply l⟩ else ⟨numbered "prune" c, .prune l⟩
    if dryRun then
      let r := layerTasks isApply dryRun ls (c + 1) w
      (t :: r.1, r.2)
    else
      let wt : Task := ⟨numbered "wait" w, .wait l (if isApply then .allCurrent else .allNotFound)⟩
      let r := layerTasks isApply dryRun ls (c + 1) (w + 1)
      (t :: wt :: r.1, r.2)

structure Plan where
  tasks : List Task
  invalid : List Id               -- Collector.InvalidIds after Build
  valErrors : List (List Id × String)   -- validation errors in collector order: ids, kind
  applyIds : List Id              -- valid apply objects (in input order)
  pruneIds : List Id
  graph : Graph.Adj Id
  edges : List (Id × Id)
deriving Repr

/-- `Graph.Dependents(to)`: `reverseEdges[to]`, i.e. the sources in the order in which `AddEdge` first saw them -/
def dependentsOrdered (edges : List (Id × Id)) (v : Id) : List Id :=
  dedup ((edges.filter (fun e => e.2 = v)).map (·.1))

def dobjOfManifest (m : Manifest) : DepEdges.DObj :=
  { id := m.id, dependsOn := depAnn m.deps m.depsRaw, mutation := mutAnn m.mutFrom }
def dobjOfLive (o : Live) : DepEdges.DObj :=
  { id := o.id, dependsOn := depAnn o.deps o.depsRaw, mutation := mutAnn o.mutFrom }

def depErrKind (e : DepEdges.DepErr) : String :=
  match e.items with
  | (.invalid, _) :: _ => if e.ann = .dependsOn then "bad-annotation" else "bad-mutation"
  | (.duplicate, _) :: _ => "duplicate-dep"
  | (.external, _) :: _ => "external-dep"
  | [] => "field"

/-- `TaskQueueBuilder.Build` (+ the field validation done before it); `prev` = GetClusterObjs at the end of Build -/
def buildPlan (run : Run) (applyMs : List Manifest) (pruneObjs : List Live) (prev : List Id) (prevErr : Bool) : Plan :=
  -- field validation (applier validates the apply set, destroyer the delete set — both arrive here as `fieldBad`)
  let fieldBad : List Id :=
    if run.destroy then (pruneObjs.filter (fun o => fieldInvalid { id := o.id })).map (·.id)
    else (applyMs.filter fieldInvalid).map (·.id)
  let inv1 := dedup fieldBad
  let errs1 : List (List Id × String) := fieldBad.map (fun i => ([i], "field"))
  let applyMs1 := applyMs.filter (fun m => m.id ∉ inv1)
  let pruneObjs1 := pruneObjs.filter (fun o => o.id ∉ inv1)
  let dobjs := applyMs1.map dobjOfManifest ++ pruneObjs1.map dobjOfLive
  let de := DepEdges.dependencyEdges dobjs
  let g := Graph.build (dobjs.map (·.id)) de.edges
  let inv2 := IdSet.union inv1 (de.errors.map (·.obj))
  let errs2 := errs1 ++ de.errors.map (fun e => ([e.obj], depErrKind e))
  let s := Graph.sort g
  let cyc := Graph.cycleIds Ordering.less s.2
  let inv3 := IdSet.union inv2 cyc
  let errs3 := if cyc.isEmpty then errs2 else errs2 ++ [(cyc, "cycle")]
  let applyMs2 := applyMs1.filter (fun m => m.id ∉ inv3)
  let pruneObjs2 := pruneObjs1.filter (fun o => o.id ∉ inv3)
  let applyIds := applyMs2.map (·.id)
  let pruneIds := pruneObjs2.map (·.id)
  let dryRun := run.opts.dry ≠ .none
  let t0 : List Task := if run.destroy then [] else [⟨"inventory-add-0", .invAdd applyIds⟩]
  let applyLayers := Graph.hydrate Ordering.less (fun v => decide (v ∈ applyIds)) s.1
  let (ta, w1) := if applyIds.isEmpty then ([], 0) else layerTasks true dryRun applyLayers 0 0
  let pruneLayers := Graph.reverseSetList (Graph.hydrate Ordering.less (fun v => decide (v ∈ pruneIds)) s.1)
  let (tp, _) := if (run.destroy || !run.opts.noPrune) && !pruneIds.isEmpty then layerTasks false dryRun pruneLayers 0 w1 else ([], w1)
  let tEnd : Task := ⟨if run.destroy then "inventory-delete-or-update-0" else "inventory-set-0", .invSet prev prevErr⟩
  { tasks := t0 ++ ta ++ tp ++ [tEnd], invalid := inv3, valErrors := errs3, applyIds := applyIds, pruneIds := pruneIds, graph := g, edges := de.edges }

/-! ## tasks -/

def dryOf (s : St) : Bool := s.run.opts.dry ≠ .none

def manifestOf (s : St) (id : Id) : Option Manifest := s.run.objs.find? (fun m => m.id = id)

/-- content a manifest would have after apply-time mutation: (rev, from) -/
def contentOf (m : Manifest) (frm : Option String) : String × Option String := (revStr m, frm)

/-- the store effect of a create (POST or first server-side apply) of manifest `m` -/
def createLive (m : Manifest) (frm : Option String) (lastApplied : Bool) (c : Cluster) : Cluster × Live :=
  let (u, c1) := c.freshUid
  let o : Live := { id := m.id, uid := u, gen := 1, owner := invId, rev := revStr m, frm := frm, keep := m.keep, detach := m.detach,
                    deps := m.deps, depsRaw := m.depsRaw, mutFrom := m.mutFrom,
                    lastApplied := if lastApplied then some (contentOf m frm) else none }
  (c1.put o, o)

/-- the store effect of a patch / server-side apply of manifest `m` over the live object `old` -/
def patchLive (m : Manifest) (frm : Option String) (lastApplied : Bool) (old : Live) : Live :=
  let changed := old.rev ≠ revStr m || (frm.isSome && old.frm ≠ frm)
  { old with owner := invId, rev := revStr m, frm := if frm.isSome then frm else old.frm,
             keep := old.keep || m.keep, detach := old.detach || m.detach,
             deps := if m.deps.isEmpty && m.depsRaw = "" then old.deps else m.deps,
             depsRaw := if m.deps.isEmpty && m.depsRaw = "" then old.depsRaw else m.depsRaw,
             mutFrom := if m.mutFrom.isSome then m.mutFrom else old.mutFrom,
             gen := if changed then old.gen + 1 else old.gen,
             lastApplied := if lastApplied then some (contentOf m frm) else old.lastApplied }

def opKind (s : St) : String := if s.run.destroy then "delete" else "prune"

/-- `ApplyTask.Start` for one object -/
def applyOne (group : String) (s : St) (id : Id) : St :=
  match manifestOf s id with
  | none => s
  | some m =>
    let fail (s : St) (r : Reason) : St :=
      { (s.emit (.op "apply" group id "Failed" r)) with mgr := s.mgr.add id .apply .failed }
    let skip (s : St) (r : Reason) : St :=
      { (s.emit (.op "apply" group id "Skipped" r)) with mgr := s.mgr.add id .apply .skipped }
    -- InventoryPolicyApplyFilter
    let polRes : Option (Option Reason) :=          -- none = fatal (GET failed), some none = pass, some (some r) = skip
      if s.run.opts.policy = 2 then some none
      else match s.get id with
        | none => none
        | some none => some none
        | some (some live) => if canApply live.owner s.run.opts.policy then some none else some (some "policy")
    match polRes with
    | none => fail s "fault"
    | some (some r) => skip s r
    | some none =>
      match depFilter s.invalid s.mgr .apply (dryOf s) (Graph.deps s.graph id) with
      | .fatal r => fail s r
      | .skip r => skip s r
      | .pass =>
        -- apply-time mutation
        let mutRes : Except Reason (Option String) :=
          match m.mutFrom with
          | none => .ok none
          | some src =>
            match (match s.cache.lookup src with
                   | some o => if o.hasRes && o.status = Wait.KStatus.current then some () else none
                   | none => none) with
            | some _ => (match s.cl.find? src with | some l => .ok (some l.rev) | none => .error "mutate")
            | none => match s.get src with
              | none => .error "mutate"
              | some none => .error "mutate"
              | some (some l) => .ok (some l.rev)
        match mutRes with
        | .error r => fail s r
        | .ok frm =>
          let ok (s : St) (uid : String) (gen : Int) : St :=
            { (s.emit (.op "apply" group id "Successful" "")) with mgr := s.mgr.add id .apply .succeeded uid gen }
          if (s.run.opts.ssa && s.run.opts.dry ≠ .client) || s.run.opts.dry = .server then
            -- one server-side-apply PATCH (create or update)
            let dry := s.run.opts.dry = .server
            let (s', res) := s.mutReq "patch" id dry "" "" (fun c =>
              match c.find? id with
              | none => if dry then (c, "ok") else ((createLive m frm false c).1, "ok")
              | some old => if dry then (c, "ok") else (c.put (patchLive m frm false old), "ok"))
            if res = "error" then fail s' "fault"
            else
              -- uid/generation returned by the server (for a dry-run: of the object that would result)
              match s.cl.find? id with
              | none => if dry then ok s' s!"uid-dry-{s.cl.nextUid + 1}" 1
                        else (match s'.cl.find? id with | some l => ok s' l.uid l.gen | none => ok s' "" 0)
              | some old => let n := patchLive m frm false old; ok s' n.uid n.gen
          else
            -- client-side apply: GET, then POST or PATCH (only if something changed)
            match s.get id with
            | none => fail s "fault"
            | some none =>
              if s.run.opts.dry = .client then ok s "" 0
              else
                let (s', res) := s.mutReq "create" id false "" "" (fun c => ((createLive m frm true c).1, "ok"))
                if res = "error" then fail s' "fault"
                else match s'.cl.find? id with | some l => ok s' l.uid l.gen | none => ok s' "" 0
            | some (some old) =>
              let n := patchLive m frm true old
              let unchanged := old.lastApplied = some (contentOf m frm) && old.owner = invId && n = old
              if unchanged || s.run.opts.dry = .client then ok s old.uid old.gen
              else
                let (s', res) := s.mutReq "patch" id false "" "" (fun c => (c.put n, "ok"))
                if res = "error" then fail s' "fault" else ok s' n.uid n.gen

/-- `Pruner.Prune` for one object (`live` = the object as read at planning time) -/
def pruneOne (group : String) (uids : List String) (localNs : List String) (s : St) (live : Live) : St :=
  let id := live.id
  let kind := opKind s
  let fail (s : St) (r : Reason) : St := { (s.emit (.op kind group id "Failed" r)) with mgr := s.mgr.add id .delete .failed }
  let skip (s : St) (r : Reason) : St := { (s.emit (.op kind group id "Skipped" r)) with mgr := s.mgr.add id .delete .skipped }
  if live.uid = "" then fail s "notfound"
  else if live.keep || live.detach then
    -- PreventRemoveFilter: remove the owning-inventory annotation and abandon (not under dry-run)
    if dryOf s then skip s "prevent-remove"
    else if live.owner = "" then skip { s with abandoned := s.abandoned ++ [id] } "prevent-remove"
    else
      let (s', res) := s.mutReq "update" id false "" "" (fun c =>
        match c.find? id with
        | none => (c, "notfound")
        | some cur => (c.put { cur with owner := "", keep := live.keep, detach := live.detach, rev := live.rev, frm := live.frm,
                                        gen := if cur.rev ≠ live.rev || cur.frm ≠ live.frm then cur.gen + 1 else cur.gen }, "ok"))
      if res = "ok" then skip { s' with abandoned := s'.abandoned ++ [id] } "prevent-remove"
      else fail s' (if res = "error" then "fault" else "notfound")
  else if !(canPrune live.owner s.run.opts.policy) then skip s "policy"
  else if !s.run.destroy && live.id.group = "" && live.id.kind = "Namespace" && live.id.name ∈ localNs then skip s "namespace-in-use"
  else match depFilter s.invalid s.mgr .delete (dryOf s) (dependentsOrdered s.edges id) with
    | .fatal r => fail s r
    | .skip r => skip s r
    | .pass =>
      if live.uid ∈ uids then
        skip (if dryOf s then s else { s with abandoned := s.abandoned ++ [id] }) "just-applied"
      else
        let ok (s : St) : St := { (s.emit (.op kind group id "Successful" "")) with mgr := s.mgr.add id .delete .succeeded live.uid }
        if dryOf s then ok s
        else
          let prop := if s.run.opts.foreground then "Foreground" else "Background"
          let (s', res) := s.mutReq "delete" id false live.uid prop (fun c =>
            match c.find? id with
            | none => (c, "notfound")
            | some cur =>
              if cur.uid ≠ live.uid then (c, "conflict")
              else if (s.run.del.lookup id).getD "gone" ≠ "gone" then (c.put { cur with deleting := true }, "ok")
              else (c.remove id, "ok"))
          if res = "ok" || res = "notfound" then ok s' else fail s' (if res = "error" then "fault" else "precondition")

/-- `DeleteOrUpdateInvTask.updateInventory`: the ids of the final inventory -/
def finalInventory (mgr : Mgr Id) (prev abandoned invalid : List Id) : List Id :=
  let i0 : List Id := []
  let i1 := IdSet.union i0 (mgr.withActuation .apply .succeeded)
  let i2 := IdSet.union i1 (IdSet.inter prev (mgr.withActuation .apply .failed))
  let i3 := IdSet.union i2 (IdSet.inter prev (mgr.withActuation .apply .skipped))
  let i4 := IdSet.union i3 (IdSet.inter prev (mgr.withActuation .delete .failed))
  let i5 := IdSet.union i4 (IdSet.inter prev (mgr.withActuation .delete .skipped))
  let i6 := IdSet.union i5 (IdSet.inter prev (mgr.withReconcile .failed))
  let i7 := IdSet.union i6 (IdSet.inter prev (mgr.withReconcile .timeout))
  let i8 := IdSet.diff i7 abandoned
  IdSet.union i8 (IdSet.inter prev invalid)

/-- `destroySuccessful` (as repaired: nothing that is still tracked may remain) -/
def destroySuccessful (mgr : Mgr Id) (prev abandoned invalid : List Id) : Bool :=
  (mgr.withActuation .delete .failed).isEmpty && (mgr.withReconcile .failed).isEmpty && (mgr.withReconcile .timeout).isEmpty &&
  (IdSet.diff (mgr.withActuation .delete .skipped) abandoned).isEmpty && (IdSet.inter prev invalid).isEmpty

def storable (ids : List Id) : Bool :=
  ids.all fun i => IdStr.roundTrips { ns := i.ns.toList, name := i.name.toList, group := i.group.toList, kind := i.kind.toList }

/-- result of running a task: the state and whether the task reported an error (and its class) -/
abbrev TaskRes := St × Option String

/-- `InvAddTask.Start` -/
def runInvAdd (s : St) (ids : List Id) : TaskRes :=
  -- inventory namespace in the apply set: created first (not under dry-run)
  let nsId : Id := { ns := "", name := invNs, group := "", kind := "Namespace" }
  let (s, nsErr) :=
    if nsId ∈ ids && !dryOf s then
      let (s', res) := s.mutReq "create" nsId false "" "" (fun c =>
        match c.find? nsId with
        | some _ => (c, "exists")
        | none =>
          match (s.run.objs.find? (fun m => m.id = nsId)) with
          | some m =>
            let (u, c1) := c.freshUid
            (c1.put { id := nsId, uid := u, gen := 1, owner := invId, rev := "", keep := m.keep, detach := m.detach,
                      lastApplied := some ("", none) }, "ok")
          | none => (c, "ok"))
      (s', res = "error")
    else (s, false)
  if nsErr then (s, some "fault")
  else
    -- Merge
    let (s, r1) := s.invRead
    match r1 with
    | none => (s, some "fault")
    | some none =>
      if !storable ids then (s, some "other")
      else if dryOf s then (s, none)
      else
        let (s', res) := s.mutReq "create" invObjId false "" "" (fun c =>
          let (u, c1) := c.freshUid
          ({ c1 with inv := some (dedup ids), invUid := u }, "ok"))
        (s', if res = "error" then some "fault" else none)
    | some (some _) =>
      let (s, r2) := s.invRead
      match r2 with
      | none => (s, some "fault")
      | some cur =>
        let clusterObjs := cur.getD []
        let union := IdSet.union clusterObjs ids
        if !storable union then (s, some "other")
        else if IdSet.equal ids clusterObjs then (s, none)
        else if dryOf s then (s, none)
        else
          let (s', res) := s.mutReq "update" invObjId false "" "" (fun c =>
            match c.inv with
            | none => (c, "notfound")
            | some _ => ({ c with inv := some union }, "ok"))
          (s', if res = "ok" then none else some (if res = "error" then "fault" else "other"))

/-- `DeleteOrUpdateInvTask.Start` -/
def runInvSet (s : St) (prev : List Id) (prevErr : Bool) : TaskRes :=
  if prevErr then (s, some "fault")
  else if s.run.destroy && destroySuccessful s.mgr prev s.abandoned s.invalid then
    -- deleteInventory: list by label, delete each
    if dryOf s then
      -- the LIST happens before the dry-run test of the per-object delete
      let (s, r) := s.invRead
      (s, if r.isNone then some "fault" else none)
    else
      let (s, r) := s.invRead
      match r with
      | none => (s, some "fault")
      | some none => (s, none)
      | some (some _) =>
        let (s', res) := s.mutReq "delete" invObjId false "" "" (fun c => ({ c with inv := none }, "ok"))
        (s', if res = "error" then some "fault" else none)
  else
    let objs := finalInventory s.mgr prev s.abandoned s.invalid
    if dryOf s then (s, none)
    else
      let (s, r1) := s.invRead
      match r1 with
      | none => (s, some "fault")
      | some clusterInv =>
        let (s, r2) := s.invRead
        match r2 with
        | none => (s, some "fault")
        | some cur =>
          let clusterObjs := cur.getD []
          if !storable objs then (s, some "other")
          else if IdSet.equal objs clusterObjs then (s, none)
          else
            let _ := clusterInv
            let (s', res) := s.mutReq "update" invObjId false "" "" (fun c =>
              match c.inv with
              | none => (c, "notfound")
              | some _ => ({ c with inv := some (dedup objs) }, "ok"))
            (s', if res = "ok" then none else some (if res = "error" then "fault" else "other"))

/-! ## wait phases: the scripted status feed -/

def kstatusName : Wait.KStatus → String
  | .inProgress => "InProgress" | .failed => "Failed" | .current => "Current"
  | .terminating => "Terminating" | .notFound => "NotFound" | .unknown => "Unknown"

def wevName : Wait.WEv → String
  | .pending => "Pending" | .successful => "Successful" | .skipped => "Skipped" | .timeout => "Timeout" | .failed => "Failed"

/-- one scripted delivery: which object, which status, with the live object attached?, generation offset, replaced uid?,
and an environment action performed just before it (the finalizer completes) -/
structure Delivery where
  id : Id
  status : Wait.KStatus
  withRes : Bool
  genDelta : Int := 0
  newUid : Bool := false
  envRemove : Bool := false
deriving Repr

def scriptFor (run : Run) (cond : Wait.Cond) (id : Id) : List (List Delivery) :=
  -- a list of chains: within a chain a delivery is attempted only if the previous one was made
  match cond with
  | .allNotFound =>
    match (run.del.lookup id).getD "gone" with
    | "finalizer" => [[⟨id, .terminating, true, 0, false, false⟩]]
    | "finalizer-gone" => [[⟨id, .terminating, true, 0, false, false⟩, ⟨id, .notFound, false, 0, false, true⟩]]
    | _ => [[⟨id, .notFound, false, 0, false, false⟩]]
  | .allCurrent =>
    match (run.ctrl.lookup id).getD "current" with
    | "never" => [[⟨id, .inProgress, true, 0, false, false⟩]]
    | "stale" => [[⟨id, .current, true, -1, false, false⟩]]
    | "failed" => [[⟨id, .failed, true, 0, false, false⟩]]
    | "failed-current" => [[⟨id, .failed, true, 0, false, false⟩, ⟨id, .current, true, 0, false, false⟩]]
    | "replaced" => [[⟨id, .current, true, 0, true, false⟩]]
    | _ => [[⟨id, .current, true, 0, false, false⟩]]

structure WaitSt where
  s : St
  w : Wait.WState Id
  delivered : Nat := 0
  stopped : Bool := false      -- cancellation / watcher failure happened: no further deliveries

def obsOf (c : Cluster) (d : Delivery) : Wait.Obs :=
  if d.withRes then
    match c.find? d.id with
    | some l => { status := d.status, hasRes := true, gen := l.gen + d.genDelta, uid := if d.newUid then "uid-replaced" else l.uid }
    | none => { status := d.status, hasRes := false, gen := 0, uid := "" }
  else { status := d.status, hasRes := false, gen := 0, uid := "" }

/-- flush the wait events produced since `n0` into the run's event list -/
def flushWait (group : String) (s : St) (w : Wait.WState Id) (n0 : Nat) : St :=
  (w.events.drop n0).foldl (fun s e => s.emit (.wait group e.1 (wevName e.2))) s

/-- one delivery attempt (`deliver` in the harness); returns the new state and whether the delivery was made -/
def deliverOne (group : String) (n : Nat) (ws : WaitSt) (d : Delivery) : WaitSt × Bool :=
  if ws.stopped || ws.w.cancelled || ws.w.pending.isEmpty then (ws, false)
  else if ws.s.run.cancel = .wait n (some ws.delivered) then
    ({ ws with s := { ws.s with cancelled := true }, w := Wait.cancel ws.w, stopped := true }, false)
  else if ws.s.run.watchErr = some (n, ws.delivered) then
    ({ ws with s := { ws.s with watcherFailed := true }, w := Wait.cancel ws.w, stopped := true }, false)
  else
    let cl := if d.envRemove then ws.s.cl.remove d.id else ws.s.cl
    let o := obsOf cl d
    let s1 := { ws.s with cl := cl, cache := (d.id, o) :: ws.s.cache }
    let s2 := if s1.run.opts.emitStatus then s1.emit (.status d.id (kstatusName d.status)) else s1
    let n0 := ws.w.events.length
    let w' := Wait.statusUpdate { ws.w with mgr := s2.mgr } d.id o
    let s3 := flushWait group { s2 with mgr := w'.mgr } w' n0
    ({ ws with s := s3, w := w', delivered := ws.delivered + 1 }, true)

def deliverChain (group : String) (n : Nat) : WaitSt → List Delivery → WaitSt
  | ws, [] => ws
  | ws, d :: ds =>
    let (ws', made) := deliverOne group n ws d
    if made then deliverChain group n ws' ds else ws'

/-- `WaitTask` under the scripted feed -/
def runWait (group : String) (s : St) (ids : List Id) (cond : Wait.Cond) : TaskRes :=
  let n := s.waitIdx
  let s := { s with waitIdx := n + 1 }
  let w0 := Wait.start ids cond s.mgr s.cache
  let s1 := flushWait group { s with mgr := w0.mgr } w0 0
  let chains := ids.flatMap (scriptFor s.run cond)
  let ws := chains.foldl (deliverChain group n) { s := s1, w := w0 }
  -- after the script: cancellation "at the end", or the deadline
  let ws :=
    if !ws.stopped && !ws.w.cancelled && !ws.w.pending.isEmpty && ws.s.run.cancel = .wait n none then
      { ws with s := { ws.s with cancelled := true }, w := Wait.cancel ws.w, stopped := true }
    else ws
  if ws.w.cancelled then (ws.s, none)
  else
    -- deadline (the generator configures a timeout whenever a phase can stay pending)
    let n0 := ws.w.events.length
    let w' := Wait.timeout { ws.w with mgr := ws.s.mgr }
    (flushWait group { ws.s with mgr := w'.mgr } w' n0, none)

/-! ## the runner -/

def runTask (s : St) (t : Task) (pruneObjs : List Live) (localNs : List String) : TaskRes :=
  match t.kind with
  | .invAdd ids => runInvAdd s ids
  | .apply ids => (ids.foldl (applyOne t.name) s, none)
  | .prune ids =>
    let uids := s.mgr.appliedUIDs
    let lives := ids.filterMap (fun i => pruneObjs.find? (fun o => o.id = i))
    (lives.foldl (pruneOne t.name uids localNs) s, none)
  | .wait ids cond => runWait t.name s ids cond
  | .invSet prev prevErr => runInvSet s prev prevErr

/-- `TaskStatusRunner.Run` after the sync event: tasks in order; stop after the task during which the run was aborted -/
def runTasks (pruneObjs : List Live) (localNs : List String) : St → List Task → St
  | s, [] => s
  | s, t :: ts =>
    let act := t.action s.run.destroy
    let s1 := s.emit (.group t.name act "Started")
    let (s2, err) := runTask s1 t pruneObjs localNs
    let s3 := s2.emit (.group t.name act "Finished")
    match err with
    | some k => s3.emit (.error k)
    | none =>
      if s3.watcherFailed then s3.emit (.error "watcher")
      else if s3.cancelled then s3.emit (.error "canceled")
      else runTasks pruneObjs localNs s3 ts

/-- `GetPruneObjs`: the stored ids not in the apply set that still exist; `none` = read error -/
def getPruneObjs (s : St) (applyIds : List Id) : St × Option (List Live) :=
  let (s, r) := s.invRead
  match r with
  | none => (s, none)
  | some inv =>
    let ids := IdSet.diff (inv.getD []) applyIds
    -- a failing GET aborts; NotFound (and unknown types) are skipped
    let res := ids.foldl (fun (acc : Option (List Live)) i =>
      match acc with
      | none => none
      | some l =>
        if (scopeOf i.group i.kind).isNone then some l
        else match s.get i with
          | none => none
          | some none => some l
          | some (some o) => some (l ++ [o])) (some [])
    (s, res)

/-- `Applier.Run` / `Destroyer.Run` -/
def runOne (c : Cluster) (run : Run) : St :=
  let c := run.envDel.foldl (fun c i => c.remove i) c
  let s : St := { cl := c, run := run }
  let applyMs := if run.destroy then [] else run.objs
  let applyIdsAll := applyMs.map (·.id)
  let (s, pr) := getPruneObjs s applyIdsAll
  match pr with
  | none => s.emit (.error "fault")
  | some pruneObjs =>
    -- Build reads the stored inventory once more (errors ignored)
    let (s, prevR) := s.invRead
    let prev : List Id := match prevR with | some (some l) => l | _ => []
    let plan := buildPlan run applyMs pruneObjs prev prevR.isNone
    if !run.opts.skipInvalid && !plan.valErrors.isEmpty then s.emit (.error "other")
    else
      let s := plan.valErrors.foldl (fun s e => s.emit (.validation e.1 e.2)) s
      let s := { s with invalid := plan.invalid, graph := plan.graph, edges := plan.edges }
      -- pending registrations made by Build
      let s := { s with mgr := plan.applyIds.foldl (fun m i => m.add i .apply .pending) s.mgr }
      let s := if (run.destroy || !run.opts.noPrune) && !plan.pruneIds.isEmpty then
          { s with mgr := plan.pruneIds.foldl (fun m i => m.add i .delete .pending) s.mgr } else s
      -- pruning disabled (as repaired): the un-applied tracked objects are recorded as skipped deletes
      let s := if !run.destroy && run.opts.noPrune then
          { s with mgr := pruneObjs.foldl (fun m o => m.add o.id .delete .skipped) s.mgr } else s
      let s := s.emit (.init (plan.tasks.map (fun t => (t.name, t.action run.destroy, t.ids))))
      if run.cancel = .beforeSync then s.emit (.error "canceled")
      else
        let localNs := dedup ((applyIdsAll.map (·.ns)).filter (· ≠ "") ++ [invNs])
        runTasks pruneObjs localNs s plan.tasks

end CliUtils.Sys
