import CliUtils.Model.Basic
/-
  Model of pkg/object/objmetadata_set.go.  A set is a `List α` (Go: a slice), possibly with repeats.
  All functions are generic in the element type: nothing in the Go code depends on the fields of an id
  except `==` (and `String()` for `Hash`, which is modelled in `Model.IdStr`).
-/
namespace CliUtils.IdSet
open CliUtils

variable {α : Type} [DecidableEq α]

/-- `Union`: elements of A in first-seen order, then the elements only in B, no repeats. -/
def union (a b : List α) : List α := dedup (a ++ b)

/-- `Intersection`. -/
def inter (a b : List α) : List α := dedup (a.filter (fun x => x ∈ b))

/-- `Diff`: A minus B. -/
def diff (a b : List α) : List α := dedup (a.filter (fun x => x ∉ b))

/-- `Contains`. -/
def contains (a : List α) (x : α) : Bool := decide (x ∈ a)

/-- `Equal`: same members (Go compares the two key sets). -/
def equal (a b : List α) : Bool := a.all (fun x => x ∈ b) && b.all (fun x => x ∈ a)

/-- `Unique` (the Go result order is map order; compared after sorting). -/
def unique (a : List α) : List α := dedup a

/-- `Remove`: first match is overwritten by the last element, and the slice is shortened by one. -/
def remove : List α → α → List α
  | [], _ => []
  | y :: ys, x =>
    if y = x then
      match ys.getLast? with
      | none => []
      | some l => l :: ys.dropLast
    else y :: remove ys x

end CliUtils.IdSet
