import CliUtils.Model.Basic
/-
  Model of pkg/inventory/manager.go + pkg/apis/actuation/types.go: the per-run actuation table.
-/
namespace CliUtils

inductive Strategy | apply | delete
deriving DecidableEq, Repr, Inhabited

inductive Actuation | pending | succeeded | skipped | failed
deriving DecidableEq, Repr, Inhabited

inductive Reconcile | pending | succeeded | skipped | failed | timeout
deriving DecidableEq, Repr, Inhabited

/-- `actuation.ObjectStatus` -/
structure Rec (α : Type) where
  id : α
  strategy : Strategy
  actuation : Actuation
  reconcile : Reconcile
  uid : String := ""
  gen : Int := 0
deriving DecidableEq, Repr

/-- `inventory.Manager`: `Inventory.Status.Objects` as a list -/
abbrev Mgr (α : Type) := List (Rec α)

namespace Mgr
variable {α : Type} [DecidableEq α]

/-- `ObjectStatus`: first record with this reference -/
def find? (m : Mgr α) (id : α) : Option (Rec α) := List.find? (fun r => r.id = id) m

/-- `SetObjectStatus`: replace the first record with the same reference, else append -/
def set : Mgr α → Rec α → Mgr α
  | [], r => [r]
  | x :: xs, r => if x.id = r.id then r :: xs else x :: set xs r

def withActuation (m : Mgr α) (s : Strategy) (a : Actuation) : List α :=
  (m.filter (fun r => r.strategy = s ∧ r.actuation = a)).map (·.id)

def withReconcile (m : Mgr α) (rc : Reconcile) : List α :=
  (m.filter (fun r => r.reconcile = rc)).map (·.id)

/-- `Is<Act><Strategy>` -/
def isActuation (m : Mgr α) (id : α) (s : Strategy) (a : Actuation) : Bool :=
  match m.find? id with
  | some r => r.strategy = s ∧ r.actuation = a
  | none => false

def isReconcile (m : Mgr α) (id : α) (rc : Reconcile) : Bool :=
  match m.find? id with
  | some r => r.reconcile = rc
  | none => false

/-- `Add<Act><Strategy>` (uid/gen only meaningful for successful actuation) -/
def add (m : Mgr α) (id : α) (s : Strategy) (a : Actuation) (uid : String := "") (gen : Int := 0) : Mgr α :=
  m.set { id := id, strategy := s, actuation := a, reconcile := .pending, uid := uid, gen := gen }

/-- `Set<Rc>Reconcile`: in-place update of the first record; `none` = the "object not in inventory" error -/
def setReconcile : Mgr α → α → Reconcile → Option (Mgr α)
  | [], _, _ => none
  | x :: xs, id, rc =>
    if x.id = id then some ({ x with reconcile := rc } :: xs)
    else match setReconcile xs id rc with
      | some xs' => some (x :: xs')
      | none => none

/-- `AppliedResourceUID` as repaired (fix: test `found` before dereferencing): (uid, ok) -/
def appliedUID (m : Mgr α) (id : α) : String × Bool :=
  match m.find? id with
  | some r => (r.uid, r.strategy = .apply ∧ r.actuation = .succeeded)
  | none => ("", false)

/-- `AppliedResourceUIDs`: non-empty uids of successful applies (a set; compared sorted) -/
def appliedUIDs (m : Mgr α) : List String :=
  ((m.filter (fun r => r.strategy = .apply ∧ r.actuation = .succeeded ∧ r.uid ≠ "")).map (·.uid))

/-- `AppliedGeneration` -/
def appliedGen (m : Mgr α) (id : α) : Int × Bool :=
  match m.find? id with
  | some r => (r.gen, true)
  | none => (0, false)

def ids (m : Mgr α) : List α := m.map (·.id)

end Mgr
end CliUtils
