import CliUtils.Model.Json
/-
  Model of /repo/pkg/kstatus/status/{status,generic,core,util}.go (kstatus status computation).
  One function per Go function, same order of tests.  Messages are not modelled (wording is never compared);
  a result is the status plus the list of conditions (type, status, reason) as the code builds it.
  The wall clock enters through one boolean `w`: "the pod's creation timestamp lies within the 15 s ScheduleWindow"
  (`time.Now().Add(-ScheduleWindow).Before(creationTimestamp)`).
  `getCrashLoopingContainers` is modelled AS REPAIRED (checked type assertions: an entry from which no crash-loop reason
  can be read is skipped); the pinned code panics there (C09 finding).
-/
namespace CliUtils.KStatus
open CliUtils CliUtils.J

inductive Status where
  | inProgress | failed | current | terminating
deriving DecidableEq, Repr, Inhabited

/-- errors are compared only as "an error was returned" -/
inductive Err where
  | accessor      -- a Nested* helper failed (wrong type on the path or at the leaf)
  | convert       -- FromUnstructured into ObjWithConditions failed
  | unknownPhase  -- podConditions: phase outside the known values
  | augment       -- Augment: a condition does not have the expected structure / status cannot be set
deriving DecidableEq, Repr, Inhabited

/-- `status.Condition` without the message -/
structure Cond where
  type : String
  status : String
  reason : String
deriving DecidableEq, Repr, Inhabited

/-- `status.Result` without the message -/
structure Result where
  status : Status
  conditions : List Cond
deriving DecidableEq, Repr, Inhabited

def reconcilingCond (reason : String) : Cond := { type := "Reconciling", status := "True", reason := reason }
def stalledCond (reason : String) : Cond := { type := "Stalled", status := "True", reason := reason }
/-- util.go `newInProgressStatus` -/
def inProgressR (reason : String) : Result := { status := .inProgress, conditions := [reconcilingCond reason] }
/-- util.go `newFailedStatus` -/
def failedR (reason : String) : Result := { status := .failed, conditions := [stalledCond reason] }
def currentR : Result := { status := .current, conditions := [] }
def terminatingR : Result := { status := .terminating, conditions := [] }

def conv (o : J) : Except Err (List BC) :=
  match convConds o with
  | some cs => .ok cs
  | none => .error .convert

/-! ### generic.go -/

/-- `checkGeneration` -/
def checkGeneration (o : J) : Except Err (Option Result) :=
  match nestedInt64 o ["metadata", "generation"] with
  | .err => .error .accessor
  | .notFound => .ok none
  | .found g =>
    match nestedInt64 o ["status", "observedGeneration"] with
    | .err => .error .accessor
    | .notFound => .ok none
    | .found og => if og ≠ g then .ok (some (inProgressR "LatestGenerationNotObserved")) else .ok none

/-- the condition loop of `checkGenericProperties`: the first true Reconciling or true Stalled condition decides -/
def genericLoop : List BC → Option Result
  | [] => none
  | c :: cs =>
    if c.type = "Reconciling" ∧ c.status = "True" then some (inProgressR c.reason)
    else if c.type = "Stalled" ∧ c.status = "True" then some { status := .failed, conditions := [stalledCond c.reason] }
    else genericLoop cs

/-- `checkGenericProperties` after the deletion-timestamp test -/
def checkGenericTail (o : J) : Except Err (Option Result) :=
  match checkGeneration o with
  | .error e => .error e
  | .ok (some r) => .ok (some r)
  | .ok none =>
    match conv o with
    | .error e => .error e
    | .ok cs => .ok (genericLoop cs)

/-- `checkGenericProperties` -/
def checkGenericProperties (o : J) : Except Err (Option Result) :=
  match nestedString o ["metadata", "deletionTimestamp"] with
  | .err => .error .accessor
  | .found s => if s ≠ "" then .ok (some terminatingR) else checkGenericTail o
  | .notFound => checkGenericTail o

/-! ### core.go -/

def alwaysReady (_ : J) : Except Err Result := .ok currentR

/-- `stsConditions` -/
def stsConditions (o : J) : Except Err Result :=
  if getStringField o ["spec", "updateStrategy", "type"] "" = "OnDelete" then .ok currentR else
  let specReplicas := getIntField o ["spec", "replicas"] 1
  let readyReplicas := getIntField o ["status", "readyReplicas"] 0
  let currentReplicas := getIntField o ["status", "currentReplicas"] 0
  let updatedReplicas := getIntField o ["status", "updatedReplicas"] 0
  let statusReplicas := getIntField o ["status", "replicas"] 0
  let partition := getIntField o ["spec", "updateStrategy", "rollingUpdate", "partition"] (-1)
  if specReplicas > statusReplicas then .ok (inProgressR "LessReplicas")
  else if specReplicas > readyReplicas then .ok (inProgressR "LessReady")
  else if statusReplicas > specReplicas then .ok (inProgressR "ExtraPods")
  else if partition ≠ -1 then
    if updatedReplicas < specReplicas - partition then .ok (inProgressR "PartitionRollout")
    else .ok currentR
  else if specReplicas > currentReplicas then .ok (inProgressR "LessCurrent")
  else if getStringField o ["status", "currentRevision"] "" ≠ getStringField o ["status", "updateRevision"] "" then
    .ok (inProgressR "RevisionMismatch")
  else .ok currentR

/-- the condition loop of `deploymentConditions` with its two flags; `inl c`: early return on the Progressing
condition `c` whose reason is ProgressDeadlineExceeded -/
def deploymentLoop : List BC → Bool → Bool → Sum BC (Bool × Bool)
  | [], p, a => .inr (p, a)
  | c :: cs, p, a =>
    if c.type = "Progressing" then
      if c.reason = "ProgressDeadlineExceeded" then .inl c
      else if c.status = "True" ∧ c.reason = "NewReplicaSetAvailable" then deploymentLoop cs true a
      else deploymentLoop cs p a
    else if c.type = "Available" then
      if c.status = "True" then deploymentLoop cs p true else deploymentLoop cs p a
    else deploymentLoop cs p a

def maxInt32 : Int := 2147483647

/-- `deploymentConditions` -/
def deploymentConditions (o : J) : Except Err Result :=
  let progressing0 : Bool := getIntField o ["spec", "progressDeadlineSeconds"] maxInt32 = maxInt32
  match conv o with
  | .error e => .error e
  | .ok cs =>
    match deploymentLoop cs progressing0 false with
    | .inl c => .ok { status := .failed, conditions := [stalledCond c.reason] }
    | .inr (progressing, available) =>
      let specReplicas := getIntField o ["spec", "replicas"] 1
      let statusReplicas := getIntField o ["status", "replicas"] 0
      let updatedReplicas := getIntField o ["status", "updatedReplicas"] 0
      let readyReplicas := getIntField o ["status", "readyReplicas"] 0
      let availableReplicas := getIntField o ["status", "availableReplicas"] 0
      if specReplicas > statusReplicas then .ok (inProgressR "LessReplicas")
      else if specReplicas > updatedReplicas then .ok (inProgressR "LessUpdated")
      else if statusReplicas > specReplicas then .ok (inProgressR "ExtraPods")
      else if updatedReplicas > availableReplicas then .ok (inProgressR "LessAvailable")
      else if specReplicas > readyReplicas then .ok (inProgressR "LessReady")
      else if !progressing then .ok (inProgressR "ReplicaSetNotAvailable")
      else if !available then .ok (inProgressR "DeploymentNotAvailable")
      else .ok currentR

/-- `replicasetConditions` -/
def replicasetConditions (o : J) : Except Err Result :=
  match conv o with
  | .error e => .error e
  | .ok cs =>
    if cs.any (fun c => c.type = "ReplicaFailure" ∧ c.status = "True") then .ok (inProgressR "ReplicaFailure") else
    let specReplicas := getIntField o ["spec", "replicas"] 1
    let statusReplicas := getIntField o ["status", "replicas"] 0
    let readyReplicas := getIntField o ["status", "readyReplicas"] 0
    let availableReplicas := getIntField o ["status", "availableReplicas"] 0
    let fullyLabelledReplicas := getIntField o ["status", "fullyLabeledReplicas"] 0
    if specReplicas > fullyLabelledReplicas then .ok (inProgressR "LessLabelled")
    else if specReplicas > availableReplicas then .ok (inProgressR "LessAvailable")
    else if specReplicas > readyReplicas then .ok (inProgressR "LessReady")
    else if statusReplicas > specReplicas then .ok (inProgressR "ExtraPods")
    else .ok currentR

/-- `checkGenerationSet` -/
def checkGenerationSet (o : J) : Except Err (Option Result) :=
  match nestedInt64 o ["metadata", "generation"] with
  | .err => .error .accessor
  | .notFound => .ok (some (inProgressR "NoGeneration"))
  | .found _ =>
    match nestedInt64 o ["status", "observedGeneration"] with
    | .err => .error .accessor
    | .notFound => .ok (some (inProgressR "NoObservedGeneration"))
    | .found _ => .ok none

/-- `daemonsetConditions` -/
def daemonsetConditions (o : J) : Except Err Result :=
  match checkGenerationSet o with
  | .error e => .error e
  | .ok (some r) => .ok r
  | .ok none =>
    let desiredNumberScheduled := getIntField o ["status", "desiredNumberScheduled"] (-1)
    let currentNumberScheduled := getIntField o ["status", "currentNumberScheduled"] 0
    let updatedNumberScheduled := getIntField o ["status", "updatedNumberScheduled"] 0
    let numberAvailable := getIntField o ["status", "numberAvailable"] 0
    let numberReady := getIntField o ["status", "numberReady"] 0
    if desiredNumberScheduled = -1 then .ok (inProgressR "NoDesiredNumber")
    else if desiredNumberScheduled > currentNumberScheduled then .ok (inProgressR "LessCurrent")
    else if desiredNumberScheduled > updatedNumberScheduled then .ok (inProgressR "LessUpdated")
    else if desiredNumberScheduled > numberAvailable then .ok (inProgressR "LessAvailable")
    else if desiredNumberScheduled > numberReady then .ok (inProgressR "LessReady")
    else .ok currentR

/-- `pvcConditions` -/
def pvcConditions (o : J) : Except Err Result :=
  if getStringField o ["status", "phase"] "unknown" ≠ "Bound" then .ok (inProgressR "NotBound") else .ok currentR

/-- util.go `getConditionWithStatus`: the first condition with this type and status -/
def getConditionWithStatus (cs : List BC) (t s : String) : Option BC :=
  cs.find? (fun c => c.type = t ∧ c.status = s)

/-- one entry of `status.containerStatuses` names a crash-looping container (REPAIRED reading: every assertion checked) -/
def crashLoopingEntry : J → Bool
  | .obj cs =>
    match lookup "name" cs, lookup "state" cs with
    | some (.str _), some (.obj st) =>
      match lookup "waiting" st with
      | some (.obj ws) =>
        match lookup "reason" ws with
        | some (.str r) => r = "CrashLoopBackOff"
        | _ => false
      | _ => false
    | _, _ => false
  | _ => false

/-- `getCrashLoopingContainers` as repaired: (isCrashLooping, err). Only whether a name was collected matters. -/
def crashLooping (o : J) : Except Err Bool :=
  match nestedSlice o ["status", "containerStatuses"] with
  | .err => .error .accessor
  | .notFound => .ok false
  | .found items => .ok (items.any crashLoopingEntry)

/-- `podConditions` -/
def podConditions (w : Bool) (o : J) : Except Err Result :=
  match conv o with
  | .error e => .error e
  | .ok cs =>
    let phase := getStringField o ["status", "phase"] ""
    if phase = "Succeeded" then .ok currentR
    else if phase = "Failed" then .ok currentR
    else if phase = "Running" then
      if (getConditionWithStatus cs "Ready" "True").isSome then .ok currentR
      else match crashLooping o with
        | .error e => .error e
        | .ok true => .ok (failedR "ContainerCrashLooping")
        | .ok false => .ok (inProgressR "PodRunningNotReady")
    else if phase = "Pending" then
      match getConditionWithStatus cs "PodScheduled" "False" with
      | some c =>
        if c.reason = "Unschedulable" then
          if w then .ok (inProgressR "PodNotScheduled") else .ok (failedR "PodUnschedulable")
        else .ok (inProgressR "PodPending")
      | none => .ok (inProgressR "PodPending")
    else if phase = "" then .ok (inProgressR "PodNotObserved")
    else .error .unknownPhase

def pdbConditions (_ : J) : Except Err Result := .ok currentR

/-- the condition loop of `jobConditions` -/
def jobLoop : List BC → Option Result
  | [] => none
  | c :: cs =>
    if c.type = "Complete" then (if c.status = "True" then some currentR else jobLoop cs)
    else if c.type = "Failed" then (if c.status = "True" then some (failedR "JobFailed") else jobLoop cs)
    else jobLoop cs

/-- `jobConditions` (parallelism/completions/succeeded/active/failed only feed messages) -/
def jobConditions (o : J) : Except Err Result :=
  match conv o with
  | .error e => .error e
  | .ok cs =>
    match jobLoop cs with
    | some r => .ok r
    | none =>
      if getStringField o ["status", "startTime"] "" = "" then .ok (inProgressR "JobNotStarted") else .ok currentR

/-- `serviceConditions` -/
def serviceConditions (o : J) : Except Err Result :=
  if getStringField o ["spec", "type"] "ClusterIP" = "LoadBalancer" ∧ getStringField o ["spec", "clusterIP"] "" = "" then
    .ok (inProgressR "NoIPAssigned")
  else .ok currentR

/-- the condition loop of `crdConditions` -/
def crdLoop : List BC → Result
  | [] => inProgressR "Installing"
  | c :: cs =>
    if c.type = "NamesAccepted" ∧ c.status = "False" then failedR c.reason
    else if c.type = "Established" then
      if c.status = "False" ∧ c.reason ≠ "Installing" then failedR c.reason
      else if c.status = "True" then currentR
      else crdLoop cs
    else crdLoop cs

/-- `crdConditions` -/
def crdConditions (o : J) : Except Err Result :=
  match conv o with
  | .error e => .error e
  | .ok cs => .ok (crdLoop cs)

/-- the functions `legacyTypes` points at -/
inductive Kind where
  | service | pod | always | pvc | sts | ds | deployment | rs | pdb | job | crd
deriving DecidableEq, Repr, Inhabited

/-- `legacyTypes` (key: "group/Kind", or "Kind" for the core group) -/
def legacy : String → Option Kind
  | "Service" => some .service
  | "Pod" => some .pod
  | "Secret" => some .always
  | "PersistentVolumeClaim" => some .pvc
  | "apps/StatefulSet" => some .sts
  | "apps/DaemonSet" => some .ds
  | "extensions/DaemonSet" => some .ds
  | "apps/Deployment" => some .deployment
  | "extensions/Deployment" => some .deployment
  | "apps/ReplicaSet" => some .rs
  | "extensions/ReplicaSet" => some .rs
  | "policy/PodDisruptionBudget" => some .pdb
  | "batch/CronJob" => some .always
  | "ConfigMap" => some .always
  | "batch/Job" => some .job
  | "apiextensions.k8s.io/CustomResourceDefinition" => some .crd
  | _ => none

def kindFn (k : Kind) (w : Bool) (o : J) : Except Err Result :=
  match k with
  | .service => serviceConditions o
  | .pod => podConditions w o
  | .always => alwaysReady o
  | .pvc => pvcConditions o
  | .sts => stsConditions o
  | .ds => daemonsetConditions o
  | .deployment => deploymentConditions o
  | .rs => replicasetConditions o
  | .pdb => pdbConditions o
  | .job => jobConditions o
  | .crd => crdConditions o

/-- `schema.ParseGroupVersion` reduced to the group: `none` = error (more than one '/') -/
def parseGroup (apiVersion : String) : Option String :=
  let cs := apiVersion.toList
  let n := (cs.filter (· == '/')).length
  if n = 0 then some ""
  else if n = 1 then some (String.ofList (cs.takeWhile (· != '/')))
  else none

/-- the key `GetLegacyConditionsFn` computes from `u.GroupVersionKind()`; a GroupVersion parse error gives the empty GVK -/
def kindKey (o : J) : String :=
  match parseGroup (getNestedString o ["apiVersion"]) with
  | none => ""
  | some g =>
    let k := getNestedString o ["kind"]
    if g = "" then k else g ++ "/" ++ k

/-! ### status.go -/

/-- the loop of `checkReadyCondition`: the first Ready condition whose status is True / False / Unknown decides -/
def readyLoop : List BC → Option Result
  | [] => none
  | c :: cs =>
    if c.type ≠ "Ready" then readyLoop cs
    else if c.status = "True" then some currentR
    else if c.status = "False" then some (inProgressR c.reason)
    else if c.status = "Unknown" then some (inProgressR c.reason)
    else readyLoop cs

/-- `checkReadyCondition` -/
def checkReadyCondition (o : J) : Except Err (Option Result) :=
  match conv o with
  | .error e => .error e
  | .ok cs => .ok (readyLoop cs)

/-- `Compute` with the dispatch key as a parameter (`compute` supplies the key of the object itself), so that
"for every kind" is a quantifier over `key` -/
def computeK (key : String) (w : Bool) (o : J) : Except Err Result :=
  match checkGenericProperties o with
  | .error e => .error e
  | .ok (some r) => .ok r
  | .ok none =>
    match legacy key with
    | some k => kindFn k w o
    | none =>
      match checkReadyCondition o with
      | .error e => .error e
      | .ok (some r) => .ok r
      | .ok none => .ok currentR

/-- `status.Compute` -/
def compute (w : Bool) (o : J) : Except Err Result := computeK (kindKey o) w o

/-! ### Augment -/

/-- what `time.Now().UTC().Format(time.RFC3339)` / the result's message stand for (canonicalised by the harness) -/
def nowJ : J := .str "<now>"
def msgJ : J := .str "<msg>"

/-- the inner loop body of `Augment` for one existing condition `c` and one result condition `rc`:
`none` = one of the three "does not have the expected structure/type" errors; the flag = type matched -/
def augItem (rc : Cond) : J → Option (J × Bool)
  | .obj m =>
    match lookup "type" m with
    | some (.str t) =>
      if t = rc.type then
        match lookup "status" m with
        | some (.str s) =>
          let m1 := if s ≠ rc.status then setKey "lastTransitionTime" nowJ m else m
          some (.obj (setKey "message" msgJ (setKey "reason" (.str rc.reason) (setKey "lastUpdateTime" nowJ
                  (setKey "status" (.str rc.status) m1)))), true)
        | _ => none
      else some (.obj m, false)
    | _ => none
  | _ => none

def augList (rc : Cond) : List J → Option (List J × Bool)
  | [] => some ([], false)
  | x :: xs =>
    match augItem rc x, augList rc xs with
    | some (x', b), some (xs', b') => some (x' :: xs', b || b')
    | _, _ => none

def newCondJ (rc : Cond) : J :=
  .obj [("lastTransitionTime", nowJ), ("lastUpdateTime", nowJ), ("message", msgJ), ("reason", .str rc.reason),
        ("status", .str rc.status), ("type", .str rc.type)]

/-- one iteration of the outer loop of `Augment` -/
def augOne (rc : Cond) (conds : List J) : Option (List J) :=
  match augList rc conds with
  | none => none
  | some (cs', present) => if present then some cs' else some (cs' ++ [newCondJ rc])

def augAll : List Cond → List J → Option (List J)
  | [], conds => some conds
  | rc :: rcs, conds =>
    match augOne rc conds with
    | none => none
    | some conds' => augAll rcs conds'

/-- `conditions, found, err := NestedSlice(u.Object, "status", "conditions")`; not found → the empty list; `none` = error -/
def sliceItems (o : J) : Option (List J) :=
  match nestedSlice o ["status", "conditions"] with
  | .err => none
  | .notFound => some []
  | .found l => some l

/-- `status.Augment` (dispatch key as a parameter, see `computeK`): the new object, or an error (object unchanged) -/
def augmentK (key : String) (w : Bool) (o : J) : Except Err J :=
  match computeK key w o with
  | .error e => .error e
  | .ok res =>
    match sliceItems o with
    | none => .error .accessor
    | some conds =>
      match augAll res.conditions conds with
      | none => .error .augment
      | some conds' =>
        match setStatusConditions o (.arr conds') with
        | none => .error .augment
        | some o' => .ok o'

def augment (w : Bool) (o : J) : Except Err J := augmentK (kindKey o) w o

end CliUtils.KStatus
