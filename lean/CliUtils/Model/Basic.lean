/-
  Shared basics of the executable model (core Lean only).
-/
namespace CliUtils

/-- Object identifier: `object.ObjMetadata` (namespace, name, group, kind). -/
structure Id where
  ns : String
  name : String
  group : String
  kind : String
deriving DecidableEq, Repr, Inhabited, Hashable

namespace Id
/-- a fixed total order used only to canonicalise outputs that come out of Go maps -/
def lt (a b : Id) : Bool :=
  if a.ns ≠ b.ns then a.ns < b.ns
  else if a.name ≠ b.name then a.name < b.name
  else if a.group ≠ b.group then a.group < b.group
  else a.kind < b.kind
end Id

/-- first-occurrence de-duplication (what the map-then-iterate idiom of objmetadata_set.go computes) -/
def dedup {α : Type} [DecidableEq α] : List α → List α
  | [] => []
  | x :: xs => x :: (dedup xs).filter (fun y => y ≠ x)

end CliUtils
