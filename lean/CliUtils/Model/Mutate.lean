import CliUtils.Model.JTree
/-
  `pkg/apply/mutator/apply_time_mutator.go`: the per-substitution logic of `ApplyTimeMutator.Mutate`, `valueToString`,
  `strings.ReplaceAll` for a non-empty token, the source lookup (resource cache first, then cluster), the REST-mapping
  lookup and the two self-reference checks.  Core Lean only.

  Parsing the annotation YAML (`mutation.ReadAnnotation`, sigs.k8s.io/yaml) is not modelled: the harness writes the
  annotation with the real `mutation.WriteAnnotation` and the real `Mutate` reads it back; the model receives the
  substitutions as data (or the flag "annotation invalid / absent").
-/
namespace CliUtils

/-! ### strings.ReplaceAll (non-empty token) on character lists -/
namespace Str

/-- `skip` = number of characters of an already matched token still to be dropped -/
def replaceAux (tok v : List Char) : Nat → List Char → List Char
  | _, [] => []
  | k + 1, _ :: r => replaceAux tok v k r
  | 0, c :: r =>
    if tok.isPrefixOf (c :: r) then v ++ replaceAux tok v (tok.length - 1) r
    else c :: replaceAux tok v 0 r

/-- the pieces of `s` between the leftmost non-overlapping occurrences of `tok` (`strings.Split`) -/
def splitAux (tok : List Char) : Nat → List Char → List (List Char)
  | _, [] => [[]]
  | k + 1, _ :: r => splitAux tok k r
  | 0, c :: r =>
    if tok.isPrefixOf (c :: r) then [] :: splitAux tok (tok.length - 1) r
    else match splitAux tok 0 r with
      | p :: ps => (c :: p) :: ps
      | [] => [[c]]

/-- `strings.Join` -/
def joinWith (sep : List Char) : List (List Char) → List Char
  | [] => []
  | [p] => p
  | p :: q :: r => p ++ sep ++ joinWith sep (q :: r)

def replaceAllL (tok v s : List Char) : List Char := replaceAux tok v 0 s
def splitOnL (tok s : List Char) : List (List Char) := splitAux tok 0 s

end Str

/-- `strings.ReplaceAll(s, tok, v)` for `tok ≠ ""` (Mutate never calls it with an empty token) -/
def replaceAll (tok v s : String) : String := String.ofList (Str.replaceAllL tok.toList v.toList s.toList)

/-! ### valueToString -/

def hexDigit (n : Nat) : Char := if n < 10 then Char.ofNat (48 + n) else Char.ofNat (87 + n)

/-- encoding/json string escaping (HTML-safe mode, as `json.Marshal` uses) -/
def goJsonEscChar (c : Char) : List Char :=
  if c = '"' then ['\\', '"'] else if c = '\\' then ['\\', '\\']
  else if c = '\n' then ['\\', 'n'] else if c = '\r' then ['\\', 'r'] else if c = '\t' then ['\\', 't']
  else if c = Char.ofNat 8 then ['\\', 'b'] else if c = Char.ofNat 12 then ['\\', 'f']
  else if c.toNat < 32 ∨ c = '<' ∨ c = '>' ∨ c = '&' ∨ c.toNat = 0x2028 ∨ c.toNat = 0x2029 then
    ['\\', 'u', hexDigit (c.toNat / 4096 % 16), hexDigit (c.toNat / 256 % 16), hexDigit (c.toNat / 16 % 16), hexDigit (c.toNat % 16)]
  else [c]

def goJsonStr (s : String) : String := "\"" ++ String.ofList (s.toList.flatMap goJsonEscChar) ++ "\""

mutual
/-- `json.Marshal` of a canonical tree (object members in list order; the driver supplies them sorted by name,
    which is the order encoding/json writes map keys in) -/
def JV.render : JV → String
  | .null => "null"
  | .bool b => if b then "true" else "false"
  | .int n => toString n
  | .float _ j => j
  | .str s => goJsonStr s
  | .arr xs => "[" ++ renderList xs ++ "]"
  | .obj kvs => "{" ++ renderKVs kvs ++ "}"
def renderList : List JV → String
  | [] => ""
  | [x] => x.render
  | x :: r => x.render ++ "," ++ renderList r
def renderKVs : List (String × JV) → String
  | [] => ""
  | [(k, x)] => goJsonStr k ++ ":" ++ x.render
  | (k, x) :: r => goJsonStr k ++ ":" ++ x.render ++ "," ++ renderKVs r
end

/-- `valueToString`: strings as they are, ints/floats/bools with `%v`, everything else (nil, lists, maps, and the
    `uint64` yaml.v3 yields for integers above MaxInt64) as JSON -/
def valueToString : JV → String
  | .str s => s
  | .int n => toString n
  | .float g _ => g
  | .bool b => if b then "true" else "false"
  | v => v.render

/-! ### references, REST mapping, source lookup -/

/-- `mutation.ResourceReference` -/
structure Ref where
  kind : String
  apiVersion : String := ""
  group : String := ""
  name : String := ""
  ns : String := ""
deriving DecidableEq, Repr, Inhabited

/-- `schema.ParseGroupVersion` for strings with at most one '/' (the harness generates nothing else) -/
def parseGV (s : String) : String × String :=
  match s.splitOn "/" with
  | [v] => ("", v)
  | [g, v] => (g, v)
  | _ => ("", "")

/-- `ResourceReference.GroupVersionKind`: (group, version); prefers Group over APIVersion -/
def Ref.gv (r : Ref) : String × String := if r.group ≠ "" then (r.group, "") else parseGV r.apiVersion

/-- `ResourceReference.Equal`: same group-kind, name, namespace (version ignored) -/
def Ref.equal (a b : Ref) : Bool :=
  a.gv.1 == b.gv.1 && a.kind == b.kind && a.name == b.name && a.ns == b.ns

/-- one kind known to the RESTMapper -/
structure MapEntry where
  group : String
  kind : String
  versions : List String
  namespaced : Bool
deriving Repr, Inhabited

/-- `getMapping`: RESTMapping(groupKind[, version]) -/
def findMapping (mapper : List MapEntry) (r : Ref) : Option MapEntry :=
  mapper.find? (fun e => e.group == r.gv.1 && e.kind == r.kind && (r.gv.2 == "" || e.versions.contains r.gv.2))

/-- an object known to the resource cache and/or the cluster, keyed by (group, kind, namespace, name) -/
structure Stored where
  group : String
  kind : String
  ns : String
  name : String
  /-- cached object, with "status is Current" -/
  cached : Option (JV × Bool) := none
  cluster : Option JV := none
deriving Inhabited

structure Env where
  mapper : List MapEntry
  store : List Stored
deriving Inhabited

/-- `getObject`: the cached copy if cached with status Current, else the cluster's copy, else not found.
    (The write-back into the cache does not change later lookups: sources are never modified.) -/
def Env.lookup (env : Env) (group : String) (r : Ref) : Option JV :=
  match env.store.find? (fun s => s.group == group && s.kind == r.kind && s.ns == r.ns && s.name == r.name) with
  | none => none
  | some s =>
    match s.cached with
    | some (o, true) => some o
    | _ => s.cluster

/-! ### Mutate -/

/-- `mutation.FieldSubstitution`; a path is `none` when the expression string is empty -/
structure Sub where
  src : Ref
  srcPath : Option Path
  tgtPath : Option Path
  token : String := ""
deriving Inhabited

/-- the rejection branches of `Mutate`, in the order the code reaches them -/
inductive MErr where
  | annotation      -- ReadAnnotation failed
  | selfRef         -- invalid self-reference (before or after namespace defaulting)
  | mapping         -- no REST mapping for the source reference
  | sourceGet       -- source object has no name / is neither cached-current nor in the cluster
  | targetRead      -- target path empty, or matches 0 or ≥ 2 fields
  | sourceRead      -- source path empty, or matches 0 or ≥ 2 fields
  | tokenNonString  -- token given but the target field is not a string
  | targetWrite     -- jsonpath.Set failed (unsupported value type) or did not update exactly one field
deriving DecidableEq, Repr, Inhabited

/-- `readFieldValue`: exactly one match required -/
def readField (o : JV) (p : Option Path) : Option JV :=
  match p with
  | none => none
  | some p => match get o p with
    | [v] => some v
    | _ => none

/-- `writeFieldValue`: `jsonpath.Set` must succeed and report exactly one match -/
def writeField (o : JV) (p : Option Path) (v : JV) : Option JV :=
  match p with
  | none => none
  | some p => match set o p v with
    | .ok (o', 1) => some o'
    | _ => none

/-- the value written for one substitution -/
def newValue (token : String) (targetValue sourceValue : JV) : Except MErr JV :=
  if token = "" then .ok sourceValue
  else match targetValue with
    | .str s => .ok (.str (replaceAll token (valueToString sourceValue) s))
    | _ => .error .tokenNonString

/-- the source reference after namespace defaulting -/
def defaultNs (tref : Ref) (e : MapEntry) (r : Ref) : Ref :=
  if r.ns = "" ∧ e.namespaced then { r with ns := tref.ns } else r

/-- one iteration of the substitution loop (the order of the tests is the order of the code) -/
def mutateOne (env : Env) (tref : Ref) (obj : JV) (sub : Sub) : Except MErr JV :=
  match findMapping env.mapper sub.src with
  | none => .error .mapping
  | some e =>
    let sref := defaultNs tref e sub.src
    if tref.equal sref then .error .selfRef
    else if sref.name = "" ∨ sref.kind = "" then .error .sourceGet
    else match env.lookup e.group sref with
      | none => .error .sourceGet
      | some srcObj =>
        match readField obj sub.tgtPath with
        | none => .error .targetRead
        | some tv =>
          match readField srcObj sub.srcPath with
          | none => .error .sourceRead
          | some sv =>
            match newValue sub.token tv sv with
            | .error e => .error e
            | .ok nv =>
              match writeField obj sub.tgtPath nv with
              | none => .error .targetWrite
              | some o' => .ok o'

/-- what `Mutate` returns and leaves behind: the `mutated` flag, the error (if any) and the object as it is then
    (after an error in substitution k the substitutions before k have already been written) -/
structure MutOut where
  mutated : Bool
  err : Option MErr
  obj : JV

def mutateLoop (env : Env) (tref : Ref) : Bool → JV → List Sub → MutOut
  | m, obj, [] => ⟨m, none, obj⟩
  | m, obj, sub :: rest =>
    match mutateOne env tref obj sub with
    | .ok obj' => mutateLoop env tref true obj' rest
    | .error e => ⟨m, some e, obj⟩

/-- the annotation as `Mutate` finds it -/
inductive Annot where
  | absent
  | invalid
  | subs (l : List Sub)

def mutate (env : Env) (tref : Ref) (obj : JV) : Annot → MutOut
  | .absent => ⟨false, none, obj⟩
  | .invalid => ⟨false, some .annotation, obj⟩
  | .subs l =>
    if l.any (fun s => tref.equal s.src) then ⟨false, some .selfRef, obj⟩
    else mutateLoop env tref false obj l

/-- the object handed on to the apply step: none when Mutate returned an error (the apply task then skips the
    object and reports the failure) -/
def mutateResult (env : Env) (tref : Ref) (obj : JV) (a : Annot) : Except MErr JV :=
  let r := mutate env tref obj a
  match r.err with
  | some e => .error e
  | none => .ok r.obj

end CliUtils
