import CliUtils.Model.Basic
/-
  JSON-shaped object trees (what `map[string]interface{}` holds after JSON decoding with the apimachinery decoder:
  nil / bool / int64 / float64 / string / []interface{} / map[string]interface{}) and the `unstructured` accessors the
  kstatus code uses (k8s.io/apimachinery@v0.31.1 pkg/apis/meta/v1/unstructured/helpers.go, pkg/runtime/converter.go)
  plus util.go of /repo/pkg/kstatus/status.  Core Lean only.
-/
namespace CliUtils

/-- a decoded JSON value. `num` is Go `int64`, `float` is Go `float64` (opaque: only "is not an int64 / not a string" matters).
An object is an association list; lookup takes the first entry with the key (Go maps have unique keys, the decoder keeps
the last duplicate — the driver never builds duplicates, the theorems hold with or without them). -/
inductive J where
  | null
  | bool (b : Bool)
  | num (n : Int)
  | float (repr : String)
  | str (s : String)
  | arr (items : List J)
  | obj (fields : List (String × J))
deriving Repr, Inhabited

namespace J

/-- `m[k]` with the comma-ok form -/
def lookup (k : String) : List (String × J) → Option J
  | [] => none
  | (k', v) :: rest => if k' = k then some v else lookup k rest

/-- `m[k] = v` (replace the entry or add one) -/
def setKey (k : String) (v : J) : List (String × J) → List (String × J)
  | [] => [(k, v)]
  | (k', v') :: rest => if k' = k then (k, v) :: rest else (k', v') :: setKey k v rest

/-- the `(value, found, err)` triple of the `Nested*` helpers: `err` ⇒ found = false -/
inductive Acc (α : Type) where
  | notFound
  | err
  | found (v : α)
deriving Repr, DecidableEq

/-- `unstructured.NestedFieldNoCopy`: walk the path; a nil value on the way → not found; a missing key → not found;
a non-map non-nil value on the way → error. A nil *leaf* is found. -/
def nestedField : J → List String → Acc J
  | v, [] => .found v
  | .null, _ :: _ => .notFound
  | .obj l, f :: fs =>
    match lookup f l with
    | none => .notFound
    | some v => nestedField v fs
  | _, _ :: _ => .err

/-- `unstructured.NestedString` -/
def nestedString (o : J) (p : List String) : Acc String :=
  match nestedField o p with
  | .notFound => .notFound
  | .err => .err
  | .found (.str s) => .found s
  | .found _ => .err

/-- `unstructured.NestedInt64` (only an `int64` is accepted: a float64, even integral, is an error) -/
def nestedInt64 (o : J) (p : List String) : Acc Int :=
  match nestedField o p with
  | .notFound => .notFound
  | .err => .err
  | .found (.num n) => .found n
  | .found _ => .err

/-- `unstructured.NestedSlice` (the deep copy is the identity on values) -/
def nestedSlice (o : J) (p : List String) : Acc (List J) :=
  match nestedField o p with
  | .notFound => .notFound
  | .err => .err
  | .found (.arr l) => .found l
  | .found _ => .err

/-- `unstructured.NestedMap` -/
def nestedMap (o : J) (p : List String) : Acc (List (String × J)) :=
  match nestedField o p with
  | .notFound => .notFound
  | .err => .err
  | .found (.obj l) => .found l
  | .found _ => .err

/-- unexported `getNestedString` (used by `GetKind`, `GetAPIVersion`): "" unless a string is found -/
def getNestedString (o : J) (p : List String) : String :=
  match nestedString o p with
  | .found s => s
  | _ => ""

/-- util.go `GetStringField` (path already split): the default unless a string is found -/
def getStringField (o : J) (p : List String) (d : String) : String :=
  match nestedField o p with
  | .found (.str s) => s
  | _ => d

/-- util.go `GetIntField`: the default unless an integer is found (after JSON decoding integers are int64) -/
def getIntField (o : J) (p : List String) (d : Int) : Int :=
  match nestedField o p with
  | .found (.num n) => n
  | _ => d

/-- `unstructured.SetNestedSlice(obj, v, "status", "conditions")`: `status` is created when the key is absent;
a present non-map `status` (including null) is an error and nothing is written. -/
def setStatusConditions (o : J) (v : J) : Option J :=
  match o with
  | .obj top =>
    match lookup "status" top with
    | none => some (.obj (setKey "status" (.obj [("conditions", v)]) top))
    | some (.obj st) => some (.obj (setKey "status" (.obj (setKey "conditions" v st)) top))
    | some _ => none
  | _ => none

end J

/-- util.go `BasicCondition` -/
structure BC where
  type : String
  status : String
  reason : String
  message : String
deriving Repr, DecidableEq, Inhabited

namespace J

/-- `fromUnstructured` into a `string`-kinded field: absent key or nil → zero value; a string → itself;
anything else (int64, float64, bool, map, slice) → error ("cannot convert int64 to string" / "unrecognized type: string") -/
def convStr : Option J → Option String
  | none => some ""
  | some .null => some ""
  | some (.str s) => some s
  | some _ => none

/-- one list item into `BasicCondition`: nil → zero struct; a map → field by field; anything else → error.
Unknown keys are ignored, key match is case-sensitive. -/
def convCond : J → Option BC
  | .null => some { type := "", status := "", reason := "", message := "" }
  | .obj l =>
    match convStr (lookup "type" l), convStr (lookup "status" l), convStr (lookup "reason" l), convStr (lookup "message" l) with
    | some t, some s, some r, some m => some { type := t, status := s, reason := r, message := m }
    | _, _, _, _ => none
  | _ => none

def convList : List J → Option (List BC)
  | [] => some []
  | x :: xs =>
    match convCond x, convList xs with
    | some b, some bs => some (b :: bs)
    | _, _ => none

/-- util.go `GetObjectWithConditions` = `runtime.DefaultUnstructuredConverter.FromUnstructured` into
`ObjWithConditions{Status{Conditions []BasicCondition}}`; `none` = conversion error.
`status` absent/nil → no conditions; `status` not a map → error; `conditions` absent/nil → none; not a slice → error. -/
def convConds (o : J) : Option (List BC) :=
  match o with
  | .null => some []
  | .obj top =>
    match lookup "status" top with
    | none => some []
    | some .null => some []
    | some (.obj st) =>
      match lookup "conditions" st with
      | none => some []
      | some .null => some []
      | some (.arr items) => convList items
      | some _ => none
    | some _ => none
  | _ => none

end J
end CliUtils
