import CliUtils.Lemmas.FinalL
import CliUtils.Lemmas.OrderL
import CliUtils.Lemmas.ProvL
import CliUtils.Lemmas.HistoryL
import CliUtils.Lemmas.TimeoutL
import CliUtils.Props.C01F
import CliUtils.Props.C12R
import CliUtils.Props.C13
/-
  Helper lemmas for C03R (whole-run convergence).
    * the store seen through `Cluster.find?`: `find_put_same`, `find_put_other`, `find_remove_*`, and the store effects of the
      requests of a run in these terms (`createLive_find`, `abandonEffect_find`, `deleteEffect_find`, `nsCreateEffect_find`)
    * one apply step / one prune step in these terms: `applyOne_fx` (`ApplyFx`), `pruneOne_fx` (`PruneFx`)
    * `runWait_triple`: an induction principle for a whole wait task over (actuation table, store, status cache);
      the table through its three kinds of steps: `start_table`, `update_table`, `timeout_table` (and `*_fwd`, `runWait_static`);
      the scripts of the status feed: `script_facts`, `chain_facts`
    * the light run invariants, preserved unconditionally by every task of a plan (`TaskWF`, `planTasks_wf`), hence true at EVERY exit of
      the runner (`runTasks_all`): `LiveT` ("apply succeeded ⇒ live and annotated"), `GoneT` ("delete succeeded and reconciled ⇒ gone"),
      `BookInv` (every apply id keeps a record, abandoned ids and delete records are prune objects), one record per id (`run_oneRec`)
    * the shape of a run: `runOne_start`; `run_light`, `run_book`: the invariants at the end of `runOne`
    * a run without error event reaches its final task: `runTasks_cons_noError`, `runTasks_prefix_noError`, `run_final`
    * `PlanInv` / `PlanInvU` / `plan_runs`: a generic version of `C01F.plan_safe` (an indexed invariant carried by successful tasks, an
      unconditional invariant, any postcondition that holds at error exits); `G_planInv`: `FinalL.G` is such an invariant;
      `run_plan`: the generic version of `C01F.no_orphan_run`
    * re-running an apply: `mergeInv_noop`, `replaceInv_noop`, `applyOne_muts`, `AllApplied`, `Rerun`, `rerun_quiet`
-/
namespace CliUtils.ConvergeL
open CliUtils CliUtils.Sys CliUtils.FinalL CliUtils.Props.C01 CliUtils.Props.C03 CliUtils.Props.C19

/-! ## the store through `find?` -/

theorem find_map_put (l : List Live) (o : Live) (i : Id) :
    (l.map (fun x => if x.id = o.id then o else x)).find? (fun x => decide (x.id = i)) =
      if i = o.id then (l.find? (fun x => decide (x.id = o.id))).map (fun _ => o) else l.find? (fun x => decide (x.id = i)) := by
  induction l with
  | nil => simp
  | cons y ys ih =>
    simp only [List.map_cons, List.find?_cons]
    by_cases hy : y.id = o.id
    · by_cases hi : i = o.id
      · subst hi; simp [hy]
      · have : ¬ o.id = i := fun e => hi e.symm
        have h2 : ¬ y.id = i := by rw [hy]; exact this
        simp only [hy, if_true, this, decide_false, hi, if_false] at ih ⊢
        exact ih
    · by_cases hi : i = o.id
      · subst hi
        simp only [hy, if_false, decide_false, if_true] at ih ⊢
        exact ih
      · simp only [hy, if_false, hi] at ih ⊢
        by_cases h2 : y.id = i
        · simp [h2]
        · simp only [h2, decide_false]
          exact ih

theorem find_put_same (c : Cluster) (o : Live) : (c.put o).find? o.id = some o := by
  unfold Cluster.put
  split
  · rename_i h
    unfold Cluster.find? at h ⊢
    simp only []
    rw [find_map_put]
    simp only [if_true]
    cases hf : c.objs.find? (fun x => decide (x.id = o.id)) with
    | none => rw [hf] at h; simp at h
    | some y => rfl
  · rename_i h
    unfold Cluster.find? at h ⊢
    simp only []
    have hn : c.objs.find? (fun x => decide (x.id = o.id)) = none := by simpa using h
    rw [List.find?_append, hn]
    simp

theorem find_put_other (c : Cluster) (o : Live) (i : Id) (h : i ≠ o.id) : (c.put o).find? i = c.find? i := by
  unfold Cluster.put
  split
  · unfold Cluster.find?
    simp only []
    rw [find_map_put]
    simp [h]
  · unfold Cluster.find?
    simp only []
    rw [List.find?_append]
    have : ¬ o.id = i := fun e => h e.symm
    cases hf : c.objs.find? (fun x => decide (x.id = i)) with
    | none => simp [this]
    | some y => simp

theorem find_remove_same (c : Cluster) (i : Id) : (c.remove i).find? i = none := by
  unfold Cluster.remove Cluster.find?
  simp only []
  rw [List.find?_eq_none]
  intro x hx
  have := (List.mem_filter.mp hx).2
  simpa using this

theorem find_remove_other (c : Cluster) (i j : Id) (h : j ≠ i) : (c.remove i).find? j = c.find? j := by
  unfold Cluster.remove Cluster.find?
  simp only []
  induction c.objs with
  | nil => rfl
  | cons y ys ih =>
    simp only [List.filter_cons, List.find?_cons]
    by_cases hy : y.id = i
    · have : ¬ i = j := fun e => h e.symm
      simp only [hy, ne_eq, not_true_eq_false, decide_false, Bool.false_eq_true, if_false, this]
      exact ih
    · simp only [ne_eq, hy, not_false_eq_true, decide_true, if_true, List.find?_cons]
      by_cases h2 : y.id = j
      · simp [h2]
      · simp only [h2, decide_false]
        exact ih

theorem find_of_objs (c c' : Cluster) (h : c'.objs = c.objs) (i : Id) : c'.find? i = c.find? i := by
  unfold Cluster.find?; rw [h]

theorem find_none_iff (c : Cluster) (i : Id) : c.find? i = none ↔ ∀ o ∈ c.objs, o.id ≠ i := by
  constructor
  · exact find_none_no_obj c i
  · intro h
    unfold Cluster.find?
    rw [List.find?_eq_none]
    intro x hx
    simpa using h x hx

/-! ## store effects of the requests of a run, through `find?` -/

theorem createLive_find (m : Manifest) (frm : Option String) (la : Bool) (c : Cluster) :
    (createLive m frm la c).1.find? m.id = some (createLive m frm la c).2 ∧ (createLive m frm la c).2.owner = invId ∧
    (createLive m frm la c).2.id = m.id ∧
    ∀ i, i ≠ m.id → (createLive m frm la c).1.find? i = c.find? i := by
  unfold createLive
  refine ⟨find_put_same _ _, rfl, rfl, ?_⟩
  intro i hi
  exact find_put_other _ _ _ hi

theorem abandonEffect_find (live : Live) (c : Cluster) :
    (∀ i, i ≠ live.id → (abandonEffect live c).1.find? i = c.find? i) ∧
    (c.find? live.id = none → (abandonEffect live c).1 = c) ∧
    (∀ o', (abandonEffect live c).1.find? live.id = some o' → ∃ o, c.find? live.id = some o ∧ o'.uid = o.uid) := by
  unfold abandonEffect
  cases hf : c.find? live.id with
  | none => exact ⟨fun _ _ => rfl, fun _ => rfl, fun o' h => by simp [hf] at h⟩
  | some cur =>
    simp only []
    have hcur := (find_some_mem _ _ _ hf).2
    refine ⟨?_, (fun h => by cases h), ?_⟩
    · intro i hi
      exact find_put_other _ _ _ (by simpa [hcur] using hi)
    · intro o' ho'
      rw [← hcur] at ho'
      have h1 : some _ = some o' := (find_put_same c _).symm.trans ho'
      injection h1 with h1
      exact ⟨cur, rfl, by rw [← h1]⟩

theorem deleteEffect_find (fin : Bool) (live : Live) (c : Cluster) :
    (∀ i, i ≠ live.id → (deleteEffect fin live c).1.find? i = c.find? i) ∧
    (c.find? live.id = none → (deleteEffect fin live c).1 = c) ∧
    (∀ o', (deleteEffect fin live c).1.find? live.id = some o' → ∃ o, c.find? live.id = some o ∧ o'.uid = o.uid) ∧
    (((deleteEffect fin live c).2 = "ok" ∨ (deleteEffect fin live c).2 = "notfound") → fin = false →
      (deleteEffect fin live c).1.find? live.id = none) ∧
    (((deleteEffect fin live c).2 ≠ "ok" ∧ (deleteEffect fin live c).2 ≠ "notfound") → (deleteEffect fin live c).1 = c) := by
  unfold deleteEffect
  cases hf : c.find? live.id with
  | none => exact ⟨fun _ _ => rfl, fun _ => rfl, fun o' h => by simp [hf] at h, fun _ _ => hf, fun _ => rfl⟩
  | some cur =>
    simp only []
    have hcur := (find_some_mem _ _ _ hf).2
    by_cases hu : cur.uid ≠ live.uid
    · simp only [if_pos hu]
      refine ⟨fun _ _ => ?_, fun _ => ?_, fun o' h => ⟨cur, rfl, ?_⟩, fun h => ?_, fun _ => ?_⟩
      · trivial
      · trivial
      · rw [hf] at h; injection h with h; rw [h]
      · simp at h
      · trivial
    · simp only [if_neg hu]
      cases fin with
      | true =>
        simp only [if_true]
        refine ⟨?_, (fun h => by cases h), ?_, (fun _ h => by cases h), fun h => absurd rfl h.1⟩
        · intro i hi
          exact find_put_other _ _ _ (by simpa [hcur] using hi)
        · intro o' ho'
          rw [← hcur] at ho'
          have h1 : some _ = some o' := (find_put_same c _).symm.trans ho'
          injection h1 with h1
          exact ⟨cur, rfl, by rw [← h1]⟩
      | false =>
        simp only [Bool.false_eq_true, if_false]
        refine ⟨?_, (fun h => by cases h), ?_, fun _ _ => find_remove_same _ _, fun h => absurd rfl h.1⟩
        · intro i hi
          exact find_remove_other _ _ _ hi
        · intro o' ho'
          rw [find_remove_same] at ho'
          cases ho'

theorem nsCreateEffect_find (run : Run) (c : Cluster) :
    (∀ i, i ≠ nsInv → (nsCreateEffect run c).1.find? i = c.find? i) ∧
    (∀ o, c.find? nsInv = some o → (nsCreateEffect run c).1 = c) ∧
    (c.find? nsInv = none → (nsCreateEffect run c).1 = c ∨
      ∃ o, (nsCreateEffect run c).1.find? nsInv = some o ∧ o.owner = invId) := by
  unfold nsCreateEffect
  cases hf : c.find? nsInv with
  | some o => exact ⟨fun _ _ => rfl, fun _ _ => rfl, fun h => by cases h⟩
  | none =>
    simp only []
    cases hm : run.objs.find? (fun m => m.id = nsInv) with
    | none => exact ⟨fun _ _ => rfl, (fun _ h => by cases h), fun _ => Or.inl rfl⟩
    | some m =>
      simp only []
      refine ⟨?_, (fun _ h => by cases h), fun _ => Or.inr ⟨_, find_put_same _ _, rfl⟩⟩
      intro i hi
      exact find_put_other _ _ _ hi

/-! ## one apply step, through `find?` -/

/-- what one apply step for `X` does: other ids are untouched; nothing happens, or a failed / skipped apply is recorded and the
store is unchanged, or a successful apply is recorded and the store holds an annotated object named `X` -/
def ApplyFx (s s' : St) (X : Id) : Prop :=
  s'.run = s.run ∧ s'.cache = s.cache ∧ s'.abandoned = s.abandoned ∧ s'.invalid = s.invalid ∧
  (∀ i, i ≠ X → s'.cl.find? i = s.cl.find? i) ∧
  ((manifestOf s X = none ∧ s'.mgr = s.mgr ∧ s'.cl = s.cl) ∨
   (∃ a, a ≠ Actuation.succeeded ∧ a ≠ Actuation.pending ∧ s'.mgr = s.mgr.add X .apply a "" 0 ∧ s'.cl = s.cl) ∨
   (∃ uid gen o, s'.mgr = s.mgr.add X .apply .succeeded uid gen ∧ s'.cl.find? X = some o ∧ o.owner = invId))

theorem fx_fail (group : String) (s t : St) (X : Id) (r : Reason)
    (hf : t.mgr = s.mgr ∧ t.run = s.run ∧ t.abandoned = s.abandoned ∧ t.invalid = s.invalid ∧ t.cache = s.cache) (hcl : t.cl = s.cl) :
    ApplyFx s (applyFail group t X r) X :=
  ⟨hf.2.1, hf.2.2.2.2, hf.2.2.1, hf.2.2.2.1, fun i _ => by rw [applyFail_cl, hcl],
    Or.inr (Or.inl ⟨.failed, by simp, by simp, by simp [applyFail, hf.1], hcl⟩)⟩

theorem fx_ok (group : String) (s t : St) (X : Id) (uid : String) (gen : Int) (o : Live)
    (hf : t.mgr = s.mgr ∧ t.run = s.run ∧ t.abandoned = s.abandoned ∧ t.invalid = s.invalid ∧ t.cache = s.cache)
    (hoth : ∀ i, i ≠ X → t.cl.find? i = s.cl.find? i) (hX : t.cl.find? X = some o) (hown : o.owner = invId) :
    ApplyFx s (applyOk group t X uid gen) X :=
  ⟨hf.2.1, hf.2.2.2.2, hf.2.2.1, hf.2.2.2.1, hoth, Or.inr (Or.inr ⟨uid, gen, o, by simp [applyOk, hf.1], hX, hown⟩)⟩

theorem get_find (s : St) (id : Id) (o : Option Live) (h : s.get id = some o) : s.cl.find? id = o := by
  unfold St.get at h
  split at h
  · cases h
  · simpa using h

theorem kubectlApply_fx (group : String) (s : St) (m : Manifest) (frm : Option String) (hd : s.run.opts.dry = .none) :
    ApplyFx s (kubectlApply group s m frm) m.id := by
  unfold kubectlApply
  split
  · unfold ssaApply
    simp only []
    have hdry : (s.run.opts.dry == Dry.server) = false := by rw [hd]; rfl
    rw [hdry]
    have hc := mutReq_cases s "patch" m.id false "" "" (ssaEffect m frm false)
    have hfr := mutReq_frame s "patch" m.id false "" "" (ssaEffect m frm false)
    generalize s.mutReq "patch" m.id false "" "" (ssaEffect m frm false) = r at hc hfr
    split
    · rename_i herr
      refine fx_fail group s r.1 m.id _ hfr ?_
      rcases hc with hc | hc
      · exact hc.1
      · rw [hc.2, ssaEffect_res] at herr; simp at herr
    · rename_i herr
      have hcl : r.1.cl = (ssaEffect m frm false s.cl).1 := by
        rcases hc with hc | hc
        · exact absurd hc.2 herr
        · exact hc.1
      cases hfind : s.cl.find? m.id with
      | none =>
        simp only [Bool.false_eq_true, if_false]
        have hcl' : r.1.cl = (createLive m frm false s.cl).1 := by
          rw [hcl]; unfold ssaEffect; simp [hfind]
        obtain ⟨c1, c2, _, c4⟩ := createLive_find m frm false s.cl
        rw [← hcl'] at c1 c4
        split <;> exact fx_ok group s r.1 m.id _ _ _ hfr c4 c1 c2
      | some old =>
        simp only []
        have hold := find_some_mem _ _ _ hfind
        have hcl' : r.1.cl = s.cl.put (patchLive m frm false old) := by
          rw [hcl]; unfold ssaEffect; simp [hfind]
        have hid : (patchLive m frm false old).id = m.id := hold.2
        refine fx_ok group s r.1 m.id _ _ (patchLive m frm false old) hfr ?_ ?_ rfl
        · intro i hi
          rw [hcl']
          exact find_put_other _ _ _ (by rw [hid]; exact hi)
        · rw [hcl', ← hid]
          exact find_put_same _ _
  · unfold csaApply
    simp only []
    cases hg : s.get m.id with
    | none => exact fx_fail group s s m.id _ (frame_refl s) rfl
    | some o =>
      have hget := get_find s m.id o hg
      cases o with
      | none =>
        simp only []
        have hnc : ¬ (s.run.opts.dry = Dry.client) := by rw [hd]; simp
        simp only [hnc, if_false]
        have hc := mutReq_cases s "create" m.id false "" "" (fun c => ((createLive m frm true c).1, "ok"))
        have hfr := mutReq_frame s "create" m.id false "" "" (fun c => ((createLive m frm true c).1, "ok"))
        generalize s.mutReq "create" m.id false "" "" (fun c => ((createLive m frm true c).1, "ok")) = r at hc hfr
        split
        · rename_i herr
          refine fx_fail group s r.1 m.id _ hfr ?_
          rcases hc with hc | hc
          · exact hc.1
          · rw [hc.2] at herr; simp at herr
        · rename_i herr
          have hcl : r.1.cl = (createLive m frm true s.cl).1 := by
            rcases hc with hc | hc
            · exact absurd hc.2 herr
            · exact hc.1
          obtain ⟨c1, c2, _, c4⟩ := createLive_find m frm true s.cl
          rw [← hcl] at c1 c4
          split <;> exact fx_ok group s r.1 m.id _ _ _ hfr c4 c1 c2
      | some old =>
        simp only []
        have hold := find_some_mem _ _ _ hget
        split
        · rename_i hun
          have hown : old.owner = invId := by
            have hnc : ¬ (s.run.opts.dry = Dry.client) := by rw [hd]; simp
            simp only [hnc, decide_false, Bool.or_false, Bool.and_eq_true, decide_eq_true_eq] at hun
            exact hun.1.2
          exact fx_ok group s s m.id _ _ old (frame_refl s) (fun _ _ => rfl) hget hown
        · have hc := mutReq_cases s "patch" m.id false "" "" (fun c => (c.put (patchLive m frm true old), "ok"))
          have hfr := mutReq_frame s "patch" m.id false "" "" (fun c => (c.put (patchLive m frm true old), "ok"))
          generalize s.mutReq "patch" m.id false "" "" (fun c => (c.put (patchLive m frm true old), "ok")) = r at hc hfr
          split
          · rename_i herr
            refine fx_fail group s r.1 m.id _ hfr ?_
            rcases hc with hc | hc
            · exact hc.1
            · rw [hc.2] at herr; simp at herr
          · rename_i herr
            have hcl : r.1.cl = s.cl.put (patchLive m frm true old) := by
              rcases hc with hc | hc
              · exact absurd hc.2 herr
              · exact hc.1
            have hid : (patchLive m frm true old).id = m.id := hold.2
            refine fx_ok group s r.1 m.id _ _ (patchLive m frm true old) hfr ?_ ?_ rfl
            · intro i hi
              rw [hcl]
              exact find_put_other _ _ _ (by rw [hid]; exact hi)
            · rw [hcl, ← hid]
              exact find_put_same _ _

theorem applyOne_fx (group : String) (s : St) (X : Id) (hd : s.run.opts.dry = .none) :
    ApplyFx s (applyOne group s X) X := by
  unfold applyOne
  cases hm : manifestOf s X with
  | none => exact ⟨rfl, rfl, rfl, rfl, fun _ _ => rfl, Or.inl ⟨hm, rfl, rfl⟩⟩
  | some m =>
    simp only []
    have hid := CliUtils.Props.C01.manifestOf_id s X m hm
    cases hdec : applyDecision s m with
    | fail r => exact fx_fail group s s X r (frame_refl s) rfl
    | skip r => exact ⟨rfl, rfl, rfl, rfl, fun _ _ => rfl, Or.inr (Or.inl ⟨.skipped, by simp, by simp, rfl, rfl⟩)⟩
    | go frm => simp only []; rw [← hid]; exact kubectlApply_fx group s m frm hd

/-! ## one prune step, through `find?` -/

/-- what one prune step for `live` does: other ids are untouched, the object named `live.id` does not appear and keeps its uid, a
delete record is written; after a successful delete without finalizer the object is gone -/
def PruneFx (s s' : St) (live : Live) : Prop :=
  s'.run = s.run ∧ s'.cache = s.cache ∧ s'.invalid = s.invalid ∧ (∀ X ∈ s'.abandoned, X ∈ s.abandoned ∨ X = live.id) ∧
  (∀ i, i ≠ live.id → s'.cl.find? i = s.cl.find? i) ∧
  (s.cl.find? live.id = none → s'.cl.find? live.id = none) ∧
  (∀ o', s'.cl.find? live.id = some o' → ∃ o, s.cl.find? live.id = some o ∧ o'.uid = o.uid) ∧
  ∃ a uid, s'.mgr = s.mgr.add live.id .delete a uid 0 ∧ a ≠ Actuation.pending ∧
    (a = Actuation.succeeded → uid = live.uid ∧ (hasFinalizer s.run live.id = false → s'.cl.find? live.id = none))

theorem pfx_same (s t : St) (live : Live) (a : Actuation) (hr : t.run = s.run) (hc : t.cache = s.cache) (hi : t.invalid = s.invalid)
    (hcl : t.cl = s.cl) (hm : t.mgr = s.mgr.add live.id .delete a "" 0) (ha : a = .failed ∨ a = .skipped)
    (hab : ∀ X ∈ t.abandoned, X ∈ s.abandoned ∨ X = live.id) : PruneFx s t live := by
  refine ⟨hr, hc, hi, hab, fun _ _ => by rw [hcl], fun h => by rw [hcl]; exact h, fun o' h => ⟨o', by rw [← hcl]; exact h, rfl⟩,
    a, "", hm, ?_, ?_⟩
  · rcases ha with ha | ha <;> simp [ha]
  · rcases ha with ha | ha <;> simp [ha]

theorem pruneOne_fx (group : String) (uids localNs : List String) (s : St) (live : Live) (hd : s.run.opts.dry = .none) :
    PruneFx s (pruneOne group uids localNs s live) live := by
  have hdry : dryOf s = false := by unfold dryOf; rw [hd]; simp
  cases hdec : pruneDecision uids localNs s live <;> simp only [pruneOne, hdec]
  · exact pfx_same s _ live .failed rfl rfl rfl rfl rfl (Or.inl rfl) (fun _ h => Or.inl h)
  · exact pfx_same s _ live .skipped rfl rfl rfl rfl rfl (Or.inr rfl) (fun _ h => Or.inl h)
  · exact pfx_same s _ live .skipped rfl rfl rfl rfl rfl (Or.inr rfl)
      (fun X h => by simpa [pruneSkip] using h)
  · -- preventUpdate
    have hc := mutReq_cases s "update" live.id false "" "" (abandonEffect live)
    have hfr := mutReq_frame s "update" live.id false "" "" (abandonEffect live)
    obtain ⟨e1, e2, e3⟩ := abandonEffect_find live s.cl
    generalize s.mutReq "update" live.id false "" "" (abandonEffect live) = r at hc hfr
    have hcl : r.1.cl = s.cl ∨ r.1.cl = (abandonEffect live s.cl).1 := by
      rcases hc with hc | hc
      · exact Or.inl hc.1
      · exact Or.inr hc.1
    have hoth : ∀ i, i ≠ live.id → r.1.cl.find? i = s.cl.find? i := by
      intro i hi
      rcases hcl with h | h <;> rw [h]
      exact e1 i hi
    have hnone : s.cl.find? live.id = none → r.1.cl.find? live.id = none := by
      intro hn
      rcases hcl with h | h <;> rw [h]
      · exact hn
      · rw [e2 hn]; exact hn
    have huid : ∀ o', r.1.cl.find? live.id = some o' → ∃ o, s.cl.find? live.id = some o ∧ o'.uid = o.uid := by
      intro o' ho'
      rcases hcl with h | h <;> rw [h] at ho'
      · exact ⟨o', ho', rfl⟩
      · exact e3 o' ho'
    split
    · exact ⟨hfr.2.1, hfr.2.2.2.2, hfr.2.2.2.1, fun X h => by simpa [pruneSkip, hfr.2.2.1] using h, hoth, hnone, huid,
        .skipped, "", by simp [pruneSkip, hfr.1], by simp, by simp⟩
    · exact ⟨hfr.2.1, hfr.2.2.2.2, hfr.2.2.2.1, fun X h => by rw [pruneFail_abandoned, hfr.2.2.1] at h; exact Or.inl h, hoth, hnone, huid,
        .failed, "", by simp [pruneFail, hfr.1], by simp, by simp⟩
  · exact pfx_same s _ live .skipped rfl rfl rfl rfl rfl (Or.inr rfl) (fun _ h => Or.inl h)
  · exact pfx_same s _ live .failed rfl rfl rfl rfl rfl (Or.inl rfl) (fun _ h => Or.inl h)
  · -- justApplied
    rw [hdry]
    exact pfx_same s _ live .skipped rfl rfl rfl rfl rfl (Or.inr rfl) (fun X h => by simpa [pruneSkip] using h)
  · -- deleteDry: impossible outside dry-run
    exfalso
    unfold pruneDecision at hdec
    rw [hdry] at hdec
    simp only [Bool.false_eq_true, if_false] at hdec
    split at hdec
    · cases hdec
    · split at hdec
      · split at hdec <;> cases hdec
      · split at hdec
        · cases hdec
        · split at hdec
          · cases hdec
          · split at hdec
            · cases hdec
            · cases hdec
            · split at hdec <;> cases hdec
  · -- delete
    have hc := mutReq_cases s "delete" live.id false live.uid (propagationOf s) (deleteEffect (hasFinalizer s.run live.id) live)
    have hfr := mutReq_frame s "delete" live.id false live.uid (propagationOf s) (deleteEffect (hasFinalizer s.run live.id) live)
    obtain ⟨e1, e2, e3, e4, _⟩ := deleteEffect_find (hasFinalizer s.run live.id) live s.cl
    generalize s.mutReq "delete" live.id false live.uid (propagationOf s) (deleteEffect (hasFinalizer s.run live.id) live) = r at hc hfr
    have hcl : r.1.cl = s.cl ∨ r.1.cl = (deleteEffect (hasFinalizer s.run live.id) live s.cl).1 := by
      rcases hc with hc | hc
      · exact Or.inl hc.1
      · exact Or.inr hc.1
    have hoth : ∀ i, i ≠ live.id → r.1.cl.find? i = s.cl.find? i := by
      intro i hi
      rcases hcl with h | h <;> rw [h]
      exact e1 i hi
    have hnone : s.cl.find? live.id = none → r.1.cl.find? live.id = none := by
      intro hn
      rcases hcl with h | h <;> rw [h]
      · exact hn
      · rw [e2 hn]; exact hn
    have huid : ∀ o', r.1.cl.find? live.id = some o' → ∃ o, s.cl.find? live.id = some o ∧ o'.uid = o.uid := by
      intro o' ho'
      rcases hcl with h | h <;> rw [h] at ho'
      · exact ⟨o', ho', rfl⟩
      · exact e3 o' ho'
    split
    · rename_i hok
      have hok' : r.2 = "ok" ∨ r.2 = "notfound" := by simpa using hok
      refine ⟨hfr.2.1, hfr.2.2.2.2, hfr.2.2.2.1, fun X h => by rw [pruneOk_abandoned, hfr.2.2.1] at h; exact Or.inl h,
        hoth, hnone, huid, .succeeded, live.uid, by simp [pruneOk, hfr.1], by simp, fun _ => ⟨rfl, fun hfin => ?_⟩⟩
      rcases hc with hc | hc
      · rw [hc.2] at hok'; simp at hok'
      · simp only [pruneOk_cl]
        rw [hc.1]
        exact e4 (by rw [← hc.2]; exact hok') hfin
    · exact ⟨hfr.2.1, hfr.2.2.2.2, hfr.2.2.2.1, fun X h => by rw [pruneFail_abandoned, hfr.2.2.1] at h; exact Or.inl h, hoth, hnone, huid,
        .failed, "", by simp [pruneFail, hfr.1], by simp, by simp⟩

/-! ## a whole wait task, over (actuation table, store, status cache) -/

/-- loop invariant of `runWait_triple` -/
structure WSync (I : Mgr Id → Cluster → List (Id × Wait.Obs) → Prop) (run : Run) (ab iv : List Id) (ids : List Id) (cond : Wait.Cond)
    (ws : WaitSt) : Prop where
  inv : I ws.s.mgr ws.s.cl ws.s.cache
  wm : ws.w.mgr = ws.s.mgr
  wc : ws.w.cache = ws.s.cache
  wi : ws.w.ids = ids
  wcond : ws.w.cond = cond
  run : ws.s.run = run
  ab : ws.s.abandoned = ab
  iv : ws.s.invalid = iv

/-- **induction over a wait task**: a property of (table, store, cache) that survives the phase start, every scripted delivery
(environment action, cache put, status update) and the deadline holds after the whole task — whatever cancellation, watcher failure
or timeout configuration -/
theorem runWait_triple (I : Mgr Id → Cluster → List (Id × Wait.Obs) → Prop) (group : String) (s : St) (ids : List Id) (cond : Wait.Cond)
    (hstart : I (Wait.start ids cond s.mgr s.cache).mgr s.cl s.cache)
    (hdel : ∀ (w : Wait.WState Id) (cl : Cluster) (d : Delivery), (∃ c ∈ ids.flatMap (scriptFor s.run cond), d ∈ c) →
        w.ids = ids → w.cond = cond → I w.mgr cl w.cache →
        I (Wait.statusUpdate w d.id (obsOf (if d.envRemove then cl.remove d.id else cl) d)).mgr
          (if d.envRemove then cl.remove d.id else cl)
          ((d.id, obsOf (if d.envRemove then cl.remove d.id else cl) d) :: w.cache))
    (hto : ∀ (w : Wait.WState Id) (cl : Cluster), w.ids = ids → w.cond = cond → I w.mgr cl w.cache → I (Wait.timeout w).mgr cl w.cache) :
    I (runWait group s ids cond).1.mgr (runWait group s ids cond).1.cl (runWait group s ids cond).1.cache ∧
    (runWait group s ids cond).1.run = s.run ∧ (runWait group s ids cond).1.abandoned = s.abandoned ∧
    (runWait group s ids cond).1.invalid = s.invalid := by
  unfold runWait
  simp only []
  -- the start
  obtain ⟨_, _, hca, hids, hco⟩ := Wait.start_find ids cond s.mgr s.cache (default : Id)
  have e0 : WSync I s.run s.abandoned s.invalid ids cond
      { s := flushWait group { { s with waitIdx := s.waitIdx + 1 } with mgr := (Wait.start ids cond s.mgr s.cache).mgr }
          (Wait.start ids cond s.mgr s.cache) 0,
        w := Wait.start ids cond s.mgr s.cache } := by
    obtain ⟨ff1, ff2, ff3, ff4, ff5, ff6, _, _⟩ := flushWait_frame group
      { { s with waitIdx := s.waitIdx + 1 } with mgr := (Wait.start ids cond s.mgr s.cache).mgr } (Wait.start ids cond s.mgr s.cache) 0
    refine ⟨?_, ff4.symm, by rw [ff6]; exact hca, hids, hco, ff2, ff5, ff3⟩
    simp only []
    rw [ff4, ff1, ff6]
    exact hstart
  -- one delivery
  have hone : ∀ (ws : WaitSt) (d : Delivery), (∃ c ∈ ids.flatMap (scriptFor s.run cond), d ∈ c) → WSync I s.run s.abandoned s.invalid ids cond ws →
      WSync I s.run s.abandoned s.invalid ids cond (deliverOne group s.waitIdx ws d).1 := by
    intro ws d hdm h
    unfold deliverOne
    simp only []
    split
    · exact h
    · split
      · exact ⟨h.inv, h.wm, h.wc, h.wi, h.wcond, h.run, h.ab, h.iv⟩
      · split
        · exact ⟨h.inv, h.wm, h.wc, h.wi, h.wcond, h.run, h.ab, h.iv⟩
        · obtain ⟨f1, f2, f3, f4, f5, f6, _, _⟩ := deliverState_frame ws.s d
          generalize deliverState ws.s d = s2 at *
          have hsp := Wait.statusUpdate_spec { ws.w with mgr := s2.mgr } d.id (obsOf s2.cl d)
          obtain ⟨sc, si, sco, _⟩ := hsp
          have hd' := hdel { ws.w with mgr := s2.mgr } ws.s.cl d hdm h.wi h.wcond (by simp only []; rw [f5, h.wc]; exact h.inv)
          rw [← f1] at hd'
          generalize Wait.statusUpdate { ws.w with mgr := s2.mgr } d.id (obsOf s2.cl d) = w' at *
          obtain ⟨ff1, ff2, ff3, ff4, ff5, ff6, _, _⟩ := flushWait_frame group { s2 with mgr := w'.mgr } w' ws.w.events.length
          generalize flushWait group { s2 with mgr := w'.mgr } w' ws.w.events.length = s3 at *
          simp only [] at ff1 ff2 ff3 ff4 ff5 ff6 sc si sco hd'
          refine ⟨?_, ff4.symm, by rw [sc, ff6, f2, h.wc], by rw [si]; exact h.wi, by rw [sco]; exact h.wcond,
            by rw [ff2, f3]; exact h.run, by rw [ff5, f6]; exact h.ab, by rw [ff3, f4]; exact h.iv⟩
          simp only []
          rw [ff4, ff1, ff6, f2, ← h.wc]
          exact hd'
  have hchain : ∀ (ds : List Delivery) (ws : WaitSt), (∀ d ∈ ds, ∃ c ∈ ids.flatMap (scriptFor s.run cond), d ∈ c) →
      WSync I s.run s.abandoned s.invalid ids cond ws → WSync I s.run s.abandoned s.invalid ids cond (deliverChain group s.waitIdx ws ds) := by
    intro ds
    induction ds with
    | nil => intro ws _ h; exact h
    | cons d ds ih =>
      intro ws hds h
      simp only [deliverChain]
      have h1 := hone ws d (hds d (by simp)) h
      split
      · exact ih _ (fun d' hd' => hds d' (by simp [hd'])) h1
      · exact h1
  have hfold : ∀ (chains : List (List Delivery)) (ws : WaitSt), (∀ c ∈ chains, c ∈ ids.flatMap (scriptFor s.run cond)) →
      WSync I s.run s.abandoned s.invalid ids cond ws → WSync I s.run s.abandoned s.invalid ids cond (chains.foldl (deliverChain group s.waitIdx) ws) := by
    intro chains
    induction chains with
    | nil => intro ws _ h; exact h
    | cons c cs ih =>
      intro ws hc h
      exact ih _ (fun c' hc' => hc c' (by simp [hc'])) (hchain c ws (fun d hd => ⟨c, hc c (by simp), hd⟩) h)
  have e1 := hfold (ids.flatMap (scriptFor s.run cond)) _ (fun _ h => h) e0
  generalize (ids.flatMap (scriptFor s.run cond)).foldl (deliverChain group s.waitIdx) _ = ws at e1
  have e2 : WSync I s.run s.abandoned s.invalid ids cond
      (if !ws.stopped && !ws.w.cancelled && !ws.w.pending.isEmpty && decide (ws.s.run.cancel = CancelAt.wait s.waitIdx none) then
      ({ ws with s := { ws.s with cancelled := true }, w := Wait.cancel ws.w, stopped := true } : WaitSt) else ws) := by
    split
    · exact ⟨e1.inv, e1.wm, e1.wc, e1.wi, e1.wcond, e1.run, e1.ab, e1.iv⟩
    · exact e1
  generalize (if !ws.stopped && !ws.w.cancelled && !ws.w.pending.isEmpty && decide (ws.s.run.cancel = CancelAt.wait s.waitIdx none) then
      ({ ws with s := { ws.s with cancelled := true }, w := Wait.cancel ws.w, stopped := true } : WaitSt) else ws) = ws2 at e2
  split
  · exact ⟨e2.inv, e2.run, e2.ab, e2.iv⟩
  · split
    · exact ⟨e2.inv, e2.run, e2.ab, e2.iv⟩
    · obtain ⟨ff1, ff2, ff3, ff4, ff5, ff6, _, _⟩ := flushWait_frame group
        { ws2.s with mgr := (Wait.timeout { ws2.w with mgr := ws2.s.mgr }).mgr } (Wait.timeout { ws2.w with mgr := ws2.s.mgr })
        ws2.w.events.length
      simp only [] at ff1 ff2 ff3 ff4 ff5 ff6 ⊢
      rw [ff4, ff1, ff6, ff2, ff5, ff3]
      refine ⟨?_, e2.run, e2.ab, e2.iv⟩
      have := hto { ws2.w with mgr := ws2.s.mgr } ws2.s.cl e2.wi e2.wcond (by simp only []; rw [e2.wc]; exact e2.inv)
      simp only [] at this
      rw [← e2.wc]
      exact this

/-! ## the actuation table through a wait task -/

theorem rcOfEv_succeeded (e : Wait.WEv) (h : Wait.rcOfEv e = .succeeded) : e = .successful := by
  cases e <;> simp [Wait.rcOfEv] at h ⊢

theorem startEv_success (c : Wait.Cond) (m : Mgr Id) (o : Wait.Obs) (x : Id)
    (h : CliUtils.Props.C06.startEv c m o x = .successful) : CliUtils.Props.C06.SuccessOK c m o x := by
  unfold CliUtils.Props.C06.startEv at h
  unfold CliUtils.Props.C06.SuccessOK
  by_cases hs : Wait.skipped c m x = true
  · simp [hs] at h
  · simp only [hs] at h
    by_cases hch : Wait.changedUID m o x = true
    · cases c <;> simp [hch] at h ⊢
    · by_cases hr : Wait.reconciled c m o x = true
      · cases c <;> simp [hch, hr]
      · simp [hch, hr] at h

/-- the phase start: the first record of `x` gets the reconcile status of its start event, if `x` is waited for; `Successful` only
on a cached observation that satisfies the condition -/
theorem start_table (ids : List Id) (c : Wait.Cond) (m : Mgr Id) (cache : List (Id × Wait.Obs)) :
    Wait.MemStatic m (Wait.start ids c m cache).mgr ∧
    ∀ x r', (Wait.start ids c m cache).mgr.find? x = some r' → ∃ r, m.find? x = some r ∧ Wait.static r' = Wait.static r ∧
      (r'.reconcile = r.reconcile ∨
        (x ∈ ids ∧ (r'.reconcile = .succeeded → CliUtils.Props.C06.SuccessOK c m (Wait.getObs cache x) x))) := by
  obtain ⟨_, hms, _⟩ := Wait.start_find ids c m cache (default : Id)
  refine ⟨hms, ?_⟩
  intro x r' hr'
  rw [(Wait.start_find ids c m cache x).1] at hr'
  cases hf : m.find? x with
  | none => rw [hf] at hr'; cases hr'
  | some r =>
    rw [hf] at hr'
    simp only [Option.map_some, Option.some.injEq] at hr'
    refine ⟨r, rfl, ?_⟩
    by_cases hx : x ∈ ids
    · simp only [hx, if_true] at hr'
      subst hr'
      refine ⟨rfl, Or.inr ⟨hx, fun h => ?_⟩⟩
      exact startEv_success _ _ _ _ (rcOfEv_succeeded _ h)
    · simp only [hx, if_false] at hr'
      subst hr'
      exact ⟨rfl, Or.inl rfl⟩

/-- one status update: the first record of `x` is unchanged, or `x` is the updated object and `Successful` is only recorded on an
observation that satisfies the condition -/
theorem update_table (w : Wait.WState Id) (id : Id) (o : Wait.Obs) :
    Wait.MemStatic w.mgr (Wait.statusUpdate w id o).mgr ∧
    ∀ x r', (Wait.statusUpdate w id o).mgr.find? x = some r' → ∃ r, w.mgr.find? x = some r ∧ Wait.static r' = Wait.static r ∧
      (r'.reconcile = r.reconcile ∨
        (x = id ∧ id ∈ w.ids ∧ (r'.reconcile = .succeeded → CliUtils.Props.C06.SuccessOK w.cond w.mgr o id))) := by
  refine ⟨(Wait.statusUpdate_spec w id o).2.2.2.1, ?_⟩
  unfold Wait.statusUpdate
  simp only []
  split
  · rename_i hin
    have h := Wait.inner_mgr_events (o := o) { w with cache := (id, o) :: w.cache } id (by simp)
    intro x r' hr'
    rw [Wait.endIf_mgr, h.2.1] at hr'
    cases hd : Wait.decide? { w with cache := (id, o) :: w.cache } id o with
    | none =>
      rw [hd] at hr'
      exact ⟨r', hr', rfl, Or.inl rfl⟩
    | some ev =>
      rw [hd] at hr'
      simp only [] at hr'
      rw [Wait.find_setReconcile_getD] at hr'
      cases hf : w.mgr.find? x with
      | none => rw [hf] at hr'; cases hr'
      | some r =>
        rw [hf] at hr'
        simp only [Option.map_some, Option.some.injEq] at hr'
        refine ⟨r, rfl, ?_⟩
        by_cases hx : x = id
        · simp only [hx, if_true] at hr'
          subst hr'
          refine ⟨rfl, Or.inr ⟨hx, hin, fun hs => ?_⟩⟩
          have hev := rcOfEv_succeeded ev hs
          subst hev
          exact CliUtils.Props.C06.decide_success_sound { w with cache := (id, o) :: w.cache } id o hd
        · simp only [hx, if_false] at hr'
          subst hr'
          exact ⟨rfl, Or.inl rfl⟩
  · intro x r' hr'
    exact ⟨r', hr', rfl, Or.inl rfl⟩

/-- the deadline: the first record of `x` is unchanged or marked `timeout` -/
theorem timeout_table (w : Wait.WState Id) :
    Wait.MemStatic w.mgr (Wait.timeout w).mgr ∧
    ∀ x r', (Wait.timeout w).mgr.find? x = some r' → ∃ r, w.mgr.find? x = some r ∧ Wait.static r' = Wait.static r ∧
      (r'.reconcile = r.reconcile ∨ r'.reconcile = .timeout) := by
  have hmgr : (Wait.timeout w).mgr = (w.pending.foldl (fun st id => Wait.emit st id .timeout) w).mgr := rfl
  rw [hmgr]
  refine ⟨(Wait.timeoutFold_find w.pending w (default : Id)).2, ?_⟩
  intro x r' hr'
  rw [(Wait.timeoutFold_find w.pending w x).1] at hr'
  cases hf : w.mgr.find? x with
  | none => rw [hf] at hr'; cases hr'
  | some r =>
    rw [hf] at hr'
    simp only [Option.map_some, Option.some.injEq] at hr'
    refine ⟨r, rfl, ?_⟩
    by_cases hx : x ∈ w.pending
    · simp only [hx, if_true] at hr'; subst hr'; exact ⟨rfl, Or.inr rfl⟩
    · simp only [hx, if_false] at hr'; subst hr'; exact ⟨rfl, Or.inl rfl⟩

theorem static_fields {r r' : Rec Id} (h : Wait.static r' = Wait.static r) :
    r'.id = r.id ∧ r'.strategy = r.strategy ∧ r'.actuation = r.actuation ∧ r'.uid = r.uid ∧ r'.gen = r.gen := by
  simp only [Wait.static, Prod.mk.injEq] at h
  exact h

/-! ## the scripts of the status feed -/

theorem script_facts (run : Run) (cond : Wait.Cond) (i : Id) :
    ∀ c ∈ scriptFor run cond i, ∀ d ∈ c, d.id = i ∧ (d.envRemove = true → cond = .allNotFound) ∧
      (cond = .allNotFound → (DelScriptsOK run → d.newUid = false) ∧
        (DelScriptsOK run → d.status = .notFound → d.envRemove = true ∨ hasFinalizer run i = false)) := by
  intro c hc d hd
  unfold scriptFor at hc
  cases cond with
  | allNotFound =>
    simp only [] at hc
    split at hc
    · simp only [List.mem_singleton] at hc; subst hc
      simp only [List.mem_singleton] at hd; subst hd
      exact ⟨rfl, fun _ => rfl, fun _ => ⟨fun _ => rfl, fun _ h => by simp at h⟩⟩
    · simp only [List.mem_singleton] at hc; subst hc
      simp only [List.mem_cons, List.not_mem_nil, or_false] at hd
      rcases hd with hd | hd <;> subst hd
      · exact ⟨rfl, fun _ => rfl, fun _ => ⟨fun _ => rfl, fun _ h => by simp at h⟩⟩
      · exact ⟨rfl, fun _ => rfl, fun _ => ⟨fun _ => rfl, fun _ _ => Or.inl rfl⟩⟩
    · -- "replaced": not one of the `DelScriptsOK` scripts
      rename_i h3
      simp only [List.mem_singleton] at hc; subst hc
      simp only [List.mem_singleton] at hd; subst hd
      refine ⟨rfl, fun _ => rfl, fun _ => ⟨fun hdel => ?_, fun _ h => by simp at h⟩⟩
      exfalso
      rcases getD_del_cases run hdel i with h | h | h <;> rw [h] at h3 <;> simp at h3
    · rename_i h1 h2 h3
      simp only [List.mem_singleton] at hc; subst hc
      simp only [List.mem_singleton] at hd; subst hd
      refine ⟨rfl, fun _ => rfl, fun _ => ⟨fun _ => rfl, fun hdel _ => Or.inr ?_⟩⟩
      unfold hasFinalizer
      rcases getD_del_cases run hdel i with h | h | h
      · rw [h]; rfl
      · exact absurd h h1
      · exact absurd h h2
  | allCurrent =>
    simp only [] at hc
    refine ⟨?_, ?_, fun h => by cases h⟩
    · split at hc <;> simp only [List.mem_singleton] at hc <;> subst hc <;>
        simp only [List.mem_cons, List.not_mem_nil, or_false] at hd
      all_goals first
        | (subst hd; rfl)
        | (rcases hd with hd | hd <;> subst hd <;> rfl)
    · split at hc <;> simp only [List.mem_singleton] at hc <;> subst hc <;>
        simp only [List.mem_cons, List.not_mem_nil, or_false] at hd
      all_goals first
        | (subst hd; intro h; cases h)
        | (rcases hd with hd | hd <;> subst hd <;> intro h <;> cases h)

theorem chain_facts (run : Run) (cond : Wait.Cond) (ids : List Id) (d : Delivery)
    (h : ∃ c ∈ ids.flatMap (scriptFor run cond), d ∈ c) :
    d.id ∈ ids ∧ (d.envRemove = true → cond = .allNotFound) ∧
      (cond = .allNotFound → (DelScriptsOK run → d.newUid = false) ∧
        (DelScriptsOK run → d.status = .notFound → d.envRemove = true ∨ hasFinalizer run d.id = false)) := by
  obtain ⟨c, hc, hd⟩ := h
  obtain ⟨i, hi, hci⟩ := List.mem_flatMap.mp hc
  obtain ⟨h1, h2, h3⟩ := script_facts run cond i c hci d hd
  rw [h1]
  exact ⟨hi, h2, h3⟩

/-! ## the light invariants -/

/-- side conditions of the light invariants: not a dry-run, and the prune objects are not in the apply set -/
structure CxOK (x : Ctx) : Prop where
  dry : x.run.opts.dry = .none
  disj : ∀ i ∈ x.A, ∀ l ∈ x.P, l.id ≠ i

/-- **apply succeeded ⇒ live and annotated**: apply records only exist for ids of `x.A`, and an id whose (first) record is a
successful apply names a stored object that carries the inventory's annotation -/
structure LiveT (x : Ctx) (m : Mgr Id) (cl : Cluster) : Prop where
  recA : ∀ r ∈ m, r.strategy = .apply → r.id ∈ x.A
  live : ∀ id r, m.find? id = some r → r.strategy = .apply → r.actuation = .succeeded → ∃ o, cl.find? id = some o ∧ o.owner = invId

/-- the annotated objects of the apply set stay -/
def KeepsA (x : Ctx) (cl cl' : Cluster) : Prop :=
  ∀ i ∈ x.A, ∀ o, cl.find? i = some o → o.owner = invId → ∃ o', cl'.find? i = some o' ∧ o'.owner = invId

theorem KeepsA.of_find {x : Ctx} {cl cl' : Cluster} (h : ∀ i ∈ x.A, cl'.find? i = cl.find? i) : KeepsA x cl cl' :=
  fun i hi o ho hown => ⟨o, by rw [h i hi]; exact ho, hown⟩

theorem LiveT.store {x : Ctx} {m : Mgr Id} {cl cl' : Cluster} (h : LiveT x m cl) (hk : KeepsA x cl cl') : LiveT x m cl' := by
  refine ⟨h.recA, ?_⟩
  intro id r hr hs ha
  obtain ⟨o, ho, hown⟩ := h.live id r hr hs ha
  have hid : id ∈ x.A := by
    obtain ⟨hm, hrid⟩ := find_mem _ _ _ hr
    rw [← hrid]; exact h.recA r hm hs
  exact hk id hid o ho hown

/-- a table that differs only in reconcile fields -/
theorem LiveT.table {x : Ctx} {m m' : Mgr Id} {cl : Cluster} (h : LiveT x m cl) (hms : Wait.MemStatic m m')
    (hf : ∀ id r', m'.find? id = some r' → ∃ r, m.find? id = some r ∧ Wait.static r' = Wait.static r) : LiveT x m' cl := by
  refine ⟨?_, ?_⟩
  · intro r' hr' hs
    obtain ⟨r, hr, hst⟩ := hms r' hr'
    obtain ⟨e1, e2, _⟩ := static_fields hst
    rw [e1]; exact h.recA r hr (by rw [← e2]; exact hs)
  · intro id r' hr' hs ha
    obtain ⟨r, hr, hst⟩ := hf id r' hr'
    obtain ⟨_, e2, e3, _⟩ := static_fields hst
    exact h.live id r hr (by rw [← e2]; exact hs) (by rw [← e3]; exact ha)

theorem LiveT.applyFx {x : Ctx} {s s' : St} {X : Id} (h : LiveT x s.mgr s.cl) (hX : X ∈ x.A) (hfx : ApplyFx s s' X) :
    LiveT x s'.mgr s'.cl := by
  obtain ⟨_, _, _, _, hoth, hcase⟩ := hfx
  rcases hcase with ⟨_, hm, hcl⟩ | ⟨a, ha, _, hm, hcl⟩ | ⟨uid, gen, o, hm, ho, hown⟩
  · rw [hm, hcl]; exact h
  · rw [hm, hcl]
    refine ⟨?_, ?_⟩
    · intro r hr hs
      rcases mem_set _ _ _ hr with hr | hr
      · subst hr; exact hX
      · exact h.recA r hr hs
    · intro id r hr hs hsucc
      by_cases hid : id = X
      · subst hid
        rw [find_add_same] at hr
        injection hr with hr
        subst hr
        exact absurd hsucc ha
      · rw [find_add_other _ _ _ _ _ _ _ hid] at hr
        exact h.live id r hr hs hsucc
  · rw [hm]
    refine ⟨?_, ?_⟩
    · intro r hr hs
      rcases mem_set _ _ _ hr with hr | hr
      · subst hr; exact hX
      · exact h.recA r hr hs
    · intro id r hr hs hsucc
      by_cases hid : id = X
      · subst hid; exact ⟨o, ho, hown⟩
      · rw [find_add_other _ _ _ _ _ _ _ hid] at hr
        rw [hoth id hid]
        exact h.live id r hr hs hsucc

theorem LiveT.pruneFx {x : Ctx} {s s' : St} {live : Live} (h : LiveT x s.mgr s.cl) (hfx : PruneFx s s' live) :
    LiveT x s'.mgr s'.cl := by
  obtain ⟨_, _, _, _, hoth, _, _, a, uid, hm, _, _⟩ := hfx
  rw [hm]
  refine ⟨?_, ?_⟩
  · intro r hr hs
    rcases mem_set _ _ _ hr with hr | hr
    · subst hr; simp at hs
    · exact h.recA r hr hs
  · intro id r hr hs hsucc
    by_cases hid : id = live.id
    · subst hid
      rw [find_add_same] at hr
      injection hr with hr
      subst hr
      simp at hs
    · rw [find_add_other _ _ _ _ _ _ _ hid] at hr
      rw [hoth id hid]
      exact h.live id r hr hs hsucc

/-- the wait is for applied objects (`allCurrent`, ids of `x.A`) or for pruned objects (`allNotFound`, ids of `x.P`) -/
def WaitWF (x : Ctx) (ids : List Id) (cond : Wait.Cond) : Prop :=
  (cond = .allCurrent ∧ ∀ i ∈ ids, i ∈ x.A) ∨ (cond = .allNotFound ∧ ∀ i ∈ ids, ∃ l ∈ x.P, l.id = i)

theorem LiveT.wait {x : Ctx} (hx : CxOK x) (group : String) (s : St) (ids : List Id) (cond : Wait.Cond)
    (hk : WaitWF x ids cond) (h : LiveT x s.mgr s.cl) :
    LiveT x (runWait group s ids cond).1.mgr (runWait group s ids cond).1.cl ∧ (runWait group s ids cond).1.run = s.run := by
  suffices h' : LiveT x (runWait group s ids cond).1.mgr (runWait group s ids cond).1.cl ∧ (runWait group s ids cond).1.run = s.run ∧
      (runWait group s ids cond).1.abandoned = s.abandoned ∧ (runWait group s ids cond).1.invalid = s.invalid from ⟨h'.1, h'.2.1⟩
  refine runWait_triple (fun m cl _ => LiveT x m cl) group s ids cond ?_ ?_ ?_
  · obtain ⟨h1, h2⟩ := start_table ids cond s.mgr s.cache
    exact h.table h1 (fun id r' hr' => let ⟨r, a, b, _⟩ := h2 id r' hr'; ⟨r, a, b⟩)
  · intro w cl d hdm _ hwc hI
    obtain ⟨hdin, hrem, _⟩ := chain_facts s.run cond ids d hdm
    obtain ⟨h1, h2⟩ := update_table w d.id (obsOf (if d.envRemove then cl.remove d.id else cl) d)
    refine (hI.table h1 (fun id r' hr' => let ⟨r, a, b, _⟩ := h2 id r' hr'; ⟨r, a, b⟩)).store ?_
    by_cases hr : d.envRemove = true
    · simp only [hr, if_true]
      apply KeepsA.of_find
      intro i hi
      apply find_remove_other
      intro hid
      rcases hk with ⟨hc, _⟩ | ⟨_, hP⟩
      · rw [hc] at hrem; exact absurd (hrem hr) (by simp)
      · obtain ⟨l, hl, hlid⟩ := hP d.id hdin
        exact hx.disj i hi l hl (hlid.trans hid.symm)
    · simp only [hr]
      exact KeepsA.of_find (fun _ _ => rfl)
  · intro w cl _ _ hI
    obtain ⟨h1, h2⟩ := timeout_table w
    exact hI.table h1 (fun id r' hr' => let ⟨r, a, b, _⟩ := h2 id r' hr'; ⟨r, a, b⟩)

/-- **delete succeeded and reconciled ⇒ gone**: delete records only exist for prune objects (with the uid read at planning time);
a stored object named like a prune object has that uid; the cached observations of prune objects carry that uid and say NotFound
(for an object kept by a finalizer) only if the object is gone; and an id whose (first) record is a successful delete that reconciled
— or a successful delete without finalizer — names no stored object -/
structure GoneT (x : Ctx) (m : Mgr Id) (cl : Cluster) (cache : List (Id × Wait.Obs)) : Prop where
  recP : ∀ r ∈ m, r.strategy = .delete → ∃ l ∈ x.P, l.id = r.id ∧ (r.actuation = .succeeded → r.uid = l.uid)
  pobj : ∀ l ∈ x.P, ∀ o, cl.find? l.id = some o → o.uid = l.uid
  cacheNF : ∀ l ∈ x.P, hasFinalizer x.run l.id = true → (Wait.getObs cache l.id).status = .notFound → cl.find? l.id = none
  cacheUid : ∀ l ∈ x.P, (Wait.getObs cache l.id).hasRes = true → (Wait.getObs cache l.id).uid = l.uid
  gone : ∀ id r, m.find? id = some r → r.strategy = .delete → r.actuation = .succeeded →
    (r.reconcile = .succeeded ∨ hasFinalizer x.run id = false) → cl.find? id = none

/-- the objects named like prune objects only disappear, and keep their uid -/
def ShrinksP (x : Ctx) (cl cl' : Cluster) : Prop :=
  ∀ l ∈ x.P, (cl.find? l.id = none → cl'.find? l.id = none) ∧
    ∀ o', cl'.find? l.id = some o' → ∃ o, cl.find? l.id = some o ∧ o'.uid = o.uid

theorem ShrinksP.of_find {x : Ctx} {cl cl' : Cluster} (h : ∀ l ∈ x.P, cl'.find? l.id = cl.find? l.id) : ShrinksP x cl cl' :=
  fun l hl => ⟨fun hn => by rw [h l hl]; exact hn, fun o' ho' => ⟨o', by rw [← h l hl]; exact ho', rfl⟩⟩

theorem ShrinksP.remove (x : Ctx) (cl : Cluster) (j : Id) (b : Bool) : ShrinksP x cl (if b = true then cl.remove j else cl) := by
  intro l _
  cases b with
  | false => exact ⟨fun h => h, fun o' ho' => ⟨o', ho', rfl⟩⟩
  | true =>
    simp only [if_true]
    by_cases hj : l.id = j
    · rw [hj, find_remove_same]
      exact ⟨fun _ => rfl, fun o' ho' => by cases ho'⟩
    · rw [find_remove_other _ _ _ hj]
      exact ⟨fun h => h, fun o' ho' => ⟨o', ho', rfl⟩⟩

theorem GoneT.store {x : Ctx} {m : Mgr Id} {cl cl' : Cluster} {cache : List (Id × Wait.Obs)} (h : GoneT x m cl cache)
    (hs : ShrinksP x cl cl') : GoneT x m cl' cache := by
  refine ⟨h.recP, ?_, ?_, h.cacheUid, ?_⟩
  · intro l hl o' ho'
    obtain ⟨o, ho, hu⟩ := (hs l hl).2 o' ho'
    rw [hu]; exact h.pobj l hl o ho
  · intro l hl hfin hst
    exact (hs l hl).1 (h.cacheNF l hl hfin hst)
  · intro id r hr hstr ha hc
    obtain ⟨hm, hrid⟩ := find_mem _ _ _ hr
    obtain ⟨l, hl, hlid, _⟩ := h.recP r hm hstr
    have := (hs l hl).1 (by rw [hlid, hrid]; exact h.gone id r hr hstr ha hc)
    rw [hlid, hrid] at this
    exact this

theorem GoneT.applyFx {x : Ctx} (hx : CxOK x) {s s' : St} {X : Id} (h : GoneT x s.mgr s.cl s.cache) (hX : X ∈ x.A)
    (hfx : ApplyFx s s' X) : GoneT x s'.mgr s'.cl s'.cache := by
  obtain ⟨_, hca, _, _, hoth, hcase⟩ := hfx
  have hsh : ShrinksP x s.cl s'.cl := ShrinksP.of_find (fun l hl => hoth l.id (hx.disj X hX l hl))
  have h1 := h.store hsh
  rw [hca]
  have hadd : ∀ a uid gen, GoneT x (s.mgr.add X .apply a uid gen) s'.cl s.cache := by
    intro a uid gen
    refine ⟨?_, h1.pobj, h1.cacheNF, h1.cacheUid, ?_⟩
    · intro r hr hs
      rcases mem_set _ _ _ hr with hr | hr
      · subst hr; simp at hs
      · exact h.recP r hr hs
    · intro id r hr hs ha hc
      by_cases hid : id = X
      · subst hid
        rw [find_add_same] at hr
        injection hr with hr
        subst hr
        simp at hs
      · rw [find_add_other _ _ _ _ _ _ _ hid] at hr
        exact h1.gone id r hr hs ha hc
  rcases hcase with ⟨_, hm, _⟩ | ⟨a, _, _, hm, _⟩ | ⟨uid, gen, o, hm, _, _⟩
  · rw [hm]; exact h1
  · rw [hm]; exact hadd _ _ _
  · rw [hm]; exact hadd _ _ _

theorem GoneT.pruneFx {x : Ctx} {s s' : St} {live : Live} (h : GoneT x s.mgr s.cl s.cache) (hr : s.run = x.run) (hl : live ∈ x.P)
    (hfx : PruneFx s s' live) : GoneT x s'.mgr s'.cl s'.cache := by
  obtain ⟨_, hca, _, _, hoth, hnone, huid, a, uid, hm, _, hsucc⟩ := hfx
  have hsh : ShrinksP x s.cl s'.cl := by
    intro l _
    by_cases hid : l.id = live.id
    · rw [hid]; exact ⟨hnone, huid⟩
    · rw [hoth l.id hid]; exact ⟨fun h => h, fun o' ho' => ⟨o', ho', rfl⟩⟩
  have h1 := h.store hsh
  rw [hca, hm]
  refine ⟨?_, h1.pobj, h1.cacheNF, h1.cacheUid, ?_⟩
  · intro r hr' hs
    rcases mem_set _ _ _ hr' with hr' | hr'
    · subst hr'
      exact ⟨live, hl, rfl, fun ha => (hsucc ha).1⟩
    · exact h.recP r hr' hs
  · intro id r hr' hs ha hc
    by_cases hid : id = live.id
    · subst hid
      rw [find_add_same] at hr'
      injection hr' with hr'
      subst hr'
      rcases hc with hc | hc
      · cases hc
      · exact (hsucc ha).2 (by rw [hr]; exact hc)
    · rw [find_add_other _ _ _ _ _ _ _ hid] at hr'
      exact h1.gone id r hr' hs ha hc

/-- a table that differs only in reconcile fields, where `Successful` is new only for observations that justify it -/
theorem GoneT.table {x : Ctx} {m m' : Mgr Id} {cl : Cluster} {cache : List (Id × Wait.Obs)} (h : GoneT x m cl cache)
    (hms : Wait.MemStatic m m')
    (hf : ∀ id r', m'.find? id = some r' → ∃ r, m.find? id = some r ∧ Wait.static r' = Wait.static r ∧
      (r'.reconcile = r.reconcile ∨ (r'.reconcile = .succeeded → r.strategy = .delete → r.actuation = .succeeded → cl.find? id = none))) :
    GoneT x m' cl cache := by
  refine ⟨?_, h.pobj, h.cacheNF, h.cacheUid, ?_⟩
  · intro r' hr' hs
    obtain ⟨r, hr, hst⟩ := hms r' hr'
    obtain ⟨e1, e2, e3, e4, _⟩ := static_fields hst
    rw [e1, e3, e4]; exact h.recP r hr (by rw [← e2]; exact hs)
  · intro id r' hr' hs ha hc
    obtain ⟨r, hr, hst, hrc⟩ := hf id r' hr'
    obtain ⟨_, e2, e3, _⟩ := static_fields hst
    rw [e2] at hs
    rw [e3] at ha
    rcases hc with hc | hc
    · rcases hrc with hrc | hrc
      · exact h.gone id r hr hs ha (Or.inl (by rw [← hrc]; exact hc))
      · exact hrc hc hs ha
    · exact h.gone id r hr hs ha (Or.inr hc)

/-- in a delete wait, an observation that justifies `Successful` for a successfully deleted object means the object is gone -/
theorem GoneT.successOK {x : Ctx} {m : Mgr Id} {cl : Cluster} {cache : List (Id × Wait.Obs)} (h : GoneT x m cl cache)
    (id : Id) (r : Rec Id) (o : Wait.Obs) (hr : m.find? id = some r) (hs : r.strategy = .delete) (ha : r.actuation = .succeeded)
    (hok : CliUtils.Props.C06.SuccessOK .allNotFound m o id)
    (huid : ∀ l ∈ x.P, l.id = id → o.hasRes = true → o.uid = l.uid)
    (hnf : o.status = .notFound → cl.find? id = none) : cl.find? id = none := by
  obtain ⟨hm, hrid⟩ := find_mem _ _ _ hr
  obtain ⟨l, hl, hlid, hlu⟩ := h.recP r hm hs
  unfold CliUtils.Props.C06.SuccessOK at hok
  simp only [] at hok
  rcases hok with hok | hok
  · apply hnf
    simp only [Wait.reconciled, Bool.and_eq_true, decide_eq_true_eq] at hok
    exact hok.1
  · exfalso
    simp only [Wait.changedUID, hr, Bool.and_eq_true, ne_eq, decide_eq_true_eq] at hok
    obtain ⟨⟨⟨_, h2⟩, _⟩, h4⟩ := hok
    apply h4
    rw [hlu ha, huid l hl (hlid.trans hrid) h2]

theorem GoneT.wait {x : Ctx} (hx : CxOK x) (hdel : DelScriptsOK x.run) (group : String) (s : St) (ids : List Id) (cond : Wait.Cond)
    (hk : WaitWF x ids cond) (hrun : s.run = x.run) (h : GoneT x s.mgr s.cl s.cache) :
    GoneT x (runWait group s ids cond).1.mgr (runWait group s ids cond).1.cl (runWait group s ids cond).1.cache := by
  -- a delete record for a waited id: the wait is a delete wait
  have hcond : ∀ (m : Mgr Id) (cl : Cluster) (cache : List (Id × Wait.Obs)), GoneT x m cl cache → ∀ id r, m.find? id = some r →
      r.strategy = .delete → id ∈ ids → cond = .allNotFound := by
    intro m cl cache hG id r hr hs hin
    rcases hk with ⟨_, hA⟩ | ⟨hc, _⟩
    · obtain ⟨hm, hrid⟩ := find_mem _ _ _ hr
      obtain ⟨l, hl, hlid, _⟩ := hG.recP r hm hs
      exact absurd (hlid.trans hrid) (hx.disj id (hA id hin) l hl)
    · exact hc
  refine (runWait_triple (fun m cl cache => GoneT x m cl cache) group s ids cond ?_ ?_ ?_).1
  · obtain ⟨h1, h2⟩ := start_table ids cond s.mgr s.cache
    refine h.table h1 ?_
    intro id r' hr'
    obtain ⟨r, a, b, c⟩ := h2 id r' hr'
    refine ⟨r, a, b, ?_⟩
    rcases c with c | ⟨hin, c⟩
    · exact Or.inl c
    · refine Or.inr (fun hsucc hs ha => ?_)
      have hc := hcond _ _ _ h id r a hs hin
      have hok := c hsucc
      rw [hc] at hok
      refine h.successOK id r _ a hs ha hok (fun l hl hlid hres => ?_) (fun hst => ?_)
      · rw [← hlid] at hres ⊢; exact h.cacheUid l hl hres
      · obtain ⟨hm, hrid⟩ := find_mem _ _ _ a
        obtain ⟨l, hl, hlid, _⟩ := h.recP r hm hs
        have hli : l.id = id := hlid.trans hrid
        by_cases hfin : hasFinalizer x.run id = true
        · rw [← hli] at hst hfin ⊢; exact h.cacheNF l hl hfin hst
        · exact h.gone id r a hs ha (Or.inr (by simpa using hfin))
  · intro w cl d hdm _ hwc hI
    obtain ⟨hdin, hrem, hnf⟩ := chain_facts s.run cond ids d hdm
    rw [hrun] at hnf
    generalize hcl2 : (if d.envRemove = true then cl.remove d.id else cl) = cl2
    have hsh : ShrinksP x cl cl2 := by rw [← hcl2]; exact ShrinksP.remove x cl d.id d.envRemove
    have hI2 := hI.store hsh
    obtain ⟨h1, h2⟩ := update_table w d.id (obsOf cl2 d)
    obtain ⟨ost, ores⟩ := obsOf_spec cl2 d
    -- the new cache entry
    have hcache : GoneT x w.mgr cl2 ((d.id, obsOf cl2 d) :: w.cache) := by
      refine ⟨hI2.recP, hI2.pobj, ?_, ?_, hI2.gone⟩
      · intro l hl hfin hst
        by_cases hld : l.id = d.id
        · rw [hld, Wait.getObs_cons_self, ost] at hst
          have hc : cond = .allNotFound := by
            rcases hk with ⟨_, hA⟩ | ⟨hc, _⟩
            · exact absurd hld (hx.disj d.id (hA d.id hdin) l hl)
            · exact hc
          rcases (hnf hc).2 hdel hst with hr | hr
          · rw [← hcl2, hr, hld]; simp only [if_true]; exact find_remove_same _ _
          · rw [hld] at hfin; rw [hr] at hfin; cases hfin
        · rw [Wait.getObs_cons_other _ _ _ _ hld] at hst
          exact hI2.cacheNF l hl hfin hst
      · intro l hl hres
        by_cases hld : l.id = d.id
        · rw [hld, Wait.getObs_cons_self] at hres ⊢
          have hc : cond = .allNotFound := by
            rcases hk with ⟨_, hA⟩ | ⟨hc, _⟩
            · exact absurd hld (hx.disj d.id (hA d.id hdin) l hl)
            · exact hc
          obtain ⟨l', hl', hu⟩ := ores hres
          rw [hu, (hnf hc).1 hdel]
          simp only [Bool.false_eq_true, if_false]
          rw [← hld] at hl'
          exact hI2.pobj l hl l' hl'
        · rw [Wait.getObs_cons_other _ _ _ _ hld] at hres ⊢
          exact hI2.cacheUid l hl hres
    refine hcache.table h1 ?_
    intro id r' hr'
    obtain ⟨r, a, b, c⟩ := h2 id r' hr'
    refine ⟨r, a, b, ?_⟩
    rcases c with c | ⟨hid, hin, c⟩
    · exact Or.inl c
    · refine Or.inr (fun hsucc hs ha => ?_)
      subst hid
      have hc := hcond _ _ _ hI d.id r a hs hdin
      have hok := c hsucc
      rw [hwc, hc] at hok
      refine hI2.successOK d.id r _ a hs ha hok (fun l hl hlid hres => ?_) (fun hst => ?_)
      · obtain ⟨l', hl', hu⟩ := ores hres
        rw [hu, (hnf hc).1 hdel]
        simp only [Bool.false_eq_true, if_false]
        rw [← hlid] at hl'
        exact hI2.pobj l hl l' hl'
      · rw [ost] at hst
        rcases (hnf hc).2 hdel hst with hr | hr
        · rw [← hcl2, hr]; simp only [if_true]; exact find_remove_same _ _
        · exact hI2.gone d.id r a hs ha (Or.inr hr)
  · intro w cl _ _ hI
    obtain ⟨h1, h2⟩ := timeout_table w
    refine hI.table h1 ?_
    intro id r' hr'
    obtain ⟨r, a, b, c⟩ := h2 id r' hr'
    refine ⟨r, a, b, ?_⟩
    rcases c with c | c
    · exact Or.inl c
    · exact Or.inr (fun hsucc => by rw [c] at hsucc; cases hsucc)

/-! ## the light invariants through the tasks of a plan -/

structure LiveInv (x : Ctx) (s : St) : Prop where
  run : s.run = x.run
  t : LiveT x s.mgr s.cl

structure GoneInv (x : Ctx) (s : St) : Prop where
  run : s.run = x.run
  t : GoneT x s.mgr s.cl s.cache

/-- what the light invariants need from a task: apply-side tasks name ids of `x.A`, delete waits name prune objects -/
def TaskWF (x : Ctx) (t : Task) : Prop :=
  match t.kind with
  | .invAdd ids => ∀ i ∈ ids, i ∈ x.A
  | .apply ids => ∀ i ∈ ids, i ∈ x.A
  | .prune _ => True
  | .wait ids cond => WaitWF x ids cond
  | .invSet _ _ => True

theorem LiveInv.frame {x : Ctx} {s s' : St} (h : LiveInv x s) (f : ObjsFrame s s') : LiveInv x s' :=
  ⟨f.run.trans h.run, by
    rw [f.mgr]
    exact h.t.store (KeepsA.of_find (fun i _ => find_of_objs _ _ f.objs i))⟩

theorem GoneInv.frame {x : Ctx} {s s' : St} (h : GoneInv x s) (f : ObjsFrame s s') : GoneInv x s' :=
  ⟨f.run.trans h.run, by
    rw [f.mgr, f.cache]
    exact h.t.store (ShrinksP.of_find (fun l _ => find_of_objs _ _ f.objs l.id))⟩

theorem LiveInv.emit {x : Ctx} {s : St} (h : LiveInv x s) (e : Ev) : LiveInv x (s.emit e) := ⟨h.run, h.t⟩
theorem GoneInv.emit {x : Ctx} {s : St} (h : GoneInv x s) (e : Ev) : GoneInv x (s.emit e) := ⟨h.run, h.t⟩

/-- the bootstrap create of the inventory namespace -/
theorem nsCreate_step (s : St) :
    let r := s.mutReq "create" nsInv false "" "" (nsCreateEffect s.run)
    r.1.mgr = s.mgr ∧ r.1.run = s.run ∧ r.1.cache = s.cache ∧
    (∀ i, i ≠ nsInv → r.1.cl.find? i = s.cl.find? i) ∧
    (∀ o, s.cl.find? nsInv = some o → r.1.cl.find? nsInv = some o) := by
  intro r
  have hfr := mutReq_frame s "create" nsInv false "" "" (nsCreateEffect s.run)
  obtain ⟨e1, e2, _⟩ := nsCreateEffect_find s.run s.cl
  refine ⟨hfr.1, hfr.2.1, hfr.2.2.2.2, ?_, ?_⟩
  · intro i hi
    rcases mutReq_cases s "create" nsInv false "" "" (nsCreateEffect s.run) with hc | hc
    · show (s.mutReq "create" nsInv false "" "" (nsCreateEffect s.run)).1.cl.find? i = _
      rw [hc.1]
    · show (s.mutReq "create" nsInv false "" "" (nsCreateEffect s.run)).1.cl.find? i = _
      rw [hc.1]; exact e1 i hi
  · intro o ho
    rcases mutReq_cases s "create" nsInv false "" "" (nsCreateEffect s.run) with hc | hc
    · show (s.mutReq "create" nsInv false "" "" (nsCreateEffect s.run)).1.cl.find? nsInv = _
      rw [hc.1]; exact ho
    · show (s.mutReq "create" nsInv false "" "" (nsCreateEffect s.run)).1.cl.find? nsInv = _
      rw [hc.1, e2 o ho]; exact ho

theorem LiveInv.invAdd {x : Ctx} {s : St} (h : LiveInv x s) (ids : List Id) : LiveInv x (runInvAdd s ids).1 := by
  unfold runInvAdd
  split
  · obtain ⟨n1, n2, _, n4, n5⟩ := nsCreate_step s
    simp only [] at n1 n2 n4 n5 ⊢
    have h1 : LiveInv x (s.mutReq "create" nsInv false "" "" (nsCreateEffect s.run)).1 := by
      refine ⟨n2.trans h.run, ?_⟩
      rw [n1]
      refine h.t.store ?_
      intro i _ o ho hown
      by_cases hi : i = nsInv
      · subst hi; exact ⟨o, n5 o ho, hown⟩
      · exact ⟨o, by rw [n4 i hi]; exact ho, hown⟩
    split
    · exact h1
    · exact h1.frame (mergeInv_objsFrame (ObjsFrame.refl _) ids)
  · exact h.frame (mergeInv_objsFrame (ObjsFrame.refl _) ids)

theorem GoneInv.invAdd {x : Ctx} (hx : CxOK x) {s : St} (h : GoneInv x s) (ids : List Id) (hids : ∀ i ∈ ids, i ∈ x.A) :
    GoneInv x (runInvAdd s ids).1 := by
  unfold runInvAdd
  split
  · rename_i hc
    have hin : nsInv ∈ ids := by
      simp only [Bool.and_eq_true, decide_eq_true_eq] at hc; exact hc.1
    obtain ⟨n1, n2, n3, n4, _⟩ := nsCreate_step s
    simp only [] at n1 n2 n3 n4 ⊢
    have h1 : GoneInv x (s.mutReq "create" nsInv false "" "" (nsCreateEffect s.run)).1 := by
      refine ⟨n2.trans h.run, ?_⟩
      rw [n1, n3]
      exact h.t.store (ShrinksP.of_find (fun l hl => n4 l.id (hx.disj nsInv (hids nsInv hin) l hl)))
    split
    · exact h1
    · exact h1.frame (mergeInv_objsFrame (ObjsFrame.refl _) ids)
  · exact h.frame (mergeInv_objsFrame (ObjsFrame.refl _) ids)

theorem LiveInv.applyFold {x : Ctx} (hx : CxOK x) (group : String) (l : List Id) (s : St) (h : LiveInv x s) (hl : ∀ i ∈ l, i ∈ x.A) :
    LiveInv x (l.foldl (applyOne group) s) := by
  induction l generalizing s with
  | nil => exact h
  | cons i is ih =>
    simp only [List.foldl_cons]
    have hfx := applyOne_fx group s i (by rw [h.run]; exact hx.dry)
    exact ih _ ⟨hfx.1.trans h.run, h.t.applyFx (hl i (by simp)) hfx⟩ (fun j hj => hl j (by simp [hj]))

theorem GoneInv.applyFold {x : Ctx} (hx : CxOK x) (group : String) (l : List Id) (s : St) (h : GoneInv x s) (hl : ∀ i ∈ l, i ∈ x.A) :
    GoneInv x (l.foldl (applyOne group) s) := by
  induction l generalizing s with
  | nil => exact h
  | cons i is ih =>
    simp only [List.foldl_cons]
    have hfx := applyOne_fx group s i (by rw [h.run]; exact hx.dry)
    exact ih _ ⟨hfx.1.trans h.run, h.t.applyFx hx (hl i (by simp)) hfx⟩ (fun j hj => hl j (by simp [hj]))

theorem LiveInv.pruneFold {x : Ctx} (hx : CxOK x) (group : String) (uids ns : List String) (lives : List Live) (s : St)
    (h : LiveInv x s) : LiveInv x (lives.foldl (pruneOne group uids ns) s) := by
  induction lives generalizing s with
  | nil => exact h
  | cons l ls ih =>
    simp only [List.foldl_cons]
    have hfx := pruneOne_fx group uids ns s l (by rw [h.run]; exact hx.dry)
    exact ih _ ⟨hfx.1.trans h.run, h.t.pruneFx hfx⟩

theorem GoneInv.pruneFold {x : Ctx} (hx : CxOK x) (group : String) (uids ns : List String) (lives : List Live) (s : St)
    (h : GoneInv x s) (hl : ∀ l ∈ lives, l ∈ x.P) : GoneInv x (lives.foldl (pruneOne group uids ns) s) := by
  induction lives generalizing s with
  | nil => exact h
  | cons l ls ih =>
    simp only [List.foldl_cons]
    have hfx := pruneOne_fx group uids ns s l (by rw [h.run]; exact hx.dry)
    exact ih _ ⟨hfx.1.trans h.run, h.t.pruneFx h.run (hl l (by simp)) hfx⟩ (fun j hj => hl j (by simp [hj]))

theorem lives_sub (P : List Live) (ids : List Id) : ∀ o ∈ ids.filterMap (fun i => P.find? (fun o => o.id = i)), o ∈ P := by
  intro o ho
  obtain ⟨i, _, hf⟩ := List.mem_filterMap.mp ho
  exact List.mem_of_find?_eq_some hf

theorem LiveInv.task {x : Ctx} (hx : CxOK x) (s : St) (t : Task) (ns : List String) (hwf : TaskWF x t) (h : LiveInv x s) :
    LiveInv x (runTask s t x.P ns).1 := by
  unfold runTask
  unfold TaskWF at hwf
  cases hk : t.kind with
  | invAdd ids => exact h.invAdd ids
  | apply ids => rw [hk] at hwf; exact LiveInv.applyFold hx t.name ids s h hwf
  | prune ids => exact LiveInv.pruneFold hx t.name _ ns _ s h
  | wait ids cond =>
    rw [hk] at hwf
    have := h.t.wait hx t.name s ids cond hwf
    exact ⟨this.2.trans h.run, this.1⟩
  | invSet prev pe => exact h.frame (CliUtils.HistoryL.runInvSet_objsFrame s prev pe)

theorem GoneInv.task {x : Ctx} (hx : CxOK x) (hdel : DelScriptsOK x.run) (s : St) (t : Task) (ns : List String) (hwf : TaskWF x t)
    (h : GoneInv x s) : GoneInv x (runTask s t x.P ns).1 := by
  unfold runTask
  unfold TaskWF at hwf
  cases hk : t.kind with
  | invAdd ids => rw [hk] at hwf; exact h.invAdd hx ids hwf
  | apply ids => rw [hk] at hwf; exact GoneInv.applyFold hx t.name ids s h hwf
  | prune ids => exact GoneInv.pruneFold hx t.name _ ns _ s h (lives_sub x.P ids)
  | wait ids cond =>
    rw [hk] at hwf
    refine ⟨?_, h.t.wait hx hdel t.name s ids cond hwf h.run⟩
    exact (OrderL.runWait_quiet t.name s ids cond).run.trans h.run
  | invSet prev pe => exact h.frame (CliUtils.HistoryL.runInvSet_objsFrame s prev pe)

/-- a property of states that survives event emission and every task of the list holds at every exit of the runner -/
theorem runTasks_all (I : St → Prop) (P : List Live) (ns : List String) (hemit : ∀ s e, I s → I (s.emit e)) (ts : List Task)
    (hstep : ∀ t ∈ ts, ∀ s, I s → I (runTask s t P ns).1) (s : St) (h : I s) : I (runTasks P ns s ts) := by
  induction ts generalizing s with
  | nil => exact h
  | cons t ts ih =>
    unfold runTasks
    simp only []
    have h1 := hstep t (by simp) _ (hemit s (.group t.name (t.action s.run.destroy) "Started") h)
    generalize runTask (s.emit (.group t.name (t.action s.run.destroy) "Started")) t P ns = r at h1 ⊢
    have h2 := hemit _ (.group t.name (t.action s.run.destroy) "Finished") h1
    split
    · exact hemit _ _ h2
    · split
      · exact hemit _ _ h2
      · split
        · exact hemit _ _ h2
        · exact ih (fun t' ht' => hstep t' (by simp [ht'])) _ h2

/-! ## the tasks of a plan are well-formed -/

theorem layerTasks_mem' (isApply dry : Bool) :
    ∀ (L : List (List Id)) (c w : Nat) (t : Task), t ∈ (layerTasks isApply dry L c w).1 →
      ∃ l ∈ L, t.kind = (if isApply then TaskKind.apply l else TaskKind.prune l) ∨
        t.kind = .wait l (if isApply then .allCurrent else .allNotFound) := by
  intro L
  induction L with
  | nil => intro c w t ht; simp [layerTasks] at ht
  | cons l ls ih =>
    intro c w t ht
    simp only [layerTasks] at ht
    split at ht
    · rcases List.mem_cons.mp ht with h | h
      · refine ⟨l, by simp, Or.inl ?_⟩
        subst h
        split <;> rfl
      · obtain ⟨l', hl', hk⟩ := ih _ _ t h
        exact ⟨l', by simp [hl'], hk⟩
    · rcases List.mem_cons.mp ht with h | h
      · refine ⟨l, by simp, Or.inl ?_⟩
        subst h
        split <;> rfl
      · rcases List.mem_cons.mp h with h | h
        · exact ⟨l, by simp, Or.inr (by subst h; rfl)⟩
        · obtain ⟨l', hl', hk⟩ := ih _ _ t h
          exact ⟨l', by simp [hl'], hk⟩

theorem planTasks_wf (x : Ctx) (pruneIds : List Id) (layers : List (List Id)) (prev : List Id) (pe : Bool)
    (hP : ∀ i ∈ pruneIds, ∃ l ∈ x.P, l.id = i) :
    ∀ t ∈ planTasks x.run x.A pruneIds layers prev pe, TaskWF x t := by
  intro t ht
  unfold planTasks at ht
  simp only [List.mem_append, List.mem_singleton] at ht
  unfold TaskWF
  rcases ht with ((h | h) | h) | h
  · split at h
    · simp at h
    · simp at h; subst h; exact fun i hi => hi
  · split at h
    · simp at h
    · obtain ⟨l, hl, hk | hk⟩ := layerTasks_mem' true _ _ 0 0 t h
      · simp only [if_true] at hk
        rw [hk]
        intro i hi
        simpa using CliUtils.Props.C11.mem_hydrate _ _ _ _ i hl hi
      · simp only [if_true] at hk
        rw [hk]
        refine Or.inl ⟨rfl, ?_⟩
        intro i hi
        simpa using CliUtils.Props.C11.mem_hydrate _ _ _ _ i hl hi
  · split at h
    · obtain ⟨l, hl, hk | hk⟩ := layerTasks_mem' false _ _ 0 _ t h
      · simp only [Bool.false_eq_true, if_false] at hk
        rw [hk]; trivial
      · simp only [Bool.false_eq_true, if_false] at hk
        rw [hk]
        refine Or.inr ⟨rfl, ?_⟩
        intro i hi
        obtain ⟨l0, h0, hx⟩ := CliUtils.Props.C11.mem_reverseSetList _ _ i hl hi
        have := CliUtils.Props.C11.mem_hydrate _ _ _ _ i h0 hx
        exact hP i (by simpa using this)
    · simp at h
  · subst h; trivial

/-! ## one record per id: table operations -/

theorem oneRec_getD (m : Mgr Id) (id : Id) (rc : Reconcile) (h : OneRecordPerId m) :
    OneRecordPerId ((m.setReconcile id rc).getD m) := by
  cases hs : m.setReconcile id rc with
  | none => simpa using h
  | some m' =>
    simp only [Option.getD_some]
    unfold OneRecordPerId at *
    rw [ids_setReconcile m m' id rc hs]
    exact h

theorem oneRec_applyEvs (l : List (Id × Wait.WEv)) (m : Mgr Id) (h : OneRecordPerId m) : OneRecordPerId (OrderL.applyEvs m l) := by
  unfold OrderL.applyEvs
  induction l generalizing m with
  | nil => exact h
  | cons e es ih => exact ih _ (oneRec_getD m e.1 _ h)

theorem oneRec_add (m : Mgr Id) (id : Id) (st : Strategy) (a : Actuation) (uid : String) (gen : Int) (h : OneRecordPerId m) :
    OneRecordPerId (m.add id st a uid gen) := set_preserves_inv m _ h

theorem oneRec_foldl_add {β : Type} (f : β → Id) (st : Strategy) (a : Actuation) (l : List β) (m : Mgr Id) (h : OneRecordPerId m) :
    OneRecordPerId (l.foldl (fun m x => m.add (f x) st a) m) := by
  induction l generalizing m with
  | nil => exact h
  | cons x xs ih => exact ih _ (oneRec_add m _ _ _ _ _ h)

theorem oneRec_prepMgr (run : Run) (plan : Plan) (P : List Live) : OneRecordPerId (prepMgr run plan P) := by
  unfold prepMgr
  simp only []
  have h0 : OneRecordPerId ([] : Mgr Id) := by simp [OneRecordPerId]
  have h1 := oneRec_foldl_add (fun i : Id => i) .apply .pending plan.applyIds [] h0
  have h2 := oneRec_foldl_add (fun i : Id => i) .delete .pending plan.pruneIds _ h1
  split
  · apply oneRec_foldl_add (fun o : Live => o.id) .delete .skipped
    split
    · exact h2
    · exact h1
  · split
    · exact h2
    · exact h1


/-! ## the shape of a run -/

/-- every cached observation is a Current report of the stored object of that name, with its uid -/
def CacheInitF (s : St) : Prop :=
  ∀ e ∈ s.cache, e.2.status = .current ∧ ∃ l, s.cl.find? e.1 = some l ∧ e.2.uid = l.uid

theorem initFoldF (l : List Id) (s : St) (hc : CacheInitF s) :
    let s' := l.foldl (fun (s : St) id =>
      match s.cl.find? id with
      | none => s
      | some l =>
        let s1 : St := { s with cache := (id, { status := .current, hasRes := true, gen := l.gen, uid := l.uid }) :: s.cache }
        if s1.run.opts.emitStatus then s1.emit (.status id "Current") else s1) s
    CacheInitF s' := by
  induction l generalizing s with
  | nil => exact hc
  | cons i is ih =>
    simp only [List.foldl_cons]
    cases hf : s.cl.find? i with
    | none => exact ih s hc
    | some o =>
      simp only []
      have hc1 : CacheInitF { s with cache := (i, { status := .current, hasRes := true, gen := o.gen, uid := o.uid }) :: s.cache } := by
        intro e he
        rcases List.mem_cons.mp he with he | he
        · subst he; exact ⟨rfl, o, hf, rfl⟩
        · exact hc e he
      split
      · exact ih (({ s with cache := (i, { status := .current, hasRes := true, gen := o.gen, uid := o.uid }) :: s.cache } : St).emit (.status i "Current"))
          (fun e he => hc1 e he)
      · exact ih { s with cache := (i, { status := .current, hasRes := true, gen := o.gen, uid := o.uid }) :: s.cache } hc1

theorem initialStatuses_cacheF (s : St) (hc : CacheInitF s) : CacheInitF (initialStatuses s) := by
  unfold initialStatuses
  split
  · exact hc
  · exact initFoldF s.run.initial s hc

open CliUtils.Props.C02 in
/-- **the shape of a run**: it ends with an error event before any task, or it runs the tasks of the plan built from the prune
objects `P` it read, from a state `s` whose store is the start store, whose table is the one `prepare` registered, with nothing
abandoned or requested yet and a cache of Current reports -/
theorem runOne_start (c : Cluster) (run : Run) :
    (∃ (s : St) (k : String), runOne c run = s.emit (.error k) ∧ (∀ r ∈ s.mgr, r.actuation ≠ .succeeded) ∧ s.muts = [] ∧
      s.cl = startStore c run ∧ OneRecordPerId s.mgr) ∨
    ∃ (P : List Live) (prev : List Id) (pe : Bool) (s : St),
      (∀ l ∈ P, (startStore c run).find? l.id = some l ∧ l.id ∈ c.inv.getD [] ∧ l.id ∉ (applySet run).map (·.id)) ∧
      (∀ i ∈ c.inv.getD [], i ∉ (applySet run).map (·.id) → (scopeOf i.group i.kind).isSome →
        (∃ o ∈ (startStore c run).objs, o.id = i) → ∃ l ∈ P, l.id = i) ∧
      (pe = false → prev = c.inv.getD []) ∧
      s.cl = startStore c run ∧ s.run = run ∧ s.mgr = prepMgr run (buildPlan run (applySet run) P prev pe) P ∧ s.abandoned = [] ∧
      s.invalid = (buildPlan run (applySet run) P prev pe).invalid ∧ s.muts = [] ∧ CacheInitF s ∧ CacheInit s ∧
      runOne c run = runTasks P (localNamespaces ((applySet run).map (·.id))) s (buildPlan run (applySet run) P prev pe).tasks ∧
      runPlanObjs c run = some (buildPlan run (applySet run) P prev pe, P) := by
  obtain ⟨_, _, hinv0⟩ := startStore_spec c run.envDel
  unfold runOne runPlanObjs startSt applySet startStore
  simp only []
  generalize hc0' : run.envDel.foldl (fun c i => c.remove i) c = c0 at *
  generalize hs0 : ({ cl := c0, run := run } : St) = s0
  have hr0 : s0.run = run := by rw [← hs0]
  have hcl0 : s0.cl = c0 := by rw [← hs0]
  have hm0 : s0.muts = [] := by rw [← hs0]
  have hmg0 : s0.mgr = [] := by rw [← hs0]
  have hab0 : s0.abandoned = [] := by rw [← hs0]
  have hca0 : s0.cache = [] := by rw [← hs0]
  generalize (if run.destroy then [] else run.objs) = applyMs
  have hfst := CliUtils.Props.C01.getPruneObjs_fst s0 (applyMs.map (·.id))
  have hspec := getPruneObjs_spec s0 (applyMs.map (·.id))
  have hmem := CliUtils.ProvL.getPruneObjs_mem s0 (applyMs.map (·.id))
  obtain ⟨i1, i2, i3, i4, i5, i6, i7⟩ := invRead_frame s0
  generalize hr1 : getPruneObjs s0 (applyMs.map (·.id)) = r1 at hfst hspec hmem ⊢
  cases hp : r1.2 with
  | none => exact Or.inl ⟨_, _, rfl, (by rw [hfst, i3, hmg0]; intro r hr; cases hr), (by rw [hfst, i7, hm0]), (by rw [hfst, i1, hcl0]),
      (by rw [hfst, i3, hmg0]; simp [OneRecordPerId])⟩
  | some P =>
    simp only []
    obtain ⟨_, _, hP2⟩ := hspec P hp
    have hP1 := hmem P hp
    obtain ⟨j1, j2, j3, j4, j5, j6, j7⟩ := invRead_frame r1.1
    have hsnd := invRead_snd r1.1
    generalize hr2 : r1.1.invRead = r2 at j1 j2 j3 j4 j5 j6 j7 hsnd ⊢
    have hcl1 : r1.1.cl.inv = c.inv := by rw [hfst, i1, hcl0, hinv0]
    -- the rest of the run, for whatever previous inventory `Build` has read
    have key : ∀ prev : List Id, (r2.2.isNone = false → prev = c.inv.getD []) →
        ((∃ (s : St) (k : String), (if (!run.opts.skipInvalid && !(buildPlan run applyMs P prev r2.2.isNone).valErrors.isEmpty) = true then
            r2.1.emit (.error "other")
          else if (decide (run.cancel = CancelAt.beforeSync) && decide (run.opts.dry = Dry.none)) = true then
            (initialStatuses (prepare r2.1 (buildPlan run applyMs P prev r2.2.isNone) P)).emit (.error "canceled")
          else runTasks P (localNamespaces (applyMs.map (·.id)))
            (initialStatuses (prepare r2.1 (buildPlan run applyMs P prev r2.2.isNone) P))
            (buildPlan run applyMs P prev r2.2.isNone).tasks) = s.emit (.error k) ∧ (∀ r ∈ s.mgr, r.actuation ≠ .succeeded) ∧ s.muts = [] ∧
            s.cl = c0 ∧ OneRecordPerId s.mgr) ∨
        ∃ (s : St),
          (∀ l ∈ P, c0.find? l.id = some l ∧ l.id ∈ c.inv.getD [] ∧ l.id ∉ applyMs.map (·.id)) ∧
          (∀ i ∈ c.inv.getD [], i ∉ applyMs.map (·.id) → (scopeOf i.group i.kind).isSome →
            (∃ o ∈ c0.objs, o.id = i) → ∃ l ∈ P, l.id = i) ∧
          (r2.2.isNone = false → prev = c.inv.getD []) ∧
          s.cl = c0 ∧ s.run = run ∧ s.mgr = prepMgr run (buildPlan run applyMs P prev r2.2.isNone) P ∧ s.abandoned = [] ∧
          s.invalid = (buildPlan run applyMs P prev r2.2.isNone).invalid ∧ s.muts = [] ∧ CacheInitF s ∧ CacheInit s ∧
          (if (!run.opts.skipInvalid && !(buildPlan run applyMs P prev r2.2.isNone).valErrors.isEmpty) = true then
            r2.1.emit (.error "other")
          else if (decide (run.cancel = CancelAt.beforeSync) && decide (run.opts.dry = Dry.none)) = true then
            (initialStatuses (prepare r2.1 (buildPlan run applyMs P prev r2.2.isNone) P)).emit (.error "canceled")
          else runTasks P (localNamespaces (applyMs.map (·.id)))
            (initialStatuses (prepare r2.1 (buildPlan run applyMs P prev r2.2.isNone) P))
            (buildPlan run applyMs P prev r2.2.isNone).tasks) =
            runTasks P (localNamespaces (applyMs.map (·.id))) s (buildPlan run applyMs P prev r2.2.isNone).tasks) := by
      intro prev hpv
      generalize hplan : buildPlan run applyMs P prev r2.2.isNone = plan
      split
      · exact Or.inl ⟨_, _, rfl, (by rw [j3, hfst, i3, hmg0]; intro r hr; cases hr), (by rw [j7, hfst, i7, hm0]),
          (by rw [j1, hfst, i1, hcl0]), (by rw [j3, hfst, i3, hmg0]; simp [OneRecordPerId])⟩
      · obtain ⟨p1, p2, p3, p4, p5, p6, p7⟩ := prepare_frame r2.1 plan P (by rw [j3, hfst, i3, hmg0])
        have hci : CacheInit (prepare r2.1 plan P) := by
          intro e he
          rw [p5, j6, hfst, i6, hca0] at he; cases he
        have hciF : CacheInitF (prepare r2.1 plan P) := by
          intro e he
          rw [p5, j6, hfst, i6, hca0] at he; cases he
        obtain ⟨q1, q2, q3, q4, q5, q6, q7⟩ := initialStatuses_spec (prepare r2.1 plan P) hci
        have q8 := initialStatuses_cacheF (prepare r2.1 plan P) hciF
        generalize hs : initialStatuses (prepare r2.1 plan P) = s at q1 q2 q3 q4 q5 q6 q7 q8 ⊢
        have hscl : s.cl = c0 := by rw [q1, p1, j1, hfst, i1, hcl0]
        have hsrun : s.run = run := by rw [q2, p2, j2, hfst, i2, hr0]
        split
        · refine Or.inl ⟨_, _, rfl, ?_, (by rw [q6, p6, j7, hfst, i7, hm0]), hscl, (by rw [q3, p3]; exact oneRec_prepMgr _ _ _)⟩
          rw [q3, p3]
          intro r hr
          rcases prepMgr_mem _ _ _ r hr with ⟨_, _, rfl⟩ | ⟨_, _, rfl⟩ | ⟨_, _, rfl⟩ <;> simp
        · refine Or.inr ⟨s, ?_, ?_, hpv, hscl, hsrun, ?_, ?_, ?_, ?_, q8, q7, ?_⟩
          · intro l hl
            obtain ⟨a, b, d⟩ := hP1 l hl
            rw [hcl0] at a d
            exact ⟨d, by rw [← hinv0]; exact a, b⟩
          · intro i hi hna hs' ha
            exact hP2 i (by rw [hcl0, hinv0]; exact hi) hna hs' (by rw [hcl0]; exact ha)
          · rw [q3, p3, j2, hfst, i2, hr0]
          · rw [q4, p4, j4, hfst, i4, hab0]
          · rw [q5, p7]
          · rw [q6, p6, j7, hfst, i7, hm0]
          · rfl
    by_cases hf : r1.1.invReads ∈ r1.1.run.failInvRead
    · rw [if_pos hf] at hsnd
      have := key [] (by rw [hsnd]; intro h; simp at h)
      rw [hsnd] at this ⊢
      rcases this with h | ⟨s, h1, h2, h3, h4, h5, h6, h7, h8, h9, h10, h11, h12⟩
      · exact Or.inl h
      · refine Or.inr ⟨P, [], _, s, h1, h2, h3, h4, h5, h6, h7, h8, h9, h10, h11, h12, ?_⟩
        dsimp only
    · rw [if_neg hf, hcl1] at hsnd
      cases hci : c.inv with
      | none =>
        rw [hci] at hsnd
        have := key [] (by intro _; rw [hci]; rfl)
        rw [hsnd] at this ⊢
        rw [hci] at this
        rcases this with h | ⟨s, h1, h2, h3, h4, h5, h6, h7, h8, h9, h10, h11, h12⟩
        · exact Or.inl h
        · refine Or.inr ⟨P, [], _, s, h1, h2, h3, h4, h5, h6, h7, h8, h9, h10, h11, h12, ?_⟩
          dsimp only
      | some l =>
        rw [hci] at hsnd
        have := key l (by intro _; rw [hci]; rfl)
        rw [hsnd] at this ⊢
        rw [hci] at this
        rcases this with h | ⟨s, h1, h2, h3, h4, h5, h6, h7, h8, h9, h10, h11, h12⟩
        · exact Or.inl h
        · refine Or.inr ⟨P, l, _, s, h1, h2, h3, h4, h5, h6, h7, h8, h9, h10, h11, h12, ?_⟩
          dsimp only

/-! ## the light invariants hold at every exit of a run -/

open CliUtils.Props.C02 in
/-- the context of the run that `runOne_start` describes -/
def ctxOf (c : Cluster) (run : Run) (P : List Live) (prev : List Id) (pe : Bool) : Ctx :=
  { run := run, c0 := startStore c run, A := (buildPlan run (applySet run) P prev pe).applyIds, P := P, prev := c.inv.getD [],
    invalid := (buildPlan run (applySet run) P prev pe).invalid }

open CliUtils.Props.C02 in
theorem ctxOf_ok (c : Cluster) (run : Run) (P : List Live) (prev : List Id) (pe : Bool) (hd : run.opts.dry = .none)
    (hP : ∀ l ∈ P, l.id ∉ (applySet run).map (·.id)) : CxOK (ctxOf c run P prev pe) := by
  refine ⟨hd, ?_⟩
  intro i hi l hl hlid
  obtain ⟨_, _, _, _, _, pf5, _⟩ := plan_facts run (applySet run) P prev pe
  obtain ⟨⟨m, hm, hmid⟩, _⟩ := (pf5 i).mp hi
  exact hP l hl (List.mem_map.mpr ⟨m, hm, hmid.trans hlid.symm⟩)

open CliUtils.Props.C02 in
theorem ctxOf_tasks_wf (c : Cluster) (run : Run) (P : List Live) (prev : List Id) (pe : Bool) :
    ∀ t ∈ (buildPlan run (applySet run) P prev pe).tasks, TaskWF (ctxOf c run P prev pe) t := by
  obtain ⟨layers, pf1, _, _, _, _, pf6⟩ := plan_facts run (applySet run) P prev pe
  rw [pf1]
  exact planTasks_wf (ctxOf c run P prev pe) _ layers prev pe (fun i hi => ((pf6 i).mp hi).1)

theorem liveInv_init (x : Ctx) (plan : Plan) (s : St) (hr : s.run = x.run) (hm : s.mgr = prepMgr x.run plan x.P)
    (hA : plan.applyIds = x.A) : LiveInv x s := by
  refine ⟨hr, ?_, ?_⟩
  · rw [hm]
    intro r hr' hs
    rcases prepMgr_mem _ _ _ r hr' with ⟨i, hi, rfl⟩ | ⟨_, _, rfl⟩ | ⟨_, _, rfl⟩
    · rw [← hA]; exact hi
    · simp at hs
    · simp at hs
  · rw [hm]
    intro id r hr' _ ha
    obtain ⟨hmem, _⟩ := find_mem _ _ _ hr'
    rcases prepMgr_mem _ _ _ r hmem with ⟨_, _, rfl⟩ | ⟨_, _, rfl⟩ | ⟨_, _, rfl⟩ <;> simp at ha

theorem goneInv_init (x : Ctx) (plan : Plan) (s : St) (hr : s.run = x.run) (hm : s.mgr = prepMgr x.run plan x.P)
    (hpid : ∀ i ∈ plan.pruneIds, ∃ o ∈ x.P, o.id = i) (hP : ∀ l ∈ x.P, s.cl.find? l.id = some l) (hc : CacheInitF s) :
    GoneInv x s := by
  refine ⟨hr, ?_, ?_, ?_, ?_, ?_⟩
  · rw [hm]
    intro r hr' hs
    rcases prepMgr_mem _ _ _ r hr' with ⟨_, _, rfl⟩ | ⟨i, hi, rfl⟩ | ⟨o, ho, rfl⟩
    · simp at hs
    · obtain ⟨o, ho, hoid⟩ := hpid i hi
      exact ⟨o, ho, hoid, fun h => by simp at h⟩
    · exact ⟨o, ho, rfl, fun h => by simp at h⟩
  · intro l hl o ho
    rw [hP l hl] at ho
    injection ho with ho
    rw [ho]
  · intro l _ _ hst
    exfalso
    rcases getObs_mem s.cache l.id with h | h
    · rw [h] at hst; simp [Wait.Obs.missing] at hst
    · have := (hc _ h).1
      simp only [] at this
      rw [this] at hst; cases hst
  · intro l hl hres
    rcases getObs_mem s.cache l.id with h | h
    · rw [h] at hres; simp [Wait.Obs.missing] at hres
    · obtain ⟨_, l', hl', hu⟩ := hc _ h
      simp only [] at hl' hu
      rw [hP l hl] at hl'
      injection hl' with hl'
      rw [hu, hl']
  · rw [hm]
    intro id r hr' _ ha
    obtain ⟨hmem, _⟩ := find_mem _ _ _ hr'
    rcases prepMgr_mem _ _ _ r hmem with ⟨_, _, rfl⟩ | ⟨_, _, rfl⟩ | ⟨_, _, rfl⟩ <;> simp at ha

/-- **the light invariants at every exit of a run** (outside dry-run): the run ends before its first task with no successful
actuation recorded, or `LiveT` holds in its final state — and `GoneT` too if the delete-wait scripts are the harness's -/
theorem run_light (c : Cluster) (run : Run) (hd : run.opts.dry = .none) :
    (∃ (s : St) (k : String), runOne c run = s.emit (.error k) ∧ ∀ r ∈ s.mgr, r.actuation ≠ .succeeded) ∨
    ∃ x : Ctx, CxOK x ∧ x.run = run ∧ LiveInv x (runOne c run) ∧ (DelScriptsOK run → GoneInv x (runOne c run)) := by
  rcases runOne_start c run with ⟨s, k, h1, h2, _⟩ | ⟨P, prev, pe, s, hP1, _, _, hcl, hrun, hmgr, _, _, _, hcF, _, heq, _⟩
  · exact Or.inl ⟨s, k, h1, h2⟩
  · right
    have hx := ctxOf_ok c run P prev pe hd (fun l hl => (hP1 l hl).2.2)
    have hwf := ctxOf_tasks_wf c run P prev pe
    obtain ⟨_, _, _, _, _, _, pf6⟩ := plan_facts run (CliUtils.Props.C02.applySet run) P prev pe
    refine ⟨ctxOf c run P prev pe, hx, rfl, ?_, ?_⟩
    · rw [heq]
      refine runTasks_all (LiveInv (ctxOf c run P prev pe)) P _ (fun s e h => h.emit e) _ ?_ s
        (liveInv_init _ _ s hrun hmgr rfl)
      intro t ht s' h'
      exact h'.task hx s' t _ (hwf t ht)
    · intro hdel
      rw [heq]
      refine runTasks_all (GoneInv (ctxOf c run P prev pe)) P _ (fun s e h => h.emit e) _ ?_ s
        (goneInv_init _ _ s hrun hmgr (fun i hi => ((pf6 i).mp hi).1) (fun l hl => by rw [hcl]; exact (hP1 l hl).1) hcF)
      intro t ht s' h'
      exact h'.task hx hdel s' t _ (hwf t ht)

/-! ## a run without error event reaches its final task -/

open CliUtils.Props.C13 in
/-- without error event, the first task reported no error, the run was not aborted during it, and the runner went on -/
theorem runTasks_cons_noError (P : List Live) (ns : List String) (s : St) (t : Task) (ts : List Task)
    (hne : NoError (runTasks P ns s (t :: ts)).events) :
    (runTask (s.emit (.group t.name (t.action s.run.destroy) "Started")) t P ns).2 = none ∧
    (runTask (s.emit (.group t.name (t.action s.run.destroy) "Started")) t P ns).1.watcherFailed = false ∧
    (runTask (s.emit (.group t.name (t.action s.run.destroy) "Started")) t P ns).1.cancelled = false ∧
    runTasks P ns s (t :: ts) =
      runTasks P ns ((runTask (s.emit (.group t.name (t.action s.run.destroy) "Started")) t P ns).1.emit
        (.group t.name (t.action s.run.destroy) "Finished")) ts := by
  simp only [runTasks] at hne ⊢
  generalize runTask (s.emit (.group t.name (t.action s.run.destroy) "Started")) t P ns = r at hne ⊢
  cases he : r.2 with
  | some k =>
    rw [he] at hne
    simp only [] at hne
    exact absurd rfl (hne _ (by simp) k)
  | none =>
    rw [he] at hne
    simp only [] at hne ⊢
    by_cases hc : r.1.cancelled = true
    · have hc' : (r.1.emit (.group t.name (t.action s.run.destroy) "Finished")).cancelled = true := hc
      rw [if_pos hc'] at hne
      exact absurd rfl (hne _ (by simp) "canceled")
    · have hc' : ¬ (r.1.emit (.group t.name (t.action s.run.destroy) "Finished")).cancelled = true := hc
      rw [if_neg hc'] at hne ⊢
      by_cases hw : r.1.watcherFailed = true
      · have hw' : (r.1.emit (.group t.name (t.action s.run.destroy) "Finished")).watcherFailed = true := hw
        rw [if_pos hw'] at hne
        exact absurd rfl (hne _ (by simp) "watcher")
      · have hw' : ¬ (r.1.emit (.group t.name (t.action s.run.destroy) "Finished")).watcherFailed = true := hw
        rw [if_neg hw'] at hne ⊢
        exact ⟨trivial, by simpa using hw, by simpa using hc, rfl⟩

open CliUtils.Props.C13 in
/-- … so a property that survives event emission and every task of a prefix of the task list holds when the rest starts -/
theorem runTasks_prefix_noError (I : St → Prop) (P : List Live) (ns : List String) (hemit : ∀ s e, I s → I (s.emit e))
    (pre : List Task) (hstep : ∀ t ∈ pre, ∀ s, I s → I (runTask s t P ns).1) (tl : List Task) (s : St) (h : I s)
    (hne : NoError (runTasks P ns s (pre ++ tl)).events) :
    ∃ s', I s' ∧ runTasks P ns s (pre ++ tl) = runTasks P ns s' tl := by
  induction pre generalizing s with
  | nil => exact ⟨s, h, rfl⟩
  | cons t ts ih =>
    simp only [List.cons_append] at hne ⊢
    obtain ⟨_, _, _, heq⟩ := runTasks_cons_noError P ns s t (ts ++ tl) hne
    rw [heq] at hne ⊢
    exact ih (fun t' ht' => hstep t' (by simp [ht'])) _
      (hemit _ _ (hstep t (by simp) _ (hemit _ _ h))) hne

open CliUtils.Props.C13 in
/-- the final inventory task of a run without error event reported no error, and the run ends with its Finished event -/
theorem runTasks_final_noError (P : List Live) (ns : List String) (s : St) (name : String) (prev : List Id) (pe : Bool)
    (hne : NoError (runTasks P ns s [⟨name, .invSet prev pe⟩]).events) :
    (runInvSet (s.emit (.group name "Inventory" "Started")) prev pe).2 = none ∧
    runTasks P ns s [⟨name, .invSet prev pe⟩] =
      (runInvSet (s.emit (.group name "Inventory" "Started")) prev pe).1.emit (.group name "Inventory" "Finished") := by
  obtain ⟨h1, _, _, h4⟩ := runTasks_cons_noError P ns s ⟨name, .invSet prev pe⟩ [] hne
  exact ⟨h1, h4⟩

/-- the tasks between the inventory-add task and the final inventory task -/
def IsMid (t : Task) : Prop :=
  match t.kind with
  | .apply _ | .prune _ | .wait _ _ => True
  | _ => False

theorem runWait_keeps_inv (group : String) (s : St) (ids : List Id) (cond : Wait.Cond) :
    (runWait group s ids cond).1.cl.inv = s.cl.inv := by
  refine (runWait_triple (fun _ cl _ => cl.inv = s.cl.inv) group s ids cond rfl ?_ (fun _ _ _ _ h => h)).1
  intro w cl d _ _ _ h
  split
  · exact h
  · exact h

theorem runTask_mid (s : St) (t : Task) (P : List Live) (ns : List String) (hm : IsMid t) :
    (runTask s t P ns).1.cl.inv = s.cl.inv ∧ (runTask s t P ns).1.run = s.run := by
  unfold runTask
  unfold IsMid at hm
  cases hk : t.kind with
  | invAdd ids => rw [hk] at hm; exact hm.elim
  | invSet p e => rw [hk] at hm; exact hm.elim
  | apply ids =>
    simp only []
    generalize t.name = g
    clear hk hm
    induction ids generalizing s with
    | nil => exact ⟨rfl, rfl⟩
    | cons i is ih =>
      simp only [List.foldl_cons]
      obtain ⟨h1, h2⟩ := ih (applyOne g s i)
      exact ⟨h1.trans (applyOne_keeps_inv g s i), h2.trans (CliUtils.GrammarL.applyOne_run g s i)⟩
  | prune ids =>
    simp only []
    generalize ids.filterMap (fun i => P.find? (fun o => o.id = i)) = lives
    generalize s.mgr.appliedUIDs = uids
    generalize t.name = g
    clear hk hm
    induction lives generalizing s with
    | nil => exact ⟨rfl, rfl⟩
    | cons l ls ih =>
      simp only [List.foldl_cons]
      obtain ⟨h1, h2⟩ := ih (pruneOne g uids ns s l)
      exact ⟨h1.trans (pruneOne_keeps_inv g uids ns s l), h2.trans (CliUtils.GrammarL.pruneOne_run g uids ns s l)⟩
  | wait ids cond => exact ⟨runWait_keeps_inv t.name s ids cond, (OrderL.runWait_quiet t.name s ids cond).run⟩

/-- the apply / wait / prune tasks of a plan -/
def midTasks (run : Run) (applyIds pruneIds : List Id) (layers : List (List Id)) : List Task :=
  let dryRun := decide (run.opts.dry ≠ .none)
  let applyLayers := Graph.hydrate Ordering.less (fun v => decide (v ∈ applyIds)) layers
  let ta := if applyIds.isEmpty then ([], 0) else layerTasks true dryRun applyLayers 0 0
  let pruneLayers := Graph.reverseSetList (Graph.hydrate Ordering.less (fun v => decide (v ∈ pruneIds)) layers)
  let tp := if (run.destroy || !run.opts.noPrune) && !pruneIds.isEmpty then layerTasks false dryRun pruneLayers 0 ta.2 else ([], ta.2)
  ta.1 ++ tp.1

/-- the plan: (inventory-add,) middle tasks, final inventory task -/
theorem planTasks_split (run : Run) (A pruneIds : List Id) (layers : List (List Id)) (prev : List Id) (pe : Bool) :
    planTasks run A pruneIds layers prev pe =
      (if run.destroy then [] else [⟨"inventory-add-0", .invAdd A⟩]) ++ (midTasks run A pruneIds layers ++
        [⟨if run.destroy then "inventory-delete-or-update-0" else "inventory-set-0", .invSet prev pe⟩]) := by
  unfold planTasks midTasks
  simp only [List.append_assoc]

theorem midTasks_mid (run : Run) (A pruneIds : List Id) (layers : List (List Id)) : ∀ t ∈ midTasks run A pruneIds layers, IsMid t := by
  intro t ht
  unfold midTasks at ht
  simp only [] at ht
  unfold IsMid
  rcases List.mem_append.mp ht with h | h
  · split at h
    · simp at h
    · rcases CliUtils.GrammarL.layerTasks_mem true _ _ 0 0 t h with ⟨l, _, hk⟩ | ⟨l, cond, hk⟩
      · simp only [if_true] at hk; rw [hk]; trivial
      · rw [hk]; trivial
  · split at h
    · rcases CliUtils.GrammarL.layerTasks_mem false _ _ 0 _ t h with ⟨l, _, hk⟩ | ⟨l, cond, hk⟩
      · simp only [Bool.false_eq_true, if_false] at hk; rw [hk]; trivial
      · rw [hk]; trivial
    · simp at h

theorem midTasks_nil (run : Run) (layers : List (List Id)) : midTasks run [] [] layers = [] := by
  simp [midTasks]

/-- the inventory-add task without error (outside dry-run) leaves a stored inventory that lists its ids -/
theorem runInvAdd_ok (s : St) (ids : List Id) (hd : dryOf s = false) (hok : (runInvAdd s ids).2 = none) :
    ∃ l, (runInvAdd s ids).1.cl.inv = some l ∧ (∀ i ∈ ids, i ∈ l) ∧ (runInvAdd s ids).1.run = s.run := by
  have hrun := CliUtils.GrammarL.runInvAdd_run s ids
  unfold runInvAdd at hok ⊢ hrun
  split at hok
  · rename_i hc
    simp only [hc, if_true] at hrun ⊢
    simp only [] at hok hrun ⊢
    have hfr := mutReq_frame s "create" nsInv false "" "" (nsCreateEffect s.run)
    generalize s.mutReq "create" nsInv false "" "" (nsCreateEffect s.run) = r at hok hfr hrun ⊢
    split at hok
    · cases hok
    · rename_i hne
      simp only [hne, if_false] at hrun ⊢
      have hd' : dryOf r.1 = false := by unfold dryOf at hd ⊢; rw [hfr.2.1]; exact hd
      obtain ⟨l, h1, h2, _, _⟩ := merge_superset r.1 ids hok hd'
      exact ⟨l, h1, h2, hrun⟩
  · rename_i hc
    simp only [hc] at hrun ⊢
    obtain ⟨l, h1, h2, _, _⟩ := merge_superset s ids hok hd
    exact ⟨l, h1, h2, hrun⟩

theorem prepMgr_nil (run : Run) (plan : Plan) (hA : plan.applyIds = []) (hP : plan.pruneIds = []) : prepMgr run plan [] = [] := by
  unfold prepMgr
  simp [hA, hP]

open CliUtils.Props.C13 CliUtils.Props.C02 in
/-- **a run without error event ran its final inventory task, without error**: the final state is the state after that task (which
ran on some state `s'`, with the inventory stored at the start as previous inventory) plus its Finished event; when the task started
the stored inventory existed if the run is an apply run or an inventory was stored at the start; a destroy run over a store without
inventory had recorded nothing -/
theorem run_final (c : Cluster) (run : Run) (hd : run.opts.dry = .none) (hne : NoError (runOne c run).events) :
    ∃ (s' : St) (name : String),
      (runInvSet (s'.emit (.group name "Inventory" "Started")) (c.inv.getD []) false).2 = none ∧
      runOne c run =
        (runInvSet (s'.emit (.group name "Inventory" "Started")) (c.inv.getD []) false).1.emit (.group name "Inventory" "Finished") ∧
      s'.run = run ∧ (run.destroy = false → s'.cl.inv ≠ none) ∧ (c.inv ≠ none → s'.cl.inv ≠ none) ∧
      (run.destroy = true → c.inv = none → s'.mgr = []) := by
  rcases runOne_start c run with ⟨s, k, he, _⟩ | ⟨P, prev, pe, s, hP1, _, hpv, hcl, hrun, hmgr, _, _, _, _, _, heq, _⟩
  · rw [he] at hne
    exact absurd rfl (hne _ (by simp) k)
  · obtain ⟨layers, pf1, _, _, _, pf5, pf6⟩ := plan_facts run (applySet run) P prev pe
    rw [heq, pf1, planTasks_split] at hne
    rw [heq, pf1, planTasks_split]
    generalize hns : localNamespaces ((applySet run).map (·.id)) = ns at hne ⊢
    generalize hA : (buildPlan run (applySet run) P prev pe).applyIds = A at hne pf5 hmgr ⊢
    generalize hPI : (buildPlan run (applySet run) P prev pe).pruneIds = pruneIds at hne pf6 hmgr ⊢
    have hinv0 : s.cl.inv = c.inv := by rw [hcl]; exact (startStore_spec c run.envDel).2.2
    -- the end of the run, once the final task is reached
    have hend : ∀ (s' : St) (name : String), s'.run = run →
        NoError (runTasks P ns s' [⟨name, .invSet prev pe⟩]).events →
        (runInvSet (s'.emit (.group name "Inventory" "Started")) (c.inv.getD []) false).2 = none ∧
        runTasks P ns s' [⟨name, .invSet prev pe⟩] =
          (runInvSet (s'.emit (.group name "Inventory" "Started")) (c.inv.getD []) false).1.emit (.group name "Inventory" "Finished") := by
      intro s' name _ hne'
      obtain ⟨h1, h2⟩ := runTasks_final_noError P ns s' name prev pe hne'
      have hpe : pe = false := by
        cases hpe : pe with
        | false => rfl
        | true => rw [hpe] at h1; simp [runInvSet] at h1
      rw [hpv hpe, hpe] at h1 h2
      exact ⟨h1, by rw [← h2, hpv hpe, hpe]⟩
    by_cases hdes : run.destroy = true
    · simp only [hdes, if_true, List.nil_append] at hne ⊢
      obtain ⟨s', ⟨hr', hi', hm'⟩, heq'⟩ := runTasks_prefix_noError
        (fun s' => s'.run = run ∧ s'.cl.inv = c.inv ∧ (midTasks run A pruneIds layers = [] → s'.mgr = s.mgr)) P ns
        (fun _ _ h => h) (midTasks run A pruneIds layers)
        (fun t ht s' h => by
          obtain ⟨a, b⟩ := runTask_mid s' t P ns (midTasks_mid _ _ _ _ t ht)
          exact ⟨b.trans h.1, a.trans h.2.1, fun hnil => by rw [hnil] at ht; cases ht⟩)
        _ s ⟨hrun, hinv0, fun _ => rfl⟩ hne
      rw [heq'] at hne ⊢
      obtain ⟨e1, e2⟩ := hend s' _ hr' hne
      refine ⟨s', _, e1, e2, hr', (fun h => by cases h), (fun h => by rw [hi']; exact h), ?_⟩
      intro _ hcn
      have hPnil : P = [] := by
        apply List.eq_nil_iff_forall_not_mem.mpr
        intro l hl
        have := (hP1 l hl).2.1
        rw [hcn] at this
        cases this
      have hAnil : A = [] := by
        apply List.eq_nil_iff_forall_not_mem.mpr
        intro i hi
        obtain ⟨⟨m, hm, _⟩, _⟩ := (pf5 i).mp hi
        simp [applySet, hdes] at hm
      have hPInil : pruneIds = [] := by
        apply List.eq_nil_iff_forall_not_mem.mpr
        intro i hi
        obtain ⟨⟨o, ho, _⟩, _⟩ := (pf6 i).mp hi
        rw [hPnil] at ho; cases ho
      rw [hm' (by rw [hAnil, hPInil]; exact midTasks_nil run layers), hmgr]
      subst hPnil
      exact prepMgr_nil _ _ (hA.trans hAnil) (hPI.trans hPInil)
    · have hdes' : run.destroy = false := by simpa using hdes
      simp only [hdes', Bool.false_eq_true, if_false, List.singleton_append] at hne ⊢
      obtain ⟨h1, _, _, h4⟩ := runTasks_cons_noError P ns s ⟨"inventory-add-0", .invAdd A⟩ _ hne
      rw [h4] at hne ⊢
      have hrt : ∀ s0 : St, runTask s0 ⟨"inventory-add-0", .invAdd A⟩ P ns = runInvAdd s0 A := fun _ => rfl
      rw [hrt] at h1 hne ⊢
      obtain ⟨l, hl, _, hr1⟩ := runInvAdd_ok _ A (by unfold dryOf; simp [hrun, hd]) h1
      generalize (runInvAdd (s.emit (.group "inventory-add-0" ((⟨"inventory-add-0", .invAdd A⟩ : Task).action s.run.destroy) "Started")) A).1 = s1
        at hne hl hr1 ⊢
      obtain ⟨s', ⟨hr', hi'⟩, heq'⟩ := runTasks_prefix_noError
        (fun s' => s'.run = run ∧ s'.cl.inv ≠ none) P ns (fun _ _ h => h) (midTasks run A pruneIds layers)
        (fun t ht s' h => by
          obtain ⟨a, b⟩ := runTask_mid s' t P ns (midTasks_mid _ _ _ _ t ht)
          exact ⟨b.trans h.1, by rw [a]; exact h.2⟩)
        _ (s1.emit (.group "inventory-add-0" ((⟨"inventory-add-0", .invAdd A⟩ : Task).action s.run.destroy) "Finished"))
        ⟨hr1.trans hrun, by simp [hl]⟩ hne
      rw [heq'] at hne ⊢
      obtain ⟨e1, e2⟩ := hend s' _ hr' hne
      exact ⟨s', _, e1, e2, hr', fun _ => hi', fun _ => hi', (fun h => by cases h)⟩

/-! ## every plan of the task builder, for any indexed invariant and any postcondition closed under error exits -/

/-- an invariant indexed by the ids still to be applied (`RA`), still to be pruned (`RP`) and whose delete wait is next (`W`), carried
by the tasks of a plan when they report no error and the run is not aborted (as `FinalL.G` is) -/
structure PlanInv (x : Ctx) (ns : List String) (Inv : St → List Id → List Id → List Id → Prop) : Prop where
  emit : ∀ s e RA RP W, Inv s RA RP W → Inv (s.emit e) RA RP W
  invAdd : ∀ s RA RP, (nsInv ∈ x.A → ∃ o ∈ s.cl.objs, o.id = nsInv) → Inv s RA RP [] → (runInvAdd s x.A).2 = none →
    Inv (runInvAdd s x.A).1 RA RP []
  applyT : ∀ g l s RA RP, (∀ i ∈ l, i ∈ x.A ∧ ∃ m ∈ x.run.objs, m.id = i) → (l ++ RA).Nodup → Inv s (l ++ RA) RP [] →
    Inv (l.foldl (applyOne g) s) RA RP []
  waitA : ∀ g l s RA RP, (∀ i ∈ l, i ∈ x.A) → Inv s RA RP [] → (runWait g s l .allCurrent).2 = none →
    (runWait g s l .allCurrent).1.cancelled = false → (runWait g s l .allCurrent).1.watcherFailed = false →
    Inv (runWait g s l .allCurrent).1 RA RP []
  pruneT : ∀ g l s RA RP, (∀ i ∈ l, ∃ o ∈ x.P, o.id = i) → Inv s RA (l ++ RP) [] →
    Inv ((l.filterMap (fun i => x.P.find? (fun o => o.id = i))).foldl (pruneOne g s.mgr.appliedUIDs ns) s) RA RP l
  waitP : ∀ g l s RA RP, (∀ i ∈ l, ∃ o ∈ x.P, o.id = i) → Inv s RA RP l → (runWait g s l .allNotFound).2 = none →
    (runWait g s l .allNotFound).1.cancelled = false → (runWait g s l .allNotFound).1.watcherFailed = false →
    Inv (runWait g s l .allNotFound).1 RA RP []

/-- the conjunction of two plan invariants -/
theorem PlanInv.and {x : Ctx} {ns : List String} {I J : St → List Id → List Id → List Id → Prop}
    (hI : PlanInv x ns I) (hJ : PlanInv x ns J) : PlanInv x ns (fun s RA RP W => I s RA RP W ∧ J s RA RP W) :=
  ⟨fun s e RA RP W h => ⟨hI.emit s e RA RP W h.1, hJ.emit s e RA RP W h.2⟩,
   fun s RA RP hns h he => ⟨hI.invAdd s RA RP hns h.1 he, hJ.invAdd s RA RP hns h.2 he⟩,
   fun g l s RA RP hl hnd h => ⟨hI.applyT g l s RA RP hl hnd h.1, hJ.applyT g l s RA RP hl hnd h.2⟩,
   fun g l s RA RP hl h a b c => ⟨hI.waitA g l s RA RP hl h.1 a b c, hJ.waitA g l s RA RP hl h.2 a b c⟩,
   fun g l s RA RP hl h => ⟨hI.pruneT g l s RA RP hl h.1, hJ.pruneT g l s RA RP hl h.2⟩,
   fun g l s RA RP hl h a b c => ⟨hI.waitP g l s RA RP hl h.1 a b c, hJ.waitP g l s RA RP hl h.2 a b c⟩⟩

/-- an invariant without indices that every task of a plan preserves unconditionally (whatever it reports, aborted or not): it
holds at every exit of the runner -/
structure PlanInvU (x : Ctx) (ns : List String) (R : St → Prop) : Prop where
  emit : ∀ (s : St) (e : Ev), R s → R (s.emit e)
  invAdd : ∀ (s : St), (nsInv ∈ x.A → ∃ o ∈ s.cl.objs, o.id = nsInv) → R s → R (runInvAdd s x.A).1
  applyT : ∀ (g : String) (l : List Id) (s : St), (∀ i ∈ l, i ∈ x.A ∧ ∃ m ∈ x.run.objs, m.id = i) → R s → R (l.foldl (applyOne g) s)
  waitA : ∀ (g : String) (l : List Id) (s : St), (∀ i ∈ l, i ∈ x.A) → R s → R (runWait g s l .allCurrent).1
  pruneT : ∀ (g : String) (l : List Id) (s : St), (∀ i ∈ l, ∃ o ∈ x.P, o.id = i) → R s →
    R ((l.filterMap (fun i => x.P.find? (fun o => o.id = i))).foldl (pruneOne g s.mgr.appliedUIDs ns) s)
  waitP : ∀ (g : String) (l : List Id) (s : St), (∀ i ∈ l, ∃ o ∈ x.P, o.id = i) → R s → R (runWait g s l .allNotFound).1

theorem PlanInvU.trivial (x : Ctx) (ns : List String) : PlanInvU x ns (fun _ => True) :=
  ⟨fun _ _ _ => True.intro, fun _ _ _ => True.intro, fun _ _ _ _ _ => True.intro, fun _ _ _ _ _ => True.intro,
   fun _ _ _ _ _ => True.intro, fun _ _ _ _ _ => True.intro⟩

section Runner
variable (Q R : St → Prop) (hQ : ∀ (s : St) (k : String), R s → Q (s.emit (.error k))) (hRe : ∀ (s : St) (e : Ev), R s → R (s.emit e))
include hQ hRe

theorem runTasks_cons_Q (P : List Live) (ns : List String) (s : St) (t : Task) (ts : List Task) (act : String)
    (hact : t.action s.run.destroy = act)
    (hr : R (runTask (s.emit (.group t.name act "Started")) t P ns).1)
    (h : (runTask (s.emit (.group t.name act "Started")) t P ns).2 = none →
         (runTask (s.emit (.group t.name act "Started")) t P ns).1.watcherFailed = false →
         (runTask (s.emit (.group t.name act "Started")) t P ns).1.cancelled = false →
         Q (runTasks P ns ((runTask (s.emit (.group t.name act "Started")) t P ns).1.emit (.group t.name act "Finished")) ts)) :
    Q (runTasks P ns s (t :: ts)) := by
  subst hact
  unfold runTasks
  simp only []
  generalize runTask (s.emit (.group t.name (t.action s.run.destroy) "Started")) t P ns = r at h hr ⊢
  have hr' := hRe _ (.group t.name (t.action s.run.destroy) "Finished") hr
  cases he : r.2 with
  | some k => exact hQ _ _ hr'
  | none =>
    simp only []
    split
    · exact hQ _ _ hr'
    · rename_i hw
      split
      · exact hQ _ _ hr'
      · rename_i hc
        exact h he (by simpa [St.emit] using hc) (by simpa [St.emit] using hw)

theorem runTasks_cons_Q' (P : List Live) (ns : List String) (s : St) (t : Task) (ts : List Task) (act : String) (r : TaskRes)
    (hact : t.action s.run.destroy = act) (hr : runTask (s.emit (.group t.name act "Started")) t P ns = r)
    (hR : R r.1)
    (h : r.2 = none → r.1.watcherFailed = false → r.1.cancelled = false →
         Q (runTasks P ns (r.1.emit (.group t.name act "Finished")) ts)) :
    Q (runTasks P ns s (t :: ts)) := by
  subst hr
  exact runTasks_cons_Q Q R hQ hRe P ns s t ts act hact hR h

variable {x : Ctx} {ns : List String} {Inv : St → List Id → List Id → List Id → Prop} (hI : PlanInv x ns Inv) (hU : PlanInvU x ns R)
include hI hU

theorem apply_pair_Q (na nw : String) (l : List Id) (ts : List Task) (RA RP : List Id) (s : St)
    (hl : ∀ i ∈ l, i ∈ x.A ∧ ∃ m ∈ x.run.objs, m.id = i) (hnd : (l ++ RA).Nodup) (h : Inv s (l ++ RA) RP []) (hR : R s)
    (hrest : ∀ s', Inv s' RA RP [] → R s' → Q (runTasks x.P ns s' ts)) :
    Q (runTasks x.P ns s (⟨na, .apply l⟩ :: ⟨nw, .wait l .allCurrent⟩ :: ts)) := by
  generalize hact : (⟨na, .apply l⟩ : Task).action s.run.destroy = act
  generalize hs0 : s.emit (.group na act "Started") = s0
  have h0 : Inv s0 (l ++ RA) RP [] := by rw [← hs0]; exact hI.emit _ _ _ _ _ h
  have r0 : R s0 := by rw [← hs0]; exact hU.emit _ _ hR
  have h1 := hI.applyT na l s0 RA RP hl hnd h0
  have r1 := hU.applyT na l s0 hl r0
  refine runTasks_cons_Q' Q R hQ hRe x.P ns s ⟨na, .apply l⟩ _ act (l.foldl (applyOne na) s0, none)
    hact (by simp only [hs0]; rfl) r1 ?_
  intro _ _ _
  simp only []
  generalize l.foldl (applyOne na) s0 = sa at h1 r1 ⊢
  generalize hsb : sa.emit (.group na act "Finished") = sb
  have h2 : Inv sb RA RP [] := by rw [← hsb]; exact hI.emit _ _ _ _ _ h1
  have r2 : R sb := by rw [← hsb]; exact hU.emit _ _ r1
  generalize hact2 : (⟨nw, .wait l .allCurrent⟩ : Task).action sb.run.destroy = act2
  generalize hsc : sb.emit (.group nw act2 "Started") = sc
  have h3 : Inv sc RA RP [] := by rw [← hsc]; exact hI.emit _ _ _ _ _ h2
  have r3 : R sc := by rw [← hsc]; exact hU.emit _ _ r2
  have r4 := hU.waitA nw l sc (fun i hi => (hl i hi).1) r3
  refine runTasks_cons_Q' Q R hQ hRe x.P ns sb ⟨nw, .wait l .allCurrent⟩ _ act2 (runWait nw sc l .allCurrent)
    hact2 (by simp only [hsc]; rfl) r4 ?_
  intro he hwf hcan
  exact hrest _ (hI.emit _ _ _ _ _ (hI.waitA nw l sc RA RP (fun i hi => (hl i hi).1) h3 he hcan hwf)) (hU.emit _ _ r4)

theorem prune_pair_Q (np nw : String) (l : List Id) (ts : List Task) (RA RP : List Id) (s : St)
    (hl : ∀ i ∈ l, ∃ o ∈ x.P, o.id = i) (h : Inv s RA (l ++ RP) []) (hR : R s)
    (hrest : ∀ s', Inv s' RA RP [] → R s' → Q (runTasks x.P ns s' ts)) :
    Q (runTasks x.P ns s (⟨np, .prune l⟩ :: ⟨nw, .wait l .allNotFound⟩ :: ts)) := by
  generalize hact : (⟨np, .prune l⟩ : Task).action s.run.destroy = act
  generalize hs0 : s.emit (.group np act "Started") = s0
  have h0 : Inv s0 RA (l ++ RP) [] := by rw [← hs0]; exact hI.emit _ _ _ _ _ h
  have r0 : R s0 := by rw [← hs0]; exact hU.emit _ _ hR
  have h1 := hI.pruneT np l s0 RA RP hl h0
  have r1 := hU.pruneT np l s0 hl r0
  refine runTasks_cons_Q' Q R hQ hRe x.P ns s ⟨np, .prune l⟩ _ act
    ((l.filterMap (fun i => x.P.find? (fun o => o.id = i))).foldl (pruneOne np s0.mgr.appliedUIDs ns) s0, none)
    hact (by simp only [hs0]; rfl) r1 ?_
  intro _ _ _
  simp only []
  generalize (l.filterMap (fun i => x.P.find? (fun o => o.id = i))).foldl (pruneOne np s0.mgr.appliedUIDs ns) s0 = sa at h1 r1 ⊢
  generalize hsb : sa.emit (.group np act "Finished") = sb
  have h2 : Inv sb RA RP l := by rw [← hsb]; exact hI.emit _ _ _ _ _ h1
  have r2 : R sb := by rw [← hsb]; exact hU.emit _ _ r1
  generalize hact2 : (⟨nw, .wait l .allNotFound⟩ : Task).action sb.run.destroy = act2
  generalize hsc : sb.emit (.group nw act2 "Started") = sc
  have h3 : Inv sc RA RP l := by rw [← hsc]; exact hI.emit _ _ _ _ _ h2
  have r3 : R sc := by rw [← hsc]; exact hU.emit _ _ r2
  have r4 := hU.waitP nw l sc hl r3
  refine runTasks_cons_Q' Q R hQ hRe x.P ns sb ⟨nw, .wait l .allNotFound⟩ _ act2 (runWait nw sc l .allNotFound)
    hact2 (by simp only [hsc]; rfl) r4 ?_
  intro he hwf hcan
  exact hrest _ (hI.emit _ _ _ _ _ (hI.waitP nw l sc RA RP hl h3 he hcan hwf)) (hU.emit _ _ r4)

theorem apply_phase_Q (rest : List Task) (RP : List Id) (hrest : ∀ s, Inv s [] RP [] → R s → Q (runTasks x.P ns s rest)) :
    ∀ (L : List (List Id)) (c w : Nat) (s : St),
      (∀ l ∈ L, ∀ i ∈ l, i ∈ x.A ∧ ∃ m ∈ x.run.objs, m.id = i) → L.flatten.Nodup → Inv s L.flatten RP [] → R s →
      Q (runTasks x.P ns s ((layerTasks true false L c w).1 ++ rest)) := by
  intro L
  induction L with
  | nil => intro c w s _ _ h hR; simpa [layerTasks] using hrest s h hR
  | cons l ls ih =>
    intro c w s hL hnd h hR
    simp only [layerTasks, Bool.false_eq_true, if_false, if_true, List.cons_append]
    simp only [List.flatten_cons] at hnd h
    exact apply_pair_Q Q R hQ hRe hI hU _ _ l _ ls.flatten RP s (hL l (by simp)) hnd h hR
      (fun s' h' r' => ih (c + 1) (w + 1) s' (fun l' hl' => hL l' (by simp [hl'])) (List.nodup_append.mp hnd).2.1 h' r')

theorem prune_phase_Q (rest : List Task) (hrest : ∀ s, Inv s [] [] [] → R s → Q (runTasks x.P ns s rest)) :
    ∀ (L : List (List Id)) (c w : Nat) (s : St),
      (∀ l ∈ L, ∀ i ∈ l, ∃ o ∈ x.P, o.id = i) → Inv s [] L.flatten [] → R s →
      Q (runTasks x.P ns s ((layerTasks false false L c w).1 ++ rest)) := by
  intro L
  induction L with
  | nil => intro c w s _ h hR; simpa [layerTasks] using hrest s h hR
  | cons l ls ih =>
    intro c w s hL h hR
    simp only [layerTasks, Bool.false_eq_true, if_false, List.cons_append]
    simp only [List.flatten_cons] at h
    exact prune_pair_Q Q R hQ hRe hI hU _ _ l _ [] ls.flatten s (hL l (by simp)) h hR
      (fun s' h' r' => ih (c + 1) (w + 1) s' (fun l' hl' => hL l' (by simp [hl'])) h' r')

/-- **every plan of the task builder** (generic form of `C01F.plan_safe`): from a state that satisfies the indexed invariant `Inv` for
the plan's layers and the unconditional invariant `R`, the run of the whole task list satisfies `Q` if `Q` holds at every error exit
(where `R` holds) and after the final task started from any state that satisfies `R` and `Inv` with nothing left to apply, prune or
wait for -/
theorem plan_runs (hdry : x.run.opts.dry = .none) (pruneIds : List Id) (layers : List (List Id)) (prev : List Id) (pe : Bool) (s : St)
    (hlay : layers.flatten.Nodup) (hAobj : ∀ i ∈ x.A, ∃ m ∈ x.run.objs, m.id = i) (hPids : ∀ i ∈ pruneIds, ∃ o ∈ x.P, o.id = i)
    (hns : nsInv ∈ x.A → ∃ o ∈ s.cl.objs, o.id = nsInv)
    (hs : Inv s (planRA x.A layers) (planRP x.run pruneIds layers) []) (hR : R s)
    (hfin : ∀ s', Inv s' [] [] [] → R s' → Q (runTasks x.P ns s'
      [⟨if x.run.destroy then "inventory-delete-or-update-0" else "inventory-set-0", .invSet prev pe⟩])) :
    Q (runTasks x.P ns s (planTasks x.run x.A pruneIds layers prev pe)) := by
  have hdry' : decide (x.run.opts.dry ≠ Dry.none) = false := by rw [hdry]; rfl
  obtain ⟨hLAnd, hLAmem⟩ := hydrate_flatten Ordering.less x.A layers hlay
  have hLA : ∀ l ∈ Graph.hydrate Ordering.less (fun v => decide (v ∈ x.A)) layers, ∀ i ∈ l, i ∈ x.A ∧ ∃ m ∈ x.run.objs, m.id = i := by
    intro l hl i hi
    have : i ∈ x.A := ((hLAmem i).mp (List.mem_flatten.mpr ⟨l, hl, hi⟩)).2
    exact ⟨this, hAobj i this⟩
  obtain ⟨_, hLPmem⟩ := hydrate_flatten Ordering.less pruneIds layers hlay
  have hLP : ∀ l ∈ Graph.reverseSetList (Graph.hydrate Ordering.less (fun v => decide (v ∈ pruneIds)) layers), ∀ i ∈ l, ∃ o ∈ x.P, o.id = i := by
    intro l hl i hi
    have : i ∈ (Graph.reverseSetList (Graph.hydrate Ordering.less (fun v => decide (v ∈ pruneIds)) layers)).flatten :=
      List.mem_flatten.mpr ⟨l, hl, hi⟩
    rw [Graph.reverseSetList_flatten, List.mem_reverse] at this
    exact hPids i ((hLPmem i).mp this).2
  unfold planTasks
  simp only [hdry']
  have hmid : ∀ s', Inv s' (planRA x.A layers) (planRP x.run pruneIds layers) [] → R s' →
      Q (runTasks x.P ns s'
        ((if x.A.isEmpty then (([] : List Task), 0) else layerTasks true false (Graph.hydrate Ordering.less (fun v => decide (v ∈ x.A)) layers) 0 0).1 ++
          ((if (x.run.destroy || !x.run.opts.noPrune) && !pruneIds.isEmpty then
              layerTasks false false (Graph.reverseSetList (Graph.hydrate Ordering.less (fun v => decide (v ∈ pruneIds)) layers)) 0
                (if x.A.isEmpty then (([] : List Task), 0) else layerTasks true false (Graph.hydrate Ordering.less (fun v => decide (v ∈ x.A)) layers) 0 0).2
            else ([], (if x.A.isEmpty then (([] : List Task), 0) else layerTasks true false (Graph.hydrate Ordering.less (fun v => decide (v ∈ x.A)) layers) 0 0).2)).1 ++
            [⟨if x.run.destroy then "inventory-delete-or-update-0" else "inventory-set-0", .invSet prev pe⟩]))) := by
    intro s' h' r'
    have hprune : ∀ w s'', Inv s'' [] (planRP x.run pruneIds layers) [] → R s'' → Q (runTasks x.P ns s''
        ((if (x.run.destroy || !x.run.opts.noPrune) && !pruneIds.isEmpty then
            layerTasks false false (Graph.reverseSetList (Graph.hydrate Ordering.less (fun v => decide (v ∈ pruneIds)) layers)) 0 w
          else ([], w)).1 ++
          [⟨if x.run.destroy then "inventory-delete-or-update-0" else "inventory-set-0", .invSet prev pe⟩])) := by
      intro w s'' h'' r''
      unfold planRP at h''
      split
      · rename_i hc
        rw [if_pos hc] at h''
        exact prune_phase_Q Q R hQ hRe hI hU _ hfin _ 0 w s'' hLP h'' r''
      · rename_i hc
        rw [if_neg hc] at h''
        simpa using hfin s'' h'' r''
    by_cases hAe : x.A.isEmpty = true
    · simp only [hAe, if_true, List.nil_append]
      have hRA : planRA x.A layers = [] := by
        apply List.eq_nil_iff_forall_not_mem.mpr
        intro i hi
        have := ((hLAmem i).mp hi).2
        rw [List.isEmpty_iff.mp hAe] at this; cases this
      rw [hRA] at h'
      exact hprune 0 s' h' r'
    · simp only [hAe]
      exact apply_phase_Q Q R hQ hRe hI hU _ _ (fun s'' h'' r'' => hprune _ s'' h'' r'') _ 0 0 s' hLA hLAnd h' r'
  by_cases hd : x.run.destroy = true
  · simp only [hd, if_true, List.nil_append, List.append_assoc]
    have := hmid s hs hR
    simpa [hd, List.append_assoc] using this
  · simp only [hd, List.append_assoc]
    generalize hact : (⟨"inventory-add-0", .invAdd x.A⟩ : Task).action s.run.destroy = act
    have r1 := hU.invAdd (s.emit (.group "inventory-add-0" act "Started")) hns (hU.emit _ _ hR)
    refine runTasks_cons_Q' Q R hQ hRe x.P ns s ⟨"inventory-add-0", .invAdd x.A⟩ _ act
      (runInvAdd (s.emit (.group "inventory-add-0" act "Started")) x.A) hact rfl r1 ?_
    intro he _ _
    have h2 := hI.invAdd (s.emit (.group "inventory-add-0" act "Started")) _ _ hns
      (hI.emit _ (.group "inventory-add-0" act "Started") _ _ _ hs) he
    have := hmid _ (hI.emit _ (.group "inventory-add-0" act "Finished") _ _ _ h2) (hU.emit _ _ r1)
    simpa [hd, List.append_assoc] using this

end Runner

/-! ## `FinalL.G` is a plan invariant; the whole run with `G` -/

theorem G_runInvAdd {x : Ctx} (s : St) (ids RA RP : List Id) (h : G x s RA RP [])
    (hns : nsInv ∈ ids → ∃ o ∈ s.cl.objs, o.id = nsInv) (he : (runInvAdd s ids).2 = none) : G x (runInvAdd s ids).1 RA RP [] := by
  unfold runInvAdd at he ⊢
  split
  · rename_i hc
    have hin : nsInv ∈ ids := by
      simp only [Bool.and_eq_true, decide_eq_true_eq] at hc; exact hc.1
    have heff := nsCreateEffect_exists s.run s.cl (hns hin)
    have hfr : ObjsFrame s (s.mutReq "create" nsInv false "" "" (nsCreateEffect s.run)).1 :=
      (ObjsFrame.refl s).mutReq _ _ _ _ _ _ (by rw [heff]; exact ⟨rfl, Nat.le_refl _⟩)
    simp only [hc, if_true] at he
    simp only [] at he ⊢
    generalize (s.mutReq "create" nsInv false "" "" (nsCreateEffect s.run)) = r at hfr he ⊢
    split
    · rename_i herr; simp [herr] at he
    · exact h.frame (mergeInv_objsFrame hfr ids)
  · exact h.frame (mergeInv_objsFrame (ObjsFrame.refl s) ids)

theorem G_planInv {x : Ctx} (hx : CtxOK x) (ns : List String) : PlanInv x ns (G x) := by
  refine ⟨fun s e RA RP W h => h.emit e, fun s RA RP hns h he => G_runInvAdd s x.A RA RP h hns he, ?_, ?_, ?_, ?_⟩
  · intro g l s RA RP hl hnd h
    exact G_applyFold hx g l s RA RP [] h (fun i hi => (hl i hi).1) hnd (fun i hi => (hl i hi).2)
  · intro g l s RA RP hl h he hc hw
    have := G_runWait hx g s l .allCurrent RA RP [] h (Or.inr (fun i hi l' hl' => hx.disj i (hl i hi) l' hl')) he hc hw
    simpa using this
  · intro g l s RA RP hl h
    have hg0 : G x s RA (l ++ RP) l := h.mono (W' := l) (by simp)
    have hlives := CliUtils.GrammarL.lives_ids x.P l hl
    refine G_pruneFold hx g s.mgr.appliedUIDs ns _ s RA RP l (by rw [hlives]; exact hg0) (lives_sub x.P l) (uids_ok hx _ _ _ _ hg0) ?_
    intro o ho
    have : o.id ∈ (l.filterMap (fun i => x.P.find? (fun o => o.id = i))).map (·.id) := List.mem_map.mpr ⟨o, ho, rfl⟩
    rw [hlives] at this; exact this
  · intro g l s RA RP _ h he hc hw
    have := G_runWait hx g s l .allNotFound RA RP l h (Or.inl rfl) he hc hw
    rw [filter_not_mem_self] at this
    exact this

open CliUtils.Props.C02 in
/-- **the whole run with the invariant `G`** (generic form of `C01F.no_orphan_run`): under its hypotheses, a property `Q` of the final
state holds if it holds at every error exit and after the final inventory task started from any state that satisfies
`G x s' [] [] []` (and any further plan invariant `J` that holds when the first task starts) -/
theorem run_plan (c : Cluster) (run : Run) (h0 : NoOrphanCl c) (hwf : StoreWF c) (hd : run.opts.dry = .none)
    (hns : run.destroy = false → (∃ m ∈ run.objs, m.id = nsInv) → ∃ o ∈ (startStore c run).objs, o.id = nsInv)
    (hk : ∀ o ∈ (startStore c run).objs, o.owner = invId →
      (scopeOf o.id.group o.id.kind).isSome ∨ (run.destroy = false ∧ ∃ m ∈ run.objs, m.id = o.id))
    (hdel : DelScriptsOK run) (Q : St → Prop) (hQ : ∀ (s : St) (k : String), Q (s.emit (.error k)))
    (hfin : ∀ (x : Ctx) (ns : List String) (s' : St) (prev : List Id) (pe : Bool), CtxOK x → x.run = run →
      x.prev = c.inv.getD [] → (run.destroy = true → x.A = []) → (pe = false → prev = c.inv.getD []) → G x s' [] [] [] →
      Q (runTasks x.P ns s' [⟨if run.destroy then "inventory-delete-or-update-0" else "inventory-set-0", .invSet prev pe⟩])) :
    Q (runOne c run) := by
  obtain ⟨hsub, hnu, hinv0⟩ := startStore_spec c run.envDel
  rcases runOne_start c run with ⟨s, k, he, _⟩ | ⟨P, prev, pe, s, hP1, hP2, hpv, hcl, hrun, hmgr, hab, hinval, _, _, hcache, heq, _⟩
  · rw [he]; exact hQ s k
  · obtain ⟨layers, pf1, pf2, pf3, pf4, pf5, pf6⟩ := plan_facts run (applySet run) P prev pe
    generalize hplan : buildPlan run (applySet run) P prev pe = plan at *
    let x : Ctx := { run := run, c0 := startStore c run, A := plan.applyIds, P := P, prev := c.inv.getD [], invalid := plan.invalid }
    have happ1 : ∀ m ∈ applySet run, m ∈ run.objs ∧ run.destroy = false := by
      intro m hm
      unfold applySet at hm
      split at hm
      · cases hm
      · rename_i hdes; exact ⟨hm, by simpa using hdes⟩
    have happ2 : run.destroy = false → applySet run = run.objs := by
      intro hdes; unfold applySet; simp [hdes]
    have hPc0 : ∀ l ∈ P, l ∈ (startStore c run).objs ∧ l.id ∈ c.inv.getD [] ∧ l.id ∉ (applySet run).map (·.id) := by
      intro l hl
      obtain ⟨a, b, d⟩ := hP1 l hl
      exact ⟨(find_some_mem _ _ _ a).1, b, d⟩
    have hAapp : ∀ i ∈ plan.applyIds, ∃ m ∈ applySet run, m.id = i := fun i hi => ((pf5 i).mp hi).1
    have hc0 : NoOrphanCl (startStore c run) := by
      intro o ho hown
      obtain ⟨l, hl, hm⟩ := h0 o (hsub o ho) hown
      exact ⟨l, by unfold startStore; rw [hinv0]; exact hl, hm⟩
    have hx : CtxOK x := by
      refine ⟨hd, ?_, fun l hl => (hPc0 l hl).1, fun l hl => (hPc0 l hl).2.1, ?_, ?_, ?_, hdel⟩
      · intro i hi l hl hlid
        obtain ⟨m, hm, hmid⟩ := hAapp i hi
        exact (hPc0 l hl).2.2 (List.mem_map.mpr ⟨m, hm, hmid.trans hlid.symm⟩)
      · exact fun o ho o' ho' => hwf.idsInj o (hsub o ho) o' (hsub o' ho')
      · exact fun o ho o' ho' => hwf.uidInj o (hsub o ho) o' (hsub o' ho')
      · intro o ho k hk'
        exact hwf.fresh o (hsub o ho) k (by rw [← hnu]; exact hk')
    have hdes : run.destroy = true → x.A = [] := by
      intro hdes
      apply List.eq_nil_iff_forall_not_mem.mpr
      intro i hi
      obtain ⟨m, hm, _⟩ := hAapp i hi
      have := (happ1 m hm).2
      rw [this] at hdes; cases hdes
    obtain ⟨_, hLAmem⟩ := hydrate_flatten Ordering.less plan.applyIds layers pf2
    obtain ⟨_, hLPmem⟩ := hydrate_flatten Ordering.less plan.pruneIds layers pf2
    have hg : G x s (planRA x.A layers) (planRP x.run plan.pruneIds layers) [] := by
      refine G_init x hx s plan _ _ hrun hinval hcl hmgr hab hcache rfl rfl ?_ ?_ pf6 ?_
      · intro i hi
        exact (hLAmem i).mpr ⟨pf3 i hi, hi⟩
      · intro hb i hi
        have hne : plan.pruneIds.isEmpty = false := by
          cases hpp : plan.pruneIds with
          | nil => rw [hpp] at hi; cases hi
          | cons a as => rfl
        unfold planRP
        have hb' : (run.destroy || !run.opts.noPrune) = true := hb
        simp only [x, hb', hne, Bool.not_false, Bool.and_self, if_true]
        rw [Graph.reverseSetList_flatten, List.mem_reverse]
        exact (hLPmem i).mpr ⟨pf4 i hi, hi⟩
      · intro o ho hown
        obtain ⟨l, hl, hm⟩ := hc0 o ho hown
        have hinvc : (startStore c run).inv = c.inv := hinv0
        refine ⟨by simp only [x]; rw [← hinvc, hl]; exact hm, ?_⟩
        by_cases happid : ∃ m ∈ applySet run, m.id = o.id
        · by_cases hiv : o.id ∈ plan.invalid
          · exact Or.inr (Or.inl hiv)
          · exact Or.inl ((pf5 o.id).mpr ⟨happid, hiv⟩)
        · right; right
          have hscope : (scopeOf o.id.group o.id.kind).isSome = true := by
            rcases hk o ho hown with h | ⟨hdf, hm'⟩
            · exact h
            · rw [happ2 hdf] at happid; exact absurd hm' happid
          have hnin : o.id ∉ (applySet run).map (·.id) := by
            intro hmm
            obtain ⟨m, hm1, hm2⟩ := List.mem_map.mp hmm
            exact happid ⟨m, hm1, hm2⟩
          exact hP2 o.id (by rw [← hinvc, hl]; exact hm) hnin hscope ⟨o, ho, rfl⟩
    rw [heq, pf1]
    refine plan_runs Q (fun _ => True) (fun s k _ => hQ s k) (fun _ _ _ => True.intro) (G_planInv hx _) (PlanInvU.trivial _ _) hd
      plan.pruneIds layers prev pe s pf2 ?_ (fun i hi => ((pf6 i).mp hi).1) ?_ hg True.intro ?_
    · intro i hi
      obtain ⟨m, hm, hmid⟩ := hAapp i hi
      exact ⟨m, (happ1 m hm).1, hmid⟩
    · intro hin
      obtain ⟨m, hm, hmid⟩ := hAapp nsInv hin
      rw [hcl]
      exact hns (happ1 m hm).2 ⟨m, (happ1 m hm).1, hmid⟩
    · intro s' hg' _
      exact hfin x _ s' prev pe hx rfl rfl hdes hpv hg'

/-! ## bookkeeping: every id of the apply set keeps a record, abandoned ids and delete records are prune objects -/

theorem start_fwd (ids : List Id) (c : Wait.Cond) (m : Mgr Id) (cache : List (Id × Wait.Obs)) (x : Id) (r : Rec Id)
    (h : m.find? x = some r) : ∃ r', (Wait.start ids c m cache).mgr.find? x = some r' ∧ Wait.static r' = Wait.static r := by
  rw [(Wait.start_find ids c m cache x).1, h]
  simp only [Option.map_some]
  exact ⟨_, rfl, by split <;> rfl⟩

theorem update_fwd (w : Wait.WState Id) (id : Id) (o : Wait.Obs) (x : Id) (r : Rec Id) (h : w.mgr.find? x = some r) :
    ∃ r', (Wait.statusUpdate w id o).mgr.find? x = some r' ∧ Wait.static r' = Wait.static r := by
  obtain ⟨_, _, _, _, _, e, hfind, _⟩ := Wait.statusUpdate_spec w id o
  rw [hfind x]
  cases e with
  | none => exact ⟨r, h, rfl⟩
  | some ev =>
    simp only [h, Option.map_some]
    exact ⟨_, rfl, by unfold Wait.setRc; split <;> rfl⟩

theorem timeout_fwd (w : Wait.WState Id) (x : Id) (r : Rec Id) (h : w.mgr.find? x = some r) :
    ∃ r', (Wait.timeout w).mgr.find? x = some r' ∧ Wait.static r' = Wait.static r := by
  have hmgr : (Wait.timeout w).mgr = (w.pending.foldl (fun st id => Wait.emit st id .timeout) w).mgr := rfl
  rw [hmgr, (Wait.timeoutFold_find w.pending w x).1, h]
  simp only [Option.map_some]
  exact ⟨_, rfl, by split <;> rfl⟩

/-- a property of the first record of `x` that only depends on its static fields survives a wait task -/
theorem runWait_static (group : String) (s : St) (ids : List Id) (cond : Wait.Cond) :
    (∀ x r, s.mgr.find? x = some r → ∃ r', (runWait group s ids cond).1.mgr.find? x = some r' ∧ Wait.static r' = Wait.static r) ∧
    Wait.MemStatic s.mgr (runWait group s ids cond).1.mgr := by
  refine (runWait_triple (fun m _ _ => (∀ x r, s.mgr.find? x = some r → ∃ r', m.find? x = some r' ∧ Wait.static r' = Wait.static r) ∧
    Wait.MemStatic s.mgr m) group s ids cond ?_ ?_ ?_).1
  · exact ⟨fun x r h => start_fwd ids cond s.mgr s.cache x r h, (start_table ids cond s.mgr s.cache).1⟩
  · intro w cl d _ _ _ hI
    refine ⟨?_, hI.2.trans (update_table w d.id _).1⟩
    intro x r h
    obtain ⟨r1, h1, e1⟩ := hI.1 x r h
    obtain ⟨r2, h2, e2⟩ := update_fwd w d.id (obsOf (if d.envRemove = true then cl.remove d.id else cl) d) x r1 h1
    exact ⟨r2, h2, e2.trans e1⟩
  · intro w cl _ _ hI
    refine ⟨?_, hI.2.trans (timeout_table w).1⟩
    intro x r h
    obtain ⟨r1, h1, e1⟩ := hI.1 x r h
    obtain ⟨r2, h2, e2⟩ := timeout_fwd w x r1 h1
    exact ⟨r2, h2, e2.trans e1⟩

structure BookInv (x : Ctx) (s : St) : Prop where
  run : s.run = x.run
  hasA : ∀ i ∈ x.A, ∃ r, s.mgr.find? i = some r
  recP : ∀ r ∈ s.mgr, r.strategy = .delete → ∃ l ∈ x.P, l.id = r.id
  abP : ∀ X ∈ s.abandoned, ∃ l ∈ x.P, l.id = X

theorem BookInv.of_eq {x : Ctx} {s s' : St} (h : BookInv x s) (hr : s'.run = s.run) (hm : s'.mgr = s.mgr) (ha : s'.abandoned = s.abandoned) :
    BookInv x s' :=
  ⟨hr.trans h.run, by rw [hm]; exact h.hasA, by rw [hm]; exact h.recP, by rw [ha]; exact h.abP⟩

theorem runInvAdd_book (s : St) (ids : List Id) :
    (runInvAdd s ids).1.run = s.run ∧ (runInvAdd s ids).1.mgr = s.mgr ∧ (runInvAdd s ids).1.abandoned = s.abandoned := by
  have hm : ∀ t : St, (mergeInv t ids).1.run = t.run ∧ (mergeInv t ids).1.mgr = t.mgr ∧ (mergeInv t ids).1.abandoned = t.abandoned := by
    intro t
    have f := mergeInv_objsFrame (ObjsFrame.refl t) ids
    exact ⟨f.run, f.mgr, f.ab⟩
  unfold runInvAdd
  split
  · have hfr := mutReq_frame s "create" nsInv false "" "" (nsCreateEffect s.run)
    simp only []
    split
    · exact ⟨hfr.2.1, hfr.1, hfr.2.2.1⟩
    · obtain ⟨a, b, d⟩ := hm (s.mutReq "create" nsInv false "" "" (nsCreateEffect s.run)).1
      exact ⟨a.trans hfr.2.1, b.trans hfr.1, d.trans hfr.2.2.1⟩
  · exact hm s

theorem BookInv.task {x : Ctx} (hx : CxOK x) (s : St) (t : Task) (ns : List String) (h : BookInv x s) :
    BookInv x (runTask s t x.P ns).1 := by
  unfold runTask
  cases hk : t.kind with
  | invAdd ids =>
    obtain ⟨a, b, d⟩ := runInvAdd_book s ids
    exact h.of_eq a b d
  | apply ids =>
    simp only []
    generalize t.name = g
    clear hk
    induction ids generalizing s with
    | nil => exact h
    | cons i is ih =>
      simp only [List.foldl_cons]
      apply ih
      obtain ⟨f1, _, f3, _, _, hcase⟩ := applyOne_fx g s i (by rw [h.run]; exact hx.dry)
      have hadd : ∀ a uid gen, (applyOne g s i).mgr = s.mgr.add i .apply a uid gen → BookInv x (applyOne g s i) := by
        intro a uid gen hm
        refine ⟨f1.trans h.run, ?_, ?_, by rw [f3]; exact h.abP⟩
        · intro j hj
          rw [hm]
          by_cases hji : j = i
          · subst hji; exact ⟨_, find_add_same _ _ _ _ _ _⟩
          · rw [find_add_other _ _ _ _ _ _ _ hji]; exact h.hasA j hj
        · intro r hr hs
          rw [hm] at hr
          rcases mem_set _ _ _ hr with hr | hr
          · subst hr; simp at hs
          · exact h.recP r hr hs
      rcases hcase with ⟨_, hm, _⟩ | ⟨a, _, _, hm, _⟩ | ⟨uid, gen, o, hm, _, _⟩
      · exact h.of_eq f1 hm f3
      · exact hadd _ _ _ hm
      · exact hadd _ _ _ hm
  | prune ids =>
    simp only []
    have hsub := lives_sub x.P ids
    generalize ids.filterMap (fun i => x.P.find? (fun o => o.id = i)) = lives at hsub
    generalize s.mgr.appliedUIDs = uids
    generalize t.name = g
    clear hk
    induction lives generalizing s with
    | nil => exact h
    | cons l ls ih =>
      simp only [List.foldl_cons]
      apply ih _ _ (fun o ho => hsub o (by simp [ho]))
      have hl : l ∈ x.P := hsub l (by simp)
      obtain ⟨f1, _, _, hab, _, _, _, a, uid, hm, _, _⟩ := pruneOne_fx g uids ns s l (by rw [h.run]; exact hx.dry)
      refine ⟨f1.trans h.run, ?_, ?_, ?_⟩
      · intro j hj
        rw [hm]
        by_cases hji : j = l.id
        · subst hji; exact ⟨_, find_add_same _ _ _ _ _ _⟩
        · rw [find_add_other _ _ _ _ _ _ _ hji]; exact h.hasA j hj
      · intro r hr hs
        rw [hm] at hr
        rcases mem_set _ _ _ hr with hr | hr
        · subst hr; exact ⟨l, hl, rfl⟩
        · exact h.recP r hr hs
      · intro X hX
        rcases hab X hX with hX | hX
        · exact h.abP X hX
        · exact ⟨l, hl, hX.symm⟩
  | wait ids cond =>
    obtain ⟨hf, hms⟩ := runWait_static t.name s ids cond
    obtain ⟨_, hr, ha, _⟩ := runWait_triple (fun _ _ _ => True) t.name s ids cond True.intro (fun _ _ _ _ _ _ _ => True.intro)
      (fun _ _ _ _ _ => True.intro)
    refine ⟨hr.trans h.run, ?_, ?_, by rw [ha]; exact h.abP⟩
    · intro i hi
      obtain ⟨r, hr'⟩ := h.hasA i hi
      obtain ⟨r', h1, _⟩ := hf i r hr'
      exact ⟨r', h1⟩
    · intro r' hr' hs
      obtain ⟨r, hr0, hst⟩ := hms r' hr'
      obtain ⟨e1, e2, _⟩ := static_fields hst
      rw [e1]; exact h.recP r hr0 (by rw [← e2]; exact hs)
  | invSet prev pe =>
    have f := CliUtils.HistoryL.runInvSet_objsFrame s prev pe
    exact h.of_eq f.run f.mgr f.ab

theorem bookInv_init (x : Ctx) (plan : Plan) (s : St) (hr : s.run = x.run) (hm : s.mgr = prepMgr x.run plan x.P)
    (hA : plan.applyIds = x.A) (hab : s.abandoned = []) (hdisj : ∀ i ∈ x.A, ∀ l ∈ x.P, l.id ≠ i)
    (hpid : ∀ i ∈ plan.pruneIds, ∃ o ∈ x.P, o.id = i) : BookInv x s := by
  refine ⟨hr, ?_, ?_, by rw [hab]; intro X hX; cases hX⟩
  · intro i hi
    rw [hm, prepMgr_find]
    have hnp : i ∉ x.P.map (·.id) := by
      intro hmm
      obtain ⟨l, hl, hlid⟩ := List.mem_map.mp hmm
      exact hdisj i hi l hl hlid
    have hnpi : i ∉ plan.pruneIds := by
      intro hmm
      obtain ⟨l, hl, hlid⟩ := hpid i hmm
      exact hdisj i hi l hl hlid
    rw [← hA] at hi
    simp only [hnp, hnpi, and_false, if_false, hi, if_true]
    exact ⟨_, rfl⟩
  · rw [hm]
    intro r hr' hs
    rcases prepMgr_mem _ _ _ r hr' with ⟨_, _, rfl⟩ | ⟨i, hi, rfl⟩ | ⟨o, ho, rfl⟩
    · simp at hs
    · exact hpid i hi
    · exact ⟨o, ho, rfl⟩

/-- the bookkeeping invariant at every exit of a run that reached its tasks -/
theorem run_book (c : Cluster) (run : Run) (hd : run.opts.dry = .none) :
    (∃ (s : St) (k : String), runOne c run = s.emit (.error k) ∧ (∀ r ∈ s.mgr, r.actuation ≠ .succeeded) ∧ s.muts = [] ∧
      s.cl = startStore c run) ∨
    ∃ (plan : Plan) (P : List Live), CliUtils.Props.C02.runPlanObjs c run = some (plan, P) ∧
      ∃ x : Ctx, CxOK x ∧ x.run = run ∧ x.A = plan.applyIds ∧ x.P = P ∧ LiveInv x (runOne c run) ∧ BookInv x (runOne c run) := by
  rcases runOne_start c run with ⟨s, k, h1, h2, h3, h4, _⟩ | ⟨P, prev, pe, s, hP1, _, _, hcl, hrun, hmgr, hab, _, _, _, _, heq, hpl⟩
  · exact Or.inl ⟨s, k, h1, h2, h3, h4⟩
  · right
    have hx := ctxOf_ok c run P prev pe hd (fun l hl => (hP1 l hl).2.2)
    have hwf := ctxOf_tasks_wf c run P prev pe
    obtain ⟨_, _, _, _, _, _, pf6⟩ := plan_facts run (CliUtils.Props.C02.applySet run) P prev pe
    refine ⟨_, P, hpl, ctxOf c run P prev pe, hx, rfl, rfl, rfl, ?_, ?_⟩
    · rw [heq]
      refine runTasks_all (LiveInv (ctxOf c run P prev pe)) P _ (fun s e h => h.emit e) _ ?_ s
        (liveInv_init _ _ s hrun hmgr rfl)
      intro t ht s' h'
      exact h'.task hx s' t _ (hwf t ht)
    · rw [heq]
      refine runTasks_all (BookInv (ctxOf c run P prev pe)) P _ (fun s e h => h.of_eq rfl rfl rfl) _ ?_ s
        (bookInv_init _ _ s hrun hmgr rfl hab hx.disj (fun i hi => ((pf6 i).mp hi).1))
      intro t _ s' h'
      exact h'.task hx s' t _

/-! ## re-running an apply: nothing is written when nothing changed -/

/-- `ClusterClient.Merge` writes nothing when the stored inventory has the members of the apply set (whatever read fails) -/
theorem mergeInv_noop (s : St) (ids l : List Id) (hinv : s.cl.inv = some l) (heq : IdSet.equal ids l = true)
    (hsp : s.run.opts.statusAll = false) : (mergeInv s ids).1.cl = s.cl ∧ (mergeInv s ids).1.muts = s.muts := by
  unfold mergeInv
  simp only []
  rw [invRead_snd]
  have c1 : s.invRead.1.cl = s.cl := by simp
  have m1 : s.invRead.1.muts = s.muts := by simp
  have r1 : s.invRead.1.run = s.run := by simp
  by_cases hf1 : s.invReads ∈ s.run.failInvRead
  · simp only [hf1, if_true]; exact ⟨c1, m1⟩
  · simp only [hf1, if_false, hinv]
    generalize s.invRead.1 = t1 at *
    rw [invRead_snd]
    have c2 : t1.invRead.1.cl = t1.cl := by simp
    have m2 : t1.invRead.1.muts = t1.muts := by simp
    have r2 : t1.invRead.1.run = t1.run := by simp
    by_cases hf2 : t1.invReads ∈ t1.run.failInvRead
    · simp only [hf2, if_true]; exact ⟨c2.trans c1, m2.trans m1⟩
    · simp only [hf2, if_false, c1, hinv, Option.getD_some]
      generalize t1.invRead.1 = t2 at *
      split
      · exact ⟨c2.trans c1, m2.trans m1⟩
      · have : (IdSet.equal ids l && !t2.run.opts.statusAll) = true := by rw [heq, r2, r1, hsp]; rfl
        simp only [this, if_true]
        exact ⟨c2.trans c1, m2.trans m1⟩

/-- `ClusterClient.Replace` writes nothing when the stored inventory has the members of the computed one -/
theorem replaceInv_noop (s : St) (objs l : List Id) (hinv : s.cl.inv = some l) (heq : IdSet.equal objs l = true)
    (hsp : s.run.opts.statusAll = false) : (replaceInv s objs).1.cl = s.cl ∧ (replaceInv s objs).1.muts = s.muts := by
  unfold replaceInv
  split
  · exact ⟨rfl, rfl⟩
  · simp only []
    rw [invRead_snd]
    have c1 : s.invRead.1.cl = s.cl := by simp
    have m1 : s.invRead.1.muts = s.muts := by simp
    have r1 : s.invRead.1.run = s.run := by simp
    by_cases hf1 : s.invReads ∈ s.run.failInvRead
    · simp only [hf1, if_true]; exact ⟨c1, m1⟩
    · simp only [hf1, if_false]
      generalize s.invRead.1 = t1 at *
      rw [invRead_snd]
      have c2 : t1.invRead.1.cl = t1.cl := by simp
      have m2 : t1.invRead.1.muts = t1.muts := by simp
      have r2 : t1.invRead.1.run = t1.run := by simp
      by_cases hf2 : t1.invReads ∈ t1.run.failInvRead
      · simp only [hf2, if_true]; exact ⟨c2.trans c1, m2.trans m1⟩
      · simp only [hf2, if_false, c1, hinv, Option.getD_some]
        generalize t1.invRead.1 = t2 at *
        split
        · exact ⟨c2.trans c1, m2.trans m1⟩
        · have : (IdSet.equal objs l && !t2.run.opts.statusAll) = true := by rw [heq, r2, r1, hsp]; rfl
          simp only [this, if_true]
          exact ⟨c2.trans c1, m2.trans m1⟩

open CliUtils.ProvL in
/-- `ApplyTask.Start` for one object only sends a patch of that object — or a create, if the store holds no object of that name -/
theorem applyOne_muts (group : String) (s : St) (id : Id) :
    Adds (fun m => m.id = id ∧ (m.verb = "patch" ∨ (m.verb = "create" ∧ s.cl.find? id = none))) s (applyOne group s id) := by
  unfold applyOne
  cases hm : manifestOf s id with
  | none => exact Adds.refl _ s
  | some m =>
    have hid := CliUtils.OrderL.manifestOf_id s id m hm
    subst hid
    simp only []
    cases hd : applyDecision s m with
    | fail r => exact Adds.of_eq rfl
    | skip r => exact Adds.of_eq rfl
    | go frm =>
      have hreq : ∀ (verb : String) (dry : Bool) (pre prop : String) (eff : Cluster → Cluster × String),
          (verb = "patch" ∨ (verb = "create" ∧ s.cl.find? m.id = none)) →
          Adds (fun mr => mr.id = m.id ∧ (mr.verb = "patch" ∨ (mr.verb = "create" ∧ s.cl.find? m.id = none))) s
            (s.mutReq verb m.id dry pre prop eff).1 := by
        intro verb dry pre prop eff hv
        refine (Adds.refl _ s).mutReq verb m.id dry pre prop eff ?_
        intro mr hmv hmid
        exact ⟨hmid, by rw [hmv]; exact hv⟩
      simp only [kubectlApply]
      split
      · unfold ssaApply
        simp only []
        split
        · exact (hreq _ _ _ _ _ (Or.inl rfl)).post rfl
        · split
          · split
            · exact (hreq _ _ _ _ _ (Or.inl rfl)).post rfl
            · split <;> exact (hreq _ _ _ _ _ (Or.inl rfl)).post rfl
          · exact (hreq _ _ _ _ _ (Or.inl rfl)).post rfl
      · unfold csaApply
        simp only []
        cases hg : s.get m.id with
        | none => exact Adds.of_eq rfl
        | some o =>
          have hfind := get_find s m.id o hg
          cases o with
          | none =>
            simp only []
            split
            · exact Adds.of_eq rfl
            · split
              · exact (hreq _ _ _ _ _ (Or.inr ⟨rfl, hfind⟩)).post rfl
              · split <;> exact (hreq _ _ _ _ _ (Or.inr ⟨rfl, hfind⟩)).post rfl
          | some old =>
            simp only []
            split
            · exact Adds.of_eq rfl
            · split
              · exact (hreq _ _ _ _ _ (Or.inl rfl)).post rfl
              · exact (hreq _ _ _ _ _ (Or.inl rfl)).post rfl

theorem nsCreateEffect_keepsInv (run : Run) : KeepsInv (nsCreateEffect run) := by
  intro c
  unfold nsCreateEffect
  split
  · rfl
  · split
    · simp only []; rw [put_inv]; rfl
    · rfl

/-- every id of the apply set has an apply record, which is pending only if the id is still to be applied -/
def AllApplied (x : Ctx) (s : St) (RA _RP _W : List Id) : Prop :=
  s.run = x.run ∧ ∀ i ∈ x.A, ∃ r, s.mgr.find? i = some r ∧ r.strategy = .apply ∧ (r.actuation = .pending → i ∈ RA)

theorem allApplied_planInv {x : Ctx} (hx : CxOK x) (ns : List String) : PlanInv x ns (AllApplied x) := by
  refine ⟨fun s e RA RP W h => h, ?_, ?_, ?_, ?_, ?_⟩
  · intro s RA RP _ h _
    obtain ⟨a, b, _⟩ := runInvAdd_book s x.A
    exact ⟨a.trans h.1, by rw [b]; exact h.2⟩
  · intro g l s RA RP hl hnd h
    clear hnd
    induction l generalizing s with
    | nil => exact h
    | cons i is ih =>
      simp only [List.foldl_cons]
      apply ih _ (fun j hj => hl j (by simp [hj]))
      obtain ⟨f1, _, _, _, _, hcase⟩ := applyOne_fx g s i (by rw [h.1]; exact hx.dry)
      have hadd : ∀ a uid gen, a ≠ Actuation.pending → (applyOne g s i).mgr = s.mgr.add i .apply a uid gen →
          AllApplied x (applyOne g s i) (is ++ RA) RP [] := by
        intro a uid gen ha hm
        refine ⟨f1.trans h.1, ?_⟩
        intro j hj
        rw [hm]
        by_cases hji : j = i
        · subst hji
          exact ⟨_, find_add_same _ _ _ _ _ _, rfl, fun hp => absurd hp ha⟩
        · rw [find_add_other _ _ _ _ _ _ _ hji]
          obtain ⟨r, hr, hs, hp⟩ := h.2 j hj
          refine ⟨r, hr, hs, fun hpe => ?_⟩
          have := hp hpe
          simp only [List.cons_append, List.mem_cons] at this
          rcases this with this | this
          · exact absurd this hji
          · exact this
      rcases hcase with ⟨hn, _, _⟩ | ⟨a, _, ha, hm, _⟩ | ⟨uid, gen, o, hm, _, _⟩
      · obtain ⟨m, hm, hmid⟩ := (hl i (by simp)).2
        obtain ⟨m', hm', _⟩ := CliUtils.GrammarL.manifestOf_some s i ⟨m, by rw [h.1]; exact hm, hmid⟩
        rw [hm'] at hn; cases hn
      · exact hadd _ _ _ ha hm
      · exact hadd _ _ _ (by simp) hm
  · intro g l s RA RP _ h _ _ _
    obtain ⟨hf, _⟩ := runWait_static g s l .allCurrent
    refine ⟨(OrderL.runWait_quiet g s l .allCurrent).run.trans h.1, ?_⟩
    intro i hi
    obtain ⟨r, hr, hs, hp⟩ := h.2 i hi
    obtain ⟨r', hr', hst⟩ := hf i r hr
    obtain ⟨_, e2, e3, _⟩ := static_fields hst
    exact ⟨r', hr', by rw [e2]; exact hs, by rw [e3]; exact hp⟩
  · intro g l s RA RP _ h
    have hsub := lives_sub x.P l
    generalize l.filterMap (fun i => x.P.find? (fun o => o.id = i)) = lives at hsub
    generalize s.mgr.appliedUIDs = uids
    have h' : AllApplied x s RA RP [] := ⟨h.1, fun i hi => h.2 i hi⟩
    suffices hh : AllApplied x (lives.foldl (pruneOne g uids ns) s) RA RP [] from ⟨hh.1, hh.2⟩
    clear h
    induction lives generalizing s with
    | nil => exact h'
    | cons o os ih =>
      simp only [List.foldl_cons]
      apply ih _ (fun o' ho' => hsub o' (by simp [ho']))
      obtain ⟨f1, _, _, _, _, _, _, a, uid, hm, _, _⟩ := pruneOne_fx g uids ns s o (by rw [h'.1]; exact hx.dry)
      refine ⟨f1.trans h'.1, ?_⟩
      intro j hj
      rw [hm, find_add_other _ _ _ _ _ _ _ (fun e => hx.disj j hj o (hsub o (by simp)) e.symm)]
      exact h'.2 j hj
  · intro g l s RA RP _ h _ _ _
    obtain ⟨hf, _⟩ := runWait_static g s l .allNotFound
    refine ⟨(OrderL.runWait_quiet g s l .allNotFound).run.trans h.1, ?_⟩
    intro i hi
    obtain ⟨r, hr, hs, hp⟩ := h.2 i hi
    obtain ⟨r', hr', hst⟩ := hf i r hr
    obtain ⟨_, e2, e3, _⟩ := static_fields hst
    exact ⟨r', hr', by rw [e2]; exact hs, by rw [e3]; exact hp⟩

/-- the state of a re-run that has nothing to prune: the stored inventory is still `l`, every object of the apply set is still
stored, nothing was abandoned, and no request so far is a delete or a create other than the bootstrap create of the inventory namespace -/
structure Rerun (x : Ctx) (l : List Id) (s : St) : Prop where
  run : s.run = x.run
  inv : s.cl.inv = some l
  ex : ∀ i ∈ x.A, ∃ o, s.cl.find? i = some o
  ab : s.abandoned = []
  recA : ∀ r ∈ s.mgr, r.strategy = .apply → r.id ∈ x.A
  muts : ∀ m ∈ s.muts, m.verb ≠ "delete" ∧ (m.verb = "create" → m.id = nsInv)

theorem Rerun.of_eq {x : Ctx} {l : List Id} {s s' : St} (h : Rerun x l s) (hr : s'.run = s.run) (hcl : s'.cl = s.cl)
    (hab : s'.abandoned = s.abandoned) (hm : s'.mgr = s.mgr) (hmu : s'.muts = s.muts) : Rerun x l s' :=
  ⟨hr.trans h.run, by rw [hcl]; exact h.inv, by rw [hcl]; exact h.ex, by rw [hab]; exact h.ab, by rw [hm]; exact h.recA,
   by rw [hmu]; exact h.muts⟩

theorem Rerun.mergeInv {x : Ctx} {l : List Id} {s : St} (h : Rerun x l s) (heq : IdSet.equal x.A l = true)
    (hsa : x.run.opts.statusAll = false) : Rerun x l (Sys.mergeInv s x.A).1 := by
  obtain ⟨a, b⟩ := mergeInv_noop s x.A l h.inv heq (by rw [h.run]; exact hsa)
  have f := mergeInv_objsFrame (ObjsFrame.refl s) x.A
  exact h.of_eq f.run a f.ab f.mgr b

theorem rerun_planInvU {x : Ctx} (hx : CxOK x) (l : List Id) (hP : x.P = []) (heq : IdSet.equal x.A l = true)
    (hsa : x.run.opts.statusAll = false) (ns : List String) : PlanInvU x ns (Rerun x l) := by
  refine ⟨fun s e h => h.of_eq rfl rfl rfl rfl rfl, ?_, ?_, ?_, ?_, ?_⟩
  · -- the inventory-add task
    intro s _ h
    unfold runInvAdd
    split
    · obtain ⟨n1, n2, _, n4, n5⟩ := nsCreate_step s
      have hfr := mutReq_frame s "create" nsInv false "" "" (nsCreateEffect s.run)
      have hsp := mutReq_spec s "create" nsInv false "" "" (nsCreateEffect s.run)
      simp only [] at n1 n2 n4 n5 hsp ⊢
      have h1 : Rerun x l (s.mutReq "create" nsInv false "" "" (nsCreateEffect s.run)).1 := by
        refine ⟨n2.trans h.run, ?_, ?_, hfr.2.2.1.trans h.ab, by rw [n1]; exact h.recA, ?_⟩
        · rw [mutReq_keeps_inv s _ _ _ _ _ _ (nsCreateEffect_keepsInv s.run)]; exact h.inv
        · intro i hi
          obtain ⟨o, ho⟩ := h.ex i hi
          by_cases hin : i = nsInv
          · subst hin; exact ⟨o, n5 o ho⟩
          · exact ⟨o, by rw [n4 i hin]; exact ho⟩
        · obtain ⟨⟨m, hm, hv, hid, _⟩, _⟩ := hsp
          intro m' hm'
          rw [hm] at hm'
          rcases List.mem_cons.mp hm' with e | e
          · subst e
            exact ⟨by rw [hv]; decide, fun _ => hid⟩
          · exact h.muts m' e
      split
      · exact h1
      · exact h1.mergeInv heq hsa
    · exact h.mergeInv heq hsa
  · -- an apply task
    intro g l' s hl h
    induction l' generalizing s with
    | nil => exact h
    | cons i is ih =>
      simp only [List.foldl_cons]
      apply ih _ (fun j hj => hl j (by simp [hj]))
      have hiA := (hl i (by simp)).1
      obtain ⟨f1, _, f3, _, hoth, hcase⟩ := applyOne_fx g s i (by rw [h.run]; exact hx.dry)
      refine ⟨f1.trans h.run, by rw [applyOne_keeps_inv]; exact h.inv, ?_, f3.trans h.ab, ?_, ?_⟩
      · intro j hj
        by_cases hji : j = i
        · subst hji
          rcases hcase with ⟨_, _, hcl⟩ | ⟨_, _, _, _, hcl⟩ | ⟨_, _, o, _, ho, _⟩
          · rw [hcl]; exact h.ex j hj
          · rw [hcl]; exact h.ex j hj
          · exact ⟨o, ho⟩
        · rw [hoth j hji]; exact h.ex j hj
      · intro r hr hs
        rcases hcase with ⟨_, hm, _⟩ | ⟨_, _, _, hm, _⟩ | ⟨_, _, _, hm, _, _⟩
        · rw [hm] at hr; exact h.recA r hr hs
        · rw [hm] at hr
          rcases mem_set _ _ _ hr with hr | hr
          · subst hr; exact hiA
          · exact h.recA r hr hs
        · rw [hm] at hr
          rcases mem_set _ _ _ hr with hr | hr
          · subst hr; exact hiA
          · exact h.recA r hr hs
      · intro m hm
        rcases applyOne_muts g s i m hm with h0 | ⟨_, hv⟩
        · exact h.muts m h0
        · obtain ⟨o, ho⟩ := h.ex i hiA
          rcases hv with hv | ⟨_, hn⟩
          · rw [hv]; exact ⟨by decide, fun e => absurd e (by decide)⟩
          · rw [ho] at hn; cases hn
  · -- a wait for applied objects: no environment action
    intro g l' s _ h
    obtain ⟨hcl, hr, ha, _⟩ := runWait_triple (fun _ cl _ => cl = s.cl) g s l' .allCurrent rfl
      (fun w cl d hdm _ _ hI => by
        obtain ⟨_, hrem, _⟩ := chain_facts s.run .allCurrent l' d hdm
        by_cases he : d.envRemove = true
        · exact absurd (hrem he) (by simp)
        · simp only [he]; exact hI)
      (fun _ _ _ _ hI => hI)
    obtain ⟨_, hms⟩ := runWait_static g s l' .allCurrent
    refine ⟨hr.trans h.run, by rw [hcl]; exact h.inv, by rw [hcl]; exact h.ex, ha.trans h.ab, ?_,
      by rw [(OrderL.runWait_quiet g s l' .allCurrent).muts]; exact h.muts⟩
    intro r' hr' hs
    obtain ⟨r, hr0, hst⟩ := hms r' hr'
    obtain ⟨e1, e2, _⟩ := static_fields hst
    rw [e1]; exact h.recA r hr0 (by rw [← e2]; exact hs)
  · -- a prune task: nothing to prune
    intro g l' s _ h
    have hnil : l'.filterMap (fun i => x.P.find? (fun o => o.id = i)) = [] := by
      rw [hP]
      induction l' with
      | nil => rfl
      | cons a as ih => simp
    rw [hnil]
    exact h
  · -- a delete wait: nothing to wait for
    intro g l' s hl h
    have hnil : l' = [] := by
      apply List.eq_nil_iff_forall_not_mem.mpr
      intro i hi
      obtain ⟨o, ho, _⟩ := hl i hi
      rw [hP] at ho; cases ho
    subst hnil
    obtain ⟨hcl, hr, ha, _⟩ := runWait_triple (fun _ cl _ => cl = s.cl) g s [] .allNotFound rfl
      (fun w cl d hdm _ _ _ => by
        obtain ⟨c, hc, _⟩ := hdm
        simp at hc)
      (fun _ _ _ _ hI => hI)
    obtain ⟨_, hms⟩ := runWait_static g s [] .allNotFound
    refine ⟨hr.trans h.run, by rw [hcl]; exact h.inv, by rw [hcl]; exact h.ex, ha.trans h.ab, ?_,
      by rw [(OrderL.runWait_quiet g s [] .allNotFound).muts]; exact h.muts⟩
    intro r' hr' hs
    obtain ⟨r, hr0, hst⟩ := hms r' hr'
    obtain ⟨e1, e2, _⟩ := static_fields hst
    rw [e1]; exact h.recA r hr0 (by rw [← e2]; exact hs)

/-- the final inventory task of a re-run in which every object of the apply set has been processed: the computed inventory has the
members of the stored one, nothing is written -/
theorem Rerun.invSet {x : Ctx} {l : List Id} {s : St} (h : Rerun x l s) (ha : AllApplied x s [] [] []) (prev : List Id) (pe : Bool)
    (hpv : pe = false → prev = l) (hdes : x.run.destroy = false) (heq : IdSet.equal x.A l = true)
    (hsa : x.run.opts.statusAll = false) : Rerun x l (runInvSet s prev pe).1 := by
  have hmemA : ∀ i, i ∈ x.A ↔ i ∈ l := (equal_iff_same_members _ _).mp heq
  unfold runInvSet
  split
  · exact h
  · rename_i hpe
    have hpe' : pe = false := by simpa using hpe
    have hb : (s.run.destroy && destroySuccessful s.mgr prev s.abandoned s.invalid) = false := by rw [h.run, hdes]; rfl
    simp only [hb, Bool.false_eq_true, if_false]
    have hprev := hpv hpe'
    subst hprev
    have hequal : IdSet.equal (finalInventory s.mgr prev s.abandoned s.invalid) prev = true := by
      rw [equal_iff_same_members]
      intro i
      constructor
      · intro hi
        rcases final_inventory_sub _ _ _ _ i hi with h1 | h1
        · unfold Mgr.withActuation at h1
          obtain ⟨r, hr, hrid⟩ := List.mem_map.mp h1
          obtain ⟨hm, hc⟩ := List.mem_filter.mp hr
          simp only [decide_eq_true_eq] at hc
          rw [← hrid]
          exact (hmemA _).mp (h.recA r hm hc.1)
        · exact h1
      · intro hi
        have hiA := (hmemA i).mpr hi
        obtain ⟨r, hr, hs, hp⟩ := ha.2 i hiA
        have hnab : i ∉ s.abandoned := by rw [h.ab]; intro hh; cases hh
        have hact := find_withActuation _ _ _ hr
        rw [hs] at hact
        cases hac : r.actuation with
        | pending => exact absurd (hp hac) (by simp)
        | succeeded => rw [hac] at hact; exact keeps_applied _ _ _ _ _ hact hnab
        | failed => rw [hac] at hact; exact keeps_retained _ _ _ _ _ hi (Or.inl hact) hnab
        | skipped => rw [hac] at hact; exact keeps_retained _ _ _ _ _ hi (Or.inr (Or.inl hact)) hnab
    obtain ⟨a, b⟩ := replaceInv_noop s _ prev h.inv hequal (by rw [h.run]; exact hsa)
    have f := CliUtils.HistoryL.runInvSet_objsFrame s prev false
    have hrw : runInvSet s prev false = replaceInv s (finalInventory s.mgr prev s.abandoned s.invalid) := by
      unfold runInvSet
      simp [hb]
    rw [hrw] at f
    exact h.of_eq f.run a f.ab f.mgr b

open CliUtils.Props.C02 in
/-- **a re-run over a store whose inventory lists exactly the valid apply ids, all of them stored, is quiet**: it sends no delete and
no create request other than the bootstrap create of the inventory namespace, and leaves the stored inventory as it is — at every
exit of the run, whatever fails in it -/
theorem rerun_quiet (c' : Cluster) (run2 : Run) (l : List Id) (hd : run2.opts.dry = .none) (hdes : run2.destroy = false)
    (henv : run2.envDel = []) (hsa : run2.opts.statusAll = false) (hinv : c'.inv = some l)
    (hA : ∀ plan P, runPlanObjs c' run2 = some (plan, P) → ∀ i, i ∈ plan.applyIds ↔ i ∈ l)
    (hlive : ∀ i ∈ l, ∃ o, c'.find? i = some o) :
    (∀ m ∈ (runOne c' run2).muts, m.verb ≠ "delete" ∧ (m.verb = "create" → m.id = nsInv)) ∧ (runOne c' run2).cl.inv = some l := by
  have hstart : startStore c' run2 = c' := by unfold startStore; rw [henv]; rfl
  rcases runOne_start c' run2 with ⟨s, k, he, _, hm, hcl, _⟩ |
    ⟨P, prev, pe, s, hP1, _, hpv, hcl, hrun, hmgr, hab, _, hmuts, _, _, heq, hpl⟩
  · rw [he]
    refine ⟨?_, ?_⟩
    · intro m hm'
      rw [emit_muts, hm] at hm'; cases hm'
    · rw [emit_cl, hcl, hstart]; exact hinv
  · obtain ⟨layers, pf1, pf2, pf3, _, pf5, pf6⟩ := plan_facts run2 (applySet run2) P prev pe
    have hA' := hA _ P hpl
    have hx := ctxOf_ok c' run2 P prev pe hd (fun l0 hl0 => (hP1 l0 hl0).2.2)
    generalize hxdef : ctxOf c' run2 P prev pe = x at hx
    have hxr : x.run = run2 := by rw [← hxdef]; rfl
    have hxA : x.A = (buildPlan run2 (applySet run2) P prev pe).applyIds := by rw [← hxdef]; rfl
    have hxP' : x.P = P := by rw [← hxdef]; rfl
    generalize hplan : buildPlan run2 (applySet run2) P prev pe = plan at *
    have hPnil : P = [] := by
      apply List.eq_nil_iff_forall_not_mem.mpr
      intro l0 hl0
      obtain ⟨_, h2, h3⟩ := hP1 l0 hl0
      rw [hinv] at h2
      obtain ⟨⟨m, hm, hmid⟩, _⟩ := (pf5 l0.id).mp ((hA' l0.id).mpr h2)
      exact h3 (List.mem_map.mpr ⟨m, hm, hmid⟩)
    have hxP : x.P = [] := hxP'.trans hPnil
    have hequal : IdSet.equal x.A l = true := by
      rw [equal_iff_same_members, hxA]; exact hA'
    have hpinil : plan.pruneIds = [] := by
      apply List.eq_nil_iff_forall_not_mem.mpr
      intro i hi
      obtain ⟨⟨o, ho, _⟩, _⟩ := (pf6 i).mp hi
      rw [hPnil] at ho; cases ho
    have hscl : s.cl = c' := hcl.trans hstart
    obtain ⟨_, hLAmem⟩ := hydrate_flatten Ordering.less plan.applyIds layers pf2
    -- the two invariants when the first task starts
    have hN : AllApplied x s (planRA x.A layers) (planRP x.run plan.pruneIds layers) [] := by
      refine ⟨hrun.trans hxr.symm, ?_⟩
      intro i hi
      rw [hxA] at hi
      rw [hmgr, prepMgr_find, hPnil, hpinil]
      simp only [List.map_nil, List.not_mem_nil, and_false, if_false, hi, if_true]
      refine ⟨_, rfl, rfl, fun _ => ?_⟩
      unfold planRA
      rw [hxA]
      exact (hLAmem i).mpr ⟨pf3 i hi, hi⟩
    have hR : Rerun x l s := by
      refine ⟨hrun.trans hxr.symm, by rw [hscl]; exact hinv, ?_, hab, ?_, by rw [hmuts]; intro m hm; cases hm⟩
      · intro i hi
        rw [hxA] at hi
        rw [hscl]
        exact hlive i ((hA' i).mp hi)
      · rw [hmgr]
        intro r hr hs
        rcases prepMgr_mem _ _ _ r hr with ⟨i, hi, rfl⟩ | ⟨_, _, rfl⟩ | ⟨_, _, rfl⟩
        · rw [hxA]; exact hi
        · simp at hs
        · simp at hs
    generalize localNamespaces ((applySet run2).map (·.id)) = ns at heq
    rw [heq, pf1, ← hxA, ← hxr, ← hxP']
    have hxdes : x.run.destroy = false := by rw [hxr]; exact hdes
    have hxsa : x.run.opts.statusAll = false := by rw [hxr]; exact hsa
    have hU := rerun_planInvU hx l hxP hequal hxsa ns
    refine plan_runs (fun final => (∀ m ∈ final.muts, m.verb ≠ "delete" ∧ (m.verb = "create" → m.id = nsInv)) ∧ final.cl.inv = some l)
      (Rerun x l) (fun s k h => ⟨h.muts, h.inv⟩) (fun s e h => hU.emit s e h)
      (allApplied_planInv hx _) hU (by rw [hxr]; exact hd) _ layers prev pe s pf2 ?_ ?_ ?_ hN hR ?_
    · intro i hi
      rw [hxA] at hi
      obtain ⟨⟨m, hm, hmid⟩, _⟩ := (pf5 i).mp hi
      refine ⟨m, ?_, hmid⟩
      rw [hxr]
      unfold applySet at hm
      simpa [hdes] using hm
    · intro i hi
      rw [hpinil] at hi; cases hi
    · intro hin
      obtain ⟨o, ho⟩ := hR.ex nsInv hin
      obtain ⟨h1, h2⟩ := find_some_mem _ _ _ ho
      exact ⟨o, h1, h2⟩
    · intro s' hN' hR'
      simp only [hxdes, Bool.false_eq_true, if_false]
      generalize hact : (⟨"inventory-set-0", .invSet prev pe⟩ : Task).action s'.run.destroy = act
      have hR1 : Rerun x l (s'.emit (.group "inventory-set-0" act "Started")) := hU.emit _ _ hR'
      have hN1 : AllApplied x (s'.emit (.group "inventory-set-0" act "Started")) [] [] [] := hN'
      have hR2 := hR1.invSet hN1 prev pe (fun hpe => by rw [hpv hpe, hinv]; rfl) hxdes hequal hxsa
      refine runTasks_cons_Q'
        (fun final => (∀ m ∈ final.muts, m.verb ≠ "delete" ∧ (m.verb = "create" → m.id = nsInv)) ∧ final.cl.inv = some l)
        (Rerun x l) (fun s k h => ⟨h.muts, h.inv⟩) (fun s e h => hU.emit s e h) x.P ns s'
        ⟨"inventory-set-0", .invSet prev pe⟩ [] act (runInvSet (s'.emit (.group "inventory-set-0" act "Started")) prev pe) hact rfl hR2 ?_
      intro _ _ _
      have := hU.emit _ (.group "inventory-set-0" act "Finished") hR2
      exact ⟨this.muts, this.inv⟩

/-! ## one record per id, at every exit of a run -/

theorem oneRec_task (s : St) (t : Task) (P : List Live) (ns : List String) (hd : s.run.opts.dry = .none)
    (h : OneRecordPerId s.mgr) : OneRecordPerId (runTask s t P ns).1.mgr ∧ (runTask s t P ns).1.run = s.run := by
  unfold runTask
  cases hk : t.kind with
  | invAdd ids =>
    obtain ⟨a, b, _⟩ := runInvAdd_book s ids
    exact ⟨by rw [b]; exact h, a⟩
  | apply ids =>
    simp only []
    generalize t.name = g
    clear hk
    induction ids generalizing s with
    | nil => exact ⟨h, rfl⟩
    | cons i is ih =>
      simp only [List.foldl_cons]
      obtain ⟨f1, _, _, _, _, hcase⟩ := applyOne_fx g s i hd
      have h1 : OneRecordPerId (applyOne g s i).mgr := by
        rcases hcase with ⟨_, hm, _⟩ | ⟨_, _, _, hm, _⟩ | ⟨_, _, _, hm, _, _⟩ <;> rw [hm]
        · exact h
        · exact oneRec_add _ _ _ _ _ _ h
        · exact oneRec_add _ _ _ _ _ _ h
      obtain ⟨a, b⟩ := ih (applyOne g s i) (by rw [f1]; exact hd) h1
      exact ⟨a, b.trans f1⟩
  | prune ids =>
    simp only []
    generalize ids.filterMap (fun i => P.find? (fun o => o.id = i)) = lives
    generalize s.mgr.appliedUIDs = uids
    generalize t.name = g
    clear hk
    induction lives generalizing s with
    | nil => exact ⟨h, rfl⟩
    | cons l ls ih =>
      simp only [List.foldl_cons]
      obtain ⟨f1, _, _, _, _, _, _, a, uid, hm, _, _⟩ := pruneOne_fx g uids ns s l hd
      obtain ⟨a', b'⟩ := ih (pruneOne g uids ns s l) (by rw [f1]; exact hd) (by rw [hm]; exact oneRec_add _ _ _ _ _ _ h)
      exact ⟨a', b'.trans f1⟩
  | wait ids cond =>
    obtain ⟨h1, h2, _⟩ := runWait_triple (fun m _ _ => OneRecordPerId m) t.name s ids cond
      (by rw [OrderL.wext_start]; exact oneRec_applyEvs _ _ h)
      (fun w cl d _ _ _ hI => by
        obtain ⟨l, _, hl⟩ := OrderL.wext_statusUpdate w d.id (obsOf (if d.envRemove = true then cl.remove d.id else cl) d)
        rw [hl]; exact oneRec_applyEvs _ _ hI)
      (fun w cl _ _ hI => by
        obtain ⟨l, _, hl⟩ := OrderL.wext_timeout w
        rw [hl]; exact oneRec_applyEvs _ _ hI)
    exact ⟨h1, h2⟩
  | invSet prev pe =>
    have f := CliUtils.HistoryL.runInvSet_objsFrame s prev pe
    exact ⟨by rw [f.mgr]; exact h, f.run⟩

/-- **one record per id**: outside dry-run, the actuation table of every run has at most one record per object at every exit -/
theorem run_oneRec (c : Cluster) (run : Run) (hd : run.opts.dry = .none) : OneRecordPerId (runOne c run).mgr := by
  rcases runOne_start c run with ⟨s, k, he, _, _, _, hno⟩ | ⟨P, prev, pe, s, _, _, _, _, hrun, hmgr, _, _, _, _, _, heq, _⟩
  · rw [he]; exact hno
  · rw [heq]
    generalize localNamespaces ((CliUtils.Props.C02.applySet run).map (·.id)) = ns
    generalize (buildPlan run (CliUtils.Props.C02.applySet run) P prev pe).tasks = ts
    have := runTasks_all (fun s => OneRecordPerId s.mgr ∧ s.run = run) P ns (fun _ _ h => h) ts
      (fun t _ s' h' => by
        obtain ⟨a, b⟩ := oneRec_task s' t P ns (by rw [h'.2]; exact hd) h'.1
        exact ⟨a, b.trans h'.2⟩)
      s ⟨by rw [hmgr]; exact oneRec_prepMgr _ _ _, hrun⟩
    exact this.1

end CliUtils.ConvergeL
