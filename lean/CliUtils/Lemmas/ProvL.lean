import CliUtils.Model.Sys
import CliUtils.Lemmas.SysL
import CliUtils.Lemmas.GrammarL
import CliUtils.Lemmas.OrderL
import CliUtils.Props.C02
import CliUtils.Props.C10
import CliUtils.Props.C11
/-
  Helpers for the run-level provenance theorem (`Props/C02R.lean`): where every mutating request of a run comes from.

  * vocabulary of the headline statements (in `namespace CliUtils.Props.C02`): `Origin`, `startSt`, `applySet`,
    `runPlanObjs` / `runPlan` (the plan a run builds, as a function of the cluster and the run),
  * `Adds Q s s'`: every request logged in `s'` was already logged in `s` or satisfies `Q` — carried through every step
    of the run model (`applyOne`, `pruneOne`, the inventory tasks, `runWait`, `runTask`, `runTasks`),
  * the tasks of `planTasks` / `buildPlan` only ask for requests classified by `Origin`,
  * what `getPruneObjs` returns (tracked, not in the apply set, existing),
  * `runOne_shape`: the case analysis of `runOne` shared by the provenance theorem and the cancellation corollary,
  * `runTasks_before_error`: requests are logged before the error event (uses `OrderL.Inv`).
-/

/-! ## vocabulary of the statements -/
namespace CliUtils.Props.C02
open CliUtils CliUtils.Sys

/-- where a mutating request of a run may come from, relative to the valid apply ids / valid prune ids of the run's plan:

* `inventory`: a create / update / delete of the inventory object (inventory-add task, final inventory task),
* `nsBootstrap`: the create of the inventory namespace that `InvAddTask` issues first — only if that namespace is itself a
  valid object of the apply set,
* `apply`: kubectl apply (create or patch) of a valid object of the apply set,
* `prune`: delete, or removal of the owning-inventory annotation (update), of a valid prune candidate.

(`run` is not used by the constructors; it is kept so that the classification reads "relative to this run".) -/
inductive Origin (run : Run) (applyIds pruneIds : List Id) (m : MutRec) : Prop
  | inventory : m.id = invObjId → Origin run applyIds pruneIds m
  | nsBootstrap : m.id = nsInv → m.verb = "create" → nsInv ∈ applyIds → Origin run applyIds pruneIds m
  | apply : (m.verb = "create" ∨ m.verb = "patch") → m.id ∈ applyIds → Origin run applyIds pruneIds m
  | prune : (m.verb = "delete" ∨ m.verb = "update") → m.id ∈ pruneIds → Origin run applyIds pruneIds m

/-- the state a run starts in: the cluster after the environment's own deletions (`run.envDel`), nothing logged -/
def startSt (c : Cluster) (run : Run) : St := { cl := run.envDel.foldl (fun c i => c.remove i) c, run := run }

/-- the apply set of a run: the manifests handed to the applier (a destroyer has none) -/
def applySet (run : Run) : List Manifest := if run.destroy then [] else run.objs

/-- the plan a run builds and the prune candidates it was built from — exactly the terms `runOne` computes.
`none`: the stored inventory (or one of the tracked objects) could not be read; the run then ends with an error event before
anything is planned. -/
def runPlanObjs (c : Cluster) (run : Run) : Option (Plan × List Live) :=
  let r1 := getPruneObjs (startSt c run) ((applySet run).map (·.id))
  match r1.2 with
  | none => none
  | some pruneObjs =>
    let r2 := r1.1.invRead
    let prev : List Id := match r2.2 with | some (some l) => l | _ => []
    some (buildPlan run (applySet run) pruneObjs prev r2.2.isNone, pruneObjs)

/-- the plan of a run -/
def runPlan (c : Cluster) (run : Run) : Option Plan := (runPlanObjs c run).map (·.1)

end CliUtils.Props.C02

namespace CliUtils.ProvL
open CliUtils CliUtils.Sys CliUtils.Props.C02 CliUtils.OrderL

/-! ## extensions of the request log -/

/-- every request logged in `s'` was already logged in `s`, or satisfies `Q` -/
def Adds (Q : MutRec → Prop) (s s' : St) : Prop := ∀ m ∈ s'.muts, m ∈ s.muts ∨ Q m

theorem Adds.of_eq {Q : MutRec → Prop} {s s' : St} (h : s'.muts = s.muts) : Adds Q s s' :=
  fun _ hm => Or.inl (h ▸ hm)

theorem Adds.refl (Q : MutRec → Prop) (s : St) : Adds Q s s := fun _ hm => Or.inl hm

theorem Adds.trans {Q : MutRec → Prop} {a b c : St} (h1 : Adds Q a b) (h2 : Adds Q b c) : Adds Q a c :=
  fun m hm => (h2 m hm).elim (h1 m) Or.inr

theorem Adds.mono {Q Q' : MutRec → Prop} {s s' : St} (h : Adds Q s s') (hq : ∀ m, Q m → Q' m) : Adds Q' s s' :=
  fun m hm => (h m hm).imp id (hq m)

/-- a step after which the log is the same -/
theorem Adds.post {Q : MutRec → Prop} {s s' s'' : St} (h : Adds Q s s') (e : s''.muts = s'.muts) : Adds Q s s'' :=
  h.trans (Adds.of_eq e)

theorem Adds.invRead {Q : MutRec → Prop} {s s' : St} (h : Adds Q s s') : Adds Q s s'.invRead.1 :=
  h.post (CliUtils.Props.C10.invRead_muts s')

/-- a mutating request whose verb and id are allowed by `Q` -/
theorem Adds.mutReq {Q : MutRec → Prop} {s s' : St} (h : Adds Q s s') (verb : String) (id : Id) (dry : Bool) (pre prop : String)
    (eff : Cluster → Cluster × String) (hq : ∀ m : MutRec, m.verb = verb → m.id = id → Q m) :
    Adds Q s (s'.mutReq verb id dry pre prop eff).1 := by
  have hs := mutReq_spec s' verb id dry pre prop eff
  simp only [] at hs
  obtain ⟨⟨m, hm, hv, hid, _⟩, _⟩ := hs
  intro m' hm'
  rw [hm] at hm'
  rcases List.mem_cons.mp hm' with h1 | h1
  · subst h1; exact Or.inr (hq m' hv hid)
  · exact h m' h1

theorem fold_adds {β : Type} (Q : MutRec → Prop) (f : St → β → St) (l : List β) (hf : ∀ s, ∀ b ∈ l, Adds Q s (f s b)) (s : St) :
    Adds Q s (l.foldl f s) := by
  induction l generalizing s with
  | nil => exact Adds.refl Q s
  | cons b bs ih =>
    exact (hf s b (by simp)).trans (ih (fun s b' hb' => hf s b' (by simp [hb'])) (f s b))

/-! ## apply and prune steps -/

/-- `ApplyTask.Start` for one object sends only creates / patches of that object -/
theorem applyOne_adds (group : String) (s : St) (id : Id) :
    Adds (fun m => (m.verb = "create" ∨ m.verb = "patch") ∧ m.id = id) s (applyOne group s id) := by
  unfold applyOne
  cases hm : manifestOf s id with
  | none => exact Adds.refl _ s
  | some m =>
    have hid := manifestOf_id s id m hm
    subst hid
    simp only []
    cases hd : applyDecision s m with
    | fail r => exact Adds.of_eq rfl
    | skip r => exact Adds.of_eq rfl
    | go frm =>
      have hreq : ∀ (verb : String) (dry : Bool) (pre prop : String) (eff : Cluster → Cluster × String),
          (verb = "create" ∨ verb = "patch") →
          Adds (fun mr => (mr.verb = "create" ∨ mr.verb = "patch") ∧ mr.id = m.id) s (s.mutReq verb m.id dry pre prop eff).1 := by
        intro verb dry pre prop eff hv
        refine (Adds.refl _ s).mutReq verb m.id dry pre prop eff ?_
        intro mr hmv hmid
        exact ⟨by rw [hmv]; exact hv, hmid⟩
      simp only [kubectlApply]
      split
      · unfold ssaApply
        simp only []
        split
        · exact (hreq _ _ _ _ _ (Or.inr rfl)).post rfl
        · split
          · split
            · exact (hreq _ _ _ _ _ (Or.inr rfl)).post rfl
            · split <;> exact (hreq _ _ _ _ _ (Or.inr rfl)).post rfl
          · exact (hreq _ _ _ _ _ (Or.inr rfl)).post rfl
      · unfold csaApply
        simp only []
        cases hg : s.get m.id with
        | none => exact Adds.of_eq rfl
        | some o =>
          cases o with
          | none =>
            simp only []
            split
            · exact Adds.of_eq rfl
            · split
              · exact (hreq _ _ _ _ _ (Or.inl rfl)).post rfl
              · split <;> exact (hreq _ _ _ _ _ (Or.inl rfl)).post rfl
          | some old =>
            simp only []
            split
            · exact Adds.of_eq rfl
            · split
              · exact (hreq _ _ _ _ _ (Or.inr rfl)).post rfl
              · exact (hreq _ _ _ _ _ (Or.inr rfl)).post rfl

/-- `Pruner.Prune` for one object sends only a delete or the annotation-removal update of that object (`delete_authorised`) -/
theorem pruneOne_adds (group : String) (uids localNs : List String) (s : St) (live : Live) :
    Adds (fun m => (m.verb = "delete" ∨ m.verb = "update") ∧ m.id = live.id) s (pruneOne group uids localNs s live) := by
  intro m hm
  rcases delete_authorised group uids localNs s live with h | ⟨m', h, hid, _, hv⟩
  · left; rwa [h] at hm
  · rw [h] at hm
    rcases List.mem_cons.mp hm with h1 | h1
    · subst h1
      right
      rcases hv with ⟨hv, _⟩ | ⟨hv, _⟩
      · exact ⟨Or.inl hv, hid⟩
      · exact ⟨Or.inr hv, hid⟩
    · exact Or.inl h1

/-! ## inventory tasks -/

theorem mergeInv_adds (s : St) (ids : List Id) : Adds (fun m => m.id = invObjId) s (mergeInv s ids).1 := by
  unfold mergeInv
  simp only []
  repeat' split
  all_goals first
    | exact (Adds.refl _ s).invRead
    | exact (Adds.refl _ s).invRead.invRead
    | exact (Adds.refl _ s).invRead.mutReq _ _ _ _ _ _ (fun _ _ h => h)
    | exact (Adds.refl _ s).invRead.invRead.mutReq _ _ _ _ _ _ (fun _ _ h => h)

/-- `InvAddTask`: requests for the inventory object, and — only if the inventory namespace is among the task's ids — the
bootstrap create of that namespace -/
theorem runInvAdd_adds (s : St) (ids : List Id) :
    Adds (fun m => m.id = invObjId ∨ (m.id = nsInv ∧ m.verb = "create" ∧ nsInv ∈ ids)) s (runInvAdd s ids).1 := by
  unfold runInvAdd
  split
  · rename_i hc
    have hns : nsInv ∈ ids := by
      simp only [Bool.and_eq_true, decide_eq_true_eq] at hc
      exact hc.1
    simp only []
    have hreq : Adds (fun m => m.id = invObjId ∨ (m.id = nsInv ∧ m.verb = "create" ∧ nsInv ∈ ids)) s
        (s.mutReq "create" nsInv false "" "" (nsCreateEffect s.run)).1 :=
      (Adds.refl _ s).mutReq _ _ _ _ _ _ (fun _ hv hid => Or.inr ⟨hid, hv, hns⟩)
    split
    · exact hreq
    · exact hreq.trans ((mergeInv_adds _ ids).mono (fun _ h => Or.inl h))
  · exact (mergeInv_adds s ids).mono (fun _ h => Or.inl h)

theorem runInvSet_adds (s : St) (prev : List Id) (pe : Bool) : Adds (fun m => m.id = invObjId) s (runInvSet s prev pe).1 := by
  unfold runInvSet
  split
  · exact Adds.refl _ s
  · split
    · unfold deleteInv
      simp only []
      repeat' split
      all_goals first
        | exact (Adds.refl _ s).invRead
        | exact (Adds.refl _ s).invRead.mutReq _ _ _ _ _ _ (fun _ _ h => h)
    · unfold replaceInv
      simp only []
      repeat' split
      all_goals first
        | exact Adds.refl _ s
        | exact (Adds.refl _ s).invRead
        | exact (Adds.refl _ s).invRead.invRead
        | exact (Adds.refl _ s).invRead.invRead.mutReq _ _ _ _ _ _ (fun _ _ h => h)

/-! ## tasks -/

/-- the requests a task may send -/
def TaskQ (t : Task) (m : MutRec) : Prop :=
  match t.kind with
  | .invAdd ids => m.id = invObjId ∨ (m.id = nsInv ∧ m.verb = "create" ∧ nsInv ∈ ids)
  | .apply ids => (m.verb = "create" ∨ m.verb = "patch") ∧ m.id ∈ ids
  | .prune ids => (m.verb = "delete" ∨ m.verb = "update") ∧ m.id ∈ ids
  | .wait _ _ => False
  | .invSet _ _ => m.id = invObjId

theorem lives_mem (pruneObjs : List Live) (ids : List Id) (o : Live)
    (h : o ∈ ids.filterMap (fun i => pruneObjs.find? (fun o => o.id = i))) : o.id ∈ ids := by
  obtain ⟨i, hi, hf⟩ := List.mem_filterMap.mp h
  have := List.find?_some hf
  simp only [decide_eq_true_eq] at this
  rw [this]
  exact hi

theorem runTask_adds (s : St) (t : Task) (pruneObjs : List Live) (localNs : List String) :
    Adds (TaskQ t) s (runTask s t pruneObjs localNs).1 := by
  unfold runTask TaskQ
  cases hk : t.kind with
  | invAdd ids => exact runInvAdd_adds s ids
  | apply ids =>
    refine fold_adds _ _ ids ?_ s
    intro s' i hi
    exact (applyOne_adds t.name s' i).mono (fun m h => ⟨h.1, by rw [h.2]; exact hi⟩)
  | prune ids =>
    refine fold_adds _ _ _ ?_ s
    intro s' o ho
    exact (pruneOne_adds t.name _ localNs s' o).mono (fun m h => ⟨h.1, by rw [h.2]; exact lives_mem pruneObjs ids o ho⟩)
  | wait ids c => exact Adds.of_eq (runWait_quiet t.name s ids c).muts
  | invSet prev pe => exact runInvSet_adds s prev pe

/-- the runner: if every task only asks for requests allowed by `Q`, the run only adds requests allowed by `Q` -/
theorem runTasks_adds (Q : MutRec → Prop) (pruneObjs : List Live) (localNs : List String) (ts : List Task)
    (hQ : ∀ t ∈ ts, ∀ m, TaskQ t m → Q m) (s : St) : Adds Q s (runTasks pruneObjs localNs s ts) := by
  induction ts generalizing s with
  | nil => simpa [runTasks] using Adds.refl Q s
  | cons t ts ih =>
    unfold runTasks
    simp only []
    have h2 : Adds Q s (runTask (s.emit (.group t.name (t.action s.run.destroy) "Started")) t pruneObjs localNs).1 :=
      (Adds.of_eq (s' := s.emit (.group t.name (t.action s.run.destroy) "Started")) rfl).trans
        ((runTask_adds _ t pruneObjs localNs).mono (hQ t (by simp)))
    generalize runTask (s.emit (.group t.name (t.action s.run.destroy) "Started")) t pruneObjs localNs = r at h2 ⊢
    have h3 : Adds Q s (r.1.emit (.group t.name (t.action s.run.destroy) "Finished")) := h2.post rfl
    split
    · exact h3.post rfl
    · split
      · exact h3.post rfl
      · split
        · exact h3.post rfl
        · exact h3.trans (ih (fun t' ht' => hQ t' (by simp [ht'])) _)

/-! ## the plan only asks for classified requests -/

theorem planTasks_taskQ (run : Run) (applyIds pruneIds : List Id) (layers : List (List Id)) (prev : List Id) (pe : Bool) :
    ∀ t ∈ planTasks run applyIds pruneIds layers prev pe, ∀ m, TaskQ t m → Origin run applyIds pruneIds m := by
  intro t ht m hq
  unfold planTasks at ht
  simp only [List.mem_append, List.mem_singleton] at ht
  unfold TaskQ at hq
  rcases ht with ((h | h) | h) | h
  · split at h
    · simp at h
    · simp at h
      subst h
      simp only [] at hq
      rcases hq with hq | ⟨h1, h2, h3⟩
      · exact .inventory hq
      · exact .nsBootstrap h1 h2 h3
  · split at h
    · simp at h
    · rcases CliUtils.GrammarL.layerTasks_mem true _ _ 0 0 t h with ⟨l, hl, hk⟩ | ⟨l, cond, hk⟩
      · simp only [if_true] at hk
        rw [hk] at hq
        simp only [] at hq
        have := CliUtils.Props.C11.mem_hydrate _ _ _ _ m.id hl hq.2
        exact .apply hq.1 (by simpa using this)
      · rw [hk] at hq
        exact hq.elim
  · split at h
    · rcases CliUtils.GrammarL.layerTasks_mem false _ _ 0 _ t h with ⟨l, hl, hk⟩ | ⟨l, cond, hk⟩
      · simp only [Bool.false_eq_true, if_false] at hk
        rw [hk] at hq
        simp only [] at hq
        obtain ⟨l0, h0, hx⟩ := CliUtils.Props.C11.mem_reverseSetList _ _ m.id hl hq.2
        have := CliUtils.Props.C11.mem_hydrate _ _ _ _ m.id h0 hx
        exact .prune hq.1 (by simpa using this)
      · rw [hk] at hq
        exact hq.elim
    · simp at h
  · subst h
    simp only [] at hq
    exact .inventory hq

theorem buildPlan_tasks (run : Run) (applyMs : List Manifest) (pruneObjs : List Live) (prev : List Id) (pe : Bool) :
    (buildPlan run applyMs pruneObjs prev pe).tasks =
      planTasks run (buildPlan run applyMs pruneObjs prev pe).applyIds (buildPlan run applyMs pruneObjs prev pe).pruneIds
        (Graph.sort (buildPlan run applyMs pruneObjs prev pe).graph).1 prev pe := rfl

/-- every task of the plan of `buildPlan` only asks for requests classified by `Origin` w.r.t. the plan's own id lists -/
theorem buildPlan_taskQ (run : Run) (applyMs : List Manifest) (pruneObjs : List Live) (prev : List Id) (pe : Bool) :
    ∀ t ∈ (buildPlan run applyMs pruneObjs prev pe).tasks, ∀ m, TaskQ t m →
      Origin run (buildPlan run applyMs pruneObjs prev pe).applyIds (buildPlan run applyMs pruneObjs prev pe).pruneIds m := by
  rw [buildPlan_tasks]
  exact planTasks_taskQ run _ _ _ prev pe

theorem buildPlan_tasks_ne_nil (run : Run) (applyMs : List Manifest) (pruneObjs : List Live) (prev : List Id) (pe : Bool) :
    (buildPlan run applyMs pruneObjs prev pe).tasks ≠ [] := by
  rw [buildPlan_tasks]
  unfold planTasks
  simp

/-! ## the id lists of the plan -/

theorem buildPlan_applyIds (run : Run) (applyMs : List Manifest) (pruneObjs : List Live) (prev : List Id) (pe : Bool) (id : Id)
    (h : id ∈ (buildPlan run applyMs pruneObjs prev pe).applyIds) :
    id ∈ applyMs.map (·.id) ∧ id ∉ (buildPlan run applyMs pruneObjs prev pe).invalid := by
  simp only [buildPlan, List.mem_map, List.mem_filter] at h
  obtain ⟨m, ⟨hm, hv⟩, rfl⟩ := h
  exact ⟨List.mem_map.mpr ⟨m, hm, rfl⟩, by simpa [buildPlan] using hv⟩

theorem buildPlan_pruneIds (run : Run) (applyMs : List Manifest) (pruneObjs : List Live) (prev : List Id) (pe : Bool) (id : Id)
    (h : id ∈ (buildPlan run applyMs pruneObjs prev pe).pruneIds) :
    (∃ o ∈ pruneObjs, o.id = id) ∧ id ∉ (buildPlan run applyMs pruneObjs prev pe).invalid := by
  simp only [buildPlan, List.mem_map, List.mem_filter] at h
  obtain ⟨o, ⟨ho, hv⟩, rfl⟩ := h
  exact ⟨⟨o, ho, rfl⟩, by simpa [buildPlan] using hv⟩

/-! ## what `getPruneObjs` returns -/

theorem getPruneObjs_fold (s : St) (ids : List Id) (acc : Option (List Live)) (res : List Live)
    (h : ids.foldl (fun (acc : Option (List Live)) i =>
        match acc with
        | none => none
        | some l =>
          if (scopeOf i.group i.kind).isNone then some l
          else match s.get i with
            | none => none
            | some none => some l
            | some (some o) => some (l ++ [o])) acc = some res) :
    ∃ l0, acc = some l0 ∧ ∀ o ∈ res, o ∈ l0 ∨ (o.id ∈ ids ∧ s.cl.find? o.id = some o) := by
  induction ids generalizing acc with
  | nil =>
    simp only [List.foldl_nil] at h
    exact ⟨res, h, fun o ho => Or.inl ho⟩
  | cons i is ih =>
    simp only [List.foldl_cons] at h
    obtain ⟨l1, h1, h2⟩ := ih _ h
    cases acc with
    | none => simp at h1
    | some l0 =>
      refine ⟨l0, rfl, ?_⟩
      simp only [] at h1
      split at h1
      · injection h1 with h1
        subst h1
        intro o ho
        rcases h2 o ho with h3 | h3
        · exact Or.inl h3
        · exact Or.inr ⟨List.mem_cons_of_mem _ h3.1, h3.2⟩
      · split at h1
        · cases h1
        · injection h1 with h1
          subst h1
          intro o ho
          rcases h2 o ho with h3 | h3
          · exact Or.inl h3
          · exact Or.inr ⟨List.mem_cons_of_mem _ h3.1, h3.2⟩
        · rename_i o' hget
          injection h1 with h1
          subst h1
          intro o ho
          rcases h2 o ho with h3 | h3
          · rcases List.mem_append.mp h3 with h4 | h4
            · exact Or.inl h4
            · simp only [List.mem_singleton] at h4
              subst h4
              have hf : s.cl.find? i = some o := by
                unfold St.get at hget
                split at hget
                · cases hget
                · injection hget
              have hid : o.id = i := by
                have := List.find?_some (show s.cl.objs.find? (fun x => x.id = i) = some o from hf)
                simpa using this
              exact Or.inr ⟨by simp [hid], by rw [hid]; exact hf⟩
          · exact Or.inr ⟨List.mem_cons_of_mem _ h3.1, h3.2⟩

/-- `GetPruneObjs`: every object returned is tracked by the stored inventory, not in the apply set, and is the object the
cluster holds under that id -/
theorem getPruneObjs_mem (s : St) (applyIds : List Id) (objs : List Live) (h : (getPruneObjs s applyIds).2 = some objs) :
    ∀ o ∈ objs, o.id ∈ s.cl.inv.getD [] ∧ o.id ∉ applyIds ∧ s.cl.find? o.id = some o := by
  unfold getPruneObjs at h
  simp only [] at h
  have hsnd := CliUtils.Props.C01.invRead_snd s
  cases hr : s.invRead.2 with
  | none => rw [hr] at h; simp at h
  | some inv =>
    rw [hr] at h
    simp only [] at h
    have hinv : inv = s.cl.inv := by
      rw [hr] at hsnd
      split at hsnd
      · cases hsnd
      · injection hsnd
    subst hinv
    obtain ⟨l0, h0, hall⟩ := getPruneObjs_fold s.invRead.1 _ _ objs h
    injection h0 with h0
    subst h0
    intro o ho
    rcases hall o ho with h1 | ⟨h1, h2⟩
    · cases h1
    · rw [CliUtils.Props.C19.mem_diff] at h1
      rw [CliUtils.Props.C10.invRead_cl] at h2
      exact ⟨h1.1, h1.2, h2⟩

theorem foldl_remove_inv (l : List Id) (c : Cluster) : (l.foldl (fun c i => c.remove i) c).inv = c.inv := by
  induction l generalizing c with
  | nil => rfl
  | cons i is ih => simp only [List.foldl_cons]; rw [ih]; rfl

theorem startSt_inv (c : Cluster) (run : Run) : (startSt c run).cl.inv = c.inv := foldl_remove_inv _ _

/-! ## before the tasks -/

theorem prepare_muts (s : St) (plan : Plan) (pruneObjs : List Live) : (prepare s plan pruneObjs).muts = s.muts := by
  have h := CliUtils.Props.C10.fold_validation_harmless plan.valErrors s
  simp only [prepare]
  exact h.2.2

theorem initialStatuses_muts (s : St) : (initialStatuses s).muts = s.muts := by
  unfold initialStatuses
  split
  · rfl
  · rename_i hdry
    clear hdry
    generalize s.run.initial = l
    induction l generalizing s with
    | nil => rfl
    | cons id ids ih =>
      simp only [List.foldl_cons]
      rw [ih]
      split
      · rfl
      · split <;> rfl

/-- the case analysis of `runOne`: either the run ends with an error event before any task (nothing logged), or it runs the
tasks of its plan from a state in which nothing is logged yet and the ordering invariant holds -/
theorem runOne_shape (c : Cluster) (run : Run) :
    (∃ (s : St) (k : String), runOne c run = s.emit (.error k) ∧ s.muts = []) ∨
    (∃ (plan : Plan) (pruneObjs : List Live) (s : St) (G : Graph.Adj Id) (E : List (Id × Id)), runPlanObjs c run = some (plan, pruneObjs) ∧ s.muts = [] ∧ Inv run G E s ∧
      runOne c run = runTasks pruneObjs (localNamespaces ((applySet run).map (·.id))) s plan.tasks) := by
  unfold runOne runPlanObjs startSt applySet
  simp only []
  generalize hs0 : ({ cl := run.envDel.foldl (fun c i => c.remove i) c, run := run } : St) = s0
  have hr0 : s0.run = run := by rw [← hs0]
  have hm0 : s0.muts = [] := by rw [← hs0]
  have hg0 : s0.mgr = [] := by rw [← hs0]
  generalize (if run.destroy then [] else run.objs) = applyMs
  have f1 := getPruneObjs_fst s0 (applyMs.map (·.id))
  generalize getPruneObjs s0 (applyMs.map (·.id)) = r1 at f1 ⊢
  have hr1 : r1.1.run = run := by rw [f1, invRead_run', hr0]
  have hm1 : r1.1.muts = [] := by rw [f1, OrderL.invRead_muts, hm0]
  have hg1 : r1.1.mgr = [] := by rw [f1, invRead_mgr, hg0]
  cases hp : r1.2 with
  | none =>
    simp only []
    exact Or.inl ⟨r1.1, "fault", rfl, hm1⟩
  | some pruneObjs =>
    simp only []
    have hr2 : r1.1.invRead.1.run = run := by rw [invRead_run', hr1]
    have hm2 : r1.1.invRead.1.muts = [] := by rw [OrderL.invRead_muts, hm1]
    have hg2 : r1.1.invRead.1.mgr = [] := by rw [invRead_mgr, hg1]
    generalize buildPlan run applyMs pruneObjs _ _ = plan
    split
    · exact Or.inl ⟨_, "other", rfl, hm2⟩
    · have h3 := initialStatuses_inv _ (prepare_inv r1.1.invRead.1 plan pruneObjs hm2 hg2)
      rw [hr2] at h3
      have hm3 : (initialStatuses (prepare r1.1.invRead.1 plan pruneObjs)).muts = [] := by
        rw [initialStatuses_muts, prepare_muts, hm2]
      split
      · exact Or.inl ⟨_, "canceled", rfl, hm3⟩
      · exact Or.inr ⟨plan, pruneObjs, _, _, _, rfl, hm3, h3, rfl⟩

/-! ## requests are logged before the error event -/

variable {R : Run} {G : Graph.Adj Id} {E : List (Id × Id)}

theorem emit_error_before {s : St} (hI : Inv R G E s) (k' : String) :
    ∀ k rest, (s.emit (.error k')).events = .error k :: rest → ∀ m ∈ (s.emit (.error k')).muts, m.evIdx ≤ rest.length := by
  intro k rest he m hm
  simp only [emit_events, List.cons.injEq] at he
  rw [← he.2]
  exact (hI.reqs m hm).1

/-- if the stream of the runner ends with an error event, every request was logged before that event was emitted -/
theorem runTasks_before_error (pruneObjs : List Live) (localNs : List String) (ts : List Task) (s : St) (hI : Inv R G E s)
    (hne : ts = [] → ∀ k rest, s.events ≠ .error k :: rest) :
    ∀ k rest, (runTasks pruneObjs localNs s ts).events = .error k :: rest →
      ∀ m ∈ (runTasks pruneObjs localNs s ts).muts, m.evIdx ≤ rest.length := by
  induction ts generalizing s with
  | nil =>
    intro k rest he
    simp only [runTasks] at he
    exact absurd he (hne rfl k rest)
  | cons t ts ih =>
    unfold runTasks
    simp only []
    have h1 : Inv R G E (s.emit (.group t.name (t.action s.run.destroy) "Started")) := hI.emit_neutral _ trivial
    have h2 := runTask_inv _ t pruneObjs localNs h1 s.events rfl
    generalize runTask (s.emit (.group t.name (t.action s.run.destroy) "Started")) t pruneObjs localNs = r at h2 ⊢
    have h3 : Inv R G E (r.1.emit (.group t.name (t.action s.run.destroy) "Finished")) := h2.emit_neutral _ trivial
    split
    · exact emit_error_before h3 _
    · split
      · exact emit_error_before h3 _
      · split
        · exact emit_error_before h3 _
        · refine ih _ h3 ?_
          intro _ k rest he
          simp only [emit_events] at he
          cases he

end CliUtils.ProvL
