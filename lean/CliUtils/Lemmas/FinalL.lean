import CliUtils.Model.Sys
import CliUtils.Lemmas.SysL
import CliUtils.Lemmas.GrammarL
import CliUtils.Props.C01
import CliUtils.Props.C03
/-
  Helper lemmas for C01F (the final inventory task and the whole-run no-orphan theorem).
    * store effects of the final task; actuation-table and store lemmas
    * outcome characterisations of one apply step (`applyOne_outcome`) and one prune step (`pruneOne_outcome`)
    * the run invariant `G` (context `Ctx`, side conditions `CtxOK`) and its preservation: `G_applyOne`, `G_pruneOne`, folds
    * the wait task: table lemmas (`start_find`, `statusUpdate_spec`, `timeoutFold_find`), the delivery-loop invariant `WG`,
      `scriptFor_ok` (every script `scriptFor` produces is harmless under `DelScriptsOK`), `G_runWait`
    * the runner: `apply_pair`, `prune_pair`, `apply_phase`, `prune_phase`
    * the plan: `hydrate_flatten`, `plan_facts`; before the tasks: `getPruneObjs_spec`, `prepare_frame`, `initialStatuses_spec`,
      `invAdd_step`, `G_init`; at the end: `G_final`, `G_onlyDeletes`
-/
namespace CliUtils.FinalL
open CliUtils CliUtils.Sys CliUtils.Props.C19 CliUtils.Props.C03 CliUtils.Props.C01

/-! ### the final task: store effects -/

/-- replacing the stored set by a set that lists every annotated object keeps the store orphan-free -/
theorem invUpdateEffect_retained (ids : List Id) (c : Cluster)
    (h : ∀ o ∈ c.objs, o.owner = invId → o.id ∈ ids) (hc : NoOrphanCl c) : NoOrphanCl (invUpdateEffect ids c).1 := by
  unfold invUpdateEffect
  cases hi : c.inv with
  | none => simpa [hi] using hc
  | some l =>
    intro o ho hown
    exact ⟨ids, rfl, h o ho hown⟩

/-- deleting the inventory object keeps the store orphan-free when nothing annotated is left -/
theorem invDeleteEffect_empty (c : Cluster) (h : ∀ o ∈ c.objs, o.owner ≠ invId) :
    NoOrphanCl ({ c with inv := none } : Cluster) := by
  intro o ho hown
  exact absurd hown (h o ho)

theorem replaceInv_safe (s : St) (objs : List Id) (hs : Safe s)
    (h : ∀ o ∈ s.cl.objs, o.owner = invId → o.id ∈ objs) : Safe (replaceInv s objs).1 := by
  unfold replaceInv
  split
  · exact hs
  · simp only []
    have e1 := invRead_safe s hs
    have hcl1 : s.invRead.1.cl = s.cl := by simp
    rw [invRead_snd]
    by_cases hf1 : s.invReads ∈ s.run.failInvRead
    · simp only [hf1, if_true]; exact e1
    · simp only [hf1, if_false]
      generalize s.invRead.1 = t1 at *
      have e2 := invRead_safe t1 e1
      have hcl2 : t1.invRead.1.cl = t1.cl := by simp
      rw [invRead_snd]
      by_cases hf2 : t1.invReads ∈ t1.run.failInvRead
      · simp only [hf2, if_true]; exact e2
      · simp only [hf2, if_false]
        generalize t1.invRead.1 = t2 at *
        split
        · exact e2
        · split
          · exact e2
          · refine safe_mutReq t2 "update" invObjId false "" "" (invUpdateEffect (dedup objs)) e2 (fun hc => ?_)
            refine invUpdateEffect_retained _ _ ?_ hc
            intro o ho hown
            rw [hcl2, hcl1] at ho
            exact (mem_dedup objs o.id).mpr (h o ho hown)

theorem deleteInv_safe (s : St) (hs : Safe s) (h : ∀ o ∈ s.cl.objs, o.owner ≠ invId) : Safe (deleteInv s).1 := by
  unfold deleteInv
  simp only []
  have e1 := invRead_safe s hs
  have hcl1 : s.invRead.1.cl = s.cl := by simp
  rw [invRead_snd]
  by_cases hf1 : s.invReads ∈ s.run.failInvRead
  · simp only [hf1, if_true]; exact e1
  · simp only [hf1, if_false]
    generalize s.invRead.1 = t1 at *
    cases hinv : s.cl.inv with
    | none => exact e1
    | some l =>
      simp only []
      split
      · exact e1
      · refine safe_mutReq t1 "delete" invObjId false "" "" _ e1 (fun _ => ?_)
        exact invDeleteEffect_empty _ (by rw [hcl1]; exact h)


/-! ### actuation table: membership and lookups -/

theorem mem_set {α : Type} [DecidableEq α] (m : Mgr α) (x r : Rec α) (h : r ∈ m.set x) : r = x ∨ r ∈ m := by
  induction m with
  | nil => simp [Mgr.set] at h; exact Or.inl h
  | cons y ys ih =>
    simp only [Mgr.set] at h
    split at h
    · rcases List.mem_cons.mp h with h | h
      · exact Or.inl h
      · exact Or.inr (List.mem_cons_of_mem _ h)
    · rcases List.mem_cons.mp h with h | h
      · exact Or.inr (by simp [h])
      · rcases ih h with h | h
        · exact Or.inl h
        · exact Or.inr (List.mem_cons_of_mem _ h)

theorem find_mem {α : Type} [DecidableEq α] (m : Mgr α) (x : α) (r : Rec α) (h : m.find? x = some r) : r ∈ m ∧ r.id = x := by
  unfold Mgr.find? at h
  exact ⟨List.mem_of_find?_eq_some h, by simpa using List.find?_some h⟩

theorem find_withActuation (m : Mgr Id) (x : Id) (r : Rec Id) (h : m.find? x = some r) :
    x ∈ m.withActuation r.strategy r.actuation := by
  obtain ⟨hm, hid⟩ := find_mem m x r h
  unfold Mgr.withActuation
  exact List.mem_map.mpr ⟨r, List.mem_filter.mpr ⟨hm, by simp⟩, hid⟩

theorem find_withReconcile (m : Mgr Id) (x : Id) (r : Rec Id) (h : m.find? x = some r) :
    x ∈ m.withReconcile r.reconcile := by
  obtain ⟨hm, hid⟩ := find_mem m x r h
  unfold Mgr.withReconcile
  exact List.mem_map.mpr ⟨r, List.mem_filter.mpr ⟨hm, by simp⟩, hid⟩

/-- recording a reconcile outcome only rewrites the reconcile field of records -/
theorem mem_setReconcile_getD {α : Type} [DecidableEq α] (m : Mgr α) (id : α) (rc : Reconcile) (r : Rec α)
    (h : r ∈ (m.setReconcile id rc).getD m) : ∃ r0 ∈ m, r = r0 ∨ r = { r0 with reconcile := rc } := by
  induction m with
  | nil => simp [Mgr.setReconcile] at h
  | cons y ys ih =>
    simp only [Mgr.setReconcile] at h
    split at h
    · simp only [Option.getD_some] at h
      rcases List.mem_cons.mp h with h | h
      · exact ⟨y, by simp, Or.inr h⟩
      · exact ⟨r, by simp [h], Or.inl rfl⟩
    · cases hs : Mgr.setReconcile ys id rc with
      | none =>
        rw [hs] at h
        simp only [Option.getD_none] at h
        exact ⟨r, h, Or.inl rfl⟩
      | some ys' =>
        rw [hs] at h ih
        simp only [Option.getD_some] at h ih
        rcases List.mem_cons.mp h with h | h
        · exact ⟨y, by simp, Or.inl h⟩
        · obtain ⟨r0, h0, h1⟩ := ih h
          exact ⟨r0, List.mem_cons_of_mem _ h0, h1⟩

theorem find_foldl_add_pending (st : Strategy) (a : Actuation) (ids : List Id) (m : Mgr Id) (x : Id) :
    (ids.foldl (fun m i => m.add i st a) m).find? x =
      if x ∈ ids then some { id := x, strategy := st, actuation := a, reconcile := .pending, uid := "", gen := 0 } else m.find? x := by
  induction ids generalizing m with
  | nil => simp
  | cons i is ih =>
    simp only [List.foldl_cons]
    rw [ih]
    by_cases hx : x ∈ is
    · simp [hx]
    · simp only [hx, if_false, List.mem_cons, or_false]
      by_cases hxi : x = i
      · subst hxi
        simp only [if_true]
        exact find_add_same m x st a "" 0
      · simp only [hxi, if_false]
        exact find_add_other m i x st a "" 0 hxi

theorem mem_foldl_add (st : Strategy) (a : Actuation) (ids : List Id) (m : Mgr Id) (r : Rec Id)
    (h : r ∈ ids.foldl (fun m i => m.add i st a) m) :
    r ∈ m ∨ ∃ i ∈ ids, r = { id := i, strategy := st, actuation := a, reconcile := .pending, uid := "", gen := 0 } := by
  induction ids generalizing m with
  | nil => exact Or.inl h
  | cons i is ih =>
    simp only [List.foldl_cons] at h
    rcases ih _ h with h | ⟨j, hj, h⟩
    · unfold Mgr.add at h
      rcases mem_set _ _ _ h with h | h
      · exact Or.inr ⟨i, by simp, h⟩
      · exact Or.inl h
    · exact Or.inr ⟨j, by simp [hj], h⟩

/-! ### store operations -/

theorem mem_put_id (c : Cluster) (o x : Live) (h : x ∈ (c.put o).objs) (hid : x.id ≠ o.id) : x ∈ c.objs := by
  rcases mem_put c o x h with h | h
  · subst h; exact absurd rfl hid
  · exact h

theorem put_no_other (c : Cluster) (o x : Live) (h : x ∈ (c.put o).objs) (hid : x.id = o.id) : x = o := by
  unfold Cluster.put at h
  split at h
  · simp only [List.mem_map] at h
    obtain ⟨y, hy, rfl⟩ := h
    by_cases hyo : y.id = o.id
    · simp [hyo]
    · simp only [hyo, if_false] at hid
  · rename_i hnone
    simp only [List.mem_append, List.mem_singleton] at h
    rcases h with h | h
    · exfalso
      have : (c.find? o.id) = none := by simpa using hnone
      unfold Cluster.find? at this
      have := List.find?_eq_none.mp this x h
      simp [hid] at this
    · exact h

theorem find_none_no_obj (c : Cluster) (id : Id) (h : c.find? id = none) : ∀ o ∈ c.objs, o.id ≠ id := by
  intro o ho hid
  unfold Cluster.find? at h
  have := List.find?_eq_none.mp h o ho
  simp [hid] at this

theorem find_some_mem (c : Cluster) (id : Id) (o : Live) (h : c.find? id = some o) : o ∈ c.objs ∧ o.id = id := by
  unfold Cluster.find? at h
  exact ⟨List.mem_of_find?_eq_some h, by simpa using List.find?_some h⟩

theorem mem_remove (c : Cluster) (i : Id) (o : Live) (h : o ∈ (c.remove i).objs) : o ∈ c.objs ∧ o.id ≠ i := by
  unfold Cluster.remove at h
  simpa using List.mem_filter.mp h


/-! ### one mutating request -/

theorem mutReq_cases (s : St) (verb : String) (id : Id) (dry : Bool) (pre prop : String) (eff : Cluster → Cluster × String) :
    ((s.mutReq verb id dry pre prop eff).1.cl = s.cl ∧ (s.mutReq verb id dry pre prop eff).2 = "error") ∨
    ((s.mutReq verb id dry pre prop eff).1.cl = (eff s.cl).1 ∧ (s.mutReq verb id dry pre prop eff).2 = (eff s.cl).2) := by
  have h := mutReq_spec s verb id dry pre prop eff
  simp only [] at h
  obtain ⟨_, hcl, hres, _⟩ := h
  by_cases hf : s.mutIdx ∈ s.run.failMut
  · left; rw [hcl, hres]; simp [hf]
  · right; rw [hcl, hres]; simp [hf]

theorem mutReq_frame (s : St) (verb : String) (id : Id) (dry : Bool) (pre prop : String) (eff : Cluster → Cluster × String) :
    (s.mutReq verb id dry pre prop eff).1.mgr = s.mgr ∧ (s.mutReq verb id dry pre prop eff).1.run = s.run ∧
    (s.mutReq verb id dry pre prop eff).1.abandoned = s.abandoned ∧ (s.mutReq verb id dry pre prop eff).1.invalid = s.invalid ∧
    (s.mutReq verb id dry pre prop eff).1.cache = s.cache := by
  have h := mutReq_spec s verb id dry pre prop eff
  simp only [] at h
  exact ⟨h.2.2.2.2.1, h.2.2.2.2.2.1, h.2.2.2.2.2.2.1, h.2.2.2.2.2.2.2.1, h.2.2.2.2.2.2.2.2.2.2.2⟩

/-! ### what one apply step does -/

/-- the uid the API server hands out for counter value `k` -/
def uidOf (k : Nat) : String := s!"uid-{k}"

/-- the store after a successful apply of `X`: other objects untouched, objects named `X` keep the uid of an old object named `X`
or carry a fresh uid; `uid` (what the actuation table records) is empty or the uid of an (old or new) object named `X` -/
def ApplyStore (c c' : Cluster) (X : Id) (uid : String) : Prop :=
  c.nextUid ≤ c'.nextUid ∧
  (∀ o' ∈ c'.objs, o'.id ≠ X → o' ∈ c.objs) ∧
  (∀ o' ∈ c'.objs, o'.id = X → (∃ o ∈ c.objs, o.id = X ∧ o.uid = o'.uid) ∨ (∃ k, c.nextUid < k ∧ o'.uid = uidOf k)) ∧
  (uid = "" ∨ (∃ o ∈ c.objs, o.id = X ∧ o.uid = uid) ∨ (∃ o' ∈ c'.objs, o'.id = X ∧ o'.uid = uid))

theorem applyStore_refl (c : Cluster) (X : Id) (uid : String) (h : uid = "" ∨ ∃ o ∈ c.objs, o.id = X ∧ o.uid = uid) :
    ApplyStore c c X uid :=
  ⟨Nat.le_refl _, fun o' h' _ => h', fun o' h' hid => Or.inl ⟨o', h', hid, rfl⟩, by
    rcases h with h | h
    · exact Or.inl h
    · exact Or.inr (Or.inl h)⟩

theorem createLive_store (m : Manifest) (frm : Option String) (la : Bool) (c : Cluster) :
    c.nextUid ≤ (createLive m frm la c).1.nextUid ∧
    (∀ o' ∈ (createLive m frm la c).1.objs, o'.id ≠ m.id → o' ∈ c.objs) ∧
    (∀ o' ∈ (createLive m frm la c).1.objs, o'.id = m.id →
       (∃ o ∈ c.objs, o.id = m.id ∧ o.uid = o'.uid) ∨ (∃ k, c.nextUid < k ∧ o'.uid = uidOf k)) := by
  unfold createLive
  simp only [Cluster.freshUid]
  refine ⟨?_, ?_, ?_⟩
  · have : ∀ (c : Cluster) (o : Live), (c.put o).nextUid = c.nextUid := by
      intro c o; unfold Cluster.put; split <;> rfl
    rw [this]; exact Nat.le_succ _
  · intro o' ho' hid
    have := mem_put_id _ _ _ ho' hid
    exact this
  · intro o' ho' hid
    rcases mem_put _ _ _ ho' with h | h
    · right; exact ⟨c.nextUid + 1, Nat.lt_succ_self _, by rw [h]; rfl⟩
    · left; exact ⟨o', h, hid, rfl⟩

theorem put_nextUid (c : Cluster) (o : Live) : (c.put o).nextUid = c.nextUid := by
  unfold Cluster.put; split <;> rfl

theorem putPatch_store (c : Cluster) (old n : Live) (hold : old ∈ c.objs) (hid : n.id = old.id) (hu : n.uid = old.uid) :
    c.nextUid ≤ (c.put n).nextUid ∧
    (∀ o' ∈ (c.put n).objs, o'.id ≠ old.id → o' ∈ c.objs) ∧
    (∀ o' ∈ (c.put n).objs, o'.id = old.id →
       (∃ o ∈ c.objs, o.id = old.id ∧ o.uid = o'.uid) ∨ (∃ k, c.nextUid < k ∧ o'.uid = uidOf k)) := by
  refine ⟨by rw [put_nextUid]; exact Nat.le_refl _, ?_, ?_⟩
  · intro o' ho' hne
    exact mem_put_id _ _ _ ho' (by rw [hid]; exact hne)
  · intro o' ho' _
    rcases mem_put _ _ _ ho' with h | h
    · left; exact ⟨old, hold, rfl, by rw [h, hu]⟩
    · left; exact ⟨o', h, by assumption, rfl⟩

theorem ssaEffect_res (m : Manifest) (frm : Option String) (dry : Bool) (c : Cluster) : (ssaEffect m frm dry c).2 = "ok" := by
  unfold ssaEffect; split <;> split <;> rfl


/-- the possible outcomes of one apply step, seen from the table and the store -/
def ApplyOutcome (s s' : St) (X : Id) : Prop :=
  s'.run = s.run ∧ s'.invalid = s.invalid ∧ s'.cache = s.cache ∧ s'.abandoned = s.abandoned ∧
  ((manifestOf s X = none ∧ s'.mgr = s.mgr ∧ s'.cl = s.cl) ∨
   (∃ a, a ≠ Actuation.succeeded ∧ a ≠ Actuation.pending ∧ s'.mgr = s.mgr.add X .apply a "" 0 ∧ s'.cl = s.cl) ∨
   (∃ uid gen, s'.mgr = s.mgr.add X .apply .succeeded uid gen ∧ ApplyStore s.cl s'.cl X uid))

theorem outcome_fail (group : String) (s t : St) (X : Id) (r : Reason)
    (hf : t.mgr = s.mgr ∧ t.run = s.run ∧ t.abandoned = s.abandoned ∧ t.invalid = s.invalid ∧ t.cache = s.cache) (hcl : t.cl = s.cl) :
    ApplyOutcome s (applyFail group t X r) X :=
  ⟨hf.2.1, hf.2.2.2.1, hf.2.2.2.2, hf.2.2.1, Or.inr (Or.inl ⟨.failed, by simp, by simp, by simp [applyFail, hf.1], hcl⟩)⟩

theorem outcome_ok (group : String) (s t : St) (X : Id) (uid : String) (gen : Int)
    (hf : t.mgr = s.mgr ∧ t.run = s.run ∧ t.abandoned = s.abandoned ∧ t.invalid = s.invalid ∧ t.cache = s.cache)
    (hst : ApplyStore s.cl t.cl X uid) :
    ApplyOutcome s (applyOk group t X uid gen) X :=
  ⟨hf.2.1, hf.2.2.2.1, hf.2.2.2.2, hf.2.2.1, Or.inr (Or.inr ⟨uid, gen, by simp [applyOk, hf.1], hst⟩)⟩

theorem frame_refl (s : St) : s.mgr = s.mgr ∧ s.run = s.run ∧ s.abandoned = s.abandoned ∧ s.invalid = s.invalid ∧ s.cache = s.cache :=
  ⟨rfl, rfl, rfl, rfl, rfl⟩

theorem kubectlApply_outcome (group : String) (s : St) (m : Manifest) (frm : Option String) (hd : s.run.opts.dry = .none) :
    ApplyOutcome s (kubectlApply group s m frm) m.id := by
  unfold kubectlApply
  split
  · unfold ssaApply
    simp only []
    have hdry : (s.run.opts.dry == Dry.server) = false := by rw [hd]; rfl
    rw [hdry]
    have hc := mutReq_cases s "patch" m.id false "" "" (ssaEffect m frm false)
    have hfr := mutReq_frame s "patch" m.id false "" "" (ssaEffect m frm false)
    generalize s.mutReq "patch" m.id false "" "" (ssaEffect m frm false) = r at hc hfr
    split
    · rename_i herr
      refine outcome_fail group s r.1 m.id _ hfr ?_
      rcases hc with hc | hc
      · exact hc.1
      · rw [hc.2, ssaEffect_res] at herr; simp at herr
    · rename_i herr
      have hcl : r.1.cl = (ssaEffect m frm false s.cl).1 := by
        rcases hc with hc | hc
        · exact absurd hc.2 herr
        · exact hc.1
      cases hfind : s.cl.find? m.id with
      | none =>
        simp only [Bool.false_eq_true, if_false]
        have hcl' : r.1.cl = (createLive m frm false s.cl).1 := by
          rw [hcl]; unfold ssaEffect; simp [hfind]
        have hst := createLive_store m frm false s.cl
        rw [← hcl'] at hst
        cases hf2 : r.1.cl.find? m.id with
        | none => exact outcome_ok group s r.1 m.id "" 0 hfr ⟨hst.1, hst.2.1, hst.2.2, Or.inl rfl⟩
        | some l =>
          have := find_some_mem _ _ _ hf2
          exact outcome_ok group s r.1 m.id l.uid l.gen hfr ⟨hst.1, hst.2.1, hst.2.2, Or.inr (Or.inr ⟨l, this.1, this.2, rfl⟩)⟩
      | some old =>
        simp only []
        have hold := find_some_mem _ _ _ hfind
        have hcl' : r.1.cl = s.cl.put (patchLive m frm false old) := by
          rw [hcl]; unfold ssaEffect; simp [hfind]
        have hst := putPatch_store s.cl old (patchLive m frm false old) hold.1 rfl rfl
        rw [← hcl', hold.2] at hst
        exact outcome_ok group s r.1 m.id _ _ hfr ⟨hst.1, hst.2.1, hst.2.2, Or.inr (Or.inl ⟨old, hold.1, hold.2, rfl⟩)⟩
  · unfold csaApply
    simp only []
    cases hg : s.get m.id with
    | none => exact outcome_fail group s s m.id _ (frame_refl s) rfl
    | some o =>
      have hget : s.cl.find? m.id = o := by
        unfold St.get at hg
        split at hg
        · cases hg
        · simpa using hg
      cases o with
      | none =>
        simp only []
        have hnc : ¬ (s.run.opts.dry = Dry.client) := by rw [hd]; simp
        simp only [hnc, if_false]
        have hc := mutReq_cases s "create" m.id false "" "" (fun c => ((createLive m frm true c).1, "ok"))
        have hfr := mutReq_frame s "create" m.id false "" "" (fun c => ((createLive m frm true c).1, "ok"))
        generalize s.mutReq "create" m.id false "" "" (fun c => ((createLive m frm true c).1, "ok")) = r at hc hfr
        split
        · rename_i herr
          refine outcome_fail group s r.1 m.id _ hfr ?_
          rcases hc with hc | hc
          · exact hc.1
          · rw [hc.2] at herr; simp at herr
        · rename_i herr
          have hcl : r.1.cl = (createLive m frm true s.cl).1 := by
            rcases hc with hc | hc
            · exact absurd hc.2 herr
            · exact hc.1
          have hst := createLive_store m frm true s.cl
          rw [← hcl] at hst
          cases hf2 : r.1.cl.find? m.id with
          | none => exact outcome_ok group s r.1 m.id "" 0 hfr ⟨hst.1, hst.2.1, hst.2.2, Or.inl rfl⟩
          | some l =>
            have := find_some_mem _ _ _ hf2
            exact outcome_ok group s r.1 m.id l.uid l.gen hfr ⟨hst.1, hst.2.1, hst.2.2, Or.inr (Or.inr ⟨l, this.1, this.2, rfl⟩)⟩
      | some old =>
        simp only []
        have hold := find_some_mem _ _ _ hget
        split
        · exact outcome_ok group s s m.id _ _ (frame_refl s) (applyStore_refl _ _ _ (Or.inr ⟨old, hold.1, hold.2, rfl⟩))
        · have hc := mutReq_cases s "patch" m.id false "" "" (fun c => (c.put (patchLive m frm true old), "ok"))
          have hfr := mutReq_frame s "patch" m.id false "" "" (fun c => (c.put (patchLive m frm true old), "ok"))
          generalize s.mutReq "patch" m.id false "" "" (fun c => (c.put (patchLive m frm true old), "ok")) = r at hc hfr
          split
          · rename_i herr
            refine outcome_fail group s r.1 m.id _ hfr ?_
            rcases hc with hc | hc
            · exact hc.1
            · rw [hc.2] at herr; simp at herr
          · rename_i herr
            have hcl : r.1.cl = s.cl.put (patchLive m frm true old) := by
              rcases hc with hc | hc
              · exact absurd hc.2 herr
              · exact hc.1
            have hst := putPatch_store s.cl old (patchLive m frm true old) hold.1 rfl rfl
            rw [← hcl, hold.2] at hst
            exact outcome_ok group s r.1 m.id _ _ hfr ⟨hst.1, hst.2.1, hst.2.2, Or.inr (Or.inl ⟨old, hold.1, hold.2, rfl⟩)⟩

theorem applyOne_outcome (group : String) (s : St) (X : Id) (hd : s.run.opts.dry = .none) :
    ApplyOutcome s (applyOne group s X) X := by
  unfold applyOne
  cases hm : manifestOf s X with
  | none => exact ⟨rfl, rfl, rfl, rfl, Or.inl ⟨hm, rfl, rfl⟩⟩
  | some m =>
    simp only []
    have hid := manifestOf_id s X m hm
    cases hdec : applyDecision s m with
    | fail r => exact outcome_fail group s s X r (frame_refl s) rfl
    | skip r => exact ⟨rfl, rfl, rfl, rfl, Or.inr (Or.inl ⟨.skipped, by simp, by simp, rfl, rfl⟩)⟩
    | go frm => simp only []; rw [← hid]; exact kubectlApply_outcome group s m frm hd


/-! ### what one prune step does -/

/-- the store after a prune-side request for `X`: every object is an old one, or is named `X` and derives from an old object
named `X` with the same uid, without gaining the annotation -/
def PruneStore (c c' : Cluster) (X : Id) : Prop :=
  c'.nextUid = c.nextUid ∧
  ∀ o' ∈ c'.objs, o' ∈ c.objs ∨ (o'.id = X ∧ ∃ cur ∈ c.objs, cur.id = X ∧ o'.uid = cur.uid ∧ (o'.owner = invId → cur.owner = invId))

theorem pruneStore_refl (c : Cluster) (X : Id) : PruneStore c c X := ⟨rfl, fun _ h => Or.inl h⟩

theorem abandonEffect_store (live : Live) (c : Cluster) :
    ((abandonEffect live c).2 ≠ "ok" → (abandonEffect live c).1 = c) ∧
    PruneStore c (abandonEffect live c).1 live.id ∧
    ((abandonEffect live c).2 = "ok" → ∀ o' ∈ (abandonEffect live c).1.objs, o'.id = live.id → o'.owner ≠ invId) := by
  unfold abandonEffect
  cases hf : c.find? live.id with
  | none => exact ⟨fun _ => rfl, pruneStore_refl _ _, fun h => by simp at h⟩
  | some cur =>
    simp only []
    have hcur := find_some_mem _ _ _ hf
    refine ⟨fun h => absurd rfl h, ⟨put_nextUid _ _, ?_⟩, ?_⟩
    · intro o' ho'
      rcases mem_put _ _ _ ho' with h | h
      · right
        subst h
        exact ⟨hcur.2, cur, hcur.1, hcur.2, rfl, by intro h; simp [invId] at h⟩
      · exact Or.inl h
    · intro _ o' ho' hid
      have := put_no_other _ _ _ ho' (by simpa [hcur.2] using hid)
      subst this
      simp [invId]

theorem deleteEffect_store (fin : Bool) (live : Live) (c : Cluster) :
    (((deleteEffect fin live c).2 ≠ "ok" ∧ (deleteEffect fin live c).2 ≠ "notfound") → (deleteEffect fin live c).1 = c) ∧
    PruneStore c (deleteEffect fin live c).1 live.id ∧
    (((deleteEffect fin live c).2 = "ok" ∨ (deleteEffect fin live c).2 = "notfound") →
       ∀ o' ∈ (deleteEffect fin live c).1.objs, o'.id = live.id → fin = true) := by
  unfold deleteEffect
  cases hf : c.find? live.id with
  | none =>
    refine ⟨fun _ => rfl, pruneStore_refl _ _, ?_⟩
    intro _ o' ho' hid
    exact absurd hid (find_none_no_obj _ _ hf o' ho')
  | some cur =>
    simp only []
    have hcur := find_some_mem _ _ _ hf
    by_cases hu : cur.uid ≠ live.uid
    · simp only [if_pos hu]
      exact ⟨fun _ => trivial, pruneStore_refl _ _, fun h => by simp at h⟩
    · simp only [if_neg hu]
      cases fin with
      | true =>
        simp only [if_true]
        refine ⟨fun h => absurd rfl h.1, ⟨put_nextUid _ _, ?_⟩, fun _ _ _ _ => trivial⟩
        intro o' ho'
        rcases mem_put _ _ _ ho' with h | h
        · right
          subst h
          exact ⟨hcur.2, cur, hcur.1, hcur.2, rfl, fun h => h⟩
        · exact Or.inl h
      | false =>
        simp only [Bool.false_eq_true, if_false]
        refine ⟨fun h => absurd rfl h.1, ⟨rfl, ?_⟩, ?_⟩
        · intro o' ho'
          exact Or.inl (mem_remove _ _ _ ho').1
        · intro _ o' ho' hid
          exact absurd hid (mem_remove _ _ _ ho').2

/-- the possible outcomes of one prune step -/
def PruneOutcome (s s' : St) (live : Live) (uids : List String) : Prop :=
  s'.run = s.run ∧ s'.invalid = s.invalid ∧ s'.cache = s.cache ∧
  ((∃ a, (a = Actuation.failed ∨ a = Actuation.skipped) ∧ s'.mgr = s.mgr.add live.id .delete a "" 0 ∧ s'.cl = s.cl ∧
      s'.abandoned = s.abandoned) ∨
   (s'.mgr = s.mgr.add live.id .delete .skipped "" 0 ∧ s'.cl = s.cl ∧ s'.abandoned = s.abandoned ++ [live.id] ∧
      (live.owner = "" ∨ live.uid ∈ uids)) ∨
   (s'.mgr = s.mgr.add live.id .delete .skipped "" 0 ∧ s'.abandoned = s.abandoned ++ [live.id] ∧
      PruneStore s.cl s'.cl live.id ∧ ∀ o' ∈ s'.cl.objs, o'.id = live.id → o'.owner ≠ invId) ∨
   (s'.mgr = s.mgr.add live.id .delete .succeeded live.uid 0 ∧ s'.abandoned = s.abandoned ∧
      PruneStore s.cl s'.cl live.id ∧ ∀ o' ∈ s'.cl.objs, o'.id = live.id → hasFinalizer s.run live.id = true))

theorem pruneOne_outcome (group : String) (uids localNs : List String) (s : St) (live : Live) (hd : s.run.opts.dry = .none) :
    PruneOutcome s (pruneOne group uids localNs s live) live uids := by
  have hdry : dryOf s = false := by unfold dryOf; rw [hd]; simp
  have A : ∀ a, (a = Actuation.failed ∨ a = Actuation.skipped) → ∀ t : St, t.run = s.run → t.invalid = s.invalid → t.cache = s.cache →
      t.mgr = s.mgr.add live.id .delete a "" 0 → t.cl = s.cl → t.abandoned = s.abandoned → PruneOutcome s t live uids :=
    fun a ha t h1 h2 h3 h4 h5 h6 => ⟨h1, h2, h3, Or.inl ⟨a, ha, h4, h5, h6⟩⟩
  cases hdec : pruneDecision uids localNs s live <;> simp only [pruneOne, hdec]
  · exact A .failed (Or.inl rfl) _ rfl rfl rfl rfl rfl rfl
  · exact A .skipped (Or.inr rfl) _ rfl rfl rfl rfl rfl rfl
  · -- preventNoAnnotation
    refine ⟨rfl, rfl, rfl, Or.inr (Or.inl ⟨rfl, rfl, rfl, Or.inl ?_⟩)⟩
    unfold pruneDecision at hdec
    rw [hdry] at hdec
    simp only [Bool.false_eq_true, if_false] at hdec
    split at hdec
    · cases hdec
    · split at hdec
      · split at hdec
        · assumption
        · cases hdec
      · split at hdec
        · cases hdec
        · split at hdec
          · cases hdec
          · split at hdec
            · cases hdec
            · cases hdec
            · split at hdec <;> cases hdec
  · -- preventUpdate
    have hc := mutReq_cases s "update" live.id false "" "" (abandonEffect live)
    have hfr := mutReq_frame s "update" live.id false "" "" (abandonEffect live)
    have hst := abandonEffect_store live s.cl
    generalize s.mutReq "update" live.id false "" "" (abandonEffect live) = r at hc hfr
    split
    · rename_i hok
      refine ⟨hfr.2.1, hfr.2.2.2.1, hfr.2.2.2.2, Or.inr (Or.inr (Or.inl ⟨by simp [pruneSkip, hfr.1], by simp [hfr.2.2.1], ?_, ?_⟩))⟩
      · rcases hc with hc | hc
        · rw [hc.2] at hok; simp at hok
        · simp only [pruneSkip_cl]; rw [hc.1]; exact hst.2.1
      · rcases hc with hc | hc
        · rw [hc.2] at hok; simp at hok
        · simp only [pruneSkip_cl]; rw [hc.1]; exact hst.2.2 (by rw [← hc.2]; exact hok)
    · rename_i hok
      refine A .failed (Or.inl rfl) _ hfr.2.1 hfr.2.2.2.1 hfr.2.2.2.2 (by simp [pruneFail, hfr.1]) ?_ hfr.2.2.1
      rcases hc with hc | hc
      · exact hc.1
      · simp only [pruneFail_cl]; rw [hc.1]; exact hst.1 (by rw [← hc.2]; exact hok)
  · exact A .skipped (Or.inr rfl) _ rfl rfl rfl rfl rfl rfl
  · exact A .failed (Or.inl rfl) _ rfl rfl rfl rfl rfl rfl
  · -- justApplied
    rw [hdry]
    simp only [Bool.false_eq_true, if_false]
    refine ⟨rfl, rfl, rfl, Or.inr (Or.inl ⟨rfl, rfl, rfl, Or.inr ?_⟩)⟩
    unfold pruneDecision at hdec
    rw [hdry] at hdec
    simp only [Bool.false_eq_true, if_false] at hdec
    split at hdec
    · cases hdec
    · split at hdec
      · split at hdec <;> cases hdec
      · split at hdec
        · cases hdec
        · split at hdec
          · cases hdec
          · split at hdec
            · cases hdec
            · cases hdec
            · split at hdec
              · rename_i hj; simpa [justApplied] using hj
              · cases hdec
  · -- deleteDry: impossible outside dry-run
    exfalso
    unfold pruneDecision at hdec
    rw [hdry] at hdec
    simp only [Bool.false_eq_true, if_false] at hdec
    split at hdec
    · cases hdec
    · split at hdec
      · split at hdec <;> cases hdec
      · split at hdec
        · cases hdec
        · split at hdec
          · cases hdec
          · split at hdec
            · cases hdec
            · cases hdec
            · split at hdec <;> cases hdec
  · -- delete
    have hc := mutReq_cases s "delete" live.id false live.uid (propagationOf s) (deleteEffect (hasFinalizer s.run live.id) live)
    have hfr := mutReq_frame s "delete" live.id false live.uid (propagationOf s) (deleteEffect (hasFinalizer s.run live.id) live)
    have hst := deleteEffect_store (hasFinalizer s.run live.id) live s.cl
    generalize s.mutReq "delete" live.id false live.uid (propagationOf s) (deleteEffect (hasFinalizer s.run live.id) live) = r at hc hfr
    split
    · rename_i hok
      have hok' : r.2 = "ok" ∨ r.2 = "notfound" := by simpa using hok
      refine ⟨hfr.2.1, hfr.2.2.2.1, hfr.2.2.2.2, Or.inr (Or.inr (Or.inr ⟨by simp [pruneOk, hfr.1], by simp [hfr.2.2.1], ?_, ?_⟩))⟩
      · rcases hc with hc | hc
        · rw [hc.2] at hok'; simp at hok'
        · simp only [pruneOk_cl]; rw [hc.1]; exact hst.2.1
      · rcases hc with hc | hc
        · rw [hc.2] at hok'; simp at hok'
        · simp only [pruneOk_cl]; rw [hc.1]; exact hst.2.2 (by rw [← hc.2]; exact hok')
    · rename_i hok
      have hok' : r.2 ≠ "ok" ∧ r.2 ≠ "notfound" := by simpa using hok
      refine A .failed (Or.inl rfl) _ hfr.2.1 hfr.2.2.2.1 hfr.2.2.2.2 (by simp [pruneFail, hfr.1]) ?_ hfr.2.2.1
      rcases hc with hc | hc
      · exact hc.1
      · simp only [pruneFail_cl]; rw [hc.1]; exact hst.1 (by rw [← hc.2]; exact hok')


/-! ## the run invariant -/

/-- what is fixed during a run: the run description, the start store (after the environment's deletions), the valid apply
ids, the objects read for pruning, the previous inventory, the invalid ids -/
structure Ctx where
  run : Run
  c0 : Cluster
  A : List Id
  P : List Live
  prev : List Id
  invalid : List Id

/-- where a uid comes from: an object of the start store with that name, or the server's counter after the start -/
def Prov (x : Ctx) (id : Id) (uid : String) : Prop :=
  (∃ o0 ∈ x.c0.objs, o0.id = id ∧ o0.uid = uid) ∨ ∃ k, x.c0.nextUid < k ∧ uid = uidOf k

/-- the scripted environment of delete waits only reports NotFound for an object it has removed, when a finalizer is configured -/
def DelScriptsOK (run : Run) : Prop :=
  ∀ id v, run.del.lookup id = some v → v = "gone" ∨ v = "finalizer" ∨ v = "finalizer-gone"

structure CtxOK (x : Ctx) : Prop where
  dry : x.run.opts.dry = .none
  disj : ∀ i ∈ x.A, ∀ l ∈ x.P, l.id ≠ i
  psub : ∀ l ∈ x.P, l ∈ x.c0.objs
  pprev : ∀ l ∈ x.P, l.id ∈ x.prev
  idsInj : ∀ o ∈ x.c0.objs, ∀ o' ∈ x.c0.objs, o.id = o'.id → o = o'
  uidInj : ∀ o ∈ x.c0.objs, ∀ o' ∈ x.c0.objs, o.uid = o'.uid → o.id = o'.id
  fresh : ∀ o ∈ x.c0.objs, ∀ k, x.c0.nextUid < k → o.uid ≠ uidOf k
  del : DelScriptsOK x.run

/-- the cached observation of a prune object cannot make a delete wait succeed -/
def CacheOK (cache : List (Id × Wait.Obs)) (live : Live) : Prop :=
  (Wait.getObs cache live.id).status ≠ .notFound ∧
  ((Wait.getObs cache live.id).hasRes = true → (Wait.getObs cache live.id).uid = live.uid)

/-- the record of a live annotated object `X` keeps it in the final inventory; `RA` / `RP` = ids still to be applied / pruned,
`W` = ids whose delete wait is next -/
def Good (x : Ctx) (RA RP W : List Id) (X : Id) (r : Rec Id) : Prop :=
  (r.strategy = .apply →
     (r.actuation = .succeeded → X ∈ x.prev ∨ X ∉ RA) ∧ (r.actuation = .pending → X ∈ RA) ∧
     (r.actuation ≠ .succeeded → X ∈ x.prev)) ∧
  (r.strategy = .delete →
     (r.actuation = .pending → X ∈ RP) ∧
     (r.actuation = .succeeded → hasFinalizer x.run X = true ∧
        (r.reconcile = .failed ∨ r.reconcile = .timeout ∨ (r.reconcile = .pending ∧ X ∈ W))))

def Tr (x : Ctx) (mgr : Mgr Id) (RA RP W : List Id) (X : Id) : Prop :=
  (X ∈ x.prev ∧ X ∈ x.invalid) ∨ ∃ r, mgr.find? X = some r ∧ Good x RA RP W X r

/-- the per-record facts -/
def RecOK (x : Ctx) (r : Rec Id) : Prop :=
  (r.strategy = .apply → r.id ∈ x.A ∧ (r.uid = "" ∨ Prov x r.id r.uid)) ∧
  (r.strategy = .delete → ∃ l ∈ x.P, l.id = r.id ∧ (r.actuation = .succeeded → r.uid = l.uid))

/-- **the run invariant** -/
structure G (x : Ctx) (s : St) (RA RP W : List Id) : Prop where
  run : s.run = x.run
  inval : s.invalid = x.invalid
  nuid : x.c0.nextUid ≤ s.cl.nextUid
  prov : ∀ o ∈ s.cl.objs, Prov x o.id o.uid
  pobj : ∀ l ∈ x.P, ∀ o ∈ s.cl.objs, o.id = l.id → o.uid = l.uid ∧ (o.owner = invId → l.owner = invId)
  mgr : ∀ r ∈ s.mgr, RecOK x r
  ab : ∀ X ∈ s.abandoned, (∃ l ∈ x.P, l.id = X) ∧ ∀ o ∈ s.cl.objs, o.id = X → o.owner ≠ invId
  cache : ∀ l ∈ x.P, hasFinalizer x.run l.id = true → (∃ o ∈ s.cl.objs, o.id = l.id) → CacheOK s.cache l
  tr : ∀ o ∈ s.cl.objs, o.owner = invId → Tr x s.mgr RA RP W o.id

theorem G.congr {x : Ctx} {s s' : St} {RA RP W : List Id} (h : G x s RA RP W) (h1 : s'.run = s.run) (h2 : s'.invalid = s.invalid)
    (h3 : s'.cl = s.cl) (h4 : s'.mgr = s.mgr) (h5 : s'.abandoned = s.abandoned) (h6 : s'.cache = s.cache) : G x s' RA RP W := by
  constructor
  · rw [h1]; exact h.run
  · rw [h2]; exact h.inval
  · rw [h3]; exact h.nuid
  · rw [h3]; exact h.prov
  · rw [h3]; exact h.pobj
  · rw [h4]; exact h.mgr
  · rw [h5, h3]; exact h.ab
  · rw [h6, h3]; exact h.cache
  · rw [h3, h4]; exact h.tr

theorem Good.mono {x : Ctx} {RA RP W W' : List Id} {X : Id} {r : Rec Id} (h : Good x RA RP W X r) (hw : ∀ i ∈ W, i ∈ W') :
    Good x RA RP W' X r := by
  refine ⟨h.1, fun hs => ⟨(h.2 hs).1, fun ha => ?_⟩⟩
  obtain ⟨h1, h2⟩ := (h.2 hs).2 ha
  refine ⟨h1, ?_⟩
  rcases h2 with h2 | h2 | h2
  · exact Or.inl h2
  · exact Or.inr (Or.inl h2)
  · exact Or.inr (Or.inr ⟨h2.1, hw _ h2.2⟩)

theorem G.mono {x : Ctx} {s : St} {RA RP W W' : List Id} (h : G x s RA RP W) (hw : ∀ i ∈ W, i ∈ W') : G x s RA RP W' := by
  refine { h with tr := ?_ }
  intro o ho hown
  rcases h.tr o ho hown with h1 | ⟨r, h1, h2⟩
  · exact Or.inl h1
  · exact Or.inr ⟨r, h1, h2.mono hw⟩


/-! ### the invariant through one apply step -/

theorem Good.shrinkA {x : Ctx} {RA RP W : List Id} {X Y : Id} {r : Rec Id} (h : Good x (X :: RA) RP W Y r) (hne : Y ≠ X) :
    Good x RA RP W Y r := by
  refine ⟨fun hs => ⟨fun ha => ?_, fun ha => ?_, (h.1 hs).2.2⟩, h.2⟩
  · rcases (h.1 hs).1 ha with h1 | h1
    · exact Or.inl h1
    · exact Or.inr (fun hm => h1 (List.mem_cons_of_mem _ hm))
  · rcases List.mem_cons.mp ((h.1 hs).2.1 ha) with h1 | h1
    · exact absurd h1 hne
    · exact h1

theorem Good.shrinkP {x : Ctx} {RA RP W : List Id} {X Y : Id} {r : Rec Id} (h : Good x RA (X :: RP) W Y r) (hne : Y ≠ X) :
    Good x RA RP W Y r := by
  refine ⟨h.1, fun hs => ⟨fun ha => ?_, (h.2 hs).2⟩⟩
  rcases List.mem_cons.mp ((h.2 hs).1 ha) with h1 | h1
  · exact absurd h1 hne
  · exact h1

theorem G_applyOne {x : Ctx} (hx : CtxOK x) (group : String) (s : St) (X : Id) (RA RP W : List Id)
    (h : G x s (X :: RA) RP W) (hXA : X ∈ x.A) (hnd : X ∉ RA) (hman : manifestOf s X ≠ none) :
    G x (applyOne group s X) RA RP W := by
  have hd : s.run.opts.dry = .none := by rw [h.run]; exact hx.dry
  obtain ⟨o1, o2, o3, o4, hout⟩ := applyOne_outcome group s X hd
  generalize applyOne group s X = s' at *
  have hdelA : ∀ r, s.mgr.find? X = some r → r.strategy ≠ .delete := by
    intro r hr hs
    obtain ⟨hm, hid⟩ := find_mem _ _ _ hr
    obtain ⟨l, hl, hlid, _⟩ := (h.mgr r hm).2 hs
    exact hx.disj X hXA l hl (hlid.trans hid)
  rcases hout with ⟨hn, _, _⟩ | ⟨a, ha1, ha2, hm, hcl⟩ | ⟨uid, gen, hm, hst⟩
  · exact absurd hn hman
  · -- failed / skipped: the store is unchanged
    constructor
    · rw [o1]; exact h.run
    · rw [o2]; exact h.inval
    · rw [hcl]; exact h.nuid
    · rw [hcl]; exact h.prov
    · rw [hcl]; exact h.pobj
    · intro r hr
      rw [hm] at hr
      rcases mem_set _ _ _ hr with hr | hr
      · subst hr
        exact ⟨fun _ => ⟨hXA, Or.inl rfl⟩, fun hs => by simp at hs⟩
      · exact h.mgr r hr
    · rw [o4, hcl]; exact h.ab
    · rw [o3, hcl]; exact h.cache
    · rw [hcl, hm]
      intro o ho hown
      rcases h.tr o ho hown with h1 | ⟨r, h1, h2⟩
      · exact Or.inl h1
      · right
        by_cases hY : o.id = X
        · rw [hY] at h1 h2 ⊢
          refine ⟨_, find_add_same _ _ _ _ _ _, ?_⟩
          have hprev : X ∈ x.prev := by
            cases hs : r.strategy with
            | delete => exact absurd hs (hdelA r h1)
            | apply =>
              by_cases hsucc : r.actuation = .succeeded
              · rcases (h2.1 hs).1 hsucc with h3 | h3
                · exact h3
                · exact absurd (by simp) h3
              · exact (h2.1 hs).2.2 hsucc
          refine ⟨fun _ => ⟨fun ha => absurd ha ha1, fun ha => absurd ha ha2, fun _ => hprev⟩, fun hs => by simp at hs⟩
        · exact ⟨r, by rw [find_add_other _ _ _ _ _ _ _ hY]; exact h1, h2.shrinkA hY⟩
  · -- succeeded
    obtain ⟨st1, st2, st3, st4⟩ := hst
    have hprov' : ∀ o ∈ s'.cl.objs, Prov x o.id o.uid := by
      intro o' ho'
      by_cases hY : o'.id = X
      · rcases st3 o' ho' hY with ⟨o, ho, hid, hu⟩ | ⟨k, hk, hu⟩
        · have := h.prov o ho
          rw [hid, hu] at this; rw [hY]; exact this
        · exact Or.inr ⟨k, Nat.lt_of_le_of_lt h.nuid hk, hu⟩
      · exact h.prov o' (st2 o' ho' hY)
    have hold : ∀ l ∈ x.P, ∀ o' ∈ s'.cl.objs, o'.id = l.id → o' ∈ s.cl.objs := by
      intro l hl o' ho' hid
      exact st2 o' ho' (by rw [hid]; exact hx.disj X hXA l hl)
    constructor
    · rw [o1]; exact h.run
    · rw [o2]; exact h.inval
    · exact Nat.le_trans h.nuid st1
    · exact hprov'
    · intro l hl o' ho' hid
      exact h.pobj l hl o' (hold l hl o' ho' hid) hid
    · intro r hr
      rw [hm] at hr
      rcases mem_set _ _ _ hr with hr | hr
      · subst hr
        refine ⟨fun _ => ⟨hXA, ?_⟩, fun hs => by simp at hs⟩
        rcases st4 with h4 | ⟨o, ho, hid, hu⟩ | ⟨o', ho', hid, hu⟩
        · exact Or.inl h4
        · right
          have := h.prov o ho
          rw [hid, hu] at this; exact this
        · right
          have := hprov' o' ho'
          rw [hid, hu] at this; exact this
      · exact h.mgr r hr
    · rw [o4]
      intro Y hY
      obtain ⟨⟨l, hl, hlid⟩, hno⟩ := h.ab Y hY
      refine ⟨⟨l, hl, hlid⟩, ?_⟩
      intro o' ho' hid
      exact hno o' (hold l hl o' ho' (hid.trans hlid.symm)) hid
    · rw [o3]
      intro l hl hfin ⟨o', ho', hid⟩
      exact h.cache l hl hfin ⟨o', hold l hl o' ho' hid, hid⟩
    · rw [hm]
      intro o' ho' hown
      by_cases hY : o'.id = X
      · right
        rw [hY]
        refine ⟨_, find_add_same _ _ _ _ _ _, ?_⟩
        exact ⟨fun _ => ⟨fun _ => Or.inr hnd, fun ha => by simp at ha, fun ha => absurd rfl ha⟩, fun hs => by simp at hs⟩
      · rcases h.tr o' (st2 o' ho' hY) hown with h1 | ⟨r, h1, h2⟩
        · exact Or.inl h1
        · exact Or.inr ⟨r, by rw [find_add_other _ _ _ _ _ _ _ hY]; exact h1, h2.shrinkA hY⟩


/-! ### the invariant through one prune step -/

theorem G_pruneOne {x : Ctx} (hx : CtxOK x) (group : String) (uids localNs : List String) (s : St) (live : Live) (RA RP W : List Id)
    (h : G x s RA (live.id :: RP) W) (hl : live ∈ x.P) (hu : live.uid ∉ uids) (hW : live.id ∈ W) :
    G x (pruneOne group uids localNs s live) RA RP W := by
  have hd : s.run.opts.dry = .none := by rw [h.run]; exact hx.dry
  obtain ⟨o1, o2, o3, hout⟩ := pruneOne_outcome group uids localNs s live hd
  generalize pruneOne group uids localNs s live = s' at *
  -- normal form of the outcome
  have hn : ∃ a uid, s'.mgr = s.mgr.add live.id .delete a uid 0 ∧ a ≠ .pending ∧
      (a = .succeeded → uid = live.uid ∧ ∀ o' ∈ s'.cl.objs, o'.id = live.id → hasFinalizer x.run live.id = true) ∧
      PruneStore s.cl s'.cl live.id ∧
      (s'.abandoned = s.abandoned ∨
        (s'.abandoned = s.abandoned ++ [live.id] ∧ ∀ o' ∈ s'.cl.objs, o'.id = live.id → o'.owner ≠ invId)) := by
    rcases hout with ⟨a, ha, hm, hcl, hab⟩ | ⟨hm, hcl, hab, hown⟩ | ⟨hm, hab, hst, hno⟩ | ⟨hm, hab, hst, hfin⟩
    · refine ⟨a, "", hm, ?_, ?_, by rw [hcl]; exact pruneStore_refl _ _, Or.inl hab⟩
      · rcases ha with ha | ha <;> simp [ha]
      · rcases ha with ha | ha <;> simp [ha]
    · refine ⟨.skipped, "", hm, by simp, by simp, by rw [hcl]; exact pruneStore_refl _ _, Or.inr ⟨hab, ?_⟩⟩
      rcases hown with hown | hown
      · rw [hcl]
        intro o' ho' hid hann
        have := (h.pobj live hl o' ho' hid).2 hann
        rw [hown] at this
        simp [invId] at this
      · exact absurd hown hu
    · exact ⟨.skipped, "", hm, by simp, by simp, hst, Or.inr ⟨hab, hno⟩⟩
    · exact ⟨.succeeded, live.uid, hm, by simp, fun _ => ⟨rfl, by rw [← h.run]; exact hfin⟩, hst, Or.inl hab⟩
  obtain ⟨a, uid, hm, hap, hsucc, ⟨hnu, hst⟩, habn⟩ := hn
  have hXA : live.id ∉ x.A := fun hA => hx.disj _ hA live hl rfl
  -- every object of the new store named Y has a predecessor named Y, annotated if it is
  have hpred : ∀ o' ∈ s'.cl.objs, ∃ o ∈ s.cl.objs, o.id = o'.id ∧ o.uid = o'.uid ∧ (o'.owner = invId → o.owner = invId) := by
    intro o' ho'
    rcases hst o' ho' with h1 | ⟨hid, cur, hcur, hcid, hu', hown⟩
    · exact ⟨o', h1, rfl, rfl, fun h => h⟩
    · exact ⟨cur, hcur, by rw [hid, hcid], hu'.symm, hown⟩
  have hab_old : ∀ Y ∈ s.abandoned, (∃ l ∈ x.P, l.id = Y) ∧ ∀ o ∈ s'.cl.objs, o.id = Y → o.owner ≠ invId := by
    intro Y hY
    obtain ⟨hl', hno⟩ := h.ab Y hY
    refine ⟨hl', ?_⟩
    intro o' ho' hid hann
    obtain ⟨o, ho, hoid, _, hown⟩ := hpred o' ho'
    exact hno o ho (hoid.trans hid) (hown hann)
  constructor
  · rw [o1]; exact h.run
  · rw [o2]; exact h.inval
  · rw [hnu]; exact h.nuid
  · intro o' ho'
    obtain ⟨o, ho, hoid, hou, _⟩ := hpred o' ho'
    have := h.prov o ho
    rw [hoid, hou] at this; exact this
  · intro l hl' o' ho' hid
    obtain ⟨o, ho, hoid, hou, hown⟩ := hpred o' ho'
    have := h.pobj l hl' o ho (hoid.trans hid)
    exact ⟨by rw [← hou]; exact this.1, fun hann => this.2 (hown hann)⟩
  · intro r hr
    rw [hm] at hr
    rcases mem_set _ _ _ hr with hr | hr
    · subst hr
      exact ⟨fun hs => by simp at hs, fun _ => ⟨live, hl, rfl, fun ha => (hsucc ha).1⟩⟩
    · exact h.mgr r hr
  · rcases habn with habn | ⟨habn, hno⟩
    · rw [habn]; exact hab_old
    · rw [habn]
      intro Y hY
      rcases List.mem_append.mp hY with hY | hY
      · exact hab_old Y hY
      · have : Y = live.id := by simpa using hY
        subst this
        exact ⟨⟨live, hl, rfl⟩, hno⟩
  · rw [o3]
    intro l hl' hfin ⟨o', ho', hid⟩
    obtain ⟨o, ho, hoid, _, _⟩ := hpred o' ho'
    exact h.cache l hl' hfin ⟨o, ho, hoid.trans hid⟩
  · rw [hm]
    intro o' ho' hown
    by_cases hY : o'.id = live.id
    · right
      rw [hY]
      refine ⟨_, find_add_same _ _ _ _ _ _, fun hs => by simp at hs, fun _ => ⟨fun ha => absurd ha hap, fun ha => ?_⟩⟩
      exact ⟨(hsucc ha).2 o' ho' hY, Or.inr (Or.inr ⟨rfl, hW⟩)⟩
    · have hold : o' ∈ s.cl.objs := by
        rcases hst o' ho' with h1 | ⟨hid, _⟩
        · exact h1
        · exact absurd hid hY
      rcases h.tr o' hold hown with h1 | ⟨r, h1, h2⟩
      · exact Or.inl h1
      · exact Or.inr ⟨r, by rw [find_add_other _ _ _ _ _ _ _ hY]; exact h1, h2.shrinkP hY⟩


/-! ### folds of apply / prune steps -/

theorem G_applyFold {x : Ctx} (hx : CtxOK x) (group : String) (l : List Id) (s : St) (RA RP W : List Id)
    (h : G x s (l ++ RA) RP W) (hA : ∀ i ∈ l, i ∈ x.A) (hnd : (l ++ RA).Nodup) (hman : ∀ i ∈ l, ∃ m ∈ x.run.objs, m.id = i) :
    G x (l.foldl (applyOne group) s) RA RP W := by
  induction l generalizing s with
  | nil => exact h
  | cons i is ih =>
    simp only [List.foldl_cons]
    have hnd' : i ∉ is ++ RA ∧ (is ++ RA).Nodup := by simpa using hnd
    refine ih _ (G_applyOne hx group s i (is ++ RA) RP W h (hA i (by simp)) hnd'.1 ?_) (fun j hj => hA j (by simp [hj])) hnd'.2
      (fun j hj => hman j (by simp [hj]))
    obtain ⟨m, hm, hid⟩ := hman i (by simp)
    obtain ⟨m', hm', _⟩ := CliUtils.GrammarL.manifestOf_some s i ⟨m, by rw [h.run]; exact hm, hid⟩
    rw [hm']; simp

theorem uids_ok {x : Ctx} (hx : CtxOK x) (s : St) (RA RP W : List Id) (h : G x s RA RP W) :
    ∀ l ∈ x.P, l.uid ∉ s.mgr.appliedUIDs := by
  intro l hl hmem
  unfold Mgr.appliedUIDs at hmem
  obtain ⟨r, hr, hu⟩ := List.mem_map.mp hmem
  obtain ⟨hrm, hcond⟩ := List.mem_filter.mp hr
  simp only [decide_eq_true_eq] at hcond
  obtain ⟨hA, hprov⟩ := (h.mgr r hrm).1 hcond.1
  rcases hprov with h0 | ⟨o0, ho0, hid0, hu0⟩ | ⟨k, hk, huk⟩
  · exact hcond.2.2 h0
  · have := hx.uidInj o0 ho0 l (hx.psub l hl) (by rw [hu0, hu])
    exact hx.disj r.id hA l hl (by rw [← this, hid0])
  · exact hx.fresh l (hx.psub l hl) k hk (by rw [← hu, huk])

theorem G_pruneFold {x : Ctx} (hx : CtxOK x) (group : String) (uids localNs : List String) (lives : List Live) (s : St)
    (RA RP W : List Id) (h : G x s RA (lives.map (·.id) ++ RP) W) (hP : ∀ l ∈ lives, l ∈ x.P)
    (hu : ∀ l ∈ x.P, l.uid ∉ uids) (hW : ∀ l ∈ lives, l.id ∈ W) :
    G x (lives.foldl (pruneOne group uids localNs) s) RA RP W := by
  induction lives generalizing s with
  | nil => exact h
  | cons l ls ih =>
    simp only [List.foldl_cons]
    exact ih _ (G_pruneOne hx group uids localNs s l RA _ W h (hP l (by simp)) (hu l (hP l (by simp))) (hW l (by simp)))
      (fun j hj => hP j (by simp [hj])) (fun j hj => hW j (by simp [hj]))

end CliUtils.FinalL

/-! ## the wait task: what it does to the table -/
namespace CliUtils.Wait
open CliUtils
variable {α : Type} [DecidableEq α]

theorem getObs_cons_other (cache : List (α × Obs)) (id x : α) (o : Obs) (h : x ≠ id) : getObs ((id, o) :: cache) x = getObs cache x := by
  have hb : (x == id) = false := by simp [h]
  simp [getObs, List.lookup, hb]

/-- every record of `m'` is a record of `m` up to the reconcile field -/
def MemStatic (m m' : Mgr α) : Prop := ∀ r ∈ m', ∃ r0 ∈ m, static r = static r0

theorem MemStatic.refl (m : Mgr α) : MemStatic m m := fun r hr => ⟨r, hr, rfl⟩
theorem MemStatic.trans {a b c : Mgr α} (h1 : MemStatic a b) (h2 : MemStatic b c) : MemStatic a c := by
  intro r hr
  obtain ⟨r1, hr1, e1⟩ := h2 r hr
  obtain ⟨r0, hr0, e0⟩ := h1 r1 hr1
  exact ⟨r0, hr0, e1.trans e0⟩

theorem MemStatic.setRc (m : Mgr α) (id : α) (rc : Reconcile) : MemStatic m ((m.setReconcile id rc).getD m) := by
  intro r hr
  obtain ⟨r0, h0, h1⟩ := CliUtils.FinalL.mem_setReconcile_getD m id rc r hr
  refine ⟨r0, h0, ?_⟩
  rcases h1 with h1 | h1 <;> subst h1 <;> rfl

/-- the lookup of `x` after recording reconcile outcome `rc` for `id` -/
def setRc (x id : α) (rc : Reconcile) (r : Rec α) : Rec α := if x = id then { r with reconcile := rc } else r

theorem startFold_find (c : Cond) (m : Mgr α) (cache : List (α × Obs)) (l : List α) (s : WState α)
    (hc : s.cond = c) (hca : s.cache = cache) (hm : CliUtils.Props.C06.MgrEquiv m s.mgr) (x : α) :
    (l.foldl startOne s).mgr.find? x =
      (s.mgr.find? x).map (fun r => if x ∈ l then { r with reconcile := rcOfEv (CliUtils.Props.C06.startEv c m (getObs cache x) x) } else r) ∧
    MemStatic s.mgr (l.foldl startOne s).mgr := by
  induction l generalizing s with
  | nil => simp [MemStatic.refl]
  | cons id rest ih =>
    have h1 := CliUtils.Props.C06.startOne_spec s id
    simp only [] at h1
    have hev : CliUtils.Props.C06.startEv s.cond s.mgr (getObs s.cache id) id = CliUtils.Props.C06.startEv c m (getObs cache id) id := by
      unfold CliUtils.Props.C06.startEv
      rw [hc, hca, (hm c (getObs cache id) id).1, (hm c (getObs cache id) id).2.1, (hm c (getObs cache id) id).2.2]
    rw [hev] at h1
    have ih' := ih (startOne s id) (h1.2.2.2.1.trans hc) (h1.2.2.2.2.1.trans hca)
      (by rw [h1.2.1]; exact CliUtils.Props.C06.MgrEquiv.setRc m s.mgr hm id _)
    simp only [List.foldl_cons]
    refine ⟨?_, MemStatic.trans (by rw [h1.2.1]; exact MemStatic.setRc _ _ _) ih'.2⟩
    rw [ih'.1, h1.2.1, find_setReconcile_getD, Option.map_map]
    congr 1
    funext r
    by_cases hx : x ∈ rest
    · simp only [Function.comp, hx, if_true, List.mem_cons, or_true]
      split <;> rfl
    · by_cases hxi : x = id
      · subst hxi; simp [Function.comp, hx]
      · simp [Function.comp, hx, hxi]

theorem start_find (ids : List α) (c : Cond) (m : Mgr α) (cache : List (α × Obs)) (x : α) :
    (start ids c m cache).mgr.find? x =
      (m.find? x).map (fun r => if x ∈ ids then { r with reconcile := rcOfEv (CliUtils.Props.C06.startEv c m (getObs cache x) x) } else r) ∧
    MemStatic m (start ids c m cache).mgr ∧ (start ids c m cache).cache = cache ∧ (start ids c m cache).ids = ids ∧
    (start ids c m cache).cond = c := by
  unfold start
  have h := startFold_find c m cache ids
    { ids := ids, cond := c, pending := [], failed := [], mgr := m, cache := cache, events := [], cancelled := false }
    rfl rfl (CliUtils.Props.C06.MgrEquiv.refl m) x
  have h2 := CliUtils.Props.C06.start_fold c m cache ids
    { ids := ids, cond := c, pending := [], failed := [], mgr := m, cache := cache, events := [], cancelled := false }
    rfl rfl (CliUtils.Props.C06.MgrEquiv.refl m)
  simp only [] at h2
  simp only [endIf_mgr, endIf_cache, endIf_ids, endIf_cond]
  exact ⟨h.1, h.2, h2.2.2.2.1, h2.2.2.2.2.2.2.2, h2.2.2.1⟩

theorem timeoutFold_find (l : List α) (s : WState α) (x : α) :
    (l.foldl (fun st id => emit st id .timeout) s).mgr.find? x =
      (s.mgr.find? x).map (fun r => if x ∈ l then { r with reconcile := .timeout } else r) ∧
    MemStatic s.mgr (l.foldl (fun st id => emit st id .timeout) s).mgr := by
  induction l generalizing s with
  | nil => simp [MemStatic.refl]
  | cons id rest ih =>
    simp only [List.foldl_cons]
    have ih' := ih (emit s id .timeout)
    refine ⟨?_, MemStatic.trans (by rw [emit_mgr]; exact MemStatic.setRc _ _ _) ih'.2⟩
    rw [ih'.1, emit_mgr, find_setReconcile_getD, Option.map_map]
    congr 1
    funext r
    by_cases hx : x ∈ rest
    · simp only [Function.comp, hx, if_true, List.mem_cons, or_true]
      split <;> rfl
    · by_cases hxi : x = id
      · subst hxi; simp [Function.comp, hx, rcOfEv]
      · simp [Function.comp, hx, hxi]

end CliUtils.Wait

namespace CliUtils.Wait
open CliUtils
variable {α : Type} [DecidableEq α]

theorem mem_remove_ne (l : List α) (x z : α) (hz : z ∈ l) (hne : z ≠ x) : z ∈ IdSet.remove l x := by
  induction l with
  | nil => cases hz
  | cons y ys ih =>
    simp only [IdSet.remove]
    split
    · rename_i hy
      have hzys : z ∈ ys := by
        rcases List.mem_cons.mp hz with h | h
        · exact absurd (h.trans hy) hne
        · exact h
      cases hl : ys.getLast? with
      | none =>
        have : ys = [] := by simpa using hl
        rw [this] at hzys; cases hzys
      | some last =>
        simp only []
        have := CliUtils.dropLast_append_of_getLast? ys last hl
        rw [← this] at hzys
        rcases List.mem_append.mp hzys with h | h
        · exact List.mem_cons_of_mem _ h
        · have : z = last := by simpa using h
          subst this; simp
    · rcases List.mem_cons.mp hz with h | h
      · subst h; simp
      · exact List.mem_cons_of_mem _ (ih h)

theorem inner_pending_spec (s : WState α) (id : α) (o : Obs) (h : getObs s.cache id = o) :
    (∀ p ∈ s.pending, p ≠ id → p ∈ (statusUpdateInner s id).pending) ∧
    (decide? s id o = some .pending → id ∈ (statusUpdateInner s id).pending) ∧
    (decide? s id o = none → (statusUpdateInner s id).pending = s.pending) := by
  unfold statusUpdateInner decide?
  simp only [h, handleChangedUID_eq]
  repeat' split
  all_goals
    refine ⟨fun p hp hne => ?_, fun hd => ?_, fun hd => ?_⟩
  all_goals first
    | exact hp
    | (simp at hd; done)
    | (first | exact hp | exact mem_remove_ne _ _ _ hp hne | exact List.mem_append_left _ hp)
    | (simp; done)
    | rfl
    | skip

end CliUtils.Wait

namespace CliUtils.Wait
open CliUtils
variable {α : Type} [DecidableEq α]

theorem decide_safe (s : WState α) (id : α) (o : Obs) (h1 : changedUID s.mgr o id = false)
    (h2 : reconciled s.cond s.mgr o id = false) (h3 : o.status ≠ .failed) :
    decide? s id o = none ∨ decide? s id o = some .pending := by
  unfold decide?
  simp only [h1, h2, h3]
  repeat' split
  all_goals simp_all

theorem statusUpdate_spec (w : WState α) (id : α) (o : Obs) :
    (statusUpdate w id o).cache = (id, o) :: w.cache ∧ (statusUpdate w id o).ids = w.ids ∧ (statusUpdate w id o).cond = w.cond ∧
    MemStatic w.mgr (statusUpdate w id o).mgr ∧
    ((statusUpdate w id o).cancelled = true → w.cancelled = true ∨ (statusUpdate w id o).pending = []) ∧
    ∃ e : Option WEv,
      (∀ x, (statusUpdate w id o).mgr.find? x =
         match e with | some ev => (w.mgr.find? x).map (setRc x id (rcOfEv ev)) | none => w.mgr.find? x) ∧
      (∀ p ∈ w.pending, p ≠ id → p ∈ (statusUpdate w id o).pending) ∧
      (e = some .pending → id ∈ (statusUpdate w id o).pending) ∧
      (e = none → (statusUpdate w id o).pending = w.pending) ∧
      (changedUID w.mgr o id = false → reconciled w.cond w.mgr o id = false → o.status ≠ .failed → e = none ∨ e = some .pending) := by
  unfold statusUpdate
  simp only []
  split
  · have h := inner_mgr_events (o := o) { w with cache := (id, o) :: w.cache } id (by simp)
    have hp := inner_pending_spec { w with cache := (id, o) :: w.cache } id o (by simp)
    refine ⟨by rw [endIf_cache, h.2.2.2.2.1], by rw [endIf_ids, h.2.2.1], by rw [endIf_cond, h.2.2.2.1], ?_, ?_,
      decide? { w with cache := (id, o) :: w.cache } id o, ?_, ?_, ?_, ?_, ?_⟩
    · rw [endIf_mgr, h.2.1]
      split
      · exact MemStatic.setRc _ _ _
      · exact MemStatic.refl _
    · rw [endIf_cancelled, endIf_pending, h.2.2.2.2.2]
      intro hc
      simp only [Bool.or_eq_true, List.isEmpty_iff] at hc
      exact hc
    · intro x
      rw [endIf_mgr, h.2.1]
      generalize decide? { w with cache := (id, o) :: w.cache } id o = e
      cases e with
      | none => rfl
      | some ev => simp only []; rw [find_setReconcile_getD]; rfl
    · intro p hp' hne; rw [endIf_pending]; exact hp.1 p hp' hne
    · intro he; rw [endIf_pending]; exact hp.2.1 he
    · intro he; rw [endIf_pending]; exact hp.2.2 he
    · intro h1 h2 h3
      exact decide_safe { w with cache := (id, o) :: w.cache } id o h1 h2 h3
  · refine ⟨rfl, rfl, rfl, MemStatic.refl _, fun h => Or.inl h, none, fun _ => rfl, fun p hp _ => hp, fun h => (by cases h), fun _ => rfl,
      fun _ _ _ => Or.inl rfl⟩

end CliUtils.Wait

namespace CliUtils.Wait
open CliUtils
variable {α : Type} [DecidableEq α]

theorem skipped_false (c : Cond) (m : Mgr α) (x : α) (r : Rec α) (hf : m.find? x = some r) (hs : r.strategy = .delete)
    (ha : r.actuation = .succeeded) : skipped c m x = false := by
  simp [skipped, Mgr.isActuation, hf, hs, ha]

theorem changedUID_false (m : Mgr α) (o : Obs) (x : α) (r : Rec α) (hf : m.find? x = some r)
    (hu : o.hasRes = true → o.uid = r.uid) : changedUID m o x = false := by
  simp only [changedUID, hf]
  by_cases hr : o.hasRes = true
  · simp [hu hr]
  · simp [hr]

theorem reconciled_false (m : Mgr α) (o : Obs) (x : α) (h : o.status ≠ .notFound) : reconciled .allNotFound m o x = false := by
  simp [reconciled, h]

theorem startEv_pending (m : Mgr α) (o : Obs) (x : α) (r : Rec α) (hf : m.find? x = some r) (hs : r.strategy = .delete)
    (ha : r.actuation = .succeeded) (hu : o.hasRes = true → o.uid = r.uid) (h : o.status ≠ .notFound) :
    CliUtils.Props.C06.startEv .allNotFound m o x = .pending := by
  unfold CliUtils.Props.C06.startEv
  rw [skipped_false _ m x r hf hs ha, changedUID_false m o x r hf hu, reconciled_false m o x h]
  simp

end CliUtils.Wait

namespace CliUtils.FinalL
open CliUtils CliUtils.Sys CliUtils.Props.C19 CliUtils.Props.C03 CliUtils.Props.C01 CliUtils.Wait

theorem Good.reW {x : Ctx} {RA RP W Wn : List Id} {X : Id} {r : Rec Id} (h : Good x RA RP W X r)
    (hw : r.strategy = .delete → r.actuation = .succeeded → r.reconcile = .pending → X ∈ W → X ∈ Wn) : Good x RA RP Wn X r := by
  refine ⟨h.1, fun hs => ⟨(h.2 hs).1, fun ha => ?_⟩⟩
  obtain ⟨h1, h2⟩ := (h.2 hs).2 ha
  refine ⟨h1, ?_⟩
  rcases h2 with h2 | h2 | h2
  · exact Or.inl h2
  · exact Or.inr (Or.inl h2)
  · exact Or.inr (Or.inr ⟨h2.1, hw hs ha h2.1 h2.2⟩)

theorem Good.setRc {x : Ctx} {RA RP W Wn : List Id} {X : Id} {r : Rec Id} (h : Good x RA RP W X r) (rc : Reconcile)
    (hrc : r.strategy = .delete → r.actuation = .succeeded → (rc = .failed ∨ rc = .timeout ∨ (rc = .pending ∧ X ∈ Wn))) :
    Good x RA RP Wn X { r with reconcile := rc } :=
  ⟨h.1, fun hs => ⟨(h.2 hs).1, fun ha => ⟨((h.2 hs).2 ha).1, hrc hs ha⟩⟩⟩

theorem RecOK.of_static {x : Ctx} {r r0 : Rec Id} (h : RecOK x r0) (hs : Wait.static r = Wait.static r0) : RecOK x r := by
  simp only [Wait.static, Prod.mk.injEq] at hs
  obtain ⟨h1, h2, h3, h4, _⟩ := hs
  unfold RecOK
  rw [h1, h2, h3, h4]
  exact h

/-- replace the table by one that differs only in reconcile fields -/
theorem G.replace_mgr {x : Ctx} {s s' : St} {RA RP W Wn : List Id} (h : G x s RA RP W) (h1 : s'.run = s.run) (h2 : s'.invalid = s.invalid)
    (h3 : s'.cl = s.cl) (h5 : s'.abandoned = s.abandoned) (h6 : s'.cache = s.cache) (hms : MemStatic s.mgr s'.mgr)
    (htr : ∀ o ∈ s.cl.objs, o.owner = invId → Tr x s.mgr RA RP W o.id → Tr x s'.mgr RA RP Wn o.id) : G x s' RA RP Wn := by
  constructor
  · rw [h1]; exact h.run
  · rw [h2]; exact h.inval
  · rw [h3]; exact h.nuid
  · rw [h3]; exact h.prov
  · rw [h3]; exact h.pobj
  · intro r hr
    obtain ⟨r0, hr0, hst⟩ := hms r hr
    exact (h.mgr r0 hr0).of_static hst
  · rw [h5, h3]; exact h.ab
  · rw [h6, h3]; exact h.cache
  · rw [h3]
    intro o ho hown
    exact htr o ho hown (h.tr o ho hown)

theorem flushWait_frame (group : String) (s : St) (w : Wait.WState Id) (n0 : Nat) :
    (flushWait group s w n0).cl = s.cl ∧ (flushWait group s w n0).run = s.run ∧ (flushWait group s w n0).invalid = s.invalid ∧
    (flushWait group s w n0).mgr = s.mgr ∧ (flushWait group s w n0).abandoned = s.abandoned ∧ (flushWait group s w n0).cache = s.cache ∧
    (flushWait group s w n0).cancelled = s.cancelled ∧ (flushWait group s w n0).watcherFailed = s.watcherFailed := by
  unfold flushWait
  generalize w.events.drop n0 = l
  induction l generalizing s with
  | nil => simp
  | cons e es ih => exact ih (s.emit (.wait group e.1 (wevName e.2)))

theorem obsOf_spec (c : Cluster) (d : Delivery) :
    (obsOf c d).status = d.status ∧
    ((obsOf c d).hasRes = true → ∃ l', c.find? d.id = some l' ∧ (obsOf c d).uid = if d.newUid then "uid-replaced" else l'.uid) := by
  unfold obsOf
  split
  · cases hf : c.find? d.id with
    | none => simp
    | some l' => simp
  · simp

/-- a delivery is harmless for prune objects with a finalizer: NotFound only after the environment removed the object, never a
replaced uid, never Failed -/
def DelOK (x : Ctx) (d : Delivery) : Prop :=
  ∀ l ∈ x.P, l.id = d.id → hasFinalizer x.run l.id = true →
    (d.status = .notFound → d.envRemove = true) ∧ d.newUid = false ∧ d.status ≠ .failed

theorem deliverState_frame (s : St) (d : Delivery) :
    (deliverState s d).cl = (if d.envRemove then s.cl.remove d.id else s.cl) ∧
    (deliverState s d).cache = (d.id, obsOf (deliverState s d).cl d) :: s.cache ∧
    (deliverState s d).run = s.run ∧ (deliverState s d).invalid = s.invalid ∧ (deliverState s d).mgr = s.mgr ∧
    (deliverState s d).abandoned = s.abandoned ∧ (deliverState s d).cancelled = s.cancelled ∧
    (deliverState s d).watcherFailed = s.watcherFailed := by
  unfold deliverState
  simp only []
  split <;> simp [St.emit]

theorem G_deliverState {x : Ctx} (s : St) (d : Delivery) (RA RP W : List Id) (h : G x s RA RP W) (hd : DelOK x d) :
    G x (deliverState s d) RA RP W := by
  obtain ⟨f1, f2, f3, f4, f5, f6, _, _⟩ := deliverState_frame s d
  generalize deliverState s d = s2 at *
  have hsub : ∀ o ∈ s2.cl.objs, o ∈ s.cl.objs := by
    intro o ho
    rw [f1] at ho
    split at ho
    · exact (mem_remove _ _ _ ho).1
    · exact ho
  have hnu : s2.cl.nextUid = s.cl.nextUid := by
    rw [f1]; split <;> rfl
  constructor
  · rw [f3]; exact h.run
  · rw [f4]; exact h.inval
  · rw [hnu]; exact h.nuid
  · exact fun o ho => h.prov o (hsub o ho)
  · exact fun l hl o ho hid => h.pobj l hl o (hsub o ho) hid
  · rw [f5]; exact h.mgr
  · rw [f6]
    intro X hX
    exact ⟨(h.ab X hX).1, fun o ho hid => (h.ab X hX).2 o (hsub o ho) hid⟩
  · intro l hl hfin ⟨o, ho, hid⟩
    rw [f2]
    by_cases hld : l.id = d.id
    · obtain ⟨hnf, hnew, _⟩ := hd l hl hld hfin
      obtain ⟨ost, ores⟩ := obsOf_spec s2.cl d
      unfold CacheOK
      rw [hld, Wait.getObs_cons_self]
      refine ⟨?_, ?_⟩
      · rw [ost]
        intro hst
        have hrem := hnf hst
        rw [f1, hrem] at ho
        simp only [if_true] at ho
        exact (mem_remove _ _ _ ho).2 (hid.trans hld)
      · intro hres
        obtain ⟨l', hl', hu⟩ := ores hres
        rw [hu, hnew]
        simp only [Bool.false_eq_true, if_false]
        have := find_some_mem _ _ _ hl'
        exact (h.pobj l hl l' (hsub l' this.1) (this.2.trans hld.symm)).1
    · have := h.cache l hl hfin ⟨o, hsub o ho, hid⟩
      unfold CacheOK at this ⊢
      rw [Wait.getObs_cons_other _ _ _ _ hld]
      exact this
  · rw [f5]
    exact fun o ho hown => h.tr o (hsub o ho) hown

end CliUtils.FinalL

namespace CliUtils.FinalL
open CliUtils CliUtils.Sys CliUtils.Props.C19 CliUtils.Props.C03 CliUtils.Props.C01 CliUtils.Wait

/-- invariant of the delivery loop of a wait task -/
structure WG (x : Ctx) (ids : List Id) (cond : Wait.Cond) (RA RP W' : List Id) (ws : WaitSt) : Prop where
  g : G x ws.s RA RP (ws.w.pending ++ W')
  wm : ws.w.mgr = ws.s.mgr
  wc : ws.w.cache = ws.s.cache
  wi : ws.w.ids = ids
  wcond : ws.w.cond = cond
  canc : ws.w.cancelled = true → ws.w.pending = [] ∨ ws.s.cancelled = true ∨ ws.s.watcherFailed = true

/-- the wait is a delete wait, or it does not name any prune object -/
def WaitKind (x : Ctx) (ids : List Id) (cond : Wait.Cond) : Prop :=
  cond = .allNotFound ∨ ∀ i ∈ ids, ∀ l ∈ x.P, l.id ≠ i

theorem deliverOne_WG {x : Ctx} (group : String) (n : Nat) (ids : List Id) (cond : Wait.Cond) (RA RP W' : List Id)
    (ws : WaitSt) (d : Delivery) (h : WG x ids cond RA RP W' ws) (hd : DelOK x d) (hk : WaitKind x ids cond) (hdin : d.id ∈ ids) :
    WG x ids cond RA RP W' (deliverOne group n ws d).1 := by
  unfold deliverOne
  simp only []
  split
  · exact h
  · rename_i hguard
    split
    · exact ⟨h.g.congr rfl rfl rfl rfl rfl rfl, h.wm, h.wc, h.wi, h.wcond, fun _ => Or.inr (Or.inl rfl)⟩
    · split
      · exact ⟨h.g.congr rfl rfl rfl rfl rfl rfl, h.wm, h.wc, h.wi, h.wcond, fun _ => Or.inr (Or.inr rfl)⟩
      · -- the delivery is made
        have hnc : ws.w.cancelled = false := by
          cases hc : ws.w.cancelled with
          | false => rfl
          | true => simp [hc] at hguard
        obtain ⟨f1, f2, f3, f4, f5, f6, f7, f8⟩ := deliverState_frame ws.s d
        have g2 := G_deliverState ws.s d RA RP (ws.w.pending ++ W') h.g hd
        generalize deliverState ws.s d = s2 at *
        have hsp := statusUpdate_spec { ws.w with mgr := s2.mgr } d.id (obsOf s2.cl d)
        generalize hw' : Wait.statusUpdate { ws.w with mgr := s2.mgr } d.id (obsOf s2.cl d) = w' at hsp
        obtain ⟨sc, si, sco, sms, scan, e, sfind, spend, sepend, senone, ssafe⟩ := hsp
        simp only [] at sc si sco sms scan sfind spend sepend senone ssafe
        obtain ⟨ff1, ff2, ff3, ff4, ff5, ff6, ff7, ff8⟩ := flushWait_frame group { s2 with mgr := w'.mgr } w' ws.w.events.length
        generalize flushWait group { s2 with mgr := w'.mgr } w' ws.w.events.length = s3 at *
        simp only [] at ff1 ff2 ff3 ff4 ff5 ff6 ff7 ff8
        refine ⟨?_, ff4.symm, by rw [sc, ff6, f2, h.wc], by rw [si]; exact h.wi, by rw [sco]; exact h.wcond, ?_⟩
        · -- the invariant
          refine g2.replace_mgr ff2 ff3 ff1 ff5 ff6 (by rw [ff4]; exact sms) ?_
          intro o ho hown htr
          rcases htr with h1 | ⟨r, hr, hgood⟩
          · exact Or.inl h1
          · right
            rw [ff4, sfind]
            cases e with
            | none =>
              refine ⟨r, hr, hgood.reW ?_⟩
              intro _ _ _ hmem
              rw [senone rfl]; exact hmem
            | some ev =>
              simp only [hr, Option.map_some]
              by_cases hX : o.id = d.id
              · refine ⟨_, rfl, ?_⟩
                simp only [Wait.setRc, hX, if_true]
                rw [← hX]
                refine hgood.setRc _ ?_
                intro hs ha
                -- a delete that succeeded on a live annotated object: the update can only say Pending
                obtain ⟨hrm, hrid⟩ := find_mem _ _ _ hr
                obtain ⟨l, hl, hlid, hluid⟩ := (g2.mgr r hrm).2 hs
                have hlX : l.id = o.id := hlid.trans hrid
                have hfin := ((hgood.2 hs).2 ha).1
                have hco := g2.cache l hl (by rw [hlX]; exact hfin) ⟨o, ho, hlX.symm⟩
                unfold CacheOK at hco
                rw [f2, hlX, hX, Wait.getObs_cons_self] at hco
                have hcond : cond = .allNotFound := by
                  rcases hk with hk | hk
                  · exact hk
                  · exfalso
                    exact hk d.id hdin l hl (hlX.trans hX)
                have hev := ssafe
                  (Wait.changedUID_false _ _ _ r (by rw [← hX]; exact hr) (fun hres => by rw [hco.2 hres, hluid ha]))
                  (by rw [h.wcond, hcond]; exact Wait.reconciled_false _ _ _ hco.1)
                  (by rw [(obsOf_spec s2.cl d).1]; exact (hd l hl (hlX.trans hX) (by rw [hlX]; exact hfin)).2.2)
                rcases hev with hev | hev
                · cases hev
                · injection hev with hev
                  subst hev
                  exact Or.inr (Or.inr ⟨rfl, List.mem_append_left _ (by rw [hX]; exact sepend rfl)⟩)
              · refine ⟨r, by simp [Wait.setRc, hX], hgood.reW ?_⟩
                intro _ _ _ hmem
                rcases List.mem_append.mp hmem with hm | hm
                · exact List.mem_append_left _ (spend _ hm hX)
                · exact List.mem_append_right _ hm
        · intro hc
          rcases scan hc with hc' | hc'
          · rw [hnc] at hc'; cases hc'
          · exact Or.inl hc'


theorem deliverChain_WG {x : Ctx} (group : String) (n : Nat) (ids : List Id) (cond : Wait.Cond) (RA RP W' : List Id)
    (ds : List Delivery) (ws : WaitSt) (h : WG x ids cond RA RP W' ws) (hd : ∀ d ∈ ds, DelOK x d ∧ d.id ∈ ids)
    (hk : WaitKind x ids cond) : WG x ids cond RA RP W' (deliverChain group n ws ds) := by
  induction ds generalizing ws with
  | nil => exact h
  | cons d ds ih =>
    simp only [deliverChain]
    have h1 := deliverOne_WG group n ids cond RA RP W' ws d h (hd d (by simp)).1 hk (hd d (by simp)).2
    split
    · exact ih _ h1 (fun d' hd' => hd d' (by simp [hd']))
    · exact h1

theorem getD_del_cases (run : Run) (hdel : DelScriptsOK run) (i : Id) :
    (run.del.lookup i).getD "gone" = "gone" ∨ (run.del.lookup i).getD "gone" = "finalizer" ∨
    (run.del.lookup i).getD "gone" = "finalizer-gone" := by
  cases hl : run.del.lookup i with
  | none => exact Or.inl rfl
  | some v => exact hdel i v hl

theorem scriptFor_ok (run : Run) (cond : Wait.Cond) (i : Id) :
    ∀ c ∈ scriptFor run cond i, ∀ d ∈ c, d.id = i ∧
      (cond = .allNotFound → DelScriptsOK run → hasFinalizer run i = true →
        (d.status = .notFound → d.envRemove = true) ∧ d.newUid = false ∧ d.status ≠ .failed) := by
  intro c hc d hd
  unfold scriptFor at hc
  cases cond with
  | allNotFound =>
    simp only [] at hc
    split at hc
    · simp only [List.mem_singleton] at hc; subst hc
      simp only [List.mem_singleton] at hd; subst hd
      exact ⟨rfl, fun _ _ _ => ⟨by simp, rfl, by simp⟩⟩
    · simp only [List.mem_singleton] at hc; subst hc
      simp only [List.mem_cons, List.not_mem_nil, or_false] at hd
      rcases hd with hd | hd <;> subst hd
      · exact ⟨rfl, fun _ _ _ => ⟨by simp, rfl, by simp⟩⟩
      · exact ⟨rfl, fun _ _ _ => ⟨fun _ => rfl, rfl, by simp⟩⟩
    · -- "replaced": not one of the `DelScriptsOK` scripts
      rename_i h3
      simp only [List.mem_singleton] at hc; subst hc
      simp only [List.mem_singleton] at hd; subst hd
      refine ⟨rfl, fun _ hdel _ => ?_⟩
      exfalso
      rcases getD_del_cases run hdel i with h | h | h <;> rw [h] at h3 <;> simp at h3
    · rename_i h1 h2 h3
      simp only [List.mem_singleton] at hc; subst hc
      simp only [List.mem_singleton] at hd; subst hd
      refine ⟨rfl, fun _ hdel hfin => ?_⟩
      exfalso
      unfold hasFinalizer at hfin
      rcases getD_del_cases run hdel i with h | h | h
      · rw [h] at hfin; simp at hfin
      · exact h1 h
      · exact h2 h
  | allCurrent =>
    simp only [] at hc
    refine ⟨?_, fun h => by cases h⟩
    split at hc <;> simp only [List.mem_singleton] at hc <;> subst hc <;>
      simp only [List.mem_cons, List.not_mem_nil, or_false] at hd
    all_goals first
      | (subst hd; rfl)
      | (rcases hd with hd | hd <;> subst hd <;> rfl)

theorem chains_ok {x : Ctx} (hx : CtxOK x) (ids : List Id) (cond : Wait.Cond) (hk : WaitKind x ids cond) :
    ∀ c ∈ ids.flatMap (scriptFor x.run cond), ∀ d ∈ c, DelOK x d ∧ d.id ∈ ids := by
  intro c hc d hd
  obtain ⟨i, hi, hci⟩ := List.mem_flatMap.mp hc
  obtain ⟨hid, hok⟩ := scriptFor_ok x.run cond i c hci d hd
  refine ⟨?_, by rw [hid]; exact hi⟩
  intro l hl hlid hfin
  rcases hk with hk | hk
  · exact hok hk hx.del (by rw [← hid, ← hlid]; exact hfin)
  · exact absurd (hlid.trans hid) (hk i hi l hl)

end CliUtils.FinalL

namespace CliUtils.FinalL
open CliUtils CliUtils.Sys CliUtils.Props.C19 CliUtils.Props.C03 CliUtils.Props.C01 CliUtils.Wait

/-- the state in which the delivery loop starts -/
theorem start_WG {x : Ctx} (group : String) (s : St) (ids : List Id) (cond : Wait.Cond) (RA RP W : List Id)
    (h : G x s RA RP W) (hk : WaitKind x ids cond) :
    WG x ids cond RA RP (W.filter (fun i => decide (i ∉ ids)))
      { s := flushWait group { { s with waitIdx := s.waitIdx + 1 } with mgr := (Wait.start ids cond s.mgr s.cache).mgr }
          (Wait.start ids cond s.mgr s.cache) 0,
        w := Wait.start ids cond s.mgr s.cache } := by
  have hsp := CliUtils.Props.C06.start_spec ids cond s.mgr s.cache
  have hsf := fun X => (Wait.start_find ids cond s.mgr s.cache X).1
  obtain ⟨_, hms, hca, hids, hco⟩ := Wait.start_find ids cond s.mgr s.cache (default : Id)
  generalize Wait.start ids cond s.mgr s.cache = w0 at *
  obtain ⟨ff1, ff2, ff3, ff4, ff5, ff6, ff7, ff8⟩ := flushWait_frame group { { s with waitIdx := s.waitIdx + 1 } with mgr := w0.mgr } w0 0
  generalize flushWait group { { s with waitIdx := s.waitIdx + 1 } with mgr := w0.mgr } w0 0 = s1 at *
  simp only [] at ff1 ff2 ff3 ff4 ff5 ff6 ff7 ff8
  refine ⟨?_, ff4.symm, by rw [ff6]; exact hca, hids, hco, ?_⟩
  · refine h.replace_mgr ff2 ff3 ff1 ff5 ff6 (by rw [ff4]; exact hms) ?_
    intro o ho hown htr
    rcases htr with h1 | ⟨r, hr, hgood⟩
    · exact Or.inl h1
    · right
      simp only [ff4, hsf, hr, Option.map_some]
      by_cases hin : o.id ∈ ids
      · refine ⟨_, rfl, ?_⟩
        simp only [hin, if_true]
        refine hgood.setRc _ ?_
        intro hs ha
        obtain ⟨hrm, hrid⟩ := find_mem _ _ _ hr
        obtain ⟨l, hl, hlid, hluid⟩ := (h.mgr r hrm).2 hs
        have hlX : l.id = o.id := hlid.trans hrid
        have hfin := ((hgood.2 hs).2 ha).1
        have hcache := h.cache l hl (by rw [hlX]; exact hfin) ⟨o, ho, hlX.symm⟩
        unfold CacheOK at hcache
        rw [hlX] at hcache
        have hcond : cond = .allNotFound := by
          rcases hk with hk | hk
          · exact hk
          · exact absurd hlX (hk o.id hin l hl)
        have hev : CliUtils.Props.C06.startEv cond s.mgr (Wait.getObs s.cache o.id) o.id = .pending := by
          rw [hcond]
          exact Wait.startEv_pending s.mgr _ o.id r hr hs ha (fun hres => by rw [hcache.2 hres, hluid ha]) hcache.1
        rw [hev]
        refine Or.inr (Or.inr ⟨rfl, List.mem_append_left _ ?_⟩)
        rw [hsp.2.1]
        exact List.mem_filter.mpr ⟨hin, by simp [hev]⟩
      · refine ⟨r, by simp [hin], hgood.reW ?_⟩
        intro _ _ _ hmem
        exact List.mem_append_right _ (List.mem_filter.mpr ⟨hmem, by simp [hin]⟩)
  · intro hc
    left
    have := hsp.2.2
    rw [hc] at this
    exact List.isEmpty_iff.mp this.symm


theorem timeout_G {x : Ctx} (group : String) (RA RP W' : List Id) (s : St) (w : Wait.WState Id) (n0 : Nat)
    (h : G x s RA RP (w.pending ++ W')) :
    G x (flushWait group { s with mgr := (Wait.timeout { w with mgr := s.mgr }).mgr } (Wait.timeout { w with mgr := s.mgr }) n0)
      RA RP W' := by
  have hf := fun X => (Wait.timeoutFold_find w.pending { w with mgr := s.mgr } X).1
  have hms := (Wait.timeoutFold_find w.pending { w with mgr := s.mgr } (default : Id)).2
  have hmgr : (Wait.timeout { w with mgr := s.mgr }).mgr = (w.pending.foldl (fun st id => Wait.emit st id .timeout) { w with mgr := s.mgr }).mgr := rfl
  obtain ⟨ff1, ff2, ff3, ff4, ff5, ff6, _, _⟩ := flushWait_frame group { s with mgr := (Wait.timeout { w with mgr := s.mgr }).mgr }
    (Wait.timeout { w with mgr := s.mgr }) n0
  generalize flushWait group { s with mgr := (Wait.timeout { w with mgr := s.mgr }).mgr } (Wait.timeout { w with mgr := s.mgr }) n0 = s3 at *
  simp only [] at ff1 ff2 ff3 ff4 ff5 ff6
  refine h.replace_mgr ff2 ff3 ff1 ff5 ff6 (by rw [ff4, hmgr]; exact hms) ?_
  intro o ho hown htr
  rcases htr with h1 | ⟨r, hr, hgood⟩
  · exact Or.inl h1
  · right
    simp only [ff4, hmgr, hf, hr, Option.map_some]
    by_cases hin : o.id ∈ w.pending
    · refine ⟨_, rfl, ?_⟩
      simp only [hin, if_true]
      exact hgood.setRc _ (fun _ _ => Or.inr (Or.inl rfl))
    · refine ⟨r, by simp [hin], hgood.reW ?_⟩
      intro _ _ _ hmem
      rcases List.mem_append.mp hmem with hm | hm
      · exact absurd hm hin
      · exact hm

/-- **the invariant through a wait task** that is not aborted: afterwards no live annotated object is left with a successful
delete whose reconcile is still pending among the waited ids -/
theorem G_runWait {x : Ctx} (hx : CtxOK x) (group : String) (s : St) (ids : List Id) (cond : Wait.Cond) (RA RP W : List Id)
    (h : G x s RA RP W) (hk : WaitKind x ids cond) :
    (runWait group s ids cond).2 = none → (runWait group s ids cond).1.cancelled = false →
    (runWait group s ids cond).1.watcherFailed = false →
    G x (runWait group s ids cond).1 RA RP (W.filter (fun i => decide (i ∉ ids))) := by
  unfold runWait
  simp only []
  have e0 := start_WG group s ids cond RA RP W h hk
  have hch := chains_ok hx ids cond hk
  rw [← h.run] at hch
  have efold : ∀ (chains : List (List Delivery)) (ws : WaitSt), (∀ c ∈ chains, ∀ d ∈ c, DelOK x d ∧ d.id ∈ ids) →
      WG x ids cond RA RP (W.filter (fun i => decide (i ∉ ids))) ws →
      WG x ids cond RA RP (W.filter (fun i => decide (i ∉ ids))) (chains.foldl (deliverChain group s.waitIdx) ws) := by
    intro chains
    induction chains with
    | nil => intro ws _ h; exact h
    | cons c cs ih =>
      intro ws hc h
      exact ih _ (fun c' hc' => hc c' (by simp [hc'])) (deliverChain_WG group s.waitIdx ids cond RA RP _ c ws h (hc c (by simp)) hk)
  have e1 := efold (ids.flatMap (scriptFor s.run cond)) _ hch e0
  generalize (ids.flatMap (scriptFor s.run cond)).foldl (deliverChain group s.waitIdx) _ = ws at e1
  have e2 : WG x ids cond RA RP (W.filter (fun i => decide (i ∉ ids)))
      (if !ws.stopped && !ws.w.cancelled && !ws.w.pending.isEmpty && decide (ws.s.run.cancel = CancelAt.wait s.waitIdx none) then
      ({ ws with s := { ws.s with cancelled := true }, w := Wait.cancel ws.w, stopped := true } : WaitSt) else ws) := by
    split
    · exact ⟨e1.g.congr rfl rfl rfl rfl rfl rfl, e1.wm, e1.wc, e1.wi, e1.wcond, fun _ => Or.inr (Or.inl rfl)⟩
    · exact e1
  generalize (if !ws.stopped && !ws.w.cancelled && !ws.w.pending.isEmpty && decide (ws.s.run.cancel = CancelAt.wait s.waitIdx none) then
      ({ ws with s := { ws.s with cancelled := true }, w := Wait.cancel ws.w, stopped := true } : WaitSt) else ws) = ws2 at e2
  split
  · rename_i hc
    intro _ hcan hwf
    rcases e2.canc hc with hp | hp | hp
    · have := e2.g
      rw [hp] at this
      exact this
    · rw [hp] at hcan; cases hcan
    · rw [hp] at hwf; cases hwf
  · split
    · intro he; cases he
    · intro _ _ _
      exact timeout_G group RA RP _ ws2.s ws2.w ws2.w.events.length e2.g

end CliUtils.FinalL

namespace CliUtils.FinalL
open CliUtils CliUtils.Sys CliUtils.Props.C19 CliUtils.Props.C03 CliUtils.Props.C01 CliUtils.Wait

/-! ### the runner, one task at a time -/

theorem runTasks_cons_safe (P : List Live) (ns : List String) (s : St) (t : Task) (ts : List Task)
    (h1 : Safe (runTask (s.emit (.group t.name (t.action s.run.destroy) "Started")) t P ns).1)
    (h2 : (runTask (s.emit (.group t.name (t.action s.run.destroy) "Started")) t P ns).2 = none →
          (runTask (s.emit (.group t.name (t.action s.run.destroy) "Started")) t P ns).1.watcherFailed = false →
          (runTask (s.emit (.group t.name (t.action s.run.destroy) "Started")) t P ns).1.cancelled = false →
          Safe (runTasks P ns ((runTask (s.emit (.group t.name (t.action s.run.destroy) "Started")) t P ns).1.emit
            (.group t.name (t.action s.run.destroy) "Finished")) ts)) :
    Safe (runTasks P ns s (t :: ts)) := by
  unfold runTasks
  simp only []
  generalize runTask (s.emit (.group t.name (t.action s.run.destroy) "Started")) t P ns = r at h1 h2
  have hs3 : Safe (r.1.emit (.group t.name (t.action s.run.destroy) "Finished")) := safe_of_eq _ _ h1 rfl rfl
  cases he : r.2 with
  | some k => exact safe_of_eq _ _ hs3 rfl rfl
  | none =>
    simp only []
    split
    · exact safe_of_eq _ _ hs3 rfl rfl
    · rename_i hw
      split
      · exact safe_of_eq _ _ hs3 rfl rfl
      · rename_i hc
        exact h2 he (by simpa [St.emit] using hc) (by simpa [St.emit] using hw)

/-- what holds between tasks: no orphan so far, the run invariant, and the stored inventory lists the whole apply set -/
structure Ph (x : Ctx) (s : St) (RA RP : List Id) : Prop where
  safe : Safe s
  g : G x s RA RP []
  listed : ∀ i ∈ x.A, Listed s.cl i

theorem listed_of_inv (c c' : Cluster) (h : c'.inv = c.inv) (i : Id) (hl : Listed c i) : Listed c' i := by
  obtain ⟨l, h1, h2⟩ := hl
  exact ⟨l, by rw [h]; exact h1, h2⟩

theorem filter_not_mem_self (l : List Id) : l.filter (fun i => decide (i ∉ l)) = [] := by
  rw [List.filter_eq_nil_iff]
  intro a ha
  simp [ha]


theorem safe_emit {s : St} (h : Safe s) (e : Ev) : Safe (s.emit e) := safe_of_eq _ _ h rfl rfl
theorem G.emit {x : Ctx} {s : St} {RA RP W : List Id} (h : G x s RA RP W) (e : Ev) : G x (s.emit e) RA RP W :=
  h.congr rfl rfl rfl rfl rfl rfl

/-- an apply task followed by its wait task -/
theorem apply_pair {x : Ctx} (hx : CtxOK x) (ns : List String) (na nw : String) (l : List Id) (ts : List Task) (RA RP : List Id) (s : St)
    (hl : ∀ i ∈ l, i ∈ x.A ∧ ∃ m ∈ x.run.objs, m.id = i) (hnd : (l ++ RA).Nodup) (h : Ph x s (l ++ RA) RP)
    (hrest : ∀ s', Ph x s' RA RP → Safe (runTasks x.P ns s' ts)) :
    Safe (runTasks x.P ns s (⟨na, .apply l⟩ :: ⟨nw, .wait l .allCurrent⟩ :: ts)) := by
  have hs0 := safe_emit h.safe (.group na ((⟨na, .apply l⟩ : Task).action s.run.destroy) "Started")
  have hg0 := h.g.emit (.group na ((⟨na, .apply l⟩ : Task).action s.run.destroy) "Started")
  have hs1 := applyFold_safe na l _ hs0 (fun i hi => h.listed i (hl i hi).1)
  have hg1 := G_applyFold hx na l _ RA RP [] hg0 (fun i hi => (hl i hi).1) hnd (fun i hi => (hl i hi).2)
  refine runTasks_cons_safe _ _ _ _ _ hs1.1 ?_
  intro _ _ _
  change Safe (runTasks x.P ns ((l.foldl (applyOne na) (s.emit (.group na ((⟨na, .apply l⟩ : Task).action s.run.destroy) "Started"))).emit
    (.group na ((⟨na, .apply l⟩ : Task).action s.run.destroy) "Finished")) (⟨nw, .wait l .allCurrent⟩ :: ts))
  generalize l.foldl (applyOne na) (s.emit (.group na ((⟨na, .apply l⟩ : Task).action s.run.destroy) "Started")) = sa at hs1 hg1
  have hinv1 : sa.cl.inv = s.cl.inv := hs1.2
  generalize hsb : sa.emit (.group na ((⟨na, .apply l⟩ : Task).action s.run.destroy) "Finished") = sb
  have hsbS : Safe sb := by rw [← hsb]; exact safe_emit hs1.1 _
  have hsbG : G x sb RA RP [] := by rw [← hsb]; exact hg1.emit _
  have hsbI : sb.cl.inv = s.cl.inv := by rw [← hsb]; exact hinv1
  have hs2 := runWait_safe nw (sb.emit (.group nw ((⟨nw, .wait l .allCurrent⟩ : Task).action sb.run.destroy) "Started")) l .allCurrent (safe_emit hsbS _)
  have hk : WaitKind x l .allCurrent := Or.inr (fun i hi l' hl' => hx.disj i (hl i hi).1 l' hl')
  have hg2 := G_runWait hx nw (sb.emit (.group nw ((⟨nw, .wait l .allCurrent⟩ : Task).action sb.run.destroy) "Started")) l .allCurrent RA RP []
    (hsbG.emit _) hk
  refine runTasks_cons_safe _ _ _ _ _ hs2.1 ?_
  intro he hwf hcan
  change (runWait nw (sb.emit (.group nw ((⟨nw, .wait l .allCurrent⟩ : Task).action sb.run.destroy) "Started")) l .allCurrent).2 = none at he
  change (runWait nw (sb.emit (.group nw ((⟨nw, .wait l .allCurrent⟩ : Task).action sb.run.destroy) "Started")) l .allCurrent).1.watcherFailed = false at hwf
  change (runWait nw (sb.emit (.group nw ((⟨nw, .wait l .allCurrent⟩ : Task).action sb.run.destroy) "Started")) l .allCurrent).1.cancelled = false at hcan
  change Safe (runTasks x.P ns ((runWait nw (sb.emit (.group nw ((⟨nw, .wait l .allCurrent⟩ : Task).action sb.run.destroy) "Started")) l .allCurrent).1.emit
    (.group nw ((⟨nw, .wait l .allCurrent⟩ : Task).action sb.run.destroy) "Finished")) ts)
  have hg3 := hg2 he hcan hwf
  generalize runWait nw (sb.emit (.group nw ((⟨nw, .wait l .allCurrent⟩ : Task).action sb.run.destroy) "Started")) l .allCurrent = rw at hs2 hg3
  refine hrest _ ⟨safe_emit hs2.1 _, (by simpa using hg3 : G x rw.1 RA RP []).emit _, ?_⟩
  intro i hi
  exact listed_of_inv s.cl _ (by simp only [emit_cl]; rw [hs2.2]; exact hsbI) i (h.listed i hi)


theorem runTasks_cons_safe' (P : List Live) (ns : List String) (s : St) (t : Task) (ts : List Task) (r : TaskRes)
    (hr : runTask (s.emit (.group t.name (t.action s.run.destroy) "Started")) t P ns = r)
    (h1 : Safe r.1)
    (h2 : r.2 = none → r.1.watcherFailed = false → r.1.cancelled = false →
          Safe (runTasks P ns (r.1.emit (.group t.name (t.action s.run.destroy) "Finished")) ts)) :
    Safe (runTasks P ns s (t :: ts)) := by
  subst hr
  exact runTasks_cons_safe P ns s t ts h1 h2

/-- a prune task followed by its wait task -/
theorem prune_pair {x : Ctx} (hx : CtxOK x) (ns : List String) (np nw : String) (l : List Id) (ts : List Task) (RA RP : List Id) (s : St)
    (hl : ∀ i ∈ l, ∃ o ∈ x.P, o.id = i) (h : Ph x s RA (l ++ RP))
    (hrest : ∀ s', Ph x s' RA RP → Safe (runTasks x.P ns s' ts)) :
    Safe (runTasks x.P ns s (⟨np, .prune l⟩ :: ⟨nw, .wait l .allNotFound⟩ :: ts)) := by
  generalize hact : (⟨np, .prune l⟩ : Task).action s.run.destroy = act
  generalize hs0' : s.emit (.group np act "Started") = s0
  have hs0 : Safe s0 := by rw [← hs0']; exact safe_emit h.safe _
  have hg0 : G x s0 RA (l ++ RP) l := by rw [← hs0']; exact (h.g.emit _).mono (W' := l) (by simp)
  have hi0 : s0.cl.inv = s.cl.inv := by rw [← hs0']; rfl
  have hlives := CliUtils.GrammarL.lives_ids x.P l hl
  have hsub : ∀ o ∈ l.filterMap (fun i => x.P.find? (fun o => o.id = i)), o ∈ x.P := by
    intro o ho
    obtain ⟨i, _, hf⟩ := List.mem_filterMap.mp ho
    exact List.mem_of_find?_eq_some hf
  have hs1 := pruneFold_safe np s0.mgr.appliedUIDs ns (l.filterMap (fun i => x.P.find? (fun o => o.id = i))) s0 hs0
  have hg1 := G_pruneFold hx np s0.mgr.appliedUIDs ns
    (l.filterMap (fun i => x.P.find? (fun o => o.id = i))) s0 RA RP l (by rw [hlives]; exact hg0) hsub
    (uids_ok hx _ _ _ _ hg0)
    (by
      intro o ho
      have : o.id ∈ (l.filterMap (fun i => x.P.find? (fun o => o.id = i))).map (·.id) := List.mem_map.mpr ⟨o, ho, rfl⟩
      rw [hlives] at this; exact this)
  refine runTasks_cons_safe' x.P ns s ⟨np, .prune l⟩ _
    ((l.filterMap (fun i => x.P.find? (fun o => o.id = i))).foldl (pruneOne np s0.mgr.appliedUIDs ns) s0, none)
    (by simp only [hact, hs0']; rfl) hs1.1 ?_
  intro _ _ _
  simp only [hact]
  generalize (l.filterMap (fun i => x.P.find? (fun o => o.id = i))).foldl (pruneOne np s0.mgr.appliedUIDs ns) s0 = sa at hs1 hg1
  generalize hsb : sa.emit (.group np act "Finished") = sb
  have hsbS : Safe sb := by rw [← hsb]; exact safe_emit hs1.1 _
  have hsbG : G x sb RA RP l := by rw [← hsb]; exact hg1.emit _
  have hsbI : sb.cl.inv = s.cl.inv := by rw [← hsb]; exact hs1.2.trans hi0
  generalize hact2 : (⟨nw, .wait l .allNotFound⟩ : Task).action sb.run.destroy = act2
  generalize hsc' : sb.emit (.group nw act2 "Started") = sc
  have hscS : Safe sc := by rw [← hsc']; exact safe_emit hsbS _
  have hscG : G x sc RA RP l := by rw [← hsc']; exact hsbG.emit _
  have hscI : sc.cl.inv = s.cl.inv := by rw [← hsc']; exact hsbI
  have hs2 := runWait_safe nw sc l .allNotFound hscS
  have hg2 := G_runWait hx nw sc l .allNotFound RA RP l hscG (Or.inl rfl)
  refine runTasks_cons_safe' x.P ns sb ⟨nw, .wait l .allNotFound⟩ _ (runWait nw sc l .allNotFound)
    (by simp only [hact2, hsc']; rfl) hs2.1 ?_
  intro he hwf hcan
  simp only [hact2]
  have hg3 := hg2 he hcan hwf
  rw [filter_not_mem_self] at hg3
  generalize runWait nw sc l .allNotFound = rw at hs2 hg3
  refine hrest _ ⟨safe_emit hs2.1 _, hg3.emit _, ?_⟩
  intro i hi
  exact listed_of_inv s.cl _ (by simp only [emit_cl]; rw [hs2.2]; exact hscI) i (h.listed i hi)

/-- the apply layers, then the rest of the plan -/
theorem apply_phase {x : Ctx} (hx : CtxOK x) (ns : List String) (rest : List Task) (RP : List Id)
    (hrest : ∀ s, Ph x s [] RP → Safe (runTasks x.P ns s rest)) :
    ∀ (L : List (List Id)) (c w : Nat) (s : St),
      (∀ l ∈ L, ∀ i ∈ l, i ∈ x.A ∧ ∃ m ∈ x.run.objs, m.id = i) → L.flatten.Nodup → Ph x s L.flatten RP →
      Safe (runTasks x.P ns s ((layerTasks true false L c w).1 ++ rest)) := by
  intro L
  induction L with
  | nil => intro c w s _ _ h; simpa [layerTasks] using hrest s h
  | cons l ls ih =>
    intro c w s hL hnd h
    simp only [layerTasks, Bool.false_eq_true, if_false, if_true, List.cons_append]
    simp only [List.flatten_cons] at hnd h
    exact apply_pair hx ns _ _ l _ ls.flatten RP s (hL l (by simp)) hnd h
      (fun s' h' => ih (c + 1) (w + 1) s' (fun l' hl' => hL l' (by simp [hl'])) (List.nodup_append.mp hnd).2.1 h')

/-- the prune layers, then the rest of the plan -/
theorem prune_phase {x : Ctx} (hx : CtxOK x) (ns : List String) (rest : List Task)
    (hrest : ∀ s, Ph x s [] [] → Safe (runTasks x.P ns s rest)) :
    ∀ (L : List (List Id)) (c w : Nat) (s : St),
      (∀ l ∈ L, ∀ i ∈ l, ∃ o ∈ x.P, o.id = i) → Ph x s [] L.flatten →
      Safe (runTasks x.P ns s ((layerTasks false false L c w).1 ++ rest)) := by
  intro L
  induction L with
  | nil => intro c w s _ h; simpa [layerTasks] using hrest s h
  | cons l ls ih =>
    intro c w s hL h
    simp only [layerTasks, Bool.false_eq_true, if_false, List.cons_append]
    simp only [List.flatten_cons] at h
    exact prune_pair hx ns _ _ l _ [] ls.flatten s (hL l (by simp)) h
      (fun s' h' => ih (c + 1) (w + 1) s' (fun l' hl' => hL l' (by simp [hl'])) h')

end CliUtils.FinalL

namespace CliUtils.FinalL
open CliUtils CliUtils.Sys CliUtils.Props.C19 CliUtils.Props.C03 CliUtils.Props.C01 CliUtils.Wait

/-! ### the layers of the plan cover the valid ids, once -/

theorem hydrate_flatten (lt : Id → Id → Bool) (X : List Id) (L : List (List Id)) (hnd : L.flatten.Nodup) :
    (Graph.hydrate lt (fun v => decide (v ∈ X)) L).flatten.Nodup ∧
    (∀ i, i ∈ (Graph.hydrate lt (fun v => decide (v ∈ X)) L).flatten ↔ i ∈ L.flatten ∧ i ∈ X) := by
  unfold Graph.hydrate
  induction L with
  | nil => simp
  | cons l ls ih =>
    simp only [List.flatten_cons, List.nodup_append] at hnd
    obtain ⟨ih1, ih2⟩ := ih hnd.2.1
    have hp := Graph.isort_perm lt (l.filter (fun v => decide (v ∈ X)))
    have hmem : ∀ i, i ∈ Graph.isort lt (l.filter (fun v => decide (v ∈ X))) ↔ i ∈ l ∧ i ∈ X := by
      intro i; rw [hp.mem_iff]; simp
    simp only [List.map_cons, List.filter_cons]
    split
    · simp only [List.flatten_cons, List.nodup_append, List.mem_append]
      refine ⟨⟨hp.nodup_iff.mpr (hnd.1.sublist List.filter_sublist), ih1, ?_⟩, ?_⟩
      · intro a ha b hb
        exact hnd.2.2 a ((hmem a).mp ha).1 b ((ih2 b).mp hb).1
      · intro i
        rw [hmem, ih2]
        constructor
        · rintro (h | h)
          · exact ⟨Or.inl h.1, h.2⟩
          · exact ⟨Or.inr h.1, h.2⟩
        · rintro ⟨h | h, h2⟩
          · exact Or.inl ⟨h, h2⟩
          · exact Or.inr ⟨h, h2⟩
    · rename_i hemp
      have hnil : Graph.isort lt (l.filter (fun v => decide (v ∈ X))) = [] := by simpa using hemp
      refine ⟨ih1, ?_⟩
      intro i
      rw [ih2]
      simp only [List.flatten_cons, List.mem_append]
      constructor
      · rintro ⟨h, h2⟩; exact ⟨Or.inr h, h2⟩
      · rintro ⟨h | h, h2⟩
        · have := (hmem i).mpr ⟨h, h2⟩
          rw [hnil] at this; cases this
        · exact ⟨h, h2⟩

/-- what `buildPlan` guarantees about its layers and id sets -/
theorem plan_facts (run : Run) (applyMs : List Manifest) (pruneObjs : List Live) (prev : List Id) (pe : Bool) :
    ∃ layers : List (List Id),
      (buildPlan run applyMs pruneObjs prev pe).tasks =
        planTasks run (buildPlan run applyMs pruneObjs prev pe).applyIds (buildPlan run applyMs pruneObjs prev pe).pruneIds layers prev pe ∧
      layers.flatten.Nodup ∧
      (∀ i ∈ (buildPlan run applyMs pruneObjs prev pe).applyIds, i ∈ layers.flatten) ∧
      (∀ i ∈ (buildPlan run applyMs pruneObjs prev pe).pruneIds, i ∈ layers.flatten) ∧
      (∀ i, i ∈ (buildPlan run applyMs pruneObjs prev pe).applyIds ↔
        (∃ m ∈ applyMs, m.id = i) ∧ i ∉ (buildPlan run applyMs pruneObjs prev pe).invalid) ∧
      (∀ i, i ∈ (buildPlan run applyMs pruneObjs prev pe).pruneIds ↔
        (∃ o ∈ pruneObjs, o.id = i) ∧ i ∉ (buildPlan run applyMs pruneObjs prev pe).invalid) := by
  unfold buildPlan
  simp only []
  generalize hfb : (if run.destroy then (pruneObjs.filter (fun o => fieldInvalid { id := o.id })).map (·.id)
      else (applyMs.filter fieldInvalid).map (·.id)) = fieldBad
  generalize hdobjs : (applyMs.filter (fun m => m.id ∉ dedup fieldBad)).map dobjOfManifest ++
      (pruneObjs.filter (fun o => o.id ∉ dedup fieldBad)).map dobjOfLive = dobjs
  generalize hde : DepEdges.dependencyEdges dobjs = de
  generalize hg : Graph.build (dobjs.map (·.id)) de.edges = g
  have hwf := CliUtils.Props.C14.build_wellformed (dobjs.map (·.id)) de.edges
  rw [hg] at hwf
  obtain ⟨hkn, _, hverts, _⟩ := hwf
  generalize hv : ({ fieldBad := fieldBad, depErrs := de.errors, cyc := Graph.cycleIds Ordering.less (Graph.sort g).2 } : Validation) = v
  have hinvFB : ∀ i, i ∈ dedup fieldBad → i ∈ v.invalid := by
    intro i hi
    rw [← hv]; unfold Validation.invalid
    simp only [mem_union]; exact Or.inl (Or.inl hi)
  have hinvCyc : ∀ i, i ∈ Graph.verts (Graph.sort g).2 → i ∈ v.invalid := by
    intro i hi
    rw [← hv]; unfold Validation.invalid
    simp only [mem_union]
    exact Or.inr ((CliUtils.Props.C14.cycleIds_perm Ordering.less _).mem_iff.mpr hi)
  have hpart := CliUtils.Props.C14.sort_partition g hkn
  have hnd := (CliUtils.Props.C14.sort_nodup g hkn).1
  have hcover : ∀ i, i ∈ Graph.verts g → i ∉ v.invalid → i ∈ (Graph.sort g).1.flatten := by
    intro i hi hninv
    rcases List.mem_append.mp (hpart.mem_iff.mpr hi) with h | h
    · exact h
    · exact absurd (hinvCyc i h) hninv
  refine ⟨(Graph.sort g).1, rfl, (List.nodup_append.mp hnd).1, ?_, ?_, ?_, ?_⟩
  · intro i hi
    obtain ⟨m, hm, rfl⟩ := List.mem_map.mp hi
    obtain ⟨hm1, hm2⟩ := List.mem_filter.mp hm
    have hm2' : m.id ∉ v.invalid := by simpa using hm2
    refine hcover _ ((hverts _).mpr (Or.inl ?_)) hm2'
    rw [← hdobjs]
    simp only [List.map_append, List.map_map, List.mem_append, List.mem_map, List.mem_filter]
    left
    exact ⟨m, ⟨hm1, by simpa using fun h => hm2' (hinvFB _ h)⟩, rfl⟩
  · intro i hi
    obtain ⟨o, ho, rfl⟩ := List.mem_map.mp hi
    obtain ⟨ho1, ho2⟩ := List.mem_filter.mp ho
    have ho2' : o.id ∉ v.invalid := by simpa using ho2
    refine hcover _ ((hverts _).mpr (Or.inl ?_)) ho2'
    rw [← hdobjs]
    simp only [List.map_append, List.map_map, List.mem_append, List.mem_map, List.mem_filter]
    right
    exact ⟨o, ⟨ho1, by simpa using fun h => ho2' (hinvFB _ h)⟩, rfl⟩
  · intro i
    simp only [List.mem_map, List.mem_filter, decide_eq_true_eq]
    constructor
    · rintro ⟨m, ⟨h1, h2⟩, rfl⟩; exact ⟨⟨m, h1, rfl⟩, h2⟩
    · rintro ⟨⟨m, h1, rfl⟩, h2⟩; exact ⟨m, ⟨h1, h2⟩, rfl⟩
  · intro i
    simp only [List.mem_map, List.mem_filter, decide_eq_true_eq]
    constructor
    · rintro ⟨m, ⟨h1, h2⟩, rfl⟩; exact ⟨⟨m, h1, rfl⟩, h2⟩
    · rintro ⟨⟨m, h1, rfl⟩, h2⟩; exact ⟨m, ⟨h1, h2⟩, rfl⟩

end CliUtils.FinalL

namespace CliUtils.FinalL
open CliUtils CliUtils.Sys CliUtils.Props.C19 CliUtils.Props.C03 CliUtils.Props.C01 CliUtils.Wait

/-! ### before the tasks -/

theorem invRead_frame (s : St) :
    s.invRead.1.cl = s.cl ∧ s.invRead.1.run = s.run ∧ s.invRead.1.mgr = s.mgr ∧ s.invRead.1.abandoned = s.abandoned ∧
    s.invRead.1.invalid = s.invalid ∧ s.invRead.1.cache = s.cache ∧ s.invRead.1.muts = s.muts := by
  unfold St.invRead; simp only []; split <;> simp

theorem pruneFold_spec (t : St) (ids : List Id) (acc : Option (List Live)) (P : List Live)
    (h : ids.foldl (fun (acc : Option (List Live)) i =>
      match acc with
      | none => none
      | some l =>
        if (scopeOf i.group i.kind).isNone then some l
        else match t.get i with
          | none => none
          | some none => some l
          | some (some o) => some (l ++ [o])) acc = some P) :
    ∃ P0, acc = some P0 ∧ (∀ l ∈ P0, l ∈ P) ∧ (∀ l ∈ P, l ∈ P0 ∨ (l ∈ t.cl.objs ∧ l.id ∈ ids)) ∧
      (∀ i ∈ ids, (scopeOf i.group i.kind).isSome → (∃ o ∈ t.cl.objs, o.id = i) → ∃ l ∈ P, l.id = i) := by
  induction ids generalizing acc with
  | nil =>
    simp only [List.foldl_nil] at h
    exact ⟨P, h, fun l hl => hl, fun l hl => Or.inl hl, by simp⟩
  | cons i is ih =>
    simp only [List.foldl_cons] at h
    obtain ⟨P1, h1, h2, h3, h4⟩ := ih _ h
    cases acc with
    | none => simp at h1
    | some P0 =>
      simp only [] at h1
      refine ⟨P0, rfl, ?_⟩
      by_cases hsc : (scopeOf i.group i.kind).isNone = true
      · simp only [hsc, if_true, Option.some.injEq] at h1
        subst h1
        refine ⟨h2, ?_, ?_⟩
        · intro l hl
          rcases h3 l hl with h | h
          · exact Or.inl h
          · exact Or.inr ⟨h.1, List.mem_cons_of_mem _ h.2⟩
        · intro j hj hs ha
          rcases List.mem_cons.mp hj with rfl | hj
          · rw [Option.isNone_iff_eq_none] at hsc; rw [hsc] at hs; cases hs
          · exact h4 j hj hs ha
      · simp only [hsc] at h1
        cases hg : t.get i with
        | none => simp [hg] at h1
        | some oo =>
          have hfind : t.cl.find? i = oo := by
            unfold St.get at hg
            split at hg
            · cases hg
            · simpa using hg
          cases oo with
          | none =>
            simp only [hg, Bool.false_eq_true, if_false, Option.some.injEq] at h1
            subst h1
            refine ⟨h2, ?_, ?_⟩
            · intro l hl
              rcases h3 l hl with h | h
              · exact Or.inl h
              · exact Or.inr ⟨h.1, List.mem_cons_of_mem _ h.2⟩
            · intro j hj hs ⟨o, ho, hoid⟩
              rcases List.mem_cons.mp hj with rfl | hj
              · exact absurd hoid (find_none_no_obj _ _ hfind o ho)
              · exact h4 j hj hs ⟨o, ho, hoid⟩
          | some o =>
            simp only [hg, Bool.false_eq_true, if_false, Option.some.injEq] at h1
            subst h1
            have ho := find_some_mem _ _ _ hfind
            refine ⟨fun l hl => h2 l (List.mem_append_left _ hl), ?_, ?_⟩
            · intro l hl
              rcases h3 l hl with h | h
              · rcases List.mem_append.mp h with h | h
                · exact Or.inl h
                · have : l = o := by simpa using h
                  subst this
                  exact Or.inr ⟨ho.1, by simp [ho.2]⟩
              · exact Or.inr ⟨h.1, List.mem_cons_of_mem _ h.2⟩
            · intro j hj hs ha
              rcases List.mem_cons.mp hj with rfl | hj
              · exact ⟨o, h2 o (by simp), ho.2⟩
              · exact h4 j hj hs ha

theorem getPruneObjs_spec (s : St) (applyIds : List Id) (P : List Live) (h : (getPruneObjs s applyIds).2 = some P) :
    (getPruneObjs s applyIds).1 = s.invRead.1 ∧
    (∀ l ∈ P, l ∈ s.cl.objs ∧ l.id ∈ s.cl.inv.getD [] ∧ l.id ∉ applyIds) ∧
    (∀ i ∈ s.cl.inv.getD [], i ∉ applyIds → (scopeOf i.group i.kind).isSome → (∃ o ∈ s.cl.objs, o.id = i) → ∃ l ∈ P, l.id = i) := by
  unfold getPruneObjs at h ⊢
  simp only [] at h ⊢
  have hfr := invRead_frame s
  have hsnd := invRead_snd s
  cases hr : s.invRead.2 with
  | none => rw [hr] at h; simp at h
  | some inv =>
    rw [hr] at h
    simp only [] at h ⊢
    have hinv : inv = s.cl.inv := by
      rw [hr] at hsnd
      split at hsnd
      · cases hsnd
      · simpa using hsnd
    subst hinv
    obtain ⟨P0, h0, _, h3, h4⟩ := pruneFold_spec s.invRead.1 _ _ P h
    simp only [Option.some.injEq] at h0
    subst h0
    refine ⟨trivial, ?_, ?_⟩
    · intro l hl
      rcases h3 l hl with h | h
      · cases h
      · rw [hfr.1] at h
        have := (mem_diff _ _ _).mp h.2
        exact ⟨h.1, this.1, this.2⟩
    · intro i hi hna hs ha
      exact h4 i ((mem_diff _ _ _).mpr ⟨hi, hna⟩) hs (by rw [hfr.1]; exact ha)

theorem foldl_emit_frame {β : Type} (f : β → Ev) (l : List β) (s : St) :
    (l.foldl (fun s e => s.emit (f e)) s).cl = s.cl ∧ (l.foldl (fun s e => s.emit (f e)) s).run = s.run ∧
    (l.foldl (fun s e => s.emit (f e)) s).mgr = s.mgr ∧ (l.foldl (fun s e => s.emit (f e)) s).abandoned = s.abandoned ∧
    (l.foldl (fun s e => s.emit (f e)) s).cache = s.cache ∧ (l.foldl (fun s e => s.emit (f e)) s).muts = s.muts := by
  induction l generalizing s with
  | nil => simp
  | cons e es ih => exact ih (s.emit (f e))

/-- the table registered by `prepare` (on an empty table) -/
def prepMgr (run : Run) (plan : Plan) (P : List Live) : Mgr Id :=
  let m1 := plan.applyIds.foldl (fun (m : Mgr Id) i => m.add i .apply .pending) ([] : Mgr Id)
  let m2 := if (run.destroy || !run.opts.noPrune) && !plan.pruneIds.isEmpty then
      plan.pruneIds.foldl (fun (m : Mgr Id) i => m.add i .delete .pending) m1 else m1
  if !run.destroy && run.opts.noPrune then P.foldl (fun (m : Mgr Id) o => m.add o.id .delete .skipped) m2 else m2

theorem prepare_frame (s : St) (plan : Plan) (P : List Live) (hm : s.mgr = []) :
    (prepare s plan P).cl = s.cl ∧ (prepare s plan P).run = s.run ∧ (prepare s plan P).mgr = prepMgr s.run plan P ∧
    (prepare s plan P).abandoned = s.abandoned ∧ (prepare s plan P).cache = s.cache ∧ (prepare s plan P).muts = s.muts ∧
    (prepare s plan P).invalid = plan.invalid := by
  have hf := foldl_emit_frame (fun (e : List Id × String) => Ev.validation e.1 e.2) plan.valErrors s
  unfold prepare prepMgr
  simp only []
  refine ⟨hf.1, hf.2.1, ?_, hf.2.2.2.1, hf.2.2.2.2.1, hf.2.2.2.2.2, trivial⟩
  rw [hf.2.2.1, hm]

end CliUtils.FinalL

namespace CliUtils.FinalL
open CliUtils CliUtils.Sys CliUtils.Props.C19 CliUtils.Props.C03 CliUtils.Props.C01 CliUtils.Wait

/-! ### steps that leave the objects alone (inventory reads and writes) -/

structure ObjsFrame (s s' : St) : Prop where
  objs : s'.cl.objs = s.cl.objs
  nuid : s.cl.nextUid ≤ s'.cl.nextUid
  run : s'.run = s.run
  mgr : s'.mgr = s.mgr
  ab : s'.abandoned = s.abandoned
  inval : s'.invalid = s.invalid
  cache : s'.cache = s.cache

theorem ObjsFrame.refl (s : St) : ObjsFrame s s := ⟨rfl, Nat.le_refl _, rfl, rfl, rfl, rfl, rfl⟩

theorem ObjsFrame.invRead {s t : St} (h : ObjsFrame s t) : ObjsFrame s t.invRead.1 := by
  obtain ⟨f1, f2, f3, f4, f5, f6, _⟩ := invRead_frame t
  exact ⟨by rw [f1]; exact h.objs, by rw [f1]; exact h.nuid, f2.trans h.run, f3.trans h.mgr, f4.trans h.ab, f5.trans h.inval, f6.trans h.cache⟩

theorem ObjsFrame.mutReq {s t : St} (h : ObjsFrame s t) (verb : String) (id : Id) (dry : Bool) (pre prop : String)
    (eff : Cluster → Cluster × String) (he : (eff t.cl).1.objs = t.cl.objs ∧ t.cl.nextUid ≤ (eff t.cl).1.nextUid) :
    ObjsFrame s (t.mutReq verb id dry pre prop eff).1 := by
  obtain ⟨f1, f2, f3, f4, f5⟩ := mutReq_frame t verb id dry pre prop eff
  refine ⟨?_, ?_, f2.trans h.run, f1.trans h.mgr, f3.trans h.ab, f4.trans h.inval, f5.trans h.cache⟩
  · rcases mutReq_cases t verb id dry pre prop eff with hc | hc
    · rw [hc.1]; exact h.objs
    · rw [hc.1, he.1]; exact h.objs
  · rcases mutReq_cases t verb id dry pre prop eff with hc | hc
    · rw [hc.1]; exact h.nuid
    · rw [hc.1]; exact Nat.le_trans h.nuid he.2

theorem G.frame {x : Ctx} {s s' : St} {RA RP W : List Id} (h : G x s RA RP W) (f : ObjsFrame s s') : G x s' RA RP W := by
  constructor
  · rw [f.run]; exact h.run
  · rw [f.inval]; exact h.inval
  · exact Nat.le_trans h.nuid f.nuid
  · rw [f.objs]; exact h.prov
  · rw [f.objs]; exact h.pobj
  · rw [f.mgr]; exact h.mgr
  · rw [f.ab, f.objs]; exact h.ab
  · rw [f.cache, f.objs]; exact h.cache
  · rw [f.objs, f.mgr]; exact h.tr

theorem invCreateEffect_objs (ids : List Id) (c : Cluster) :
    (invCreateEffect ids c).1.objs = c.objs ∧ c.nextUid ≤ (invCreateEffect ids c).1.nextUid := by
  simp [invCreateEffect, Cluster.freshUid]

theorem invUpdateEffect_objs (ids : List Id) (c : Cluster) :
    (invUpdateEffect ids c).1.objs = c.objs ∧ c.nextUid ≤ (invUpdateEffect ids c).1.nextUid := by
  unfold invUpdateEffect
  split <;> simp

theorem mergeInv_objsFrame {s t : St} (h : ObjsFrame s t) (ids : List Id) : ObjsFrame s (mergeInv t ids).1 := by
  unfold mergeInv
  simp only []
  repeat' split
  all_goals first
    | exact h.invRead
    | exact h.invRead.invRead
    | exact h.invRead.mutReq _ _ _ _ _ _ (invCreateEffect_objs _ _)
    | exact h.invRead.invRead.mutReq _ _ _ _ _ _ (invUpdateEffect_objs _ _)

theorem nsCreateEffect_exists (run : Run) (c : Cluster) (h : ∃ o ∈ c.objs, o.id = nsInv) : nsCreateEffect run c = (c, "exists") := by
  unfold nsCreateEffect
  cases hf : c.find? nsInv with
  | some o => rfl
  | none =>
    obtain ⟨o, ho, hid⟩ := h
    exact absurd hid (find_none_no_obj _ _ hf o ho)

/-- the inventory-add task: no orphan, the invariant survives, and afterwards the stored inventory lists the apply set -/
theorem invAdd_step {x : Ctx} (s : St) (ids RA RP : List Id) (hs : Safe s) (h : G x s RA RP [])
    (hd : dryOf s = false) (hns : nsInv ∈ ids → ∃ o ∈ s.cl.objs, o.id = nsInv) :
    Safe (runInvAdd s ids).1 ∧
    ((runInvAdd s ids).2 = none → G x (runInvAdd s ids).1 RA RP [] ∧ ∀ i ∈ ids, Listed (runInvAdd s ids).1.cl i) := by
  unfold runInvAdd
  split
  · rename_i hc
    have hin : nsInv ∈ ids := by
      simp only [Bool.and_eq_true, decide_eq_true_eq] at hc; exact hc.1
    have heff := nsCreateEffect_exists s.run s.cl (hns hin)
    have hfr : ObjsFrame s (s.mutReq "create" nsInv false "" "" (nsCreateEffect s.run)).1 :=
      (ObjsFrame.refl s).mutReq _ _ _ _ _ _ (by rw [heff]; exact ⟨rfl, Nat.le_refl _⟩)
    have hsafe : Safe (s.mutReq "create" nsInv false "" "" (nsCreateEffect s.run)).1 :=
      safe_mutReq s _ _ _ _ _ _ hs (fun hc => by rw [heff]; exact hc)
    have hdry : dryOf (s.mutReq "create" nsInv false "" "" (nsCreateEffect s.run)).1 = false := by
      unfold dryOf at hd ⊢; rw [hfr.run]; exact hd
    simp only []
    generalize (s.mutReq "create" nsInv false "" "" (nsCreateEffect s.run)) = r at hfr hsafe hdry
    split
    · exact ⟨hsafe, fun he => by cases he⟩
    · refine ⟨mergeInv_safe r.1 ids hsafe, fun he => ⟨h.frame (mergeInv_objsFrame hfr ids), ?_⟩⟩
      obtain ⟨l, hl, hsup, _, _⟩ := merge_superset r.1 ids he hdry
      exact fun i hi => ⟨l, hl, hsup i hi⟩
  · refine ⟨mergeInv_safe s ids hs, fun he => ⟨h.frame (mergeInv_objsFrame (ObjsFrame.refl s) ids), ?_⟩⟩
    obtain ⟨l, hl, hsup, _, _⟩ := merge_superset s ids he hd
    exact fun i hi => ⟨l, hl, hsup i hi⟩

/-! ### the statuses reported before the sync event -/

theorem getObs_mem (cache : List (Id × Wait.Obs)) (id : Id) :
    Wait.getObs cache id = Wait.Obs.missing ∨ (id, Wait.getObs cache id) ∈ cache := by
  induction cache with
  | nil => left; rfl
  | cons e es ih =>
    obtain ⟨k, o⟩ := e
    by_cases hk : id = k
    · subst hk; right; rw [Wait.getObs_cons_self]; simp
    · rw [Wait.getObs_cons_other _ _ _ _ hk]
      rcases ih with h | h
      · exact Or.inl h
      · exact Or.inr (List.mem_cons_of_mem _ h)

/-- every cached observation is a Current report of a stored object, with its uid -/
def CacheInit (s : St) : Prop :=
  ∀ e ∈ s.cache, e.2.status = .current ∧ ∃ l ∈ s.cl.objs, l.id = e.1 ∧ e.2.uid = l.uid

theorem initFold_spec (l : List Id) (s : St) (hc : CacheInit s) :
    let s' := l.foldl (fun (s : St) id =>
      match s.cl.find? id with
      | none => s
      | some l =>
        let s1 : St := { s with cache := (id, { status := .current, hasRes := true, gen := l.gen, uid := l.uid }) :: s.cache }
        if s1.run.opts.emitStatus then s1.emit (.status id "Current") else s1) s
    s'.cl = s.cl ∧ s'.run = s.run ∧ s'.mgr = s.mgr ∧ s'.abandoned = s.abandoned ∧ s'.invalid = s.invalid ∧ s'.muts = s.muts ∧
    CacheInit s' := by
  induction l generalizing s with
  | nil => exact ⟨rfl, rfl, rfl, rfl, rfl, rfl, hc⟩
  | cons i is ih =>
    simp only [List.foldl_cons]
    cases hf : s.cl.find? i with
    | none => exact ih s hc
    | some o =>
      simp only []
      have ho := find_some_mem _ _ _ hf
      have hc1 : CacheInit { s with cache := (i, { status := .current, hasRes := true, gen := o.gen, uid := o.uid }) :: s.cache } := by
        intro e he
        rcases List.mem_cons.mp he with he | he
        · subst he; exact ⟨rfl, o, ho.1, ho.2, rfl⟩
        · exact hc e he
      split
      · exact ih ({ s with cache := (i, { status := .current, hasRes := true, gen := o.gen, uid := o.uid }) :: s.cache }.emit (.status i "Current"))
          (fun e he => hc1 e he)
      · exact ih { s with cache := (i, { status := .current, hasRes := true, gen := o.gen, uid := o.uid }) :: s.cache } hc1

theorem initialStatuses_spec (s : St) (hc : CacheInit s) :
    (initialStatuses s).cl = s.cl ∧ (initialStatuses s).run = s.run ∧ (initialStatuses s).mgr = s.mgr ∧
    (initialStatuses s).abandoned = s.abandoned ∧ (initialStatuses s).invalid = s.invalid ∧ (initialStatuses s).muts = s.muts ∧
    CacheInit (initialStatuses s) := by
  unfold initialStatuses
  split
  · exact ⟨rfl, rfl, rfl, rfl, rfl, rfl, hc⟩
  · exact initFold_spec s.run.initial s hc

end CliUtils.FinalL

namespace CliUtils.FinalL
open CliUtils CliUtils.Sys CliUtils.Props.C19 CliUtils.Props.C03 CliUtils.Props.C01 CliUtils.Wait

/-! ### the invariant holds when the first task starts -/

theorem prepMgr_mem (run : Run) (plan : Plan) (P : List Live) (r : Rec Id) (h : r ∈ prepMgr run plan P) :
    (∃ i ∈ plan.applyIds, r = { id := i, strategy := .apply, actuation := .pending, reconcile := .pending, uid := "", gen := 0 }) ∨
    (∃ i ∈ plan.pruneIds, r = { id := i, strategy := .delete, actuation := .pending, reconcile := .pending, uid := "", gen := 0 }) ∨
    (∃ o ∈ P, r = { id := o.id, strategy := .delete, actuation := .skipped, reconcile := .pending, uid := "", gen := 0 }) := by
  unfold prepMgr at h
  simp only [] at h
  have h1 : ∀ r, r ∈ plan.applyIds.foldl (fun (m : Mgr Id) i => m.add i .apply .pending) ([] : Mgr Id) →
      ∃ i ∈ plan.applyIds, r = { id := i, strategy := .apply, actuation := .pending, reconcile := .pending, uid := "", gen := 0 } := by
    intro r hr
    rcases mem_foldl_add .apply .pending _ _ r hr with h | h
    · cases h
    · exact h
  have h2 : ∀ r, r ∈ (if (run.destroy || !run.opts.noPrune) && !plan.pruneIds.isEmpty then
      plan.pruneIds.foldl (fun (m : Mgr Id) i => m.add i .delete .pending)
        (plan.applyIds.foldl (fun (m : Mgr Id) i => m.add i .apply .pending) ([] : Mgr Id))
      else plan.applyIds.foldl (fun (m : Mgr Id) i => m.add i .apply .pending) ([] : Mgr Id)) →
      (∃ i ∈ plan.applyIds, r = { id := i, strategy := .apply, actuation := .pending, reconcile := .pending, uid := "", gen := 0 }) ∨
      (∃ i ∈ plan.pruneIds, r = { id := i, strategy := .delete, actuation := .pending, reconcile := .pending, uid := "", gen := 0 }) := by
    intro r hr
    split at hr
    · rcases mem_foldl_add .delete .pending _ _ r hr with h | h
      · exact Or.inl (h1 r h)
      · exact Or.inr h
    · exact Or.inl (h1 r hr)
  split at h
  · rw [← List.foldl_map (f := fun (o : Live) => o.id) (g := fun (m : Mgr Id) i => m.add i .delete .skipped)] at h
    rcases mem_foldl_add .delete .skipped _ _ r h with h | ⟨i, hi, h⟩
    · rcases h2 r h with h | h
      · exact Or.inl h
      · exact Or.inr (Or.inl h)
    · obtain ⟨o, ho, rfl⟩ := List.mem_map.mp hi
      exact Or.inr (Or.inr ⟨o, ho, h⟩)
  · rcases h2 r h with h | h
    · exact Or.inl h
    · exact Or.inr (Or.inl h)

theorem prepMgr_find (run : Run) (plan : Plan) (P : List Live) (X : Id) :
    (prepMgr run plan P).find? X =
      if (!run.destroy && run.opts.noPrune) = true ∧ X ∈ P.map (·.id) then
        some { id := X, strategy := .delete, actuation := .skipped, reconcile := .pending, uid := "", gen := 0 }
      else if ((run.destroy || !run.opts.noPrune) && !plan.pruneIds.isEmpty) = true ∧ X ∈ plan.pruneIds then
        some { id := X, strategy := .delete, actuation := .pending, reconcile := .pending, uid := "", gen := 0 }
      else if X ∈ plan.applyIds then
        some { id := X, strategy := .apply, actuation := .pending, reconcile := .pending, uid := "", gen := 0 }
      else none := by
  unfold prepMgr
  simp only []
  have e1 : (plan.applyIds.foldl (fun (m : Mgr Id) i => m.add i .apply .pending) ([] : Mgr Id)).find? X =
      if X ∈ plan.applyIds then some { id := X, strategy := .apply, actuation := .pending, reconcile := .pending, uid := "", gen := 0 }
      else none := by
    rw [find_foldl_add_pending]; rfl
  generalize (!run.destroy && run.opts.noPrune) = b2
  generalize ((run.destroy || !run.opts.noPrune) && !plan.pruneIds.isEmpty) = b1
  have e2 : (plan.pruneIds.foldl (fun (m : Mgr Id) i => m.add i .delete .pending)
      (plan.applyIds.foldl (fun (m : Mgr Id) i => m.add i .apply .pending) ([] : Mgr Id))).find? X =
      if X ∈ plan.pruneIds then some { id := X, strategy := .delete, actuation := .pending, reconcile := .pending, uid := "", gen := 0 }
      else if X ∈ plan.applyIds then some { id := X, strategy := .apply, actuation := .pending, reconcile := .pending, uid := "", gen := 0 }
      else none := by
    rw [find_foldl_add_pending, e1]
  have e3 : ∀ m : Mgr Id, (P.foldl (fun (m : Mgr Id) o => m.add o.id .delete .skipped) m).find? X =
      if X ∈ P.map (·.id) then some { id := X, strategy := .delete, actuation := .skipped, reconcile := .pending, uid := "", gen := 0 }
      else m.find? X := by
    intro m
    rw [← List.foldl_map (f := fun (o : Live) => o.id) (g := fun (m : Mgr Id) i => m.add i .delete .skipped), find_foldl_add_pending]
  cases b2 <;> cases b1 <;> simp only [Bool.false_eq_true, false_and, true_and, if_false, if_true, e1, e2, e3]

theorem G_init (x : Ctx) (hx : CtxOK x) (s : St) (plan : Plan) (RA RP : List Id)
    (hrun : s.run = x.run) (hinval : s.invalid = x.invalid) (hcl : s.cl = x.c0) (hmgr : s.mgr = prepMgr x.run plan x.P)
    (hab : s.abandoned = []) (hcache : CacheInit s) (hA : x.A = plan.applyIds) (hinv : x.invalid = plan.invalid)
    (hRA : ∀ i ∈ plan.applyIds, i ∈ RA)
    (hRP : (x.run.destroy || !x.run.opts.noPrune) = true → ∀ i ∈ plan.pruneIds, i ∈ RP)
    (hpid : ∀ i, i ∈ plan.pruneIds ↔ (∃ o ∈ x.P, o.id = i) ∧ i ∉ plan.invalid)
    (htrack : ∀ o ∈ x.c0.objs, o.owner = invId →
      o.id ∈ x.prev ∧ (o.id ∈ plan.applyIds ∨ o.id ∈ plan.invalid ∨ ∃ l ∈ x.P, l.id = o.id)) :
    G x s RA RP [] := by
  have hpobj : ∀ l ∈ x.P, ∀ o ∈ x.c0.objs, o.id = l.id → o = l := fun l hl o ho hid => hx.idsInj o ho l (hx.psub l hl) hid
  constructor
  · exact hrun
  · exact hinval
  · rw [hcl]; exact Nat.le_refl _
  · rw [hcl]; exact fun o ho => Or.inl ⟨o, ho, rfl, rfl⟩
  · rw [hcl]
    intro l hl o ho hid
    rw [hpobj l hl o ho hid]
    exact ⟨rfl, fun h => h⟩
  · rw [hmgr]
    intro r hr
    rcases prepMgr_mem _ _ _ r hr with ⟨i, hi, rfl⟩ | ⟨i, hi, rfl⟩ | ⟨o, ho, rfl⟩
    · exact ⟨fun _ => ⟨by rw [hA]; exact hi, Or.inl rfl⟩, fun h => by simp at h⟩
    · obtain ⟨⟨o, ho, hoid⟩, _⟩ := (hpid i).mp hi
      exact ⟨fun h => by simp at h, fun _ => ⟨o, ho, hoid, fun h => by simp at h⟩⟩
    · exact ⟨fun h => by simp at h, fun _ => ⟨o, ho, rfl, fun h => by simp at h⟩⟩
  · rw [hab]; intro X hX; cases hX
  · rw [hcl]
    intro l hl _ _
    unfold CacheOK
    rcases getObs_mem s.cache l.id with h | h
    · rw [h]; exact ⟨by simp [Wait.Obs.missing], by simp [Wait.Obs.missing]⟩
    · obtain ⟨h1, l', hl', hid', hu'⟩ := hcache _ h
      simp only [] at h1 hid' hu'
      rw [hcl] at hl'
      refine ⟨by rw [h1]; simp, fun _ => ?_⟩
      rw [hu', hpobj l hl l' hl' hid']
  · rw [hcl, hmgr]
    intro o ho hown
    obtain ⟨hprev, hcase⟩ := htrack o ho hown
    by_cases hi : o.id ∈ plan.invalid
    · exact Or.inl ⟨hprev, by rw [hinv]; exact hi⟩
    · right
      by_cases hap : o.id ∈ plan.applyIds
      · have hnp : o.id ∉ x.P.map (·.id) := by
          intro hm
          obtain ⟨l, hl, hlid⟩ := List.mem_map.mp hm
          exact hx.disj o.id (by rw [hA]; exact hap) l hl hlid
        have hnpi : o.id ∉ plan.pruneIds := by
          intro hm
          obtain ⟨⟨l, hl, hlid⟩, _⟩ := (hpid _).mp hm
          exact hnp (List.mem_map.mpr ⟨l, hl, hlid⟩)
        have hfind : (prepMgr x.run plan x.P).find? o.id =
            some { id := o.id, strategy := .apply, actuation := .pending, reconcile := .pending, uid := "", gen := 0 } := by
          rw [prepMgr_find]; simp only [hnp, hnpi, and_false, if_false, hap, if_true]
        refine ⟨_, hfind, ?_⟩
        exact ⟨fun _ => ⟨fun h => by simp at h, fun _ => hRA _ hap, fun _ => hprev⟩, fun h => by simp at h⟩
      · have hP : ∃ l ∈ x.P, l.id = o.id := by
          rcases hcase with h | h | h
          · exact absurd h hap
          · exact absurd h hi
          · exact h
        have hpi : o.id ∈ plan.pruneIds := (hpid _).mpr ⟨hP, hi⟩
        have hpm : o.id ∈ x.P.map (·.id) := by
          obtain ⟨l, hl, hlid⟩ := hP
          exact List.mem_map.mpr ⟨l, hl, hlid⟩
        have hne : plan.pruneIds.isEmpty = false := by
          cases hp : plan.pruneIds with
          | nil => rw [hp] at hpi; cases hpi
          | cons a as => rfl
        by_cases hb : (x.run.destroy || !x.run.opts.noPrune) = true
        · have hb2 : (!x.run.destroy && x.run.opts.noPrune) = false := by
            cases hd : x.run.destroy <;> cases hn : x.run.opts.noPrune <;> simp [hd, hn] at hb ⊢
          have hfind : (prepMgr x.run plan x.P).find? o.id =
              some { id := o.id, strategy := .delete, actuation := .pending, reconcile := .pending, uid := "", gen := 0 } := by
            rw [prepMgr_find]; simp [hb2, hb, hne, hpi]
          refine ⟨_, hfind, ?_⟩
          exact ⟨fun h => by simp at h, fun _ => ⟨fun _ => hRP hb _ hpi, fun h => by simp at h⟩⟩
        · have hb2 : (!x.run.destroy && x.run.opts.noPrune) = true := by
            cases hd : x.run.destroy <;> cases hn : x.run.opts.noPrune <;> simp [hd, hn] at hb ⊢
          have hfind : (prepMgr x.run plan x.P).find? o.id =
              some { id := o.id, strategy := .delete, actuation := .skipped, reconcile := .pending, uid := "", gen := 0 } := by
            rw [prepMgr_find]; simp only [hb2, hpm, and_self, if_true]
          refine ⟨_, hfind, ?_⟩
          exact ⟨fun h => by simp at h, fun _ => ⟨fun h => by simp at h, fun h => by simp at h⟩⟩

end CliUtils.FinalL

namespace CliUtils.FinalL
open CliUtils CliUtils.Sys CliUtils.Props.C19 CliUtils.Props.C03 CliUtils.Props.C01 CliUtils.Wait

/-! ### the invariant at the final task -/

/-- with nothing left to apply, prune or wait for, every live annotated object is in the inventory the final task writes -/
theorem G_final {x : Ctx} (hx : CtxOK x) (s : St) (h : G x s [] [] []) :
    ∀ o ∈ s.cl.objs, o.owner = invId → o.id ∈ finalInventory s.mgr x.prev s.abandoned s.invalid := by
  intro o ho hown
  have hnab : o.id ∉ s.abandoned := fun hab => (h.ab _ hab).2 o ho rfl hown
  rcases h.tr o ho hown with ⟨hp, hi⟩ | ⟨r, hr, hgood⟩
  · exact keeps_invalid _ _ _ _ _ hp (by rw [h.inval]; exact hi)
  · have hact := find_withActuation _ _ _ hr
    have hrc := find_withReconcile _ _ _ hr
    obtain ⟨hrm, hrid⟩ := find_mem _ _ _ hr
    cases hs : r.strategy with
    | apply =>
      rw [hs] at hact
      obtain ⟨g1, g2, g3⟩ := hgood.1 hs
      cases ha : r.actuation with
      | succeeded => rw [ha] at hact; exact keeps_applied _ _ _ _ _ hact hnab
      | pending => exact absurd (g2 ha) (by simp)
      | failed =>
        rw [ha] at hact
        exact keeps_retained _ _ _ _ _ (g3 (by rw [ha]; simp)) (Or.inl hact) hnab
      | skipped =>
        rw [ha] at hact
        exact keeps_retained _ _ _ _ _ (g3 (by rw [ha]; simp)) (Or.inr (Or.inl hact)) hnab
    | delete =>
      rw [hs] at hact
      obtain ⟨l, hl, hlid, _⟩ := (h.mgr r hrm).2 hs
      have hprev : o.id ∈ x.prev := by rw [← hrid, ← hlid]; exact hx.pprev l hl
      obtain ⟨g1, g2⟩ := hgood.2 hs
      cases ha : r.actuation with
      | pending => exact absurd (g1 ha) (by simp)
      | failed =>
        rw [ha] at hact
        exact keeps_retained _ _ _ _ _ hprev (Or.inr (Or.inr (Or.inl hact))) hnab
      | skipped =>
        rw [ha] at hact
        exact keeps_retained _ _ _ _ _ hprev (Or.inr (Or.inr (Or.inr (Or.inl hact)))) hnab
      | succeeded =>
        rcases (g2 ha).2 with h1 | h1 | h1
        · rw [h1] at hrc
          exact keeps_retained _ _ _ _ _ hprev (Or.inr (Or.inr (Or.inr (Or.inr (Or.inl hrc))))) hnab
        · rw [h1] at hrc
          exact keeps_retained _ _ _ _ _ hprev (Or.inr (Or.inr (Or.inr (Or.inr (Or.inr hrc))))) hnab
        · exact absurd h1.2 (by simp)

theorem G_onlyDeletes {x : Ctx} (s : St) (RA RP W : List Id) (h : G x s RA RP W) (hA : x.A = []) :
    ∀ r ∈ s.mgr, r.strategy = .delete := by
  intro r hr
  cases hs : r.strategy with
  | delete => rfl
  | apply =>
    have := ((h.mgr r hr).1 hs).1
    rw [hA] at this; cases this

end CliUtils.FinalL
