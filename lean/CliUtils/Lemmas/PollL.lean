import CliUtils.Model.Poll
import CliUtils.Spec.C17
import CliUtils.Lemmas.ListL
/-
  Helper lemmas for Props/C17.lean.
-/
namespace CliUtils.Poll
open CliUtils CliUtils.Poll.Spec

/-! ### ResourceStatusEqual -/

theorem errDiffers_false_iff (a b : Option String) : errDiffers a b = false ↔ a = b := by
  cases a <;> cases b <;> simp [errDiffers]

theorem rsEqual_iff (a b : RS) : rsEqual a b = true ↔ hdr a = hdr b ∧ rsEqualList a.generated b.generated = true := by
  cases a with | mk i1 s1 m1 r1 e1 g1 =>
  cases b with | mk i2 s2 m2 r2 e2 g2 =>
  simp only [rsEqual, hdr, RS.id, RS.status, RS.message, RS.generation, RS.res, RS.err, RS.generated]
  by_cases h1 : i1 = i2 <;> by_cases h2 : s1 = s2 <;> by_cases h3 : m1 = m2 <;> simp [h1, h2, h3]
  rw [errDiffers_false_iff, and_assoc]

theorem rsEqualList_cons (a b : RS) (as bs : List RS) :
    rsEqualList (a :: as) (b :: bs) = (rsEqual a b && rsEqualList as bs) := by
  simp [rsEqualList]

mutual
theorem rsEqual_refl : ∀ a : RS, rsEqual a a = true
  | .mk i s m r e g => by
    rw [rsEqual_iff]; exact ⟨rfl, rsEqualList_refl g⟩
theorem rsEqualList_refl : ∀ l : List RS, rsEqualList l l = true
  | [] => by simp [rsEqualList]
  | a :: as => by simp [rsEqualList, rsEqual_refl a, rsEqualList_refl as]
end

mutual
theorem rsEqual_symm : ∀ a b : RS, rsEqual a b = true → rsEqual b a = true
  | .mk i1 s1 m1 r1 e1 g1, .mk i2 s2 m2 r2 e2 g2 => by
    rw [rsEqual_iff, rsEqual_iff]
    intro ⟨h, hl⟩; exact ⟨h.symm, rsEqualList_symm g1 g2 hl⟩
theorem rsEqualList_symm : ∀ l k : List RS, rsEqualList l k = true → rsEqualList k l = true
  | [], [] => by simp [rsEqualList]
  | a :: as, b :: bs => by
    simp only [rsEqualList, Bool.and_eq_true]
    intro ⟨h1, h2⟩; exact ⟨rsEqual_symm a b h1, rsEqualList_symm as bs h2⟩
  | [], _ :: _ => by simp [rsEqualList]
  | _ :: _, [] => by simp [rsEqualList]
end

mutual
theorem rsEqual_trans : ∀ a b c : RS, rsEqual a b = true → rsEqual b c = true → rsEqual a c = true
  | .mk i1 s1 m1 r1 e1 g1, .mk i2 s2 m2 r2 e2 g2, .mk i3 s3 m3 r3 e3 g3 => by
    rw [rsEqual_iff, rsEqual_iff, rsEqual_iff]
    intro ⟨h, hl⟩ ⟨h', hl'⟩; exact ⟨h.trans h', rsEqualList_trans g1 g2 g3 hl hl'⟩
theorem rsEqualList_trans : ∀ l k j : List RS, rsEqualList l k = true → rsEqualList k j = true → rsEqualList l j = true
  | [], [], [] => by simp [rsEqualList]
  | a :: as, b :: bs, c :: cs => by
    simp only [rsEqualList, Bool.and_eq_true]
    intro ⟨h1, h2⟩ ⟨h3, h4⟩; exact ⟨rsEqual_trans a b c h1 h3, rsEqualList_trans as bs cs h2 h4⟩
  | [], _ :: _, _ => by simp [rsEqualList]
  | _ :: _, [], _ => by simp [rsEqualList]
  | _, [], _ :: _ => by simp [rsEqualList]
  | _, _ :: _, [] => by simp [rsEqualList]
end

/-- `rsEqual` respects itself on both sides (consequence of symmetry + transitivity) -/
theorem rsEqual_congr_right (a b c : RS) (h : rsEqual b c = true) : rsEqual a b = rsEqual a c := by
  cases h1 : rsEqual a b <;> cases h2 : rsEqual a c <;> try rfl
  · have := rsEqual_trans a c b h2 (rsEqual_symm b c h); rw [h1] at this; cases this
  · have := rsEqual_trans a b c h1 h; rw [h2] at this; cases this

/-! ### AggregateStatus -/

theorem aggLoop_spec (d : Status) (l : List Status) (allD anyU : Bool) :
    aggLoop d l allD anyU =
      if .failed ∈ l then .failed
      else if anyU = true ∨ .unknown ∈ l then .unknown
      else if allD = true ∧ ∀ s ∈ l, s = d then d
      else .inProgress := by
  induction l generalizing allD anyU with
  | nil => cases allD <;> cases anyU <;> simp [aggLoop]
  | cons s ss ih =>
    simp only [aggLoop]
    by_cases hs : s = .failed
    · simp [hs]
    · have hs' : ¬ Status.failed = s := fun e => hs e.symm
      simp only [hs, if_false, ih, List.mem_cons, hs', false_or, Bool.or_eq_true, decide_eq_true_eq,
        Bool.and_eq_true]
      by_cases hu : s = .unknown
      · simp [hu]
      · have hu' : ¬ Status.unknown = s := fun e => hu e.symm
        simp [hu, hu', and_assoc]

theorem aggregateS_rule (l : List Status) (d : Status) : aggregateS l d = aggRule l d := by
  unfold aggregateS aggRule
  cases l with
  | nil => simp
  | cons s ss => simp [aggLoop_spec]

/-! ### the engine -/

theorem isUpdated_eq (p : Prev) (rs : RS) : isUpdated p rs = differs (p rs.id) rs := by
  unfold isUpdated differs; cases p rs.id <;> rfl

/-- every status a reader returns for `id` carries the identifier `id` -/
def ReadWF (read : Id → ReadRes) (ids : List Id) : Prop := ∀ id ∈ ids, ∀ rs c, read id = .ok rs c → rs.id = id

theorem lastUpdFrom_append (init : Option RS) (a b : List Event) (id : Id) :
    lastUpdFrom init (a ++ b) id = lastUpdFrom (lastUpdFrom init a id) b id := by
  simp [lastUpdFrom, List.foldl_append]

/-- invariant of `pollStatusForAllResources`: `previousResourceStatuses[j]` is the last update sent for `j` -/
theorem loop_prev (read : Id → ReadRes) (ids : List Id) (c : Bool) (p : Prev) (hwf : ReadWF read ids) (j : Id) :
    (pollLoop read ids c p).prev j = lastUpdFrom (p j) (pollLoop read ids c p).events j := by
  induction ids generalizing c p with
  | nil => simp [pollLoop, lastUpdFrom]
  | cons x xs ih =>
    have hwf' : ReadWF read xs := fun id h => hwf id (List.mem_cons_of_mem _ h)
    simp only [pollLoop]
    cases c with
    | true => simp [lastUpdFrom]
    | false =>
      simp only [Bool.false_eq_true, if_false]
      cases hr : read x with
      | fail e => simp [lastUpdFrom]
      | ok rs c' =>
        have hid : rs.id = x := hwf x (List.mem_cons_self ..) rs c' hr
        simp only
        split
        · simp only [ih c' (p.set x rs) hwf']
          simp only [lastUpdFrom, List.foldl_cons, updStep, Prev.set, hid]
          by_cases hj : j = x
          · simp [hj]
          · have : ¬ x = j := fun e => hj e.symm
            simp [hj, this]
        · exact ih c' p hwf'

theorem loop_events_updates (read : Id → ReadRes) (ids : List Id) (c : Bool) (p : Prev) :
    ∀ e ∈ (pollLoop read ids c p).events, e.isUpdate = true := by
  induction ids generalizing c p with
  | nil => simp [pollLoop]
  | cons x xs ih =>
    simp only [pollLoop]
    cases c with
    | true => simp
    | false =>
      simp only [Bool.false_eq_true, if_false]
      cases hr : read x with
      | fail e => simp
      | ok rs c' =>
        simp only
        split
        · intro e he
          simp only [List.mem_cons] at he
          rcases he with he | he
          · subst he; rfl
          · exact ih c' _ e he
        · exact ih c' p

/-- the error returned by the loop is `ctx.Err()` or the error of some `ReadStatus` call -/
theorem loop_err (read : Id → ReadRes) (ids : List Id) (c : Bool) (p : Prev) (e : Err)
    (h : (pollLoop read ids c p).err = some e) : e = ctxErr ∨ ∃ id ∈ ids, read id = .fail e := by
  induction ids generalizing c p with
  | nil => simp [pollLoop] at h
  | cons x xs ih =>
    simp only [pollLoop] at h
    cases c with
    | true => simp at h; exact Or.inl h.symm
    | false =>
      simp only [Bool.false_eq_true, if_false] at h
      cases hr : read x with
      | fail e' =>
        simp only [hr] at h
        injection h with h; subst h
        exact Or.inr ⟨x, List.mem_cons_self .., hr⟩
      | ok rs c' =>
        simp only [hr] at h
        split at h
        · rcases ih c' _ h with h | ⟨id, hm, hid⟩
          · exact Or.inl h
          · exact Or.inr ⟨id, List.mem_cons_of_mem _ hm, hid⟩
        · rcases ih c' _ h with h | ⟨id, hm, hid⟩
          · exact Or.inl h
          · exact Or.inr ⟨id, List.mem_cons_of_mem _ hm, hid⟩

abbrev plainRead (s : Id → RS) : Id → ReadRes := fun id => .ok (s id) false

theorem plain_eq (s : Id → RS) : plain s = { sync := .ok false, read := plainRead s } := rfl

theorem filter_ne_filter {β : Type} [DecidableEq β] (l : List β) (x : β) (P : β → Bool) (hx : P x = false) :
    (l.filter (fun y => decide (y ≠ x))).filter P = l.filter P := by
  rw [List.filter_filter]
  apply List.filter_congr
  intro y _
  by_cases h : y = x
  · subst h; simp [hx]
  · simp [h]

/-- one undisturbed poll of a snapshot: events, no error, not cancelled, new state -/
theorem pollLoop_plain (s : Id → RS) (ids : List Id) (p : Prev) (hwf : ∀ id ∈ ids, (s id).id = id) :
    (pollLoop (plainRead s) ids false p).events =
        ((dedup ids).filter (fun id => isUpdated p (s id))).map (fun id => Event.update (s id)) ∧
    (pollLoop (plainRead s) ids false p).err = none ∧
    (pollLoop (plainRead s) ids false p).cancelled = false ∧
    ∀ j, (pollLoop (plainRead s) ids false p).prev j = if j ∈ ids ∧ isUpdated p (s j) = true then some (s j) else p j := by
  induction ids generalizing p with
  | nil => simp [pollLoop, dedup]
  | cons x xs ih =>
    have hwf' : ∀ id ∈ xs, (s id).id = id := fun id h => hwf id (List.mem_cons_of_mem _ h)
    have hx : (s x).id = x := hwf x (List.mem_cons_self ..)
    simp only [pollLoop, Bool.false_eq_true, if_false]
    by_cases hu : isUpdated p (s x) = true
    · simp only [hu, if_true]
      obtain ⟨h1, h2, h3, h4⟩ := ih (p.set x (s x)) hwf'
      have hself : isUpdated (p.set x (s x)) (s x) = false := by
        simp [isUpdated, Prev.set, hx, rsEqual_refl]
      have hother : ∀ j ∈ xs, j ≠ x → isUpdated (p.set x (s x)) (s j) = isUpdated p (s j) := by
        intro j hj hne
        simp [isUpdated, Prev.set, hwf' j hj, hne]
      refine ⟨?_, h2, h3, ?_⟩
      · rw [h1]
        simp only [dedup, List.filter_cons, hu, if_true, List.map_cons, List.cons.injEq, true_and]
        congr 1
        rw [← filter_ne_filter (dedup xs) x _ hself, List.filter_filter, List.filter_filter]
        apply List.filter_congr
        intro y hy
        by_cases hyx : y = x
        · subst hyx; simp
        · have : y ∈ xs := (mem_dedup xs y).mp hy
          simp [hyx, hother y this hyx]
      · intro j
        rw [h4 j]
        by_cases hj : j = x
        · subst hj; simp [hself, hu, Prev.set]
        · by_cases hjm : j ∈ xs
          · simp [hj, hjm, hother j hjm hj, Prev.set]
          · simp [hj, hjm, Prev.set]
    · have hu' : isUpdated p (s x) = false := by simpa using hu
      simp only [hu', Bool.false_eq_true, if_false]
      obtain ⟨h1, h2, h3, h4⟩ := ih p hwf'
      refine ⟨?_, h2, h3, ?_⟩
      · rw [h1]
        simp only [dedup, List.filter_cons, hu', Bool.false_eq_true, if_false]
        rw [filter_ne_filter (dedup xs) x _ hu']
      · intro j
        rw [h4 j]
        by_cases hj : j = x
        · subst hj; simp [hu']
        · simp [hj]

/-- state after a sequence of undisturbed polls -/
def statePlain (ids : List Id) (snaps : List (Id → RS)) (p : Prev) : Prev :=
  snaps.foldl (fun p s => (pollOnce ids p s).1) p

/-- every snapshot returns, for each polled identifier, a status carrying that identifier -/
def SnapsWF (ids : List Id) (snaps : List (Id → RS)) : Prop := ∀ t ∈ snaps, ∀ id ∈ ids, (t id).id = id

theorem statePlain_snoc (ids : List Id) (snaps : List (Id → RS)) (s : Id → RS) (p : Prev) :
    statePlain ids (snaps ++ [s]) p = (pollOnce ids (statePlain ids snaps p) s).1 := by
  simp [statePlain, List.foldl_append]

theorem runFrom_plain_append (ids : List Id) (snaps : List (Id → RS)) (rest : List Poll) (p : Prev)
    (hwf : SnapsWF ids snaps) :
    runFrom ids (snaps.map plain ++ rest) p false =
      runFrom ids (snaps.map plain) p false ++ runFrom ids rest (statePlain ids snaps p) false := by
  induction snaps generalizing p with
  | nil => simp [runFrom, statePlain]
  | cons s ss ih =>
    have hs : ∀ id ∈ ids, (s id).id = id := hwf s (List.mem_cons_self ..)
    have hss : SnapsWF ids ss := fun t ht => hwf t (List.mem_cons_of_mem _ ht)
    obtain ⟨_, h2, h3, _⟩ := pollLoop_plain s ids p hs
    simp only [List.map_cons, List.cons_append, runFrom, Bool.false_eq_true, if_false, plain_eq, h2, h3]
    rw [ih _ hss, List.append_assoc]
    rfl

theorem statePlain_eq_lastUpd (ids : List Id) (snaps : List (Id → RS)) (p : Prev) (hwf : SnapsWF ids snaps) (j : Id) :
    statePlain ids snaps p j = lastUpdFrom (p j) (runFrom ids (snaps.map plain) p false) j := by
  induction snaps generalizing p with
  | nil => simp [runFrom, statePlain, lastUpdFrom]
  | cons s ss ih =>
    have hs : ∀ id ∈ ids, (s id).id = id := hwf s (List.mem_cons_self ..)
    have hss : SnapsWF ids ss := fun t ht => hwf t (List.mem_cons_of_mem _ ht)
    obtain ⟨_, h2, h3, _⟩ := pollLoop_plain s ids p hs
    have hrw : ReadWF (plainRead s) ids := by
      intro id hid rs c hr
      simp only [plainRead, ReadRes.ok.injEq] at hr
      rw [← hr.1]; exact hs id hid
    simp only [List.map_cons, runFrom, Bool.false_eq_true, if_false, plain_eq, h2, h3]
    rw [lastUpdFrom_append, ← loop_prev _ ids false p hrw j]
    have : statePlain ids (s :: ss) p = statePlain ids ss (pollLoop (plainRead s) ids false p).prev := by
      simp [statePlain, pollOnce]
    rw [this]
    exact ih _ hss

/-! ### the collector -/

theorem assocGet_set (m : List (Id × RS)) (k j : Id) (v : RS) :
    assocGet (assocSet m k v) j = if j = k then some v else assocGet m j := by
  induction m with
  | nil =>
    simp only [assocSet, assocGet]
    by_cases h : k = j
    · simp [h]
    · have : ¬ j = k := fun e => h e.symm
      simp [h, this]
  | cons kv rest ih =>
    obtain ⟨k', v'⟩ := kv
    simp only [assocSet]
    by_cases h : k' = k
    · subst h
      simp only [if_true, assocGet]
      by_cases hj : k' = j
      · simp [hj]
      · have : ¬ j = k' := fun e => hj e.symm
        simp [hj, this]
    · simp only [h, if_false, assocGet, ih]
      by_cases hj : k' = j
      · subst hj; simp [h]
      · simp [hj]

theorem assocGet_init (ids : List Id) (m : List (Id × RS)) (j : Id) :
    assocGet (ids.foldl (fun m id => assocSet m id (initialRS id)) m) j =
      if j ∈ ids then some (initialRS j) else assocGet m j := by
  induction ids generalizing m with
  | nil => simp
  | cons x xs ih =>
    simp only [List.foldl_cons, ih, assocGet_set, List.mem_cons]
    by_cases hx : j ∈ xs
    · simp [hx]
    · by_cases hj : j = x
      · subst hj; simp [hx]
      · simp [hx, hj]

theorem collect_statuses (c : Collector) (evs : List Event) (j : Id) :
    assocGet (evs.foldl Collector.step c).statuses j = lastUpdFrom (assocGet c.statuses j) evs j := by
  induction evs generalizing c with
  | nil => simp [lastUpdFrom]
  | cons e es ih =>
    simp only [List.foldl_cons, ih, lastUpdFrom]
    congr 1
    cases e with
    | update rs =>
      simp only [Collector.step, updStep, assocGet_set]
      by_cases h : rs.id = j
      · simp [h]
      · have : ¬ j = rs.id := fun e => h e.symm
        simp [h, this]
    | error t => simp [Collector.step, updStep]
    | sync => simp [Collector.step, updStep]

theorem collect_error (c : Collector) (evs : List Event) :
    (evs.foldl Collector.step c).error = evs.foldl errStep c.error := by
  induction evs generalizing c with
  | nil => simp
  | cons e es ih =>
    simp only [List.foldl_cons, ih]
    congr 1
    cases e <;> simp [Collector.step, errStep]

theorem collect_lastType (c : Collector) (evs : List Event) :
    (evs.foldl Collector.step c).lastType = ((evs.getLast?).map Event.type).getD c.lastType := by
  induction evs generalizing c with
  | nil => simp
  | cons e es ih =>
    simp only [List.foldl_cons, ih]
    cases es with
    | nil => cases e <;> simp [Collector.step, Event.type]
    | cons e' es' =>
      have : (e' :: es').getLast? = some ((e' :: es').getLast (by simp)) := List.getLast?_eq_some_getLast (by simp)
      simp [List.getLast?_cons_cons, this]

end CliUtils.Poll
