import CliUtils.Model.Reporter
/-
  Helper lemmas about the reporter model (for Props/C16.lean).
-/
namespace CliUtils.Reporter

/-! ### the informer table -/

theorem mem_applyOp (T S : List Gkn) (op : BOp) (t : Gkn) :
    t ∈ applyOp T S op ↔ if op.isStart = true then (t ∈ S ∨ (t ∈ T ∧ op.sel t = true)) else (t ∈ S ∧ op.sel t = false) := by
  unfold applyOp
  cases hst : op.isStart with
  | true =>
    simp only [if_true, List.mem_append, List.mem_filter, Bool.and_eq_true, Bool.not_eq_true',
      List.contains_eq_mem, decide_eq_false_iff_not]
    constructor
    · rintro (h | ⟨h1, h2, _⟩)
      · exact Or.inl h
      · exact Or.inr ⟨h1, h2⟩
    · rintro (h | ⟨h1, h2⟩)
      · exact Or.inl h
      · by_cases hm : t ∈ S
        · exact Or.inl hm
        · exact Or.inr ⟨h1, h2, hm⟩
  | false =>
    simp [List.mem_filter]

/-- joint fold: membership after replaying `ops` is decided by the last operation addressing `t` -/
theorem mem_foldl_applyOp (T : List Gkn) (t : Gkn) (ops : List BOp) (S : List Gkn) (acc : Option Bool) (S0 : Prop)
    (hsub : t ∈ S → t ∈ T)
    (h : t ∈ S ↔ (match acc with | some b => b = true ∧ t ∈ T | none => S0)) :
    t ∈ ops.foldl (applyOp T) S ↔
      (match ops.foldl (fun acc op => if op.sel t then some op.isStart else acc) acc with
       | some b => b = true ∧ t ∈ T | none => S0) := by
  induction ops generalizing S acc with
  | nil => simpa using h
  | cons op ops ih =>
    simp only [List.foldl_cons]
    apply ih
    · rw [mem_applyOp]
      cases hst : op.isStart with
      | true =>
        simp only [if_true]
        rintro (hm | hm)
        · exact hsub hm
        · exact hm.1
      | false =>
        simp only [Bool.false_eq_true, if_false]
        intro hm; exact hsub hm.1
    · rw [mem_applyOp]
      cases hsel : op.sel t with
      | true =>
        cases hst : op.isStart with
        | true =>
          simp only [if_true, and_true, true_and]
          constructor
          · rintro (hm | hm)
            · exact hsub hm
            · exact hm
          · intro hm; exact Or.inr hm
        | false => simp
      | false =>
        cases hst : op.isStart <;> simp [h]

theorem lastRel_eq (t : Gkn) (ops : List BOp) :
    lastRel t ops = ops.foldl (fun acc op => if op.sel t then some op.isStart else acc) none := rfl

/-- closed form of the table after replaying `ops` from the empty table -/
theorem mem_replay (T : List Gkn) (t : Gkn) (ops : List BOp) :
    t ∈ ops.foldl (applyOp T) [] ↔ (lastRel t ops = some true ∧ t ∈ T) := by
  have := mem_foldl_applyOp T t ops [] none False (by simp) (by simp)
  rw [this, lastRel_eq]
  cases ops.foldl (fun acc op => if op.sel t then some op.isStart else acc) none with
  | none => simp
  | some b => simp

/-! ### one step, summarised -/

theorem foldl_doOp_fields (c : Cfg) (ops : List BOp) (s : RState) :
    (ops.foldl (doOp c) s).events = s.events ∧ (ops.foldl (doOp c) s).errSent = s.errSent ∧
    (ops.foldl (doOp c) s).stopped = s.stopped ∧ (ops.foldl (doOp c) s).syncSent = s.syncSent ∧
    (ops.foldl (doOp c) s).rechecks = s.rechecks ∧
    (ops.foldl (doOp c) s).ops = s.ops ++ ops ∧
    (ops.foldl (doOp c) s).started = ops.foldl (applyOp c.targets) s.started := by
  induction ops generalizing s with
  | nil => simp
  | cons op ops ih =>
    simp only [List.foldl_cons]
    obtain ⟨h1, h2, h3, h4, h5, h6, h7⟩ := ih (doOp c s op)
    refine ⟨h1, h2, h3, h4, h5, ?_, h7⟩
    rw [h6]; simp [doOp]

/-- what one step can do to the observable fields -/
inductive Delta (c : Cfg) (s s' : RState) : Prop where
  | silent : s'.events = s.events → s'.errSent = s.errSent → s'.syncSent = s.syncSent → s'.rechecks = s.rechecks →
      (s.stopped = true → s'.stopped = true) → Delta c s s'
  | sync : s'.events = s.events ++ [.sync] → s.syncSent = false → s'.syncSent = true → s'.errSent = s.errSent →
      s'.rechecks = s.rechecks → s'.stopped = s.stopped → Delta c s s'
  | error : s'.events = s.events ++ [.error] → (c.onceGuard = true → s.errSent = false) → s'.errSent = true →
      s'.stopped = true → s'.syncSent = s.syncSent → s'.rechecks = s.rechecks → Delta c s s'
  | update (id : Id) (st : Status) : s'.events = s.events ++ [.update id st] → (id ∈ c.allow ∨ id ∈ s.rechecks) →
      s'.errSent = s.errSent → s'.syncSent = s.syncSent → s'.stopped = s.stopped →
      (s'.rechecks = s.rechecks ∨ (s'.rechecks = s.rechecks ++ [id] ∧ id ∈ c.allow)) → Delta c s s'

theorem fatal_delta (c : Cfg) (s : RState) : Delta c s (fatal c s) := by
  unfold fatal
  split
  · exact Delta.silent rfl rfl rfl rfl (fun h => h)
  · rename_i hg
    refine Delta.error rfl ?_ rfl rfl rfl rfl
    intro hc
    cases he : s.errSent with
    | false => rfl
    | true => simp [hc, he] at hg

theorem step_delta (c : Cfg) (s : RState) (i : In) : Delta c s (step c s i) := by
  cases i with
  | start => exact Delta.silent rfl rfl rfl rfl (fun h => h)
  | cancel => exact Delta.silent rfl rfl rfl rfl (fun _ => rfl)
  | synced =>
    simp only [step]
    split
    · exact Delta.silent rfl rfl rfl rfl (fun h => h)
    · rename_i hc
      simp only [Bool.or_eq_true, not_or, Bool.not_eq_true] at hc
      exact Delta.sync rfl hc.2 rfl rfl rfl rfl
  | noMatch t => exact Delta.silent rfl rfl rfl rfl (fun h => h)
  | startFailed t acc =>
    simp only [step]
    split
    · exact fatal_delta c s
    · exact Delta.silent rfl rfl rfl rfl (fun h => h)
  | watchErr t e =>
    simp only [step]
    split
    · exact Delta.silent rfl rfl rfl rfl (fun h => h)
    · exact Delta.silent rfl rfl rfl rfl (fun h => h)
    · exact fatal_delta c s
  | recheck id res =>
    simp only [step]
    split
    · exact Delta.silent rfl rfl rfl rfl (fun h => h)
    · rename_i hc
      simp only [Bool.not_eq_true', List.contains_eq_mem, decide_eq_false_iff_not, Decidable.not_not] at hc
      split
      · exact fatal_delta c s
      · exact Delta.update id _ rfl (Or.inr hc) rfl rfl rfl (Or.inl rfl)
  | watch src k o =>
    simp only [step]
    split
    · exact Delta.silent rfl rfl rfl rfl (fun h => h)
    · split
      · exact Delta.silent rfl rfl rfl rfl (fun h => h)
      · rename_i hal
        simp only [Bool.not_eq_true', List.contains_eq_mem, decide_eq_false_iff_not, Decidable.not_not] at hal
        obtain ⟨h1, h2, h3, h4, h5, _, _⟩ := foldl_doOp_fields c (nsCrdOps c k o) s
        split
        · exact Delta.update o.id .notFound (by simp [emit, h1]) (Or.inl hal) (by simp [emit, h2]) (by simp [emit, h4])
            (by simp [emit, h3]) (Or.inl (by simp [emit, h5]))
        · split
          · exact fatal_delta c s
          · rename_i st _
            by_cases hu : o.unschedulable = true
            · exact Delta.update o.id st (by simp [emit, hu, h1]) (Or.inl hal) (by simp [emit, hu, h2])
                (by simp [emit, hu, h4]) (by simp [emit, hu, h3]) (Or.inr ⟨by simp [emit, hu, h5], hal⟩)
            · exact Delta.update o.id st (by simp [emit, hu, h1]) (Or.inl hal) (by simp [emit, hu, h2])
                (by simp [emit, hu, h4]) (by simp [emit, hu, h3]) (Or.inl (by simp [emit, hu, h5]))

/-! ### invariants of runs -/

theorem nErrors_append (es : List Ev) (e : Ev) : nErrors (es ++ [e]) = nErrors es + (if e = .error then 1 else 0) := by
  unfold nErrors
  by_cases h : e = .error
  · subst h; simp
  · simp [h]

theorem nSyncs_append (es : List Ev) (e : Ev) : nSyncs (es ++ [e]) = nSyncs es + (if e = .sync then 1 else 0) := by
  unfold nSyncs
  by_cases h : e = .sync
  · subst h; simp
  · simp [h]

/-- with the once-guard: at most one error, and the flag records it; an error implies the reporter was stopped -/
def ErrInv (s : RState) : Prop :=
  (nErrors s.events = 0 ∨ (nErrors s.events = 1 ∧ s.errSent = true)) ∧ (0 < nErrors s.events → s.stopped = true)

theorem step_errInv (c : Cfg) (hg : c.onceGuard = true) (s : RState) (i : In) (h : ErrInv s) : ErrInv (step c s i) := by
  obtain ⟨h1, h2⟩ := h
  cases step_delta c s i with
  | silent e1 e2 _ _ e5 =>
    refine ⟨?_, ?_⟩
    · rw [e1, e2]; exact h1
    · rw [e1]; intro hp; exact e5 (h2 hp)
  | sync e1 _ _ e4 _ e6 =>
    refine ⟨?_, ?_⟩
    · rw [e1, nErrors_append, e4]; simpa using h1
    · rw [e1, nErrors_append, e6]; simpa using h2
  | error e1 e2 e3 e4 _ _ =>
    have hz : nErrors s.events = 0 := by
      rcases h1 with h | ⟨_, h⟩
      · exact h
      · rw [e2 hg] at h; cases h
    refine ⟨Or.inr ⟨?_, e3⟩, fun _ => e4⟩
    rw [e1, nErrors_append, hz]; simp
  | update id st e1 _ e3 _ e5 _ =>
    refine ⟨?_, ?_⟩
    · rw [e1, nErrors_append, e3]; simpa using h1
    · rw [e1, nErrors_append, e5]; simpa using h2

theorem run_errInv (c : Cfg) (hg : c.onceGuard = true) (ins : List In) (s : RState) (h : ErrInv s) :
    ErrInv (run c s ins) := by
  induction ins generalizing s with
  | nil => exact h
  | cons i ins ih => exact ih _ (step_errInv c hg s i h)

def SyncInv (s : RState) : Prop := nSyncs s.events = 0 ∨ (nSyncs s.events = 1 ∧ s.syncSent = true)

theorem step_syncInv (c : Cfg) (s : RState) (i : In) (h : SyncInv s) : SyncInv (step c s i) := by
  cases step_delta c s i with
  | silent e1 _ e3 _ _ => unfold SyncInv; rw [e1, e3]; exact h
  | sync e1 e2 e3 _ _ _ =>
    have hz : nSyncs s.events = 0 := by
      rcases h with h | ⟨_, h⟩
      · exact h
      · rw [e2] at h; cases h
    refine Or.inr ⟨?_, e3⟩
    rw [e1, nSyncs_append, hz]; simp
  | error e1 _ _ _ e5 _ => unfold SyncInv at *; rw [e1, nSyncs_append, e5]; simpa using h
  | update id st e1 _ _ e4 _ _ => unfold SyncInv at *; rw [e1, nSyncs_append, e4]; simpa using h

theorem run_syncInv (c : Cfg) (ins : List In) (s : RState) (h : SyncInv s) : SyncInv (run c s ins) := by
  induction ins generalizing s with
  | nil => exact h
  | cons i ins ih => exact ih _ (step_syncInv c s i h)

/-- every update event, and every scheduled re-read, is about an allow-listed id -/
def FiltInv (c : Cfg) (s : RState) : Prop :=
  (∀ id st, Ev.update id st ∈ s.events → id ∈ c.allow) ∧ (∀ id ∈ s.rechecks, id ∈ c.allow)

theorem step_filtInv (c : Cfg) (s : RState) (i : In) (h : FiltInv c s) : FiltInv c (step c s i) := by
  obtain ⟨h1, h2⟩ := h
  cases step_delta c s i with
  | silent e1 _ _ e4 _ => exact ⟨by rw [e1]; exact h1, by rw [e4]; exact h2⟩
  | sync e1 _ _ _ e5 _ =>
    refine ⟨?_, by rw [e5]; exact h2⟩
    intro id st hm
    rw [e1, List.mem_append, List.mem_singleton] at hm
    rcases hm with hm | hm
    · exact h1 id st hm
    · cases hm
  | error e1 _ _ _ _ e6 =>
    refine ⟨?_, by rw [e6]; exact h2⟩
    intro id st hm
    rw [e1, List.mem_append, List.mem_singleton] at hm
    rcases hm with hm | hm
    · exact h1 id st hm
    · cases hm
  | update id0 st0 e1 e2 _ _ _ e6 =>
    have hid : id0 ∈ c.allow := by
      rcases e2 with h | h
      · exact h
      · exact h2 id0 h
    refine ⟨?_, ?_⟩
    · intro id st hm
      rw [e1, List.mem_append, List.mem_singleton] at hm
      rcases hm with hm | hm
      · exact h1 id st hm
      · cases hm; exact hid
    · rcases e6 with e | ⟨e, _⟩
      · rw [e]; exact h2
      · rw [e]; intro id hm
        rw [List.mem_append, List.mem_singleton] at hm
        rcases hm with hm | hm
        · exact h2 id hm
        · rw [hm]; exact hid

theorem run_filtInv (c : Cfg) (ins : List In) (s : RState) (h : FiltInv c s) : FiltInv c (run c s ins) := by
  induction ins generalizing s with
  | nil => exact h
  | cons i ins ih => exact ih _ (step_filtInv c s i h)

/-- the informer table is the replay of the requests executed so far -/
def Book (c : Cfg) (s : RState) : Prop := s.started = s.ops.foldl (applyOp c.targets) []

theorem doOp_book (c : Cfg) (s : RState) (op : BOp) (h : Book c s) : Book c (doOp c s op) := by
  unfold Book doOp at *
  simp only [List.foldl_append, List.foldl_cons, List.foldl_nil]
  rw [← h]

theorem foldl_doOp_book (c : Cfg) (ops : List BOp) (s : RState) (h : Book c s) : Book c (ops.foldl (doOp c) s) := by
  induction ops generalizing s with
  | nil => exact h
  | cons op ops ih => exact ih _ (doOp_book c s op h)

theorem fatal_book (c : Cfg) (s : RState) (h : Book c s) : Book c (fatal c s) := by
  unfold fatal; split
  · exact h
  · exact h

theorem step_book (c : Cfg) (s : RState) (i : In) (h : Book c s) : Book c (step c s i) := by
  cases i with
  | start => exact doOp_book c s _ h
  | cancel => exact h
  | synced => simp only [step]; split <;> exact h
  | noMatch t => exact doOp_book c s _ h
  | startFailed t acc => simp only [step]; split <;> first | exact fatal_book c s h | exact h
  | watchErr t e =>
    simp only [step]
    split
    · exact h
    · exact doOp_book c s _ h
    · exact fatal_book c s h
  | recheck id res =>
    simp only [step]
    split
    · exact h
    · split
      · exact fatal_book c s h
      · exact h
  | watch src k o =>
    simp only [step]
    split
    · exact h
    · split
      · exact h
      · have hb := foldl_doOp_book c (nsCrdOps c k o) s h
        split
        · exact hb
        · split
          · exact fatal_book c s h
          · split <;> exact hb

theorem run_book (c : Cfg) (ins : List In) (s : RState) (h : Book c s) : Book c (run c s ins) := by
  induction ins generalizing s with
  | nil => exact h
  | cons i ins ih => exact ih _ (step_book c s i h)

/-! ### last event per object -/

theorem lastFor_append (id : Id) (es : List Ev) (e : Ev) :
    lastFor id (es ++ [e]) = match e with
      | .update i st => if i = id then some st else lastFor id es
      | _ => lastFor id es := by
  unfold lastFor
  rw [List.foldl_append]
  cases e <;> rfl

/-- does this input concern object `id` at all? -/
def touches (id : Id) : In → Bool
  | .watch _ _ o => o.id == id
  | .recheck i _ => i == id
  | _ => false

theorem step_lastFor_untouched (c : Cfg) (s : RState) (i : In) (id : Id) (h : touches id i = false) :
    lastFor id (step c s i).events = lastFor id s.events := by
  cases step_delta c s i with
  | silent e1 _ _ _ _ => rw [e1]
  | sync e1 _ _ _ _ _ => rw [e1, lastFor_append]
  | error e1 _ _ _ _ _ => rw [e1, lastFor_append]
  | update id0 st0 e1 _ _ _ _ _ =>
    rw [e1, lastFor_append]
    -- the update is about the input's own object, which is not `id`
    have hne : id0 ≠ id := by
      intro he; subst he
      cases i with
      | watch src k o =>
        simp only [touches, beq_eq_false_iff_ne] at h
        simp only [step] at e1
        split at e1
        · simp at e1
        · split at e1
          · simp at e1
          · obtain ⟨h1, _⟩ := foldl_doOp_fields c (nsCrdOps c k o) s
            split at e1
            · simp [emit, h1] at e1; exact h e1.1
            · split at e1
              · unfold fatal at e1; split at e1 <;> simp at e1
              · by_cases hu : o.unschedulable = true
                · simp [emit, hu, h1] at e1; exact h e1.1
                · simp [emit, hu, h1] at e1; exact h e1.1
      | recheck i0 res =>
        simp only [touches, beq_eq_false_iff_ne] at h
        simp only [step] at e1
        split at e1
        · simp at e1
        · split at e1
          · unfold fatal at e1; split at e1 <;> simp at e1
          · simp [emit] at e1; exact h e1.1
      | start => simp [step, doOp] at e1
      | cancel => simp [step] at e1
      | synced => simp only [step] at e1; split at e1 <;> simp [emit] at e1
      | noMatch t => simp [step, doOp] at e1
      | startFailed t acc =>
        simp only [step] at e1; split at e1
        · unfold fatal at e1; split at e1 <;> simp at e1
        · simp at e1
      | watchErr t e =>
        simp only [step] at e1; split at e1
        · simp at e1
        · simp [doOp] at e1
        · unfold fatal at e1; split at e1 <;> simp at e1
    simp [hne]

theorem run_lastFor_untouched (c : Cfg) (ins : List In) (s : RState) (id : Id)
    (h : ∀ i ∈ ins, touches id i = false) : lastFor id (run c s ins).events = lastFor id s.events := by
  induction ins generalizing s with
  | nil => rfl
  | cons i ins ih =>
    show lastFor id (run c (step c s i) ins).events = _
    rw [ih _ (fun j hj => h j (List.mem_cons_of_mem _ hj)), step_lastFor_untouched c s i id (h i List.mem_cons_self)]

theorem run_append (c : Cfg) (s : RState) (a b : List In) : run c s (a ++ b) = run c (run c s a) b := by
  simp [run, List.foldl_append]

end CliUtils.Reporter
