import CliUtils.Model.Sys
import CliUtils.Props.C19
namespace CliUtils.Sys
open CliUtils

@[simp] theorem emit_muts (s : St) (e : Ev) : (s.emit e).muts = s.muts := rfl
@[simp] theorem emit_cl (s : St) (e : Ev) : (s.emit e).cl = s.cl := rfl
@[simp] theorem emit_run (s : St) (e : Ev) : (s.emit e).run = s.run := rfl
@[simp] theorem emit_mgr (s : St) (e : Ev) : (s.emit e).mgr = s.mgr := rfl
@[simp] theorem emit_abandoned (s : St) (e : Ev) : (s.emit e).abandoned = s.abandoned := rfl
@[simp] theorem emit_invalid (s : St) (e : Ev) : (s.emit e).invalid = s.invalid := rfl
@[simp] theorem emit_events (s : St) (e : Ev) : (s.emit e).events = e :: s.events := rfl
@[simp] theorem emit_cancelled (s : St) (e : Ev) : (s.emit e).cancelled = s.cancelled := rfl

@[simp] theorem applyFail_cl (g : String) (s : St) (id : Id) (r : Reason) : (applyFail g s id r).cl = s.cl := rfl
@[simp] theorem applyFail_run (g : String) (s : St) (id : Id) (r : Reason) : (applyFail g s id r).run = s.run := rfl
@[simp] theorem applyFail_muts (g : String) (s : St) (id : Id) (r : Reason) : (applyFail g s id r).muts = s.muts := rfl
@[simp] theorem applyFail_abandoned (g : String) (s : St) (id : Id) (r : Reason) : (applyFail g s id r).abandoned = s.abandoned := rfl
@[simp] theorem applyFail_invalid (g : String) (s : St) (id : Id) (r : Reason) : (applyFail g s id r).invalid = s.invalid := rfl
@[simp] theorem applyFail_cancelled (g : String) (s : St) (id : Id) (r : Reason) : (applyFail g s id r).cancelled = s.cancelled := rfl
@[simp] theorem applyFail_graph (g : String) (s : St) (id : Id) (r : Reason) : (applyFail g s id r).graph = s.graph := rfl
@[simp] theorem applyFail_edges (g : String) (s : St) (id : Id) (r : Reason) : (applyFail g s id r).edges = s.edges := rfl
@[simp] theorem applyFail_cache (g : String) (s : St) (id : Id) (r : Reason) : (applyFail g s id r).cache = s.cache := rfl
@[simp] theorem applyFail_mutIdx (g : String) (s : St) (id : Id) (r : Reason) : (applyFail g s id r).mutIdx = s.mutIdx := rfl
@[simp] theorem applyFail_invReads (g : String) (s : St) (id : Id) (r : Reason) : (applyFail g s id r).invReads = s.invReads := rfl
@[simp] theorem applyFail_watcherFailed (g : String) (s : St) (id : Id) (r : Reason) : (applyFail g s id r).watcherFailed = s.watcherFailed := rfl
@[simp] theorem applyFail_waitIdx (g : String) (s : St) (id : Id) (r : Reason) : (applyFail g s id r).waitIdx = s.waitIdx := rfl
@[simp] theorem applySkip_cl (g : String) (s : St) (id : Id) (r : Reason) : (applySkip g s id r).cl = s.cl := rfl
@[simp] theorem applySkip_run (g : String) (s : St) (id : Id) (r : Reason) : (applySkip g s id r).run = s.run := rfl
@[simp] theorem applySkip_muts (g : String) (s : St) (id : Id) (r : Reason) : (applySkip g s id r).muts = s.muts := rfl
@[simp] theorem applySkip_abandoned (g : String) (s : St) (id : Id) (r : Reason) : (applySkip g s id r).abandoned = s.abandoned := rfl
@[simp] theorem applySkip_invalid (g : String) (s : St) (id : Id) (r : Reason) : (applySkip g s id r).invalid = s.invalid := rfl
@[simp] theorem applySkip_cancelled (g : String) (s : St) (id : Id) (r : Reason) : (applySkip g s id r).cancelled = s.cancelled := rfl
@[simp] theorem applySkip_graph (g : String) (s : St) (id : Id) (r : Reason) : (applySkip g s id r).graph = s.graph := rfl
@[simp] theorem applySkip_edges (g : String) (s : St) (id : Id) (r : Reason) : (applySkip g s id r).edges = s.edges := rfl
@[simp] theorem applySkip_cache (g : String) (s : St) (id : Id) (r : Reason) : (applySkip g s id r).cache = s.cache := rfl
@[simp] theorem applySkip_mutIdx (g : String) (s : St) (id : Id) (r : Reason) : (applySkip g s id r).mutIdx = s.mutIdx := rfl
@[simp] theorem applySkip_invReads (g : String) (s : St) (id : Id) (r : Reason) : (applySkip g s id r).invReads = s.invReads := rfl
@[simp] theorem applySkip_watcherFailed (g : String) (s : St) (id : Id) (r : Reason) : (applySkip g s id r).watcherFailed = s.watcherFailed := rfl
@[simp] theorem applySkip_waitIdx (g : String) (s : St) (id : Id) (r : Reason) : (applySkip g s id r).waitIdx = s.waitIdx := rfl
@[simp] theorem applyOk_cl (g : String) (s : St) (id : Id) (u : String) (n : Int) : (applyOk g s id u n).cl = s.cl := rfl
@[simp] theorem applyOk_run (g : String) (s : St) (id : Id) (u : String) (n : Int) : (applyOk g s id u n).run = s.run := rfl
@[simp] theorem applyOk_muts (g : String) (s : St) (id : Id) (u : String) (n : Int) : (applyOk g s id u n).muts = s.muts := rfl
@[simp] theorem applyOk_abandoned (g : String) (s : St) (id : Id) (u : String) (n : Int) : (applyOk g s id u n).abandoned = s.abandoned := rfl
@[simp] theorem applyOk_invalid (g : String) (s : St) (id : Id) (u : String) (n : Int) : (applyOk g s id u n).invalid = s.invalid := rfl
@[simp] theorem applyOk_cancelled (g : String) (s : St) (id : Id) (u : String) (n : Int) : (applyOk g s id u n).cancelled = s.cancelled := rfl
@[simp] theorem applyOk_graph (g : String) (s : St) (id : Id) (u : String) (n : Int) : (applyOk g s id u n).graph = s.graph := rfl
@[simp] theorem applyOk_edges (g : String) (s : St) (id : Id) (u : String) (n : Int) : (applyOk g s id u n).edges = s.edges := rfl
@[simp] theorem applyOk_cache (g : String) (s : St) (id : Id) (u : String) (n : Int) : (applyOk g s id u n).cache = s.cache := rfl
@[simp] theorem applyOk_mutIdx (g : String) (s : St) (id : Id) (u : String) (n : Int) : (applyOk g s id u n).mutIdx = s.mutIdx := rfl
@[simp] theorem applyOk_invReads (g : String) (s : St) (id : Id) (u : String) (n : Int) : (applyOk g s id u n).invReads = s.invReads := rfl
@[simp] theorem applyOk_watcherFailed (g : String) (s : St) (id : Id) (u : String) (n : Int) : (applyOk g s id u n).watcherFailed = s.watcherFailed := rfl
@[simp] theorem applyOk_waitIdx (g : String) (s : St) (id : Id) (u : String) (n : Int) : (applyOk g s id u n).waitIdx = s.waitIdx := rfl
@[simp] theorem pruneFail_cl (k g : String) (s : St) (id : Id) (r : Reason) : (pruneFail k g s id r).cl = s.cl := rfl
@[simp] theorem pruneFail_run (k g : String) (s : St) (id : Id) (r : Reason) : (pruneFail k g s id r).run = s.run := rfl
@[simp] theorem pruneFail_muts (k g : String) (s : St) (id : Id) (r : Reason) : (pruneFail k g s id r).muts = s.muts := rfl
@[simp] theorem pruneFail_abandoned (k g : String) (s : St) (id : Id) (r : Reason) : (pruneFail k g s id r).abandoned = s.abandoned := rfl
@[simp] theorem pruneFail_invalid (k g : String) (s : St) (id : Id) (r : Reason) : (pruneFail k g s id r).invalid = s.invalid := rfl
@[simp] theorem pruneFail_cancelled (k g : String) (s : St) (id : Id) (r : Reason) : (pruneFail k g s id r).cancelled = s.cancelled := rfl
@[simp] theorem pruneFail_graph (k g : String) (s : St) (id : Id) (r : Reason) : (pruneFail k g s id r).graph = s.graph := rfl
@[simp] theorem pruneFail_edges (k g : String) (s : St) (id : Id) (r : Reason) : (pruneFail k g s id r).edges = s.edges := rfl
@[simp] theorem pruneFail_cache (k g : String) (s : St) (id : Id) (r : Reason) : (pruneFail k g s id r).cache = s.cache := rfl
@[simp] theorem pruneFail_mutIdx (k g : String) (s : St) (id : Id) (r : Reason) : (pruneFail k g s id r).mutIdx = s.mutIdx := rfl
@[simp] theorem pruneFail_invReads (k g : String) (s : St) (id : Id) (r : Reason) : (pruneFail k g s id r).invReads = s.invReads := rfl
@[simp] theorem pruneFail_watcherFailed (k g : String) (s : St) (id : Id) (r : Reason) : (pruneFail k g s id r).watcherFailed = s.watcherFailed := rfl
@[simp] theorem pruneFail_waitIdx (k g : String) (s : St) (id : Id) (r : Reason) : (pruneFail k g s id r).waitIdx = s.waitIdx := rfl
@[simp] theorem pruneSkip_cl (k g : String) (s : St) (id : Id) (r : Reason) : (pruneSkip k g s id r).cl = s.cl := rfl
@[simp] theorem pruneSkip_run (k g : String) (s : St) (id : Id) (r : Reason) : (pruneSkip k g s id r).run = s.run := rfl
@[simp] theorem pruneSkip_muts (k g : String) (s : St) (id : Id) (r : Reason) : (pruneSkip k g s id r).muts = s.muts := rfl
@[simp] theorem pruneSkip_abandoned (k g : String) (s : St) (id : Id) (r : Reason) : (pruneSkip k g s id r).abandoned = s.abandoned := rfl
@[simp] theorem pruneSkip_invalid (k g : String) (s : St) (id : Id) (r : Reason) : (pruneSkip k g s id r).invalid = s.invalid := rfl
@[simp] theorem pruneSkip_cancelled (k g : String) (s : St) (id : Id) (r : Reason) : (pruneSkip k g s id r).cancelled = s.cancelled := rfl
@[simp] theorem pruneSkip_graph (k g : String) (s : St) (id : Id) (r : Reason) : (pruneSkip k g s id r).graph = s.graph := rfl
@[simp] theorem pruneSkip_edges (k g : String) (s : St) (id : Id) (r : Reason) : (pruneSkip k g s id r).edges = s.edges := rfl
@[simp] theorem pruneSkip_cache (k g : String) (s : St) (id : Id) (r : Reason) : (pruneSkip k g s id r).cache = s.cache := rfl
@[simp] theorem pruneSkip_mutIdx (k g : String) (s : St) (id : Id) (r : Reason) : (pruneSkip k g s id r).mutIdx = s.mutIdx := rfl
@[simp] theorem pruneSkip_invReads (k g : String) (s : St) (id : Id) (r : Reason) : (pruneSkip k g s id r).invReads = s.invReads := rfl
@[simp] theorem pruneSkip_watcherFailed (k g : String) (s : St) (id : Id) (r : Reason) : (pruneSkip k g s id r).watcherFailed = s.watcherFailed := rfl
@[simp] theorem pruneSkip_waitIdx (k g : String) (s : St) (id : Id) (r : Reason) : (pruneSkip k g s id r).waitIdx = s.waitIdx := rfl
@[simp] theorem pruneOk_cl (k g : String) (s : St) (id : Id) (u : String) : (pruneOk k g s id u).cl = s.cl := rfl
@[simp] theorem pruneOk_run (k g : String) (s : St) (id : Id) (u : String) : (pruneOk k g s id u).run = s.run := rfl
@[simp] theorem pruneOk_muts (k g : String) (s : St) (id : Id) (u : String) : (pruneOk k g s id u).muts = s.muts := rfl
@[simp] theorem pruneOk_abandoned (k g : String) (s : St) (id : Id) (u : String) : (pruneOk k g s id u).abandoned = s.abandoned := rfl
@[simp] theorem pruneOk_invalid (k g : String) (s : St) (id : Id) (u : String) : (pruneOk k g s id u).invalid = s.invalid := rfl
@[simp] theorem pruneOk_cancelled (k g : String) (s : St) (id : Id) (u : String) : (pruneOk k g s id u).cancelled = s.cancelled := rfl
@[simp] theorem pruneOk_graph (k g : String) (s : St) (id : Id) (u : String) : (pruneOk k g s id u).graph = s.graph := rfl
@[simp] theorem pruneOk_edges (k g : String) (s : St) (id : Id) (u : String) : (pruneOk k g s id u).edges = s.edges := rfl
@[simp] theorem pruneOk_cache (k g : String) (s : St) (id : Id) (u : String) : (pruneOk k g s id u).cache = s.cache := rfl
@[simp] theorem pruneOk_mutIdx (k g : String) (s : St) (id : Id) (u : String) : (pruneOk k g s id u).mutIdx = s.mutIdx := rfl
@[simp] theorem pruneOk_invReads (k g : String) (s : St) (id : Id) (u : String) : (pruneOk k g s id u).invReads = s.invReads := rfl
@[simp] theorem pruneOk_watcherFailed (k g : String) (s : St) (id : Id) (u : String) : (pruneOk k g s id u).watcherFailed = s.watcherFailed := rfl
@[simp] theorem pruneOk_waitIdx (k g : String) (s : St) (id : Id) (u : String) : (pruneOk k g s id u).waitIdx = s.waitIdx := rfl

/-- what a mutating request does to the log, the store and the rest of the state -/
theorem mutReq_spec (s : St) (verb : String) (id : Id) (dry : Bool) (pre prop : String) (eff : Cluster → Cluster × String) :
    let r := s.mutReq verb id dry pre prop eff
    (∃ m, r.1.muts = m :: s.muts ∧ m.verb = verb ∧ m.id = id ∧ m.dry = dry ∧ m.precond = pre ∧ m.prop = prop ∧
          m.result = r.2 ∧ m.rejected = decide (s.mutIdx ∈ s.run.failMut) ∧ m.evIdx = s.events.length ∧ m.snap = snapOf r.1.cl) ∧
    r.1.cl = (if s.mutIdx ∈ s.run.failMut then s.cl else (eff s.cl).1) ∧
    r.2 = (if s.mutIdx ∈ s.run.failMut then "error" else (eff s.cl).2) ∧
    r.1.events = s.events ∧ r.1.mgr = s.mgr ∧ r.1.run = s.run ∧ r.1.abandoned = s.abandoned ∧ r.1.invalid = s.invalid ∧
    r.1.mutIdx = s.mutIdx + 1 ∧ r.1.graph = s.graph ∧ r.1.edges = s.edges ∧ r.1.cache = s.cache := by
  intro r
  simp only [r, St.mutReq]
  split
  · rename_i h
    refine ⟨⟨_, rfl, rfl, rfl, rfl, rfl, rfl, rfl, ?_, rfl, rfl⟩, ?_, ?_, rfl, rfl, rfl, rfl, rfl, rfl, rfl, rfl, rfl⟩ <;> simp_all
  · rename_i h
    refine ⟨⟨_, rfl, rfl, rfl, rfl, rfl, rfl, rfl, ?_, rfl, rfl⟩, ?_, ?_, rfl, rfl, rfl, rfl, rfl, rfl, rfl, rfl, rfl⟩ <;> simp_all

/-- a freshly recorded outcome is what the table answers -/
theorem isActuation_add {α : Type} [DecidableEq α] (m : Mgr α) (id : α) (st : Strategy) (a : Actuation) (uid : String) (gen : Int) :
    (m.add id st a uid gen).isActuation id st a = true := by
  unfold Mgr.isActuation Mgr.add
  rw [show id = ({ id := id, strategy := st, actuation := a, reconcile := Reconcile.pending, uid := uid, gen := gen } : Rec α).id from rfl]
  rw [CliUtils.Props.C19.find_set_same]
  simp

theorem find_add_same {α : Type} [DecidableEq α] (m : Mgr α) (id : α) (st : Strategy) (a : Actuation) (uid : String) (gen : Int) :
    (m.add id st a uid gen).find? id = some { id := id, strategy := st, actuation := a, reconcile := .pending, uid := uid, gen := gen } := by
  unfold Mgr.add
  exact CliUtils.Props.C19.find_set_same m { id := id, strategy := st, actuation := a, reconcile := .pending, uid := uid, gen := gen }

theorem find_add_other {α : Type} [DecidableEq α] (m : Mgr α) (id x : α) (st : Strategy) (a : Actuation) (uid : String) (gen : Int)
    (h : x ≠ id) : (m.add id st a uid gen).find? x = m.find? x := by
  unfold Mgr.add
  exact CliUtils.Props.C19.find_set_other m _ x h

end CliUtils.Sys
