import CliUtils.Lemmas.FinalL
import CliUtils.Props.C01F
import CliUtils.Lemmas.ProvL
/-
  Helper lemmas for C01H (histories of runs): the well-formedness of the store (one object per id, one id per uid, no uid the
  server will hand out later) and the "known kinds" property are preserved by every step of a run, in every mode and on every
  path (including aborted runs); a dry-run never creates an orphan.
-/
namespace CliUtils.HistoryL
open CliUtils CliUtils.Sys CliUtils.Props.C19 CliUtils.Props.C01 CliUtils.FinalL CliUtils.Props.C10

/-! ### the server's uids are pairwise different -/

theorem repr_injective {m n : Nat} (h : Nat.repr m = Nat.repr n) : m = n := by
  have h1 : Nat.toDigits 10 m = Nat.toDigits 10 n := by rw [← Nat.toList_repr, ← Nat.toList_repr, h]
  rw [← @Nat.ofDigitChars_ten_toDigits m, ← @Nat.ofDigitChars_ten_toDigits n, h1]

theorem uidOf_injective {m n : Nat} (h : uidOf m = uidOf n) : m = n := by
  unfold uidOf at h
  simp only [toString] at h
  have h2 := congrArg String.toList h
  simp only [String.toList_append] at h2
  have h3 := List.append_cancel_left h2
  exact repr_injective (String.toList_inj.mp h3)


/-! ### store operations keep the store well-formed and its kinds known -/

/-- every stored object is of a kind the library knows -/
def KindsKnown (c : Cluster) : Prop := ∀ o ∈ c.objs, (scopeOf o.id.group o.id.kind).isSome

/-- the store invariant that a run hands over to the next run: well-formed, and every stored id satisfies `K`
(`K` = "of a known kind", or `True` for well-formedness alone) -/
structure WFK (K : Id → Prop) (c : Cluster) : Prop where
  wf : StoreWF c
  kinds : ∀ o ∈ c.objs, K o.id

variable {K : Id → Prop}

theorem wfk_sub (c c' : Cluster) (h : WFK K c) (hsub : ∀ o ∈ c'.objs, o ∈ c.objs) (hn : c.nextUid ≤ c'.nextUid) : WFK K c' :=
  ⟨⟨fun o ho o' ho' => h.wf.idsInj o (hsub o ho) o' (hsub o' ho'),
    fun o ho o' ho' => h.wf.uidInj o (hsub o ho) o' (hsub o' ho'),
    fun o ho k hk => h.wf.fresh o (hsub o ho) k (Nat.lt_of_le_of_lt hn hk)⟩,
   fun o ho => h.kinds o (hsub o ho)⟩

theorem wfk_remove (c : Cluster) (i : Id) (h : WFK K c) : WFK K (c.remove i) :=
  wfk_sub c _ h (fun o ho => (mem_remove _ _ _ ho).1) (Nat.le_refl _)

/-- overwrite the object(s) named like `cur` by a variant with the same name and uid -/
theorem wfk_put_upd (c : Cluster) (cur n : Live) (hcur : cur ∈ c.objs) (hid : n.id = cur.id) (hu : n.uid = cur.uid) (h : WFK K c) :
    WFK K (c.put n) := by
  -- every object of the new store has a representative in the old one with the same name and uid
  have hrep : ∀ x ∈ (c.put n).objs, ∃ y ∈ c.objs, y.id = x.id ∧ y.uid = x.uid := by
    intro x hx
    rcases mem_put _ _ _ hx with rfl | hx
    · exact ⟨cur, hcur, hid.symm, hu.symm⟩
    · exact ⟨x, hx, rfl, rfl⟩
  refine ⟨⟨?_, ?_, ?_⟩, ?_⟩
  · intro x hx y hy hxy
    by_cases hxn : x.id = n.id
    · rw [put_no_other _ _ _ hx hxn, put_no_other _ _ _ hy (hxy.symm.trans hxn)]
    · exact h.wf.idsInj x (mem_put_id _ _ _ hx hxn) y (mem_put_id _ _ _ hy (fun e => hxn (hxy.trans e))) hxy
  · intro x hx y hy hxy
    obtain ⟨x', hx', hxi, hxu⟩ := hrep x hx
    obtain ⟨y', hy', hyi, hyu⟩ := hrep y hy
    rw [← hxi, ← hyi]
    exact h.wf.uidInj x' hx' y' hy' (by rw [hxu, hyu, hxy])
  · intro x hx k hk
    obtain ⟨x', hx', _, hxu⟩ := hrep x hx
    rw [← hxu]
    exact h.wf.fresh x' hx' k (by rw [put_nextUid] at hk; exact hk)
  · intro x hx
    obtain ⟨x', hx', hxi, _⟩ := hrep x hx
    rw [← hxi]
    exact h.kinds x' hx'

/-- store a new object under the next uid of the server -/
theorem wfk_fresh_put (c : Cluster) (o : Live) (hu : o.uid = uidOf (c.nextUid + 1)) (hk : K o.id)
    (h : WFK K c) : WFK K ((c.freshUid.2).put o) := by
  have hold : ∀ x ∈ ((c.freshUid.2).put o).objs, x = o ∨ x ∈ c.objs := fun x hx => mem_put c.freshUid.2 o x hx
  have hne : ∀ y ∈ c.objs, y.uid ≠ o.uid := by
    intro y hy e
    exact h.wf.fresh y hy (c.nextUid + 1) (Nat.lt_succ_self _) (e.trans hu)
  refine ⟨⟨?_, ?_, ?_⟩, ?_⟩
  · intro x hx y hy hxy
    by_cases hxn : x.id = o.id
    · rw [put_no_other _ _ _ hx hxn, put_no_other _ _ _ hy (hxy.symm.trans hxn)]
    · have hx' : x ∈ c.objs := mem_put_id c.freshUid.2 o x hx hxn
      have hy' : y ∈ c.objs := mem_put_id c.freshUid.2 o y hy (fun e => hxn (hxy.trans e))
      exact h.wf.idsInj x hx' y hy' hxy
  · intro x hx y hy hxy
    rcases hold x hx with rfl | hx' <;> rcases hold y hy with rfl | hy'
    · rfl
    · exact absurd hxy.symm (hne y hy')
    · exact absurd hxy (hne x hx')
    · exact h.wf.uidInj x hx' y hy' hxy
  · intro x hx k hk'
    have hk2 : c.nextUid + 1 < k := by
      have : ((c.freshUid.2).put o).nextUid = c.nextUid + 1 := by rw [put_nextUid]; rfl
      rw [this] at hk'; exact hk'
    rcases hold x hx with rfl | hx'
    · rw [hu]
      intro e
      have := uidOf_injective e
      omega
    · exact h.wf.fresh x hx' k (by omega)
  · intro x hx
    rcases hold x hx with rfl | hx'
    · exact hk
    · exact h.kinds x hx'

/-! ### the store effects of the requests -/

theorem createLive_wfk (m : Manifest) (frm : Option String) (la : Bool) (c : Cluster) (hk : K m.id)
    (h : WFK K c) : WFK K (createLive m frm la c).1 := by
  unfold createLive
  exact wfk_fresh_put c _ rfl hk h

theorem ssaEffect_wfk (m : Manifest) (frm : Option String) (dry : Bool) (c : Cluster) (hk : K m.id)
    (h : WFK K c) : WFK K (ssaEffect m frm dry c).1 := by
  unfold ssaEffect
  cases hf : c.find? m.id with
  | none =>
    simp only []
    split
    · exact h
    · exact createLive_wfk m frm false c hk h
  | some old =>
    simp only []
    split
    · exact h
    · exact wfk_put_upd c old _ (find_some_mem _ _ _ hf).1 rfl rfl h

theorem abandonEffect_wfk (live : Live) (c : Cluster) (h : WFK K c) : WFK K (abandonEffect live c).1 := by
  unfold abandonEffect
  cases hf : c.find? live.id with
  | none => exact h
  | some cur => exact wfk_put_upd c cur _ (find_some_mem _ _ _ hf).1 rfl rfl h

theorem deleteEffect_wfk (fin : Bool) (live : Live) (c : Cluster) (h : WFK K c) : WFK K (deleteEffect fin live c).1 := by
  unfold deleteEffect
  cases hf : c.find? live.id with
  | none => exact h
  | some cur =>
    simp only []
    split
    · exact h
    · split
      · exact wfk_put_upd c cur _ (find_some_mem _ _ _ hf).1 rfl rfl h
      · exact wfk_remove c _ h

theorem nsCreateEffect_wfk (run : Run) (c : Cluster) (hns : K nsInv) (h : WFK K c) : WFK K (nsCreateEffect run c).1 := by
  unfold nsCreateEffect
  cases hf : c.find? nsInv with
  | some o => exact h
  | none =>
    simp only []
    cases hm : run.objs.find? (fun m => m.id = nsInv) with
    | none => exact h
    | some m => exact wfk_fresh_put c _ rfl hns h

theorem wfk_objs_eq (c c' : Cluster) (h : WFK K c) (ho : c'.objs = c.objs) (hn : c.nextUid ≤ c'.nextUid) : WFK K c' :=
  wfk_sub c c' h (fun o hoo => by rw [← ho]; exact hoo) hn

/-- a request whose effect keeps the store invariant -/
theorem mutReq_wfk (s : St) (verb : String) (id : Id) (dry : Bool) (pre prop : String) (eff : Cluster → Cluster × String)
    (h : WFK K s.cl) (he : WFK K (eff s.cl).1) : WFK K (s.mutReq verb id dry pre prop eff).1.cl := by
  rcases mutReq_cases s verb id dry pre prop eff with hc | hc
  · rw [hc.1]; exact h
  · rw [hc.1]; exact he

/-! ### the steps of a run -/

theorem kubectlApply_wfk (group : String) (s : St) (m : Manifest) (frm : Option String)
    (hk : K m.id) (h : WFK K s.cl) : WFK K (kubectlApply group s m frm).cl := by
  unfold kubectlApply
  split
  · unfold ssaApply
    simp only []
    have h1 := mutReq_wfk s "patch" m.id (s.run.opts.dry == .server) "" "" (ssaEffect m frm (s.run.opts.dry == .server)) h
      (ssaEffect_wfk m frm _ s.cl hk h)
    split
    · simpa using h1
    · split
      · split
        · simpa using h1
        · split <;> simpa using h1
      · simpa using h1
  · unfold csaApply
    simp only []
    cases hg : s.get m.id with
    | none => simpa using h
    | some o =>
      have hget : s.cl.find? m.id = o := by
        unfold St.get at hg
        split at hg
        · cases hg
        · simpa using hg
      cases o with
      | none =>
        simp only []
        split
        · simpa using h
        · have h1 := mutReq_wfk s "create" m.id false "" "" (fun c => ((createLive m frm true c).1, "ok")) h
            (createLive_wfk m frm true s.cl hk h)
          split
          · simpa using h1
          · split <;> simpa using h1
      | some old =>
        simp only []
        split
        · simpa using h
        · have h1 := mutReq_wfk s "patch" m.id false "" "" (fun c => (c.put (patchLive m frm true old), "ok")) h
            (wfk_put_upd s.cl old _ (find_some_mem _ _ _ hget).1 rfl rfl h)
          split <;> simpa using h1

theorem applyOne_wfk (group : String) (s : St) (id : Id) (hk : K id) (h : WFK K s.cl) :
    WFK K (applyOne group s id).cl := by
  unfold applyOne
  cases hm : manifestOf s id with
  | none => exact h
  | some m =>
    simp only []
    cases hdec : applyDecision s m with
    | fail r => simpa using h
    | skip r => simpa using h
    | go frm =>
      have hid := manifestOf_id s id m hm
      exact kubectlApply_wfk group s m frm (by rw [hid]; exact hk) h

theorem pruneOne_wfk (group : String) (uids localNs : List String) (s : St) (live : Live) (h : WFK K s.cl) :
    WFK K (pruneOne group uids localNs s live).cl := by
  cases hd : pruneDecision uids localNs s live <;> simp only [pruneOne, hd]
  · simpa using h
  · simpa using h
  · simpa using h
  · have h1 := mutReq_wfk s "update" live.id false "" "" (abandonEffect live) h (abandonEffect_wfk live s.cl h)
    split <;> simpa using h1
  · simpa using h
  · simpa using h
  · split <;> simpa using h
  · simpa using h
  · have h1 := mutReq_wfk s "delete" live.id false live.uid (propagationOf s) (deleteEffect (hasFinalizer s.run live.id) live) h
      (deleteEffect_wfk _ live s.cl h)
    split <;> simpa using h1

/-- `c'` is `c` with some objects removed -/
def Shr (c c' : Cluster) : Prop := (∀ o ∈ c'.objs, o ∈ c.objs) ∧ c'.nextUid = c.nextUid

theorem Shr.refl (c : Cluster) : Shr c c := ⟨fun _ h => h, rfl⟩
theorem Shr.trans {a b c : Cluster} (h1 : Shr a b) (h2 : Shr b c) : Shr a c :=
  ⟨fun o ho => h1.1 o (h2.1 o ho), h2.2.trans h1.2⟩
theorem Shr.wfk {c c' : Cluster} (h : Shr c c') (hw : WFK K c) : WFK K c' := wfk_sub c c' hw h.1 (by rw [h.2]; exact Nat.le_refl _)

theorem deliverOne_shr (group : String) (n : Nat) (ws : WaitSt) (d : Delivery) : Shr ws.s.cl (deliverOne group n ws d).1.s.cl := by
  unfold deliverOne
  simp only []
  split
  · exact Shr.refl _
  · split
    · exact Shr.refl _
    · split
      · exact Shr.refl _
      · obtain ⟨f1, _⟩ := deliverState_frame ws.s d
        generalize deliverState ws.s d = s2 at f1 ⊢
        generalize Wait.statusUpdate { ws.w with mgr := s2.mgr } d.id (obsOf s2.cl d) = w'
        have hf := (flushWait_frame group { s2 with mgr := w'.mgr } w' ws.w.events.length).1
        simp only []
        rw [hf]
        simp only []
        rw [f1]
        split
        · exact ⟨fun o ho => (mem_remove _ _ _ ho).1, rfl⟩
        · exact Shr.refl _

theorem deliverChain_shr (group : String) (n : Nat) (ds : List Delivery) (ws : WaitSt) :
    Shr ws.s.cl (deliverChain group n ws ds).s.cl := by
  induction ds generalizing ws with
  | nil => exact Shr.refl _
  | cons d ds ih =>
    simp only [deliverChain]
    have h1 := deliverOne_shr group n ws d
    split
    · exact h1.trans (ih _)
    · exact h1

theorem runWait_shr (group : String) (s : St) (ids : List Id) (cond : Wait.Cond) : Shr s.cl (runWait group s ids cond).1.cl := by
  unfold runWait
  simp only []
  have f0 := (flushWait_frame group { { s with waitIdx := s.waitIdx + 1 } with mgr := (Wait.start ids cond s.mgr s.cache).mgr }
      (Wait.start ids cond s.mgr s.cache) 0).1
  have e0 : Shr s.cl (flushWait group { { s with waitIdx := s.waitIdx + 1 } with mgr := (Wait.start ids cond s.mgr s.cache).mgr }
      (Wait.start ids cond s.mgr s.cache) 0).cl := by rw [f0]; exact Shr.refl _
  have efold : ∀ (chains : List (List Delivery)) (ws : WaitSt), Shr s.cl ws.s.cl →
      Shr s.cl (chains.foldl (deliverChain group s.waitIdx) ws).s.cl := by
    intro chains
    induction chains with
    | nil => intro ws h; exact h
    | cons c cs ih => intro ws h; exact ih _ (h.trans (deliverChain_shr group s.waitIdx c ws))
  have e1 := efold (ids.flatMap (scriptFor s.run cond))
    { s := flushWait group { { s with waitIdx := s.waitIdx + 1 } with mgr := (Wait.start ids cond s.mgr s.cache).mgr }
        (Wait.start ids cond s.mgr s.cache) 0, w := Wait.start ids cond s.mgr s.cache } e0
  generalize (ids.flatMap (scriptFor s.run cond)).foldl (deliverChain group s.waitIdx) _ = ws at e1
  have e2 : Shr s.cl (if !ws.stopped && !ws.w.cancelled && !ws.w.pending.isEmpty && decide (ws.s.run.cancel = CancelAt.wait s.waitIdx none) then
      ({ ws with s := { ws.s with cancelled := true }, w := Wait.cancel ws.w, stopped := true } : WaitSt) else ws).s.cl := by
    split
    · exact e1
    · exact e1
  generalize (if !ws.stopped && !ws.w.cancelled && !ws.w.pending.isEmpty && decide (ws.s.run.cancel = CancelAt.wait s.waitIdx none) then
      ({ ws with s := { ws.s with cancelled := true }, w := Wait.cancel ws.w, stopped := true } : WaitSt) else ws) = ws2 at e2
  split
  · exact e2
  · split
    · exact e2
    · have f := (flushWait_frame group { ws2.s with mgr := (Wait.timeout { ws2.w with mgr := ws2.s.mgr }).mgr }
        (Wait.timeout { ws2.w with mgr := ws2.s.mgr }) ws2.w.events.length).1
      simp only []
      rw [f]
      exact e2

theorem runInvAdd_wfk (s : St) (ids : List Id) (hns : K nsInv) (h : WFK K s.cl) : WFK K (runInvAdd s ids).1.cl := by
  have hm : ∀ t : St, WFK K t.cl → WFK K (mergeInv t ids).1.cl := by
    intro t ht
    have := mergeInv_objsFrame (ObjsFrame.refl t) ids
    exact wfk_objs_eq t.cl _ ht this.objs this.nuid
  unfold runInvAdd
  split
  · have h1 := mutReq_wfk s "create" nsInv false "" "" (nsCreateEffect s.run) h (nsCreateEffect_wfk s.run s.cl hns h)
    simp only []
    split
    · exact h1
    · exact hm _ h1
  · exact hm s h

theorem runInvSet_objsFrame (s : St) (prev : List Id) (pe : Bool) : ObjsFrame s (runInvSet s prev pe).1 := by
  unfold runInvSet
  split
  · exact ObjsFrame.refl s
  · split
    · unfold deleteInv
      simp only []
      repeat' split
      all_goals first
        | exact (ObjsFrame.refl s).invRead
        | exact (ObjsFrame.refl s).invRead.mutReq _ _ _ _ _ _ ⟨rfl, Nat.le_refl _⟩
    · unfold replaceInv
      simp only []
      repeat' split
      all_goals first
        | exact ObjsFrame.refl s
        | exact (ObjsFrame.refl s).invRead
        | exact (ObjsFrame.refl s).invRead.invRead
        | exact (ObjsFrame.refl s).invRead.invRead.mutReq _ _ _ _ _ _ (invUpdateEffect_objs _ _)

theorem runTask_wfk (s : St) (t : Task) (P : List Live) (ns : List String)
    (hns : K nsInv) (hk : ∀ ids, t.kind = .apply ids → ∀ i ∈ ids, K i) (h : WFK K s.cl) :
    WFK K (runTask s t P ns).1.cl := by
  unfold runTask
  cases hkind : t.kind with
  | invAdd ids => exact runInvAdd_wfk s ids hns h
  | apply ids =>
    simp only []
    have hk' := hk ids hkind
    clear hk hkind
    induction ids generalizing s with
    | nil => exact h
    | cons i is ih =>
      simp only [List.foldl_cons]
      exact ih _ (applyOne_wfk t.name s i (hk' i (by simp)) h) (fun j hj => hk' j (by simp [hj]))
  | prune ids =>
    simp only []
    generalize ids.filterMap (fun i => P.find? (fun o => o.id = i)) = lives
    generalize s.mgr.appliedUIDs = uids
    induction lives generalizing s with
    | nil => exact h
    | cons l ls ih =>
      simp only [List.foldl_cons]
      exact ih _ (pruneOne_wfk t.name uids ns s l h)
  | wait ids cond => exact (runWait_shr t.name s ids cond).wfk h
  | invSet prev pe =>
    have := runInvSet_objsFrame s prev pe
    exact wfk_objs_eq s.cl _ h this.objs this.nuid

theorem runTasks_wfk (P : List Live) (ns : List String) (ts : List Task) (s : St)
    (hns : K nsInv) (hk : ∀ t ∈ ts, ∀ ids, t.kind = .apply ids → ∀ i ∈ ids, K i) (h : WFK K s.cl) :
    WFK K (runTasks P ns s ts).cl := by
  induction ts generalizing s with
  | nil => exact h
  | cons t ts ih =>
    unfold runTasks
    simp only []
    have h1 := runTask_wfk (s.emit (.group t.name (t.action s.run.destroy) "Started")) t P ns hns (hk t (by simp)) h
    generalize runTask (s.emit (.group t.name (t.action s.run.destroy) "Started")) t P ns = r at h1 ⊢
    split
    · exact h1
    · split
      · exact h1
      · split
        · exact h1
        · exact ih _ (fun t' ht' => hk t' (by simp [ht'])) h1

/-! ### the plan only applies objects of known kinds -/

theorem plan_fieldBad (run : Run) (applyMs : List Manifest) (P : List Live) (prev : List Id) (pe : Bool) (hd : run.destroy = false) :
    ∀ m ∈ applyMs, fieldInvalid m = true → m.id ∈ (buildPlan run applyMs P prev pe).invalid := by
  intro m hm hf
  unfold buildPlan
  simp only [hd, Bool.false_eq_true, if_false]
  unfold Validation.invalid
  simp only [mem_union]
  left; left
  rw [mem_dedup]
  exact List.mem_map.mpr ⟨m, List.mem_filter.mpr ⟨hm, hf⟩, rfl⟩

theorem fieldValid_scope (m : Manifest) (h : fieldInvalid m = false) : (scopeOf m.id.group m.id.kind).isSome := by
  unfold fieldInvalid at h
  cases hs : scopeOf m.id.group m.id.kind with
  | none => simp [hs] at h
  | some sc => rfl

/-- every id of an apply task of the plan is the id of a manifest of the apply set that passed field validation -/
theorem plan_apply_valid (run : Run) (applyMs : List Manifest) (P : List Live) (prev : List Id) (pe : Bool)
    (hdes : run.destroy = true → applyMs = []) :
    ∀ t ∈ (buildPlan run applyMs P prev pe).tasks, ∀ ids, t.kind = .apply ids → ∀ i ∈ ids,
      ∃ m ∈ applyMs, m.id = i ∧ fieldInvalid m = false := by
  obtain ⟨layers, pf1, pf2, _, _, pf5, _⟩ := plan_facts run applyMs P prev pe
  have hknown : ∀ i ∈ (buildPlan run applyMs P prev pe).applyIds, ∃ m ∈ applyMs, m.id = i ∧ fieldInvalid m = false := by
    intro i hi
    obtain ⟨⟨m, hm, hmid⟩, hninv⟩ := (pf5 i).mp hi
    cases hd : run.destroy with
    | true => rw [hdes hd] at hm; cases hm
    | false =>
      refine ⟨m, hm, hmid, ?_⟩
      cases hf : fieldInvalid m with
      | false => rfl
      | true => exact absurd (by rw [← hmid]; exact plan_fieldBad run applyMs P prev pe hd m hm hf) hninv
  rw [pf1]
  generalize (buildPlan run applyMs P prev pe).applyIds = A at hknown
  generalize (buildPlan run applyMs P prev pe).pruneIds = Pr
  intro t ht ids hkind i hi
  obtain ⟨_, hmem⟩ := hydrate_flatten Ordering.less A layers pf2
  unfold planTasks at ht
  simp only [List.mem_append, List.mem_singleton] at ht
  rcases ht with ((h | h) | h) | h
  · split at h
    · simp at h
    · simp only [List.mem_singleton] at h; subst h; simp at hkind
  · split at h
    · simp at h
    · rcases CliUtils.GrammarL.layerTasks_mem true _ _ 0 0 t h with ⟨l, hl, hk⟩ | ⟨l, cond, hk⟩
      · simp only [if_true] at hk
        rw [hk] at hkind
        injection hkind with hkind
        subst hkind
        exact hknown i ((hmem i).mp (List.mem_flatten.mpr ⟨l, hl, hi⟩)).2
      · rw [hk] at hkind; cases hkind
  · split at h
    · rcases CliUtils.GrammarL.layerTasks_mem false _ _ 0 _ t h with ⟨l, hl, hk⟩ | ⟨l, cond, hk⟩
      · simp only [Bool.false_eq_true, if_false] at hk
        rw [hk] at hkind; cases hkind
      · rw [hk] at hkind; cases hkind
    · simp at h
  · subst h; simp at hkind

/-! ### a whole run hands a well-formed store with known kinds to the next run -/

theorem startStore_wfk (c : Cluster) (run : Run) (h : WFK K c) : WFK K (startStore c run) := by
  obtain ⟨h1, h2, _⟩ := startStore_spec c run.envDel
  exact wfk_sub c _ h h1 (by unfold startStore; rw [h2]; exact Nat.le_refl _)

theorem runOne_wfk (c : Cluster) (run : Run) (hns : K nsInv) (hK : ∀ m ∈ run.objs, fieldInvalid m = false → K m.id)
    (h : WFK K c) : WFK K (runOne c run).cl := by
  have h0 := startStore_wfk c run h
  unfold startStore at h0
  unfold runOne
  simp only []
  generalize run.envDel.foldl (fun c i => c.remove i) c = c0 at h0
  generalize hs0 : ({ cl := c0, run := run } : St) = s0
  have hcl0 : s0.cl = c0 := by rw [← hs0]
  generalize happ : (if run.destroy then [] else run.objs) = applyMs
  have hdes : run.destroy = true → applyMs = [] := by
    intro hd; rw [← happ]; simp [hd]
  have hsubm : ∀ m ∈ applyMs, m ∈ run.objs := by
    intro m hm
    rw [← happ] at hm
    split at hm
    · cases hm
    · exact hm
  have hfst := getPruneObjs_fst s0 (applyMs.map (·.id))
  obtain ⟨i1, _⟩ := invRead_frame s0
  generalize getPruneObjs s0 (applyMs.map (·.id)) = r1 at hfst ⊢
  have h1 : WFK K r1.1.cl := by rw [hfst, i1, hcl0]; exact h0
  cases hp : r1.2 with
  | none => simpa using h1
  | some P =>
    simp only []
    obtain ⟨j1, _⟩ := invRead_frame r1.1
    have h2 : WFK K r1.1.invRead.1.cl := by rw [j1]; exact h1
    generalize r1.1.invRead = r2 at h2 ⊢
    have key : ∀ prev : List Id,
        WFK K (if (!run.opts.skipInvalid && !(buildPlan run applyMs P prev r2.2.isNone).valErrors.isEmpty) = true then
            r2.1.emit (.error "other")
          else if (decide (run.cancel = CancelAt.beforeSync) && decide (run.opts.dry = Dry.none)) = true then
            (initialStatuses (prepare r2.1 (buildPlan run applyMs P prev r2.2.isNone) P)).emit (.error "canceled")
          else runTasks P (localNamespaces (applyMs.map (·.id)))
            (initialStatuses (prepare r2.1 (buildPlan run applyMs P prev r2.2.isNone) P))
            (buildPlan run applyMs P prev r2.2.isNone).tasks).cl := by
      intro prev
      have hs : WFK K (initialStatuses (prepare r2.1 (buildPlan run applyMs P prev r2.2.isNone) P)).cl := by
        rw [(CliUtils.Props.C10.initialStatuses_harmless _).cl, (CliUtils.Props.C10.prepare_harmless _ _ _).cl]; exact h2
      split
      · exact h2
      · split
        · exact hs
        · refine runTasks_wfk P _ _ _ hns ?_ hs
          intro t ht ids hk i hi
          obtain ⟨m, hm, hmid, hfv⟩ := plan_apply_valid run applyMs P prev r2.2.isNone hdes t ht ids hk i hi
          rw [← hmid]
          exact hK m (hsubm m hm) hfv
    split <;> exact key _

/-! ### a dry-run never creates an orphan (it never changes the store) -/

theorem ssaEffect_dry (m : Manifest) (frm : Option String) (c : Cluster) : (ssaEffect m frm true c).1 = c := by
  unfold ssaEffect
  split <;> rfl

theorem kubectlApply_dry_safe (group : String) (s : St) (m : Manifest) (frm : Option String) (hs : Safe s) (hd : dryOf s = true) :
    Safe (kubectlApply group s m frm) := by
  unfold dryOf at hd
  unfold kubectlApply
  split
  · rename_i hssa
    have hserver : s.run.opts.dry = .server := by
      unfold useSSA at hssa
      cases hdd : s.run.opts.dry with
      | none => rw [hdd] at hd; simp at hd
      | client => rw [hdd] at hssa; simp at hssa
      | server => rfl
    unfold ssaApply
    simp only []
    have hflag : (s.run.opts.dry == Dry.server) = true := by rw [hserver]; rfl
    rw [hflag]
    have h1 := safe_mutReq s "patch" m.id true "" "" (ssaEffect m frm true) hs (fun h => by rw [ssaEffect_dry]; exact h)
    split
    · exact safe_of_eq _ _ h1 (by simp) (by simp)
    · split
      · simp only [if_true]
        exact safe_of_eq _ _ h1 (by simp) (by simp)
      · exact safe_of_eq _ _ h1 (by simp) (by simp)
  · rename_i hssa
    have hclient : s.run.opts.dry = .client := by
      unfold useSSA at hssa
      cases hdd : s.run.opts.dry with
      | none => rw [hdd] at hd; simp at hd
      | client => rfl
      | server => rw [hdd] at hssa; simp at hssa
    unfold csaApply
    simp only []
    cases hg : s.get m.id with
    | none => exact safe_of_eq _ _ hs (by simp) (by simp)
    | some o =>
      cases o with
      | none => simp only [hclient, if_true]; exact safe_of_eq _ _ hs (by simp) (by simp)
      | some old => simp only [hclient, Bool.or_true, decide_true, if_true]; exact safe_of_eq _ _ hs (by simp) (by simp)

theorem applyOne_dry_safe (group : String) (s : St) (id : Id) (hs : Safe s) (hd : dryOf s = true) : Safe (applyOne group s id) := by
  unfold applyOne
  cases hm : manifestOf s id with
  | none => exact hs
  | some m =>
    simp only []
    cases hdec : applyDecision s m with
    | fail r => exact safe_of_eq _ _ hs (by simp) (by simp)
    | skip r => exact safe_of_eq _ _ hs (by simp) (by simp)
    | go frm => exact kubectlApply_dry_safe group s m frm hs hd

theorem runInvSet_dry_safe (s : St) (prev : List Id) (pe : Bool) (hs : Safe s) (hd : dryOf s = true) : Safe (runInvSet s prev pe).1 := by
  have hd1 : dryOf s.invRead.1 = true := by unfold dryOf at *; simpa using hd
  unfold runInvSet
  split
  · exact hs
  · split
    · unfold deleteInv
      simp only []
      cases h : s.invRead.2 with
      | none => exact invRead_safe s hs
      | some o =>
        cases o with
        | none => exact invRead_safe s hs
        | some l => simp only [hd1, if_true]; exact invRead_safe s hs
    · unfold replaceInv
      simp only [hd, if_true]
      exact hs

theorem runTask_dry_safe (s : St) (t : Task) (P : List Live) (ns : List String) (hs : Safe s) (hd : dryOf s = true) :
    Safe (runTask s t P ns).1 := by
  unfold runTask
  cases hk : t.kind with
  | invAdd ids =>
    simp only []
    unfold runInvAdd
    simp only [hd, Bool.not_true, Bool.and_false, Bool.false_eq_true, if_false]
    exact mergeInv_safe s ids hs
  | apply ids =>
    simp only []
    clear hk
    induction ids generalizing s with
    | nil => exact hs
    | cons i is ih =>
      simp only [List.foldl_cons]
      refine ih _ (applyOne_dry_safe t.name s i hs hd) ?_
      unfold dryOf at *
      rw [CliUtils.GrammarL.applyOne_run]; exact hd
  | prune ids => exact (pruneFold_safe t.name _ ns _ s hs).1
  | wait ids cond => exact (runWait_safe t.name s ids cond hs).1
  | invSet prev pe => exact runInvSet_dry_safe s prev pe hs hd

theorem runTasks_dry_safe (P : List Live) (ns : List String) (ts : List Task) (s : St) (hs : Safe s) (hd : dryOf s = true)
    (hnw : ∀ t ∈ ts, ∀ ids c, t.kind ≠ .wait ids c) : Safe (runTasks P ns s ts) := by
  induction ts generalizing s with
  | nil => exact hs
  | cons t ts ih =>
    have hd1 : dryOf (s.emit (.group t.name (t.action s.run.destroy) "Started")) = true := hd
    refine runTasks_cons_safe P ns s t ts (runTask_dry_safe _ t P ns (safe_emit hs _) hd1) ?_
    intro _ _ _
    refine ih _ (safe_emit (runTask_dry_safe _ t P ns (safe_emit hs _) hd1) _) ?_ (fun t' ht' => hnw t' (by simp [ht']))
    have e2 := runTask_dry (s.emit (.group t.name (t.action s.run.destroy) "Started")) t P ns hd1 (hnw t (by simp))
    unfold dryOf at *
    rw [show ((runTask (s.emit (.group t.name (t.action s.run.destroy) "Started")) t P ns).1.emit
      (.group t.name (t.action s.run.destroy) "Finished")).run = s.run from e2.run]
    exact hd

theorem runOne_dry_safe (c : Cluster) (run : Run) (hd : run.opts.dry ≠ .none) (h0 : NoOrphanCl c) : Safe (runOne c run) := by
  obtain ⟨hsub, _, hinv0⟩ := startStore_spec c run.envDel
  have hc0 : NoOrphanCl (run.envDel.foldl (fun c i => c.remove i) c) := by
    intro o ho hown
    obtain ⟨l, hl, hm⟩ := h0 o (hsub o ho) hown
    exact ⟨l, by rw [hinv0]; exact hl, hm⟩
  unfold runOne
  simp only []
  generalize run.envDel.foldl (fun c i => c.remove i) c = c0 at hc0
  generalize hs0 : ({ cl := c0, run := run } : St) = s0
  have hr0 : s0.run = run := by rw [← hs0]
  have hsafe0 : Safe s0 := ⟨by rw [← hs0]; exact hc0, by rw [← hs0]; intro m hm; cases hm⟩
  generalize (if run.destroy then [] else run.objs) = applyMs
  have hfst := getPruneObjs_fst s0 (applyMs.map (·.id))
  obtain ⟨i1, i2, _, _, _, _, i7⟩ := invRead_frame s0
  generalize getPruneObjs s0 (applyMs.map (·.id)) = r1 at hfst ⊢
  have hsafe1 : Safe r1.1 := by rw [hfst]; exact safe_of_eq _ _ hsafe0 i1 i7
  have hr1 : r1.1.run = run := by rw [hfst, i2, hr0]
  cases hp : r1.2 with
  | none => exact safe_emit hsafe1 _
  | some P =>
    simp only []
    obtain ⟨j1, j2, _, _, _, _, j7⟩ := invRead_frame r1.1
    have hsafe2 : Safe r1.1.invRead.1 := safe_of_eq _ _ hsafe1 j1 j7
    have hr2 : r1.1.invRead.1.run = run := by rw [j2, hr1]
    generalize r1.1.invRead = r2 at hsafe2 hr2 ⊢
    have key : ∀ prev : List Id,
        Safe (if (!run.opts.skipInvalid && !(buildPlan run applyMs P prev r2.2.isNone).valErrors.isEmpty) = true then
            r2.1.emit (.error "other")
          else if (decide (run.cancel = CancelAt.beforeSync) && decide (run.opts.dry = Dry.none)) = true then
            (initialStatuses (prepare r2.1 (buildPlan run applyMs P prev r2.2.isNone) P)).emit (.error "canceled")
          else runTasks P (localNamespaces (applyMs.map (·.id)))
            (initialStatuses (prepare r2.1 (buildPlan run applyMs P prev r2.2.isNone) P))
            (buildPlan run applyMs P prev r2.2.isNone).tasks) := by
      intro prev
      have e3 := Harmless.trans (prepare_harmless r2.1 (buildPlan run applyMs P prev r2.2.isNone) P) (initialStatuses_harmless _)
      have hs : Safe (initialStatuses (prepare r2.1 (buildPlan run applyMs P prev r2.2.isNone) P)) := by
        refine safe_of_eq _ _ hsafe2 e3.cl ?_
        rw [CliUtils.ProvL.initialStatuses_muts, CliUtils.ProvL.prepare_muts]
      split
      · exact safe_emit hsafe2 _
      · split
        · exact safe_emit hs _
        · refine runTasks_dry_safe P _ _ _ hs ?_ ?_
          · unfold dryOf; rw [e3.run, hr2]; simpa using hd
          · exact planTasks_dry_no_wait run _ _ _ _ _ hd
    split <;> exact key _

end CliUtils.HistoryL
