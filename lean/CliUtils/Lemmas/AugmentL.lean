import CliUtils.Model.Status
import CliUtils.Spec.Status
import CliUtils.Lemmas.JsonL
import CliUtils.Lemmas.StatusShape
import CliUtils.Lemmas.StatusGeneric
/-
  Lemmas about `Augment`: what the rewritten condition list converts to, and which signal comes first in it.
-/
namespace CliUtils.KStatus
open CliUtils CliUtils.J CliUtils.Spec.KStatus

/-- the effect of Augment's inner loop on a converted condition -/
def updBC (rc : Cond) (b : BC) : BC :=
  if b.type = rc.type then { type := rc.type, status := rc.status, reason := rc.reason, message := "<msg>" } else b

theorem augItem_obj (rc : Cond) (m : List (String × J)) :
    augItem rc (.obj m) =
      match lookup "type" m with
      | some (.str t) =>
        if t = rc.type then
          match lookup "status" m with
          | some (.str s) =>
            some (.obj (setKey "message" msgJ (setKey "reason" (.str rc.reason) (setKey "lastUpdateTime" nowJ
                    (setKey "status" (.str rc.status) (if s ≠ rc.status then setKey "lastTransitionTime" nowJ m else m))))), true)
          | _ => none
        else some (.obj m, false)
      | _ => none := by
  rfl

theorem convCond_obj_type (m : List (String × J)) (t : String) (bc : BC) (ht : lookup "type" m = some (.str t))
    (hc : convCond (.obj m) = some bc) : bc.type = t := by
  simp only [convCond, ht, convStr] at hc
  split at hc
  · injection hc with hc; rw [← hc]
    rename_i h1 _ _ _
    injection h1 with h1; exact h1.symm
  · cases hc

theorem augItem_conv (rc : Cond) (x x' : J) (b : Bool) (bc : BC)
    (ha : augItem rc x = some (x', b)) (hc : convCond x = some bc) :
    convCond x' = some (updBC rc bc) ∧ b = decide (bc.type = rc.type) := by
  cases x with
  | obj m =>
    rw [augItem_obj] at ha
    cases hty : lookup "type" m with
    | none => simp [hty] at ha
    | some tv =>
      cases tv with
      | str t =>
        have hbt : bc.type = t := convCond_obj_type m t bc hty hc
        simp only [hty] at ha
        by_cases hte : t = rc.type
        · simp only [hte, if_true] at ha
          cases hst : lookup "status" m with
          | none => simp [hst] at ha
          | some sv =>
            cases sv with
            | str s =>
              simp only [hst, Option.some.injEq, Prod.mk.injEq] at ha
              obtain ⟨hx, hb⟩ := ha
              subst hx; subst hb
              refine ⟨?_, by simp [hbt, hte]⟩
              have e1 : ("type" : String) ≠ "message" := by decide
              have e2 : ("type" : String) ≠ "reason" := by decide
              have e3 : ("type" : String) ≠ "lastUpdateTime" := by decide
              have e4 : ("type" : String) ≠ "status" := by decide
              have e5 : ("type" : String) ≠ "lastTransitionTime" := by decide
              have f1 : ("status" : String) ≠ "message" := by decide
              have f2 : ("status" : String) ≠ "reason" := by decide
              have f3 : ("status" : String) ≠ "lastUpdateTime" := by decide
              have g1 : ("reason" : String) ≠ "message" := by decide
              have hm1 : lookup "type" (if s ≠ rc.status then setKey "lastTransitionTime" nowJ m else m) = some (.str t) := by
                split
                · rw [lookup_setKey_other _ _ _ _ e5, hty]
                · exact hty
              simp only [convCond, lookup_setKey_same, lookup_setKey_other _ _ _ _ e1, lookup_setKey_other _ _ _ _ e2,
                lookup_setKey_other _ _ _ _ e3, lookup_setKey_other _ _ _ _ e4, hm1,
                lookup_setKey_other _ _ _ _ f1, lookup_setKey_other _ _ _ _ f2, lookup_setKey_other _ _ _ _ f3, lookup_setKey_other _ _ _ _ g1, convStr, msgJ]
              simp [updBC, hbt, hte]
            | null => simp [hst] at ha
            | bool _ => simp [hst] at ha
            | num _ => simp [hst] at ha
            | float _ => simp [hst] at ha
            | arr _ => simp [hst] at ha
            | obj _ => simp [hst] at ha
        · simp only [hte, if_false, Option.some.injEq, Prod.mk.injEq] at ha
          obtain ⟨hx, hb⟩ := ha
          subst hx; subst hb
          refine ⟨?_, by simp [hbt, hte]⟩
          simp [updBC, hbt, hte, hc]
      | null => simp [hty] at ha
      | bool _ => simp [hty] at ha
      | num _ => simp [hty] at ha
      | float _ => simp [hty] at ha
      | arr _ => simp [hty] at ha
      | obj _ => simp [hty] at ha
  | null => simp [augItem] at ha
  | bool _ => simp [augItem] at ha
  | num _ => simp [augItem] at ha
  | float _ => simp [augItem] at ha
  | str _ => simp [augItem] at ha
  | arr _ => simp [augItem] at ha
theorem augList_conv (rc : Cond) (xs xs' : List J) (p : Bool) (cs : List BC)
    (ha : augList rc xs = some (xs', p)) (hc : convList xs = some cs) :
    convList xs' = some (cs.map (updBC rc)) ∧ p = cs.any (fun b => b.type = rc.type) := by
  induction xs generalizing xs' p cs with
  | nil =>
    simp only [augList, Option.some.injEq, Prod.mk.injEq] at ha
    simp only [convList, Option.some.injEq] at hc
    obtain ⟨h1, h2⟩ := ha
    subst h1; subst h2; subst hc
    simp [convList]
  | cons x xs ih =>
    unfold augList at ha
    unfold convList at hc
    split at ha
    · rename_i x1 b1 xs1 b2 hx hxs
      injection ha with ha
      injection ha with h1 h2
      subst h1; subst h2
      split at hc
      · rename_i bc bcs hbc hbcs
        injection hc with hc; subst hc
        obtain ⟨i1, i2⟩ := augItem_conv rc x x1 b1 bc hx hbc
        obtain ⟨j1, j2⟩ := ih xs1 b2 bcs hxs hbcs
        refine ⟨?_, ?_⟩
        · simp [convList, i1, j1]
        · simp [i2, j2]
      · cases hc
    · cases ha

/-- the converted form of the condition Augment appends -/
def newBC (rc : Cond) : BC := { type := rc.type, status := rc.status, reason := rc.reason, message := "<msg>" }

theorem convCond_newCondJ (rc : Cond) : convCond (newCondJ rc) = some (newBC rc) := by
  simp [newCondJ, convCond, lookup, convStr, newBC, msgJ]

theorem convList_append (xs ys : List J) (a b : List BC) (hx : convList xs = some a) (hy : convList ys = some b) :
    convList (xs ++ ys) = some (a ++ b) := by
  induction xs generalizing a with
  | nil => simp only [convList, Option.some.injEq] at hx; subst hx; simpa using hy
  | cons x xs ih =>
    unfold convList at hx
    split at hx
    · rename_i bc bcs h1 h2
      injection hx with hx; subst hx
      simp [convList, h1, ih bcs h2]
    · cases hx

/-- the list after one outer iteration of Augment, in converted form -/
def augBCs (rc : Cond) (cs : List BC) : List BC :=
  cs.map (updBC rc) ++ (if cs.any (fun b => b.type = rc.type) then [] else [newBC rc])

theorem augOne_conv (rc : Cond) (xs xs' : List J) (cs : List BC)
    (ha : augOne rc xs = some xs') (hc : convList xs = some cs) : convList xs' = some (augBCs rc cs) := by
  unfold augOne at ha
  split at ha
  · cases ha
  · rename_i ys p hl
    obtain ⟨h1, h2⟩ := augList_conv rc xs ys p cs hl hc
    unfold augBCs
    split at ha
    · rename_i hp
      injection ha with ha; subst ha
      rw [← h2, hp]; simpa using h1
    · rename_i hp
      injection ha with ha; subst ha
      have : p = false := by cases p <;> simp_all
      rw [← h2, this]
      simpa using convList_append ys [newCondJ rc] _ [newBC rc] h1 (by simp [convList, convCond_newCondJ])

/-- after Augment wrote a true condition of type T ∈ {Reconciling, Stalled}: if before no signal came first, or the
first signal had type T, then afterwards the first signal has type T -/
theorem firstSignal_augBCs (rc : Cond) (cs : List BC) (hT : rc.type = "Reconciling" ∨ rc.type = "Stalled")
    (hS : rc.status = "True")
    (h : firstSignal cs = none ∨ ∃ c, firstSignal cs = some c ∧ c.type = rc.type) :
    ∃ c', firstSignal (augBCs rc cs) = some c' ∧ c'.type = rc.type := by
  have hnew : isSignal (newBC rc) = true := by
    simp only [isSignal, newBC]; exact decide_eq_true ⟨hT, hS⟩
  induction cs with
  | nil =>
    refine ⟨newBC rc, ?_, rfl⟩
    simp [augBCs, firstSignal, hnew]
  | cons b bs ih =>
    by_cases hb : b.type = rc.type
    · refine ⟨newBC rc, ?_, rfl⟩
      have : updBC rc b = newBC rc := by simp [updBC, hb, newBC]
      simp [augBCs, firstSignal, this, hnew]
    · have hu : updBC rc b = b := by simp [updBC, hb]
      have hnb : isSignal b = false := by
        cases hsb : isSignal b with
        | false => rfl
        | true =>
          exfalso
          rcases h with h | ⟨c, h, hc⟩
          · simp [firstSignal, hsb] at h
          · simp only [firstSignal, List.find?_cons, hsb, Option.some.injEq] at h
            subst h; exact hb hc
      have h' : firstSignal bs = none ∨ ∃ c, firstSignal bs = some c ∧ c.type = rc.type := by
        simpa [firstSignal, List.find?_cons, hnb] using h
      obtain ⟨c', hc', ht'⟩ := ih h'
      refine ⟨c', ?_, ht'⟩
      have hany : (b :: bs).any (fun b => decide (b.type = rc.type)) = bs.any (fun b => decide (b.type = rc.type)) := by
        simp [hb]
      simp only [augBCs, hany, List.map_cons, hu, List.cons_append, firstSignal, List.find?_cons, hnb]
      simpa [augBCs, firstSignal] using hc'

/-- `o'` reads like `o` everywhere except possibly at `status.conditions` itself, and converts to the same conditions -/
structure Sim (o o' : J) : Prop where
  conds : convConds o' = convConds o
  top : ∀ f rest, f ≠ "status" → nestedField o' (f :: rest) = nestedField o (f :: rest)
  st : ∀ f rest, f ≠ "conditions" → nestedField o' ("status" :: f :: rest) = nestedField o ("status" :: f :: rest)

theorem checkGenericProperties_congr (o o' : J) (h : Sim o o') : checkGenericProperties o' = checkGenericProperties o := by
  have ht := h.top
  have hs := h.st
  simp only [checkGenericProperties, checkGenericTail, checkGeneration, conv, nestedString, nestedInt64, ht, hs, h.conds,
    ne_eq, String.reduceEq, not_false_eq_true]

theorem kindFn_congr (k : Kind) (w : Bool) (o o' : J) (h : Sim o o') : kindFn k w o' = kindFn k w o := by
  have ht := h.top
  have hs := h.st
  cases k <;> first | rfl | skip
  all_goals
    simp only [kindFn, serviceConditions, podConditions, pvcConditions, stsConditions, daemonsetConditions,
      deploymentConditions, replicasetConditions, jobConditions, crdConditions, checkGenerationSet, crashLooping,
      conv, nestedInt64, nestedSlice, getIntField, getStringField, ht, hs, h.conds,
      ne_eq, String.reduceEq, not_false_eq_true]
  all_goals rfl

theorem computeK_congr (key : String) (w : Bool) (o o' : J) (h : Sim o o') : computeK key w o' = computeK key w o := by
  unfold computeK
  rw [checkGenericProperties_congr o o' h]
  have : checkReadyCondition o' = checkReadyCondition o := by simp [checkReadyCondition, conv, h.conds]
  rw [this]
  split
  · rfl
  · rfl
  · split
    · exact kindFn_congr _ w o o' h
    · rfl

theorem sim_of_set (o o' : J) (items : List J) (h : setStatusConditions o (.arr items) = some o')
    (hc : convList items = convConds o) : Sim o o' :=
  { conds := by rw [convConds_set o o' items h, hc]
    top := fun f rest hf => nestedField_set_other o o' _ h f rest hf
    st := fun f rest hf => nestedField_set_status_other o o' _ h f rest hf }

/-- the part of `checkGenericProperties` before the conditions are looked at -/
def genericPre (o : J) : Except Err (Option Result) :=
  match nestedString o ["metadata", "deletionTimestamp"] with
  | .err => .error .accessor
  | .found s => if s ≠ "" then .ok (some terminatingR) else checkGeneration o
  | .notFound => checkGeneration o

theorem checkGenericProperties_eq (o : J) :
    checkGenericProperties o =
      match genericPre o with
      | .error e => .error e
      | .ok (some r) => .ok (some r)
      | .ok none =>
        match conv o with
        | .error e => .error e
        | .ok cs => .ok (genericLoop cs) := by
  unfold checkGenericProperties genericPre checkGenericTail
  cases nestedString o ["metadata", "deletionTimestamp"] with
  | err => rfl
  | notFound =>
    simp only []
    cases checkGeneration o with
    | error e => rfl
    | ok r => cases r <;> rfl
  | found s =>
    simp only []
    split
    · rfl
    · cases checkGeneration o with
      | error e => rfl
      | ok r => cases r <;> rfl

theorem genericPre_set (o o' v : J) (h : setStatusConditions o v = some o') : genericPre o' = genericPre o := by
  have ht := fun f rest hf => nestedField_set_other o o' v h f rest hf
  have hs := fun f rest hf => nestedField_set_status_other o o' v h f rest hf
  simp only [genericPre, checkGeneration, nestedString, nestedInt64, ht, hs, ne_eq, String.reduceEq, not_false_eq_true]

theorem lookup_type_after_write (rc : Cond) (s t : String) (m : List (String × J)) (hty : lookup "type" m = some (.str t)) :
    lookup "type" (setKey "message" msgJ (setKey "reason" (.str rc.reason) (setKey "lastUpdateTime" nowJ
      (setKey "status" (.str rc.status) (if s ≠ rc.status then setKey "lastTransitionTime" nowJ m else m))))) = some (.str t) := by
  have e1 : ("type" : String) ≠ "message" := by decide
  have e2 : ("type" : String) ≠ "reason" := by decide
  have e3 : ("type" : String) ≠ "lastUpdateTime" := by decide
  have e4 : ("type" : String) ≠ "status" := by decide
  have e5 : ("type" : String) ≠ "lastTransitionTime" := by decide
  rw [lookup_setKey_other _ _ _ _ e1, lookup_setKey_other _ _ _ _ e2, lookup_setKey_other _ _ _ _ e3,
    lookup_setKey_other _ _ _ _ e4]
  split
  · rw [lookup_setKey_other _ _ _ _ e5, hty]
  · exact hty

/-- Augment's inner loop leaves an entry that is not a standard condition exactly as it is, and a standard condition
stays a standard condition -/
theorem augItem_others (rc : Cond) (x x' : J) (b : Bool) (ha : augItem rc x = some (x', b))
    (hT : rc.type = "Reconciling" ∨ rc.type = "Stalled") :
    isStdJ x' = isStdJ x ∧ (isStdJ x = false → x' = x) := by
  cases x with
  | obj m =>
    rw [augItem_obj] at ha
    cases hty : lookup "type" m with
    | none => simp [hty] at ha
    | some tv =>
      cases tv with
      | str t =>
        simp only [hty] at ha
        by_cases hte : t = rc.type
        · simp only [hte, if_true] at ha
          cases hst : lookup "status" m with
          | none => simp [hst] at ha
          | some sv =>
            cases sv with
            | str s =>
              simp only [hst, Option.some.injEq, Prod.mk.injEq] at ha
              obtain ⟨hx, _⟩ := ha
              subst hx
              have hstd : isStdJ (.obj m) = true := by
                simp only [isStdJ, hty, hte, decide_eq_true_eq]; exact hT
              refine ⟨?_, fun hf => by rw [hstd] at hf; cases hf⟩
              rw [hstd]
              simp only [isStdJ, lookup_type_after_write rc s t m hty, hte, decide_eq_true_eq]; exact hT
            | null => simp [hst] at ha
            | bool _ => simp [hst] at ha
            | num _ => simp [hst] at ha
            | float _ => simp [hst] at ha
            | arr _ => simp [hst] at ha
            | obj _ => simp [hst] at ha
        · simp only [hte, if_false, Option.some.injEq, Prod.mk.injEq] at ha
          obtain ⟨hx, _⟩ := ha
          subst hx
          exact ⟨rfl, fun _ => rfl⟩
      | null => simp [hty] at ha
      | bool _ => simp [hty] at ha
      | num _ => simp [hty] at ha
      | float _ => simp [hty] at ha
      | arr _ => simp [hty] at ha
      | obj _ => simp [hty] at ha
  | null => simp [augItem] at ha
  | bool _ => simp [augItem] at ha
  | num _ => simp [augItem] at ha
  | float _ => simp [augItem] at ha
  | str _ => simp [augItem] at ha
  | arr _ => simp [augItem] at ha

theorem augList_others (rc : Cond) (xs xs' : List J) (p : Bool) (ha : augList rc xs = some (xs', p))
    (hT : rc.type = "Reconciling" ∨ rc.type = "Stalled") :
    xs'.filter (fun c => !isStdJ c) = xs.filter (fun c => !isStdJ c) := by
  induction xs generalizing xs' p with
  | nil =>
    simp only [augList, Option.some.injEq, Prod.mk.injEq] at ha
    rw [← ha.1]
  | cons x xs ih =>
    unfold augList at ha
    split at ha
    · rename_i x1 b1 xs1 b2 hx hxs
      injection ha with ha
      injection ha with h1 h2
      subst h1
      obtain ⟨i1, i2⟩ := augItem_others rc x x1 b1 hx hT
      have := ih xs1 b2 hxs
      simp only [List.filter_cons, i1, this]
      cases hstd : isStdJ x with
      | true => simp
      | false => simp [i2 hstd]
    · cases ha

theorem isStdJ_newCondJ (rc : Cond) (hT : rc.type = "Reconciling" ∨ rc.type = "Stalled") : isStdJ (newCondJ rc) = true := by
  simp only [isStdJ, newCondJ, lookup, String.reduceEq, if_false, if_true, decide_eq_true_eq]; exact hT

theorem augOne_others (rc : Cond) (xs xs' : List J) (ha : augOne rc xs = some xs')
    (hT : rc.type = "Reconciling" ∨ rc.type = "Stalled") :
    xs'.filter (fun c => !isStdJ c) = xs.filter (fun c => !isStdJ c) := by
  unfold augOne at ha
  split at ha
  · cases ha
  · rename_i ys p hl
    have := augList_others rc xs ys p hl hT
    split at ha
    · injection ha with ha; subst ha; exact this
    · injection ha with ha; subst ha
      simp [List.filter_append, this, isStdJ_newCondJ rc hT]

end CliUtils.KStatus
