import CliUtils.Spec.PrintSpec
/-
  Helper lemmas for Props/C20: the grammar implies printability; the running statistics of the printer are the
  event counts of the prefix; closed form of the print loop; the closed form satisfies the property predicate.
-/
namespace CliUtils.Lemmas.PrintL
open CliUtils CliUtils.Print CliUtils.Spec

variable {ι : Type}

/-! ### grammar ⇒ printable -/

section
variable [DecidableEq ι]

theorem step_countable {plan : List (ActionGroup ι)} {ph ph1 : Phase ι} {e : Event ι}
    (h : step plan ph e = some ph1) (_hne : e.isError = false) : countable e = true := by
  cases ph <;> cases e <;> simp_all [step, countable, resultOk, Event.isError]

theorem step_error {plan : List (ActionGroup ι)} {ph ph1 : Phase ι} {e : Event ι}
    (h : step plan ph e = some ph1) (he : e.isError = true) : ph1 = .done := by
  cases ph <;> cases e <;> simp_all [step, Event.isError]

theorem run_done {plan : List (ActionGroup ι)} {es : List (Event ι)} {ph' : Phase ι}
    (h : run plan .done es = some ph') : es = [] := by
  cases es with
  | nil => rfl
  | cons e es => simp [run, step] at h

theorem run_printable (plan : List (ActionGroup ι)) :
    ∀ (es : List (Event ι)) (ph ph' : Phase ι), run plan ph es = some ph' → printable es = true := by
  intro es
  induction es with
  | nil => intros; rfl
  | cons e es ih =>
    intro ph ph' h
    simp only [run] at h
    cases hs : step plan ph e with
    | none => simp [hs] at h
    | some ph1 =>
      simp only [hs] at h
      simp only [printable]
      cases he : e.isError with
      | true =>
        have := step_error hs he
        subst this
        simp [run_done h]
      | false =>
        simp [step_countable hs he, ih ph1 ph' h]

theorem wf_printable {plan : List (ActionGroup ι)} {es : List (Event ι)}
    (h : eventsWellFormed plan es = true) : printable es = true := by
  unfold eventsWellFormed at h
  cases hr : run plan .pre es with
  | none => simp [hr] at h
  | some ph => exact run_printable plan es _ _ hr

/-! ### grammar ⇒ the finished groups are a prefix of the plan -/

/-- names of the groups whose `Finished` event is still due, in plan order -/
def todo (plan : List (ActionGroup ι)) : Phase ι → List String
  | .pre => plan.map (·.name)
  | .between rest => rest.map (·.name)
  | .inGroup g _ rest => g.name :: rest.map (·.name)
  | .done => []

theorem step_todo {plan : List (ActionGroup ι)} {ph ph1 : Phase ι} {e : Event ι}
    (h : step plan ph e = some ph1) (hne : e.isError = false) :
    todo plan ph = finishedGroups [e] ++ todo plan ph1 := by
  cases ph with
  | pre =>
    cases e <;> simp_all [step, Event.isError]
    all_goals (obtain ⟨_, rfl⟩ := h; simp [todo, finishedGroups])
  | done => simp [step] at h
  | between rest =>
    cases e with
    | actionGroup n a st =>
      cases st <;> cases rest <;> simp_all [step]
      obtain ⟨_, rfl⟩ := h; simp [todo, finishedGroups]
    | status => simp_all [step]; subst h; simp [finishedGroups]
    | _ => simp_all [step, Event.isError]
  | inGroup g seen rest =>
    cases e with
    | actionGroup n a st =>
      cases st <;> simp_all [step]
      obtain ⟨⟨_, _⟩, rfl⟩ := h; simp [todo, finishedGroups]
    | status => simp_all [step]; subst h; simp [finishedGroups]
    | apply => simp_all [step]; obtain ⟨_, rfl⟩ := h; simp [todo, finishedGroups]
    | prune => simp_all [step]; obtain ⟨_, rfl⟩ := h; simp [todo, finishedGroups]
    | delete => simp_all [step]; obtain ⟨_, rfl⟩ := h; simp [todo, finishedGroups]
    | wait => simp_all [step]; obtain ⟨_, rfl⟩ := h; simp [todo, finishedGroups]
    | _ => simp_all [step, Event.isError]

theorem run_todo (plan : List (ActionGroup ι)) :
    ∀ (es : List (Event ι)) (ph ph' : Phase ι), run plan ph es = some ph' →
      ∃ tail, todo plan ph = finishedGroups es ++ tail := by
  intro es
  induction es with
  | nil => intro ph ph' _; exact ⟨todo plan ph, by simp [finishedGroups]⟩
  | cons e es ih =>
    intro ph ph' h
    simp only [run] at h
    cases hs : step plan ph e with
    | none => simp [hs] at h
    | some ph1 =>
      simp only [hs] at h
      cases he : e.isError with
      | true =>
        have := step_error hs he
        subst this
        have := run_done h
        subst this
        refine ⟨todo plan ph, ?_⟩
        cases e <;> simp_all [finishedGroups, Event.isError]
      | false =>
        obtain ⟨tail, ht⟩ := ih ph1 ph' h
        refine ⟨tail, ?_⟩
        rw [step_todo hs he, ht]
        simp only [finishedGroups, List.filterMap_cons, List.filterMap_nil]
        cases e with
        | actionGroup n a st => cases st <;> simp
        | _ => simp

end

/-! ### the running statistics are the event counts -/

theorem tally_nil : tally ([] : List (Event ι)) = {} := by
  simp [tally, tallyOp, tallyWait, countOp, countWait]

theorem handle_tally (pre : List (Event ι)) (e : Event ι) (hc : countable e = true) :
    (tally pre).handle e = some (tally (pre ++ [e])) := by
  cases e with
  | apply g id st err =>
    cases st <;> simp_all [countable, Stats.handle, OpStats.inc, tally, tallyOp, tallyWait, countOp, countWait,
      List.countP_append, Event.isOp, Event.isWait]
  | prune g id st err =>
    cases st <;> simp_all [countable, Stats.handle, OpStats.inc, tally, tallyOp, tallyWait, countOp, countWait,
      List.countP_append, Event.isOp, Event.isWait]
  | delete g id st err =>
    cases st <;> simp_all [countable, Stats.handle, OpStats.inc, tally, tallyOp, tallyWait, countOp, countWait,
      List.countP_append, Event.isOp, Event.isWait]
  | wait g id st =>
    cases st <;> simp [Stats.handle, WaitStats.inc, tally, tallyOp, tallyWait, countOp, countWait,
      List.countP_append, Event.isOp, Event.isWait]
  | _ => simp [Stats.handle, tally, tallyOp, tallyWait, countOp, countWait,
      List.countP_append, Event.isOp, Event.isWait]

theorem handle_isSome (s : Stats) (e : Event ι) (hc : countable e = true) : (s.handle e).isSome = true := by
  cases e with
  | apply g id st err => cases st <;> simp_all [countable, Stats.handle, OpStats.inc]
  | prune g id st err => cases st <;> simp_all [countable, Stats.handle, OpStats.inc]
  | delete g id st err => cases st <;> simp_all [countable, Stats.handle, OpStats.inc]
  | _ => simp [Stats.handle]

theorem handleAll_tally : ∀ (es pre : List (Event ι)) (s : Stats),
    Stats.handleAll (tally pre) es = some s → s = tally (pre ++ es) := by
  intro es
  induction es with
  | nil => intro pre s h; simp [Stats.handleAll] at h; simp [h]
  | cons e es ih =>
    intro pre s h
    simp only [Stats.handleAll] at h
    cases hh : (tally pre).handle e with
    | none => simp [hh] at h
    | some s1 =>
      simp only [hh] at h
      -- the step did not panic, so it is the counting step
      have hs1 : s1 = tally (pre ++ [e]) := by
        by_cases hc : countable e = true
        · rw [handle_tally pre e hc] at hh; exact (Option.some.inj hh).symm
        · cases e with
          | apply g id st err => cases st <;> simp_all [countable, Stats.handle, OpStats.inc]
          | prune g id st err => cases st <;> simp_all [countable, Stats.handle, OpStats.inc]
          | delete g id st err => cases st <;> simp_all [countable, Stats.handle, OpStats.inc]
          | validation ids err =>
            simp [Stats.handle] at hh; subst hh
            simp [tally, tallyOp, tallyWait, countOp, countWait, List.countP_append, Event.isOp, Event.isWait]
          | _ => simp [countable] at hc
      subst hs1
      have := ih (pre ++ [e]) s h
      simpa [List.append_assoc] using this

/-! ### closed form of the print loop -/

/-- the lines for the events `es` when the events `pre` came before: each event is formatted with the counts of
everything up to and including itself -/
def eventLines (ps : Bool) : List (Event ι) → List (Event ι) → List (Line ι)
  | _, [] => []
  | pre, e :: es => (formatEvent ps (tally (pre ++ [e])) e).toList ++ eventLines ps (pre ++ [e]) es

theorem countable_of_isError {e : Event ι} (h : e.isError = true) : countable e = true := by
  cases e <;> simp_all [Event.isError, countable]

theorem not_rejected_of_countable {e : Event ι} (h : countable e = true) : rejected e = false := by
  cases e <;> simp_all [rejected, countable]

theorem printLoop_closed (ps : Bool) : ∀ (es pre : List (Event ι)), printable es = true →
    printLoop ps (tally pre) es =
      { lines := eventLines ps pre es ++ (if hasError es then [] else summaryLines (tally (pre ++ es))),
        err := if hasError es then .event else if resultError (tally (pre ++ es)) then .result else .none,
        panicked := false } := by
  intro es
  induction es with
  | nil => intro pre _; simp [printLoop, eventLines, hasError]
  | cons e es ih =>
    intro pre hp
    simp only [printable] at hp
    cases he : e.isError with
    | true =>
      simp only [he, if_true, List.isEmpty_iff] at hp
      subst hp
      simp [printLoop, handle_tally pre e (countable_of_isError he), he, eventLines, hasError]
    | false =>
      simp only [he, Bool.false_eq_true, if_false, Bool.and_eq_true] at hp
      have hh : hasError (e :: es) = hasError es := by simp [hasError, he]
      simp only [printLoop, handle_tally pre e hp.1, he, not_rejected_of_countable hp.1, Bool.false_eq_true, if_false,
        ih (pre ++ [e]) hp.2, eventLines, hh, List.append_assoc, List.singleton_append]

theorem print_closed (ps : Bool) (es : List (Event ι)) (hp : printable es = true) :
    print ps es =
      { lines := eventLines ps [] es ++ (if hasError es then [] else summaryLines (tally es)),
        err := if hasError es then .event else if resultError (tally es) then .result else .none,
        panicked := false } := by
  have := printLoop_closed ps es [] hp
  rw [tally_nil] at this
  simpa [print] using this

theorem printable_all_countable : ∀ (es : List (Event ι)), printable es = true → ∀ e ∈ es, countable e = true := by
  intro es
  induction es with
  | nil => simp
  | cons e es ih =>
    intro hp x hx
    simp only [printable] at hp
    cases he : e.isError with
    | true =>
      simp only [he, if_true, List.isEmpty_iff] at hp
      subst hp
      simp at hx; subst hx
      exact countable_of_isError he
    | false =>
      simp only [he, Bool.false_eq_true, if_false, Bool.and_eq_true] at hp
      rcases List.mem_cons.1 hx with h | h
      · subst h; exact hp.1
      · exact ih hp.2 x h

theorem formatEvent_isSome (ps : Bool) (s : Stats) (e : Event ι) (hc : countable e = true) :
    (formatEvent ps s e).isSome = printed ps e := by
  cases e <;> simp_all [formatEvent, printed, countable]
  all_goals (cases ps <;> simp)

theorem eventLines_append (ps : Bool) : ∀ (a pre b : List (Event ι)),
    eventLines ps pre (a ++ b) = eventLines ps pre a ++ eventLines ps (pre ++ a) b := by
  intro a
  induction a with
  | nil => intro pre b; simp [eventLines]
  | cons x a ih => intro pre b; simp [eventLines, ih, List.append_assoc]

theorem eventLines_length (ps : Bool) : ∀ (es pre : List (Event ι)), (∀ e ∈ es, countable e = true) →
    (eventLines ps pre es).length = (es.filter (printed ps)).length := by
  intro es
  induction es with
  | nil => intros; simp [eventLines]
  | cons e es ih =>
    intro pre hc
    have h1 := formatEvent_isSome ps (tally (pre ++ [e])) e (hc e (by simp))
    have h2 := ih (pre ++ [e]) (fun x hx => hc x (by simp [hx]))
    simp only [eventLines, List.length_append, h2, List.filter_cons]
    cases hf : formatEvent ps (tally (pre ++ [e])) e with
    | none => simp [hf] at h1; simp [h1]
    | some l => simp [hf] at h1; simp [h1]; omega

theorem countsFor_tally (a : Action) (es : List (Event ι)) : (tally es).countsFor a = expectedCounts a es := by
  cases a <;> simp [Stats.countsFor, expectedCounts, tally, tallyOp, tallyWait, OpStats.counts, WaitStats.counts,
    OpStats.sum, WaitStats.sum]

theorem tally_snoc_group (pre : List (Event ι)) (n : String) (a : Action) (st : GroupStatus) :
    tally (pre ++ [Event.actionGroup n a st]) = tally pre := by
  simp [tally, tallyOp, tallyWait, countOp, countWait, List.countP_append, Event.isOp, Event.isWait]

theorem opStats_ne_default (c : OpStats) : c ≠ {} ↔ c.sum > 0 := by
  cases c with
  | mk a b d =>
    simp only [OpStats.sum, ne_eq, OpStats.mk.injEq]
    omega

theorem waitStats_ne_default (c : WaitStats) : c ≠ {} ↔ c.sum > 0 := by
  cases c with
  | mk a b d e =>
    simp only [WaitStats.sum, ne_eq, WaitStats.mk.injEq]
    omega

theorem summaryLines_tally (es : List (Event ι)) : summaryLines (tally es) = expectedSummary es := by
  simp only [summaryLines, expectedSummary, opStats_ne_default, waitStats_ne_default, List.filterMap_cons,
    List.filterMap_nil, expectedCounts]
  simp only [tally, tallyOp, tallyWait, OpStats.sum, WaitStats.sum, OpStats.counts, WaitStats.counts, summaryLine]
  by_cases h1 : 0 < countOp Action.apply OpStatus.successful es + countOp Action.apply OpStatus.skipped es +
      countOp Action.apply OpStatus.failed es <;>
  by_cases h2 : 0 < countOp Action.prune OpStatus.successful es + countOp Action.prune OpStatus.skipped es +
      countOp Action.prune OpStatus.failed es <;>
  by_cases h3 : 0 < countOp Action.delete OpStatus.successful es + countOp Action.delete OpStatus.skipped es +
      countOp Action.delete OpStatus.failed es <;>
  by_cases h4 : 0 < countWait WaitStatus.successful es + countWait WaitStatus.skipped es +
      countWait WaitStatus.failed es + countWait WaitStatus.timeout es <;>
  simp [h1, h2, h3, h4]

theorem resultError_tally (es : List (Event ι)) : resultError (tally es) = hasFailure es := by
  simp only [resultError, hasFailure, Stats.failedActuationSum, Stats.failedReconciliationSum, failedActuations,
    tally, tallyOp, tallyWait]
  by_cases h1 : countOp Action.apply OpStatus.failed es + countOp Action.prune OpStatus.failed es +
      countOp Action.delete OpStatus.failed es > 0 <;>
  by_cases h2 : countWait WaitStatus.failed es > 0 <;>
  by_cases h3 : countWait WaitStatus.timeout es > 0 <;>
  simp [h1, h2, h3] <;> omega

section
variable [DecidableEq ι]

theorem formatEvent_identifies (ps : Bool) (pre : List (Event ι)) (e : Event ι) (l : Line ι)
    (hf : formatEvent ps (tally (pre ++ [e])) e = some l) :
    lineIdentifies e l = true ∧ countsOk pre e l = true := by
  cases e with
  | actionGroup n a st =>
    simp only [formatEvent, Option.some.injEq] at hf
    subst hf
    rw [tally_snoc_group]
    cases st <;> simp [lineIdentifies, countsOk, groupLine, countsFor_tally]
  | status id st msg =>
    cases ps <;> simp [formatEvent] at hf
    subst hf; simp [lineIdentifies, countsOk]
  | validation ids err =>
    simp only [formatEvent] at hf
    split at hf
    · simp at hf
    · simp at hf; subst hf; simp [lineIdentifies, countsOk]
  | init gs => simp [formatEvent] at hf
  | _ => simp [formatEvent, opLine] at hf; subst hf; simp [lineIdentifies, countsOk]

theorem checkLines_eventLines (ps : Bool) : ∀ (es pre : List (Event ι)) (rest : List (Line ι)),
    (∀ e ∈ es, countable e = true) → checkLines ps pre es (eventLines ps pre es ++ rest) = some rest := by
  intro es
  induction es with
  | nil => intros; simp [checkLines, eventLines]
  | cons e es ih =>
    intro pre rest hc
    have h1 := formatEvent_isSome ps (tally (pre ++ [e])) e (hc e (by simp))
    have h2 := ih (pre ++ [e]) rest (fun x hx => hc x (by simp [hx]))
    simp only [checkLines, eventLines]
    cases hf : formatEvent ps (tally (pre ++ [e])) e with
    | none => simp [hf] at h1; simp [h1, h2]
    | some l =>
      simp [hf] at h1
      have := formatEvent_identifies ps pre e l hf
      simp [h1, this.1, this.2, h2]

end

end CliUtils.Lemmas.PrintL
