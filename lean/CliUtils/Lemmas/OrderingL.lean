import CliUtils.Spec.Graph
/-
  `ordering.less` (and edge.go's `metaIsLessThan`) are strict total orders on ids:
  each is a lexicographic comparison of a key tuple, and the key determines the id.
-/
namespace CliUtils.Ordering
open CliUtils CliUtils.Graph

/-- strict total order, Prop form -/
structure IsSTO {β : Type} (r : β → β → Prop) : Prop where
  irrefl : ∀ a, ¬ r a a
  trans : ∀ a b c, r a b → r b c → r a c
  tri : ∀ a b, r a b ∨ a = b ∨ r b a

/-- lexicographic product -/
def lexProd {β γ : Type} (r : β → β → Prop) (s : γ → γ → Prop) (a b : β × γ) : Prop :=
  r a.1 b.1 ∨ (a.1 = b.1 ∧ s a.2 b.2)

theorem IsSTO.lex {β γ : Type} {r : β → β → Prop} {s : γ → γ → Prop} (hr : IsSTO r) (hs : IsSTO s) :
    IsSTO (lexProd r s) := by
  constructor
  · rintro ⟨a1, a2⟩ (h | ⟨_, h⟩)
    · exact hr.irrefl _ h
    · exact hs.irrefl _ h
  · rintro ⟨a1, a2⟩ ⟨b1, b2⟩ ⟨c1, c2⟩ hab hbc
    simp only [lexProd] at *
    rcases hab with h1 | ⟨e1, h1⟩ <;> rcases hbc with h2 | ⟨e2, h2⟩
    · exact Or.inl (hr.trans _ _ _ h1 h2)
    · subst e2; exact Or.inl h1
    · subst e1; exact Or.inl h2
    · subst e1; subst e2; exact Or.inr ⟨rfl, hs.trans _ _ _ h1 h2⟩
  · rintro ⟨a1, a2⟩ ⟨b1, b2⟩
    simp only [lexProd]
    rcases hr.tri a1 b1 with h | h | h
    · exact Or.inl (Or.inl h)
    · subst h
      rcases hs.tri a2 b2 with h | h | h
      · exact Or.inl (Or.inr ⟨rfl, h⟩)
      · subst h; exact Or.inr (Or.inl rfl)
      · exact Or.inr (Or.inr (Or.inr ⟨rfl, h⟩))
    · exact Or.inr (Or.inr (Or.inl h))

theorem isSTO_int : IsSTO (fun a b : Int => a < b) :=
  ⟨fun a => Int.lt_irrefl a, fun _ _ _ => Int.lt_trans, fun a b => Int.lt_trichotomy a b⟩

theorem isSTO_string : IsSTO (fun a b : String => a < b) := by
  refine ⟨String.lt_irrefl, fun _ _ _ => String.lt_trans, ?_⟩
  intro a b
  by_cases h1 : a < b
  · exact Or.inl h1
  · by_cases h2 : b < a
    · exact Or.inr (Or.inr h2)
    · exact Or.inr (Or.inl (String.le_antisymm (String.not_lt.mp h2) (String.not_lt.mp h1)))

/-- from a key with a strict total order to a Boolean strict total order -/
theorem strictTotal_of_key {ι β : Type} {r : β → β → Prop} (hr : IsSTO r) (key : ι → β)
    (hinj : ∀ a b, key a = key b → a = b) (lt : ι → ι → Bool)
    (hlt : ∀ a b, lt a b = true ↔ r (key a) (key b)) : StrictTotal lt := by
  constructor
  · intro a
    cases h : lt a a with
    | false => rfl
    | true => exact absurd ((hlt a a).mp h) (hr.irrefl _)
  · intro a b c hab hbc
    exact (hlt a c).mpr (hr.trans _ _ _ ((hlt a b).mp hab) ((hlt b c).mp hbc))
  · intro a b hab hba
    have nab : ¬ r (key a) (key b) := fun h => by rw [(hlt a b).mpr h] at hab; cases hab
    have nba : ¬ r (key b) (key a) := fun h => by rw [(hlt b a).mpr h] at hba; cases hba
    rcases hr.tri (key a) (key b) with h | h | h
    · exact absurd h nab
    · exact hinj a b h
    · exact absurd h nba

abbrev SLt : String → String → Prop := fun a b => a < b
abbrev ILt : Int → Int → Prop := fun a b => a < b

/-- the key of `less`: position of the kind in the table, group, kind, namespace, name -/
def lessKey (a : Id) : Int × String × String × String × String :=
  (kindIndex a.group a.kind, a.group, a.kind, a.ns, a.name)

def lessKeyLt := lexProd ILt (lexProd SLt (lexProd SLt (lexProd SLt SLt)))

theorem lessKey_inj (a b : Id) (h : lessKey a = lessKey b) : a = b := by
  cases a; cases b
  simp only [lessKey, Prod.mk.injEq] at h
  obtain ⟨_, h1, h2, h3, h4⟩ := h
  simp_all

theorem less_iff_key (a b : Id) : less a b = true ↔ lessKeyLt (lessKey a) (lessKey b) := by
  have hs : ∀ s : String, ¬ s < s := String.lt_irrefl
  by_cases hg : a.group = b.group <;> by_cases hk : a.kind = b.kind <;> by_cases hn : a.ns = b.ns <;>
    by_cases hi : kindIndex a.group a.kind = kindIndex b.group b.kind <;>
    simp_all [less, gkLess, lessKeyLt, lessKey, lexProd, SLt, ILt]

/-- **`ordering.less` is a strict total order on ids.** -/
theorem less_strictTotal : StrictTotal less :=
  strictTotal_of_key (isSTO_int.lex (isSTO_string.lex (isSTO_string.lex (isSTO_string.lex isSTO_string))))
    lessKey lessKey_inj less less_iff_key

/-- the key of `metaIsLessThan` -/
def metaKey (a : Id) : String × String × String × String := (a.group, a.kind, a.ns, a.name)

def metaKeyLt := lexProd SLt (lexProd SLt (lexProd SLt SLt))

theorem metaKey_inj (a b : Id) (h : metaKey a = metaKey b) : a = b := by
  cases a; cases b
  simp only [metaKey, Prod.mk.injEq] at h
  obtain ⟨h1, h2, h3, h4⟩ := h
  simp_all

theorem metaLess_iff_key (a b : Id) : metaLess a b = true ↔ metaKeyLt (metaKey a) (metaKey b) := by
  have hs : ∀ s : String, ¬ s < s := String.lt_irrefl
  by_cases hg : a.group = b.group <;> by_cases hk : a.kind = b.kind <;> by_cases hn : a.ns = b.ns <;>
    simp_all [metaLess, metaKeyLt, metaKey, lexProd, SLt]

theorem metaLess_strictTotal : StrictTotal metaLess :=
  strictTotal_of_key (isSTO_string.lex (isSTO_string.lex (isSTO_string.lex isSTO_string)))
    metaKey metaKey_inj metaLess metaLess_iff_key

theorem isSTO_metaKeyLt : IsSTO metaKeyLt :=
  isSTO_string.lex (isSTO_string.lex (isSTO_string.lex isSTO_string))

theorem edgeLess_iff_key (e f : Id × Id) :
    edgeLess e f = true ↔ lexProd metaKeyLt metaKeyLt (metaKey e.1, metaKey e.2) (metaKey f.1, metaKey f.2) := by
  unfold edgeLess lexProd
  by_cases h : e.1 = f.1
  · simp only [h, ne_eq, not_true_eq_false, ↓reduceIte, true_and]
    rw [metaLess_iff_key]
    constructor
    · intro h2; exact Or.inr h2
    · rintro (h2 | h2)
      · exact absurd h2 (isSTO_metaKeyLt.irrefl _)
      · exact h2
  · simp only [ne_eq, h, not_false_eq_true, ↓reduceIte]
    rw [metaLess_iff_key]
    constructor
    · intro h2; exact Or.inl h2
    · rintro (h2 | ⟨h2, _⟩)
      · exact h2
      · exact absurd (metaKey_inj _ _ h2) h

/-- `SortableEdges.Less` is a strict total order on edges -/
theorem edgeLess_strictTotal : StrictTotal edgeLess :=
  strictTotal_of_key (isSTO_metaKeyLt.lex isSTO_metaKeyLt) (fun e : Id × Id => (metaKey e.1, metaKey e.2))
    (fun a b h => by
      simp only [Prod.mk.injEq] at h
      exact Prod.ext (metaKey_inj _ _ h.1) (metaKey_inj _ _ h.2))
    edgeLess edgeLess_iff_key

end CliUtils.Ordering
