import CliUtils.Model.Mutate
/-
  `strings.ReplaceAll` / `strings.Split` / `strings.Join` on character lists (Model/Mutate.lean, namespace `Str`):
  the skip-counter definitions are turned into the three defining equations, from which everything else follows.
-/
namespace CliUtils.Str

variable (tok v : List Char)

theorem replaceAux_skip (k : Nat) (u r : List Char) (h : u.length = k) :
    replaceAux tok v k (u ++ r) = replaceAux tok v 0 r := by
  induction u generalizing k with
  | nil => simp at h; subst h; rfl
  | cons c u ih =>
    cases k with
    | zero => simp at h
    | succ k =>
      simp at h
      simp only [List.cons_append, replaceAux]
      exact ih k h

theorem splitAux_skip (k : Nat) (u r : List Char) (h : u.length = k) :
    splitAux tok k (u ++ r) = splitAux tok 0 r := by
  induction u generalizing k with
  | nil => simp at h; subst h; rfl
  | cons c u ih =>
    cases k with
    | zero => simp at h
    | succ k =>
      simp at h
      simp [splitAux, ih k h]

/-! ### the defining equations -/

theorem replaceAllL_nil : replaceAllL tok v [] = [] := by simp [replaceAllL, replaceAux]

theorem replaceAllL_match (htok : tok ≠ []) (r : List Char) :
    replaceAllL tok v (tok ++ r) = v ++ replaceAllL tok v r := by
  cases tok with
  | nil => exact absurd rfl htok
  | cons c tk =>
    have hp : (c :: tk).isPrefixOf (c :: (tk ++ r)) = true := by
      rw [List.isPrefixOf_iff_prefix]; exact List.prefix_append (c :: tk) r
    simp only [replaceAllL, List.cons_append, replaceAux, hp, if_true, List.length_cons, Nat.add_sub_cancel]
    rw [replaceAux_skip (c :: tk) v tk.length tk r rfl]

theorem replaceAllL_nomatch (c : Char) (r : List Char) (h : ¬ tok <+: c :: r) :
    replaceAllL tok v (c :: r) = c :: replaceAllL tok v r := by
  have hp : tok.isPrefixOf (c :: r) = false := by
    cases hb : tok.isPrefixOf (c :: r) with
    | false => rfl
    | true => exact absurd (List.isPrefixOf_iff_prefix.mp hb) h
  simp [replaceAllL, replaceAux, hp]

theorem splitAux_ne_nil (k : Nat) (s : List Char) : splitAux tok k s ≠ [] := by
  induction s generalizing k with
  | nil => simp [splitAux]
  | cons c r ih =>
    cases k with
    | succ k => simp only [splitAux]; exact ih k
    | zero =>
      simp only [splitAux]
      split
      · simp
      · split <;> simp

theorem splitOnL_nil : splitOnL tok [] = [[]] := by simp [splitOnL, splitAux]

theorem splitOnL_match (htok : tok ≠ []) (r : List Char) :
    splitOnL tok (tok ++ r) = [] :: splitOnL tok r := by
  cases tok with
  | nil => exact absurd rfl htok
  | cons c tk =>
    have hp : (c :: tk).isPrefixOf (c :: (tk ++ r)) = true := by
      rw [List.isPrefixOf_iff_prefix]; exact List.prefix_append (c :: tk) r
    simp only [splitOnL, List.cons_append, splitAux, hp, if_true, List.length_cons, Nat.add_sub_cancel]
    rw [splitAux_skip (c :: tk) tk.length tk r rfl]

/-- put a character in front of the first piece -/
def consHead (c : Char) : List (List Char) → List (List Char)
  | p :: ps => (c :: p) :: ps
  | [] => [[c]]

theorem splitOnL_nomatch (c : Char) (r : List Char) (h : ¬ tok <+: c :: r) :
    splitOnL tok (c :: r) = consHead c (splitOnL tok r) := by
  have hp : tok.isPrefixOf (c :: r) = false := by
    cases hb : tok.isPrefixOf (c :: r) with
    | false => rfl
    | true => exact absurd (List.isPrefixOf_iff_prefix.mp hb) h
  simp only [splitOnL, splitAux, hp]
  cases splitAux tok 0 r <;> simp [consHead]

theorem joinWith_cons_cons (sep p q : List Char) (r : List (List Char)) :
    joinWith sep (p :: q :: r) = p ++ sep ++ joinWith sep (q :: r) := rfl

theorem joinWith_consHead (sep : List Char) (c : Char) (l : List (List Char)) (hl : l ≠ []) :
    joinWith sep (consHead c l) = c :: joinWith sep l := by
  cases l with
  | nil => exact absurd rfl hl
  | cons p ps =>
    cases ps with
    | nil => simp [consHead, joinWith]
    | cons q qs => simp [consHead, joinWith]

theorem joinWith_nil_cons (sep : List Char) (l : List (List Char)) (hl : l ≠ []) :
    joinWith sep ([] :: l) = sep ++ joinWith sep l := by
  cases l with
  | nil => exact absurd rfl hl
  | cons q qs => simp [joinWith]

/-- `ReplaceAll(s, tok, v) = Join(Split(s, tok), v)`, for every skip state -/
theorem replaceAux_eq_join_split (k : Nat) (s : List Char) :
    replaceAux tok v k s = joinWith v (splitAux tok k s) := by
  induction s generalizing k with
  | nil => simp [replaceAux, splitAux, joinWith]
  | cons c r ih =>
    cases k with
    | succ k => simp only [replaceAux, splitAux]; exact ih k
    | zero =>
      simp only [replaceAux, splitAux]
      split
      · rw [joinWith_nil_cons v _ (splitAux_ne_nil tok _ r), ih]
      · have hne := splitAux_ne_nil tok 0 r
        have ih0 := ih 0
        cases hsp : splitAux tok 0 r with
        | nil => exact absurd hsp hne
        | cons p ps =>
          rw [hsp] at ih0
          simp only
          rw [ih0]
          cases ps <;> simp [joinWith]

/-- strong induction on the length of the string, in the shape the equations need -/
theorem list_len_induction {P : List Char → Prop} (h : ∀ s, (∀ r, r.length < s.length → P r) → P s) : ∀ s, P s := by
  intro s
  generalize hn : s.length = n
  induction n using Nat.strongRecOn generalizing s with
  | _ n ih =>
    apply h
    intro r hr
    exact ih r.length (by omega) r rfl

/-- replacing a token by itself changes nothing -/
theorem replaceAllL_self (htok : tok ≠ []) (s : List Char) : replaceAllL tok tok s = s := by
  induction s using list_len_induction with
  | _ s ih =>
    cases s with
    | nil => exact replaceAllL_nil tok tok
    | cons c r =>
      by_cases hp : tok <+: c :: r
      · obtain ⟨r', hr'⟩ := hp
        rw [← hr', replaceAllL_match tok tok htok r']
        have hlen : r'.length < (c :: r).length := by
          rw [← hr', List.length_append]
          have : 0 < tok.length := List.length_pos_iff.mpr htok
          omega
        rw [ih r' hlen]
      · rw [replaceAllL_nomatch tok tok c r hp, ih r (by simp)]

theorem joinWith_head_prefix (sep p : List Char) (ps : List (List Char)) : p <+: joinWith sep (p :: ps) := by
  cases ps with
  | nil => exact List.prefix_refl p
  | cons q qs => rw [joinWith_cons_cons, List.append_assoc]; exact List.prefix_append _ _

end CliUtils.Str
