import CliUtils.Model.CacheReader
/-
  Helper lemmas about the caching cluster reader model (used by Props/C17R.lean).
-/
namespace CliUtils.CacheReader

/-! ### the cache as a map -/

theorem Cache.get?_nil (q : Pair) : Cache.get? [] q = none := rfl

theorem Cache.get?_set (c : Cache) (p q : Pair) (e : Entry) :
    (c.set p e).get? q = if p = q then some e else c.get? q := by
  simp [Cache.set, Cache.get?]

/-! ### the pager -/

/-- with a cancelled context the pager returns the bare context error before any request -/
theorem pagerList_cancelled (items : List Obj) (o : Outcome) :
    pagerList true items o = (.error .ctxCanceled, true) := by
  simp [pagerList, pagerLoop]

/-- aggregation is lossless: whenever the pager succeeds, the result is the full list (in order) -/
theorem pagerLoop_ok (items : List Obj) (o : Outcome) :
    ∀ (fuel : Nat) (c : Bool) (off idx : Nat) (acc l : List Obj) (c' : Bool),
      acc = items.take off → pagerLoop items o fuel c off idx acc = (.ok l, c') → l = items := by
  intro fuel
  induction fuel with
  | zero => intro c off idx acc l c' _ h; simp [pagerLoop] at h
  | succ fuel ih =>
    intro c off idx acc l c' hacc h
    rw [pagerLoop] at h
    split at h
    · simp at h
    · split at h
      · split at h <;> try (simp at h)
        split at h
        · simp at h
        · split at h
          · simp at h
          · simp at h; exact h.1.symm
      · split at h
        · refine ih _ _ _ _ _ _ ?_ h
          rw [hacc, List.take_add]
        · simp at h
          rw [← h.1, hacc, ← List.take_add]
          apply List.take_of_length_le
          omega

theorem pagerList_ok (items : List Obj) (o : Outcome) (c c' : Bool) (l : List Obj)
    (h : pagerList c items o = (.ok l, c')) : l = items :=
  pagerLoop_ok items o _ _ _ _ _ _ _ (by simp) h

theorem pageSize_pos (o : Outcome) : 0 < pageSize o := by
  unfold pageSize pageLimit
  split <;> omega

/-- an undisturbed LIST (no scripted failure, no cancellation) always succeeds, whatever the page size -/
theorem pagerLoop_plain (items : List Obj) (o : Outcome) (hf : o.failAt = none) (hc : o.cancelAt = none) :
    ∀ (fuel off idx : Nat) (acc : List Obj), acc = items.take off → off ≤ items.length → items.length + 1 ≤ off + fuel →
      pagerLoop items o fuel false off idx acc = (.ok items, false) := by
  intro fuel
  induction fuel with
  | zero => intro off idx acc _ h1 h2; omega
  | succ fuel ih =>
    intro off idx acc hacc h1 h2
    rw [pagerLoop]
    have hp := pageSize_pos o
    simp only [hf, hc, Bool.false_eq_true, if_false, Bool.or_false, reduceCtorEq, decide_false]
    split
    · apply ih
      · rw [hacc, List.take_add]
      · omega
      · omega
    · rw [hacc, ← List.take_add]
      rw [List.take_of_length_le (by omega)]

theorem pagerList_plain (items : List Obj) (o : Outcome) (hf : o.failAt = none) (hc : o.cancelAt = none) :
    pagerList false items o = (.ok items, false) :=
  pagerLoop_plain items o hf hc _ _ _ _ (by simp) (by omega) (by omega)

/-! ### unfolding the Sync loop -/

theorem scope_cases (s : Scope) : s = .noMatch ∨ (∃ t, s = .err t) ∨ s.isMapping = true := by
  cases s <;> simp [Scope.isMapping]

theorem syncLoop_cons_noMatch (inp : SyncIn) (p : Pair) (rest : List Pair) (c : Bool) (acc : Cache)
    (h : scopeOf inp.scopes p.1 = .noMatch) :
    syncLoop inp (p :: rest) c acc = syncLoop inp rest c (acc.set p (.err .noMatch)) := by
  rw [syncLoop]; simp [h]

theorem syncLoop_cons_err (inp : SyncIn) (p : Pair) (rest : List Pair) (c : Bool) (acc : Cache) (t : String)
    (h : scopeOf inp.scopes p.1 = .err t) :
    syncLoop inp (p :: rest) c acc = .error (.mapper t) := by
  rw [syncLoop]; simp [h]

theorem syncLoop_cons_list (inp : SyncIn) (p : Pair) (rest : List Pair) (c : Bool) (acc : Cache)
    (h : (scopeOf inp.scopes p.1).isMapping = true) :
    syncLoop inp (p :: rest) c acc =
      match pagerList c (pairItems inp p) (pairOutcome inp p) with
      | (.error e, c') => if e.isCtx then .error e else syncLoop inp rest c' (acc.set p (.err e))
      | (.ok l, c') => syncLoop inp rest c' (acc.set p (.items l)) := by
  rw [syncLoop]
  cases hs : scopeOf inp.scopes p.1 <;> simp [hs, Scope.isMapping] at h ⊢ <;> rfl

theorem entryFor_noMatch (inp : SyncIn) (p : Pair) (h : scopeOf inp.scopes p.1 = .noMatch) :
    entryFor inp p = .err .noMatch := by
  simp [entryFor, h]

theorem entryFor_list (inp : SyncIn) (p : Pair) (h : (scopeOf inp.scopes p.1).isMapping = true) :
    entryFor inp p =
      match (pagerList false (pairItems inp p) (pairOutcome inp p)).1 with
      | .error e => .err e
      | .ok l => .items l := by
  unfold entryFor
  cases hs : scopeOf inp.scopes p.1 <;> simp [hs, Scope.isMapping] at h ⊢ <;> rfl

/-- pairs the loop does not visit keep the entry of the accumulator -/
theorem syncLoop_frame (inp : SyncIn) :
    ∀ (ps : List Pair) (c : Bool) (acc cache : Cache), syncLoop inp ps c acc = .ok cache →
      ∀ q, q ∉ ps → cache.get? q = acc.get? q := by
  intro ps
  induction ps with
  | nil => intro c acc cache h q _; simp [syncLoop] at h; rw [h]
  | cons p rest ih =>
    intro c acc cache h q hq
    have hne : p ≠ q := fun e => hq (by simp [e])
    have hq' : q ∉ rest := fun m => hq (List.mem_cons_of_mem _ m)
    rcases scope_cases (scopeOf inp.scopes p.1) with hs | ⟨t, hs⟩ | hs
    · rw [syncLoop_cons_noMatch _ _ _ _ _ hs] at h
      rw [ih _ _ _ h q hq', Cache.get?_set, if_neg hne]
    · rw [syncLoop_cons_err _ _ _ _ _ t hs] at h; simp at h
    · rw [syncLoop_cons_list _ _ _ _ _ hs] at h
      split at h
      · split at h
        · simp at h
        · rw [ih _ _ _ h q hq', Cache.get?_set, if_neg hne]
      · rw [ih _ _ _ h q hq', Cache.get?_set, if_neg hne]

/-- what a completed loop says about a visited pair: its LIST ran with a live context and did not end in a context
error, its mapper lookup did not fail with an "other" error -/
def listedOk (inp : SyncIn) (q : Pair) : Prop :=
  (∀ t, scopeOf inp.scopes q.1 ≠ .err t) ∧
  ((scopeOf inp.scopes q.1).isMapping = true →
    ∀ e, (pagerList false (pairItems inp q) (pairOutcome inp q)).1 = .error e → e.isCtx = false)

/-- a completed loop leaves `entryFor` for every pair it visits -/
theorem syncLoop_entry (inp : SyncIn) :
    ∀ (ps : List Pair) (c : Bool) (acc cache : Cache), ps.Nodup → syncLoop inp ps c acc = .ok cache →
      ∀ q ∈ ps, cache.get? q = some (entryFor inp q) ∧ listedOk inp q := by
  intro ps
  induction ps with
  | nil => intro c acc cache _ _ q hq; simp at hq
  | cons p rest ih =>
    intro c acc cache hnd h q hq
    have hnd' : rest.Nodup := (List.nodup_cons.mp hnd).2
    have hp : p ∉ rest := (List.nodup_cons.mp hnd).1
    rcases scope_cases (scopeOf inp.scopes p.1) with hs | ⟨t, hs⟩ | hs
    · rw [syncLoop_cons_noMatch _ _ _ _ _ hs] at h
      rcases List.mem_cons.mp hq with rfl | hq
      · refine ⟨?_, ?_, ?_⟩
        · rw [syncLoop_frame _ _ _ _ _ h q hp, Cache.get?_set, if_pos rfl, entryFor_noMatch _ _ hs]
        · intro t; rw [hs]; simp
        · intro hm; rw [hs] at hm; simp [Scope.isMapping] at hm
      · exact ih _ _ _ hnd' h q hq
    · rw [syncLoop_cons_err _ _ _ _ _ t hs] at h; simp at h
    · rw [syncLoop_cons_list _ _ _ _ _ hs] at h
      cases c with
      | true =>
        rw [pagerList_cancelled] at h
        simp [Err.isCtx] at h
      | false =>
        rcases hpl : pagerList false (pairItems inp p) (pairOutcome inp p) with ⟨r, c'⟩
        rw [hpl] at h
        cases r with
        | error e =>
          simp only at h
          split at h
          · simp at h
          · rename_i hctx
            rcases List.mem_cons.mp hq with rfl | hq
            · refine ⟨?_, ?_, ?_⟩
              · rw [syncLoop_frame _ _ _ _ _ h q hp, Cache.get?_set, if_pos rfl, entryFor_list _ _ hs, hpl]
              · intro t ht; rw [ht] at hs; simp [Scope.isMapping] at hs
              · intro _ e' he'; rw [hpl] at he'; simp at he'; subst he'; simpa using hctx
            · exact ih _ _ _ hnd' h q hq
        | ok l =>
          simp only at h
          rcases List.mem_cons.mp hq with rfl | hq
          · refine ⟨?_, ?_, ?_⟩
            · rw [syncLoop_frame _ _ _ _ _ h q hp, Cache.get?_set, if_pos rfl, entryFor_list _ _ hs, hpl]
            · intro t ht; rw [ht] at hs; simp [Scope.isMapping] at hs
            · intro _ e' he'; rw [hpl] at he'; simp at he'
          · exact ih _ _ _ hnd' h q hq

/-- the loop fails only with a context error or a mapper error -/
theorem syncLoop_error (inp : SyncIn) :
    ∀ (ps : List Pair) (c : Bool) (acc : Cache) (e : Err), syncLoop inp ps c acc = .error e →
      e.isCtx = true ∨ ∃ t, e = .mapper t := by
  intro ps
  induction ps with
  | nil => intro c acc e h; simp [syncLoop] at h
  | cons p rest ih =>
    intro c acc e h
    rcases scope_cases (scopeOf inp.scopes p.1) with hs | ⟨t, hs⟩ | hs
    · rw [syncLoop_cons_noMatch _ _ _ _ _ hs] at h; exact ih _ _ _ h
    · rw [syncLoop_cons_err _ _ _ _ _ t hs] at h
      simp at h; exact Or.inr ⟨t, h.symm⟩
    · rw [syncLoop_cons_list _ _ _ _ _ hs] at h
      split at h
      · split at h
        · rename_i hctx
          simp at h; subst h; exact Or.inl hctx
        · exact ih _ _ _ h
      · exact ih _ _ _ h

/-! ### sync -/

theorem sync_ok_iff (st : St) (inp : SyncIn) (st' : St) :
    sync st inp = (st', none) ↔
      ∃ c, syncLoop inp st.tracked false [] = .ok c ∧ st' = { st with cache := c, scopes := inp.scopes } := by
  unfold sync
  cases hl : syncLoop inp st.tracked false [] with
  | ok c =>
    simp only [Prod.mk.injEq, and_true, Except.ok.injEq]
    constructor
    · intro h; exact ⟨c, rfl, h.symm⟩
    · rintro ⟨c2, rfl, h⟩; exact h.symm
  | error e => simp

theorem sync_err_iff (st : St) (inp : SyncIn) (st' : St) (e : Err) :
    sync st inp = (st', some e) ↔
      syncLoop inp st.tracked false [] = .error e ∧ st' = { st with scopes := inp.scopes } := by
  unfold sync
  cases hl : syncLoop inp st.tracked false [] with
  | ok c => simp
  | error e' =>
    simp only [Prod.mk.injEq, Option.some.injEq, Except.error.injEq]
    constructor
    · rintro ⟨h1, h2⟩; exact ⟨h2, h1.symm⟩
    · rintro ⟨h1, h2⟩; exact ⟨h2.symm, h1⟩

theorem sync_tracked (st : St) (inp : SyncIn) : (sync st inp).1.tracked = st.tracked := by
  unfold sync; split <;> rfl

theorem sync_scopes (st : St) (inp : SyncIn) : (sync st inp).1.scopes = inp.scopes := by
  unfold sync; split <;> rfl

/-- the cache after a completed Sync, pair by pair -/
theorem sync_cache (st st' : St) (inp : SyncIn) (hwf : st.tracked.Nodup) (h : sync st inp = (st', none)) (q : Pair) :
    st'.cache.get? q = if q ∈ st.tracked then some (entryFor inp q) else none := by
  obtain ⟨c, hc, rfl⟩ := (sync_ok_iff _ _ _).mp h
  by_cases hq : q ∈ st.tracked
  · rw [if_pos hq]; exact (syncLoop_entry inp _ _ _ _ hwf hc q hq).1
  · rw [if_neg hq]; exact syncLoop_frame inp _ _ _ _ hc q hq

theorem sync_listedOk (st st' : St) (inp : SyncIn) (hwf : st.tracked.Nodup) (h : sync st inp = (st', none)) (q : Pair)
    (hq : q ∈ st.tracked) : listedOk inp q := by
  obtain ⟨c, hc, rfl⟩ := (sync_ok_iff _ _ _).mp h
  exact (syncLoop_entry inp _ _ _ _ hwf hc q hq).2

/-! ### the tracked pairs -/

theorem mem_addPair (s : List Pair) (p q : Pair) : q ∈ addPair s p ↔ q ∈ s ∨ q = p := by
  unfold addPair
  split
  · rename_i h
    constructor
    · exact Or.inl
    · rintro (h' | rfl); exact h'; exact h
  · simp

theorem addPair_nodup (s : List Pair) (p : Pair) (h : s.Nodup) : (addPair s p).Nodup := by
  unfold addPair
  split
  · exact h
  · rename_i hp
    rw [List.nodup_append]
    refine ⟨h, by simp, ?_⟩
    intro a ha b hb
    simp at hb; subst hb
    intro e; subst e; exact hp ha

theorem build_nodup : ∀ (f : Nat) (gks : List GK) (ns : String) (s : List Pair), s.Nodup → (build f gks ns s).Nodup := by
  intro f
  induction f with
  | zero => intro gks ns s h; simpa [build] using h
  | succ f ih =>
    intro gks ns s h
    cases gks with
    | nil => simpa [build] using h
    | cons gk rest =>
      rw [build]
      exact ih _ _ _ (ih _ _ _ (addPair_nodup _ _ h))

theorem trackedOf_nodup (ids : List Pair) : (trackedOf ids).Nodup := by
  unfold trackedOf
  suffices ∀ (s : List Pair), s.Nodup → (ids.foldl (fun s id => build buildFuel [id.1] id.2 s) s).Nodup from this [] List.nodup_nil
  induction ids with
  | nil => intro s h; simpa using h
  | cons id rest ih => intro s h; simp only [List.foldl_cons]; exact ih _ (build_nodup _ _ _ _ h)

/-- what one identifier adds: itself and everything reachable in the table, in the namespace of the identifier -/
theorem mem_build_single (gk : GK) (ns : String) (s : List Pair) (q : Pair) :
    q ∈ build buildFuel [gk] ns s ↔ q ∈ s ∨ (q.2 = ns ∧ reach gk q.1) := by
  have hq : ∀ g : GK, q = (g, ns) ↔ (q.2 = ns ∧ q.1 = g) := by
    intro g; constructor
    · rintro rfl; exact ⟨rfl, rfl⟩
    · rintro ⟨h1, h2⟩; cases q; simp at h1 h2; simp [h1, h2]
  by_cases h1 : gk = gkDeployment
  · subst h1
    simp [buildFuel, build, genGroupKinds, gkDeployment, gkReplicaSet, gkStatefulSet, gkPod, mem_addPair, reach, hq]
    grind
  · by_cases h2 : gk = gkReplicaSet
    · subst h2
      simp [buildFuel, build, genGroupKinds, gkDeployment, gkReplicaSet, gkStatefulSet, gkPod, mem_addPair, reach, hq]
      grind
    · by_cases h3 : gk = gkStatefulSet
      · subst h3
        simp [buildFuel, build, genGroupKinds, gkDeployment, gkReplicaSet, gkStatefulSet, gkPod, mem_addPair, reach, hq]
        grind
      · simp [buildFuel, build, genGroupKinds, h1, h2, h3, mem_addPair, reach, hq]
        grind

theorem mem_trackedOf (ids : List Pair) (q : Pair) :
    q ∈ trackedOf ids ↔ ∃ id ∈ ids, id.2 = q.2 ∧ reach id.1 q.1 := by
  unfold trackedOf
  suffices ∀ (s : List Pair), q ∈ ids.foldl (fun s id => build buildFuel [id.1] id.2 s) s ↔
      q ∈ s ∨ ∃ id ∈ ids, id.2 = q.2 ∧ reach id.1 q.1 by simpa using this []
  induction ids with
  | nil => intro s; simp
  | cons id rest ih =>
    intro s
    simp only [List.foldl_cons]
    rw [ih, mem_build_single]
    constructor
    · rintro ((h | ⟨h1, h2⟩) | ⟨i, hi, h⟩)
      · exact Or.inl h
      · exact Or.inr ⟨id, by simp, h1.symm, h2⟩
      · exact Or.inr ⟨i, List.mem_cons_of_mem _ hi, h⟩
    · rintro (h | ⟨i, hi, h1, h2⟩)
      · exact Or.inl (Or.inl h)
      · rcases List.mem_cons.mp hi with rfl | hi
        · exact Or.inl (Or.inr ⟨h1.symm, h2⟩)
        · exact Or.inr ⟨i, hi, h1, h2⟩

/-! ### reachable states -/

theorem init_wf (ids : List Pair) (scopes : List (GK × Scope)) : WF (init ids scopes) :=
  ⟨trackedOf_nodup ids, by intro q h; simp [init, Cache.get?] at h⟩

theorem sync_wf (st : St) (inp : SyncIn) (h : WF st) : WF (sync st inp).1 := by
  rcases hr : sync st inp with ⟨st', r⟩
  cases r with
  | none =>
    refine ⟨?_, ?_⟩
    · have := sync_tracked st inp; rw [hr] at this; simp at this; rw [this]; exact h.1
    · intro q hq
      have ht := sync_tracked st inp; rw [hr] at ht; simp at ht
      simp only
      rw [ht]
      rw [sync_cache st st' inp h.1 hr q] at hq
      by_cases hm : q ∈ st.tracked
      · exact hm
      · simp [hm] at hq
  | some e =>
    obtain ⟨_, rfl⟩ := (sync_err_iff _ _ _ _).mp hr
    exact h

theorem step_wf (st : St) (op : Op) (h : WF st) : WF (step st op).1 := by
  cases op with
  | sync inp => simpa [step] using sync_wf st inp h
  | get => simpa [step] using h
  | listNs => simpa [step] using h
  | listCluster => simpa [step] using h

theorem exec_wf : ∀ (ops : List Op) (st : St), WF st → WF (exec st ops) := by
  intro ops
  induction ops with
  | nil => intro st h; simpa [exec] using h
  | cons op rest ih => intro st h; simp only [exec]; exact ih _ (step_wf st op h)

theorem step_tracked (st : St) (op : Op) : (step st op).1.tracked = st.tracked := by
  cases op with
  | sync inp => simpa [step] using sync_tracked st inp
  | get => simp [step]
  | listNs => simp [step]
  | listCluster => simp [step]

theorem exec_tracked : ∀ (ops : List Op) (st : St), (exec st ops).tracked = st.tracked := by
  intro ops
  induction ops with
  | nil => intro st; rfl
  | cons op rest ih => intro st; simp only [exec]; rw [ih, step_tracked]

end CliUtils.CacheReader
