import CliUtils.Model.Basic
namespace CliUtils
variable {α : Type} [DecidableEq α]

@[simp] theorem mem_dedup (l : List α) (x : α) : x ∈ dedup l ↔ x ∈ l := by
  induction l with
  | nil => simp [dedup]
  | cons y ys ih =>
    simp only [dedup, List.mem_cons, List.mem_filter, ih, decide_eq_true_eq]
    constructor
    · rintro (h | ⟨h, _⟩)
      · exact Or.inl h
      · exact Or.inr h
    · intro h
      by_cases hxy : x = y
      · exact Or.inl hxy
      · rcases h with h | h
        · exact Or.inl h
        · exact Or.inr ⟨h, hxy⟩

theorem nodup_dedup (l : List α) : (dedup l).Nodup := by
  induction l with
  | nil => simp [dedup]
  | cons y ys ih =>
    simp only [dedup, List.nodup_cons, List.mem_filter, decide_eq_true_eq]
    refine ⟨?_, ?_⟩
    · intro h; exact h.2 rfl
    · exact List.Pairwise.filter _ ih

theorem dedup_eq_self_of_nodup (l : List α) (h : l.Nodup) : dedup l = l := by
  induction l with
  | nil => rfl
  | cons y ys ih =>
    rw [List.nodup_cons] at h
    simp only [dedup, ih h.2]
    congr 1
    apply List.filter_eq_self.mpr
    intro a ha
    simp only [decide_eq_true_eq]
    intro e; subst e; exact h.1 ha

omit [DecidableEq α] in
theorem dropLast_append_of_getLast? (l : List α) (x : α) (h : l.getLast? = some x) : l.dropLast ++ [x] = l := by
  have hne : l ≠ [] := by intro e; simp [e] at h
  have h2 := List.dropLast_concat_getLast hne
  rw [List.getLast?_eq_some_getLast hne] at h
  injection h with h
  rw [← h]; exact h2

omit [DecidableEq α] in
theorem mem_of_mem_dropLast' (l : List α) (z : α) (h : z ∈ l.dropLast) : z ∈ l := by
  cases hl : l.getLast? with
  | none =>
    have : l = [] := List.getLast?_eq_none_iff.mp hl
    subst this; simp at h
  | some x =>
    rw [← dropLast_append_of_getLast? l x hl]
    exact List.mem_append_left _ h

end CliUtils
