import CliUtils.Model.IdStr
import CliUtils.Lemmas.ListL
namespace CliUtils.IdStr

def noCh (c : Char) (s : Str) : Prop := c ∉ s

theorem splitFirst_append (sep : Char) (a b : Str) (h : sep ∉ a) :
    splitFirst sep (a ++ sep :: b) = some (a, b) := by
  induction a with
  | nil => simp [splitFirst]
  | cons c cs ih =>
    have hc : c ≠ sep := by intro e; apply h; simp [e]
    have hcs : sep ∉ cs := by intro m; apply h; simp [m]
    simp [splitFirst, hc, ih hcs]

theorem splitLast_none (sep : Char) (b : Str) (h : sep ∉ b) : splitLast sep b = none := by
  induction b with
  | nil => rfl
  | cons c cs ih =>
    have hc : c ≠ sep := by intro e; apply h; simp [e]
    have hcs : sep ∉ cs := by intro m; apply h; simp [m]
    simp [splitLast, ih hcs, hc]

theorem splitLast_append (sep : Char) (a b : Str) (h : sep ∉ b) :
    splitLast sep (a ++ sep :: b) = some (a, b) := by
  induction a with
  | nil => simp [splitLast, splitLast_none sep b h]
  | cons c cs ih => simp [splitLast, ih]

theorem dec_enc (n : Str) (h : '_' ∉ n) : decColons (encColons n) = n := by
  induction n with
  | nil => rfl
  | cons c cs ih =>
    have hc : c ≠ '_' := by intro e; apply h; simp [e]
    have hcs : '_' ∉ cs := by intro m; apply h; simp [m]
    by_cases hcol : c = ':'
    · subst hcol
      simp [encColons, decColons, ih hcs]
    · simp only [encColons, hcol, if_false]
      cases hrest : encColons cs with
      | nil =>
        have := ih hcs; rw [hrest] at this
        simp [decColons] at this ⊢; exact this
      | cons d ds =>
        have := ih hcs; rw [hrest] at this
        simp [decColons, hc, this]

/-- decoding leaves underscore-free names alone (the non-RBAC case) -/
theorem dec_id (n : Str) (h : '_' ∉ n) : decColons n = n := by
  induction n using decColons.induct with
  | case1 => rfl
  | case2 c => rfl
  | case3 a b cs hab ih =>
    exfalso; apply h; simp [hab.1]
  | case4 a b cs hab ih =>
    have hcs : '_' ∉ (b :: cs) := by intro m; apply h; exact List.mem_cons_of_mem _ m
    simp [decColons, hab, ih hcs]

/-! splitOn -/

theorem splitOn_ne_nil (sep : Char) (s : Str) : splitOn sep s ≠ [] := by
  induction s with
  | nil => simp [splitOn]
  | cons c cs ih =>
    simp only [splitOn]
    split
    · simp
    · split <;> simp

theorem splitOn_noSep (sep : Char) (s : Str) (h : sep ∉ s) : splitOn sep s = [s] := by
  induction s with
  | nil => rfl
  | cons c cs ih =>
    have hc : c ≠ sep := by intro e; apply h; simp [e]
    have hcs : sep ∉ cs := by intro m; apply h; simp [m]
    simp [splitOn, hc, ih hcs]

theorem splitOn_append (sep : Char) (a b : Str) (h : sep ∉ a) :
    splitOn sep (a ++ sep :: b) = a :: splitOn sep b := by
  induction a with
  | nil => simp [splitOn]
  | cons c cs ih =>
    have hc : c ≠ sep := by intro e; apply h; simp [e]
    have hcs : sep ∉ cs := by intro m; apply h; simp [m]
    simp [splitOn, hc, ih hcs]

/-! trimSpace -/

theorem trimLeft_of_head (s : Str) (h : ∀ c, s.head? = some c → isSpace c = false) : trimLeft s = s := by
  cases s with
  | nil => rfl
  | cons c cs => simp [trimLeft, h c rfl]

theorem trimSpace_id (s : Str) (h1 : ∀ c, s.head? = some c → isSpace c = false)
    (h2 : ∀ c, s.getLast? = some c → isSpace c = false) : trimSpace s = s := by
  unfold trimSpace
  rw [trimLeft_of_head s h1, trimLeft_of_head s.reverse]
  · simp
  · intro c hc; apply h2; simpa using hc

end CliUtils.IdStr
