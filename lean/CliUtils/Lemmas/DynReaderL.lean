import CliUtils.Model.DynReader
/-
  Helper lemmas about the dynamic cluster reader model (used by Props/C17R.lean).
-/
namespace CliUtils.DynReader
open CliUtils.CacheReader

theorem sameKey_comm (a b : Obj) : sameKey a b = sameKey b a := by
  simp only [sameKey]
  rw [show decide (a.gk = b.gk) = decide (b.gk = a.gk) from by simp [eq_comm],
      show decide (a.ns = b.ns) = decide (b.ns = a.ns) from by simp [eq_comm],
      show decide (a.name = b.name) = decide (b.name = a.name) from by simp [eq_comm]]

theorem sameKey_of_hasKey (gk : GK) (ns name : String) (a b : Obj) (ha : hasKey gk ns name a = true)
    (hb : hasKey gk ns name b = true) : sameKey a b = true := by
  simp [hasKey, sameKey] at *
  obtain ⟨⟨a1, a2⟩, a3⟩ := ha
  obtain ⟨⟨b1, b2⟩, b3⟩ := hb
  exact ⟨⟨a1.trans b1.symm, a2.trans b2.symm⟩, a3.trans b3.symm⟩

theorem hasKey_self (o : Obj) : hasKey o.gk o.ns o.name o = true := by simp [hasKey]

theorem hasKey_iff_sameKey (o x : Obj) : hasKey o.gk o.ns o.name x = sameKey x o := by
  simp [hasKey, sameKey]

/-- in a cluster without duplicate keys two objects with the same key are the same object -/
theorem uniq_eq : ∀ (l : List Obj), l.Pairwise (fun a b => sameKey a b = false) →
    ∀ a b, a ∈ l → b ∈ l → sameKey a b = true → a = b := by
  intro l
  induction l with
  | nil => intro _ a b ha; simp at ha
  | cons x xs ih =>
    intro hp a b ha hb hs
    rw [List.pairwise_cons] at hp
    rcases List.mem_cons.mp ha with rfl | ha'
    · rcases List.mem_cons.mp hb with rfl | hb'
      · rfl
      · rw [hp.1 b hb'] at hs; simp at hs
    · rcases List.mem_cons.mp hb with rfl | hb'
      · rw [sameKey_comm, hp.1 a ha'] at hs; simp at hs
      · exact ih hp.2 a b ha' hb' hs

theorem put_uniq (st : St) (o : Obj) (h : Uniq st) : Uniq (put st o) := by
  unfold Uniq put
  simp only
  rw [List.pairwise_append]
  refine ⟨h.filter _, by simp, ?_⟩
  intro a ha b hb
  simp at hb; subst hb
  simp at ha
  exact ha.2

theorem del_uniq (st : St) (gk : GK) (ns name : String) (h : Uniq st) : Uniq (del st gk ns name) := by
  unfold Uniq del
  exact h.filter _

theorem step_uniq (st : St) (op : Op) (h : Uniq st) : Uniq (step st op).1 := by
  cases op with
  | put o => exact put_uniq st o h
  | del gk ns n => exact del_uniq st gk ns n h
  | fail v gk e => exact h
  | get => exact h
  | listNs => exact h
  | listCluster => exact h

theorem exec_uniq : ∀ (ops : List Op) (st : St), Uniq st → Uniq (exec st ops) := by
  intro ops
  induction ops with
  | nil => intro st h; exact h
  | cons op rest ih => intro st h; simp only [exec]; exact ih _ (step_uniq st op h)

theorem init_uniq (scopes : List (GK × Scope)) : Uniq (init scopes) := by
  simp [Uniq, init]

/-- `find?` in a duplicate-free cluster: the object with the key, if there is one -/
theorem find_hasKey (l : List Obj) (hu : l.Pairwise (fun a b => sameKey a b = false)) (gk : GK) (ns name : String) (o : Obj) :
    l.find? (hasKey gk ns name) = some o ↔ o ∈ l ∧ hasKey gk ns name o = true := by
  constructor
  · intro h; exact ⟨List.mem_of_find?_eq_some h, List.find?_some h⟩
  · rintro ⟨hm, hk⟩
    cases hf : l.find? (hasKey gk ns name) with
    | none =>
      rw [List.find?_eq_none] at hf
      exact absurd hk (by simpa using hf o hm)
    | some o' =>
      have h1 := List.mem_of_find?_eq_some hf
      have h2 := List.find?_some hf
      rw [uniq_eq l hu o' o h1 hm (sameKey_of_hasKey gk ns name o' o h2 hk)]

end CliUtils.DynReader
