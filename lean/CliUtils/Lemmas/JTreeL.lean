import CliUtils.Model.JTree
/-
  Helper lemmas about `kids` / `setKids` / `selIdx` / `setT` / `get` / `resolve` (used by Props/C18.lean).
-/
namespace CliUtils
open JV

theorem map_fst_null_zip (kvs : List (String × JV)) (ys : List JV) (h : ys.length = kvs.length) :
    (kvs.zip ys).map (fun e => (e.1.1, JV.null)) = kvs.map (fun e => (e.1, JV.null)) := by
  induction kvs generalizing ys with
  | nil => simp
  | cons kv r ih =>
    cases ys with
    | nil => simp at h
    | cons y ys => simp at h; simp [ih ys h]

theorem keys_zip (kvs : List (String × JV)) (ys : List JV) (h : ys.length = kvs.length) :
    ((kvs.zip ys).map (fun e => (e.1.1, e.2))).map (·.1) = kvs.map (·.1) := by
  induction kvs generalizing ys with
  | nil => simp
  | cons kv r ih =>
    cases ys with
    | nil => simp at h
    | cons y ys => simp at h; simp [ih ys h]

theorem vals_zip (kvs : List (String × JV)) (ys : List JV) (h : ys.length = kvs.length) :
    ((kvs.zip ys).map (fun e => (e.1.1, e.2))).map (·.2) = ys := by
  induction kvs generalizing ys with
  | nil => cases ys with
    | nil => rfl
    | cons y ys => simp at h
  | cons kv r ih =>
    cases ys with
    | nil => simp at h
    | cons y ys => simp at h; simp [ih ys h]

theorem zip_self (kvs : List (String × JV)) :
    (kvs.zip (kvs.map (·.2))).map (fun e => (e.1.1, e.2)) = kvs := by
  induction kvs with
  | nil => rfl
  | cons kv r ih => simp [ih]

theorem kids_setKids (t : JV) (ys : List JV) (h : ys.length = t.kids.length) : (t.setKids ys).kids = ys := by
  cases t <;> simp [kids, setKids] at h ⊢ <;> try (first | exact h.symm | (subst h; rfl))
  case obj kvs => simpa [Function.comp_def] using vals_zip kvs ys h

theorem setKids_kids (t : JV) : t.setKids t.kids = t := by
  cases t <;> simp [kids, setKids]
  case obj kvs => exact zip_self kvs

theorem selIdx_setKids (t : JV) (ys : List JV) (h : ys.length = t.kids.length) (s : Step) :
    selIdx (t.setKids ys) s = selIdx t s := by
  cases t <;> cases s <;> simp [kids, setKids, selIdx] at h ⊢ <;> try (simp [h])
  case obj.key kvs k =>
    have := keys_zip kvs ys h
    simp [Function.comp_def] at this
    simp [Function.comp_def, this]

theorem pseudoLen_setKids (t : JV) (ys : List JV) (h : ys.length = t.kids.length) (s : Step) :
    pseudoLen (t.setKids ys) s = pseudoLen t s := by
  cases t <;> cases s <;> simp [kids, setKids, pseudoLen] at h ⊢
  simp [h]

theorem keys_setKids (t : JV) (ys : List JV) (h : ys.length = t.kids.length) : (t.setKids ys).keys = t.keys := by
  cases t <;> simp [kids, setKids, keys] at h ⊢
  case obj kvs => simpa [Function.comp_def] using keys_zip kvs ys h

theorem skel_setKids (t : JV) (ys : List JV) (h : ys.length = t.kids.length) : (t.setKids ys).skel = t.skel := by
  cases t <;> simp [kids, setKids, skel] at h ⊢
  case arr xs =>
    apply List.ext_getElem?
    intro i
    simp only [List.getElem?_map]
    by_cases hi : i < xs.length
    · have : i < ys.length := by omega
      simp [hi, this]
    · have : ¬ i < ys.length := by omega
      simp [hi, this]
  case obj kvs => simpa [Function.comp_def] using map_fst_null_zip kvs ys h

theorem keys_skel (t : JV) : t.skel.keys = t.keys := by
  cases t <;> simp [skel, keys, Function.comp_def]

/-- the children of `setT v (s :: p) t` -/
def newKids (v : JV) (s : Step) (p : Path) (t : JV) : List JV :=
  t.kids.mapIdx (fun i c => if i ∈ selIdx t s then setT v p c else c)

theorem setT_cons (v : JV) (s : Step) (p : Path) (t : JV) : setT v (s :: p) t = t.setKids (newKids v s p t) := rfl

theorem newKids_length (v : JV) (s : Step) (p : Path) (t : JV) : (newKids v s p t).length = t.kids.length := by
  simp [newKids]

theorem newKids_getElem? (v : JV) (s : Step) (p : Path) (t : JV) (i : Nat) :
    (newKids v s p t)[i]? = t.kids[i]?.map (fun c => if i ∈ selIdx t s then setT v p c else c) := by
  simp [newKids, List.getElem?_mapIdx]

theorem kids_setT_cons (v : JV) (s : Step) (p : Path) (t : JV) : (setT v (s :: p) t).kids = newKids v s p t := by
  rw [setT_cons]; exact kids_setKids _ _ (newKids_length v s p t)

theorem selIdx_setT_cons (v : JV) (s : Step) (p : Path) (t : JV) (s' : Step) :
    selIdx (setT v (s :: p) t) s' = selIdx t s' := by
  rw [setT_cons]; exact selIdx_setKids _ _ (newKids_length v s p t) s'

theorem pseudoLen_setT_cons (v : JV) (s : Step) (p : Path) (t : JV) (s' : Step) :
    pseudoLen (setT v (s :: p) t) s' = pseudoLen t s' := by
  rw [setT_cons]; exact pseudoLen_setKids _ _ (newKids_length v s p t) s'

theorem skel_setT_cons (v : JV) (s : Step) (p : Path) (t : JV) : (setT v (s :: p) t).skel = t.skel := by
  rw [setT_cons]; exact skel_setKids _ _ (newKids_length v s p t)

theorem get_cons (t : JV) (s : Step) (p : Path) :
    get t (s :: p) = (match pseudoLen t s with | some l => get l p | none => []) ++
      (selIdx t s).flatMap (fun i => match t.kids[i]? with | some c => get c p | none => []) := rfl

theorem resolve_cons (t : JV) (s : Step) (p : Path) :
    resolve t (s :: p) = (selIdx t s).flatMap (fun i => match t.kids[i]? with
      | some c => (resolve c p).map (i :: ·) | none => []) := rfl

theorem at?_cons (t : JV) (i : Nat) (a : List Nat) :
    t.at? (i :: a) = match t.kids[i]? with | some c => c.at? a | none => none := rfl

theorem mem_resolve_cons {t : JV} {s : Step} {p : Path} {a : List Nat} :
    a ∈ resolve t (s :: p) ↔ ∃ i c a', i ∈ selIdx t s ∧ t.kids[i]? = some c ∧ a' ∈ resolve c p ∧ a = i :: a' := by
  rw [resolve_cons, List.mem_flatMap]
  constructor
  · rintro ⟨i, hi, ha⟩
    cases hk : t.kids[i]? with
    | none => simp [hk] at ha
    | some c =>
      simp only [hk, List.mem_map] at ha
      obtain ⟨a', ha', rfl⟩ := ha
      exact ⟨i, c, a', hi, hk, ha', rfl⟩
  · rintro ⟨i, c, a', hi, hk, ha', rfl⟩
    refine ⟨i, hi, ?_⟩
    simp only [hk, List.mem_map]
    exact ⟨a', ha', rfl⟩

theorem flatMap_congr_mem {α β : Type} (l : List α) (f g : α → List β) (h : ∀ a ∈ l, f a = g a) :
    l.flatMap f = l.flatMap g := by
  induction l with
  | nil => rfl
  | cons a r ih =>
    simp only [List.flatMap_cons]
    rw [h a (by simp), ih (fun b hb => h b (by simp [hb]))]

theorem filterMap_congr_mem {α β : Type} (l : List α) (f g : α → Option β) (h : ∀ a ∈ l, f a = g a) :
    l.filterMap f = l.filterMap g := by
  induction l with
  | nil => rfl
  | cons a r ih =>
    simp only [List.filterMap_cons]
    rw [h a (by simp), ih (fun b hb => h b (by simp [hb]))]

theorem at?_append (t : JV) (a b : List Nat) (x c : JV) (h1 : t.at? a = some x) (h2 : x.at? b = some c) :
    t.at? (a ++ b) = some c := by
  induction a generalizing t with
  | nil => simp [JV.at?] at h1; subst h1; simpa using h2
  | cons i a ih =>
    rw [at?_cons] at h1
    rw [List.cons_append, at?_cons]
    cases hk : t.kids[i]? with
    | none => simp [hk] at h1
    | some ch => simp only [hk] at h1 ⊢; exact ih ch h1

theorem wf_int (n : Int) : (JV.int n).WF := by
  intro a c hac
  cases a with
  | nil => simp [JV.at?] at hac; subst hac; simp [JV.keys]
  | cons i a => simp [JV.at?, JV.kids] at hac

/-- everything `Get` returns is a node of the tree, or an integer (the `length` pseudo-node) -/
theorem get_mem_node_or_int (t : JV) (p : Path) (x : JV) (h : x ∈ get t p) :
    (∃ a, t.at? a = some x) ∨ ∃ n, x = JV.int n := by
  induction p generalizing t with
  | nil => simp [get] at h; subst h; exact Or.inl ⟨[], rfl⟩
  | cons s p ih =>
    rw [get_cons, List.mem_append] at h
    rcases h with h | h
    · cases hps : pseudoLen t s with
      | none => simp [hps] at h
      | some l =>
        simp only [hps] at h
        have hl : ∃ n, l = JV.int n := by
          cases t <;> cases s <;> simp [pseudoLen] at hps
          rename_i xs k
          exact ⟨_, hps.2.symm⟩
        obtain ⟨n, rfl⟩ := hl
        rcases ih (JV.int n) h with ⟨a, ha⟩ | hn
        · cases a with
          | nil => simp [JV.at?] at ha; exact Or.inr ⟨n, ha.symm⟩
          | cons i a => simp [JV.at?, JV.kids] at ha
        · exact Or.inr hn
    · obtain ⟨i, _, hx⟩ := List.mem_flatMap.mp h
      cases hk : t.kids[i]? with
      | none => simp [hk] at hx
      | some c =>
        simp only [hk] at hx
        rcases ih c hx with ⟨a, ha⟩ | hn
        · exact Or.inl ⟨i :: a, by rw [at?_cons, hk]; exact ha⟩
        · exact Or.inr hn

/-- flattening replicate-blocks -/
theorem flatMap_replicate_of (v : JV) (l : List Nat) (g h : Nat → List JV)
    (hh : ∀ i ∈ l, h i = List.replicate (g i).length v) :
    l.flatMap h = List.replicate (l.flatMap g).length v := by
  induction l with
  | nil => simp
  | cons i r ih =>
    simp only [List.flatMap_cons, List.length_append]
    rw [hh i (by simp), ih (fun j hj => hh j (by simp [hj])), List.replicate_append_replicate]

end CliUtils
