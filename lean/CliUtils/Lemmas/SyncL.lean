import CliUtils.Model.Sys
import CliUtils.Lemmas.SysL
import CliUtils.Lemmas.TimeoutL
import CliUtils.Lemmas.OrderL
import CliUtils.Lemmas.ProvL
import CliUtils.Props.C12
/-
  Helper lemmas for `Props/C12S.lean` (`runOneAtSync`):

  * the flag `cancelled` of the run state is monotone through every step of the model (`…_cancelled` below, collected in
    `runTask_cancelled`),
  * the terms `runOneAtSync c run true` computes, by name (`syncRun`, `syncStart`, `syncPrune`, `syncPlan`, `syncPrepared`,
    `syncLocalNs`), and `runOneAtSync_true_eq`: under the hypotheses "first inventory read succeeded, validation lets the run
    proceed" the run is `runTasks` from the prepared state.
-/
namespace CliUtils.SyncL
open CliUtils CliUtils.Sys CliUtils.TimeoutL

/-! ## `cancelled` is monotone -/

theorem mutReq_cancelled (s : St) (verb : String) (id : Id) (dry : Bool) (precond prop : String)
    (effect : Cluster → Cluster × String) (hc : s.cancelled = true) :
    (s.mutReq verb id dry precond prop effect).1.cancelled = true :=
  (CliUtils.Props.C12.watcher_error_ignored_after_cancel s verb id dry precond prop effect hc).2

theorem invRead_cancelled (s : St) : s.invRead.1.cancelled = s.cancelled := by
  unfold St.invRead
  simp only []
  split <;> rfl

/-! ### apply -/

theorem ssaApply_cancelled (group : String) (s : St) (m : Manifest) (frm : Option String) (hc : s.cancelled = true) :
    (ssaApply group s m frm).cancelled = true := by
  have h := mutReq_cancelled s "patch" m.id (s.run.opts.dry == .server) "" "" (ssaEffect m frm (s.run.opts.dry == .server)) hc
  unfold ssaApply
  simp only []
  repeat' split
  all_goals simp only [applyFail_cancelled, applyOk_cancelled, h]

theorem csaApply_cancelled (group : String) (s : St) (m : Manifest) (frm : Option String) (hc : s.cancelled = true) :
    (csaApply group s m frm).cancelled = true := by
  unfold csaApply
  simp only []
  repeat' split
  all_goals simp only [applyFail_cancelled, applyOk_cancelled, hc, mutReq_cancelled _ _ _ _ _ _ _ hc]

theorem kubectlApply_cancelled (group : String) (s : St) (m : Manifest) (frm : Option String) (hc : s.cancelled = true) :
    (kubectlApply group s m frm).cancelled = true := by
  unfold kubectlApply
  split
  · exact ssaApply_cancelled group s m frm hc
  · exact csaApply_cancelled group s m frm hc

theorem applyOne_cancelled (group : String) (s : St) (id : Id) (hc : s.cancelled = true) :
    (applyOne group s id).cancelled = true := by
  unfold applyOne
  split
  · exact hc
  · split
    · simpa using hc
    · simpa using hc
    · exact kubectlApply_cancelled group s _ _ hc

theorem foldl_applyOne_cancelled (group : String) (ids : List Id) (s : St) (hc : s.cancelled = true) :
    (ids.foldl (applyOne group) s).cancelled = true := by
  induction ids generalizing s with
  | nil => exact hc
  | cons i is ih => exact ih _ (applyOne_cancelled group s i hc)

/-! ### prune -/

theorem pruneOne_cancelled (group : String) (uids localNs : List String) (s : St) (live : Live) (hc : s.cancelled = true) :
    (pruneOne group uids localNs s live).cancelled = true := by
  unfold pruneOne
  simp only []
  repeat' split
  all_goals simp only [pruneFail_cancelled, pruneSkip_cancelled, pruneOk_cancelled, hc, mutReq_cancelled _ _ _ _ _ _ _ hc]

theorem foldl_pruneOne_cancelled (group : String) (uids localNs : List String) (lives : List Live) (s : St)
    (hc : s.cancelled = true) : (lives.foldl (pruneOne group uids localNs) s).cancelled = true := by
  induction lives generalizing s with
  | nil => exact hc
  | cons l ls ih => exact ih _ (pruneOne_cancelled group uids localNs s l hc)

/-! ### inventory tasks -/

theorem mergeInv_cancelled (s : St) (ids : List Id) (hc : s.cancelled = true) : (mergeInv s ids).1.cancelled = true := by
  have h1 : s.invRead.1.cancelled = true := by rw [invRead_cancelled, hc]
  have h2 : s.invRead.1.invRead.1.cancelled = true := by rw [invRead_cancelled, h1]
  unfold mergeInv
  simp only []
  repeat' split
  all_goals simp only [h1, h2, mutReq_cancelled _ _ _ _ _ _ _ h1, mutReq_cancelled _ _ _ _ _ _ _ h2]

theorem runInvAdd_cancelled (s : St) (ids : List Id) (hc : s.cancelled = true) : (runInvAdd s ids).1.cancelled = true := by
  unfold runInvAdd
  simp only []
  split
  · split
    · exact mutReq_cancelled _ _ _ _ _ _ _ hc
    · exact mergeInv_cancelled _ ids (mutReq_cancelled _ _ _ _ _ _ _ hc)
  · exact mergeInv_cancelled s ids hc

theorem replaceInv_cancelled (s : St) (objs : List Id) (hc : s.cancelled = true) : (replaceInv s objs).1.cancelled = true := by
  have h1 : s.invRead.1.cancelled = true := by rw [invRead_cancelled, hc]
  have h2 : s.invRead.1.invRead.1.cancelled = true := by rw [invRead_cancelled, h1]
  unfold replaceInv
  simp only []
  repeat' split
  all_goals simp only [hc, h1, h2, mutReq_cancelled _ _ _ _ _ _ _ h2]

theorem deleteInv_cancelled (s : St) (hc : s.cancelled = true) : (deleteInv s).1.cancelled = true := by
  have h1 : s.invRead.1.cancelled = true := by rw [invRead_cancelled, hc]
  unfold deleteInv
  simp only []
  repeat' split
  all_goals simp only [h1, mutReq_cancelled _ _ _ _ _ _ _ h1]

theorem runInvSet_cancelled (s : St) (prev : List Id) (prevErr : Bool) (hc : s.cancelled = true) :
    (runInvSet s prev prevErr).1.cancelled = true := by
  unfold runInvSet
  split
  · exact hc
  · split
    · exact deleteInv_cancelled s hc
    · exact replaceInv_cancelled s _ hc

/-! ### wait phases -/

theorem flushWait_cancelled (group : String) (s : St) (w : Wait.WState Id) (n0 : Nat) :
    (flushWait group s w n0).cancelled = s.cancelled := by
  rw [flushWait_eq]

theorem deliverState_cancelled (s : St) (d : Delivery) : (deliverState s d).cancelled = s.cancelled :=
  (deliverState_fields s d).2.1

theorem deliverOne_cancelled (group : String) (n : Nat) (ws : WaitSt) (d : Delivery) (hc : ws.s.cancelled = true) :
    (deliverOne group n ws d).1.s.cancelled = true := by
  unfold deliverOne
  simp only []
  split
  · exact hc
  · split
    · rfl
    · split
      · exact hc
      · rw [flushWait_cancelled]
        exact (deliverState_cancelled ws.s d).trans hc

theorem deliverChain_cancelled (group : String) (n : Nat) (ds : List Delivery) (ws : WaitSt) (hc : ws.s.cancelled = true) :
    (deliverChain group n ws ds).s.cancelled = true := by
  induction ds generalizing ws with
  | nil => exact hc
  | cons d ds ih =>
    simp only [deliverChain]
    split
    · exact ih _ (deliverOne_cancelled group n ws d hc)
    · exact deliverOne_cancelled group n ws d hc

theorem waitEnd_cancelled (group : String) (s : St) (ids : List Id) (cond : Wait.Cond) (hc : s.cancelled = true) :
    (waitEnd group s ids cond).s.cancelled = true := by
  apply waitEnd_induct (fun ws => ws.s.cancelled = true)
  · rw [flushWait_cancelled]
    exact hc
  · intro ws d h
    exact deliverOne_cancelled group s.waitIdx ws d h
  · intro ws _ _
    rfl

theorem runWait_cancelled (group : String) (s : St) (ids : List Id) (cond : Wait.Cond) (hc : s.cancelled = true) :
    (runWait group s ids cond).1.cancelled = true := by
  have h := waitEnd_cancelled group s ids cond hc
  rw [runWait_eq]
  split
  · exact h
  · split
    · exact h
    · rw [flushWait_cancelled]
      exact h

/-! ### a task -/

theorem runTask_cancelled (s : St) (t : Task) (pruneObjs : List Live) (localNs : List String) (hc : s.cancelled = true) :
    (runTask s t pruneObjs localNs).1.cancelled = true := by
  unfold runTask
  split
  · exact runInvAdd_cancelled s _ hc
  · exact foldl_applyOne_cancelled t.name _ s hc
  · exact foldl_pruneOne_cancelled t.name _ localNs _ s hc
  · exact runWait_cancelled t.name s _ _ hc
  · exact runInvSet_cancelled s _ _ hc

/-! ## the runner started with the cancellation pending -/

/-- the error event that ends a run whose first task was started with the cancellation pending: the task's own error class, the
context error otherwise -/
def endError (err : Option String) : String := err.getD "canceled"

/-- started with the cancellation already pending, the runner runs exactly the first task of its list: the task is started and
finished, and the run ends with one error event — the task's own error if it reported one, the context error otherwise.
(`cancelled_run_ends_with_the_context_error` + `runTask_cancelled`.) -/
theorem runTasks_cancelled (pruneObjs : List Live) (localNs : List String) (s : St) (t : Task) (ts : List Task)
    (hc : s.cancelled = true) :
    runTasks pruneObjs localNs s (t :: ts) =
      ((runTask (s.emit (.group t.name (t.action s.run.destroy) "Started")) t pruneObjs localNs).1.emit
        (.group t.name (t.action s.run.destroy) "Finished")).emit
        (.error (endError (runTask (s.emit (.group t.name (t.action s.run.destroy) "Started")) t pruneObjs localNs).2)) := by
  have hc' := runTask_cancelled (s.emit (.group t.name (t.action s.run.destroy) "Started")) t pruneObjs localNs hc
  cases herr : (runTask (s.emit (.group t.name (t.action s.run.destroy) "Started")) t pruneObjs localNs).2 with
  | none =>
    exact CliUtils.Props.C12.cancelled_run_ends_with_the_context_error pruneObjs localNs s t ts herr hc'
  | some k =>
    conv => lhs; unfold runTasks
    simp only []
    generalize runTask (s.emit (.group t.name (t.action s.run.destroy) "Started")) t pruneObjs localNs = r at herr ⊢
    obtain ⟨r1, r2⟩ := r
    simp only at herr
    subst herr
    rfl

/-! ## the terms of `runOneAtSync c run true` -/

/-- the run as `runOneAtSync … true` executes it: no scheduled cancellation point (the cancellation is the pending flag) -/
def syncRun (run : Run) : Run := { run with cancel := .never }

/-- the state the run starts in -/
def syncStart (c : Cluster) (run : Run) : St :=
  { cl := run.envDel.foldl (fun c i => c.remove i) c, run := syncRun run }

/-- the apply set -/
def syncApplyMs (run : Run) : List Manifest := if run.destroy then [] else run.objs

/-- the first inventory read + the GETs of the prune candidates -/
def syncPrune (c : Cluster) (run : Run) : St × Option (List Live) :=
  getPruneObjs (syncStart c run) ((syncApplyMs run).map (·.id))

/-- the second inventory read (by `Build`) -/
def syncRead2 (c : Cluster) (run : Run) : St × Option (Option (List Id)) := (syncPrune c run).1.invRead

/-- the plan -/
def syncPlan (c : Cluster) (run : Run) (pruneObjs : List Live) : Plan :=
  buildPlan (syncRun run) (syncApplyMs run) pruneObjs
    (match (syncRead2 c run).2 with | some (some l) => l | _ => []) (syncRead2 c run).2.isNone

/-- the state in which the runner takes the sync event, with the caller's cancellation pending -/
def syncPrepared (c : Cluster) (run : Run) (pruneObjs : List Live) : St :=
  { initialStatuses (prepare (syncRead2 c run).1 (syncPlan c run pruneObjs) pruneObjs) with cancelled := true }

def syncLocalNs (run : Run) : List String := localNamespaces ((syncApplyMs run).map (·.id))

theorem foldl_run {α : Type} (f : St → α → St) (hf : ∀ s a, (f s a).run = s.run) (l : List α) (s : St) :
    (l.foldl f s).run = s.run := by
  induction l generalizing s with
  | nil => rfl
  | cons a as ih => rw [List.foldl_cons, ih, hf]

theorem initialStatuses_run (s : St) : (initialStatuses s).run = s.run := by
  unfold initialStatuses
  split
  · rfl
  · apply foldl_run
    intro s a
    dsimp only
    split
    · rfl
    · split <;> rfl

theorem getPruneObjs_run (s : St) (ids : List Id) : (getPruneObjs s ids).1.run = s.run := by
  unfold getPruneObjs St.invRead
  simp only []
  split <;> split <;> rfl

theorem invRead_run (s : St) : s.invRead.1.run = s.run := by
  unfold St.invRead
  simp only []
  split <;> rfl

theorem syncPrepared_run (c : Cluster) (run : Run) (pruneObjs : List Live) :
    (syncPrepared c run pruneObjs).run = syncRun run := by
  show (initialStatuses _).run = _
  rw [initialStatuses_run, CliUtils.GrammarL.prepare_run]
  unfold syncRead2 syncPrune
  rw [invRead_run, getPruneObjs_run]
  rfl

theorem syncPrepared_cancelled (c : Cluster) (run : Run) (pruneObjs : List Live) :
    (syncPrepared c run pruneObjs).cancelled = true := rfl

theorem syncPrepared_destroy (c : Cluster) (run : Run) (pruneObjs : List Live) :
    (syncPrepared c run pruneObjs).run.destroy = run.destroy := by
  rw [syncPrepared_run]
  rfl

/-- `runOneAtSync c run true`, in the vocabulary above -/
theorem runOneAtSync_true_unfold (c : Cluster) (run : Run) :
    runOneAtSync c run true =
      match (syncPrune c run).2 with
      | none => (syncPrune c run).1.emit (.error "fault")
      | some pruneObjs =>
        if !run.opts.skipInvalid && !(syncPlan c run pruneObjs).valErrors.isEmpty then (syncRead2 c run).1.emit (.error "other")
        else
          runTasks pruneObjs (syncLocalNs run)
            { initialStatuses (prepare (syncRead2 c run).1 (syncPlan c run pruneObjs) pruneObjs) with
                cancelled := decide (run.opts.dry = .none) }
            (syncPlan c run pruneObjs).tasks := rfl

/-- the first inventory read failed: the run ends with the read error, nothing is started -/
theorem runOneAtSync_true_read_error (c : Cluster) (run : Run) (hr : (syncPrune c run).2 = none) :
    runOneAtSync c run true = (syncPrune c run).1.emit (.error "fault") := by
  rw [runOneAtSync_true_unfold, hr]

/-- validation stops the run: nothing is started -/
theorem runOneAtSync_true_invalid (c : Cluster) (run : Run) (pruneObjs : List Live)
    (hr : (syncPrune c run).2 = some pruneObjs)
    (hv : (!run.opts.skipInvalid && !(syncPlan c run pruneObjs).valErrors.isEmpty) = true) :
    runOneAtSync c run true = (syncRead2 c run).1.emit (.error "other") := by
  rw [runOneAtSync_true_unfold, hr]
  simp only [hv, if_true]

/-- otherwise, outside dry-run, the run is the runner started from the prepared state with the cancellation pending -/
theorem runOneAtSync_true_eq (c : Cluster) (run : Run) (pruneObjs : List Live)
    (hr : (syncPrune c run).2 = some pruneObjs)
    (hv : (!run.opts.skipInvalid && !(syncPlan c run pruneObjs).valErrors.isEmpty) = false)
    (hd : run.opts.dry = .none) :
    runOneAtSync c run true =
      runTasks pruneObjs (syncLocalNs run) (syncPrepared c run pruneObjs) (syncPlan c run pruneObjs).tasks := by
  rw [runOneAtSync_true_unfold, hr]
  simp only [hv, Bool.false_eq_true, if_false]
  rw [hd]
  rfl

/-! ## dry-run: the blind watcher, no pending cancellation -/

theorem foldl_cancelled {α : Type} (f : St → α → St) (hf : ∀ s a, (f s a).cancelled = s.cancelled) (l : List α) (s : St) :
    (l.foldl f s).cancelled = s.cancelled := by
  induction l generalizing s with
  | nil => rfl
  | cons a as ih => rw [List.foldl_cons, ih, hf]

theorem initialStatuses_cancelled (s : St) : (initialStatuses s).cancelled = s.cancelled := by
  unfold initialStatuses
  split
  · rfl
  · apply foldl_cancelled
    intro s a
    dsimp only
    split
    · rfl
    · split <;> rfl

theorem prepare_cancelled (s : St) (plan : Plan) (pruneObjs : List Live) : (prepare s plan pruneObjs).cancelled = s.cancelled := by
  show (plan.valErrors.foldl (fun s e => s.emit (.validation e.1 e.2)) s).cancelled = s.cancelled
  exact foldl_cancelled (fun (s : St) (e : List Id × String) => s.emit (.validation e.1 e.2)) (fun _ _ => rfl) _ _

theorem syncRead2_cancelled (c : Cluster) (run : Run) : (syncRead2 c run).1.cancelled = false := by
  unfold syncRead2 syncPrune
  rw [invRead_cancelled, CliUtils.OrderL.getPruneObjs_fst, invRead_cancelled]
  rfl

/-- `runOne` without a cancellation point, in the same vocabulary -/
theorem runOne_never_unfold (c : Cluster) (run : Run) :
    runOne c (syncRun run) =
      match (syncPrune c run).2 with
      | none => (syncPrune c run).1.emit (.error "fault")
      | some pruneObjs =>
        if !run.opts.skipInvalid && !(syncPlan c run pruneObjs).valErrors.isEmpty then (syncRead2 c run).1.emit (.error "other")
        else
          runTasks pruneObjs (syncLocalNs run)
            (initialStatuses (prepare (syncRead2 c run).1 (syncPlan c run pruneObjs) pruneObjs))
            (syncPlan c run pruneObjs).tasks := rfl

/-- under dry-run `runOneAtSync … true` is the run without any cancellation -/
theorem runOneAtSync_true_dry (c : Cluster) (run : Run) (hd : run.opts.dry ≠ .none) :
    runOneAtSync c run true = runOne c (syncRun run) := by
  rw [runOneAtSync_true_unfold, runOne_never_unfold]
  have key : ∀ pruneObjs,
      ({ initialStatuses (prepare (syncRead2 c run).1 (syncPlan c run pruneObjs) pruneObjs) with
          cancelled := decide (run.opts.dry = .none) } : St) =
        initialStatuses (prepare (syncRead2 c run).1 (syncPlan c run pruneObjs) pruneObjs) := by
    intro pruneObjs
    have h : (initialStatuses (prepare (syncRead2 c run).1 (syncPlan c run pruneObjs) pruneObjs)).cancelled = false := by
      rw [initialStatuses_cancelled, prepare_cancelled, syncRead2_cancelled]
    generalize initialStatuses (prepare (syncRead2 c run).1 (syncPlan c run pruneObjs) pruneObjs) = s at h
    cases s
    simp_all
  simp only [key]

end CliUtils.SyncL
