import CliUtils.Model.Status
import CliUtils.Spec.Status
/-
  Every result the model of `status.Compute` can return has the condition shape fixed by the constructors
  `newInProgressStatus` / `newFailedStatus` (helper lemmas for C09 and for the Augment theorems of C07).
-/
set_option linter.unusedSimpArgs false

namespace CliUtils.KStatus
open CliUtils CliUtils.J

/-- the strong form of the C09 shape: the condition list is exactly the one standard condition, or empty -/
def Shaped (r : Result) : Prop :=
  (r.status = .inProgress ∧ ∃ reason, r.conditions = [reconcilingCond reason]) ∨
  (r.status = .failed ∧ ∃ reason, r.conditions = [stalledCond reason]) ∨
  (r.status = .current ∧ r.conditions = []) ∨
  (r.status = .terminating ∧ r.conditions = [])

theorem shaped_inProgressR (s : String) : Shaped (inProgressR s) := Or.inl ⟨rfl, s, rfl⟩
theorem shaped_failedR (s : String) : Shaped (failedR s) := Or.inr (Or.inl ⟨rfl, s, rfl⟩)
theorem shaped_failed_lit (s : String) : Shaped { status := .failed, conditions := [stalledCond s] } :=
  Or.inr (Or.inl ⟨rfl, s, rfl⟩)
theorem shaped_currentR : Shaped currentR := Or.inr (Or.inr (Or.inl ⟨rfl, rfl⟩))
theorem shaped_terminatingR : Shaped terminatingR := Or.inr (Or.inr (Or.inr ⟨rfl, rfl⟩))

macro "shaped_leaf" : tactic =>
  `(tactic| first
    | exact shaped_inProgressR _
    | exact shaped_failedR _
    | exact shaped_failed_lit _
    | exact shaped_currentR
    | exact shaped_terminatingR)

/-- split every `if`/`match` of a hypothesis `h : f o = .ok r` and close each leaf -/
macro "shaped_split" h:ident : tactic =>
  `(tactic| ((try simp only [] at $h:ident); (repeat' split at $h:ident)) <;> (first | (cases $h:ident; shaped_leaf) | contradiction | (cases $h:ident)))

theorem genericLoop_shaped (cs : List BC) (r : Result) (h : genericLoop cs = some r) : Shaped r := by
  induction cs with
  | nil => simp [genericLoop] at h
  | cons c cs ih =>
    unfold genericLoop at h
    split at h
    · cases h; shaped_leaf
    · split at h
      · cases h; shaped_leaf
      · exact ih h

theorem checkGeneration_shaped (o : J) (r : Result) (h : checkGeneration o = .ok (some r)) : Shaped r := by
  unfold checkGeneration at h
  shaped_split h

theorem checkGenericTail_shaped (o : J) (r : Result) (h : checkGenericTail o = .ok (some r)) : Shaped r := by
  unfold checkGenericTail at h
  split at h
  · cases h
  · rename_i r' hg
    cases h; exact checkGeneration_shaped o _ hg
  · split at h
    · cases h
    · rename_i cs _
      injection h with h
      exact genericLoop_shaped cs r h

theorem checkGenericProperties_shaped (o : J) (r : Result) (h : checkGenericProperties o = .ok (some r)) : Shaped r := by
  unfold checkGenericProperties at h
  split at h
  · cases h
  · split at h
    · cases h; shaped_leaf
    · exact checkGenericTail_shaped o r h
  · exact checkGenericTail_shaped o r h

theorem stsConditions_shaped (o : J) (r : Result) (h : stsConditions o = .ok r) : Shaped r := by
  unfold stsConditions at h
  shaped_split h

theorem deploymentConditions_shaped (o : J) (r : Result) (h : deploymentConditions o = .ok r) : Shaped r := by
  unfold deploymentConditions at h
  shaped_split h

theorem replicasetConditions_shaped (o : J) (r : Result) (h : replicasetConditions o = .ok r) : Shaped r := by
  unfold replicasetConditions at h
  shaped_split h

theorem checkGenerationSet_shaped (o : J) (r : Result) (h : checkGenerationSet o = .ok (some r)) : Shaped r := by
  unfold checkGenerationSet at h
  shaped_split h

theorem daemonsetConditions_shaped (o : J) (r : Result) (h : daemonsetConditions o = .ok r) : Shaped r := by
  unfold daemonsetConditions at h
  split at h
  · cases h
  · rename_i r' hg
    cases h; exact checkGenerationSet_shaped o _ hg
  · shaped_split h

theorem pvcConditions_shaped (o : J) (r : Result) (h : pvcConditions o = .ok r) : Shaped r := by
  unfold pvcConditions at h
  shaped_split h

theorem podConditions_shaped (w : Bool) (o : J) (r : Result) (h : podConditions w o = .ok r) : Shaped r := by
  unfold podConditions at h
  shaped_split h

theorem jobLoop_shaped (cs : List BC) (r : Result) (h : jobLoop cs = some r) : Shaped r := by
  induction cs with
  | nil => simp [jobLoop] at h
  | cons c cs ih =>
    unfold jobLoop at h
    repeat' split at h
    all_goals first | (cases h; shaped_leaf) | exact ih h

theorem jobConditions_shaped (o : J) (r : Result) (h : jobConditions o = .ok r) : Shaped r := by
  unfold jobConditions at h
  split at h
  · cases h
  · split at h
    · rename_i r' hj
      cases h; exact jobLoop_shaped _ _ hj
    · shaped_split h

theorem serviceConditions_shaped (o : J) (r : Result) (h : serviceConditions o = .ok r) : Shaped r := by
  unfold serviceConditions at h
  shaped_split h

theorem crdLoop_shaped (cs : List BC) : Shaped (crdLoop cs) := by
  induction cs with
  | nil => exact shaped_inProgressR _
  | cons c cs ih =>
    unfold crdLoop
    repeat' split
    all_goals first | shaped_leaf | exact ih

theorem crdConditions_shaped (o : J) (r : Result) (h : crdConditions o = .ok r) : Shaped r := by
  unfold crdConditions at h
  split at h
  · cases h
  · cases h; exact crdLoop_shaped _

theorem kindFn_shaped (k : Kind) (w : Bool) (o : J) (r : Result) (h : kindFn k w o = .ok r) : Shaped r := by
  cases k <;> simp only [kindFn] at h
  · exact serviceConditions_shaped o r h
  · exact podConditions_shaped w o r h
  · cases h; shaped_leaf
  · exact pvcConditions_shaped o r h
  · exact stsConditions_shaped o r h
  · exact daemonsetConditions_shaped o r h
  · exact deploymentConditions_shaped o r h
  · exact replicasetConditions_shaped o r h
  · cases h; shaped_leaf
  · exact jobConditions_shaped o r h
  · exact crdConditions_shaped o r h

theorem readyLoop_shaped (cs : List BC) (r : Result) (h : readyLoop cs = some r) : Shaped r := by
  induction cs with
  | nil => simp [readyLoop] at h
  | cons c cs ih =>
    unfold readyLoop at h
    repeat' split at h
    all_goals first | (cases h; shaped_leaf) | exact ih h

theorem computeK_shaped (key : String) (w : Bool) (o : J) (r : Result) (h : computeK key w o = .ok r) : Shaped r := by
  unfold computeK at h
  split at h
  · cases h
  · rename_i r' hg
    cases h; exact checkGenericProperties_shaped o _ hg
  · split at h
    · exact kindFn_shaped _ w o r h
    · unfold checkReadyCondition at h
      split at h
      · cases h
      · rename_i r' hr
        cases h
        split at hr
        · cases hr
        · injection hr with hr
          exact readyLoop_shaped _ _ hr
      · cases h; shaped_leaf

/-! Terminating is produced by the generic checks only -/

macro "nt_leaf" : tactic => `(tactic| (intro hx; simp [inProgressR, failedR, currentR] at hx))

macro "nt_split" h:ident : tactic =>
  `(tactic| ((try simp only [] at $h:ident); (repeat' split at $h:ident)) <;> (first | (cases $h:ident; nt_leaf) | contradiction | (cases $h:ident)))

theorem jobLoop_nt (cs : List BC) (r : Result) (h : jobLoop cs = some r) : r.status ≠ .terminating := by
  induction cs with
  | nil => simp [jobLoop] at h
  | cons c cs ih =>
    unfold jobLoop at h
    repeat' split at h
    all_goals first | (cases h; nt_leaf) | exact ih h

theorem crdLoop_nt (cs : List BC) : (crdLoop cs).status ≠ .terminating := by
  induction cs with
  | nil => simp [crdLoop, inProgressR]
  | cons c cs ih =>
    unfold crdLoop
    repeat' split
    all_goals first | (simp [inProgressR, failedR, currentR]; done) | exact ih

theorem checkGenerationSet_nt (o : J) (r : Result) (h : checkGenerationSet o = .ok (some r)) : r.status ≠ .terminating := by
  unfold checkGenerationSet at h
  nt_split h

theorem kindFn_not_terminating (k : Kind) (w : Bool) (o : J) (r : Result) (h : kindFn k w o = .ok r) :
    r.status ≠ .terminating := by
  cases k <;> simp only [kindFn] at h
  · unfold serviceConditions at h; nt_split h
  · unfold podConditions at h; nt_split h
  · cases h; nt_leaf
  · unfold pvcConditions at h; nt_split h
  · unfold stsConditions at h; nt_split h
  · unfold daemonsetConditions at h
    split at h
    · cases h
    · rename_i r' hg
      cases h; exact checkGenerationSet_nt o _ hg
    · nt_split h
  · unfold deploymentConditions at h; nt_split h
  · unfold replicasetConditions at h; nt_split h
  · cases h; nt_leaf
  · unfold jobConditions at h
    split at h
    · cases h
    · split at h
      · rename_i r' hj
        cases h; exact jobLoop_nt _ _ hj
      · nt_split h
  · unfold crdConditions at h
    split at h
    · cases h
    · cases h; exact crdLoop_nt _

end CliUtils.KStatus
