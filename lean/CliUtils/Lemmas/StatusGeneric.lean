import CliUtils.Model.Status
import CliUtils.Spec.Status
/-
  The generic part of `Compute` expressed through the declarative predicates of `Spec.Status`.
-/
namespace CliUtils.KStatus
open CliUtils CliUtils.J CliUtils.Spec.KStatus

/-- the result the generic loop builds from the deciding condition -/
def signalResult (c : BC) : Result :=
  if c.type = "Reconciling" then inProgressR c.reason else { status := .failed, conditions := [stalledCond c.reason] }

theorem genericLoop_eq (cs : List BC) : genericLoop cs = (firstSignal cs).map signalResult := by
  induction cs with
  | nil => simp [genericLoop, firstSignal]
  | cons c cs ih =>
    unfold genericLoop
    simp only [firstSignal, List.find?_cons]
    by_cases h1 : c.type = "Reconciling" ∧ c.status = "True"
    · simp [h1, isSignal, signalResult]
    · by_cases h2 : c.type = "Stalled" ∧ c.status = "True"
      · have hne : c.type ≠ "Reconciling" := by rw [h2.1]; decide
        simp [h2, isSignal, signalResult]
      · have hns : isSignal c = false := by
          simp only [isSignal, decide_eq_false_iff_not]
          rintro ⟨ht | ht, hs⟩
          · exact h1 ⟨ht, hs⟩
          · exact h2 ⟨ht, hs⟩
        simp only [h1, h2, if_false, hns]
        exact ih

theorem signalResult_status (c : BC) : (signalResult c).status = signalStatus c := by
  unfold signalResult signalStatus
  split <;> rfl

theorem readyLoop_eq (cs : List BC) :
    readyLoop cs = (firstReady cs).map (fun c => if c.status = "True" then currentR else inProgressR c.reason) := by
  induction cs with
  | nil => simp [readyLoop, firstReady]
  | cons c cs ih =>
    unfold readyLoop
    simp only [firstReady, List.find?_cons]
    by_cases ht : c.type = "Ready"
    · by_cases h1 : c.status = "True"
      · simp [ht, h1]
      · by_cases h2 : c.status = "False"
        · simp [ht, h2]
        · by_cases h3 : c.status = "Unknown"
          · simp [ht, h3]
          · simp only [ht, h1, h2, h3, ne_eq, not_true_eq_false, if_false, or_self, and_false, decide_false]
            exact ih
    · simp only [ht, ne_eq, not_false_eq_true, if_true, false_and, decide_false]
      exact ih

theorem conv_of_convConds (o : J) (cs : List BC) (h : convConds o = some cs) : conv o = .ok cs := by
  simp [conv, h]

theorem checkGeneric_of_deletion (o : J) (h : deletionSet o = true) :
    checkGenericProperties o = .ok (some terminatingR) := by
  unfold deletionSet at h
  unfold checkGenericProperties
  split at h
  · rename_i s hs
    simp only [hs]
    simp only [decide_eq_true_eq] at h
    simp [h]
  · cases h

theorem checkGeneric_clean (o : J) (h : deletionClean o = true) : checkGenericProperties o = checkGenericTail o := by
  unfold deletionClean at h
  unfold checkGenericProperties
  split at h
  · rename_i s hs
    simp only [decide_eq_true_eq] at h
    simp [hs, h]
  · rename_i hs
    simp [hs]
  · cases h

theorem checkGeneration_of_mismatch (o : J) (h : generationMismatch o = true) :
    checkGeneration o = .ok (some (inProgressR "LatestGenerationNotObserved")) := by
  unfold generationMismatch at h
  unfold checkGeneration
  split at h
  · rename_i g og hg hog
    simp only [decide_eq_true_eq] at h
    simp only [hg, hog]
    have : og ≠ g := fun e => h e.symm
    simp [this]
  · cases h

theorem checkGeneration_clean (o : J) (h : generationClean o = true) : checkGeneration o = .ok none := by
  unfold generationClean at h
  unfold checkGeneration
  split at h
  · cases h
  · rename_i hg; simp [hg]
  · rename_i g hg
    simp only [hg]
    split at h
    · cases h
    · rename_i hog; simp [hog]
    · rename_i og hog
      simp only [decide_eq_true_eq] at h
      simp [hog, h]

theorem checkGeneric_of_mismatch (o : J) (hd : deletionClean o = true) (h : generationMismatch o = true) :
    checkGenericProperties o = .ok (some (inProgressR "LatestGenerationNotObserved")) := by
  rw [checkGeneric_clean o hd]
  unfold checkGenericTail
  rw [checkGeneration_of_mismatch o h]

theorem checkGeneric_of_conds (o : J) (cs : List BC) (hd : deletionClean o = true) (hg : generationClean o = true)
    (hc : convConds o = some cs) : checkGenericProperties o = .ok (genericLoop cs) := by
  rw [checkGeneric_clean o hd]
  unfold checkGenericTail
  rw [checkGeneration_clean o hg]
  simp [conv_of_convConds o cs hc]

/-- `noGenericSignal` is exactly "the generic checks pass without a verdict and without an error" -/
theorem checkGeneric_none_iff (o : J) : checkGenericProperties o = .ok none ↔ noGenericSignal o = true := by
  constructor
  · intro h
    -- deletion part
    have hd : deletionClean o = true := by
      unfold checkGenericProperties at h
      unfold deletionClean
      split at h
      · cases h
      · rename_i s hs
        split at h
        · cases h
        · rename_i hne
          simp only [ne_eq, Decidable.not_not] at hne
          simp [hs, hne]
      · rename_i hs; simp [hs]
    rw [checkGeneric_clean o hd] at h
    unfold checkGenericTail at h
    have hg : generationClean o = true := by
      unfold generationClean
      unfold checkGeneration at h
      split
      · rename_i hgen; simp [hgen] at h
      · rfl
      · rename_i g hgen
        simp only [hgen] at h
        split
        · rename_i hog; simp [hog] at h
        · rfl
        · rename_i og hog
          simp only [hog] at h
          by_cases e : og = g
          · simp [e]
          · simp [e] at h
    rw [checkGeneration_clean o hg] at h
    unfold noGenericSignal
    simp only [hd, hg, Bool.true_and]
    unfold conv at h
    cases hcs : convConds o with
    | none => simp [hcs] at h
    | some cs =>
      simp only [hcs, Except.ok.injEq] at h
      rw [genericLoop_eq] at h
      cases hf : firstSignal cs with
      | none => simp [hf]
      | some c => simp [hf] at h
  · intro h
    unfold noGenericSignal at h
    simp only [Bool.and_eq_true] at h
    obtain ⟨⟨hd, hg⟩, hc⟩ := h
    split at hc
    · rename_i cs hcs
      rw [checkGeneric_of_conds o cs hd hg hcs, genericLoop_eq]
      cases hf : firstSignal cs with
      | none => rfl
      | some c => simp [hf] at hc
    · cases hc

end CliUtils.KStatus
