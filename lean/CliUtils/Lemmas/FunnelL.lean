import CliUtils.Model.Funnel
/-
  Invariants of the funnel transition system (helper lemmas for Props/C16.lean).
-/
namespace CliUtils.Funnel

/-- reachable states of a funnel with `n` producers -/
inductive Reach (n : Nat) : St → Prop where
  | init : Reach n (init n)
  | step {s s' : St} (a : Act) : Reach n s → step s a = some s' → Reach n s'

theorem nActive_replicate_idle (n : Nat) : nActive (List.replicate n Phase.idle) = 0 := by
  induction n with
  | zero => rfl
  | succ k ih =>
    simp only [List.replicate_succ, nActive, List.filter_cons, active] at ih ⊢
    simpa using ih

theorem nActive_set_of (ps : List Phase) (i : Nat) (p q : Phase) (h : ps[i]? = some p) :
    (nActive (ps.set i q) : Int) = nActive ps - (if active p then 1 else 0) + (if active q then 1 else 0) := by
  induction ps generalizing i with
  | nil => simp at h
  | cons hd tl ih =>
    cases i with
    | zero =>
      simp at h; subst h
      simp only [List.set_cons_zero, nActive, List.filter_cons]
      cases hp : active hd <;> cases hq : active q <;> simp <;> omega
    | succ k =>
      simp at h
      have := ih k h
      simp only [List.set_cons_succ, nActive, List.filter_cons] at this ⊢
      cases hh : active hd <;> simp <;> omega

theorem nActive_pos_of (ps : List Phase) (i : Nat) (p : Phase) (h : ps[i]? = some p) (ha : active p = true) :
    0 < nActive ps := by
  have hmem : p ∈ ps := List.mem_of_getElem? h
  have : p ∈ ps.filter active := List.mem_filter.mpr ⟨hmem, ha⟩
  exact List.length_pos_of_mem this

/-- bookkeeping invariant: the goroutine's counter equals the number of live drain goroutines; the output is closed
only when there is none and the context was seen; the context is seen only when done -/
def Inv (s : St) : Prop :=
  s.counter = (nActive s.prods : Int) ∧
  (s.closed = true → s.ctxSeen = true ∧ nActive s.prods = 0) ∧
  (s.ctxSeen = true → s.ctxDone = true)

theorem inv_init (n : Nat) : Inv (init n) := by
  refine ⟨?_, ?_, ?_⟩
  · show (0 : Int) = (nActive (List.replicate n Phase.idle) : Int)
    rw [nActive_replicate_idle]; rfl
  · intro h; cases h
  · intro h; cases h

/-- a phase change of one producer that keeps `active` keeps the invariant (counter untouched) -/
theorem inv_setP_same (s : St) (i : Nat) (p q : Phase) (hi : Inv s) (hp : s.prods[i]? = some p)
    (hpq : active p = active q) : Inv (setP s i q) := by
  obtain ⟨h1, h2, h3⟩ := hi
  have hn : (nActive (s.prods.set i q) : Int) = nActive s.prods := by
    rw [nActive_set_of s.prods i p q hp, hpq]; omega
  refine ⟨?_, ?_, h3⟩
  · show s.counter = (nActive (s.prods.set i q) : Int)
    rw [hn]; exact h1
  · intro hc
    have := h2 hc
    refine ⟨this.1, ?_⟩
    show nActive (s.prods.set i q) = 0
    omega

theorem ready_not_closed {s : St} (h : ready s = true) : s.closed = false := by
  unfold ready at h
  cases hc : s.closed <;> simp [hc] at h ⊢

theorem step_inv (s s' : St) (a : Act) (hi : Inv s) (hs : step s a = some s') : Inv s' := by
  have hi' := hi
  obtain ⟨h1, h2, h3⟩ := hi
  cases a with
  | cancel =>
    simp only [step, Option.some.injEq] at hs; subst hs
    exact ⟨h1, h2, fun _ => rfl⟩
  | seeCtx =>
    simp only [step] at hs
    split at hs
    · rename_i hc
      simp only [Option.some.injEq] at hs; subst hs
      simp only [Bool.and_eq_true, Bool.not_eq_true'] at hc
      refine ⟨h1, ?_, fun _ => hc.1.1⟩
      intro hcl
      have := ready_not_closed hc.2
      simp [this] at hcl
    · cases hs
  | addCall i =>
    simp only [step] at hs
    split at hs
    · rename_i hp
      simp only [Option.some.injEq] at hs; subst hs
      exact inv_setP_same s i _ _ hi' hp rfl
    · cases hs
  | add i =>
    simp only [step] at hs
    split at hs
    · rename_i hp
      split at hs
      · rename_i hr
        simp only [Option.some.injEq] at hs; subst hs
        have hcl := ready_not_closed hr
        refine ⟨?_, ?_, h3⟩
        · show s.counter + 1 = (nActive (s.prods.set i _) : Int)
          rw [nActive_set_of s.prods i .adding _ hp, h1]; simp [active]
        · intro hc
          have : s.closed = true := hc
          simp [hcl] at this
      · cases hs
    · cases hs
  | reject i =>
    simp only [step] at hs
    split at hs
    · rename_i hp
      split at hs
      · simp only [Option.some.injEq] at hs; subst hs
        exact inv_setP_same s i _ _ hi' hp rfl
      · cases hs
    · cases hs
  | send i e =>
    simp only [step] at hs
    split at hs
    · rename_i q hp
      simp only [Option.some.injEq] at hs; subst hs
      exact inv_setP_same { s with sent := s.sent ++ [(i, e)] } i _ _ hi' hp rfl
    · cases hs
  | closeIn i =>
    simp only [step] at hs
    split at hs
    · rename_i q hp
      simp only [Option.some.injEq] at hs; subst hs
      exact inv_setP_same s i _ _ hi' hp rfl
    · cases hs
  | deliver i =>
    simp only [step] at hs
    split at hs
    · rename_i e q c hp
      simp only [Option.some.injEq] at hs; subst hs
      exact inv_setP_same { s with out := s.out ++ [(i, e)] } i _ _ hi' hp rfl
    · cases hs
  | startDec i =>
    simp only [step] at hs
    split at hs
    · rename_i hp
      simp only [Option.some.injEq] at hs; subst hs
      exact inv_setP_same s i _ _ hi' hp rfl
    · cases hs
  | dec i =>
    simp only [step] at hs
    split at hs
    · rename_i hp
      split at hs
      · rename_i hr
        simp only [Option.some.injEq] at hs; subst hs
        have hcl := ready_not_closed hr
        refine ⟨?_, ?_, h3⟩
        · show s.counter - 1 = (nActive (s.prods.set i _) : Int)
          rw [nActive_set_of s.prods i .decrementing _ hp, h1]; simp [active]
        · intro hc
          have : s.closed = true := hc
          simp [hcl] at this
      · cases hs
    · cases hs
  | closeOut =>
    simp only [step] at hs
    split at hs
    · rename_i hc
      simp only [Option.some.injEq] at hs; subst hs
      simp only [exiting, Bool.and_eq_true, decide_eq_true_eq, Bool.not_eq_true'] at hc
      refine ⟨h1, fun _ => ⟨hc.1.1, ?_⟩, h3⟩
      show nActive s.prods = 0
      have := hc.1.2
      omega
    · cases hs

theorem reach_inv {n : Nat} {s : St} (h : Reach n s) : Inv s := by
  induction h with
  | init => exact inv_init n
  | step a _ hs ih => exact step_inv _ _ a ih hs

/-! ### FIFO bookkeeping: delivered ++ queued = committed, per producer -/

def Fifo (s : St) : Prop := ∀ j, proj j s.out ++ qAt s.prods j = proj j s.sent

theorem qAt_of (ps : List Phase) (i : Nat) (p : Phase) (h : ps[i]? = some p) : qAt ps i = queue p := by
  simp [qAt, h]

theorem qAt_set (ps : List Phase) (i j : Nat) (p q : Phase) (h : ps[i]? = some p) :
    qAt (ps.set i q) j = if j = i then queue q else qAt ps j := by
  have hlt : i < ps.length := by
    rcases List.getElem?_eq_some_iff.mp h with ⟨hl, _⟩; exact hl
  unfold qAt
  by_cases hji : j = i
  · subst hji
    simp [hlt]
  · have : i ≠ j := fun e => hji e.symm
    simp [this, hji]

theorem proj_append (j : Nat) (l : List (Nat × Nat)) (i e : Nat) :
    proj j (l ++ [(i, e)]) = if i = j then proj j l ++ [e] else proj j l := by
  unfold proj
  by_cases h : i = j
  · subst h; simp
  · simp [h]

theorem fifo_init (n : Nat) : Fifo (init n) := by
  intro j
  simp [init, proj, qAt]
  cases h : (List.replicate n Phase.idle)[j]? with
  | none => rfl
  | some p =>
    have := List.mem_of_getElem? h
    rw [List.mem_replicate] at this
    rw [this.2]; rfl

/-- a phase change of one producer that keeps its queue (and does not touch `out`/`sent`) keeps Fifo -/
theorem fifo_setP_same (s : St) (i : Nat) (p q : Phase) (hf : Fifo s) (hp : s.prods[i]? = some p)
    (hq : queue p = queue q) : Fifo (setP s i q) := by
  intro j
  have := hf j
  show proj j s.out ++ qAt (s.prods.set i q) j = proj j s.sent
  rw [qAt_set s.prods i j p q hp]
  by_cases hji : j = i
  · subst hji
    rw [qAt_of s.prods j p hp, hq] at this
    simpa using this
  · simpa [hji] using this

theorem step_fifo (s s' : St) (a : Act) (hf : Fifo s) (hs : step s a = some s') : Fifo s' := by
  cases a with
  | cancel =>
    simp only [step, Option.some.injEq] at hs; subst hs; exact hf
  | seeCtx =>
    simp only [step] at hs
    split at hs
    · simp only [Option.some.injEq] at hs; subst hs; exact hf
    · cases hs
  | addCall i =>
    simp only [step] at hs
    split at hs
    · rename_i hp
      simp only [Option.some.injEq] at hs; subst hs
      exact fifo_setP_same s i _ _ hf hp rfl
    · cases hs
  | add i =>
    simp only [step] at hs
    split at hs
    · rename_i hp
      split at hs
      · simp only [Option.some.injEq] at hs; subst hs
        exact fifo_setP_same { s with counter := s.counter + 1 } i _ _ hf hp rfl
      · cases hs
    · cases hs
  | reject i =>
    simp only [step] at hs
    split at hs
    · rename_i hp
      split at hs
      · simp only [Option.some.injEq] at hs; subst hs
        exact fifo_setP_same s i _ _ hf hp rfl
      · cases hs
    · cases hs
  | send i e =>
    simp only [step] at hs
    split at hs
    · rename_i q hp
      simp only [Option.some.injEq] at hs; subst hs
      intro j
      have := hf j
      show proj j s.out ++ qAt (s.prods.set i _) j = proj j (s.sent ++ [(i, e)])
      rw [qAt_set s.prods i j _ _ hp, proj_append]
      by_cases hji : j = i
      · subst hji
        rw [qAt_of s.prods j _ hp] at this
        simp only [queue] at this
        simp only [if_true, queue, ← this, List.append_assoc]
      · have : ¬ i = j := fun e => hji e.symm
        simpa [hji, this] using hf j
    · cases hs
  | closeIn i =>
    simp only [step] at hs
    split at hs
    · rename_i q hp
      simp only [Option.some.injEq] at hs; subst hs
      exact fifo_setP_same s i _ _ hf hp rfl
    · cases hs
  | deliver i =>
    simp only [step] at hs
    split at hs
    · rename_i e q c hp
      simp only [Option.some.injEq] at hs; subst hs
      intro j
      have := hf j
      show proj j (s.out ++ [(i, e)]) ++ qAt (s.prods.set i _) j = proj j s.sent
      rw [qAt_set s.prods i j _ _ hp, proj_append]
      by_cases hji : j = i
      · subst hji
        rw [qAt_of s.prods j _ hp] at this
        simp only [queue] at this
        simp only [if_true, queue, ← this, List.append_assoc, List.singleton_append]
      · have : ¬ i = j := fun e => hji e.symm
        simpa [hji, this] using hf j
    · cases hs
  | startDec i =>
    simp only [step] at hs
    split at hs
    · rename_i hp
      simp only [Option.some.injEq] at hs; subst hs
      exact fifo_setP_same s i _ _ hf hp rfl
    · cases hs
  | dec i =>
    simp only [step] at hs
    split at hs
    · rename_i hp
      split at hs
      · simp only [Option.some.injEq] at hs; subst hs
        exact fifo_setP_same { s with counter := s.counter - 1 } i _ _ hf hp rfl
      · cases hs
    · cases hs
  | closeOut =>
    simp only [step] at hs
    split at hs
    · simp only [Option.some.injEq] at hs; subst hs; exact hf
    · cases hs

theorem reach_fifo {n : Nat} {s : St} (h : Reach n s) : Fifo s := by
  induction h with
  | init => exact fifo_init n
  | step a _ hs ih => exact step_fifo _ _ a ih hs

/-! ### termination measure -/

theorem sum_pm_set (ps : List Phase) (i : Nat) (p q : Phase) (h : ps[i]? = some p) :
    ((ps.set i q).map pm).sum + pm p = (ps.map pm).sum + pm q := by
  induction ps generalizing i with
  | nil => simp at h
  | cons hd tl ih =>
    cases i with
    | zero =>
      simp at h; subst h
      simp only [List.set_cons_zero, List.map_cons, List.sum_cons]; omega
    | succ k =>
      simp at h
      have := ih k h
      simp only [List.set_cons_succ, List.map_cons, List.sum_cons]; omega

theorem measure_setP_lt (s t : St) (i : Nat) (p q : Phase) (hp : s.prods[i]? = some p) (hlt : pm q < pm p)
    (h1 : t.prods = s.prods) (h2 : t.ctxSeen = s.ctxSeen) (h3 : t.closed = s.closed) :
    measure (setP t i q) < measure s := by
  have := sum_pm_set s.prods i p q hp
  unfold measure setP
  simp only [h1, h2, h3]
  omega

/-- every step of the funnel's own goroutines strictly lowers the measure -/
theorem internal_step_measure (s s' : St) (a : Act) (ha : a.internal = true) (hs : step s a = some s') :
    measure s' < measure s := by
  cases a with
  | cancel => simp [Act.internal, Act.env] at ha
  | addCall i => simp [Act.internal, Act.env] at ha
  | send i e => simp [Act.internal, Act.env] at ha
  | closeIn i => simp [Act.internal, Act.env] at ha
  | seeCtx =>
    simp only [step] at hs
    split at hs
    · rename_i hc
      simp only [Option.some.injEq] at hs; subst hs
      simp only [Bool.and_eq_true, Bool.not_eq_true'] at hc
      unfold measure
      simp [hc.1.2]
    · cases hs
  | add i =>
    simp only [step] at hs
    split at hs
    · rename_i hp
      split at hs
      · simp only [Option.some.injEq] at hs; subst hs
        exact measure_setP_lt s _ i _ _ hp (by simp [pm]) rfl rfl rfl
      · cases hs
    · cases hs
  | reject i =>
    simp only [step] at hs
    split at hs
    · rename_i hp
      split at hs
      · simp only [Option.some.injEq] at hs; subst hs
        exact measure_setP_lt s _ i _ _ hp (by simp [pm]) rfl rfl rfl
      · cases hs
    · cases hs
  | deliver i =>
    simp only [step] at hs
    split at hs
    · rename_i e q c hp
      simp only [Option.some.injEq] at hs; subst hs
      exact measure_setP_lt s _ i _ _ hp (by simp [pm]) rfl rfl rfl
    · cases hs
  | startDec i =>
    simp only [step] at hs
    split at hs
    · rename_i hp
      simp only [Option.some.injEq] at hs; subst hs
      exact measure_setP_lt s _ i _ _ hp (by simp [pm]) rfl rfl rfl
    · cases hs
  | dec i =>
    simp only [step] at hs
    split at hs
    · rename_i hp
      split at hs
      · simp only [Option.some.injEq] at hs; subst hs
        exact measure_setP_lt s _ i _ _ hp (by simp [pm]) rfl rfl rfl
      · cases hs
    · cases hs
  | closeOut =>
    simp only [step] at hs
    split at hs
    · rename_i hc
      simp only [Option.some.injEq] at hs; subst hs
      simp only [Bool.and_eq_true, Bool.not_eq_true'] at hc
      unfold measure
      simp [hc.2]
    · cases hs

/-! ### who is left when nothing is active -/

def settled : Phase → Bool
  | .idle | .done | .rejected => true
  | _ => false

theorem nActive_zero_of_all (ps : List Phase) (h : ∀ p ∈ ps, active p = false) : nActive ps = 0 := by
  unfold nActive
  rw [List.length_eq_zero_iff, List.filter_eq_nil_iff]
  intro p hp; simp [h p hp]

theorem exists_unsettled (ps : List Phase) (h : ¬ ∀ p ∈ ps, settled p = true) :
    ∃ (i : Nat) (p : Phase), ps[i]? = some p ∧ settled p = false := by
  have : ∃ p, p ∈ ps ∧ ¬ settled p = true := by
    apply Classical.byContradiction
    intro hne
    apply h
    intro p hp
    apply Classical.byContradiction
    intro hs
    exact hne ⟨p, hp, hs⟩
  obtain ⟨p, hp, hs⟩ := this
  obtain ⟨i, hi⟩ := List.getElem?_of_mem hp
  exact ⟨i, p, hi, by simpa using hs⟩

theorem step_closed_mono (s s' : St) (a : Act) (hs : step s a = some s') (hc : s.closed = true) : s'.closed = true := by
  cases a <;> simp only [step] at hs <;> (repeat' split at hs) <;>
    first
    | (simp only [Option.some.injEq] at hs; subst hs; simp [setP, hc])
    | cases hs

/-! ### soundness of the trace checker -/

theorem Tr.trans {s s' s'' : St} {h1 h2 : List Obs} (t1 : Tr s h1 s') (t2 : Tr s' h2 s'') : Tr s (h1 ++ h2) s'' := by
  induction t1 with
  | nil _ => simpa using t2
  | tau a ha hs _ ih => exact Tr.tau a ha hs (ih t2)
  | obs o ho _ ih => exact Tr.obs o ho (ih t2)

theorem tauSucc_sound (s s' : St) (h : s' ∈ tauSucc s) : Tr s [] s' := by
  unfold tauSucc at h
  rw [List.mem_filterMap] at h
  obtain ⟨a, ha, hs⟩ := h
  exact Tr.tau a ha hs (Tr.nil _)

theorem mem_insertNew (acc l : List St) (x : St) (h : x ∈ insertNew acc l) : x ∈ acc ∨ x ∈ l := by
  induction l generalizing acc with
  | nil => exact Or.inl h
  | cons y ys ih =>
    simp only [insertNew] at h
    split at h
    · rcases ih acc h with h | h
      · exact Or.inl h
      · exact Or.inr (List.mem_cons_of_mem _ h)
    · rcases ih _ h with h | h
      · rw [List.mem_append, List.mem_singleton] at h
        rcases h with h | h
        · exact Or.inl h
        · subst h; exact Or.inr List.mem_cons_self
      · exact Or.inr (List.mem_cons_of_mem _ h)

theorem tauClose_sound (k : Nat) (S : List St) (s' : St) (h : s' ∈ tauClose k S) : ∃ s ∈ S, Tr s [] s' := by
  induction k generalizing S with
  | zero => exact ⟨s', h, Tr.nil _⟩
  | succ k ih =>
    simp only [tauClose] at h
    split at h
    · exact ⟨s', h, Tr.nil _⟩
    · obtain ⟨s1, hs1, t1⟩ := ih _ h
      rcases mem_insertNew _ _ _ hs1 with hm | hm
      · exact ⟨s1, hm, t1⟩
      · rw [List.mem_flatMap] at hm
        obtain ⟨s0, hs0, hsucc⟩ := hm
        exact ⟨s0, hs0, by simpa using (tauSucc_sound s0 s1 hsucc).trans t1⟩

theorem acceptsFrom_sound (fuel : Nat) (S : List St) (h : List Obs) (hacc : acceptsFrom fuel S h = true) :
    ∃ s ∈ S, ∃ s', Tr s h s' := by
  induction h generalizing S with
  | nil =>
    simp only [acceptsFrom] at hacc
    cases S with
    | nil => simp at hacc
    | cons x xs => exact ⟨x, List.mem_cons_self, x, Tr.nil _⟩
  | cons o os ih =>
    simp only [acceptsFrom] at hacc
    obtain ⟨s1, hs1, s', t⟩ := ih _ hacc
    obtain ⟨s2, hs2, t2⟩ := tauClose_sound _ _ _ hs1
    rcases mem_insertNew _ _ _ hs2 with hm | hm
    · cases hm
    · rw [List.mem_filterMap] at hm
      obtain ⟨s0, hs0, ho⟩ := hm
      refine ⟨s0, hs0, s', Tr.obs o ho ?_⟩
      simpa using t2.trans t

theorem accepts_tr (n : Nat) (h : List Obs) (hacc : accepts n h = true) : ∃ s', Tr (init n) h s' := by
  unfold accepts at hacc
  obtain ⟨s1, hs1, s', t⟩ := acceptsFrom_sound _ _ _ hacc
  obtain ⟨s0, hs0, t0⟩ := tauClose_sound _ _ _ hs1
  rw [List.mem_singleton] at hs0; subst hs0
  exact ⟨s', by simpa using t0.trans t⟩

/-- every observation is either a real step or a test that leaves the state alone -/
theorem obsStep_cases (s s' : St) (o : Obs) (h : obsStep s o = some s') : (∃ a, step s a = some s') ∨ s' = s := by
  cases o with
  | cancel => exact Or.inl ⟨.cancel, h⟩
  | addCall i => exact Or.inl ⟨.addCall i, h⟩
  | send i e => exact Or.inl ⟨.send i e, h⟩
  | closeIn i => exact Or.inl ⟨.closeIn i, h⟩
  | out i e =>
    simp only [obsStep] at h
    split at h
    · split at h
      · exact Or.inl ⟨_, h⟩
      · cases h
    · cases h
  | addOk i =>
    simp only [obsStep] at h
    split at h
    · split at h
      · simp only [Option.some.injEq] at h; exact Or.inr h.symm
      · cases h
    · cases h
  | addRej i =>
    simp only [obsStep] at h
    split at h
    · simp only [Option.some.injEq] at h; exact Or.inr h.symm
    · cases h
  | outClosed =>
    simp only [obsStep] at h
    split at h
    · simp only [Option.some.injEq] at h; exact Or.inr h.symm
    · cases h

theorem tr_reach {n : Nat} {s s' : St} {h : List Obs} (t : Tr s h s') (hr : Reach n s) : Reach n s' := by
  induction t with
  | nil _ => exact hr
  | tau a _ hs _ ih => exact ih (Reach.step a hr hs)
  | obs o ho _ ih =>
    rcases obsStep_cases _ _ _ ho with ⟨a, ha⟩ | he
    · exact ih (Reach.step a hr ha)
    · subst he; exact ih hr

/-! ### what a trace says about the final state -/

theorem tau_not_send_deliver (n : Nat) (a : Act) (h : a ∈ tauActs n) :
    (∀ i e, a ≠ .send i e) ∧ (∀ i, a ≠ .deliver i) ∧ a ≠ .cancel := by
  simp only [tauActs, List.mem_append, List.mem_cons, List.mem_flatMap, List.mem_range, List.not_mem_nil, or_false] at h
  rcases h with (h | h) | ⟨i, _, h | h | h | h⟩ <;> subst h <;> simp

theorem step_keeps_out_sent (s s' : St) (a : Act) (hs : step s a = some s')
    (h1 : ∀ i e, a ≠ .send i e) (h2 : ∀ i, a ≠ .deliver i) : s'.out = s.out ∧ s'.sent = s.sent := by
  cases a with
  | send i e => exact absurd rfl (h1 i e)
  | deliver i => exact absurd rfl (h2 i)
  | cancel => simp only [step, Option.some.injEq] at hs; subst hs; exact ⟨rfl, rfl⟩
  | seeCtx => simp only [step] at hs; split at hs <;> first | (simp only [Option.some.injEq] at hs; subst hs; exact ⟨rfl, rfl⟩) | cases hs
  | closeOut => simp only [step] at hs; split at hs <;> first | (simp only [Option.some.injEq] at hs; subst hs; exact ⟨rfl, rfl⟩) | cases hs
  | addCall i => simp only [step] at hs; split at hs <;> first | (simp only [Option.some.injEq] at hs; subst hs; exact ⟨rfl, rfl⟩) | cases hs
  | closeIn i => simp only [step] at hs; split at hs <;> first | (simp only [Option.some.injEq] at hs; subst hs; exact ⟨rfl, rfl⟩) | cases hs
  | startDec i => simp only [step] at hs; split at hs <;> first | (simp only [Option.some.injEq] at hs; subst hs; exact ⟨rfl, rfl⟩) | cases hs
  | add i =>
    simp only [step] at hs; split at hs
    · split at hs
      · simp only [Option.some.injEq] at hs; subst hs; exact ⟨rfl, rfl⟩
      · cases hs
    · cases hs
  | reject i =>
    simp only [step] at hs; split at hs
    · split at hs
      · simp only [Option.some.injEq] at hs; subst hs; exact ⟨rfl, rfl⟩
      · cases hs
    · cases hs
  | dec i =>
    simp only [step] at hs; split at hs
    · split at hs
      · simp only [Option.some.injEq] at hs; subst hs; exact ⟨rfl, rfl⟩
      · cases hs
    · cases hs

theorem obsStep_out_sent (s s' : St) (o : Obs) (h : obsStep s o = some s') :
    s'.out = s.out ++ outsOf [o] ∧ s'.sent = s.sent ++ sendsOf [o] := by
  cases o with
  | cancel => simpa [outsOf, sendsOf] using step_keeps_out_sent s s' .cancel h (by simp) (by simp)
  | addCall i => simpa [outsOf, sendsOf] using step_keeps_out_sent s s' (.addCall i) h (by simp) (by simp)
  | closeIn i => simpa [outsOf, sendsOf] using step_keeps_out_sent s s' (.closeIn i) h (by simp) (by simp)
  | send i e =>
    simp only [obsStep, step] at h
    split at h
    · simp only [Option.some.injEq] at h; subst h; simp [outsOf, sendsOf, setP]
    · cases h
  | out i e =>
    simp only [obsStep] at h
    split at h
    · rename_i e' q c hp
      split at h
      · rename_i he; subst he
        simp only [step, hp, Option.some.injEq] at h; subst h; simp [outsOf, sendsOf, setP]
      · cases h
    · cases h
  | addOk i =>
    simp only [obsStep] at h
    split at h
    · split at h
      · simp only [Option.some.injEq] at h; subst h; simp [outsOf, sendsOf]
      · cases h
    · cases h
  | addRej i =>
    simp only [obsStep] at h
    split at h
    · simp only [Option.some.injEq] at h; subst h; simp [outsOf, sendsOf]
    · cases h
  | outClosed =>
    simp only [obsStep] at h
    split at h
    · simp only [Option.some.injEq] at h; subst h; simp [outsOf, sendsOf]
    · cases h

theorem outsOf_cons (o : Obs) (h : List Obs) : outsOf (o :: h) = outsOf [o] ++ outsOf h := by
  cases o <;> simp [outsOf]

theorem sendsOf_cons (o : Obs) (h : List Obs) : sendsOf (o :: h) = sendsOf [o] ++ sendsOf h := by
  cases o <;> simp [sendsOf]

theorem tr_out_sent {s s' : St} {h : List Obs} (t : Tr s h s') :
    s'.out = s.out ++ outsOf h ∧ s'.sent = s.sent ++ sendsOf h := by
  induction t with
  | nil _ => simp [outsOf, sendsOf]
  | tau a ha hs _ ih =>
    obtain ⟨h1, h2, _⟩ := tau_not_send_deliver _ a ha
    obtain ⟨k1, k2⟩ := step_keeps_out_sent _ _ a hs h1 h2
    rw [← k1, ← k2]; exact ih
  | obs o ho _ ih =>
    obtain ⟨k1, k2⟩ := obsStep_out_sent _ _ o ho
    rw [outsOf_cons, sendsOf_cons, ← List.append_assoc, ← List.append_assoc, ← k1, ← k2]; exact ih

theorem tr_closed_mono {s s' : St} {h : List Obs} (t : Tr s h s') (hc : s.closed = true) : s'.closed = true := by
  induction t with
  | nil _ => exact hc
  | tau a _ hs _ ih => exact ih (step_closed_mono _ _ a hs hc)
  | obs o ho _ ih =>
    rcases obsStep_cases _ _ _ ho with ⟨a, ha⟩ | he
    · exact ih (step_closed_mono _ _ a ha hc)
    · subst he; exact ih hc

theorem tr_closed_of_obs {s s' : St} {h : List Obs} (t : Tr s h s') (hm : Obs.outClosed ∈ h) : s'.closed = true := by
  induction t with
  | nil _ => cases hm
  | tau a _ _ _ ih => exact ih hm
  | obs o ho t' ih =>
    rcases List.mem_cons.mp hm with he | hm'
    · subst he
      simp only [obsStep] at ho
      split at ho
      · rename_i hc
        simp only [Option.some.injEq] at ho; subst ho
        exact tr_closed_mono t' hc
      · cases ho
    · exact ih hm'

theorem step_ctxDone (s s' : St) (a : Act) (hs : step s a = some s') (hd : s'.ctxDone = true) :
    s.ctxDone = true ∨ a = .cancel := by
  cases a <;> simp only [step] at hs <;> (repeat' split at hs) <;>
    first
    | (right; rfl)
    | (simp only [Option.some.injEq] at hs; subst hs; left; simpa [setP] using hd)
    | cases hs

theorem tr_tau_ctxDone {s s' : St} {h : List Obs} (t : Tr s h s') (hh : h = []) (hd : s'.ctxDone = true) :
    s.ctxDone = true := by
  induction t with
  | nil _ => exact hd
  | tau a ha hs _ ih =>
    rcases step_ctxDone _ _ a hs (ih hh hd) with h | h
    · exact h
    · exact absurd h (tau_not_send_deliver _ a ha).2.2
  | obs o _ _ _ => cases hh

theorem tr_ctxDone {s s' : St} {h : List Obs} (t : Tr s h s') (hd : s'.ctxDone = true) :
    s.ctxDone = true ∨ Obs.cancel ∈ h := by
  induction t with
  | nil _ => exact Or.inl hd
  | tau a ha hs _ ih =>
    rcases ih hd with h | h
    · rcases step_ctxDone _ _ a hs h with h' | h'
      · exact Or.inl h'
      · exact absurd h' (tau_not_send_deliver _ a ha).2.2
    · exact Or.inr h
  | obs o ho _ ih =>
    rcases ih hd with h | h
    · rcases obsStep_cases _ _ _ ho with ⟨a, ha⟩ | he
      · cases o with
        | cancel => exact Or.inr List.mem_cons_self
        | addCall i =>
          rcases step_ctxDone _ _ (.addCall i) ho h with h' | h'
          · exact Or.inl h'
          · cases h'
        | send i e =>
          rcases step_ctxDone _ _ (.send i e) ho h with h' | h'
          · exact Or.inl h'
          · cases h'
        | closeIn i =>
          rcases step_ctxDone _ _ (.closeIn i) ho h with h' | h'
          · exact Or.inl h'
          · cases h'
        | out i e =>
          simp only [obsStep] at ho
          split at ho
          · split at ho
            · rcases step_ctxDone _ _ (.deliver i) ho h with h' | h'
              · exact Or.inl h'
              · cases h'
            · cases ho
          · cases ho
        | addOk i =>
          simp only [obsStep] at ho
          split at ho
          · split at ho
            · simp only [Option.some.injEq] at ho; subst ho; exact Or.inl h
            · cases ho
          · cases ho
        | addRej i =>
          simp only [obsStep] at ho
          split at ho
          · simp only [Option.some.injEq] at ho; subst ho; exact Or.inl h
          · cases ho
        | outClosed =>
          simp only [obsStep] at ho
          split at ho
          · simp only [Option.some.injEq] at ho; subst ho; exact Or.inl h
          · cases ho
      · subst he; exact Or.inl h
    · exact Or.inr (List.mem_cons_of_mem _ h)

theorem tr_split {s s'' : St} {h : List Obs} (t : Tr s h s'') (h1 h2 : List Obs) (hh : h = h1 ++ h2) :
    ∃ s', Tr s h1 s' ∧ Tr s' h2 s'' := by
  induction t generalizing h1 with
  | nil s0 =>
    have : h1 = [] ∧ h2 = [] := by simpa using hh.symm
    rw [this.1, this.2]; exact ⟨s0, Tr.nil _, Tr.nil _⟩
  | tau a ha hs _ ih =>
    obtain ⟨s', t1, t2⟩ := ih h1 hh
    exact ⟨s', Tr.tau a ha hs t1, t2⟩
  | @obs s0 s1 s2 h' o ho t' ih =>
    cases h1 with
    | nil =>
      simp only [List.nil_append] at hh
      exact ⟨s0, Tr.nil _, by rw [← hh]; exact Tr.obs o ho t'⟩
    | cons x xs =>
      simp only [List.cons_append, List.cons.injEq] at hh
      obtain ⟨s', t1, t2⟩ := ih xs hh.2
      exact ⟨s', by rw [← hh.1]; exact Tr.obs o ho t1, t2⟩

/-- a trace starting with an observation: some τ steps, then the observation -/
theorem tr_head {s s'' : St} {l : List Obs} (t : Tr s l s'') (o : Obs) (h : List Obs) (hl : l = o :: h) :
    ∃ s1 s2, Tr s [] s1 ∧ obsStep s1 o = some s2 ∧ Tr s2 h s'' := by
  induction t with
  | nil _ => cases hl
  | tau a ha hs _ ih =>
    obtain ⟨s1, s2, t1, ho, t2⟩ := ih hl
    exact ⟨s1, s2, Tr.tau a ha hs t1, ho, t2⟩
  | @obs s0 s1 s2 h' o' ho t' _ =>
    simp only [List.cons.injEq] at hl
    obtain ⟨e1, e2⟩ := hl
    subst e1; subst e2
    exact ⟨s0, s1, Tr.nil _, ho, t'⟩

end CliUtils.Funnel
