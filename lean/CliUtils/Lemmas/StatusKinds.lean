import CliUtils.Lemmas.StatusGeneric
/-
  Per-kind lemmas for C08: the status a kind rule returns, against the rollout predicates of `Spec.Status`.
-/
set_option linter.unusedSimpArgs false

namespace CliUtils.KStatus
open CliUtils CliUtils.J CliUtils.Spec.KStatus

theorem convConds_of_noGeneric (o : J) (h : noGenericSignal o = true) : ∃ cs, convConds o = some cs := by
  unfold noGenericSignal at h
  cases hc : convConds o with
  | none => simp [hc] at h
  | some cs => exact ⟨cs, rfl⟩

theorem deploymentLoop_inl (cs : List BC) (p a : Bool) (c : BC) (h : deploymentLoop cs p a = .inl c) :
    cs.any isPDE = true := by
  induction cs generalizing p a with
  | nil => simp [deploymentLoop] at h
  | cons b bs ih =>
    unfold deploymentLoop at h
    simp only [List.any_cons, Bool.or_eq_true]
    by_cases ht : b.type = "Progressing"
    · by_cases hr : b.reason = "ProgressDeadlineExceeded"
      · left; simp [isPDE, ht, hr]
      · right
        simp only [ht, hr, if_true, if_false] at h
        split at h <;> exact ih _ _ h
    · right
      simp only [ht, if_false] at h
      repeat' split at h
      all_goals exact ih _ _ h

/-- is an Available=True condition -/
def isAvail (c : BC) : Bool := c.type = "Available" ∧ c.status = "True"

theorem hasCond_avail (cs : List BC) : hasCond cs "Available" "True" = cs.any isAvail := rfl

theorem deploymentLoop_inr (cs : List BC) (p a p' a' : Bool) (h : deploymentLoop cs p a = .inr (p', a')) :
    cs.any isPDE = false ∧ p' = (p || cs.any isNRSA) ∧ a' = (a || cs.any isAvail) := by
  induction cs generalizing p a with
  | nil => simp only [deploymentLoop, Sum.inr.injEq, Prod.mk.injEq] at h; simp [h.1, h.2]
  | cons b bs ih =>
    unfold deploymentLoop at h
    simp only [List.any_cons]
    by_cases ht : b.type = "Progressing"
    · have e3 : isAvail b = false := by simp [isAvail, ht]
      by_cases hr : b.reason = "ProgressDeadlineExceeded"
      · simp [ht, hr] at h
      · have e1 : isPDE b = false := by simp [isPDE, hr]
        by_cases hn : b.status = "True" ∧ b.reason = "NewReplicaSetAvailable"
        · have e2 : isNRSA b = true := by simp [isNRSA, ht, hn]
          simp only [ht, hr, hn, if_true, if_false, and_self] at h
          obtain ⟨h1, h2, h3⟩ := ih _ _ h
          rw [e1, e2, e3, h1, h2, h3]; simp
        · have e2 : isNRSA b = false := by simp only [isNRSA, decide_eq_false_iff_not]; exact fun x => hn x.2
          simp only [ht, hr, hn, if_true, if_false] at h
          obtain ⟨h1, h2, h3⟩ := ih _ _ h
          rw [e1, e2, e3, h1, h2, h3]; simp
    · have e1 : isPDE b = false := by simp [isPDE, ht]
      have e2 : isNRSA b = false := by simp [isNRSA, ht]
      by_cases ha : b.type = "Available"
      · by_cases hs : b.status = "True"
        · have e3 : isAvail b = true := by simp [isAvail, ha, hs]
          simp only [ht, ha, hs, if_true, if_false] at h
          obtain ⟨h1, h2, h3⟩ := ih _ _ h
          rw [e1, e2, e3, h1, h2, h3]; simp
        · have e3 : isAvail b = false := by simp [isAvail, hs]
          simp only [ht, ha, hs, if_true, if_false] at h
          obtain ⟨h1, h2, h3⟩ := ih _ _ h
          rw [e1, e2, e3, h1, h2, h3]; simp
      · have e3 : isAvail b = false := by simp [isAvail, ha]
        simp only [ht, ha, if_false] at h
        obtain ⟨h1, h2, h3⟩ := ih _ _ h
        rw [e1, e2, e3, h1, h2, h3]; simp


/-- normalise Bool-valued predicate expressions and result constructors into propositions -/
macro "norm_all" : tactic =>
  `(tactic| simp only [inProgressR, failedR, currentR, reduceCtorEq, false_iff, true_iff, iff_false, iff_true, Bool.not_false,
      Bool.not_true, Bool.true_and, Bool.and_true, Bool.false_and, Bool.and_false, Bool.and_eq_true, Bool.or_eq_true,
      decide_eq_true_eq, Bool.not_eq_true', Bool.or_eq_false_iff, beq_iff_eq, bne_iff_ne, ne_eq, Bool.false_eq_true,
      not_false_eq_true, not_true_eq_false, and_true, true_and, and_false, false_and, or_false, false_or, or_true, true_or,
      ite_true, ite_false, if_true, if_false, decide_eq_false_iff_not, Bool.false_or, Bool.or_false, Bool.true_or, Bool.or_true,
      Bool.not_eq_eq_eq_not, Bool.not_not, fInt, fStr, Decidable.not_not, gt_iff_lt, Int.not_lt, Int.not_le] at *)

/-- close one conjunct of an iff-goal about an if-chain leaf -/
macro "leaf" : tactic =>
  `(tactic| first
      | trivial
      | omega
      | (intro hx; omega)
      | (intro hx; simp_all; done)
      | (simp_all; done)
      | (simp_all; omega)
      | (split <;> simp_all <;> omega)
      | (intro hx; split at hx <;> simp_all <;> omega))

theorem deployment_iff (o : J) (r : Result) (hn : noGenericSignal o = true) (h : deploymentConditions o = .ok r) :
    (r.status = .current ↔ deploymentRolledOut o = true) ∧ (r.status = .failed ↔ deploymentFailed o = true) := by
  obtain ⟨cs, hcs⟩ := convConds_of_noGeneric o hn
  have hco : condsOf o = cs := by simp [condsOf, hcs]
  unfold deploymentConditions at h
  simp only [conv_of_convConds o cs hcs] at h
  unfold deploymentRolledOut deploymentFailed
  simp only [hco, fInt, hasCond_avail]
  split at h
  · rename_i c hlc
    have := deploymentLoop_inl _ _ _ _ hlc
    injection h with h; subst h
    simp [this]
  · rename_i p' a' hlc
    obtain ⟨h1, h2, h3⟩ := deploymentLoop_inr _ _ _ _ _ hlc
    simp only [Bool.false_or] at h3
    subst h2; subst h3
    simp only [h1]
    repeat' split at h
    all_goals (injection h with h; subst h)
    all_goals simp only [inProgressR, currentR, reduceCtorEq, false_iff, true_iff, iff_false, Bool.not_false, Bool.true_and,
      Bool.and_eq_true, Bool.or_eq_true, decide_eq_true_eq, Bool.not_eq_true', Bool.or_eq_false_iff] at *
    all_goals (constructor <;> first
      | trivial
      | omega
      | (intro hx; omega)
      | (intro hx; simp_all; done)
      | (simp_all; done)
      | (simp_all; omega)
      | (refine ⟨⟨⟨⟨⟨?_, ?_⟩, ?_⟩, ?_⟩, ?_⟩, ?_⟩ <;> first
          | omega
          | (simp_all; done)
          | (by_cases hd : o.getIntField ["spec", "progressDeadlineSeconds"] maxInt32 = maxInt32 <;> simp_all))
      | trace_state)

theorem sts_iff (o : J) (r : Result) (h : stsConditions o = .ok r) :
    (r.status = .current ↔ stsRolledOut o = true) ∧ (r.status = .failed ↔ False) := by
  unfold stsConditions at h
  unfold stsRolledOut
  simp only [] at h
  repeat' split at h
  all_goals (injection h with h; subst h)
  all_goals norm_all
  all_goals (first | leaf | (constructor <;> leaf) | trace_state)

theorem ds_iff (o : J) (r : Result) (h : daemonsetConditions o = .ok r) :
    (r.status = .current ↔ dsRolledOut o = true) ∧ (r.status = .failed ↔ False) := by
  unfold daemonsetConditions checkGenerationSet at h
  unfold dsRolledOut
  cases hg : nestedInt64 o ["metadata", "generation"] <;> simp only [hg] at h
  · injection h with h; subst h; simp [inProgressR, isFound]
  · cases h
  · cases hog : nestedInt64 o ["status", "observedGeneration"] <;> simp only [hog] at h
    · injection h with h; subst h; simp [inProgressR, isFound]
    · cases h
    · simp only [isFound, Bool.true_and]
      repeat' split at h
      all_goals (injection h with h; subst h)
      all_goals norm_all
      all_goals (first | leaf | (constructor <;> leaf) | trace_state)

theorem rs_iff (o : J) (r : Result) (hn : noGenericSignal o = true) (h : replicasetConditions o = .ok r) :
    (r.status = .current ↔ rsRolledOut o = true) ∧ (r.status = .failed ↔ False) := by
  obtain ⟨cs, hcs⟩ := convConds_of_noGeneric o hn
  have hco : condsOf o = cs := by simp [condsOf, hcs]
  unfold replicasetConditions at h
  simp only [conv_of_convConds o cs hcs] at h
  unfold rsRolledOut
  simp only [hco, hasCond]
  generalize (cs.any fun c => decide (c.type = "ReplicaFailure" ∧ c.status = "True")) = X at h ⊢
  repeat' split at h
  all_goals (injection h with h; subst h)
  all_goals norm_all
  all_goals (first | leaf | (constructor <;> leaf) | trace_state)

theorem pvc_iff (o : J) (r : Result) (h : pvcConditions o = .ok r) :
    (r.status = .current ↔ pvcRolledOut o = true) ∧ (r.status = .failed ↔ False) := by
  unfold pvcConditions at h
  unfold pvcRolledOut
  repeat' split at h
  all_goals (injection h with h; subst h)
  all_goals norm_all
  all_goals (first | leaf | (constructor <;> leaf) | trace_state)

theorem service_iff (o : J) (r : Result) (h : serviceConditions o = .ok r) :
    (r.status = .current ↔ serviceRolledOut o = true) ∧ (r.status = .failed ↔ False) := by
  unfold serviceConditions at h
  unfold serviceRolledOut
  repeat' split at h
  all_goals (injection h with h; subst h)
  all_goals norm_all
  all_goals (first | leaf | (constructor <;> leaf) | trace_state)

theorem jobLoop_eq (cs : List BC) :
    jobLoop cs = (cs.find? isJobDecisive).map (fun c => if c.type = "Complete" then currentR else failedR "JobFailed") := by
  induction cs with
  | nil => simp [jobLoop]
  | cons c cs ih =>
    unfold jobLoop
    simp only [List.find?_cons]
    by_cases h1 : c.type = "Complete"
    · by_cases h2 : c.status = "True"
      · simp [h1, h2, isJobDecisive]
      · simp [h1, h2, isJobDecisive, ih]
    · by_cases h3 : c.type = "Failed"
      · by_cases h2 : c.status = "True"
        · simp [h3, h2, isJobDecisive]
        · simp [h3, h2, isJobDecisive, ih]
      · simp [h1, h3, isJobDecisive, ih]

theorem job_iff (o : J) (r : Result) (hn : noGenericSignal o = true) (h : jobConditions o = .ok r) :
    (r.status = .current ↔ jobRolledOut o = true ∧ jobFailed o = false) ∧ (r.status = .failed ↔ jobFailed o = true) := by
  obtain ⟨cs, hcs⟩ := convConds_of_noGeneric o hn
  have hco : condsOf o = cs := by simp [condsOf, hcs]
  unfold jobConditions at h
  simp only [conv_of_convConds o cs hcs, jobLoop_eq] at h
  unfold jobRolledOut jobFailed jobDecisive
  simp only [hco]
  cases hf : cs.find? isJobDecisive with
  | some c =>
    simp only [hf, Option.map_some] at h
    have hd : isJobDecisive c = true := List.find?_some hf
    simp only [isJobDecisive, decide_eq_true_eq] at hd
    injection h with h; subst h
    by_cases hc : c.type = "Complete"
    · simp [hc, currentR]
    · have hfl : c.type = "Failed" := by rcases hd.1 with h' | h'; exact absurd h' hc; exact h'
      simp [hfl, failedR]
  | none =>
    simp only [hf, Option.map_none] at h
    split at h
    all_goals (injection h with h; subst h)
    all_goals norm_all
    all_goals (first | leaf | (constructor <;> leaf) | trace_state)

theorem crdLoop_eq (cs : List BC) :
    crdLoop cs = match cs.find? isCrdDecisive with
      | some c => if c.status = "True" then currentR else failedR c.reason
      | none => inProgressR "Installing" := by
  induction cs with
  | nil => simp [crdLoop]
  | cons c cs ih =>
    unfold crdLoop
    simp only [List.find?_cons]
    by_cases h1 : c.type = "NamesAccepted" ∧ c.status = "False"
    · have : c.status ≠ "True" := by rw [h1.2]; decide
      simp [h1, isCrdDecisive, this]
    · by_cases h2 : c.type = "Established"
      · by_cases h3 : c.status = "False" ∧ c.reason ≠ "Installing"
        · have : c.status ≠ "True" := by rw [h3.1]; decide
          simp [h1, h2, h3, isCrdDecisive, this]
        · by_cases h4 : c.status = "True"
          · simp [h1, h2, h4, isCrdDecisive]
          · have hnd : isCrdDecisive c = false := by
              simp only [isCrdDecisive, decide_eq_false_iff_not]
              rintro (hx | ⟨_, hx | hx⟩)
              · exact h1 hx
              · exact h4 hx
              · exact h3 hx
            simp only [h1, h2, h3, h4, if_true, if_false, hnd]
            exact ih
      · have hnd : isCrdDecisive c = false := by
          simp only [isCrdDecisive, decide_eq_false_iff_not]
          rintro (hx | ⟨hx, _⟩)
          · exact h1 hx
          · exact h2 hx
        simp only [h1, h2, if_false, hnd]
        exact ih

theorem crd_iff (o : J) (r : Result) (hn : noGenericSignal o = true) (h : crdConditions o = .ok r) :
    (r.status = .current ↔ crdRolledOut o = true) ∧ (r.status = .failed ↔ crdFailed o = true) := by
  obtain ⟨cs, hcs⟩ := convConds_of_noGeneric o hn
  have hco : condsOf o = cs := by simp [condsOf, hcs]
  unfold crdConditions at h
  simp only [conv_of_convConds o cs hcs, crdLoop_eq] at h
  unfold crdRolledOut crdFailed crdDecisive
  simp only [hco]
  cases hf : cs.find? isCrdDecisive with
  | some c =>
    simp only [hf] at h
    have hd : isCrdDecisive c = true := List.find?_some hf
    simp only [isCrdDecisive, decide_eq_true_eq] at hd
    injection h with h; subst h
    by_cases hc : c.status = "True"
    · simp [hc, currentR]
    · have hfl : c.status = "False" := by
        rcases hd with h' | ⟨_, h' | h'⟩
        · exact h'.2
        · exact absurd h' hc
        · exact h'.1
      simp [hfl, failedR]
  | none =>
    simp only [hf] at h
    injection h with h; subst h
    simp [inProgressR]

theorem crashLoopingEntry_eq (e : J) : crashLoopingEntry e = entryCrashLoops e := by
  cases e with
  | obj cs =>
    simp only [crashLoopingEntry, entryCrashLoops, nestedString, nestedField]
    cases hn : lookup "name" cs with
    | none => simp
    | some n =>
      cases hs : lookup "state" cs with
      | none => cases n <;> simp
      | some st =>
        cases st with
        | obj stm =>
          simp only [nestedField]
          cases hw : lookup "waiting" stm with
          | none => cases n <;> simp [hw]
          | some wv =>
            cases wv with
            | obj wm =>
              simp only [nestedField]
              cases hr : lookup "reason" wm with
              | none => cases n <;> simp [hw, hr]
              | some rv => cases rv <;> cases n <;> simp [hw, hr]
            | _ => cases n <;> simp [nestedField, hw]
        | _ => cases n <;> simp [nestedField]
  | _ => simp [crashLoopingEntry, entryCrashLoops, nestedString, nestedField]

theorem crashLooping_ok (o : J) (b : Bool) (h : crashLooping o = .ok b) : podCrashLooping o = b := by
  unfold crashLooping at h
  unfold podCrashLooping
  split at h
  · cases h
  · rename_i hs; injection h with h; subst h; simp [hs]
  · rename_i items hs
    injection h with h; subst h
    simp only [hs]
    congr 1
    funext e
    exact (crashLoopingEntry_eq e).symm

theorem find?_isSome_eq_any {α : Type} (p : α → Bool) (l : List α) : (l.find? p).isSome = l.any p := by
  induction l with
  | nil => rfl
  | cons x xs ih =>
    simp only [List.find?_cons, List.any_cons]
    cases p x <;> simp [ih]

theorem pod_iff (w : Bool) (o : J) (r : Result) (hn : noGenericSignal o = true) (h : podConditions w o = .ok r) :
    (r.status = .current ↔ podRolledOut o = true) ∧ (r.status = .failed ↔ podFailed w o = true) := by
  obtain ⟨cs, hcs⟩ := convConds_of_noGeneric o hn
  have hco : condsOf o = cs := by simp [condsOf, hcs]
  unfold podConditions at h
  simp only [conv_of_convConds o cs hcs, getConditionWithStatus, find?_isSome_eq_any] at h
  unfold podRolledOut podFailed
  simp only [hco, hasCond, fStr]
  generalize hph : getStringField o ["status", "phase"] "" = phase at h ⊢
  generalize hrd : (cs.any fun c => decide (c.type = "Ready" ∧ c.status = "True")) = ready at h ⊢
  by_cases h1 : phase = "Succeeded"
  · subst h1; simp only [if_true] at h; injection h with h; subst h; simp [currentR]
  by_cases h2 : phase = "Failed"
  · subst h2; simp only [String.reduceEq, if_true, if_false] at h; injection h with h; subst h; simp [currentR]
  by_cases h3 : phase = "Running"
  · subst h3
    simp only [String.reduceEq, if_true, if_false] at h
    cases ready with
    | true => simp only [if_true] at h; injection h with h; subst h; simp [currentR]
    | false =>
      simp only [Bool.false_eq_true, if_false] at h
      cases hc : crashLooping o with
      | error e => simp [hc] at h
      | ok b =>
        have hb := crashLooping_ok o b hc
        cases b <;> simp only [hc] at h <;> (injection h with h; subst h) <;> simp [hb, inProgressR, failedR]
  by_cases h4 : phase = "Pending"
  · subst h4
    simp only [String.reduceEq, if_true, if_false] at h
    cases hf : cs.find? (fun c => decide (c.type = "PodScheduled" ∧ c.status = "False")) with
    | none => simp only [hf] at h; injection h with h; subst h; simp [inProgressR]
    | some c =>
      simp only [hf] at h
      by_cases hu : c.reason = "Unschedulable"
      · cases w <;> simp only [hu, if_true, Bool.false_eq_true, if_false] at h <;> (injection h with h; subst h) <;>
          simp [hu, inProgressR, failedR]
      · simp only [hu, if_false] at h; injection h with h; subst h; simp [hu, inProgressR]
  by_cases h5 : phase = ""
  · subst h5
    simp only [String.reduceEq, if_true, if_false] at h
    injection h with h; subst h; simp [inProgressR]
  · simp only [h1, h2, h3, h4, h5, if_false] at h
    cases h

/-- every kind rule against the C08 predicates: Current iff rolled out (and no failure evidence), Failed iff failure evidence -/
theorem kind_iff (k : Kind) (w : Bool) (o : J) (r : Result) (hn : noGenericSignal o = true) (h : kindFn k w o = .ok r) :
    (r.status = .current ↔ rolledOut k o = true ∧ failureEvidence k w o = false) ∧
    (r.status = .failed ↔ failureEvidence k w o = true) := by
  cases k <;> simp only [kindFn] at h <;> simp only [rolledOut, failureEvidence]
  · have := service_iff o r h; simpa using this
  · have := pod_iff w o r hn h
    refine ⟨?_, this.2⟩
    constructor
    · intro hc
      refine ⟨this.1.1 hc, ?_⟩
      cases hf : podFailed w o with
      | false => rfl
      | true => have := this.2.2 hf; rw [hc] at this; cases this
    · intro hc; exact this.1.2 hc.1
  · simp only [alwaysReady] at h; injection h with h; subst h; simp [currentR]
  · have := pvc_iff o r h; simpa using this
  · have := sts_iff o r h; simpa using this
  · have := ds_iff o r h; simpa using this
  · have := deployment_iff o r hn h
    refine ⟨?_, this.2⟩
    constructor
    · intro hc
      refine ⟨this.1.1 hc, ?_⟩
      cases hf : deploymentFailed o with
      | false => rfl
      | true => have := this.2.2 hf; rw [hc] at this; cases this
    · intro hc; exact this.1.2 hc.1
  · have := rs_iff o r hn h; simpa using this
  · simp only [pdbConditions] at h; injection h with h; subst h; simp [currentR]
  · exact job_iff o r hn h
  · have := crd_iff o r hn h
    refine ⟨?_, this.2⟩
    constructor
    · intro hc
      refine ⟨this.1.1 hc, ?_⟩
      cases hf : crdFailed o with
      | false => rfl
      | true => have := this.2.2 hf; rw [hc] at this; cases this
    · intro hc; exact this.1.2 hc.1

/-- a lagging replica count rules the rollout predicate out -/
theorem lagging_not_rolledOut (k : Kind) (o : J) (h : lagging k o = true) : rolledOut k o = false := by
  cases k <;> simp only [lagging] at h <;> simp only [rolledOut]
  all_goals first
    | (cases h; done)
    | skip
  · -- sts
    cases hro : stsRolledOut o with
    | false => rfl
    | true =>
      exfalso
      unfold stsLagging at h
      unfold stsRolledOut at hro
      norm_all
      rcases hro with hro | hro
      · exact h.1 hro
      · omega
  · -- ds
    cases hro : dsRolledOut o with
    | false => rfl
    | true =>
      exfalso
      unfold dsLagging at h
      unfold dsRolledOut at hro
      norm_all
      omega
  · -- deployment
    cases hro : deploymentRolledOut o with
    | false => rfl
    | true =>
      exfalso
      unfold deploymentLagging at h
      unfold deploymentRolledOut at hro
      norm_all
      omega
  · -- rs
    cases hro : rsRolledOut o with
    | false => rfl
    | true =>
      exfalso
      unfold rsLagging at h
      unfold rsRolledOut at hro
      norm_all
      omega

/-! ### kubectl rollout status -/

theorem getIntField_of_found (o : J) (p : List String) (g d : Int) (h : nestedInt64 o p = .found g) : getIntField o p d = g := by
  unfold nestedInt64 at h
  unfold getIntField
  split at h
  · cases h
  · cases h
  · rename_i n hn; injection h with h; subst h; simp [hn]
  · cases h

theorem getIntField_default_irrelevant (o : J) (p : List String) (d d' : Int)
    (h : isFound (nestedInt64 o p) = true) : getIntField o p d = getIntField o p d' := by
  cases hn : nestedInt64 o p with
  | found g => rw [getIntField_of_found o p g d hn, getIntField_of_found o p g d' hn]
  | notFound => simp [hn, isFound] at h
  | err => simp [hn, isFound] at h

theorem getIntField_ne_default (o : J) (p : List String) (d d' : Int) (h : getIntField o p d ≠ d) :
    getIntField o p d' = getIntField o p d := by
  unfold getIntField at h ⊢
  split at h
  · rename_i n hn; simp [hn]
  · exact absurd rfl h

/-- extending a path by one field -/
theorem nestedField_snoc (o : J) (p : List String) (f : String) :
    nestedField o (p ++ [f]) =
      match nestedField o p with
      | .notFound => .notFound
      | .err => .err
      | .found .null => .notFound
      | .found (.obj m) => (match lookup f m with | none => .notFound | some v => .found v)
      | .found _ => .err := by
  induction p generalizing o with
  | nil =>
    cases o <;> simp [nestedField]
    rename_i m
    cases lookup f m <;> simp [nestedField]
  | cons g gs ih =>
    cases o with
    | obj m =>
      simp only [List.cons_append, nestedField]
      cases hl : lookup g m with
      | none => rfl
      | some v => simp only [ih v]
    | null => simp [nestedField]
    | bool _ => simp [nestedField]
    | num _ => simp [nestedField]
    | float _ => simp [nestedField]
    | str _ => simp [nestedField]
    | arr _ => simp [nestedField]

theorem generations_equal (o : J) (g og : Int) (hn : noGenericSignal o = true)
    (hg : nestedInt64 o ["metadata", "generation"] = .found g)
    (hog : nestedInt64 o ["status", "observedGeneration"] = .found og) : g = og := by
  unfold noGenericSignal at hn
  simp only [Bool.and_eq_true] at hn
  have := hn.1.2
  unfold generationClean at this
  simpa [hg, hog] using this


theorem computeK_of_noGeneric (key : String) (k : Kind) (w : Bool) (o : J) (hn : noGenericSignal o = true)
    (hk : legacy key = some k) : computeK key w o = kindFn k w o := by
  simp [computeK, (checkGeneric_none_iff o).2 hn, hk]

theorem getIntField_under_absent (o : J) (p : List String) (f : String) (d : Int) (h : present o p = false) :
    getIntField o (p ++ [f]) d = d := by
  unfold getIntField
  rw [nestedField_snoc]
  unfold present at h
  cases hp : nestedField o p with
  | notFound => rfl
  | err => rfl
  | found v =>
    cases v <;> simp [hp] at h ⊢


theorem intIfPresent_elim (o : J) (p : List String) (h : intIfPresent o p = true) (hp : present o p = true) :
    isFound (nestedInt64 o p) = true := by
  unfold intIfPresent at h
  simpa [hp] using h

end CliUtils.KStatus
