import CliUtils.Model.Sys
import CliUtils.Spec.SysSpec
import CliUtils.Lemmas.SysL
import CliUtils.Lemmas.WaitL
import CliUtils.Lemmas.GraphL
import CliUtils.Props.C06
import CliUtils.Props.C10
import CliUtils.Props.C13
import CliUtils.Props.C14
/-
  Helper lemmas for `Props.C13.run_stream_well_formed`: the event stream of every model run is accepted by the
  C13 grammar automaton (`Spec.step` / `Spec.run`).

  Structure:
    * `Steps plan ph ph' s s'`: the events `s'` has more than `s` drive the automaton from `ph` to `ph'`;
    * run-configuration constancy (`*_run`) of every step function;
    * one block per task kind (`applyFold_steps`, `pruneFold_steps`, `runWait_steps`, inventory tasks);
    * the plan produced by `buildPlan` satisfies `TaskOK` (layers without repeats, every id has its object);
    * `runTasks_steps`, and the assembly for `runOne` (`wellFormed_of_steps`).
-/
namespace CliUtils.GrammarL
open CliUtils CliUtils.Sys CliUtils.Spec

abbrev Ph := Spec.Phase Id
abbrev Pl := List (ActionGroup Id)

/-! ### the automaton over appended streams -/

theorem run_append (plan : Pl) (ph : Ph) (a b : List (Event Id)) :
    Spec.run plan ph (a ++ b) = (Spec.run plan ph a).bind (fun ph' => Spec.run plan ph' b) := by
  induction a generalizing ph with
  | nil => simp [Spec.run]
  | cons e es ih =>
    simp only [List.cons_append, Spec.run]
    cases Spec.step plan ph e with
    | none => simp
    | some ph' => simpa using ih ph'

/-- a stream of events none of which moves the automaton -/
theorem run_stay (plan : Pl) (ph : Ph) (c : List (Event Id)) (h : ∀ e ∈ c, Spec.step plan ph e = some ph) :
    Spec.run plan ph c = some ph := by
  induction c with
  | nil => rfl
  | cons e es ih =>
    simp only [Spec.run, h e (by simp)]
    exact ih (fun e' he' => h e' (by simp [he']))

/-- the events `s'` has more than `s` (newest first: `l`) drive the automaton from `ph` to `ph'` -/
def Steps (plan : Pl) (ph ph' : Ph) (s s' : St) : Prop :=
  ∃ l, s'.events = l ++ s.events ∧ Spec.run plan ph ((l.reverse).map toEvent) = some ph'

theorem Steps.refl (plan : Pl) (ph : Ph) (s : St) : Steps plan ph ph s s := ⟨[], by simp, rfl⟩

theorem Steps.of_eq (plan : Pl) (ph : Ph) (s s' : St) (h : s'.events = s.events) : Steps plan ph ph s s' :=
  ⟨[], by simp [h], rfl⟩

theorem Steps.trans {plan : Pl} {p1 p2 p3 : Ph} {a b c : St} (h1 : Steps plan p1 p2 a b) (h2 : Steps plan p2 p3 b c) :
    Steps plan p1 p3 a c := by
  obtain ⟨l1, e1, r1⟩ := h1
  obtain ⟨l2, e2, r2⟩ := h2
  refine ⟨l2 ++ l1, by rw [e2, e1, List.append_assoc], ?_⟩
  rw [List.reverse_append, List.map_append, run_append, r1]
  exact r2

theorem Steps.one {plan : Pl} {ph ph' : Ph} {s s' : St} (e : Ev) (he : s'.events = e :: s.events)
    (hs : Spec.step plan ph (toEvent e) = some ph') : Steps plan ph ph' s s' :=
  ⟨[e], by simp [he], by simp [Spec.run, hs]⟩

/-! ### generic "only these events were appended" relation (with the run configuration unchanged) -/

def Only (P : Ev → Prop) (s s' : St) : Prop := s'.run = s.run ∧ ∃ l, s'.events = l ++ s.events ∧ ∀ e ∈ l, P e

theorem Only.refl (P : Ev → Prop) (s : St) : Only P s s := ⟨rfl, [], rfl, by simp⟩

theorem Only.trans {P : Ev → Prop} {a b c : St} (h1 : Only P a b) (h2 : Only P b c) : Only P a c := by
  obtain ⟨r1, l1, e1, p1⟩ := h1
  obtain ⟨r2, l2, e2, p2⟩ := h2
  refine ⟨r2.trans r1, l2 ++ l1, by rw [e2, e1, List.append_assoc], ?_⟩
  intro e he
  rcases List.mem_append.mp he with h | h
  · exact p2 e h
  · exact p1 e h

theorem Only.of_eq (P : Ev → Prop) (s s' : St) (hr : s'.run = s.run) (h : s'.events = s.events) : Only P s s' :=
  ⟨hr, [], by simp [h], by simp⟩

theorem Only.one (P : Ev → Prop) (s s' : St) (e : Ev) (hr : s'.run = s.run) (h : s'.events = e :: s.events) (he : P e) :
    Only P s s' :=
  ⟨hr, [e], by simp [h], by intro x hx; simp at hx; subst hx; exact he⟩

theorem Only.fold {β : Type} {P : Ev → Prop} (f : St → β → St) (hf : ∀ s b, Only P s (f s b)) (l : List β) (s : St) :
    Only P s (l.foldl f s) := by
  induction l generalizing s with
  | nil => exact Only.refl P s
  | cons b bs ih => exact Only.trans (hf s b) (ih (f s b))

/-- folding `emit` over a list: the events in order, the rest of the state untouched -/
theorem foldl_emit {β : Type} (f : β → Ev) (l : List β) (s : St) :
    (l.foldl (fun s x => s.emit (f x)) s).events = (l.map f).reverse ++ s.events ∧
    (l.foldl (fun s x => s.emit (f x)) s).run = s.run := by
  induction l generalizing s with
  | nil => simp
  | cons x xs ih =>
    simp only [List.foldl_cons, List.map_cons, List.reverse_cons, List.append_assoc]
    rw [(ih _).1, (ih _).2]
    simp

/-! ### the run configuration is constant -/

theorem mutReq_run (s : St) (verb : String) (id : Id) (dry : Bool) (pre prop : String) (eff : Cluster → Cluster × String) :
    (s.mutReq verb id dry pre prop eff).1.run = s.run := by
  have h := mutReq_spec s verb id dry pre prop eff
  simp only [] at h
  exact h.2.2.2.2.2.1

open CliUtils.Props.C13 CliUtils.Props.C10 in
theorem applyOne_run (group : String) (s : St) (id : Id) : (applyOne group s id).run = s.run := by
  unfold applyOne
  cases hm : manifestOf s id with
  | none => rfl
  | some m =>
    simp only []
    cases hd : applyDecision s m with
    | fail r => rfl
    | skip r => rfl
    | go frm =>
      simp only [kubectlApply]
      split
      · unfold ssaApply
        simp only []
        split
        · simp [mutReq_run]
        · split
          · split
            · simp [mutReq_run]
            · split <;> simp [mutReq_run]
          · simp [mutReq_run]
      · unfold csaApply
        simp only []
        cases hg : s.get m.id with
        | none => rfl
        | some o =>
          cases o with
          | none =>
            simp only []
            split
            · rfl
            · split
              · simp [mutReq_run]
              · split <;> simp [mutReq_run]
          | some old =>
            simp only []
            split
            · rfl
            · split
              · simp [mutReq_run]
              · simp [mutReq_run]

theorem pruneOne_run (group : String) (uids localNs : List String) (s : St) (live : Live) :
    (pruneOne group uids localNs s live).run = s.run := by
  cases hd : pruneDecision uids localNs s live <;> simp only [pruneOne, hd]
  · rfl
  · rfl
  · rfl
  · split <;> simp [mutReq_run]
  · rfl
  · rfl
  · simp only [pruneSkip_run]; split <;> rfl
  · rfl
  · split <;> simp [mutReq_run]

open CliUtils.Props.C10 in
theorem mergeInv_run (s : St) (ids : List Id) : (mergeInv s ids).1.run = s.run := by
  unfold mergeInv
  simp only []
  repeat' split
  all_goals simp [mutReq_run]

open CliUtils.Props.C10 in
theorem runInvAdd_run (s : St) (ids : List Id) : (runInvAdd s ids).1.run = s.run := by
  unfold runInvAdd
  split
  · simp only []
    split
    · simp [mutReq_run]
    · simp [mergeInv_run, mutReq_run]
  · exact mergeInv_run s ids

open CliUtils.Props.C10 in
theorem runInvSet_run (s : St) (prev : List Id) (pe : Bool) : (runInvSet s prev pe).1.run = s.run := by
  unfold runInvSet
  split
  · rfl
  · split
    · unfold deleteInv
      simp only []
      repeat' split
      all_goals simp [mutReq_run]
    · unfold replaceInv
      simp only []
      repeat' split
      all_goals simp [mutReq_run]

/-! ### translation of model events -/

/-- the planned group of an init-event entry (the anonymous function of `toEvent` / `planOf`) -/
def toGroup : String × String × List Id → ActionGroup Id :=
  fun (n, a, ids) => { name := n, action := toAction a, ids := ids }

/-- the planned group of a task -/
def grp (run : Run) (t : Task) : ActionGroup Id :=
  { name := t.name, action := toAction (t.action run.destroy), ids := t.ids }

theorem toEvent_init (G : List (String × String × List Id)) : toEvent (.init G) = .init (G.map toGroup) := rfl

theorem toEvent_started (n a : String) : toEvent (.group n a "Started") = .actionGroup n (toAction a) .started := by
  simp [toEvent]

theorem toEvent_finished (n a : String) : toEvent (.group n a "Finished") = .actionGroup n (toAction a) .finished := by
  simp [toEvent]

theorem toEvent_apply (g : String) (id : Id) (st r : String) :
    toEvent (.op "apply" g id st r) = .apply g id (toOpStatus st) (if r = "" then none else some r) := by
  simp [toEvent]

theorem toEvent_prune (g : String) (id : Id) (st r : String) :
    toEvent (.op "prune" g id st r) = .prune g id (toOpStatus st) (if r = "" then none else some r) := by
  simp [toEvent]

theorem toEvent_delete (g : String) (id : Id) (st r : String) :
    toEvent (.op "delete" g id st r) = .delete g id (toOpStatus st) (if r = "" then none else some r) := by
  simp [toEvent]

theorem toOpStatus_result (st : String) (hst : st = "Successful" ∨ st = "Skipped" ∨ st = "Failed") :
    (toOpStatus st != .pending) = true := by
  rcases hst with rfl | rfl | rfl <;> simp [toOpStatus]

/-! ### apply groups -/

theorem apply_step (plan : Pl) (g : ActionGroup Id) (seen : List Id) (rest : Pl) (name : String) (i : Id) (st r : String)
    (ha : g.action = .apply) (hn : g.name = name) (hi : i ∈ g.ids) (hs : i ∉ seen)
    (hst : st = "Successful" ∨ st = "Skipped" ∨ st = "Failed") :
    Spec.step plan (.inGroup g seen rest) (toEvent (.op "apply" name i st r)) = some (.inGroup g (i :: seen) rest) := by
  rw [toEvent_apply]
  have h : resultOk g seen .apply name i (toOpStatus st) = true := by
    simp [resultOk, ha, hn, hi, hs, toOpStatus_result st hst]
  simp [Spec.step, h]

theorem manifestOf_some (s : St) (i : Id) (h : ∃ m ∈ s.run.objs, m.id = i) : ∃ m, manifestOf s i = some m ∧ m.id = i := by
  cases hm : manifestOf s i with
  | none =>
    exfalso
    obtain ⟨m, hmem, hid⟩ := h
    unfold manifestOf at hm
    have := List.find?_eq_none.mp hm m hmem
    simp [hid] at this
  | some m => exact ⟨m, rfl, CliUtils.Props.C01.manifestOf_id s i m hm⟩

theorem applyFold_steps (plan : Pl) (g : ActionGroup Id) (rest : Pl) (name : String) (run : Run)
    (ha : g.action = .apply) (hn : g.name = name) :
    ∀ (ids : List Id) (seen : List Id) (s : St), s.run = run → ids.Nodup → (∀ i ∈ ids, i ∈ g.ids) → (∀ i ∈ ids, i ∉ seen) →
      (∀ i ∈ ids, ∃ m ∈ run.objs, m.id = i) →
      Steps plan (.inGroup g seen rest) (.inGroup g (ids.reverse ++ seen) rest) s (ids.foldl (applyOne name) s) ∧
      (ids.foldl (applyOne name) s).run = run := by
  intro ids
  induction ids with
  | nil => intro seen s hr _ _ _ _; exact ⟨Steps.refl _ _ _, hr⟩
  | cons i is ih =>
    intro seen s hr hnd hg hseen hobj
    rw [List.nodup_cons] at hnd
    obtain ⟨m, hm, hid⟩ := manifestOf_some s i (by rw [hr]; exact hobj i (by simp))
    obtain ⟨st, r, hev, hst⟩ := CliUtils.Props.C13.applyOne_one_event name s i m hm hid
    have h1 : Steps plan (.inGroup g seen rest) (.inGroup g (i :: seen) rest) s (applyOne name s i) :=
      Steps.one _ hev (apply_step plan g seen rest name i st r ha hn (hg i (by simp)) (hseen i (by simp)) hst)
    have h2 := ih (i :: seen) (applyOne name s i) ((applyOne_run name s i).trans hr) hnd.2
      (fun j hj => hg j (by simp [hj]))
      (by
        intro j hj hjs
        rcases List.mem_cons.mp hjs with e | e
        · subst e; exact hnd.1 hj
        · exact hseen j (by simp [hj]) e)
      (fun j hj => hobj j (by simp [hj]))
    simp only [List.foldl_cons, List.reverse_cons, List.append_assoc, List.singleton_append]
    exact ⟨Steps.trans h1 h2.1, h2.2⟩

/-! ### prune / delete groups -/

theorem prune_step (plan : Pl) (g : ActionGroup Id) (seen : List Id) (rest : Pl) (name : String) (i : Id) (st r : String)
    (s : St) (ha : g.action = toAction (if s.run.destroy then "Delete" else "Prune")) (hn : g.name = name) (hi : i ∈ g.ids)
    (hs : i ∉ seen) (hst : st = "Successful" ∨ st = "Skipped" ∨ st = "Failed") :
    Spec.step plan (.inGroup g seen rest) (toEvent (.op (opKind s) name i st r)) = some (.inGroup g (i :: seen) rest) := by
  unfold opKind
  cases hd : s.run.destroy with
  | true =>
    rw [hd] at ha
    simp only [if_true] at ha ⊢
    rw [toEvent_delete]
    have h : resultOk g seen .delete name i (toOpStatus st) = true := by
      simp [resultOk, ha, toAction, hn, hi, hs, toOpStatus_result st hst]
    simp [Spec.step, h]
  | false =>
    rw [hd] at ha
    simp only [Bool.false_eq_true, if_false] at ha ⊢
    rw [toEvent_prune]
    have h : resultOk g seen .prune name i (toOpStatus st) = true := by
      simp [resultOk, ha, toAction, hn, hi, hs, toOpStatus_result st hst]
    simp [Spec.step, h]

theorem pruneFold_steps (plan : Pl) (g : ActionGroup Id) (rest : Pl) (name : String) (uids localNs : List String) (run : Run)
    (ha : g.action = toAction (if run.destroy then "Delete" else "Prune")) (hn : g.name = name) :
    ∀ (lives : List Live) (seen : List Id) (s : St), s.run = run → (lives.map (·.id)).Nodup →
      (∀ o ∈ lives, o.id ∈ g.ids) → (∀ o ∈ lives, o.id ∉ seen) →
      Steps plan (.inGroup g seen rest) (.inGroup g ((lives.map (·.id)).reverse ++ seen) rest) s
        (lives.foldl (pruneOne name uids localNs) s) ∧
      (lives.foldl (pruneOne name uids localNs) s).run = run := by
  intro lives
  induction lives with
  | nil => intro seen s hr _ _ _; exact ⟨Steps.refl _ _ _, hr⟩
  | cons o os ih =>
    intro seen s hr hnd hg hseen
    rw [List.map_cons, List.nodup_cons] at hnd
    obtain ⟨st, r, hev, hst⟩ := CliUtils.Props.C13.pruneOne_one_event name uids localNs s o
    have h1 : Steps plan (.inGroup g seen rest) (.inGroup g (o.id :: seen) rest) s (pruneOne name uids localNs s o) :=
      Steps.one _ hev (prune_step plan g seen rest name o.id st r s (by rw [hr]; exact ha) hn (hg o (by simp))
        (hseen o (by simp)) hst)
    have h2 := ih (o.id :: seen) (pruneOne name uids localNs s o) ((pruneOne_run name uids localNs s o).trans hr) hnd.2
      (fun j hj => hg j (by simp [hj]))
      (by
        intro j hj hjs
        rcases List.mem_cons.mp hjs with e | e
        · exact hnd.1 (by rw [← e]; exact List.mem_map.mpr ⟨j, hj, rfl⟩)
        · exact hseen j (by simp [hj]) e)
    simp only [List.foldl_cons, List.map_cons, List.reverse_cons, List.append_assoc, List.singleton_append]
    exact ⟨Steps.trans h1 h2.1, h2.2⟩

/-- every id of a prune task is found among the objects read at planning time -/
theorem lives_ids (pruneObjs : List Live) (ids : List Id) (h : ∀ i ∈ ids, ∃ o ∈ pruneObjs, o.id = i) :
    (ids.filterMap (fun i => pruneObjs.find? (fun o => o.id = i))).map (·.id) = ids := by
  induction ids with
  | nil => rfl
  | cons i is ih =>
    cases hf : pruneObjs.find? (fun o => o.id = i) with
    | none =>
      exfalso
      obtain ⟨o, ho, hid⟩ := h i (by simp)
      have := List.find?_eq_none.mp hf o ho
      simp [hid] at this
    | some o =>
      have hid : o.id = i := by simpa using List.find?_some hf
      rw [List.filterMap_cons, hf]
      simp only [List.map_cons, hid]
      rw [ih (fun j hj => h j (by simp [hj]))]

/-! ### wait groups -/

/-- what a wait task may emit between its brackets: wait events naming the group for objects of the group, and forwarded
status events -/
def WItem (name : String) (ids : List Id) : Ev → Prop
  | .wait g i _ => g = name ∧ i ∈ ids
  | .status .. => True
  | _ => False

/-- invariant of the wait-task state: events and pending objects all belong to the task -/
def WInv (ids : List Id) (w : Wait.WState Id) : Prop :=
  w.ids = ids ∧ (∀ e ∈ w.events, e.1 ∈ ids) ∧ (∀ p ∈ w.pending, p ∈ ids)

theorem remove_subset {α : Type} [DecidableEq α] (l : List α) (x z : α) (h : z ∈ IdSet.remove l x) : z ∈ l := by
  induction l with
  | nil => simp [IdSet.remove] at h
  | cons y ys ih =>
    simp only [IdSet.remove] at h
    split at h
    · cases hl : ys.getLast? with
      | none => rw [hl] at h; simp at h
      | some last =>
        rw [hl] at h
        simp only [List.mem_cons] at h
        rcases h with h | h
        · subst h; exact List.mem_cons_of_mem _ (List.mem_of_getLast? hl)
        · exact List.mem_cons_of_mem _ (CliUtils.mem_of_mem_dropLast' ys z h)
    · rcases List.mem_cons.mp h with h | h
      · subst h; simp
      · exact List.mem_cons_of_mem _ (ih h)

open CliUtils.Wait in
theorem inner_pending (s : WState Id) (id : Id) :
    ∀ p ∈ (statusUpdateInner s id).pending, p ∈ s.pending ∨ p = id := by
  intro p
  unfold statusUpdateInner
  simp only [handleChangedUID_eq]
  repeat' split
  all_goals
    intro hp
    try simp only [Wait.emit_pending] at hp
    first
      | exact Or.inl hp
      | exact Or.inl (remove_subset _ _ _ hp)
      | (rcases List.mem_append.mp hp with h | h
         · exact Or.inl h
         · exact Or.inr (by simpa using h))

open CliUtils.Wait in
theorem statusUpdate_inv (ids : List Id) (w : WState Id) (id : Id) (o : Obs) (hw : WInv ids w) :
    WInv ids (statusUpdate w id o) := by
  unfold statusUpdate
  simp only []
  split
  · rename_i hin
    have hin' : id ∈ ids := by rw [← hw.1]; exact hin
    have h := inner_mgr_events (o := o) { w with cache := (id, o) :: w.cache } id (by simp)
    refine ⟨by rw [endIf_ids, h.2.2.1]; exact hw.1, ?_, ?_⟩
    · rw [endIf_events, h.1]
      intro e he
      rcases List.mem_append.mp he with he | he
      · exact hw.2.1 e he
      · cases hd : decide? { w with cache := (id, o) :: w.cache } id o with
        | none => rw [hd] at he; simp at he
        | some x => rw [hd] at he; simp at he; subst he; exact hin'
    · rw [endIf_pending]
      intro p hp
      rcases inner_pending _ id p hp with h' | h'
      · exact hw.2.2 p h'
      · subst h'; exact hin'
  · exact hw

open CliUtils.Wait in
theorem start_inv (ids : List Id) (c : Cond) (m : Mgr Id) (cache : List (Id × Obs)) : WInv ids (Wait.start ids c m cache) := by
  have hs := CliUtils.Props.C06.start_spec ids c m cache
  refine ⟨?_, ?_, ?_⟩
  · unfold Wait.start
    rw [endIf_ids]
    have h := CliUtils.Props.C06.start_fold c m cache ids
      { ids := ids, cond := c, pending := [], failed := [], mgr := m, cache := cache, events := [], cancelled := false }
      rfl rfl (CliUtils.Props.C06.MgrEquiv.refl m)
    exact h.2.2.2.2.2.2.2
  · rw [hs.1]
    intro e he
    obtain ⟨x, hx, rfl⟩ := List.mem_map.mp he
    exact hx
  · rw [hs.2.1]
    intro p hp
    exact (List.mem_filter.mp hp).1

open CliUtils.Wait in
theorem timeout_events_inv (ids : List Id) (w : WState Id) (hw : WInv ids w) : ∀ e ∈ (Wait.timeout w).events, e.1 ∈ ids := by
  rw [(CliUtils.Props.C06.timeout_exactly_pending w).1]
  intro e he
  rcases List.mem_append.mp he with he | he
  · exact hw.2.1 e he
  · obtain ⟨x, hx, rfl⟩ := List.mem_map.mp he
    exact hw.2.2 x hx

theorem flushWait_spec (group : String) (s : St) (w : Wait.WState Id) (n0 : Nat) :
    (flushWait group s w n0).events = ((w.events.drop n0).map (fun e => Ev.wait group e.1 (wevName e.2))).reverse ++ s.events ∧
    (flushWait group s w n0).run = s.run := by
  unfold flushWait
  exact foldl_emit (fun (e : Id × Wait.WEv) => Ev.wait group e.1 (wevName e.2)) _ s

theorem flushWait_only (group : String) (ids : List Id) (s : St) (w : Wait.WState Id) (n0 : Nat)
    (hw : ∀ e ∈ w.events, e.1 ∈ ids) : Only (WItem group ids) s (flushWait group s w n0) := by
  have h := flushWait_spec group s w n0
  refine ⟨h.2, _, h.1, ?_⟩
  intro e he
  rw [List.mem_reverse] at he
  obtain ⟨x, hx, rfl⟩ := List.mem_map.mp he
  exact ⟨rfl, hw x (List.mem_of_mem_drop hx)⟩

theorem deliverState_only (group : String) (ids : List Id) (s : St) (d : Delivery) :
    Only (WItem group ids) s (deliverState s d) := by
  unfold deliverState
  simp only []
  split
  · exact Only.one _ _ _ (.status d.id (kstatusName d.status)) rfl rfl trivial
  · exact Only.of_eq _ _ _ rfl rfl

/-- invariant of the scripted delivery loop -/
structure WSInv (group : String) (ids : List Id) (s0 : St) (ws : WaitSt) : Prop where
  only : Only (WItem group ids) s0 ws.s
  inv : WInv ids ws.w

theorem deliverOne_inv (group : String) (ids : List Id) (s0 : St) (n : Nat) (ws : WaitSt) (d : Delivery)
    (h : WSInv group ids s0 ws) : WSInv group ids s0 (deliverOne group n ws d).1 := by
  unfold deliverOne
  simp only []
  split
  · exact h
  · split
    · exact ⟨Only.trans h.only (Only.of_eq _ _ _ rfl rfl), h.inv⟩
    · split
      · exact ⟨Only.trans h.only (Only.of_eq _ _ _ rfl rfl), h.inv⟩
      · have hw' : WInv ids (Wait.statusUpdate { ws.w with mgr := (deliverState ws.s d).mgr } d.id
            (obsOf (deliverState ws.s d).cl d)) :=
          statusUpdate_inv ids _ d.id _ h.inv
        exact ⟨Only.trans h.only (Only.trans (deliverState_only group ids ws.s d)
          (Only.trans (Only.of_eq _ _ _ rfl rfl) (flushWait_only group ids _ _ _ hw'.2.1))), hw'⟩

theorem deliverChain_inv (group : String) (ids : List Id) (s0 : St) (n : Nat) (ds : List Delivery) (ws : WaitSt)
    (h : WSInv group ids s0 ws) : WSInv group ids s0 (deliverChain group n ws ds) := by
  induction ds generalizing ws with
  | nil => exact h
  | cons d ds ih =>
    simp only [deliverChain]
    split
    · exact ih _ (deliverOne_inv group ids s0 n ws d h)
    · exact deliverOne_inv group ids s0 n ws d h

/-- the wait task: first the start events (one per object), then only wait items of the group -/
theorem runWait_only (group : String) (s : St) (ids : List Id) (cond : Wait.Cond) :
    ∃ s1 : St, s1.events = ((Wait.start ids cond s.mgr s.cache).events.map (fun e => Ev.wait group e.1 (wevName e.2))).reverse ++ s.events ∧
      s1.run = s.run ∧ Only (WItem group ids) s1 (runWait group s ids cond).1 := by
  have hsp := flushWait_spec group { { s with waitIdx := s.waitIdx + 1 } with mgr := (Wait.start ids cond s.mgr s.cache).mgr }
      (Wait.start ids cond s.mgr s.cache) 0
  refine ⟨flushWait group { { s with waitIdx := s.waitIdx + 1 } with mgr := (Wait.start ids cond s.mgr s.cache).mgr }
      (Wait.start ids cond s.mgr s.cache) 0, by simpa using hsp.1, hsp.2, ?_⟩
  unfold runWait
  simp only []
  generalize flushWait group { { s with waitIdx := s.waitIdx + 1 } with mgr := (Wait.start ids cond s.mgr s.cache).mgr }
      (Wait.start ids cond s.mgr s.cache) 0 = s1
  have e0 : WSInv group ids s1 { s := s1, w := Wait.start ids cond s.mgr s.cache } :=
    ⟨Only.refl _ _, start_inv ids cond s.mgr s.cache⟩
  have efold : ∀ (chains : List (List Delivery)) (ws : WaitSt), WSInv group ids s1 ws →
      WSInv group ids s1 (chains.foldl (deliverChain group s.waitIdx) ws) := by
    intro chains
    induction chains with
    | nil => intro ws h; exact h
    | cons c cs ih => intro ws h; exact ih _ (deliverChain_inv group ids s1 s.waitIdx c ws h)
  have e1 := efold (ids.flatMap (scriptFor s.run cond)) { s := s1, w := Wait.start ids cond s.mgr s.cache } e0
  generalize (ids.flatMap (scriptFor s.run cond)).foldl (deliverChain group s.waitIdx) _ = ws at e1
  have e2 : WSInv group ids s1 (if !ws.stopped && !ws.w.cancelled && !ws.w.pending.isEmpty && decide (ws.s.run.cancel = CancelAt.wait s.waitIdx none) then
      ({ ws with s := { ws.s with cancelled := true }, w := Wait.cancel ws.w, stopped := true } : WaitSt) else ws) := by
    split
    · exact ⟨Only.trans e1.only (Only.of_eq _ _ _ rfl rfl), e1.inv⟩
    · exact e1
  generalize (if !ws.stopped && !ws.w.cancelled && !ws.w.pending.isEmpty && decide (ws.s.run.cancel = CancelAt.wait s.waitIdx none) then
      ({ ws with s := { ws.s with cancelled := true }, w := Wait.cancel ws.w, stopped := true } : WaitSt) else ws) = ws2 at e2
  split
  · exact e2.only
  · split
    · exact e2.only
    · exact Only.trans e2.only (Only.trans (Only.of_eq _ _ _ rfl rfl)
        (flushWait_only group ids _ _ _ (timeout_events_inv ids { ws2.w with mgr := ws2.s.mgr } e2.inv)))

theorem toEvent_wait (g : String) (i : Id) (st : String) : toEvent (.wait g i st) = .wait g i (toWaitStatus st) := rfl
theorem toEvent_status (i : Id) (st : String) : toEvent (.status i st) = .status i st "" := rfl

/-- the automaton inside a wait block, over a chronological list of wait items -/
theorem run_witems (plan : Pl) (g : ActionGroup Id) (rest : Pl) (name : String) (ids : List Id)
    (ha : g.action = .wait) (hn : g.name = name) (hids : ∀ i ∈ ids, i ∈ g.ids) :
    ∀ (c : List Ev) (seen : List Id), (∀ e ∈ c, WItem name ids e) →
      ∃ seen', Spec.run plan (.inGroup g seen rest) (c.map toEvent) = some (.inGroup g seen' rest) ∧
        (∀ i ∈ seen, i ∈ seen') ∧ (∀ i n st, Ev.wait n i st ∈ c → i ∈ seen') := by
  intro c
  induction c with
  | nil => intro seen _; exact ⟨seen, rfl, fun i hi => hi, by simp⟩
  | cons e es ih =>
    intro seen hc
    have he := hc e (by simp)
    have hes : ∀ e' ∈ es, WItem name ids e' := fun e' he' => hc e' (by simp [he'])
    cases e with
    | wait n i st =>
      obtain ⟨hname, hi⟩ := he
      obtain ⟨seen', hr, hsub, hw⟩ := ih (i :: seen) hes
      refine ⟨seen', ?_, fun j hj => hsub j (by simp [hj]), ?_⟩
      · have hok : waitOk g n i = true := by simp [waitOk, ha, hn, hname, hids i hi]
        simp only [List.map_cons, Spec.run, toEvent_wait, Spec.step, hok, if_true]
        exact hr
      · intro j n' st' hj
        rcases List.mem_cons.mp hj with h | h
        · injection h with _ h2 _
          subst h2
          exact hsub j (by simp)
        · exact hw j n' st' h
    | status i st =>
      obtain ⟨seen', hr, hsub, hw⟩ := ih seen hes
      refine ⟨seen', ?_, hsub, ?_⟩
      · simp only [List.map_cons, Spec.run, toEvent_status, Spec.step]
        exact hr
      · intro j n' st' hj
        rcases List.mem_cons.mp hj with h | h
        · cases h
        · exact hw j n' st' h
    | init _ => exact absurd he (by simp [WItem])
    | error _ => exact absurd he (by simp [WItem])
    | group _ _ _ => exact absurd he (by simp [WItem])
    | op _ _ _ _ _ => exact absurd he (by simp [WItem])
    | validation _ _ => exact absurd he (by simp [WItem])

/-- **wait block**: the wait task drives the automaton through the block of its group, and every object of the group is seen -/
theorem runWait_steps (plan : Pl) (g : ActionGroup Id) (rest : Pl) (name : String) (ids : List Id) (cond : Wait.Cond) (s : St)
    (ha : g.action = .wait) (hn : g.name = name) (hids : g.ids = ids) :
    ∃ seen', Steps plan (.inGroup g [] rest) (.inGroup g seen' rest) s (runWait name s ids cond).1 ∧
      groupComplete g seen' = true ∧ (runWait name s ids cond).1.run = s.run := by
  obtain ⟨s1, hev1, hrun1, hr, l2, hev2, hitems2⟩ := runWait_only name s ids cond
  -- all new events, newest first
  have hall : ∀ e ∈ l2 ++ ((Wait.start ids cond s.mgr s.cache).events.map (fun e => Ev.wait name e.1 (wevName e.2))).reverse,
      WItem name ids e := by
    intro e he
    rcases List.mem_append.mp he with he | he
    · exact hitems2 e he
    · rw [List.mem_reverse] at he
      obtain ⟨x, hx, rfl⟩ := List.mem_map.mp he
      exact ⟨rfl, (start_inv ids cond s.mgr s.cache).2.1 x hx⟩
  obtain ⟨seen', hrun, _, hw⟩ := run_witems plan g rest name ids ha hn (by rw [hids]; exact fun i hi => hi)
    (l2 ++ ((Wait.start ids cond s.mgr s.cache).events.map (fun e => Ev.wait name e.1 (wevName e.2))).reverse).reverse []
    (fun e he => hall e (List.mem_reverse.mp he))
  refine ⟨seen', ⟨_, by rw [hev2, hev1, List.append_assoc], hrun⟩, ?_, hr.trans hrun1⟩
  -- every object got its start event
  have hseen : ∀ i ∈ ids, i ∈ seen' := by
    intro i hi
    have hmap := CliUtils.Props.C13.wait_start_one_event_each ids cond s.mgr s.cache
    have : i ∈ (Wait.start ids cond s.mgr s.cache).events.map (·.1) := by rw [hmap]; exact hi
    obtain ⟨x, hx, hxi⟩ := List.mem_map.mp this
    refine hw i name (wevName x.2) ?_
    rw [List.mem_reverse, List.mem_append]
    right
    rw [List.mem_reverse]
    exact List.mem_map.mpr ⟨x, hx, by rw [hxi]⟩
  unfold groupComplete
  rw [ha, hids]
  simp only [List.all_eq_true, decide_eq_true_eq]
  exact hseen

/-! ### one task, then the task list -/

/-- what the plan must guarantee for a task: no repeated object in an apply / prune task, and every object has its manifest
(resp. its live object read at planning time) -/
def TaskOK (run : Run) (pruneObjs : List Live) (t : Task) : Prop :=
  match t.kind with
  | .apply ids => ids.Nodup ∧ ∀ i ∈ ids, ∃ m ∈ run.objs, m.id = i
  | .prune ids => ids.Nodup ∧ ∀ i ∈ ids, ∃ o ∈ pruneObjs, o.id = i
  | _ => True

theorem groupComplete_of_all (g : ActionGroup Id) (seen : List Id) (h : ∀ i ∈ g.ids, i ∈ seen) : groupComplete g seen = true := by
  unfold groupComplete
  split
  · rfl
  · simp only [List.all_eq_true, decide_eq_true_eq]; exact h

theorem runTask_steps (plan rest : Pl) (run : Run) (pruneObjs : List Live) (localNs : List String) (s : St) (t : Task)
    (hr : s.run = run) (hok : TaskOK run pruneObjs t) :
    ∃ seen', Steps plan (.inGroup (grp run t) [] rest) (.inGroup (grp run t) seen' rest) s (runTask s t pruneObjs localNs).1 ∧
      groupComplete (grp run t) seen' = true ∧ (runTask s t pruneObjs localNs).1.run = run := by
  obtain ⟨name, kind⟩ := t
  cases kind with
  | invAdd ids =>
    refine ⟨[], Steps.of_eq _ _ _ _ (CliUtils.Props.C13.runInvAdd_events s ids), ?_, (runInvAdd_run s ids).trans hr⟩
    simp [groupComplete, grp, Task.action, toAction]
  | invSet prev pe =>
    refine ⟨[], Steps.of_eq _ _ _ _ (CliUtils.Props.C13.runInvSet_events s prev pe), ?_, (runInvSet_run s prev pe).trans hr⟩
    simp [groupComplete, grp, Task.action, toAction]
  | apply ids =>
    simp only [TaskOK] at hok
    have h := applyFold_steps plan (grp run ⟨name, .apply ids⟩) rest name run (by simp [grp, Task.action, toAction]) rfl
      ids [] s hr hok.1 (fun i hi => hi) (by simp) hok.2
    refine ⟨ids.reverse ++ [], h.1, ?_, h.2⟩
    apply groupComplete_of_all
    intro i hi
    simpa [grp, Task.ids] using hi
  | prune ids =>
    simp only [TaskOK] at hok
    have hl := lives_ids pruneObjs ids hok.2
    have h := pruneFold_steps plan (grp run ⟨name, .prune ids⟩) rest name s.mgr.appliedUIDs localNs run
      (by simp [grp, Task.action]) rfl
      (ids.filterMap (fun i => pruneObjs.find? (fun o => o.id = i))) [] s hr (by rw [hl]; exact hok.1)
      (by
        intro o ho
        have : o.id ∈ (ids.filterMap (fun i => pruneObjs.find? (fun o => o.id = i))).map (·.id) := List.mem_map.mpr ⟨o, ho, rfl⟩
        rw [hl] at this
        exact this)
      (by simp)
    refine ⟨_, h.1, ?_, h.2⟩
    apply groupComplete_of_all
    intro i hi
    rw [hl]
    simpa [grp, Task.ids] using hi
  | wait ids cond =>
    obtain ⟨seen', h1, h2, h3⟩ := runWait_steps plan (grp run ⟨name, .wait ids cond⟩) rest name ids cond s
      (by simp [grp, Task.action, toAction]) rfl rfl
    exact ⟨seen', h1, h2, h3.trans hr⟩

/-- **the runner**: from "between groups, the tasks `ts` still planned" the task list drives the automaton into an accepting phase -/
theorem runTasks_steps (plan : Pl) (run : Run) (pruneObjs : List Live) (localNs : List String) :
    ∀ (ts : List Task) (s : St), s.run = run → (∀ t ∈ ts, TaskOK run pruneObjs t) →
      ∃ ph, Steps plan (.between (ts.map (grp run))) ph s (runTasks pruneObjs localNs s ts) ∧ ph.accepting = true := by
  intro ts
  induction ts with
  | nil => intro s _ _; exact ⟨.between [], Steps.refl _ _ _, rfl⟩
  | cons t ts ih =>
    intro s hr hok
    subst hr
    unfold runTasks
    simp only []
    have h1 : Steps plan (.between ((t :: ts).map (grp s.run))) (.inGroup (grp s.run t) [] (ts.map (grp s.run))) s
        (s.emit (.group t.name (t.action s.run.destroy) "Started")) :=
      Steps.one _ rfl (by rw [toEvent_started]; simp [Spec.step, grp])
    obtain ⟨seen', h2, hgc, hrun2⟩ := runTask_steps plan (ts.map (grp s.run)) s.run pruneObjs localNs
      (s.emit (.group t.name (t.action s.run.destroy) "Started")) t rfl (hok t (by simp))
    generalize runTask (s.emit (.group t.name (t.action s.run.destroy) "Started")) t pruneObjs localNs = r at h2 hrun2 ⊢
    have h3 : Steps plan (.inGroup (grp s.run t) seen' (ts.map (grp s.run))) (.between (ts.map (grp s.run))) r.1
        (r.1.emit (.group t.name (t.action s.run.destroy) "Finished")) :=
      Steps.one _ rfl (by rw [toEvent_finished]; simp [Spec.step, grp]; simpa [grp] using hgc)
    have h123 := Steps.trans (Steps.trans h1 h2) h3
    have herr : ∀ k, Steps plan (.between (ts.map (grp s.run))) .done
        (r.1.emit (.group t.name (t.action s.run.destroy) "Finished"))
        ((r.1.emit (.group t.name (t.action s.run.destroy) "Finished")).emit (.error k)) :=
      fun k => Steps.one (.error k) rfl (by simp [toEvent, Spec.step])
    split
    · exact ⟨.done, Steps.trans h123 (herr _), rfl⟩
    · split
      · exact ⟨.done, Steps.trans h123 (herr _), rfl⟩
      · split
        · exact ⟨.done, Steps.trans h123 (herr _), rfl⟩
        · obtain ⟨ph, h4, hacc⟩ := ih (r.1.emit (.group t.name (t.action s.run.destroy) "Finished")) hrun2
            (fun t' ht' => hok t' (by simp [ht']))
          exact ⟨ph, Steps.trans h123 h4, hacc⟩

/-! ### the plan built by `buildPlan` satisfies `TaskOK` -/

theorem layerTasks_mem (isApply dry : Bool) :
    ∀ (L : List (List Id)) (c w : Nat) (t : Task), t ∈ (layerTasks isApply dry L c w).1 →
      (∃ l ∈ L, t.kind = (if isApply then TaskKind.apply l else TaskKind.prune l)) ∨ (∃ l cond, t.kind = .wait l cond) := by
  intro L
  induction L with
  | nil => intro c w t ht; simp [layerTasks] at ht
  | cons l ls ih =>
    intro c w t ht
    simp only [layerTasks] at ht
    split at ht
    · rcases List.mem_cons.mp ht with h | h
      · left
        refine ⟨l, by simp, ?_⟩
        subst h
        split <;> rfl
      · rcases ih _ _ t h with ⟨l', hl', hk⟩ | h'
        · exact Or.inl ⟨l', by simp [hl'], hk⟩
        · exact Or.inr h'
    · rcases List.mem_cons.mp ht with h | h
      · left
        refine ⟨l, by simp, ?_⟩
        subst h
        split <;> rfl
      · rcases List.mem_cons.mp h with h | h
        · right; subst h; exact ⟨_, _, rfl⟩
        · rcases ih _ _ t h with ⟨l', hl', hk⟩ | h'
          · exact Or.inl ⟨l', by simp [hl'], hk⟩
          · exact Or.inr h'

theorem hydrate_mem (lt : Id → Id → Bool) (X : List Id) (L : List (List Id)) (hL : ∀ l ∈ L, l.Nodup) :
    ∀ l ∈ Graph.hydrate lt (fun v => decide (v ∈ X)) L, l.Nodup ∧ ∀ i ∈ l, i ∈ X := by
  intro l hl
  unfold Graph.hydrate at hl
  obtain ⟨l0, hl0, rfl⟩ := List.mem_map.mp (List.mem_filter.mp hl).1
  have hp := Graph.isort_perm lt (l0.filter (fun v => decide (v ∈ X)))
  refine ⟨hp.nodup_iff.mpr ((hL l0 hl0).sublist List.filter_sublist), ?_⟩
  intro i hi
  have := (List.mem_filter.mp (hp.mem_iff.mp hi)).2
  simpa using this

theorem reverseSetList_mem (L : List (List Id)) (l : List Id) (h : l ∈ Graph.reverseSetList L) : ∃ l0 ∈ L, l = l0.reverse := by
  unfold Graph.reverseSetList at h
  rw [List.mem_reverse] at h
  obtain ⟨l0, hl0, rfl⟩ := List.mem_map.mp h
  exact ⟨l0, hl0, rfl⟩

theorem planTasks_ok (run : Run) (applyIds pruneIds : List Id) (layers : List (List Id)) (prev : List Id) (pe : Bool)
    (pruneObjs : List Live) (hL : ∀ l ∈ layers, l.Nodup) (hA : ∀ i ∈ applyIds, ∃ m ∈ run.objs, m.id = i)
    (hP : ∀ i ∈ pruneIds, ∃ o ∈ pruneObjs, o.id = i) :
    ∀ t ∈ planTasks run applyIds pruneIds layers prev pe, TaskOK run pruneObjs t := by
  intro t ht
  unfold planTasks at ht
  simp only [List.mem_append, List.mem_singleton] at ht
  rcases ht with ((h | h) | h) | h
  · split at h
    · simp at h
    · simp at h; subst h; simp [TaskOK]
  · split at h
    · simp at h
    · rcases layerTasks_mem true _ _ 0 0 t h with ⟨l, hl, hk⟩ | ⟨l, cond, hk⟩
      · have := hydrate_mem Ordering.less applyIds layers hL l hl
        simp only [if_true] at hk
        unfold TaskOK
        rw [hk]
        exact ⟨this.1, fun i hi => hA i (this.2 i hi)⟩
      · unfold TaskOK; rw [hk]; trivial
  · split at h
    · rcases layerTasks_mem false _ _ 0 _ t h with ⟨l, hl, hk⟩ | ⟨l, cond, hk⟩
      · obtain ⟨l0, hl0, rfl⟩ := reverseSetList_mem _ l hl
        have := hydrate_mem Ordering.less pruneIds layers hL l0 hl0
        simp only [Bool.false_eq_true, if_false] at hk
        unfold TaskOK
        rw [hk]
        exact ⟨(List.reverse_perm l0).nodup_iff.mpr this.1, fun i hi => hP i (this.2 i (List.mem_reverse.mp hi))⟩
      · unfold TaskOK; rw [hk]; trivial
    · simp at h
  · subst h; simp [TaskOK]

theorem buildPlan_tasks_ok (run : Run) (applyMs : List Manifest) (pruneObjs : List Live) (prev : List Id) (pe : Bool)
    (hA : ∀ m ∈ applyMs, m ∈ run.objs) :
    ∀ t ∈ (buildPlan run applyMs pruneObjs prev pe).tasks, TaskOK run pruneObjs t := by
  unfold buildPlan
  simp only []
  apply planTasks_ok
  · intro l hl
    unfold Graph.sort at hl
    exact Graph.layers_nodup _ _ (CliUtils.Props.C14.build_wellformed _ _).1 l hl
  · intro i hi
    obtain ⟨m, hm, rfl⟩ := List.mem_map.mp hi
    exact ⟨m, hA m (List.mem_filter.mp hm).1, rfl⟩
  · intro i hi
    obtain ⟨o, ho, rfl⟩ := List.mem_map.mp hi
    exact ⟨o, (List.mem_filter.mp ho).1, rfl⟩

theorem errors_nonempty (v : Validation) : ∀ e ∈ v.errors, e.1.isEmpty = false := by
  intro e he
  unfold Validation.errors at he
  simp only [List.mem_append, List.mem_map] at he
  rcases he with (⟨i, _, rfl⟩ | ⟨x, _, rfl⟩) | h
  · rfl
  · rfl
  · split at h
    · simp at h
    · rename_i hc
      simp only [List.mem_singleton] at h
      subst h
      simpa using hc

theorem buildPlan_valErrors (run : Run) (applyMs : List Manifest) (pruneObjs : List Live) (prev : List Id) (pe : Bool) :
    ∀ e ∈ (buildPlan run applyMs pruneObjs prev pe).valErrors, e.1.isEmpty = false := by
  unfold buildPlan
  simp only []
  exact errors_nonempty _

/-! ### before the tasks: reads, validation events, the plan event, initial statuses -/

theorem getPruneObjs_events (s : St) (ids : List Id) : (getPruneObjs s ids).1.events = s.events := by
  unfold getPruneObjs
  simp only []
  cases h : s.invRead.2 with
  | none => exact CliUtils.Props.C13.invRead_events s
  | some inv => exact CliUtils.Props.C13.invRead_events s

theorem getPruneObjs_run (s : St) (ids : List Id) : (getPruneObjs s ids).1.run = s.run :=
  (CliUtils.Props.C10.getPruneObjs_harmless s ids).run

theorem prepare_events (s : St) (plan : Plan) (pruneObjs : List Live) :
    (prepare s plan pruneObjs).events =
      .init (plan.tasks.map (fun t => (t.name, t.action s.run.destroy, t.ids))) ::
        ((plan.valErrors.map (fun e => Ev.validation e.1 e.2)).reverse ++ s.events) := by
  simp only [prepare]
  rw [(foldl_emit (fun (e : List Id × String) => Ev.validation e.1 e.2) plan.valErrors s).1]

theorem prepare_run (s : St) (plan : Plan) (pruneObjs : List Live) : (prepare s plan pruneObjs).run = s.run :=
  (CliUtils.Props.C10.prepare_harmless s plan pruneObjs).run

def IsStatus : Ev → Prop
  | .status .. => True
  | _ => False

theorem initialStatuses_only (s : St) : Only IsStatus s (initialStatuses s) := by
  unfold initialStatuses
  split
  · exact Only.refl _ _
  · refine Only.fold _ ?_ _ _
    intro s id
    dsimp only
    split
    · exact Only.refl _ _
    · split
      · exact Only.one _ _ _ (.status id "Current") rfl rfl trivial
      · exact Only.of_eq _ _ _ rfl rfl

/-- forwarded status events between two groups leave the automaton where it is -/
theorem status_steps (plan rest : Pl) (s s' : St) (h : Only IsStatus s s') : Steps plan (.between rest) (.between rest) s s' := by
  obtain ⟨_, l, hev, hP⟩ := h
  refine ⟨l, hev, run_stay _ _ _ ?_⟩
  intro e he
  obtain ⟨x, hx, rfl⟩ := List.mem_map.mp he
  have := hP x (List.mem_reverse.mp hx)
  cases x <;> first | rfl | exact absurd this (by simp [IsStatus])

theorem tasks_map_grp (run : Run) (ts : List Task) :
    (ts.map (fun t => (t.name, t.action run.destroy, t.ids))).map toGroup = ts.map (grp run) := by
  rw [List.map_map]
  apply List.map_congr_left
  intro t _
  rfl

/-! ### assembly: the whole stream -/

/-- validation events (naming at least one object) -/
def IsVal (e : Ev) : Prop := ∃ ids k, e = .validation ids k ∧ ids.isEmpty = false

theorem planOf_init_cons (G : List (String × String × List Id)) (rest : List Ev) : planOf (.init G :: rest) = G.map toGroup := rfl

theorem planOf_vals (v : List Ev) (hv : ∀ e ∈ v, IsVal e) (rest : List Ev) : planOf (v ++ rest) = planOf rest := by
  induction v with
  | nil => rfl
  | cons e es ih =>
    obtain ⟨ids, k, rfl, _⟩ := hv e (by simp)
    exact ih (fun e' he' => hv e' (by simp [he']))

theorem run_vals (plan : Pl) (v : List Ev) (hv : ∀ e ∈ v, IsVal e) : Spec.run plan .pre (v.map toEvent) = some .pre := by
  apply run_stay
  intro e he
  obtain ⟨x, hx, rfl⟩ := List.mem_map.mp he
  obtain ⟨ids, k, rfl, hne⟩ := hv x hx
  simp [toEvent, Spec.step, hne]

/-- a stream "validation events, plan event, then a tail that the automaton accepts from `between plan`" is well-formed for the
plan it carries -/
theorem wellFormed_of_steps (evs l v : List Ev) (G : List (String × String × List Id)) (hev : evs = l ++ (.init G :: v))
    (hv : ∀ e ∈ v, IsVal e) (ph : Ph)
    (hrun : Spec.run (G.map toGroup) (.between (G.map toGroup)) ((l.reverse).map toEvent) = some ph) (hacc : ph.accepting = true) :
    eventsWellFormed (planOf evs.reverse) (evs.reverse.map toEvent) = true := by
  subst hev
  have hrev : (l ++ (Ev.init G :: v)).reverse = v.reverse ++ (Ev.init G :: l.reverse) := by simp
  have hv' : ∀ e ∈ v.reverse, IsVal e := fun e he => hv e (List.mem_reverse.mp he)
  rw [hrev, planOf_vals _ hv', planOf_init_cons]
  unfold eventsWellFormed
  rw [List.map_append, run_append, run_vals _ _ hv']
  simp only [Option.bind_some, List.map_cons, Spec.run, toEvent_init, Spec.step, if_true, hrun]
  exact hacc

/-- a stream that consists of a single error event (the run stopped before planning) is well-formed -/
theorem wellFormed_error (k : String) : eventsWellFormed (planOf [Ev.error k].reverse) ([Ev.error k].reverse.map toEvent) = true := rfl

/-- everything after `prepare`: if the rest of the run drives the automaton from "between groups, whole plan ahead" into an
accepting phase, the stream is well-formed -/
theorem wellFormed_after_prepare (run : Run) (s : St) (plan : Plan) (pruneObjs : List Live) (final : St) (ph : Ph)
    (hr : s.run = run) (hev : s.events = []) (hval : ∀ e ∈ plan.valErrors, e.1.isEmpty = false)
    (hsteps : Steps (plan.tasks.map (grp run)) (.between (plan.tasks.map (grp run))) ph (prepare s plan pruneObjs) final)
    (hacc : ph.accepting = true) :
    eventsWellFormed (planOf final.events.reverse) (final.events.reverse.map toEvent) = true := by
  obtain ⟨l, hl, hrun⟩ := hsteps
  rw [prepare_events, hev, hr, List.append_nil] at hl
  rw [← tasks_map_grp] at hrun
  refine wellFormed_of_steps final.events l _ _ hl ?_ ph hrun hacc
  intro e he
  obtain ⟨x, hx, rfl⟩ := List.mem_map.mp (List.mem_reverse.mp he)
  exact ⟨x.1, x.2, rfl, hval x hx⟩

end CliUtils.GrammarL
