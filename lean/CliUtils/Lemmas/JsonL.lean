import CliUtils.Model.Json
/-
  Lemmas about the association-list maps and the nested accessors: reading after `m[k] = v`, and what
  `SetNestedSlice(obj, v, "status", "conditions")` leaves untouched.
-/
namespace CliUtils.J

theorem lookup_setKey_same (k : String) (v : J) (l : List (String × J)) : lookup k (setKey k v l) = some v := by
  induction l with
  | nil => simp [setKey, lookup]
  | cons p rest ih =>
    obtain ⟨k', v'⟩ := p
    unfold setKey
    split
    · simp [lookup]
    · rename_i hne
      simp [lookup, hne, ih]

theorem lookup_setKey_other (k k' : String) (v : J) (l : List (String × J)) (h : k' ≠ k) :
    lookup k' (setKey k v l) = lookup k' l := by
  induction l with
  | nil => simp [setKey, lookup, Ne.symm h]
  | cons p rest ih =>
    obtain ⟨k2, v2⟩ := p
    unfold setKey
    split
    · rename_i he
      subst he
      simp [lookup, Ne.symm h]
    · simp only [lookup, ih]

/-- a top-level field other than `status` reads the same after `status.conditions` was set -/
theorem nestedField_set_other (o o' v : J) (h : setStatusConditions o v = some o') (f : String) (rest : List String)
    (hf : f ≠ "status") : nestedField o' (f :: rest) = nestedField o (f :: rest) := by
  unfold setStatusConditions at h
  split at h
  · rename_i top
    split at h
    · injection h with h; subst h
      simp only [nestedField, lookup_setKey_other _ _ _ _ hf]
    · injection h with h; subst h
      simp only [nestedField, lookup_setKey_other _ _ _ _ hf]
    · cases h
  · cases h

/-- a field of `status` other than `conditions` reads the same after `status.conditions` was set -/
theorem nestedField_set_status_other (o o' v : J) (h : setStatusConditions o v = some o') (f : String) (rest : List String)
    (hf : f ≠ "conditions") : nestedField o' ("status" :: f :: rest) = nestedField o ("status" :: f :: rest) := by
  unfold setStatusConditions at h
  split at h
  · rename_i top
    split at h
    · rename_i hs
      injection h with h; subst h
      simp [nestedField, lookup_setKey_same, hs, lookup, Ne.symm hf]
    · rename_i st hs
      injection h with h; subst h
      simp [nestedField, lookup_setKey_same, hs, lookup_setKey_other _ _ _ _ hf]
    · cases h
  · cases h

theorem nestedField_set_conditions (o o' v : J) (h : setStatusConditions o v = some o') :
    nestedField o' ["status", "conditions"] = .found v := by
  unfold setStatusConditions at h
  split at h
  · rename_i top
    split at h
    · injection h with h; subst h
      simp [nestedField, lookup_setKey_same, lookup]
    · injection h with h; subst h
      simp [nestedField, lookup_setKey_same]
    · cases h
  · cases h

/-- the conditions conversion after `status.conditions` was set to a list reads exactly that list -/
theorem convConds_set (o o' : J) (items : List J) (h : setStatusConditions o (.arr items) = some o') :
    convConds o' = convList items := by
  unfold setStatusConditions at h
  split at h
  · rename_i top
    split at h
    · injection h with h; subst h
      simp [convConds, lookup_setKey_same, lookup]
    · injection h with h; subst h
      simp [convConds, lookup_setKey_same]
    · cases h
  · cases h

/-- when `NestedSlice(status, conditions)` raised no error and the set succeeded, the conversion of the old object reads
the very list Augment started from (the empty list when there were no conditions) -/
theorem convConds_of_slice (o o' v : J) (h : setStatusConditions o v = some o')
    (hs : nestedSlice o ["status", "conditions"] ≠ .err) :
    convConds o = convList (match nestedSlice o ["status", "conditions"] with | .found l => l | _ => []) := by
  unfold setStatusConditions at h
  split at h
  · rename_i top
    split at h
    · rename_i hst
      simp [convConds, nestedSlice, nestedField, hst, convList]
    · rename_i st hst
      cases hc : lookup "conditions" st with
      | none => simp [convConds, nestedSlice, nestedField, hst, hc, convList]
      | some c =>
        cases c <;> simp [convConds, nestedSlice, nestedField, hst, hc] at hs ⊢
    · cases h
  · cases h

end CliUtils.J
