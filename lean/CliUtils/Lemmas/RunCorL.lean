import CliUtils.Lemmas.ConvergeL
import CliUtils.Props.C03R
import CliUtils.Props.C04R
import CliUtils.Props.C02R
import CliUtils.Props.C13G
import CliUtils.Props.C12R
/-
  Helper lemmas for the run-level corollaries of `Props/RunCor.lean` (C02 / C05 / C10 / C11 / C13 on `Sys.runOne`).

    * vocabulary of the statements (in `namespace CliUtils.Props.C13`): `isGroupEv`, `opKey`, `okOp`, `brackets`, `taskOps`, `resultFor`
    * `taskStart`, `runOne_cases` / `runOne_of_plan` / `runOne_of_noPlan`: a planned run is the runner applied to an explicit start
      state, whose fields are known (`taskStart_fields`)
    * `runTask_block`, `runTasks_trace`, `run_trace`: the events of a run without error event — brackets of every task in plan order,
      one result per object; `result_unique`, `run_result_unique`: exactly one result event per planned object
    * `planTasks_flatMap_kind`, `plan_ids_facts`: the id lists of the tasks of a plan (`opIds`, `pruneIdsOf`, `waitPIdsOf` …) are the
      layers of the plan: no object is named twice, apply-side tasks name valid apply ids, delete-side tasks valid prune ids
    * `Grows`: the request log only grows; `MgrRel` / `runWait_rel`: a wait task only writes the reconcile status of its own objects
    * `KS` / `KI`, `runTasks_ind_noError`, `run_delete_book`: the delete-side bookkeeping invariant behind
      `C05.blocked_dependency_stays`, carried by an induction over the runner that is indexed by the tasks still to run
    * `runTask_ab`, `run_ab_invalid`: abandoned ids are valid prune candidates, the invalid set is the plan's
    * `InvSubP`, `run_inv_sub`: what the stored inventory may hold after any run
    * `destroy_success_inv_none`: a destroy judged successful deletes the inventory object
    * `UpdStep`, `run_removals_abandoned`: an accepted annotation removal leaves the object abandoned
-/

/-! ## vocabulary of the statements -/
namespace CliUtils.Props.C13
open CliUtils CliUtils.Sys

/-- group (started / finished) events -/
def isGroupEv : Ev → Bool
  | .group .. => true
  | _ => false

/-- kind, group name and object of a result event -/
def opKey : Ev → Option (String × String × Id)
  | .op k g i _ _ => some (k, g, i)
  | _ => none

/-- a result event carries a result (never Pending) -/
def okOp : Ev → Prop
  | .op _ _ _ st _ => st = "Successful" ∨ st = "Skipped" ∨ st = "Failed"
  | _ => True

/-- the two group events of a task -/
def brackets (run : Run) (t : Task) : List Ev :=
  [.group t.name (t.action run.destroy) "Started", .group t.name (t.action run.destroy) "Finished"]

/-- the result events a task owes: one per object of an apply / prune (delete) task, naming the task -/
def taskOps (run : Run) (t : Task) : List (String × String × Id) :=
  match t.kind with
  | .apply ids => ids.map (fun i => ("apply", t.name, i))
  | .prune ids => ids.map (fun i => (if run.destroy then "delete" else "prune", t.name, i))
  | _ => []

/-- a result event for object `id` naming group `g` -/
def resultFor (g : String) (id : Id) : Ev → Bool
  | .op _ g' i _ _ => g' = g && i = id
  | _ => false

end CliUtils.Props.C13

namespace CliUtils.RunCorL
open CliUtils CliUtils.Sys CliUtils.FinalL CliUtils.ConvergeL CliUtils.Props.C01 CliUtils.Props.C02 CliUtils.Props.C13 CliUtils.GrammarL

/-! ## a planned run: the runner applied to an explicit start state -/

/-- the state in which the first task of a planned run starts -/
def taskStart (c : Cluster) (run : Run) (plan : Plan) (P : List Live) : St :=
  initialStatuses (prepare (getPruneObjs (startSt c run) ((applySet run).map (·.id))).1.invRead.1 plan P)

theorem runOne_of_noPlan (c : Cluster) (run : Run) (h : runPlanObjs c run = none) :
    ∃ (s : St) (k : String), runOne c run = s.emit (.error k) := by
  unfold runPlanObjs at h
  unfold runOne
  simp only [] at h ⊢
  have e : ({ cl := run.envDel.foldl (fun c i => c.remove i) c, run := run } : St) = startSt c run := rfl
  have e2 : (if run.destroy then [] else run.objs) = applySet run := rfl
  rw [e, e2]
  cases hp : (getPruneObjs (startSt c run) ((applySet run).map (·.id))).2 with
  | none => exact ⟨_, _, rfl⟩
  | some P => rw [hp] at h; cases h

theorem runOne_cases (c : Cluster) (run : Run) :
    (∃ (s : St) (k : String), runOne c run = s.emit (.error k)) ∨
    ∃ (plan : Plan) (P : List Live), runPlanObjs c run = some (plan, P) ∧
      runOne c run = runTasks P (localNamespaces ((applySet run).map (·.id))) (taskStart c run plan P) plan.tasks := by
  unfold runOne runPlanObjs taskStart
  simp only []
  have e : ({ cl := run.envDel.foldl (fun c i => c.remove i) c, run := run } : St) = startSt c run := rfl
  have e2 : (if run.destroy then [] else run.objs) = applySet run := rfl
  rw [e, e2]
  generalize getPruneObjs (startSt c run) ((applySet run).map (·.id)) = r1
  cases hp : r1.2 with
  | none => exact Or.inl ⟨_, _, rfl⟩
  | some P =>
    simp only []
    generalize buildPlan run (applySet run) P _ _ = plan
    split
    · exact Or.inl ⟨_, _, rfl⟩
    · split
      · exact Or.inl ⟨_, _, rfl⟩
      · exact Or.inr ⟨plan, P, rfl, rfl⟩

theorem runOne_of_plan (c : Cluster) (run : Run) (plan : Plan) (P : List Live) (h : runPlanObjs c run = some (plan, P)) :
    (∃ (s : St) (k : String), runOne c run = s.emit (.error k)) ∨
    runOne c run = runTasks P (localNamespaces ((applySet run).map (·.id))) (taskStart c run plan P) plan.tasks := by
  rcases runOne_cases c run with h1 | ⟨plan', P', h1, h2⟩
  · exact Or.inl h1
  · rw [h] at h1
    simp only [Option.some.injEq, Prod.mk.injEq] at h1
    obtain ⟨rfl, rfl⟩ := h1
    exact Or.inr h2

/-- events emitted before the first task: the plan event, validation events, forwarded initial statuses -/
def PreEv : Ev → Prop
  | .init _ => True
  | .status .. => True
  | .validation .. => True
  | _ => False

theorem startSt_fields (c : Cluster) (run : Run) :
    (startSt c run).run = run ∧ (startSt c run).mgr = [] ∧ (startSt c run).muts = [] ∧ (startSt c run).events = [] ∧
    (startSt c run).abandoned = [] ∧ (startSt c run).cache = [] ∧ (startSt c run).cl = startStore c run :=
  ⟨rfl, rfl, rfl, rfl, rfl, rfl, rfl⟩

/-- the fields of the start state -/
theorem taskStart_fields (c : Cluster) (run : Run) (plan : Plan) (P : List Live) :
    (taskStart c run plan P).run = run ∧ (taskStart c run plan P).cl = startStore c run ∧
    (taskStart c run plan P).mgr = prepMgr run plan P ∧ (taskStart c run plan P).abandoned = [] ∧
    (taskStart c run plan P).invalid = plan.invalid ∧ (taskStart c run plan P).muts = [] ∧
    OrderL.Inv run plan.graph plan.edges (taskStart c run plan P) ∧
    ∀ e ∈ (taskStart c run plan P).events, PreEv e := by
  unfold taskStart
  obtain ⟨a1, a2, a3, a4, a5, a6, a7⟩ := startSt_fields c run
  have hfst := CliUtils.Props.C01.getPruneObjs_fst (startSt c run) ((applySet run).map (·.id))
  rw [hfst]
  obtain ⟨i1, i2, i3, i4, _, i6, i7⟩ := invRead_frame (startSt c run)
  have ie1 := CliUtils.Props.C13.invRead_events (startSt c run)
  generalize (startSt c run).invRead.1 = t1 at *
  obtain ⟨j1, j2, j3, j4, _, j6, j7⟩ := invRead_frame t1
  have je1 := CliUtils.Props.C13.invRead_events t1
  generalize t1.invRead.1 = t2 at *
  have hm2 : t2.mgr = [] := by rw [j3, i3, a2]
  have hmu2 : t2.muts = [] := by rw [j7, i7, a3]
  have hr2 : t2.run = run := by rw [j2, i2, a1]
  have hev2 : t2.events = [] := by rw [je1, ie1, a4]
  obtain ⟨p1, p2, p3, p4, p5, p6, p7⟩ := prepare_frame t2 plan P hm2
  have hci : CacheInit (prepare t2 plan P) := by
    intro e he
    rw [p5, j6, i6, a6] at he; cases he
  obtain ⟨q1, q2, q3, q4, q5, q6, _⟩ := initialStatuses_spec (prepare t2 plan P) hci
  have hinv := OrderL.initialStatuses_inv _ (OrderL.prepare_inv t2 plan P hmu2 hm2)
  rw [hr2] at hinv
  refine ⟨by rw [q2, p2, hr2], by rw [q1, p1, j1, i1, a7], by rw [q3, p3, hr2], by rw [q4, p4, j4, i4, a5], by rw [q5, p7],
    by rw [q6, p6, hmu2], hinv, ?_⟩
  obtain ⟨_, l, hl, hst⟩ := initialStatuses_only (prepare t2 plan P)
  rw [hl, prepare_events, hev2]
  intro e he
  rcases List.mem_append.mp he with he | he
  · have := hst e he
    cases e <;> first | trivial | exact absurd this (by simp [IsStatus])
  · rcases List.mem_cons.mp he with he | he
    · subst he; trivial
    · rw [List.append_nil, List.mem_reverse] at he
      obtain ⟨x, _, rfl⟩ := List.mem_map.mp he
      trivial


/-! ## the events of one task -/

theorem filterMap_opKey_nil (L : List Ev) (h : ∀ e ∈ L, opKey e = none) : L.filterMap opKey = [] := by
  induction L with
  | nil => rfl
  | cons e es ih =>
    rw [List.filterMap_cons, h e (by simp)]
    exact ih (fun e' he' => h e' (by simp [he']))

theorem filter_group_nil (L : List Ev) (h : ∀ e ∈ L, isGroupEv e = false) : L.filter isGroupEv = [] := by
  induction L with
  | nil => rfl
  | cons e es ih =>
    rw [List.filter_cons, h e (by simp)]
    exact ih (fun e' he' => h e' (by simp [he']))

theorem applyFold_block (run : Run) (g : String) : ∀ (ids : List Id) (s : St), s.run = run →
    (∀ i ∈ ids, ∃ m ∈ run.objs, m.id = i) →
    ∃ L, (ids.foldl (applyOne g) s).events = L ++ s.events ∧
      L.reverse.filterMap opKey = ids.map (fun i => ("apply", g, i)) ∧ (∀ e ∈ L, okOp e) ∧ (∀ e ∈ L, isGroupEv e = false) := by
  intro ids
  induction ids with
  | nil => intro s _ _; exact ⟨[], rfl, rfl, by simp, by simp⟩
  | cons i is ih =>
    intro s hr hobj
    obtain ⟨m, hm, hid⟩ := manifestOf_some s i (by rw [hr]; exact hobj i (by simp))
    obtain ⟨st, r, hev, hst⟩ := applyOne_one_event g s i m hm hid
    obtain ⟨L', h1, h2, h3, h4⟩ := ih (applyOne g s i) ((applyOne_run g s i).trans hr) (fun j hj => hobj j (by simp [hj]))
    refine ⟨L' ++ [.op "apply" g i st r], ?_, ?_, ?_, ?_⟩
    · rw [List.foldl_cons, h1, hev]; simp
    · rw [List.reverse_append, List.filterMap_append, h2]; rfl
    · intro e he
      rcases List.mem_append.mp he with he | he
      · exact h3 e he
      · rw [List.mem_singleton] at he; subst he; exact hst
    · intro e he
      rcases List.mem_append.mp he with he | he
      · exact h4 e he
      · rw [List.mem_singleton] at he; subst he; rfl

theorem pruneFold_block (run : Run) (g : String) (uids ns : List String) : ∀ (lives : List Live) (s : St), s.run = run →
    ∃ L, (lives.foldl (pruneOne g uids ns) s).events = L ++ s.events ∧
      L.reverse.filterMap opKey = lives.map (fun o => (if run.destroy then "delete" else "prune", g, o.id)) ∧
      (∀ e ∈ L, okOp e) ∧ (∀ e ∈ L, isGroupEv e = false) := by
  intro lives
  induction lives with
  | nil => intro s _; exact ⟨[], rfl, rfl, by simp, by simp⟩
  | cons o os ih =>
    intro s hr
    obtain ⟨st, r, hev, hst⟩ := pruneOne_one_event g uids ns s o
    obtain ⟨L', h1, h2, h3, h4⟩ := ih (pruneOne g uids ns s o) ((pruneOne_run g uids ns s o).trans hr)
    have hk : opKind s = if run.destroy then "delete" else "prune" := by unfold opKind; rw [hr]
    refine ⟨L' ++ [.op (opKind s) g o.id st r], ?_, ?_, ?_, ?_⟩
    · rw [List.foldl_cons, h1, hev]; simp
    · rw [List.reverse_append, List.filterMap_append, h2, hk]; rfl
    · intro e he
      rcases List.mem_append.mp he with he | he
      · exact h3 e he
      · rw [List.mem_singleton] at he; subst he; exact hst
    · intro e he
      rcases List.mem_append.mp he with he | he
      · exact h4 e he
      · rw [List.mem_singleton] at he; subst he; rfl

theorem witem_quiet (g : String) (ids : List Id) (e : Ev) (h : WItem g ids e) : opKey e = none ∧ isGroupEv e = false ∧ okOp e := by
  cases e <;> first | exact ⟨rfl, rfl, trivial⟩ | exact absurd h (by simp [WItem])

/-- **the events of one task**: `L` (newest first) holds exactly the result events the task owes, in order, each carrying a result,
and no group event -/
theorem runTask_block (run : Run) (P : List Live) (ns : List String) (s : St) (t : Task) (hr : s.run = run) (hok : TaskOK run P t) :
    ∃ L, (runTask s t P ns).1.events = L ++ s.events ∧ L.reverse.filterMap opKey = taskOps run t ∧
      (∀ e ∈ L, okOp e) ∧ (∀ e ∈ L, isGroupEv e = false) ∧ (runTask s t P ns).1.run = run := by
  obtain ⟨_, _, _, hrun⟩ := runTask_steps [] [] run P ns s t hr hok
  obtain ⟨name, kind⟩ := t
  cases kind with
  | invAdd ids =>
    exact ⟨[], by simpa [runTask] using runInvAdd_events s ids, rfl, by simp, by simp, hrun⟩
  | invSet prev pe =>
    exact ⟨[], by simpa [runTask] using runInvSet_events s prev pe, rfl, by simp, by simp, hrun⟩
  | apply ids =>
    simp only [TaskOK] at hok
    obtain ⟨L, h1, h2, h3, h4⟩ := applyFold_block run name ids s hr hok.2
    exact ⟨L, h1, h2, h3, h4, hrun⟩
  | prune ids =>
    simp only [TaskOK] at hok
    obtain ⟨L, h1, h2, h3, h4⟩ := pruneFold_block run name s.mgr.appliedUIDs ns
      (ids.filterMap (fun i => P.find? (fun o => o.id = i))) s hr
    refine ⟨L, h1, ?_, h3, h4, hrun⟩
    rw [h2]
    have hl := lives_ids P ids hok.2
    simp only [taskOps]
    rw [← hl, List.map_map]
    rw [hl]
    rfl
  | wait ids cond =>
    obtain ⟨s1, hev1, _, _, l2, hev2, hitems2⟩ := runWait_only name s ids cond
    refine ⟨l2 ++ ((Wait.start ids cond s.mgr s.cache).events.map (fun e => Ev.wait name e.1 (wevName e.2))).reverse, ?_, ?_, ?_, ?_, hrun⟩
    · show (runWait name s ids cond).1.events = _
      rw [hev2, hev1, List.append_assoc]
    · have hall : ∀ e ∈ (l2 ++ ((Wait.start ids cond s.mgr s.cache).events.map (fun e => Ev.wait name e.1 (wevName e.2))).reverse).reverse,
          opKey e = none := by
        intro e he
        rw [List.mem_reverse] at he
        rcases List.mem_append.mp he with he | he
        · exact (witem_quiet _ _ _ (hitems2 e he)).1
        · rw [List.mem_reverse] at he
          obtain ⟨x, _, rfl⟩ := List.mem_map.mp he
          rfl
      rw [filterMap_opKey_nil _ hall]
      rfl
    · intro e he
      rcases List.mem_append.mp he with he | he
      · exact (witem_quiet _ _ _ (hitems2 e he)).2.2
      · rw [List.mem_reverse] at he
        obtain ⟨x, _, rfl⟩ := List.mem_map.mp he
        trivial
    · intro e he
      rcases List.mem_append.mp he with he | he
      · exact (witem_quiet _ _ _ (hitems2 e he)).2.1
      · rw [List.mem_reverse] at he
        obtain ⟨x, _, rfl⟩ := List.mem_map.mp he
        rfl

/-! ## the events of a run of the task list without error event -/

/-- **the trace of a completed run of the task list**: without error event, the events `L` the runner added (newest first) hold, in
order, the result events every task owes, each with a result, and the group events are exactly the brackets of the tasks in order -/
theorem runTasks_trace (run : Run) (P : List Live) (ns : List String) : ∀ (ts : List Task) (s : St), s.run = run →
    (∀ t ∈ ts, TaskOK run P t) → NoError (runTasks P ns s ts).events →
    ∃ L, (runTasks P ns s ts).events = L ++ s.events ∧ L.reverse.filterMap opKey = ts.flatMap (taskOps run) ∧
      (∀ e ∈ L, okOp e) ∧ L.reverse.filter isGroupEv = ts.flatMap (brackets run) := by
  intro ts
  induction ts with
  | nil => intro s _ _ _; exact ⟨[], rfl, rfl, by simp, rfl⟩
  | cons t ts ih =>
    intro s hr hok hne
    obtain ⟨_, _, _, heq⟩ := runTasks_cons_noError P ns s t ts hne
    rw [heq] at hne ⊢
    rw [hr] at hne ⊢
    obtain ⟨Lb, b1, b2, b3, b4, b5⟩ := runTask_block run P ns (s.emit (.group t.name (t.action run.destroy) "Started")) t hr
      (hok t (by simp))
    generalize runTask (s.emit (.group t.name (t.action run.destroy) "Started")) t P ns = r at hne b1 b5 ⊢
    obtain ⟨L', h1, h2, h3, h4⟩ := ih (r.1.emit (.group t.name (t.action run.destroy) "Finished")) b5
      (fun t' ht' => hok t' (by simp [ht'])) hne
    refine ⟨L' ++ (.group t.name (t.action run.destroy) "Finished" :: (Lb ++ [.group t.name (t.action run.destroy) "Started"])), ?_, ?_, ?_, ?_⟩
    · rw [h1, emit_events, b1, emit_events]; simp
    · simp only [List.reverse_append, List.reverse_cons, List.filterMap_append, List.reverse_nil, List.nil_append,
        List.filterMap_cons, opKey, List.flatMap_cons, h2, b2, List.append_assoc, List.singleton_append]
    · intro e he
      rcases List.mem_append.mp he with he | he
      · exact h3 e he
      · rcases List.mem_cons.mp he with he | he
        · subst he; trivial
        · rcases List.mem_append.mp he with he | he
          · exact b3 e he
          · rw [List.mem_singleton] at he; subst he; trivial
    · have hb : Lb.reverse.filter isGroupEv = [] := filter_group_nil _ (fun e he => b4 e (List.mem_reverse.mp he))
      simp only [List.reverse_append, List.reverse_cons, List.filter_append, List.reverse_nil, List.nil_append,
        List.filter_cons, isGroupEv, List.flatMap_cons, h4, hb, List.append_assoc,
        if_true, brackets, List.cons_append, List.nil_append]


/-! ## the id lists of the tasks of a plan are its layers -/

/-- objects of an apply / prune task -/
def opIdsK : TaskKind → List Id
  | .apply ids => ids
  | .prune ids => ids
  | _ => []
def applyIdsK : TaskKind → List Id
  | .apply ids => ids
  | _ => []
def pruneIdsK : TaskKind → List Id
  | .prune ids => ids
  | _ => []
def waitAIdsK : TaskKind → List Id
  | .wait ids .allCurrent => ids
  | _ => []
def waitPIdsK : TaskKind → List Id
  | .wait ids .allNotFound => ids
  | _ => []

def opIds (t : Task) : List Id := opIdsK t.kind
def applyIdsOf (t : Task) : List Id := applyIdsK t.kind
def pruneIdsOf (t : Task) : List Id := pruneIdsK t.kind
def waitAIdsOf (t : Task) : List Id := waitAIdsK t.kind
def waitPIdsOf (t : Task) : List Id := waitPIdsK t.kind

theorem layerTasks_flatMap_kind (φ : TaskKind → List Id) (isApply dry : Bool) : ∀ (L : List (List Id)) (c w : Nat),
    (layerTasks isApply dry L c w).1.flatMap (fun t => φ t.kind) =
      L.flatMap (fun l => φ (if isApply then .apply l else .prune l) ++
        (if dry then [] else φ (.wait l (if isApply then .allCurrent else .allNotFound)))) := by
  intro L
  induction L with
  | nil => intro c w; rfl
  | cons l ls ih =>
    intro c w
    simp only [layerTasks]
    cases dry with
    | true =>
      simp only [if_true, List.flatMap_cons, ih, List.append_nil]
      cases isApply <;> rfl
    | false =>
      simp only [Bool.false_eq_true, if_false, List.flatMap_cons, ih, List.append_assoc]
      cases isApply <;> rfl

theorem planTasks_flatMap_kind (φ : TaskKind → List Id) (h1 : ∀ ids, φ (.invAdd ids) = []) (h2 : ∀ p e, φ (.invSet p e) = [])
    (run : Run) (A Pi : List Id) (layers : List (List Id)) (prev : List Id) (pe : Bool) :
    (planTasks run A Pi layers prev pe).flatMap (fun t => φ t.kind) =
      (if A.isEmpty then [] else
        (Graph.hydrate Ordering.less (fun v => decide (v ∈ A)) layers).flatMap (fun l => φ (.apply l) ++
          (if decide (run.opts.dry ≠ .none) then [] else φ (.wait l .allCurrent)))) ++
      (if (run.destroy || !run.opts.noPrune) && !Pi.isEmpty then
        (Graph.reverseSetList (Graph.hydrate Ordering.less (fun v => decide (v ∈ Pi)) layers)).flatMap (fun l => φ (.prune l) ++
          (if decide (run.opts.dry ≠ .none) then [] else φ (.wait l .allNotFound)))
       else []) := by
  unfold planTasks
  simp only [List.flatMap_append, List.flatMap_cons, List.flatMap_nil, h2, List.append_nil]
  congr 1
  · have h0 : (if run.destroy = true then ([] : List Task) else [⟨"inventory-add-0", .invAdd A⟩]).flatMap (fun t => φ t.kind) = [] := by
      split
      · rfl
      · simp [h1]
    rw [h0, List.nil_append]
    split
    · rfl
    · rw [layerTasks_flatMap_kind]; rfl
  · split
    · rw [layerTasks_flatMap_kind]; rfl
    · rfl

theorem flatMap_append_nil (L : List (List Id)) : L.flatMap (fun l => l ++ ([] : List Id)) = L.flatten := by
  induction L with
  | nil => rfl
  | cons l ls _ => simp [List.flatMap_cons]

theorem flatMap_nil_fun (L : List (List Id)) : L.flatMap (fun _ => ([] : List Id) ++ ([] : List Id)) = [] := by
  induction L with
  | nil => rfl
  | cons l ls _ => simp [List.flatMap_cons]

section PlanIds
variable (run : Run) (A Pi : List Id) (layers : List (List Id)) (prev : List Id) (pe : Bool)

theorem planTasks_opIds :
    (planTasks run A Pi layers prev pe).flatMap opIds =
      (if A.isEmpty then [] else (Graph.hydrate Ordering.less (fun v => decide (v ∈ A)) layers).flatten) ++
      (if (run.destroy || !run.opts.noPrune) && !Pi.isEmpty then
        (Graph.reverseSetList (Graph.hydrate Ordering.less (fun v => decide (v ∈ Pi)) layers)).flatten else []) := by
  show (planTasks run A Pi layers prev pe).flatMap (fun t => opIdsK t.kind) = _
  rw [planTasks_flatMap_kind _ (fun _ => rfl) (fun _ _ => rfl)]
  simp only [opIdsK, ite_self, flatMap_append_nil]

theorem planTasks_applyIdsOf :
    (planTasks run A Pi layers prev pe).flatMap applyIdsOf =
      (if A.isEmpty then [] else (Graph.hydrate Ordering.less (fun v => decide (v ∈ A)) layers).flatten) := by
  show (planTasks run A Pi layers prev pe).flatMap (fun t => applyIdsK t.kind) = _
  rw [planTasks_flatMap_kind _ (fun _ => rfl) (fun _ _ => rfl)]
  simp [applyIdsK]

theorem planTasks_pruneIdsOf :
    (planTasks run A Pi layers prev pe).flatMap pruneIdsOf =
      (if (run.destroy || !run.opts.noPrune) && !Pi.isEmpty then
        (Graph.reverseSetList (Graph.hydrate Ordering.less (fun v => decide (v ∈ Pi)) layers)).flatten else []) := by
  show (planTasks run A Pi layers prev pe).flatMap (fun t => pruneIdsK t.kind) = _
  rw [planTasks_flatMap_kind _ (fun _ => rfl) (fun _ _ => rfl)]
  simp [pruneIdsK]

theorem planTasks_waitAIdsOf :
    (planTasks run A Pi layers prev pe).flatMap waitAIdsOf =
      (if A.isEmpty then [] else if decide (run.opts.dry ≠ .none) then []
        else (Graph.hydrate Ordering.less (fun v => decide (v ∈ A)) layers).flatten) := by
  show (planTasks run A Pi layers prev pe).flatMap (fun t => waitAIdsK t.kind) = _
  rw [planTasks_flatMap_kind _ (fun _ => rfl) (fun _ _ => rfl)]
  cases decide (run.opts.dry ≠ .none) <;>
    simp [waitAIdsK]

theorem planTasks_waitPIdsOf :
    (planTasks run A Pi layers prev pe).flatMap waitPIdsOf =
      (if (run.destroy || !run.opts.noPrune) && !Pi.isEmpty then (if decide (run.opts.dry ≠ .none) then []
        else (Graph.reverseSetList (Graph.hydrate Ordering.less (fun v => decide (v ∈ Pi)) layers)).flatten) else []) := by
  show (planTasks run A Pi layers prev pe).flatMap (fun t => waitPIdsK t.kind) = _
  rw [planTasks_flatMap_kind _ (fun _ => rfl) (fun _ _ => rfl)]
  cases decide (run.opts.dry ≠ .none) <;>
    simp [waitPIdsK]

end PlanIds


/-- **the id lists of the plan of `buildPlan`** (the prune objects not being in the apply set): no object is named by two apply / prune
tasks, nor by two delete waits; apply-side tasks name valid apply ids, delete-side tasks valid prune ids; with pruning enabled every
valid prune id is in a prune task -/
theorem plan_ids_facts (run : Run) (applyMs : List Manifest) (P : List Live) (prev : List Id) (pe : Bool)
    (hdisj : ∀ o ∈ P, ∀ m ∈ applyMs, m.id ≠ o.id) :
    ((buildPlan run applyMs P prev pe).tasks.flatMap opIds).Nodup ∧
    ((buildPlan run applyMs P prev pe).tasks.flatMap pruneIdsOf).Nodup ∧
    ((buildPlan run applyMs P prev pe).tasks.flatMap waitPIdsOf).Nodup ∧
    (∀ i ∈ (buildPlan run applyMs P prev pe).tasks.flatMap applyIdsOf, i ∈ (buildPlan run applyMs P prev pe).applyIds) ∧
    (∀ i ∈ (buildPlan run applyMs P prev pe).tasks.flatMap waitAIdsOf, i ∈ (buildPlan run applyMs P prev pe).applyIds) ∧
    (∀ i ∈ (buildPlan run applyMs P prev pe).tasks.flatMap pruneIdsOf, i ∈ (buildPlan run applyMs P prev pe).pruneIds) ∧
    (∀ i ∈ (buildPlan run applyMs P prev pe).tasks.flatMap waitPIdsOf, i ∈ (buildPlan run applyMs P prev pe).pruneIds) ∧
    ((run.destroy || !run.opts.noPrune) = true → ∀ i ∈ (buildPlan run applyMs P prev pe).pruneIds,
      i ∈ (buildPlan run applyMs P prev pe).tasks.flatMap pruneIdsOf) ∧
    (∀ i ∈ (buildPlan run applyMs P prev pe).tasks.flatMap pruneIdsOf, (run.destroy || !run.opts.noPrune) = true) := by
  obtain ⟨layers, pf1, pf2, _, pf4, pf5, pf6⟩ := plan_facts run applyMs P prev pe
  have hAP : ∀ a ∈ (buildPlan run applyMs P prev pe).applyIds, ∀ b ∈ (buildPlan run applyMs P prev pe).pruneIds, a ≠ b := by
    intro a ha b hb hab
    obtain ⟨⟨m, hm, hma⟩, _⟩ := (pf5 a).mp ha
    obtain ⟨⟨o, ho, hob⟩, _⟩ := (pf6 b).mp hb
    exact hdisj o ho m hm (by rw [hma, hob, hab])
  rw [pf1]
  generalize (buildPlan run applyMs P prev pe).applyIds = A at *
  generalize (buildPlan run applyMs P prev pe).pruneIds = Pi at *
  obtain ⟨hAnd, hAmem⟩ := hydrate_flatten Ordering.less A layers pf2
  obtain ⟨hPnd, hPmem⟩ := hydrate_flatten Ordering.less Pi layers pf2
  have hPLmem : ∀ i, i ∈ (Graph.reverseSetList (Graph.hydrate Ordering.less (fun v => decide (v ∈ Pi)) layers)).flatten ↔
      i ∈ layers.flatten ∧ i ∈ Pi := by
    intro i; rw [Graph.reverseSetList_flatten, List.mem_reverse]; exact hPmem i
  have hPLnd : (Graph.reverseSetList (Graph.hydrate Ordering.less (fun v => decide (v ∈ Pi)) layers)).flatten.Nodup := by
    rw [Graph.reverseSetList_flatten]; exact (List.reverse_perm _).nodup_iff.mpr hPnd
  rw [planTasks_opIds, planTasks_pruneIdsOf, planTasks_waitPIdsOf, planTasks_applyIdsOf, planTasks_waitAIdsOf]
  refine ⟨?_, ?_, ?_, ?_, ?_, ?_, ?_, ?_, ?_⟩
  · rw [List.nodup_append]
    refine ⟨by split <;> simp [hAnd], by split <;> simp [hPLnd], ?_⟩
    intro a ha b hb
    have ha' : a ∈ A := by
      split at ha
      · cases ha
      · exact ((hAmem a).mp ha).2
    have hb' : b ∈ Pi := by
      split at hb
      · exact ((hPLmem b).mp hb).2
      · cases hb
    exact hAP a ha' b hb'
  · split <;> simp [hPLnd]
  · split
    · split <;> simp [hPLnd]
    · simp
  · intro i hi
    split at hi
    · cases hi
    · exact ((hAmem i).mp hi).2
  · intro i hi
    split at hi
    · cases hi
    · split at hi
      · cases hi
      · exact ((hAmem i).mp hi).2
  · intro i hi
    split at hi
    · exact ((hPLmem i).mp hi).2
    · cases hi
  · intro i hi
    split at hi
    · split at hi
      · cases hi
      · exact ((hPLmem i).mp hi).2
    · cases hi
  · intro hen i hi
    have hne : Pi.isEmpty = false := by
      cases Pi with
      | nil => cases hi
      | cons a as => rfl
    simp only [hen, hne, Bool.not_false, Bool.and_self, if_true]
    exact (hPLmem i).mpr ⟨pf4 i hi, hi⟩
  · intro i hi
    split at hi
    · rename_i hc
      simp only [Bool.and_eq_true] at hc
      exact hc.1
    · cases hi


/-! ## exactly one result event per planned object -/

theorem taskOps_ids (run : Run) (t : Task) : (taskOps run t).map (·.2.2) = opIds t := by
  unfold taskOps opIds opIdsK
  cases t.kind <;> simp [List.map_map, Function.comp_def]

theorem flatMap_taskOps_ids (run : Run) (ts : List Task) : (ts.flatMap (taskOps run)).map (·.2.2) = ts.flatMap opIds := by
  induction ts with
  | nil => rfl
  | cons t ts ih => rw [List.flatMap_cons, List.flatMap_cons, List.map_append, ih, taskOps_ids]

theorem resultFor_true (g : String) (id : Id) (e : Ev) (h : resultFor g id e = true) : ∃ k st r, e = .op k g id st r := by
  cases e with
  | op k g' i st r =>
    simp only [resultFor, Bool.and_eq_true, decide_eq_true_eq] at h
    obtain ⟨rfl, rfl⟩ := h
    exact ⟨k, st, r, rfl⟩
  | _ => simp [resultFor] at h

/-- in a stream whose result events name pairwise different objects, the result event for a given object and group is unique -/
theorem result_unique (evs : List Ev) (hnd : ((evs.filterMap opKey).map (·.2.2)).Nodup) (hok : ∀ e ∈ evs, okOp e)
    (k g : String) (id : Id) (h : (k, g, id) ∈ evs.filterMap opKey) :
    ∃ st r, evs.filter (resultFor g id) = [.op k g id st r] ∧ (st = "Successful" ∨ st = "Skipped" ∨ st = "Failed") := by
  induction evs with
  | nil => cases h
  | cons e es ih =>
    cases e with
    | op k' g' i st r =>
      simp only [List.filterMap_cons, opKey, List.map_cons, List.nodup_cons] at hnd h
      rcases List.mem_cons.mp h with h | h
      · simp only [Prod.mk.injEq] at h
        obtain ⟨rfl, rfl, rfl⟩ := h
        refine ⟨st, r, ?_, hok (.op k g id st r) (by simp)⟩
        have hnil : es.filter (resultFor g id) = [] := by
          apply List.filter_eq_nil_iff.mpr
          intro e he hres
          obtain ⟨k2, st2, r2, rfl⟩ := resultFor_true g id e hres
          exact hnd.1 (List.mem_map.mpr ⟨(k2, g, id), List.mem_filterMap.mpr ⟨_, he, rfl⟩, rfl⟩)
        rw [List.filter_cons]
        simp [resultFor, hnil]
      · have hne : ¬ (i = id) := by
          intro hi
          subst hi
          exact hnd.1 (List.mem_map.mpr ⟨(k, g, i), h, rfl⟩)
        obtain ⟨st2, r2, h1, h2⟩ := ih hnd.2 (fun e he => hok e (by simp [he])) h
        refine ⟨st2, r2, ?_, h2⟩
        rw [List.filter_cons]
        simp [resultFor, hne, h1]
    | init _ | error _ | group _ _ _ | wait _ _ _ | status _ _ | validation _ _ =>
      simp only [List.filterMap_cons, opKey] at hnd h
      obtain ⟨st2, r2, h1, h2⟩ := ih hnd (fun e he => hok e (by simp [he])) h
      refine ⟨st2, r2, ?_, h2⟩
      rw [List.filter_cons]
      simp [resultFor, h1]

theorem preEv_quiet (e : Ev) (h : PreEv e) : opKey e = none ∧ isGroupEv e = false ∧ okOp e := by
  cases e <;> first | exact ⟨rfl, rfl, trivial⟩ | exact absurd h (by simp [PreEv])

/-- **the trace of a run without error event**: the run built a plan; in stream order, the result events are exactly those the tasks
of the plan owe (one per object of each apply / prune task, naming the task), each carries a result, and the group events are exactly
the brackets of the tasks of the plan, in plan order; no object is named by two apply / prune tasks -/
theorem run_trace (c : Cluster) (run : Run) (hne : NoError (runOne c run).events) :
    ∃ plan, runPlan c run = some plan ∧
      (runOne c run).events.reverse.filterMap opKey = plan.tasks.flatMap (taskOps run) ∧
      (∀ e ∈ (runOne c run).events, okOp e) ∧
      (runOne c run).events.reverse.filter isGroupEv = plan.tasks.flatMap (brackets run) ∧
      (plan.tasks.flatMap opIds).Nodup := by
  cases hp : runPlanObjs c run with
  | none =>
    obtain ⟨s, k, he⟩ := runOne_of_noPlan c run hp
    rw [he] at hne
    exact absurd rfl (hne _ (by simp) k)
  | some pp =>
    obtain ⟨plan, P⟩ := pp
    rcases runOne_of_plan c run plan P hp with ⟨s, k, he⟩ | heq
    · rw [he] at hne
      exact absurd rfl (hne _ (by simp) k)
    · obtain ⟨hg, prev, pe, hplan⟩ := runPlanObjs_some c run plan P hp
      obtain ⟨f1, _, _, _, _, _, _, fev⟩ := taskStart_fields c run plan P
      have hA : ∀ m ∈ applySet run, m ∈ run.objs := by
        intro m hm; unfold applySet at hm; split at hm
        · cases hm
        · exact hm
      have hok : ∀ t ∈ plan.tasks, TaskOK run P t := by
        rw [hplan]; exact buildPlan_tasks_ok run (applySet run) P prev pe hA
      rw [heq] at hne ⊢
      obtain ⟨L, h1, h2, h3, h4⟩ := runTasks_trace run P _ plan.tasks (taskStart c run plan P) f1 hok hne
      have hnd : (plan.tasks.flatMap opIds).Nodup := by
        rw [hplan]
        refine (plan_ids_facts run (applySet run) P prev pe ?_).1
        intro o ho m hm hmo
        exact (CliUtils.ProvL.getPruneObjs_mem _ _ P hg o ho).2.1 (List.mem_map.mpr ⟨m, hm, hmo⟩)
      refine ⟨plan, by simp [runPlan, hp], ?_, ?_, ?_, hnd⟩
      · rw [h1, List.reverse_append, List.filterMap_append, h2,
          filterMap_opKey_nil _ (fun e he => (preEv_quiet e (fev e (List.mem_reverse.mp he))).1), List.nil_append]
      · intro e he
        rw [h1] at he
        rcases List.mem_append.mp he with he | he
        · exact h3 e he
        · exact (preEv_quiet e (fev e he)).2.2
      · rw [h1, List.reverse_append, List.filter_append, h4,
          filter_group_nil _ (fun e he => (preEv_quiet e (fev e (List.mem_reverse.mp he))).2.1), List.nil_append]

/-- … hence, for every key `(kind, group, object)` a task of the plan owes, the stream holds exactly one result event for that object
naming that group: it has that kind and carries a result -/
theorem run_result_unique (c : Cluster) (run : Run) (hne : NoError (runOne c run).events) :
    ∃ plan, runPlan c run = some plan ∧ ∀ t ∈ plan.tasks, ∀ key ∈ taskOps run t,
      ∃ st r, (runOne c run).events.filter (resultFor key.2.1 key.2.2) = [.op key.1 key.2.1 key.2.2 st r] ∧
        (st = "Successful" ∨ st = "Skipped" ∨ st = "Failed") := by
  obtain ⟨plan, hp, h1, h2, _, hnd⟩ := run_trace c run hne
  refine ⟨plan, hp, ?_⟩
  intro t ht key hkey
  obtain ⟨k, g, id⟩ := key
  have hrev : (runOne c run).events.filterMap opKey = (plan.tasks.flatMap (taskOps run)).reverse := by
    rw [← h1, List.filterMap_reverse, List.reverse_reverse]
  apply result_unique _ ?_ h2 k g id
  · rw [hrev, List.mem_reverse]
    exact List.mem_flatMap.mpr ⟨t, ht, hkey⟩
  · rw [hrev, List.map_reverse, flatMap_taskOps_ids]
    exact (List.reverse_perm _).nodup_iff.mpr hnd


/-! ## the request log only grows -/

/-- every request logged in `s` is still logged in `s'` -/
def Grows (s s' : St) : Prop := ∀ m ∈ s.muts, m ∈ s'.muts

theorem Grows.refl (s : St) : Grows s s := fun _ h => h
theorem Grows.trans {a b c : St} (h1 : Grows a b) (h2 : Grows b c) : Grows a c := fun m hm => h2 m (h1 m hm)
theorem Grows.of_eq {s s' : St} (h : s'.muts = s.muts) : Grows s s' := fun _ hm => h ▸ hm
theorem Grows.post {s s' s'' : St} (h : Grows s s') (e : s''.muts = s'.muts) : Grows s s'' := h.trans (Grows.of_eq e)
theorem Grows.invRead {s s' : St} (h : Grows s s') : Grows s s'.invRead.1 := h.post (CliUtils.Props.C10.invRead_muts s')

theorem Grows.mutReq {s s' : St} (h : Grows s s') (verb : String) (id : Id) (dry : Bool) (pre prop : String)
    (eff : Cluster → Cluster × String) : Grows s (s'.mutReq verb id dry pre prop eff).1 := by
  have hs := mutReq_spec s' verb id dry pre prop eff
  simp only [] at hs
  obtain ⟨⟨m, hm, _⟩, _⟩ := hs
  intro m' hm'
  rw [hm]
  exact List.mem_cons_of_mem _ (h m' hm')

theorem fold_grows {β : Type} (f : St → β → St) (l : List β) (hf : ∀ s b, Grows s (f s b)) (s : St) : Grows s (l.foldl f s) := by
  induction l generalizing s with
  | nil => exact Grows.refl s
  | cons b bs ih => exact (hf s b).trans (ih (f s b))

theorem applyOne_grows (group : String) (s : St) (id : Id) : Grows s (applyOne group s id) := by
  unfold applyOne
  cases hm : manifestOf s id with
  | none => exact Grows.refl s
  | some m =>
    simp only []
    cases hd : applyDecision s m with
    | fail r => exact Grows.of_eq rfl
    | skip r => exact Grows.of_eq rfl
    | go frm =>
      have hreq : ∀ (verb : String) (dry : Bool) (pre prop : String) (eff : Cluster → Cluster × String),
          Grows s (s.mutReq verb m.id dry pre prop eff).1 := fun verb dry pre prop eff => (Grows.refl s).mutReq verb m.id dry pre prop eff
      simp only [kubectlApply]
      split
      · unfold ssaApply
        simp only []
        split
        · exact (hreq _ _ _ _ _).post rfl
        · split
          · split
            · exact (hreq _ _ _ _ _).post rfl
            · split <;> exact (hreq _ _ _ _ _).post rfl
          · exact (hreq _ _ _ _ _).post rfl
      · unfold csaApply
        simp only []
        cases hg : s.get m.id with
        | none => exact Grows.of_eq rfl
        | some o =>
          cases o with
          | none =>
            simp only []
            split
            · exact Grows.of_eq rfl
            · split
              · exact (hreq _ _ _ _ _).post rfl
              · split <;> exact (hreq _ _ _ _ _).post rfl
          | some old =>
            simp only []
            split
            · exact Grows.of_eq rfl
            · split
              · exact (hreq _ _ _ _ _).post rfl
              · exact (hreq _ _ _ _ _).post rfl

theorem pruneOne_grows (group : String) (uids localNs : List String) (s : St) (live : Live) :
    Grows s (pruneOne group uids localNs s live) := by
  intro m hm
  rcases delete_authorised group uids localNs s live with h | ⟨m', h, _⟩
  · rw [h]; exact hm
  · rw [h]; exact List.mem_cons_of_mem _ hm

theorem mergeInv_grows (s : St) (ids : List Id) : Grows s (mergeInv s ids).1 := by
  unfold mergeInv
  simp only []
  repeat' split
  all_goals first
    | exact (Grows.refl s).invRead
    | exact (Grows.refl s).invRead.invRead
    | exact (Grows.refl s).invRead.mutReq _ _ _ _ _ _
    | exact (Grows.refl s).invRead.invRead.mutReq _ _ _ _ _ _

theorem runInvAdd_grows (s : St) (ids : List Id) : Grows s (runInvAdd s ids).1 := by
  unfold runInvAdd
  split
  · simp only []
    split
    · exact (Grows.refl s).mutReq _ _ _ _ _ _
    · exact ((Grows.refl s).mutReq _ _ _ _ _ _).trans (mergeInv_grows _ ids)
  · exact mergeInv_grows s ids

theorem runInvSet_grows (s : St) (prev : List Id) (pe : Bool) : Grows s (runInvSet s prev pe).1 := by
  unfold runInvSet
  split
  · exact Grows.refl s
  · split
    · unfold deleteInv
      simp only []
      repeat' split
      all_goals first
        | exact (Grows.refl s).invRead
        | exact (Grows.refl s).invRead.mutReq _ _ _ _ _ _
    · unfold replaceInv
      simp only []
      repeat' split
      all_goals first
        | exact Grows.refl s
        | exact (Grows.refl s).invRead
        | exact (Grows.refl s).invRead.invRead
        | exact (Grows.refl s).invRead.invRead.mutReq _ _ _ _ _ _

/-! ## the actuation table through a wait task: only the reconcile status of the task's own objects changes -/

/-- a change of one record that leaves the static fields alone, and the whole record if `y` is not waited for -/
def RecFn (ids : List Id) (y : Id) (f : Rec Id → Rec Id) : Prop :=
  (∀ r, Wait.static (f r) = Wait.static r) ∧ (y ∉ ids → ∀ r, f r = r)

/-- first records: changed by such functions only -/
def MgrRel (ids : List Id) (m m' : Mgr Id) : Prop := ∀ y, ∃ f, RecFn ids y f ∧ m'.find? y = (m.find? y).map f

theorem MgrRel.refl (ids : List Id) (m : Mgr Id) : MgrRel ids m m :=
  fun y => ⟨id, ⟨fun _ => rfl, fun _ _ => rfl⟩, by simp⟩

theorem MgrRel.trans {ids : List Id} {a b c : Mgr Id} (h1 : MgrRel ids a b) (h2 : MgrRel ids b c) : MgrRel ids a c := by
  intro y
  obtain ⟨f, ⟨f1, f2⟩, hf⟩ := h1 y
  obtain ⟨g, ⟨g1, g2⟩, hg⟩ := h2 y
  refine ⟨g ∘ f, ⟨fun r => (g1 (f r)).trans (f1 r), fun hy r => by simp [Function.comp, f2 hy r, g2 hy]⟩, ?_⟩
  rw [hg, hf, Option.map_map]

theorem MgrRel.of_find {ids : List Id} {m m' : Mgr Id} (h : ∀ y, m'.find? y = m.find? y) : MgrRel ids m m' :=
  fun y => ⟨id, ⟨fun _ => rfl, fun _ _ => rfl⟩, by simp [h y]⟩

theorem statusUpdate_rel (w : Wait.WState Id) (id : Id) (o : Wait.Obs) : MgrRel w.ids w.mgr (Wait.statusUpdate w id o).mgr := by
  unfold Wait.statusUpdate
  simp only []
  split
  · rename_i hin
    have h := Wait.inner_mgr_events (o := o) { w with cache := (id, o) :: w.cache } id (by simp)
    rw [Wait.endIf_mgr, h.2.1]
    cases hd : Wait.decide? { w with cache := (id, o) :: w.cache } id o with
    | none => exact MgrRel.refl _ _
    | some ev =>
      simp only []
      intro y
      refine ⟨fun r => if y = id then { r with reconcile := Wait.rcOfEv ev } else r, ⟨?_, ?_⟩, Wait.find_setReconcile_getD _ _ _ _⟩
      · intro r; split <;> rfl
      · intro hy r
        have : ¬ y = id := fun e => hy (e ▸ hin)
        simp [this]
  · exact MgrRel.refl _ _

open CliUtils.TimeoutL in
/-- **a wait task only writes the reconcile status of its own objects** -/
theorem runWait_rel (group : String) (s : St) (ids : List Id) (cond : Wait.Cond) :
    MgrRel ids s.mgr (runWait group s ids cond).1.mgr := by
  have hend : WInv ids (waitEnd group s ids cond).w ∧ MgrRel ids s.mgr (waitEnd group s ids cond).s.mgr := by
    apply waitEnd_induct (fun ws => WInv ids ws.w ∧ MgrRel ids s.mgr ws.s.mgr)
    · refine ⟨start_inv ids cond s.mgr s.cache, ?_⟩
      obtain ⟨_, _, _, ff4, _⟩ := flushWait_frame group
        { { s with waitIdx := s.waitIdx + 1 } with mgr := (Wait.start ids cond s.mgr s.cache).mgr } (Wait.start ids cond s.mgr s.cache) 0
      simp only []
      rw [ff4]
      intro y
      refine ⟨_, ⟨?_, ?_⟩, (Wait.start_find ids cond s.mgr s.cache y).1⟩
      · intro r; split <;> rfl
      · intro hy r; simp [hy]
    · intro ws d h
      unfold deliverOne
      simp only []
      split
      · exact h
      · split
        · exact h
        · split
          · exact h
          · obtain ⟨_, _, _, _, f5, _⟩ := deliverState_frame ws.s d
            generalize deliverState ws.s d = s2 at *
            have hw' := statusUpdate_inv ids { ws.w with mgr := s2.mgr } d.id (obsOf s2.cl d) h.1
            have hrel := statusUpdate_rel { ws.w with mgr := s2.mgr } d.id (obsOf s2.cl d)
            generalize Wait.statusUpdate { ws.w with mgr := s2.mgr } d.id (obsOf s2.cl d) = w' at *
            obtain ⟨_, _, _, ff4, _⟩ := flushWait_frame group { s2 with mgr := w'.mgr } w' ws.w.events.length
            refine ⟨hw', ?_⟩
            simp only [] at ff4 hrel ⊢
            rw [ff4]
            rw [h.1.1, f5] at hrel
            exact h.2.trans hrel
    · intro ws h _; exact h
  rw [runWait_eq]
  split
  · exact hend.2
  · split
    · exact hend.2
    · obtain ⟨_, _, _, ff4, _⟩ := flushWait_frame group
        { (waitEnd group s ids cond).s with
            mgr := (Wait.timeout { (waitEnd group s ids cond).w with mgr := (waitEnd group s ids cond).s.mgr }).mgr }
        (Wait.timeout { (waitEnd group s ids cond).w with mgr := (waitEnd group s ids cond).s.mgr })
        (waitEnd group s ids cond).w.events.length
      simp only [] at ff4 ⊢
      rw [ff4, timeout_mgr]
      refine hend.2.trans ?_
      intro y
      refine ⟨_, ⟨?_, ?_⟩, find_markTimeout _ _ y⟩
      · intro r; split <;> rfl
      · intro hy r
        have : y ∉ (waitEnd group s ids cond).w.pending := fun hp => hy (hend.1.2.2 y hp)
        simp [this]

theorem rec_eq_of_static {r r' : Rec Id} (h : Wait.static r' = Wait.static r) (hrc : r'.reconcile = r.reconcile) : r' = r := by
  obtain ⟨a, b, c, d, e⟩ := static_fields h
  cases r; cases r'
  simp only [] at a b c d e hrc
  subst a b c d e hrc
  rfl


/-! ## delete-side bookkeeping (behind `C05.blocked_dependency_stays`) -/

/-- the record of an object that was deleted and observed gone -/
def Deleted (m : Mgr Id) (y : Id) : Prop :=
  ∃ r, m.find? y = some r ∧ r.strategy = .delete ∧ r.actuation = .succeeded ∧ r.reconcile = .succeeded

/-- outside dry-run a successful delete record for the pruned object means a delete request was logged for it -/
theorem pruneOne_succ_req (group : String) (uids localNs : List String) (s : St) (live : Live) (hd : s.run.opts.dry = .none)
    (r : Rec Id) (hr : (pruneOne group uids localNs s live).mgr.find? live.id = some r) (ha : r.actuation = .succeeded) :
    ∃ m ∈ (pruneOne group uids localNs s live).muts, m.verb = "delete" ∧ m.id = live.id := by
  have hdry : dryOf s = false := by unfold dryOf; rw [hd]; simp
  have hno : ∀ (t : St) (a : Actuation), a ≠ .succeeded → (t.mgr.add live.id .delete a "" 0).find? live.id = some r → False := by
    intro t a hne h
    rw [find_add_same] at h
    injection h with h
    subst h
    exact hne ha
  cases hdec : pruneDecision uids localNs s live <;> simp only [pruneOne, hdec] at hr ⊢
  · exact (hno s .failed (by simp) hr).elim
  · exact (hno s .skipped (by simp) hr).elim
  · exact (hno { s with abandoned := s.abandoned ++ [live.id] } .skipped (by simp) hr).elim
  · split at hr
    · exact (hno _ .skipped (by simp) hr).elim
    · exact (hno _ .failed (by simp) hr).elim
  · exact (hno s .skipped (by simp) hr).elim
  · exact (hno s .failed (by simp) hr).elim
  · rw [hdry] at hr
    exact (hno s .skipped (by simp) hr).elim
  · exfalso
    unfold pruneDecision at hdec
    rw [hdry] at hdec
    simp only [Bool.false_eq_true, if_false] at hdec
    split at hdec
    · cases hdec
    · split at hdec
      · split at hdec <;> cases hdec
      · split at hdec
        · cases hdec
        · split at hdec
          · cases hdec
          · split at hdec
            · cases hdec
            · cases hdec
            · split at hdec <;> cases hdec
  · have h := mutReq_spec s "delete" live.id false live.uid (propagationOf s) (deleteEffect (hasFinalizer s.run live.id) live)
    simp only [] at h
    obtain ⟨⟨m, hm, hv, hid, _⟩, _⟩ := h
    refine ⟨m, ?_, hv, hid⟩
    split <;> simp [pruneOk, pruneFail, hm]

/-- **the delete-side bookkeeping of a run** (outside dry-run), indexed by the ids still to be pruned (`RP`) and the ids whose delete
wait is still to come (`RW`) -/
structure KS (x : Ctx) (G : Graph.Adj Id) (E : List (Id × Id)) (Pi : List Id) (s : St) (RP RW : List Id) : Prop where
  inv : OrderL.Inv x.run G E s
  pend : ∀ i ∈ RP, ∃ r, s.mgr.find? i = some r ∧ r.actuation = .pending
  rcp : ∀ i ∈ RW, ∀ r, s.mgr.find? i = some r → r.reconcile = .pending
  recP : ∀ r ∈ s.mgr, r.strategy = .delete → ∃ l ∈ x.P, l.id = r.id
  dep : ∀ m ∈ s.muts, m.verb = "delete" → m.id ≠ invObjId → ∀ y ∈ dependentsOrdered E m.id, Deleted s.mgr y
  req : ∀ y r, s.mgr.find? y = some r → r.strategy = .delete → r.actuation = .succeeded →
    ∃ m ∈ s.muts, m.verb = "delete" ∧ m.id = y
  done : ∀ i ∈ Pi, i ∈ RP ∨ ∃ r, s.mgr.find? i = some r ∧ r.strategy = .delete ∧ r.actuation ≠ .pending

/-- the ids of the index lists are prune objects -/
structure KSide (x : Ctx) (Pi RP RW : List Id) : Prop where
  hPi : ∀ i ∈ Pi, ∃ l ∈ x.P, l.id = i
  hRP : ∀ i ∈ RP, ∃ l ∈ x.P, l.id = i
  hRW : ∀ i ∈ RW, ∃ l ∈ x.P, l.id = i

section KSteps
variable {x : Ctx} {G : Graph.Adj Id} {E : List (Id × Id)} {Pi : List Id}

/-- a step that leaves the records of the prune objects alone and logs no delete request of an object -/
theorem KS.frameP {s s' : St} {RP RW : List Id} (h : KS x G E Pi s RP RW) (hs : KSide x Pi RP RW) (hinv : OrderL.Inv x.run G E s')
    (hg : Grows s s') (hnew : ∀ m ∈ s'.muts, m ∈ s.muts ∨ (m.verb = "delete" → m.id = invObjId))
    (hfind : ∀ y, (∃ l ∈ x.P, l.id = y) → s'.mgr.find? y = s.mgr.find? y)
    (hrec : ∀ r ∈ s'.mgr, r.strategy = .delete → ∃ l ∈ x.P, l.id = r.id) : KS x G E Pi s' RP RW := by
  have hdelP : ∀ y, Deleted s.mgr y → ∃ l ∈ x.P, l.id = y := by
    rintro y ⟨r, hr, hst, _⟩
    obtain ⟨hm, hid⟩ := find_mem _ _ _ hr
    rw [← hid]; exact h.recP r hm hst
  refine ⟨hinv, ?_, ?_, hrec, ?_, ?_, ?_⟩
  · intro i hi
    rw [hfind i (hs.hRP i hi)]; exact h.pend i hi
  · intro i hi r hr
    rw [hfind i (hs.hRW i hi)] at hr; exact h.rcp i hi r hr
  · intro m hm hv hne y hy
    have hm' : m ∈ s.muts := by
      rcases hnew m hm with h1 | h1
      · exact h1
      · exact absurd (h1 hv) hne
    have hdel := h.dep m hm' hv hne y hy
    obtain ⟨r, hr, rest⟩ := hdel
    exact ⟨r, by rw [hfind y (hdelP y ⟨r, hr, rest⟩)]; exact hr, rest⟩
  · intro y r hr hst ha
    obtain ⟨hm, hid⟩ := find_mem _ _ _ hr
    have hP : ∃ l ∈ x.P, l.id = y := by rw [← hid]; exact hrec r hm hst
    rw [hfind y hP] at hr
    obtain ⟨m, hm1, hm2⟩ := h.req y r hr hst ha
    exact ⟨m, hg m hm1, hm2⟩
  · intro i hi
    rcases h.done i hi with h1 | h1
    · exact Or.inl h1
    · right; rw [hfind i (hs.hPi i hi)]; exact h1

theorem KS.emit {s : St} {RP RW : List Id} (h : KS x G E Pi s RP RW) (e : Ev) (he : OrderL.Neutral e) : KS x G E Pi (s.emit e) RP RW :=
  ⟨h.inv.emit_neutral e he, h.pend, h.rcp, h.recP, h.dep, h.req, h.done⟩

theorem KS.apply1 (hx : CxOK x) {s : St} {RP RW : List Id} (h : KS x G E Pi s RP RW) (hs : KSide x Pi RP RW) (g : String) (X : Id)
    (hX : X ∈ x.A) : KS x G E Pi (applyOne g s X) RP RW := by
  obtain ⟨_, _, _, _, _, hcase⟩ := applyOne_fx g s X (by rw [h.inv.run]; exact hx.dry)
  have hne : ∀ y, (∃ l ∈ x.P, l.id = y) → y ≠ X := by
    rintro y ⟨l, hl, rfl⟩
    exact hx.disj X hX l hl
  refine h.frameP hs (OrderL.applyOne_inv g s X h.inv) (applyOne_grows g s X) ?_ ?_ ?_
  · intro m hm
    rcases CliUtils.ProvL.applyOne_adds g s X m hm with h1 | ⟨h1, _⟩
    · exact Or.inl h1
    · right
      intro hv
      rcases h1 with h1 | h1 <;> (rw [h1] at hv; exact absurd hv (by decide))
  · intro y hy
    rcases hcase with ⟨_, hm, _⟩ | ⟨a, _, _, hm, _⟩ | ⟨uid, gen, o, hm, _, _⟩
    · rw [hm]
    · rw [hm, find_add_other _ _ _ _ _ _ _ (hne y hy)]
    · rw [hm, find_add_other _ _ _ _ _ _ _ (hne y hy)]
  · intro r hr hst
    rcases hcase with ⟨_, hm, _⟩ | ⟨a, _, _, hm, _⟩ | ⟨uid, gen, o, hm, _, _⟩
    · rw [hm] at hr; exact h.recP r hr hst
    · rw [hm] at hr
      rcases mem_set _ _ _ hr with hr | hr
      · subst hr; simp at hst
      · exact h.recP r hr hst
    · rw [hm] at hr
      rcases mem_set _ _ _ hr with hr | hr
      · subst hr; simp at hst
      · exact h.recP r hr hst

theorem KS.applyFold (hx : CxOK x) {RP RW : List Id} (hs : KSide x Pi RP RW) (g : String) (l : List Id) (s : St)
    (h : KS x G E Pi s RP RW) (hl : ∀ i ∈ l, i ∈ x.A) : KS x G E Pi (l.foldl (applyOne g) s) RP RW := by
  induction l generalizing s with
  | nil => exact h
  | cons i is ih =>
    simp only [List.foldl_cons]
    exact ih _ (h.apply1 hx hs g i (hl i (by simp))) (fun j hj => hl j (by simp [hj]))

/-- a wait task for objects of the apply set -/
theorem KS.waitA (hx : CxOK x) {s : St} {RP RW : List Id} (h : KS x G E Pi s RP RW) (hs : KSide x Pi RP RW) (g : String) (l : List Id)
    (cond : Wait.Cond) (hl : ∀ i ∈ l, i ∈ x.A) : KS x G E Pi (runWait g s l cond).1 RP RW := by
  have hq := OrderL.runWait_quiet g s l cond
  refine h.frameP hs (h.inv.quiet hq) (Grows.of_eq hq.muts) (fun m hm => Or.inl (hq.muts ▸ hm)) ?_ ?_
  · rintro y ⟨l0, hl0, rfl⟩
    have hy : l0.id ∉ l := fun hin => hx.disj _ (hl _ hin) l0 hl0 rfl
    obtain ⟨f, ⟨_, f2⟩, hf⟩ := runWait_rel g s l cond l0.id
    rw [hf]
    cases s.mgr.find? l0.id with
    | none => rfl
    | some r => simp [f2 hy r]
  · intro r' hr' hst
    obtain ⟨r, hr0, hstat⟩ := (runWait_static g s l cond).2 r' hr'
    obtain ⟨e1, e2, _⟩ := static_fields hstat
    rw [e1]; exact h.recP r hr0 (by rw [← e2]; exact hst)

theorem KS.invAdd {s : St} {RP RW : List Id} (h : KS x G E Pi s RP RW) (hs : KSide x Pi RP RW) (ids : List Id) (g : String)
    (rest : List Ev) (hev : s.events = .group g "Inventory" "Started" :: rest) : KS x G E Pi (runInvAdd s ids).1 RP RW := by
  obtain ⟨_, b, _⟩ := runInvAdd_book s ids
  refine h.frameP hs (OrderL.runInvAdd_inv s ids h.inv g rest hev) (runInvAdd_grows s ids) ?_ (fun y _ => by rw [b])
    (by rw [b]; exact h.recP)
  intro m hm
  rcases CliUtils.ProvL.runInvAdd_adds s ids m hm with h1 | h1 | ⟨_, h1, _⟩
  · exact Or.inl h1
  · exact Or.inr (fun _ => h1)
  · right; intro hv; rw [h1] at hv; exact absurd hv (by decide)

theorem KS.invSet {s : St} {RP RW : List Id} (h : KS x G E Pi s RP RW) (hs : KSide x Pi RP RW) (prev : List Id) (pe : Bool) :
    KS x G E Pi (runInvSet s prev pe).1 RP RW := by
  have f := CliUtils.HistoryL.runInvSet_objsFrame s prev pe
  refine h.frameP hs (OrderL.runInvSet_inv s prev pe h.inv) (runInvSet_grows s prev pe) ?_ (fun y _ => by rw [f.mgr])
    (by rw [f.mgr]; exact h.recP)
  intro m hm
  rcases CliUtils.ProvL.runInvSet_adds s prev pe m hm with h1 | h1
  · exact Or.inl h1
  · exact Or.inr (fun _ => h1)

/-- one prune step, for the head of the ids still to be pruned -/
theorem KS.prune1 (hx : CxOK x) {s : St} {RP RW : List Id} (g : String) (uids ns : List String) (live : Live) (hl : live ∈ x.P)
    (h : KS x G E Pi s (live.id :: RP) RW) (hnd : (live.id :: RP).Nodup) : KS x G E Pi (pruneOne g uids ns s live) RP RW := by
  have hd : s.run.opts.dry = .none := by rw [h.inv.run]; exact hx.dry
  have hdry : dryOf s = false := by unfold dryOf; rw [hd]; simp
  obtain ⟨_, _, _, _, _, _, _, a, uid, hm, hap, _⟩ := pruneOne_fx g uids ns s live hd
  have hgrow := pruneOne_grows g uids ns s live
  have hauth := delete_authorised g uids ns s live
  have hreq := pruneOne_succ_req g uids ns s live hd
  have hinv := OrderL.pruneOne_inv g uids ns s live h.inv
  generalize pruneOne g uids ns s live = s' at *
  rw [List.nodup_cons] at hnd
  obtain ⟨r0, hr0, hr0p⟩ := h.pend live.id (by simp)
  -- an object recorded as deleted is not the one being pruned
  have hdel_ne : ∀ y, Deleted s.mgr y → y ≠ live.id := by
    rintro y ⟨r, hr, _, ha, _⟩ rfl
    rw [hr0] at hr; injection hr with hr; subst hr
    rw [hr0p] at ha; cases ha
  have hdel_keep : ∀ y, Deleted s.mgr y → Deleted s'.mgr y := by
    intro y hy
    obtain ⟨r, hr, rest⟩ := hy
    exact ⟨r, by rw [hm, find_add_other _ _ _ _ _ _ _ (hdel_ne y ⟨r, hr, rest⟩)]; exact hr, rest⟩
  refine ⟨hinv, ?_, ?_, ?_, ?_, ?_, ?_⟩
  · intro i hi
    have hne : i ≠ live.id := fun e => hnd.1 (e ▸ hi)
    rw [hm, find_add_other _ _ _ _ _ _ _ hne]
    exact h.pend i (by simp [hi])
  · intro i hi r hr
    by_cases hne : i = live.id
    · subst hne
      rw [hm, find_add_same] at hr
      injection hr with hr; subst hr; rfl
    · rw [hm, find_add_other _ _ _ _ _ _ _ hne] at hr
      exact h.rcp i hi r hr
  · intro r hr hst
    rw [hm] at hr
    rcases mem_set _ _ _ hr with hr | hr
    · subst hr; exact ⟨live, hl, rfl⟩
    · exact h.recP r hr hst
  · intro m hmem hv hne y hy
    rcases hauth with hau | ⟨m', hau, hid, _, hcase⟩
    · rw [hau] at hmem
      exact hdel_keep y (h.dep m hmem hv hne y hy)
    · rw [hau] at hmem
      rcases List.mem_cons.mp hmem with hmm | hmm
      · subst hmm
        rcases hcase with ⟨_, hguard, _⟩ | ⟨hv', _⟩
        · have hpass := (CliUtils.Props.C04.depFilter_pass_iff _ _ _ _ _).mp hguard.dependents
          rw [h.inv.edges, ← hid, hdry] at hpass
          obtain ⟨_, r, hr, hst, ha, hrc⟩ := hpass y hy
          rcases hrc with hrc | hrc
          · cases hrc
          · exact hdel_keep y ⟨r, hr, hst, ha, hrc⟩
        · rw [hv'] at hv; exact absurd hv (by decide)
      · exact hdel_keep y (h.dep m hmm hv hne y hy)
  · intro y r hr hst ha
    by_cases hne : y = live.id
    · subst hne; exact hreq r hr ha
    · rw [hm, find_add_other _ _ _ _ _ _ _ hne] at hr
      obtain ⟨m, hm1, hm2⟩ := h.req y r hr hst ha
      exact ⟨m, hgrow m hm1, hm2⟩
  · intro i hi
    by_cases hne : i = live.id
    · subst hne
      right
      exact ⟨_, by rw [hm]; exact find_add_same _ _ _ _ _ _, rfl, hap⟩
    · rcases h.done i hi with h1 | h1
      · rcases List.mem_cons.mp h1 with h1 | h1
        · exact absurd h1 hne
        · exact Or.inl h1
      · right; rw [hm, find_add_other _ _ _ _ _ _ _ hne]; exact h1

theorem KS.pruneFold (hx : CxOK x) {RP RW : List Id} (g : String) (uids ns : List String) (lives : List Live) (s : St)
    (hl : ∀ l ∈ lives, l ∈ x.P) (h : KS x G E Pi s (lives.map (·.id) ++ RP) RW) (hnd : (lives.map (·.id) ++ RP).Nodup) :
    KS x G E Pi (lives.foldl (pruneOne g uids ns) s) RP RW := by
  induction lives generalizing s with
  | nil => exact h
  | cons l ls ih =>
    simp only [List.foldl_cons]
    simp only [List.map_cons, List.cons_append] at h hnd
    exact ih _ (fun o ho => hl o (by simp [ho])) (KS.prune1 hx g uids ns l (hl l (by simp)) h hnd) (List.nodup_cons.mp hnd).2

/-- the delete wait of the objects just pruned -/
theorem KS.waitP {s : St} {RP RW : List Id} (g : String) (l : List Id) (h : KS x G E Pi s RP (l ++ RW)) (hnd : (l ++ RW).Nodup) :
    KS x G E Pi (runWait g s l .allNotFound).1 RP RW := by
  have hq := OrderL.runWait_quiet g s l .allNotFound
  have hrel := runWait_rel g s l .allNotFound
  have hms := (runWait_static g s l .allNotFound).2
  generalize (runWait g s l .allNotFound).1 = s' at *
  have hkeep : ∀ y, y ∉ l → s'.mgr.find? y = s.mgr.find? y := by
    intro y hy
    obtain ⟨f, ⟨_, f2⟩, hf⟩ := hrel y
    rw [hf]
    cases s.mgr.find? y with
    | none => rfl
    | some r => simp [f2 hy r]
  have hfwd : ∀ y r, s.mgr.find? y = some r → ∃ r', s'.mgr.find? y = some r' ∧ Wait.static r' = Wait.static r := by
    intro y r hr
    obtain ⟨f, ⟨f1, _⟩, hf⟩ := hrel y
    exact ⟨f r, by rw [hf, hr]; rfl, f1 r⟩
  have hbwd : ∀ y r', s'.mgr.find? y = some r' → ∃ r, s.mgr.find? y = some r ∧ Wait.static r' = Wait.static r := by
    intro y r' hr'
    obtain ⟨f, ⟨f1, _⟩, hf⟩ := hrel y
    rw [hf] at hr'
    cases hfind : s.mgr.find? y with
    | none => rw [hfind] at hr'; cases hr'
    | some r =>
      rw [hfind] at hr'
      simp only [Option.map_some, Option.some.injEq] at hr'
      exact ⟨r, rfl, by rw [← hr']; exact f1 r⟩
  have hdel_out : ∀ y, Deleted s.mgr y → y ∉ l := by
    rintro y ⟨r, hr, _, _, hrc⟩ hin
    have := h.rcp y (by simp [hin]) r hr
    rw [this] at hrc; cases hrc
  refine ⟨h.inv.quiet hq, ?_, ?_, ?_, ?_, ?_, ?_⟩
  · intro i hi
    obtain ⟨r, hr, hp⟩ := h.pend i hi
    obtain ⟨r', hr', hst⟩ := hfwd i r hr
    exact ⟨r', hr', by rw [(static_fields hst).2.2.1]; exact hp⟩
  · intro i hi r hr
    have hout : i ∉ l := fun hin => (List.nodup_append.mp hnd).2.2 i hin i hi rfl
    rw [hkeep i hout] at hr
    exact h.rcp i (by simp [hi]) r hr
  · intro r' hr' hst
    obtain ⟨r, hr0, hstat⟩ := hms r' hr'
    obtain ⟨e1, e2, _⟩ := static_fields hstat
    rw [e1]; exact h.recP r hr0 (by rw [← e2]; exact hst)
  · intro m hm hv hne y hy
    rw [hq.muts] at hm
    obtain ⟨r, hr, rest⟩ := h.dep m hm hv hne y hy
    exact ⟨r, by rw [hkeep y (hdel_out y ⟨r, hr, rest⟩)]; exact hr, rest⟩
  · intro y r' hr' hst ha
    obtain ⟨r, hr, hstat⟩ := hbwd y r' hr'
    obtain ⟨_, e2, e3, _⟩ := static_fields hstat
    obtain ⟨m, hm1, hm2⟩ := h.req y r hr (by rw [← e2]; exact hst) (by rw [← e3]; exact ha)
    exact ⟨m, by rw [hq.muts]; exact hm1, hm2⟩
  · intro i hi
    rcases h.done i hi with h1 | ⟨r, hr, hst, ha⟩
    · exact Or.inl h1
    · obtain ⟨r', hr', hstat⟩ := hfwd i r hr
      obtain ⟨_, e2, e3, _⟩ := static_fields hstat
      exact Or.inr ⟨r', hr', by rw [e2]; exact hst, by rw [e3]; exact ha⟩

end KSteps


/-! ## an induction over the runner, indexed by the tasks still to run -/

open CliUtils.Props.C13 in
/-- a property of (state, tasks still to run) carried by `Finished` events and by every task (entered through its `Started` event)
holds, with no task left, at the end of a run of the task list without error event -/
theorem runTasks_ind_noError (P : List Live) (ns : List String) (I : St → List Task → Prop)
    (hfin : ∀ (s : St) (ts : List Task) (n a : String), I s ts → I (s.emit (.group n a "Finished")) ts)
    (hstep : ∀ (t : Task) (ts : List Task) (s : St), I s (t :: ts) →
      I (runTask (s.emit (.group t.name (t.action s.run.destroy) "Started")) t P ns).1 ts) :
    ∀ (ts : List Task) (s : St), I s ts → NoError (runTasks P ns s ts).events → I (runTasks P ns s ts) [] := by
  intro ts
  induction ts with
  | nil => intro s h _; exact h
  | cons t ts ih =>
    intro s h hne
    obtain ⟨_, _, _, heq⟩ := runTasks_cons_noError P ns s t ts hne
    rw [heq] at hne ⊢
    exact ih _ (hfin _ _ _ _ (hstep t ts s h)) hne

/-- static facts about the tasks still to run: apply-side tasks name ids of `x.A`, delete-side tasks prune objects, each once -/
structure Shape (x : Ctx) (ts : List Task) : Prop where
  ap : ∀ i ∈ ts.flatMap applyIdsOf, i ∈ x.A
  wa : ∀ i ∈ ts.flatMap waitAIdsOf, i ∈ x.A
  pr : ∀ i ∈ ts.flatMap pruneIdsOf, ∃ l ∈ x.P, l.id = i
  wp : ∀ i ∈ ts.flatMap waitPIdsOf, ∃ l ∈ x.P, l.id = i
  ndP : (ts.flatMap pruneIdsOf).Nodup
  ndW : (ts.flatMap waitPIdsOf).Nodup

theorem Shape.tail {x : Ctx} {t : Task} {ts : List Task} (h : Shape x (t :: ts)) : Shape x ts :=
  ⟨fun i hi => h.ap i (by rw [List.flatMap_cons]; exact List.mem_append_right _ hi),
   fun i hi => h.wa i (by rw [List.flatMap_cons]; exact List.mem_append_right _ hi),
   fun i hi => h.pr i (by rw [List.flatMap_cons]; exact List.mem_append_right _ hi),
   fun i hi => h.wp i (by rw [List.flatMap_cons]; exact List.mem_append_right _ hi),
   by have := h.ndP; rw [List.flatMap_cons] at this; exact (List.nodup_append.mp this).2.1,
   by have := h.ndW; rw [List.flatMap_cons] at this; exact (List.nodup_append.mp this).2.1⟩

/-- the bookkeeping invariant, indexed by the tasks still to run -/
def KI (x : Ctx) (G : Graph.Adj Id) (E : List (Id × Id)) (Pi : List Id) (s : St) (ts : List Task) : Prop :=
  Shape x ts ∧ (∀ i ∈ Pi, ∃ l ∈ x.P, l.id = i) ∧ KS x G E Pi s (ts.flatMap pruneIdsOf) (ts.flatMap waitPIdsOf)

theorem KI.step {x : Ctx} {G : Graph.Adj Id} {E : List (Id × Id)} {Pi : List Id} (hx : CxOK x) (ns : List String) (t : Task)
    (ts : List Task) (s : St) (h : KI x G E Pi s (t :: ts)) :
    KI x G E Pi (runTask (s.emit (.group t.name (t.action s.run.destroy) "Started")) t x.P ns).1 ts := by
  obtain ⟨hsh, hPi, hks⟩ := h
  refine ⟨hsh.tail, hPi, ?_⟩
  have hside : KSide x Pi (ts.flatMap pruneIdsOf) (ts.flatMap waitPIdsOf) := ⟨hPi, hsh.tail.pr, hsh.tail.wp⟩
  have h1 := hks.emit (.group t.name (t.action s.run.destroy) "Started") trivial
  have hev : (s.emit (.group t.name (t.action s.run.destroy) "Started")).events =
      .group t.name (t.action s.run.destroy) "Started" :: s.events := rfl
  generalize s.emit (.group t.name (t.action s.run.destroy) "Started") = s1 at h1 hev ⊢
  have hap := hsh.ap
  have hwa := hsh.wa
  have hpr := hsh.pr
  have hndP := hsh.ndP
  have hndW := hsh.ndW
  rw [List.flatMap_cons] at h1 hap hwa hpr hndP hndW
  rw [List.flatMap_cons] at h1
  unfold runTask
  cases hk : t.kind with
  | invAdd ids =>
    have e1 : pruneIdsOf t = [] := by simp [pruneIdsOf, hk, pruneIdsK]
    have e2 : waitPIdsOf t = [] := by simp [waitPIdsOf, hk, waitPIdsK]
    rw [e1, e2, List.nil_append, List.nil_append] at h1
    exact h1.invAdd hside ids t.name s.events (by rw [hev]; simp [Task.action, hk])
  | apply ids =>
    have e1 : pruneIdsOf t = [] := by simp [pruneIdsOf, hk, pruneIdsK]
    have e2 : waitPIdsOf t = [] := by simp [waitPIdsOf, hk, waitPIdsK]
    have e3 : applyIdsOf t = ids := by simp [applyIdsOf, hk, applyIdsK]
    rw [e1, e2, List.nil_append, List.nil_append] at h1
    exact KS.applyFold hx hside t.name ids s1 h1 (fun i hi => hap i (List.mem_append_left _ (by rw [e3]; exact hi)))
  | prune ids =>
    have e1 : pruneIdsOf t = ids := by simp [pruneIdsOf, hk, pruneIdsK]
    have e2 : waitPIdsOf t = [] := by simp [waitPIdsOf, hk, waitPIdsK]
    rw [e1, e2, List.nil_append] at h1
    rw [e1] at hpr hndP
    have hlives := lives_ids x.P ids (fun i hi => hpr i (List.mem_append_left _ hi))
    simp only []
    refine KS.pruneFold hx t.name s1.mgr.appliedUIDs ns _ s1 (lives_sub x.P ids) ?_ ?_
    · rw [hlives]; exact h1
    · rw [hlives]; exact hndP
  | wait ids cond =>
    have e1 : pruneIdsOf t = [] := by simp [pruneIdsOf, hk, pruneIdsK]
    rw [e1, List.nil_append] at h1
    cases cond with
    | allCurrent =>
      have e2 : waitPIdsOf t = [] := by simp [waitPIdsOf, hk, waitPIdsK]
      have e3 : waitAIdsOf t = ids := by simp [waitAIdsOf, hk, waitAIdsK]
      rw [e2, List.nil_append] at h1
      exact h1.waitA hx hside t.name ids .allCurrent (fun i hi => hwa i (List.mem_append_left _ (by rw [e3]; exact hi)))
    | allNotFound =>
      have e2 : waitPIdsOf t = ids := by simp [waitPIdsOf, hk, waitPIdsK]
      rw [e2] at h1 hndW
      exact KS.waitP t.name ids h1 hndW
  | invSet prev pe =>
    have e1 : pruneIdsOf t = [] := by simp [pruneIdsOf, hk, pruneIdsK]
    have e2 : waitPIdsOf t = [] := by simp [waitPIdsOf, hk, waitPIdsK]
    rw [e1, e2, List.nil_append, List.nil_append] at h1
    exact h1.invSet hside prev pe


/-! ## the bookkeeping at the end of a run without error event -/

open CliUtils.Props.C13 in
/-- **delete-side bookkeeping of a completed run** (outside dry-run, no error event): every delete request of an object was sent when
all its dependents were recorded as deleted and observed gone — and they still are; a successful delete record means a delete request
was logged; every valid prune candidate has a non-pending delete record; delete records are for prune candidates -/
theorem run_delete_book (c : Cluster) (run : Run) (hd : run.opts.dry = .none) (hne : NoError (runOne c run).events) :
    ∃ (plan : Plan) (P : List Live), runPlanObjs c run = some (plan, P) ∧ (runOne c run).edges = plan.edges ∧
      (∀ m ∈ (runOne c run).muts, m.verb = "delete" → m.id ≠ invObjId →
        ∀ y ∈ dependentsOrdered plan.edges m.id, Deleted (runOne c run).mgr y) ∧
      (∀ y r, (runOne c run).mgr.find? y = some r → r.strategy = .delete → r.actuation = .succeeded →
        ∃ m ∈ (runOne c run).muts, m.verb = "delete" ∧ m.id = y) ∧
      (∀ i ∈ plan.pruneIds, ∃ r, (runOne c run).mgr.find? i = some r ∧ r.strategy = .delete ∧ r.actuation ≠ .pending) ∧
      (∀ r ∈ (runOne c run).mgr, r.strategy = .delete → ∃ l ∈ P, l.id = r.id) := by
  cases hp : runPlanObjs c run with
  | none =>
    obtain ⟨s, k, he⟩ := runOne_of_noPlan c run hp
    rw [he] at hne
    exact absurd rfl (hne _ (by simp) k)
  | some pp =>
    obtain ⟨plan, P⟩ := pp
    rcases runOne_of_plan c run plan P hp with ⟨s, k, he⟩ | heq
    · rw [he] at hne
      exact absurd rfl (hne _ (by simp) k)
    · obtain ⟨hg, prev, pe, hplan⟩ := runPlanObjs_some c run plan P hp
      obtain ⟨f1, _, f3, _, _, f6, f7, _⟩ := taskStart_fields c run plan P
      have hPapp : ∀ l ∈ P, l.id ∉ (applySet run).map (·.id) := fun l hl => (CliUtils.ProvL.getPruneObjs_mem _ _ P hg l hl).2.1
      have hx := ctxOf_ok c run P prev pe hd hPapp
      obtain ⟨_, i2, i3, i4, i5, i6, i7, i8, i9⟩ := plan_ids_facts run (applySet run) P prev pe
        (fun o ho m hm hmo => hPapp o ho (List.mem_map.mpr ⟨m, hm, hmo⟩))
      obtain ⟨_, _, _, _, _, _, pf6⟩ := plan_facts run (applySet run) P prev pe
      rw [← hplan] at i2 i3 i4 i5 i6 i7 i8 i9 pf6
      have hPiP : ∀ i ∈ plan.pruneIds, ∃ l ∈ P, l.id = i := fun i hi => ((pf6 i).mp hi).1
      have hxA : (ctxOf c run P prev pe).A = plan.applyIds := by rw [hplan]; rfl
      -- the invariant when the first task starts
      have hinit : KI (ctxOf c run P prev pe) plan.graph plan.edges plan.pruneIds (taskStart c run plan P) plan.tasks := by
        refine ⟨⟨fun i hi => by rw [hxA]; exact i4 i hi, fun i hi => by rw [hxA]; exact i5 i hi, fun i hi => hPiP i (i6 i hi),
          fun i hi => hPiP i (i7 i hi), i2, i3⟩, hPiP, f7, ?_, ?_, ?_, ?_, ?_, ?_⟩
        · intro i hi
          have hen := i9 i hi
          have hin := i6 i hi
          have hne' : plan.pruneIds.isEmpty = false := by
            cases hpp : plan.pruneIds with
            | nil => rw [hpp] at hin; cases hin
            | cons a as => rfl
          have hb2 : (!run.destroy && run.opts.noPrune) = false := by
            cases hdes : run.destroy <;> cases hnp : run.opts.noPrune <;> simp [hdes, hnp] at hen ⊢
          rw [f3, prepMgr_find]
          simp only [hb2, Bool.false_eq_true, false_and, if_false, hen, hne', Bool.not_false, Bool.and_self, true_and, hin, if_true]
          exact ⟨_, rfl, rfl⟩
        · intro i _ r hr
          rw [f3] at hr
          obtain ⟨hm, _⟩ := find_mem _ _ _ hr
          rcases prepMgr_mem _ _ _ r hm with ⟨_, _, rfl⟩ | ⟨_, _, rfl⟩ | ⟨_, _, rfl⟩ <;> rfl
        · intro r hr hst
          rw [f3] at hr
          rcases prepMgr_mem _ _ _ r hr with ⟨_, _, rfl⟩ | ⟨i, hi, rfl⟩ | ⟨o, ho, rfl⟩
          · simp at hst
          · exact hPiP i hi
          · exact ⟨o, ho, rfl⟩
        · intro m hm
          rw [f6] at hm; cases hm
        · intro y r hr _ ha
          rw [f3] at hr
          obtain ⟨hm, _⟩ := find_mem _ _ _ hr
          rcases prepMgr_mem _ _ _ r hm with ⟨_, _, rfl⟩ | ⟨_, _, rfl⟩ | ⟨_, _, rfl⟩ <;> simp at ha
        · intro i hi
          by_cases hen : (run.destroy || !run.opts.noPrune) = true
          · exact Or.inl (i8 hen i hi)
          · right
            have hb2 : (!run.destroy && run.opts.noPrune) = true := by
              cases hdes : run.destroy <;> cases hnp : run.opts.noPrune <;> simp [hdes, hnp] at hen ⊢
            obtain ⟨l, hl, hlid⟩ := hPiP i hi
            have hmem : i ∈ P.map (·.id) := List.mem_map.mpr ⟨l, hl, hlid⟩
            rw [f3, prepMgr_find]
            simp only [hb2, hmem, and_self, if_true]
            exact ⟨_, rfl, rfl, by simp⟩
      have hfinal := runTasks_ind_noError P _ (KI (ctxOf c run P prev pe) plan.graph plan.edges plan.pruneIds)
        (fun s ts n a h => ⟨h.1, h.2.1, h.2.2.emit _ trivial⟩)
        (fun t ts s h => KI.step hx _ t ts s h) plan.tasks (taskStart c run plan P) hinit (by rw [← heq]; exact hne)
      rw [← heq] at hfinal
      obtain ⟨_, _, hks⟩ := hfinal
      refine ⟨plan, P, rfl, hks.inv.edges, hks.dep, hks.req, ?_, hks.recP⟩
      intro i hi
      rcases hks.done i hi with h1 | h1
      · cases h1
      · exact h1


/-! ## abandoned ids are valid prune candidates; the invalid set is the plan's -/

theorem runTask_ab (s : St) (t : Task) (P : List Live) (ns : List String) (hd : s.run.opts.dry = .none) :
    (runTask s t P ns).1.run = s.run ∧ (runTask s t P ns).1.invalid = s.invalid ∧
    ∀ X ∈ (runTask s t P ns).1.abandoned, X ∈ s.abandoned ∨ X ∈ pruneIdsOf t := by
  unfold runTask pruneIdsOf
  cases hk : t.kind with
  | invAdd ids =>
    simp only [pruneIdsK]
    have hm : ∀ u : St, (mergeInv u ids).1.run = u.run ∧ (mergeInv u ids).1.invalid = u.invalid ∧
        (mergeInv u ids).1.abandoned = u.abandoned := by
      intro u
      have f := mergeInv_objsFrame (ObjsFrame.refl u) ids
      exact ⟨f.run, f.inval, f.ab⟩
    unfold runInvAdd
    split
    · have hfr := mutReq_frame s "create" nsInv false "" "" (nsCreateEffect s.run)
      simp only []
      split
      · exact ⟨hfr.2.1, hfr.2.2.2.1, fun X hX => Or.inl (by rw [hfr.2.2.1] at hX; exact hX)⟩
      · obtain ⟨a, b, d⟩ := hm (s.mutReq "create" nsInv false "" "" (nsCreateEffect s.run)).1
        exact ⟨a.trans hfr.2.1, b.trans hfr.2.2.2.1, fun X hX => Or.inl (by rw [d, hfr.2.2.1] at hX; exact hX)⟩
    · obtain ⟨a, b, d⟩ := hm s
      exact ⟨a, b, fun X hX => Or.inl (by rw [d] at hX; exact hX)⟩
  | apply ids =>
    simp only [pruneIdsK]
    generalize t.name = g
    clear hk
    induction ids generalizing s with
    | nil => exact ⟨rfl, rfl, fun X hX => Or.inl hX⟩
    | cons i is ih =>
      simp only [List.foldl_cons]
      obtain ⟨f1, _, f3, f4, _⟩ := applyOne_fx g s i hd
      obtain ⟨a, b, d⟩ := ih (applyOne g s i) (by rw [f1]; exact hd)
      exact ⟨a.trans f1, b.trans f4, fun X hX => by rw [← f3]; exact d X hX⟩
  | prune ids =>
    simp only [pruneIdsK]
    have hsub : ∀ o ∈ ids.filterMap (fun i => P.find? (fun o => o.id = i)), o.id ∈ ids :=
      fun o ho => CliUtils.ProvL.lives_mem P ids o ho
    generalize ids.filterMap (fun i => P.find? (fun o => o.id = i)) = lives at hsub
    generalize s.mgr.appliedUIDs = uids
    generalize t.name = g
    clear hk
    induction lives generalizing s with
    | nil => exact ⟨rfl, rfl, fun X hX => Or.inl hX⟩
    | cons l ls ih =>
      simp only [List.foldl_cons]
      obtain ⟨f1, _, f3, f4, _⟩ := pruneOne_fx g uids ns s l hd
      obtain ⟨a, b, d⟩ := ih (pruneOne g uids ns s l) (by rw [f1]; exact hd) (fun o ho => hsub o (by simp [ho]))
      refine ⟨a.trans f1, b.trans f3, fun X hX => ?_⟩
      rcases d X hX with h1 | h1
      · rcases f4 X h1 with h2 | h2
        · exact Or.inl h2
        · exact Or.inr (by rw [h2]; exact hsub l (by simp))
      · exact Or.inr h1
  | wait ids cond =>
    simp only [pruneIdsK]
    obtain ⟨_, hr, ha, hi⟩ := runWait_triple (fun _ _ _ => True) t.name s ids cond True.intro (fun _ _ _ _ _ _ _ => True.intro)
      (fun _ _ _ _ _ => True.intro)
    exact ⟨hr, hi, fun X hX => Or.inl (by rw [ha] at hX; exact hX)⟩
  | invSet prev pe =>
    simp only [pruneIdsK]
    have f := CliUtils.HistoryL.runInvSet_objsFrame s prev pe
    exact ⟨f.run, f.inval, fun X hX => Or.inl (by rw [f.ab] at hX; exact hX)⟩

/-- at the end of a planned run that reached its tasks (outside dry-run): the invalid set is the plan's, and every abandoned id is a
valid prune candidate of the plan -/
theorem run_ab_invalid (c : Cluster) (run : Run) (hd : run.opts.dry = .none) (plan : Plan) (P : List Live)
    (hp : runPlanObjs c run = some (plan, P))
    (heq : runOne c run = runTasks P (localNamespaces ((applySet run).map (·.id))) (taskStart c run plan P) plan.tasks) :
    (runOne c run).invalid = plan.invalid ∧ ∀ X ∈ (runOne c run).abandoned, X ∈ plan.pruneIds := by
  obtain ⟨hg, prev, pe, hplan⟩ := runPlanObjs_some c run plan P hp
  obtain ⟨f1, _, _, f4, f5, _⟩ := taskStart_fields c run plan P
  have hPapp : ∀ l ∈ P, l.id ∉ (applySet run).map (·.id) := fun l hl => (CliUtils.ProvL.getPruneObjs_mem _ _ P hg l hl).2.1
  obtain ⟨_, _, _, _, _, i6, _⟩ := plan_ids_facts run (applySet run) P prev pe
    (fun o ho m hm hmo => hPapp o ho (List.mem_map.mpr ⟨m, hm, hmo⟩))
  rw [← hplan] at i6
  have := runTasks_all (fun s => s.run = run ∧ s.invalid = plan.invalid ∧ ∀ X ∈ s.abandoned, X ∈ plan.pruneIds) P
    (localNamespaces ((applySet run).map (·.id))) (fun s e h => h) plan.tasks ?_ (taskStart c run plan P)
    ⟨f1, f5, by rw [f4]; intro X hX; cases hX⟩
  · rw [heq]; exact ⟨this.2.1, this.2.2⟩
  · intro t ht s ⟨h1, h2, h3⟩
    obtain ⟨a, b, d⟩ := runTask_ab s t P (localNamespaces ((applySet run).map (·.id))) (by rw [h1]; exact hd)
    refine ⟨a.trans h1, b.trans h2, fun X hX => ?_⟩
    rcases d X hX with h4 | h4
    · exact h3 X h4
    · exact i6 X (List.mem_flatMap.mpr ⟨t, ht, h4⟩)

/-! ## what the stored inventory may hold -/

/-- every member of the stored inventory (if there is one) satisfies `Q` -/
def InvSubP (Q : Id → Prop) (s : St) : Prop := ∀ l, s.cl.inv = some l → ∀ i ∈ l, Q i

theorem InvSubP.of_inv {Q : Id → Prop} {s s' : St} (h : InvSubP Q s) (e : s'.cl.inv = s.cl.inv) : InvSubP Q s' := by
  intro l hl; rw [e] at hl; exact h l hl

theorem InvSubP.mutReq {Q : Id → Prop} {s : St} (h : InvSubP Q s) (verb : String) (id : Id) (dry : Bool) (pre prop : String)
    (eff : Cluster → Cluster × String) (heff : ∀ l, (eff s.cl).1.inv = some l → ∀ i ∈ l, Q i) :
    InvSubP Q (s.mutReq verb id dry pre prop eff).1 := by
  rcases mutReq_cases s verb id dry pre prop eff with hc | hc
  · exact h.of_inv (by rw [hc.1])
  · intro l hl; rw [hc.1] at hl; exact heff l hl

open CliUtils.Props.C19 in
theorem mergeInv_invSub (Q : Id → Prop) (s : St) (ids : List Id) (h : InvSubP Q s) (hids : ∀ i ∈ ids, Q i) :
    InvSubP Q (mergeInv s ids).1 := by
  unfold mergeInv
  simp only []
  rw [invRead_snd]
  have hcl1 : s.invRead.1.cl = s.cl := by simp
  have h1 : InvSubP Q s.invRead.1 := h.of_inv (by rw [hcl1])
  by_cases hf1 : s.invReads ∈ s.run.failInvRead
  · simp only [hf1, if_true]; exact h1
  · simp only [hf1, if_false]
    generalize s.invRead.1 = t1 at *
    cases hinv : s.cl.inv with
    | none =>
      simp only []
      split
      · exact h1
      · split
        · exact h1
        · refine h1.mutReq _ _ _ _ _ _ ?_
          intro l hl i hi
          simp only [invCreateEffect, Option.some.injEq] at hl
          subst hl
          exact hids i ((mem_dedup ids i).mp hi)
    | some l0 =>
      simp only []
      rw [invRead_snd]
      have hcl2 : t1.invRead.1.cl = t1.cl := by simp
      have h2 : InvSubP Q t1.invRead.1 := h1.of_inv (by rw [hcl2])
      by_cases hf2 : t1.invReads ∈ t1.run.failInvRead
      · simp only [hf2, if_true]; exact h2
      · simp only [hf2, if_false, hcl1, hinv, Option.getD_some]
        generalize t1.invRead.1 = t2 at *
        split
        · exact h2
        · split
          · exact h2
          · split
            · exact h2
            · refine h2.mutReq _ _ _ _ _ _ ?_
              intro l hl i hi
              unfold invUpdateEffect at hl
              split at hl
              · rename_i hn
                rw [hn] at hl; cases hl
              · simp only [Option.some.injEq] at hl
                subst hl
                rcases (mem_union l0 ids i).mp hi with hi | hi
                · exact h l0 hinv i hi
                · exact hids i hi

theorem runInvAdd_invSub (Q : Id → Prop) (s : St) (ids : List Id) (h : InvSubP Q s) (hids : ∀ i ∈ ids, Q i) :
    InvSubP Q (runInvAdd s ids).1 := by
  unfold runInvAdd
  split
  · simp only []
    have h1 : InvSubP Q (s.mutReq "create" nsInv false "" "" (nsCreateEffect s.run)).1 :=
      h.of_inv (mutReq_keeps_inv s _ _ _ _ _ _ (nsCreateEffect_keepsInv s.run))
    split
    · exact h1
    · exact mergeInv_invSub Q _ ids h1 hids
  · exact mergeInv_invSub Q s ids h hids

theorem runInvSet_invSub (Q : Id → Prop) (s : St) (prev : List Id) (pe : Bool) (h : InvSubP Q s)
    (hfin : ∀ i ∈ finalInventory s.mgr prev s.abandoned s.invalid, Q i) : InvSubP Q (runInvSet s prev pe).1 := by
  have hr1 : InvSubP Q s.invRead.1 := h.of_inv (by simp)
  have hr2 : InvSubP Q s.invRead.1.invRead.1 := hr1.of_inv (by simp)
  unfold runInvSet
  split
  · exact h
  · split
    · unfold deleteInv
      simp only []
      repeat' split
      all_goals first
        | exact hr1
        | (refine hr1.mutReq _ _ _ _ _ _ ?_
           intro l hl
           simp at hl)
    · unfold replaceInv
      simp only []
      repeat' split
      all_goals first
        | exact h
        | exact hr1
        | exact hr2
        | (refine hr2.mutReq _ _ _ _ _ _ ?_
           intro l hl i hi
           unfold invUpdateEffect at hl
           split at hl
           · rename_i hn; rw [hn] at hl; cases hl
           · simp only [Option.some.injEq] at hl
             subst hl
             exact hfin i ((mem_dedup _ i).mp hi))

theorem planTasks_invSet (run : Run) (A Pi : List Id) (layers : List (List Id)) (prev : List Id) (pe : Bool) (t : Task)
    (ht : t ∈ planTasks run A Pi layers prev pe) (p : List Id) (e : Bool) (hk : t.kind = .invSet p e) : p = prev ∧ e = pe := by
  rw [planTasks_split] at ht
  rcases List.mem_append.mp ht with h | h
  · split at h
    · cases h
    · simp only [List.mem_singleton] at h
      subst h; cases hk
  · rcases List.mem_append.mp h with h | h
    · have := midTasks_mid run A Pi layers t h
      unfold IsMid at this
      rw [hk] at this
      exact this.elim
    · simp only [List.mem_singleton] at h
      subst h
      simp only [TaskKind.invSet.injEq] at hk
      exact ⟨hk.1.symm, hk.2.symm⟩

open CliUtils.Props.C03 in
/-- **what the stored inventory may hold after ANY run**: ids stored before the run, and valid apply ids of the run's plan -/
theorem run_inv_sub (c : Cluster) (run : Run) :
    ∀ l, (runOne c run).cl.inv = some l → ∀ i ∈ l, i ∈ c.inv.getD [] ∨ ∃ plan, runPlan c run = some plan ∧ i ∈ plan.applyIds := by
  have hstart : (startStore c run).inv = c.inv := (startStore_spec c run.envDel).2.2
  by_cases hd : run.opts.dry = .none
  · rcases runOne_start c run with ⟨s, k, he, _, _, hcl, _⟩ | ⟨P, prev, pe, s, hP1, _, hpv, hcl, hrun, hmgr, _, _, _, _, _, heq, hpl⟩
    · intro l hl i hi
      rw [he, emit_cl, hcl, hstart] at hl
      left; rw [hl]; exact hi
    · have hx := ctxOf_ok c run P prev pe hd (fun l hl => (hP1 l hl).2.2)
      have hwf := ctxOf_tasks_wf c run P prev pe
      obtain ⟨layers, pf1, _⟩ := plan_facts run (applySet run) P prev pe
      have key := runTasks_all
        (fun s => LiveInv (ctxOf c run P prev pe) s ∧
          InvSubP (fun i => i ∈ c.inv.getD [] ∨ i ∈ (ctxOf c run P prev pe).A) s) P
        (localNamespaces ((applySet run).map (·.id))) (fun s e h => ⟨h.1.emit e, h.2⟩)
        (buildPlan run (applySet run) P prev pe).tasks ?_ s
        ⟨liveInv_init _ _ s hrun hmgr rfl, fun l hl i hi => by rw [hcl, hstart] at hl; left; rw [hl]; exact hi⟩
      · intro l hl i hi
        rw [heq] at hl
        rcases key.2 l hl i hi with h1 | h1
        · exact Or.inl h1
        · exact Or.inr ⟨_, by simp [runPlan, hpl], h1⟩
      · intro t ht s' ⟨hL, hI⟩
        refine ⟨hL.task hx s' t _ (hwf t ht), ?_⟩
        have hmid : IsMid t → InvSubP (fun i => i ∈ c.inv.getD [] ∨ i ∈ (ctxOf c run P prev pe).A)
            (runTask s' t P (localNamespaces ((applySet run).map (·.id)))).1 :=
          fun hm => hI.of_inv (runTask_mid s' t P _ hm).1
        have hwft := hwf t ht
        unfold TaskWF at hwft
        cases hk : t.kind with
        | invAdd ids =>
          rw [hk] at hwft
          have : runTask s' t P (localNamespaces ((applySet run).map (·.id))) = runInvAdd s' ids := by
            unfold runTask; rw [hk]
          rw [this]
          exact runInvAdd_invSub _ s' ids hI (fun i hi => Or.inr (hwft i hi))
        | apply ids => exact hmid (by unfold IsMid; rw [hk]; trivial)
        | prune ids => exact hmid (by unfold IsMid; rw [hk]; trivial)
        | wait ids cond => exact hmid (by unfold IsMid; rw [hk]; trivial)
        | invSet p e =>
          have : runTask s' t P (localNamespaces ((applySet run).map (·.id))) = runInvSet s' p e := by
            unfold runTask; rw [hk]
          rw [this]
          rw [pf1] at ht
          obtain ⟨rfl, rfl⟩ := planTasks_invSet _ _ _ _ _ _ t ht p e hk
          cases hpe : e with
          | true => simp only [runInvSet, if_true]; exact hI
          | false =>
            apply runInvSet_invSub _ s' p false hI
            intro i hi
            rcases final_inventory_sub _ _ _ _ i hi with h1 | h1
            · right
              unfold Mgr.withActuation at h1
              obtain ⟨r, hr, hrid⟩ := List.mem_map.mp h1
              obtain ⟨hm, hc⟩ := List.mem_filter.mp hr
              simp only [decide_eq_true_eq] at hc
              rw [← hrid]
              exact hL.t.recA r hm hc.1
            · left
              rw [← hpv hpe]; exact h1
  · intro l hl i hi
    rw [CliUtils.Props.C01.runOne_dry_store c run hd, hstart] at hl
    left; rw [hl]; exact hi


/-! ## a destroy judged successful deletes the inventory object -/

open CliUtils.Props.C13 in
theorem destroy_success_inv_none (c : Cluster) (run : Run) (hd : run.opts.dry = .none) (hne : NoError (runOne c run).events)
    (hdes : run.destroy = true)
    (hsucc : destroySuccessful (runOne c run).mgr (c.inv.getD []) (runOne c run).abandoned (runOne c run).invalid = true) :
    (runOne c run).cl.inv = none := by
  obtain ⟨s', name, hok, heq, hrun, _, _, _⟩ := run_final c run hd hne
  have f := CliUtils.HistoryL.runInvSet_objsFrame (s'.emit (.group name "Inventory" "Started")) (c.inv.getD []) false
  rw [heq] at hsucc ⊢
  simp only [emit_mgr, emit_abandoned, emit_invalid, emit_cl] at hsucc ⊢
  rw [f.mgr, f.ab, f.inval] at hsucc
  generalize hs1 : s'.emit (.group name "Inventory" "Started") = s1 at hok hsucc ⊢
  have hs1r : s1.run = run := by rw [← hs1]; exact hrun
  have hrunset : runInvSet s1 (c.inv.getD []) false = deleteInv s1 := by
    unfold runInvSet
    simp [hs1r, hdes, hsucc]
  rw [hrunset] at hok ⊢
  exact (CliUtils.Props.C03.deleteInv_ok s1 (by unfold dryOf; simp [hs1r, hd]) hok).1


/-! ## an accepted annotation removal leaves the object abandoned -/

/-- the request `m` is an accepted annotation removal (the update request of the deletion-prevention branch of `Pruner.Prune`) -/
def AcceptedRemoval (m : MutRec) : Prop := m.verb = "update" ∧ m.id ≠ invObjId ∧ m.result = "ok"

/-- a step keeps the abandoned ids, and every accepted annotation removal it logs is for an id it leaves abandoned -/
def UpdStep (s s' : St) : Prop :=
  (∀ X ∈ s.abandoned, X ∈ s'.abandoned) ∧ ∀ m ∈ s'.muts, m ∈ s.muts ∨ (AcceptedRemoval m → m.id ∈ s'.abandoned)

theorem UpdStep.refl (s : St) : UpdStep s s := ⟨fun _ h => h, fun _ h => Or.inl h⟩

theorem UpdStep.trans {a b c : St} (h1 : UpdStep a b) (h2 : UpdStep b c) : UpdStep a c := by
  refine ⟨fun X hX => h2.1 X (h1.1 X hX), ?_⟩
  intro m hm
  rcases h2.2 m hm with h | h
  · rcases h1.2 m h with h' | h'
    · exact Or.inl h'
    · exact Or.inr (fun ha => h2.1 _ (h' ha))
  · exact Or.inr h

theorem UpdStep.of_eq {s s' : St} (ha : s'.abandoned = s.abandoned) (hm : s'.muts = s.muts) : UpdStep s s' :=
  ⟨fun X hX => by rw [ha]; exact hX, fun m h => Or.inl (by rw [hm] at h; exact h)⟩

/-- a step that does not touch the abandoned ids and logs no accepted annotation removal -/
theorem UpdStep.of_adds {s s' : St} (Q : MutRec → Prop) (ha : s'.abandoned = s.abandoned) (hadds : CliUtils.ProvL.Adds Q s s')
    (hQ : ∀ m, Q m → ¬ AcceptedRemoval m) : UpdStep s s' :=
  ⟨fun X hX => by rw [ha]; exact hX, fun m h => (hadds m h).imp id (fun hq hacc => absurd hacc (hQ m hq))⟩

theorem fold_updStep {β : Type} (f : St → β → St) (l : List β) (hf : ∀ s, ∀ b ∈ l, UpdStep s (f s b)) (s : St) :
    UpdStep s (l.foldl f s) := by
  induction l generalizing s with
  | nil => exact UpdStep.refl s
  | cons b bs ih => exact (hf s b (by simp)).trans (ih (fun s b' hb' => hf s b' (by simp [hb'])) (f s b))

theorem pruneOne_updStep (group : String) (uids localNs : List String) (s : St) (live : Live) :
    UpdStep s (pruneOne group uids localNs s live) := by
  cases hdec : pruneDecision uids localNs s live <;> simp only [pruneOne, hdec]
  · exact UpdStep.of_eq rfl rfl
  · exact UpdStep.of_eq rfl rfl
  · exact ⟨fun X hX => by simp [pruneSkip, hX], fun m h => Or.inl h⟩
  · have h := mutReq_spec s "update" live.id false "" "" (abandonEffect live)
    simp only [] at h
    obtain ⟨⟨m, hm, _, hid, _, _, _, hres, _⟩, _, _, _, _, _, hab, _⟩ := h
    split
    · rename_i hok
      refine ⟨fun X hX => by simp [pruneSkip, hab, hX], ?_⟩
      intro m' hm'
      simp only [pruneSkip_muts] at hm'
      rw [hm] at hm'
      rcases List.mem_cons.mp hm' with h1 | h1
      · right; intro _; subst h1; simp [pruneSkip, hid]
      · exact Or.inl h1
    · rename_i hnok
      refine ⟨fun X hX => by simp [pruneFail, hab, hX], ?_⟩
      intro m' hm'
      simp only [pruneFail_muts] at hm'
      rw [hm] at hm'
      rcases List.mem_cons.mp hm' with h1 | h1
      · right; intro hacc; subst h1; have h3 := hacc.2.2; rw [hres] at h3; exact absurd h3 hnok
      · exact Or.inl h1
  · exact UpdStep.of_eq rfl rfl
  · exact UpdStep.of_eq rfl rfl
  · split
    · exact UpdStep.of_eq rfl rfl
    · exact ⟨fun X hX => by simp [pruneSkip, hX], fun m h => Or.inl h⟩
  · exact UpdStep.of_eq rfl rfl
  · have h := mutReq_spec s "delete" live.id false live.uid (propagationOf s) (deleteEffect (hasFinalizer s.run live.id) live)
    simp only [] at h
    obtain ⟨⟨m, hm, hv, _⟩, _, _, _, _, _, hab, _⟩ := h
    have hnew : ∀ m' ∈ m :: s.muts, m' ∈ s.muts ∨ (AcceptedRemoval m' → m'.id ∈ s.abandoned) := by
      intro m' hm'
      rcases List.mem_cons.mp hm' with h1 | h1
      · right; intro hacc; subst h1; have h3 := hacc.1; rw [hv] at h3; exact absurd h3 (by decide)
      · exact Or.inl h1
    split
    · exact ⟨fun X hX => by simp [pruneOk, hab, hX], fun m' hm' => by
        simp only [pruneOk_muts, pruneOk_abandoned, hab] at hm' ⊢; rw [hm] at hm'; exact hnew m' hm'⟩
    · exact ⟨fun X hX => by simp [pruneFail, hab, hX], fun m' hm' => by
        simp only [pruneFail_muts, pruneFail_abandoned, hab] at hm' ⊢; rw [hm] at hm'; exact hnew m' hm'⟩

theorem runTask_updStep (s : St) (t : Task) (P : List Live) (ns : List String) (hd : s.run.opts.dry = .none) :
    UpdStep s (runTask s t P ns).1 := by
  unfold runTask
  cases hk : t.kind with
  | invAdd ids =>
    refine UpdStep.of_adds _ (runInvAdd_book s ids).2.2 (CliUtils.ProvL.runInvAdd_adds s ids) ?_
    rintro m (h | ⟨_, h, _⟩) ⟨h1, h2, _⟩
    · exact h2 h
    · rw [h] at h1; exact absurd h1 (by decide)
  | apply ids =>
    simp only []
    generalize t.name = g
    clear hk
    induction ids generalizing s with
    | nil => exact UpdStep.refl s
    | cons i is ih =>
      simp only [List.foldl_cons]
      obtain ⟨f1, _, f3, _⟩ := applyOne_fx g s i hd
      refine (UpdStep.of_adds _ f3 (CliUtils.ProvL.applyOne_adds g s i) ?_).trans (ih _ (by rw [f1]; exact hd))
      rintro m ⟨h | h, _⟩ ⟨h1, _⟩ <;> (rw [h] at h1; exact absurd h1 (by decide))
  | prune ids => exact fold_updStep _ _ (fun s' o _ => pruneOne_updStep t.name _ ns s' o) s
  | wait ids cond =>
    obtain ⟨_, _, ha, _⟩ := runWait_triple (fun _ _ _ => True) t.name s ids cond True.intro (fun _ _ _ _ _ _ _ => True.intro)
      (fun _ _ _ _ _ => True.intro)
    exact UpdStep.of_eq ha (OrderL.runWait_quiet t.name s ids cond).muts
  | invSet prev pe =>
    refine UpdStep.of_adds _ (CliUtils.HistoryL.runInvSet_objsFrame s prev pe).ab (CliUtils.ProvL.runInvSet_adds s prev pe) ?_
    rintro m h ⟨_, h2, _⟩
    exact h2 h

/-- **at every exit of a run** (outside dry-run): every accepted annotation removal of the request log is for an id that is abandoned -/
theorem run_removals_abandoned (c : Cluster) (run : Run) (hd : run.opts.dry = .none) :
    ∀ m ∈ (runOne c run).muts, AcceptedRemoval m → m.id ∈ (runOne c run).abandoned := by
  rcases runOne_start c run with ⟨s, k, he, _, hm, _⟩ | ⟨P, prev, pe, s, _, _, _, _, hrun, _, _, _, hmuts, _, _, heq, _⟩
  · intro m hmem
    rw [he, emit_muts, hm] at hmem
    cases hmem
  · rw [heq]
    have := runTasks_all (fun s => s.run = run ∧ ∀ m ∈ s.muts, AcceptedRemoval m → m.id ∈ s.abandoned) P
      (localNamespaces ((applySet run).map (·.id))) (fun s e h => h) (buildPlan run (applySet run) P prev pe).tasks ?_ s
      ⟨hrun, by rw [hmuts]; intro m hm; cases hm⟩
    · exact this.2
    · intro t _ s' ⟨h1, h2⟩
      obtain ⟨u1, u2⟩ := runTask_updStep s' t P (localNamespaces ((applySet run).map (·.id))) (by rw [h1]; exact hd)
      refine ⟨(runTask_ab s' t P _ (by rw [h1]; exact hd)).1.trans h1, ?_⟩
      intro m hm hacc
      rcases u2 m hm with h | h
      · exact u1 _ (h2 m h hacc)
      · exact h hacc

end CliUtils.RunCorL
