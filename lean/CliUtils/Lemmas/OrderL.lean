import CliUtils.Model.Sys
import CliUtils.Lemmas.SysL
import CliUtils.Lemmas.WaitL
import CliUtils.Lemmas.GrammarL
import CliUtils.Spec.SysSpec
import CliUtils.Props.C02
import CliUtils.Props.C04
import CliUtils.Props.C05
import CliUtils.Props.C06
import CliUtils.Props.C13
/-
  Helpers for the run-level ordering theorems of C04 / C05 (`Props/C04R.lean`).

  * the vocabulary of the headline statements (`eventsBefore`, `lastApplyResult`, `lastDeleteResult`, `lastWait`, `IsBootstrap`),
  * `MgrEv`: the invariant tying the inventory manager to the event list,
  * `Inv`: "every request logged so far was preceded by the required events" + `MgrEv` + constancy of run / graph / edges,
  * preservation of `Inv` by every step of the run model, up to `runOne`.
-/

/-! ## vocabulary of the statements -/
namespace CliUtils.Props.C04
open CliUtils CliUtils.Sys

/-- the status of an actuation result event (`.op`) of one of the given kinds for object `d` -/
def opSel (kinds : List String) (d : Id) : Ev → Option String
  | .op k _ i st _ => if i = d ∧ k ∈ kinds then some st else none
  | _ => none

/-- the status of a wait event for object `d` -/
def waitSel (d : Id) : Ev → Option String
  | .wait _ i st => if i = d then some st else none
  | _ => none

/-- last apply result for `d` in a chronological event list (`Spec.opResultBefore … ["apply"]`) -/
def lastApplyResult (es : List Ev) (d : Id) : Option String := (es.filterMap (opSel ["apply"] d)).getLast?
/-- last prune / delete result for `d` in a chronological event list (`Spec.opResultBefore … ["prune", "delete"]`) -/
def lastDeleteResult (es : List Ev) (d : Id) : Option String := (es.filterMap (opSel ["prune", "delete"] d)).getLast?
/-- last wait event for `d` in a chronological event list (`Spec.lastWaitBefore`) -/
def lastWait (es : List Ev) (d : Id) : Option String := (es.filterMap (waitSel d)).getLast?

/-- chronological events before request `m`, relative to a newest-first event list -/
def beforeIn (evs : List Ev) (m : MutRec) : List Ev := evs.reverse.take m.evIdx

/-- chronological events before request `m` -/
def eventsBefore (s : St) (m : MutRec) : List Ev := beforeIn s.events m

/-- the bootstrap create of the inventory namespace (`ApplyInventoryNamespace` in `InvAddTask`): a create of the inventory
namespace issued as the very first thing of an inventory task (the newest event before it is that task's `Started`) -/
def IsBootstrapIn (evs : List Ev) (m : MutRec) : Prop :=
  m.id = nsInv ∧ m.verb = "create" ∧ ∃ g, (beforeIn evs m).getLast? = some (.group g "Inventory" "Started")

def IsBootstrap (s : St) (m : MutRec) : Prop := IsBootstrapIn s.events m

end CliUtils.Props.C04

namespace CliUtils.OrderL
open CliUtils CliUtils.Sys CliUtils.Props.C04

/-! ## list facts -/

theorem beforeIn_full (evs : List Ev) (m : MutRec) (h : m.evIdx = evs.length) : beforeIn evs m = evs.reverse := by
  unfold beforeIn
  exact List.take_of_length_le (by simp [h])

theorem beforeIn_append (l evs : List Ev) (m : MutRec) (h : m.evIdx ≤ evs.length) : beforeIn (l ++ evs) m = beforeIn evs m := by
  unfold beforeIn
  rw [List.reverse_append]
  exact List.take_append_of_le_length (by simpa using h)

/-- newest matching entry of a newest-first list -/
def newest (sel : Ev → Option String) (evs : List Ev) : Option String := (evs.filterMap sel).head?

theorem getLast_reverse_newest (sel : Ev → Option String) (evs : List Ev) :
    (evs.reverse.filterMap sel).getLast? = newest sel evs := by
  unfold newest
  rw [List.filterMap_reverse, List.getLast?_reverse]

theorem newest_cons_none (sel : Ev → Option String) (e : Ev) (evs : List Ev) (h : sel e = none) :
    newest sel (e :: evs) = newest sel evs := by
  simp [newest, h]

theorem newest_cons_some (sel : Ev → Option String) (e : Ev) (evs : List Ev) (x : String) (h : sel e = some x) :
    newest sel (e :: evs) = some x := by
  simp [newest, h]

/-! ## the selectors of the correspondence predicate (`Spec.opResultBefore`, `Spec.lastWaitBefore`) are these -/

theorem opResultBefore_eq (evs : List Ev) (m : MutRec) (kinds : List String) (d : Id) :
    Spec.opResultBefore evs.reverse m.evIdx kinds d = ((beforeIn evs m).filterMap (opSel kinds d)).getLast? := by
  unfold Spec.opResultBefore beforeIn
  congr 2
  funext e
  cases e <;> simp [opSel]

theorem lastWaitBefore_eq (evs : List Ev) (m : MutRec) (d : Id) :
    Spec.lastWaitBefore evs.reverse m.evIdx d = lastWait (beforeIn evs m) d := by
  unfold Spec.lastWaitBefore lastWait beforeIn
  congr 2

/-! ## the manager and the event list -/

/-- for every recorded object: a successful apply (delete) actuation means the newest apply (prune/delete) result event for it
is `Successful`; reconcile `succeeded` means the newest wait event for it is `Successful` -/
def MgrEv (mgr : Mgr Id) (evs : List Ev) : Prop :=
  ∀ d r, mgr.find? d = some r →
    (r.strategy = .apply → r.actuation = .succeeded → newest (opSel ["apply"] d) evs = some "Successful") ∧
    (r.strategy = .delete → r.actuation = .succeeded → newest (opSel ["prune", "delete"] d) evs = some "Successful") ∧
    (r.reconcile = .succeeded → newest (waitSel d) evs = some "Successful")

theorem mgrEv_nil (evs : List Ev) : MgrEv [] evs := by
  intro d r h; simp [Mgr.find?] at h

/-- events that are neither actuation results nor wait events -/
def Neutral : Ev → Prop
  | .op .. => False
  | .wait .. => False
  | _ => True

theorem mgrEv_neutral (mgr : Mgr Id) (evs : List Ev) (e : Ev) (h : MgrEv mgr evs) (he : Neutral e) : MgrEv mgr (e :: evs) := by
  intro d r hr
  have h1 : ∀ k, opSel k d e = none := by intro k; cases e <;> first | rfl | exact absurd he (by simp [Neutral])
  have h2 : waitSel d e = none := by cases e <;> first | rfl | exact absurd he (by simp [Neutral])
  rw [newest_cons_none _ _ _ (h1 _), newest_cons_none _ _ _ (h1 _), newest_cons_none _ _ _ h2]
  exact h d r hr

theorem mgrEv_add_ns (mgr : Mgr Id) (evs : List Ev) (id : Id) (st : Strategy) (a : Actuation) (uid : String) (gen : Int)
    (h : MgrEv mgr evs) (ha : a ≠ .succeeded) : MgrEv (mgr.add id st a uid gen) evs := by
  intro d r hr
  by_cases hd : d = id
  · subst hd
    rw [find_add_same] at hr
    injection hr with hr; subst hr
    refine ⟨?_, ?_, ?_⟩
    · intro _ h2; exact absurd h2 ha
    · intro _ h2; exact absurd h2 ha
    · intro h2; cases h2
  · rw [find_add_other _ _ _ _ _ _ _ hd] at hr
    exact h d r hr

theorem mgrEv_fold_add {β : Type} (f : β → Id) (st : Strategy) (a : Actuation) (ha : a ≠ .succeeded) (evs : List Ev)
    (l : List β) (mgr : Mgr Id) (h : MgrEv mgr evs) : MgrEv (l.foldl (fun m x => m.add (f x) st a) mgr) evs := by
  induction l generalizing mgr with
  | nil => exact h
  | cons x xs ih => exact ih _ (mgrEv_add_ns mgr evs (f x) st a "" 0 h ha)

def kindsOf : Strategy → List String
  | .apply => ["apply"]
  | .delete => ["prune", "delete"]

/-- an actuation result is recorded together with its event -/
theorem mgrEv_op (mgr : Mgr Id) (evs : List Ev) (id : Id) (strat : Strategy) (a : Actuation) (uid : String) (gen : Int)
    (k g stt r : String) (h : MgrEv mgr evs) (hk : k ∈ kindsOf strat) (hs : a = .succeeded → stt = "Successful") :
    MgrEv (mgr.add id strat a uid gen) (.op k g id stt r :: evs) := by
  intro d rec hr
  by_cases hd : d = id
  · subst hd
    rw [find_add_same] at hr
    injection hr with hr; subst hr
    have hsel : opSel (kindsOf strat) d (.op k g d stt r) = some stt := by simp [opSel, hk]
    refine ⟨?_, ?_, ?_⟩
    · intro h1 h2
      simp only at h1 h2
      subst h1
      have hst := hs h2
      subst hst
      exact newest_cons_some _ _ _ _ hsel
    · intro h1 h2
      simp only at h1 h2
      subst h1
      have hst := hs h2
      subst hst
      exact newest_cons_some _ _ _ _ hsel
    · intro h2; cases h2
  · rw [find_add_other _ _ _ _ _ _ _ hd] at hr
    have hd' : ¬ id = d := fun e => hd e.symm
    rw [newest_cons_none _ _ _ (by simp [opSel, hd']), newest_cons_none _ _ _ (by simp [opSel, hd']),
      newest_cons_none _ _ _ (by simp [waitSel])]
    exact h d rec hr

theorem wevName_successful (e : Wait.WEv) : Wait.rcOfEv e = .succeeded → wevName e = "Successful" := by
  cases e <;> simp [Wait.rcOfEv, wevName]

/-- a wait event is recorded together with the reconcile state -/
theorem mgrEv_wait (mgr : Mgr Id) (evs : List Ev) (id : Id) (e : Wait.WEv) (g : String) (h : MgrEv mgr evs) :
    MgrEv ((mgr.setReconcile id (Wait.rcOfEv e)).getD mgr) (.wait g id (wevName e) :: evs) := by
  intro d rec hr
  rw [Wait.find_setReconcile_getD] at hr
  cases hf : mgr.find? d with
  | none => simp [hf] at hr
  | some r0 =>
    simp only [hf, Option.map_some, Option.some.injEq] at hr
    have h0 := h d r0 hf
    rw [newest_cons_none _ _ _ (by simp [opSel]), newest_cons_none _ _ _ (by simp [opSel])]
    by_cases hd : d = id
    · subst hd
      simp only [if_true] at hr
      subst hr
      refine ⟨h0.1, h0.2.1, ?_⟩
      intro h2
      simp only at h2
      rw [newest_cons_some _ _ _ (wevName e) (by simp [waitSel]), wevName_successful e h2]
    · simp only [hd, if_false] at hr
      subst hr
      have hd' : ¬ id = d := fun e => hd e.symm
      rw [newest_cons_none _ _ _ (by simp [waitSel, hd'])]
      exact h0

/-- the table after recording a list of wait events in order -/
def applyEvs (m : Mgr Id) (l : List (Id × Wait.WEv)) : Mgr Id :=
  l.foldl (fun m e => (m.setReconcile e.1 (Wait.rcOfEv e.2)).getD m) m

theorem applyEvs_append (m : Mgr Id) (l1 l2 : List (Id × Wait.WEv)) : applyEvs m (l1 ++ l2) = applyEvs (applyEvs m l1) l2 := by
  simp [applyEvs, List.foldl_append]

theorem mgrEv_waits (g : String) (l : List (Id × Wait.WEv)) (mgr : Mgr Id) (evs : List Ev) (h : MgrEv mgr evs) :
    MgrEv (applyEvs mgr l) ((l.map (fun e => Ev.wait g e.1 (wevName e.2))).reverse ++ evs) := by
  induction l generalizing mgr evs with
  | nil => simpa [applyEvs] using h
  | cons e es ih =>
    have := ih _ _ (mgrEv_wait mgr evs e.1 e.2 g h)
    simpa [applyEvs, List.reverse_cons, List.append_assoc] using this

/-! ## the claims about one logged request, and the run invariant -/

/-- the C04 claim for request `m`, relative to a newest-first event list -/
def ApplyClaim (dry : Dry) (G : Graph.Adj Id) (evs : List Ev) (m : MutRec) : Prop :=
  (m.verb = "create" ∨ m.verb = "patch") → m.id ≠ invObjId → ¬ IsBootstrapIn evs m →
    ∀ d ∈ Graph.deps G m.id,
      lastApplyResult (beforeIn evs m) d = some "Successful" ∧
      (dry ≠ .none ∨ lastWait (beforeIn evs m) d = some "Successful")

/-- the C05 claim for request `m` -/
def DeleteClaim (dry : Dry) (E : List (Id × Id)) (evs : List Ev) (m : MutRec) : Prop :=
  m.verb = "delete" → m.id ≠ invObjId →
    ∀ d ∈ dependentsOrdered E m.id,
      lastDeleteResult (beforeIn evs m) d = some "Successful" ∧
      (dry ≠ .none ∨ lastWait (beforeIn evs m) d = some "Successful")

theorem applyClaim_append (dry : Dry) (G : Graph.Adj Id) (l evs : List Ev) (m : MutRec) (h : m.evIdx ≤ evs.length)
    (hc : ApplyClaim dry G evs m) : ApplyClaim dry G (l ++ evs) m := by
  simpa only [ApplyClaim, IsBootstrapIn, beforeIn_append l evs m h] using hc

theorem deleteClaim_append (dry : Dry) (E : List (Id × Id)) (l evs : List Ev) (m : MutRec) (h : m.evIdx ≤ evs.length)
    (hc : DeleteClaim dry E evs m) : DeleteClaim dry E (l ++ evs) m := by
  simpa only [DeleteClaim, beforeIn_append l evs m h] using hc

/-- the run invariant: run / graph / edges are the fixed ones, the manager agrees with the event list, and every request
logged so far satisfies its claim -/
structure Inv (R : Run) (G : Graph.Adj Id) (E : List (Id × Id)) (s : St) : Prop where
  run : s.run = R
  graph : s.graph = G
  edges : s.edges = E
  mgrEv : MgrEv s.mgr s.events
  reqs : ∀ m ∈ s.muts, m.evIdx ≤ s.events.length ∧ ApplyClaim R.opts.dry G s.events m ∧ DeleteClaim R.opts.dry E s.events m

variable {R : Run} {G : Graph.Adj Id} {E : List (Id × Id)}

/-- the generic step: events are only appended, old requests keep their claims, new requests were issued against the old
event list -/
theorem Inv.step {s s' : St} (h : Inv R G E s) (hr : s'.run = s.run) (hg : s'.graph = s.graph) (he : s'.edges = s.edges)
    (hev : ∃ l, s'.events = l ++ s.events) (hm : MgrEv s'.mgr s'.events)
    (hmu : ∀ m ∈ s'.muts, m ∈ s.muts ∨
      (m.evIdx = s.events.length ∧ ApplyClaim R.opts.dry G s.events m ∧ DeleteClaim R.opts.dry E s.events m)) :
    Inv R G E s' := by
  obtain ⟨l, hl⟩ := hev
  refine ⟨hr.trans h.run, hg.trans h.graph, he.trans h.edges, hm, ?_⟩
  intro m hmem
  have key : m.evIdx ≤ s.events.length ∧ ApplyClaim R.opts.dry G s.events m ∧ DeleteClaim R.opts.dry E s.events m := by
    rcases hmu m hmem with h1 | ⟨h1, h2, h3⟩
    · exact h.reqs m h1
    · exact ⟨by omega, h2, h3⟩
  rw [hl]
  exact ⟨by simp only [List.length_append]; omega, applyClaim_append _ _ _ _ _ key.1 key.2.1,
    deleteClaim_append _ _ _ _ _ key.1 key.2.2⟩

theorem Inv.congr {s s' : St} (h : Inv R G E s) (hr : s'.run = s.run) (hg : s'.graph = s.graph) (he : s'.edges = s.edges)
    (hm : s'.mgr = s.mgr) (hev : s'.events = s.events) (hmu : s'.muts = s.muts) : Inv R G E s' :=
  h.step hr hg he ⟨[], by simp [hev]⟩ (by rw [hm, hev]; exact h.mgrEv) (by intro m hmem; left; rw [← hmu]; exact hmem)

theorem Inv.emit_neutral {s : St} (h : Inv R G E s) (e : Ev) (he : Neutral e) : Inv R G E (s.emit e) :=
  h.step rfl rfl rfl ⟨[e], rfl⟩ (mgrEv_neutral _ _ _ h.mgrEv he) (by intro m hmem; left; exact hmem)

theorem Inv.invRead {s : St} (h : Inv R G E s) : Inv R G E s.invRead.1 := by
  unfold St.invRead
  simp only []
  split <;> exact h.congr rfl rfl rfl rfl rfl rfl

/-- a mutating request whose claims hold against the current event list -/
theorem Inv.mutReq {s : St} (h : Inv R G E s) (verb : String) (id : Id) (dry : Bool) (pre prop : String)
    (eff : Cluster → Cluster × String)
    (hc : ∀ mr : MutRec, mr.verb = verb → mr.id = id → mr.evIdx = s.events.length →
      ApplyClaim R.opts.dry G s.events mr ∧ DeleteClaim R.opts.dry E s.events mr) :
    Inv R G E (s.mutReq verb id dry pre prop eff).1 := by
  have hs := mutReq_spec s verb id dry pre prop eff
  simp only [] at hs
  obtain ⟨⟨m, hm, hv, hid, _, _, _, _, _, hidx, _⟩, _, _, hev, hmgr, hrun, _, _, _, hgr, hed, _⟩ := hs
  refine h.step hrun hgr hed ⟨[], by simp [hev]⟩ (by rw [hmgr, hev]; exact h.mgrEv) ?_
  intro m' hm'
  rw [hm] at hm'
  rcases List.mem_cons.mp hm' with h1 | h1
  · subst h1; right; exact ⟨hidx, hc m' hv hid hidx⟩
  · left; exact h1

/-- requests for the inventory object carry no claim -/
theorem Inv.mutReq_invObj {s : St} (h : Inv R G E s) (verb : String) (dry : Bool) (pre prop : String)
    (eff : Cluster → Cluster × String) : Inv R G E (s.mutReq verb invObjId dry pre prop eff).1 :=
  h.mutReq verb invObjId dry pre prop eff (fun _ _ hid _ => ⟨fun _ hne => absurd hid hne, fun _ hne => absurd hid hne⟩)

/-- an actuation result: the event and the table entry together -/
theorem Inv.actuate {s : St} (h : Inv R G E s) (k g : String) (id : Id) (stt r : String) (strat : Strategy) (a : Actuation)
    (uid : String) (gen : Int) (hk : k ∈ kindsOf strat) (hs : a = .succeeded → stt = "Successful") :
    Inv R G E { (s.emit (.op k g id stt r)) with mgr := s.mgr.add id strat a uid gen } :=
  h.step rfl rfl rfl ⟨[.op k g id stt r], rfl⟩ (mgrEv_op _ _ _ _ _ _ _ _ _ _ _ h.mgrEv hk hs) (by intro m hmem; left; exact hmem)

theorem Inv.applyFail {s : St} (h : Inv R G E s) (g : String) (id : Id) (r : Reason) : Inv R G E (applyFail g s id r) :=
  h.actuate "apply" g id "Failed" r .apply .failed "" 0 (by simp [kindsOf]) (by intro h; cases h)
theorem Inv.applySkip {s : St} (h : Inv R G E s) (g : String) (id : Id) (r : Reason) : Inv R G E (applySkip g s id r) :=
  h.actuate "apply" g id "Skipped" r .apply .skipped "" 0 (by simp [kindsOf]) (by intro h; cases h)
theorem Inv.applyOk {s : St} (h : Inv R G E s) (g : String) (id : Id) (uid : String) (gen : Int) : Inv R G E (applyOk g s id uid gen) :=
  h.actuate "apply" g id "Successful" "" .apply .succeeded uid gen (by simp [kindsOf]) (fun _ => rfl)

theorem opKind_mem (s : St) : opKind s ∈ kindsOf .delete := by
  show opKind s ∈ ["prune", "delete"]
  unfold opKind; split <;> simp

theorem Inv.pruneFail {s : St} (h : Inv R G E s) (k g : String) (id : Id) (r : Reason) (hk : k ∈ kindsOf .delete) :
    Inv R G E (pruneFail k g s id r) :=
  h.actuate k g id "Failed" r .delete .failed "" 0 hk (by intro h; cases h)
theorem Inv.pruneSkip {s : St} (h : Inv R G E s) (k g : String) (id : Id) (r : Reason) (hk : k ∈ kindsOf .delete) :
    Inv R G E (pruneSkip k g s id r) :=
  h.actuate k g id "Skipped" r .delete .skipped "" 0 hk (by intro h; cases h)
theorem Inv.pruneOk {s : St} (h : Inv R G E s) (k g : String) (id : Id) (uid : String) (hk : k ∈ kindsOf .delete) :
    Inv R G E (pruneOk k g s id uid) :=
  h.actuate k g id "Successful" "" .delete .succeeded uid 0 hk (fun _ => rfl)

/-! ## the gates give the claims -/

theorem dry_of_dryOf (s : St) (h : dryOf s = true) : s.run.opts.dry ≠ .none := by
  simpa [dryOf] using h

theorem gate_apply_claim (s : St) (m : Manifest) (frm : Option String) (hgo : applyDecision s m = .go frm)
    (hM : MgrEv s.mgr s.events) (mr : MutRec) (hid : mr.id = m.id) (hidx : mr.evIdx = s.events.length) :
    ApplyClaim s.run.opts.dry s.graph s.events mr := by
  intro _ _ _ d hd
  rw [beforeIn_full _ _ hidx]
  rw [hid] at hd
  obtain ⟨_, r, hr, hs, ha, hrc⟩ := apply_gate s m frm hgo d hd
  have hm := hM d r hr
  refine ⟨?_, ?_⟩
  · unfold lastApplyResult
    rw [getLast_reverse_newest]
    exact hm.1 hs ha
  · rcases hrc with hrc | hrc
    · exact Or.inl (dry_of_dryOf s hrc)
    · right
      unfold lastWait
      rw [getLast_reverse_newest]
      exact hm.2.2 hrc

theorem gate_delete_claim (uids localNs : List String) (s : St) (live : Live) (hgo : pruneDecision uids localNs s live = .delete)
    (hM : MgrEv s.mgr s.events) (mr : MutRec) (hid : mr.id = live.id) (hidx : mr.evIdx = s.events.length) :
    DeleteClaim s.run.opts.dry s.edges s.events mr := by
  intro _ _ d hd
  rw [beforeIn_full _ _ hidx]
  rw [hid] at hd
  obtain ⟨_, r, hr, hs, ha, hrc⟩ := CliUtils.Props.C05.delete_gate uids localNs s live hgo d hd
  have hm := hM d r hr
  refine ⟨?_, ?_⟩
  · unfold lastDeleteResult
    rw [getLast_reverse_newest]
    exact hm.2.1 hs ha
  · rcases hrc with hrc | hrc
    · exact Or.inl (dry_of_dryOf s hrc)
    · right
      unfold lastWait
      rw [getLast_reverse_newest]
      exact hm.2.2 hrc

/-! ## apply and prune steps -/

theorem manifestOf_id (s : St) (id : Id) (m : Manifest) (h : manifestOf s id = some m) : m.id = id := by
  unfold manifestOf at h
  have := List.find?_some h
  simpa using this

theorem applyOne_inv (group : String) (s : St) (id : Id) (hI : Inv R G E s) : Inv R G E (applyOne group s id) := by
  unfold applyOne
  cases hm : manifestOf s id with
  | none => exact hI
  | some m =>
    have hid := manifestOf_id s id m hm
    subst hid
    simp only []
    cases hd : applyDecision s m with
    | fail r => exact hI.applyFail _ _ _
    | skip r => exact hI.applySkip _ _ _
    | go frm =>
      have hreq : ∀ (verb : String) (dry : Bool) (pre prop : String) (eff : Cluster → Cluster × String),
          (verb = "create" ∨ verb = "patch") → Inv R G E (s.mutReq verb m.id dry pre prop eff).1 := by
        intro verb dry pre prop eff hv
        apply hI.mutReq
        intro mr hmv hmid hidx
        refine ⟨?_, ?_⟩
        · have := gate_apply_claim s m frm hd hI.mgrEv mr hmid hidx
          rw [hI.run, hI.graph] at this
          exact this
        · intro hdel
          rw [hmv] at hdel
          rcases hv with hv | hv <;> (rw [hv] at hdel; exact absurd hdel (by decide))
      simp only [kubectlApply]
      split
      · unfold ssaApply
        simp only []
        split
        · exact (hreq _ _ _ _ _ (Or.inr rfl)).applyFail _ _ _
        · split
          · split
            · exact (hreq _ _ _ _ _ (Or.inr rfl)).applyOk _ _ _ _
            · split <;> exact (hreq _ _ _ _ _ (Or.inr rfl)).applyOk _ _ _ _
          · exact (hreq _ _ _ _ _ (Or.inr rfl)).applyOk _ _ _ _
      · unfold csaApply
        simp only []
        cases hg : s.get m.id with
        | none => exact hI.applyFail _ _ _
        | some o =>
          cases o with
          | none =>
            simp only []
            split
            · exact hI.applyOk _ _ _ _
            · split
              · exact (hreq _ _ _ _ _ (Or.inl rfl)).applyFail _ _ _
              · split <;> exact (hreq _ _ _ _ _ (Or.inl rfl)).applyOk _ _ _ _
          | some old =>
            simp only []
            split
            · exact hI.applyOk _ _ _ _
            · split
              · exact (hreq _ _ _ _ _ (Or.inr rfl)).applyFail _ _ _
              · exact (hreq _ _ _ _ _ (Or.inr rfl)).applyOk _ _ _ _

theorem pruneOne_inv (group : String) (uids localNs : List String) (s : St) (live : Live) (hI : Inv R G E s) :
    Inv R G E (pruneOne group uids localNs s live) := by
  have hk := opKind_mem s
  cases hd : pruneDecision uids localNs s live <;> simp only [pruneOne, hd]
  · exact hI.pruneFail _ _ _ _ hk
  · exact hI.pruneSkip _ _ _ _ hk
  · exact (hI.congr (s' := { s with abandoned := s.abandoned ++ [live.id] }) rfl rfl rfl rfl rfl rfl).pruneSkip _ _ _ _ hk
  · have hreq : Inv R G E (s.mutReq "update" live.id false "" "" (abandonEffect live)).1 := by
      apply hI.mutReq
      intro mr hmv _ _
      refine ⟨?_, ?_⟩
      · intro hv; rw [hmv] at hv; rcases hv with hv | hv <;> exact absurd hv (by decide)
      · intro hv; rw [hmv] at hv; exact absurd hv (by decide)
    split
    · exact (hreq.congr (s' := { (s.mutReq "update" live.id false "" "" (abandonEffect live)).1 with
          abandoned := (s.mutReq "update" live.id false "" "" (abandonEffect live)).1.abandoned ++ [live.id] })
          rfl rfl rfl rfl rfl rfl).pruneSkip _ _ _ _ hk
    · exact hreq.pruneFail _ _ _ _ hk
  · exact hI.pruneSkip _ _ _ _ hk
  · exact hI.pruneFail _ _ _ _ hk
  · split
    · exact hI.pruneSkip _ _ _ _ hk
    · exact (hI.congr (s' := { s with abandoned := s.abandoned ++ [live.id] }) rfl rfl rfl rfl rfl rfl).pruneSkip _ _ _ _ hk
  · exact hI.pruneOk _ _ _ _ hk
  · have hreq : Inv R G E (s.mutReq "delete" live.id false live.uid (propagationOf s)
        (deleteEffect (hasFinalizer s.run live.id) live)).1 := by
      apply hI.mutReq
      intro mr hmv hmid hidx
      refine ⟨?_, ?_⟩
      · intro hv; rw [hmv] at hv; rcases hv with hv | hv <;> exact absurd hv (by decide)
      · have := gate_delete_claim uids localNs s live hd hI.mgrEv mr hmid hidx
        rw [hI.run, hI.edges] at this
        exact this
    split
    · exact hreq.pruneOk _ _ _ _ hk
    · exact hreq.pruneFail _ _ _ _ hk

theorem fold_inv {β : Type} (f : St → β → St) (hf : ∀ s b, Inv R G E s → Inv R G E (f s b)) (l : List β) (s : St)
    (h : Inv R G E s) : Inv R G E (l.foldl f s) := by
  induction l generalizing s with
  | nil => exact h
  | cons b bs ih => exact ih _ (hf s b h)

/-! ## inventory tasks -/

theorem mergeInv_inv (s : St) (ids : List Id) (hI : Inv R G E s) : Inv R G E (mergeInv s ids).1 := by
  unfold mergeInv
  simp only []
  repeat' split
  all_goals first
    | exact hI.invRead
    | exact hI.invRead.invRead
    | exact hI.invRead.mutReq_invObj _ _ _ _ _
    | exact hI.invRead.invRead.mutReq_invObj _ _ _ _ _

/-- `InvAddTask`: the bootstrap create of the inventory namespace is the first thing after the task's `Started` event -/
theorem runInvAdd_inv (s : St) (ids : List Id) (hI : Inv R G E s) (g : String) (rest : List Ev)
    (hev : s.events = .group g "Inventory" "Started" :: rest) : Inv R G E (runInvAdd s ids).1 := by
  unfold runInvAdd
  split
  · simp only []
    have hreq : Inv R G E (s.mutReq "create" nsInv false "" "" (nsCreateEffect s.run)).1 := by
      apply hI.mutReq
      intro mr hv hid hidx
      refine ⟨?_, ?_⟩
      · intro _ _ hnb
        exfalso
        apply hnb
        refine ⟨hid, hv, g, ?_⟩
        rw [beforeIn_full _ _ hidx, hev]
        simp
      · intro hd; rw [hv] at hd; exact absurd hd (by decide)
    split
    · exact hreq
    · exact mergeInv_inv _ _ hreq
  · exact mergeInv_inv s ids hI

theorem runInvSet_inv (s : St) (prev : List Id) (pe : Bool) (hI : Inv R G E s) : Inv R G E (runInvSet s prev pe).1 := by
  unfold runInvSet
  split
  · exact hI
  · split
    · unfold deleteInv
      simp only []
      repeat' split
      all_goals first
        | exact hI.invRead
        | exact hI.invRead.mutReq_invObj _ _ _ _ _
    · unfold replaceInv
      simp only []
      repeat' split
      all_goals first
        | exact hI
        | exact hI.invRead
        | exact hI.invRead.invRead
        | exact hI.invRead.invRead.mutReq_invObj _ _ _ _ _

/-! ## wait tasks -/

/-- a step without requests that keeps the manager in agreement with the event list -/
structure Quiet (s s' : St) : Prop where
  run : s'.run = s.run
  graph : s'.graph = s.graph
  edges : s'.edges = s.edges
  muts : s'.muts = s.muts
  evs : ∃ l, s'.events = l ++ s.events
  mgrEv : MgrEv s.mgr s.events → MgrEv s'.mgr s'.events

theorem Quiet.refl (s : St) : Quiet s s := ⟨rfl, rfl, rfl, rfl, ⟨[], rfl⟩, id⟩

theorem Quiet.trans {a b c : St} (h1 : Quiet a b) (h2 : Quiet b c) : Quiet a c := by
  obtain ⟨l1, e1⟩ := h1.evs
  obtain ⟨l2, e2⟩ := h2.evs
  exact ⟨h2.run.trans h1.run, h2.graph.trans h1.graph, h2.edges.trans h1.edges, h2.muts.trans h1.muts,
    ⟨l2 ++ l1, by rw [e2, e1, List.append_assoc]⟩, fun h => h2.mgrEv (h1.mgrEv h)⟩

theorem Quiet.of_eq (s s' : St) (hr : s'.run = s.run) (hg : s'.graph = s.graph) (he : s'.edges = s.edges)
    (hmu : s'.muts = s.muts) (hm : s'.mgr = s.mgr) (hev : s'.events = s.events) : Quiet s s' :=
  ⟨hr, hg, he, hmu, ⟨[], by simp [hev]⟩, by rw [hm, hev]; exact id⟩

theorem Inv.quiet {s s' : St} (h : Inv R G E s) (q : Quiet s s') : Inv R G E s' :=
  h.step q.run q.graph q.edges q.evs (q.mgrEv h.mgrEv) (by intro m hm; left; rw [← q.muts]; exact hm)

theorem foldl_emit_fields {β : Type} (f : β → Ev) (l : List β) (s : St) :
    (l.foldl (fun s x => s.emit (f x)) s).run = s.run ∧ (l.foldl (fun s x => s.emit (f x)) s).graph = s.graph ∧
    (l.foldl (fun s x => s.emit (f x)) s).edges = s.edges ∧ (l.foldl (fun s x => s.emit (f x)) s).muts = s.muts ∧
    (l.foldl (fun s x => s.emit (f x)) s).mgr = s.mgr ∧
    (l.foldl (fun s x => s.emit (f x)) s).events = (l.map f).reverse ++ s.events := by
  induction l generalizing s with
  | nil => simp
  | cons x xs ih =>
    simp only [List.foldl_cons, List.map_cons, List.reverse_cons, List.append_assoc]
    obtain ⟨h1, h2, h3, h4, h5, h6⟩ := ih (s.emit (f x))
    exact ⟨h1, h2, h3, h4, h5, by rw [h6]; simp⟩

/-- flushing the wait events `l` whose effect on the table is already in `w.mgr` -/
theorem flush_quiet (g : String) (s : St) (w : Wait.WState Id) (n0 : Nat) (l : List (Id × Wait.WEv))
    (hl : w.events.drop n0 = l) (hm : w.mgr = applyEvs s.mgr l) : Quiet s (flushWait g { s with mgr := w.mgr } w n0) := by
  unfold flushWait
  rw [hl]
  obtain ⟨h1, h2, h3, h4, h5, h6⟩ :=
    foldl_emit_fields (fun (e : Id × Wait.WEv) => Ev.wait g e.1 (wevName e.2)) l { s with mgr := w.mgr }
  refine ⟨h1, h2, h3, h4, ⟨_, h6⟩, ?_⟩
  intro hM
  rw [h5, h6]
  show MgrEv w.mgr (_ ++ s.events)
  rw [hm]
  exact mgrEv_waits g l _ _ hM

/-- the wait task only appended events, and its table is the old one with these events recorded in order -/
def WExt (w w' : Wait.WState Id) : Prop := ∃ l, w'.events = w.events ++ l ∧ w'.mgr = applyEvs w.mgr l

theorem WExt.refl (w : Wait.WState Id) : WExt w w := ⟨[], by simp, rfl⟩

theorem WExt.trans {a b c : Wait.WState Id} (h1 : WExt a b) (h2 : WExt b c) : WExt a c := by
  obtain ⟨l1, e1, m1⟩ := h1
  obtain ⟨l2, e2, m2⟩ := h2
  exact ⟨l1 ++ l2, by rw [e2, e1, List.append_assoc], by rw [m2, m1, applyEvs_append]⟩

theorem wext_emit (w : Wait.WState Id) (id : Id) (e : Wait.WEv) : WExt w (Wait.emit w id e) := ⟨[(id, e)], rfl, rfl⟩

theorem wext_startFold (l : List Id) (w : Wait.WState Id) : WExt w (l.foldl Wait.startOne w) := by
  induction l generalizing w with
  | nil => exact WExt.refl w
  | cons x xs ih =>
    have h1 := CliUtils.Props.C06.startOne_spec w x
    simp only [] at h1
    exact WExt.trans ⟨[_], h1.1, h1.2.1⟩ (ih _)

theorem wext_start (ids : List Id) (c : Wait.Cond) (m : Mgr Id) (cache : List (Id × Wait.Obs)) :
    (Wait.start ids c m cache).mgr = applyEvs m (Wait.start ids c m cache).events := by
  unfold Wait.start
  rw [Wait.endIf_mgr, Wait.endIf_events]
  obtain ⟨l, h1, h2⟩ := wext_startFold ids
    { ids := ids, cond := c, pending := [], failed := [], mgr := m, cache := cache, events := [], cancelled := false }
  rw [h1, h2]
  simp

theorem wext_statusUpdate (w : Wait.WState Id) (id : Id) (o : Wait.Obs) : WExt w (Wait.statusUpdate w id o) := by
  unfold Wait.statusUpdate
  simp only []
  split
  · have hi := Wait.inner_mgr_events (o := o) { w with cache := (id, o) :: w.cache } id (by simp)
    cases hd : Wait.decide? { w with cache := (id, o) :: w.cache } id o with
    | none =>
      refine ⟨[], ?_, ?_⟩
      · rw [Wait.endIf_events, hi.1, hd]
      · rw [Wait.endIf_mgr, hi.2.1, hd]; rfl
    | some e =>
      refine ⟨[(id, e)], ?_, ?_⟩
      · rw [Wait.endIf_events, hi.1, hd]
      · rw [Wait.endIf_mgr, hi.2.1, hd]; rfl
  · exact ⟨[], by simp, rfl⟩

theorem wext_timeout (w : Wait.WState Id) : WExt w (Wait.timeout w) := by
  unfold Wait.timeout
  suffices ∀ (l : List Id) (st : Wait.WState Id), WExt st (l.foldl (fun st id => Wait.emit st id .timeout) st) by
    obtain ⟨l, h1, h2⟩ := this w.pending w
    exact ⟨l, h1, h2⟩
  intro l
  induction l with
  | nil => intro st; exact WExt.refl st
  | cons x xs ih => intro st; exact WExt.trans (wext_emit st x .timeout) (ih _)

theorem deliverState_quiet (s : St) (d : Delivery) : Quiet s (deliverState s d) := by
  unfold deliverState
  simp only []
  split
  · exact Quiet.trans (Quiet.of_eq _ _ rfl rfl rfl rfl rfl rfl)
      ⟨rfl, rfl, rfl, rfl, ⟨[.status d.id (kstatusName d.status)], rfl⟩, fun h => mgrEv_neutral _ _ _ h trivial⟩
  · exact Quiet.of_eq _ _ rfl rfl rfl rfl rfl rfl

theorem deliverOne_quiet (group : String) (n : Nat) (ws : WaitSt) (d : Delivery) :
    Quiet ws.s (deliverOne group n ws d).1.s := by
  unfold deliverOne
  simp only []
  split
  · exact Quiet.refl _
  · split
    · exact Quiet.of_eq _ _ rfl rfl rfl rfl rfl rfl
    · split
      · exact Quiet.of_eq _ _ rfl rfl rfl rfl rfl rfl
      · have q1 := deliverState_quiet ws.s d
        obtain ⟨l, hl1, hl2⟩ := wext_statusUpdate { ws.w with mgr := (deliverState ws.s d).mgr } d.id
          (obsOf (deliverState ws.s d).cl d)
        exact q1.trans (flush_quiet group _ _ _ l (by rw [hl1]; simp) hl2)

theorem deliverChain_quiet (group : String) (n : Nat) (ds : List Delivery) (ws : WaitSt) :
    Quiet ws.s (deliverChain group n ws ds).s := by
  induction ds generalizing ws with
  | nil => exact Quiet.refl _
  | cons d ds ih =>
    simp only [deliverChain]
    split
    · exact Quiet.trans (deliverOne_quiet group n ws d) (ih _)
    · exact deliverOne_quiet group n ws d

theorem runWait_quiet (group : String) (s : St) (ids : List Id) (cond : Wait.Cond) :
    Quiet s (runWait group s ids cond).1 := by
  unfold runWait
  simp only []
  have e0 : Quiet s (flushWait group { { s with waitIdx := s.waitIdx + 1 } with mgr := (Wait.start ids cond s.mgr s.cache).mgr }
      (Wait.start ids cond s.mgr s.cache) 0) :=
    Quiet.trans (Quiet.of_eq s { s with waitIdx := s.waitIdx + 1 } rfl rfl rfl rfl rfl rfl)
      (flush_quiet group { s with waitIdx := s.waitIdx + 1 } (Wait.start ids cond s.mgr s.cache) 0 _ rfl
        (wext_start ids cond s.mgr s.cache))
  have efold : ∀ (chains : List (List Delivery)) (ws : WaitSt), Quiet s ws.s →
      Quiet s (chains.foldl (deliverChain group s.waitIdx) ws).s := by
    intro chains
    induction chains with
    | nil => intro ws h; exact h
    | cons c cs ih => intro ws h; exact ih _ (Quiet.trans h (deliverChain_quiet group s.waitIdx c ws))
  have e1 := efold (ids.flatMap (scriptFor s.run cond))
    { s := flushWait group { { s with waitIdx := s.waitIdx + 1 } with mgr := (Wait.start ids cond s.mgr s.cache).mgr }
        (Wait.start ids cond s.mgr s.cache) 0, w := Wait.start ids cond s.mgr s.cache } e0
  generalize (ids.flatMap (scriptFor s.run cond)).foldl (deliverChain group s.waitIdx) _ = ws at e1
  have e2 : Quiet s (if !ws.stopped && !ws.w.cancelled && !ws.w.pending.isEmpty && decide (ws.s.run.cancel = CancelAt.wait s.waitIdx none) then
      ({ ws with s := { ws.s with cancelled := true }, w := Wait.cancel ws.w, stopped := true } : WaitSt) else ws).s := by
    split
    · exact Quiet.trans e1 (Quiet.of_eq _ _ rfl rfl rfl rfl rfl rfl)
    · exact e1
  generalize (if !ws.stopped && !ws.w.cancelled && !ws.w.pending.isEmpty && decide (ws.s.run.cancel = CancelAt.wait s.waitIdx none) then
      ({ ws with s := { ws.s with cancelled := true }, w := Wait.cancel ws.w, stopped := true } : WaitSt) else ws) = ws2 at e2
  split
  · exact e2
  · split
    · exact e2
    · obtain ⟨l, hl1, hl2⟩ := wext_timeout { ws2.w with mgr := ws2.s.mgr }
      exact Quiet.trans e2 (flush_quiet group _ _ _ l (by rw [hl1]; simp) hl2)

/-! ## the runner -/

theorem runTask_inv (s : St) (t : Task) (pruneObjs : List Live) (localNs : List String) (hI : Inv R G E s) (rest : List Ev)
    (hev : s.events = .group t.name (t.action s.run.destroy) "Started" :: rest) :
    Inv R G E (runTask s t pruneObjs localNs).1 := by
  unfold runTask
  cases hk : t.kind with
  | invAdd ids => exact runInvAdd_inv s ids hI t.name rest (by rw [hev]; simp [Task.action, hk])
  | apply ids => exact fold_inv _ (fun s b h => applyOne_inv t.name s b h) ids s hI
  | prune ids => exact fold_inv _ (fun s b h => pruneOne_inv t.name _ localNs s b h) _ s hI
  | wait ids c => exact hI.quiet (runWait_quiet t.name s ids c)
  | invSet prev pe => exact runInvSet_inv s prev pe hI

theorem runTasks_inv (pruneObjs : List Live) (localNs : List String) (ts : List Task) (s : St) (hI : Inv R G E s) :
    Inv R G E (runTasks pruneObjs localNs s ts) := by
  induction ts generalizing s with
  | nil => simpa [runTasks] using hI
  | cons t ts ih =>
    unfold runTasks
    simp only []
    have h1 : Inv R G E (s.emit (.group t.name (t.action s.run.destroy) "Started")) := hI.emit_neutral _ trivial
    have h2 := runTask_inv _ t pruneObjs localNs h1 s.events rfl
    generalize runTask (s.emit (.group t.name (t.action s.run.destroy) "Started")) t pruneObjs localNs = r at h2 ⊢
    have h3 : Inv R G E (r.1.emit (.group t.name (t.action s.run.destroy) "Finished")) := h2.emit_neutral _ trivial
    split
    · exact h3.emit_neutral _ trivial
    · split
      · exact h3.emit_neutral _ trivial
      · split
        · exact h3.emit_neutral _ trivial
        · exact ih _ h3

/-! ## before the tasks -/

theorem inv_of_fresh (s : St) (hm : s.muts = []) (hg : s.mgr = []) : Inv s.run s.graph s.edges s :=
  ⟨rfl, rfl, rfl, by rw [hg]; exact mgrEv_nil _, by intro m h; rw [hm] at h; cases h⟩

theorem getPruneObjs_fst (s : St) (ids : List Id) : (getPruneObjs s ids).1 = s.invRead.1 := by
  unfold getPruneObjs
  simp only []
  split <;> rfl

theorem invRead_muts (s : St) : s.invRead.1.muts = s.muts := by unfold St.invRead; simp only []; split <;> rfl
theorem invRead_mgr (s : St) : s.invRead.1.mgr = s.mgr := by unfold St.invRead; simp only []; split <;> rfl
theorem invRead_run' (s : St) : s.invRead.1.run = s.run := by unfold St.invRead; simp only []; split <;> rfl

theorem prepare_inv (s : St) (plan : Plan) (pruneObjs : List Live) (hm : s.muts = []) (hg : s.mgr = []) :
    Inv s.run plan.graph plan.edges (prepare s plan pruneObjs) := by
  obtain ⟨h1, _, _, h4, h5, _⟩ := foldl_emit_fields (fun (e : List Id × String) => Ev.validation e.1 e.2) plan.valErrors s
  refine ⟨?_, rfl, rfl, ?_, ?_⟩
  · simp only [prepare]; exact h1
  · simp only [prepare]
    rw [h5, hg]
    generalize (Ev.init _ :: _) = evs
    have m1 : MgrEv (plan.applyIds.foldl (fun m i => m.add i .apply .pending) []) evs :=
      mgrEv_fold_add (fun i => i) .apply .pending (by decide) evs _ _ (mgrEv_nil _)
    have m2 := mgrEv_fold_add (fun i => i) .delete .pending (by decide) evs plan.pruneIds _ m1
    split
    · apply mgrEv_fold_add (fun (o : Live) => o.id) .delete .skipped (by decide) evs pruneObjs
      split
      · exact m2
      · exact m1
    · split
      · exact m2
      · exact m1
  · intro m hmem
    simp only [prepare] at hmem
    rw [h4, hm] at hmem
    cases hmem

theorem initialStatuses_inv (s : St) (hI : Inv R G E s) : Inv R G E (initialStatuses s) := by
  unfold initialStatuses
  split
  · exact hI
  · refine fold_inv _ ?_ _ _ hI
    intro s id h
    dsimp only
    split
    · exact h
    · split
      · refine Inv.emit_neutral ?_ (.status id "Current") trivial
        exact h.congr rfl rfl rfl rfl rfl rfl
      · exact h.congr rfl rfl rfl rfl rfl rfl

/-- the invariant holds at the end of every run, for the run's own graph and edge list -/
theorem runOne_inv (c : Cluster) (run : Run) :
    Inv run (runOne c run).graph (runOne c run).edges (runOne c run) := by
  suffices ∃ G E, Inv run G E (runOne c run) by
    obtain ⟨G, E, h⟩ := this
    have := h
    rw [← h.graph, ← h.edges] at this
    exact this
  unfold runOne
  simp only []
  generalize hs0 : ({ cl := run.envDel.foldl (fun c i => c.remove i) c, run := run } : St) = s0
  have hr0 : s0.run = run := by rw [← hs0]
  have hm0 : s0.muts = [] := by rw [← hs0]
  have hg0 : s0.mgr = [] := by rw [← hs0]
  generalize (if run.destroy then [] else run.objs) = applyMs
  have f1 := getPruneObjs_fst s0 (applyMs.map (·.id))
  generalize getPruneObjs s0 (applyMs.map (·.id)) = r1 at f1 ⊢
  have hr1 : r1.1.run = run := by rw [f1, invRead_run', hr0]
  have hm1 : r1.1.muts = [] := by rw [f1, invRead_muts, hm0]
  have hg1 : r1.1.mgr = [] := by rw [f1, invRead_mgr, hg0]
  cases hp : r1.2 with
  | none =>
    simp only []
    have := (inv_of_fresh r1.1 hm1 hg1).emit_neutral (.error "fault") trivial
    rw [hr1] at this
    exact ⟨_, _, this⟩
  | some pruneObjs =>
    simp only []
    have hr2 : r1.1.invRead.1.run = run := by rw [invRead_run', hr1]
    have hm2 : r1.1.invRead.1.muts = [] := by rw [invRead_muts, hm1]
    have hg2 : r1.1.invRead.1.mgr = [] := by rw [invRead_mgr, hg1]
    generalize buildPlan run applyMs pruneObjs _ _ = plan
    split
    · have := (inv_of_fresh r1.1.invRead.1 hm2 hg2).emit_neutral (.error "other") trivial
      rw [hr2] at this
      exact ⟨_, _, this⟩
    · have h3 := initialStatuses_inv _ (prepare_inv r1.1.invRead.1 plan pruneObjs hm2 hg2)
      rw [hr2] at h3
      split
      · exact ⟨_, _, h3.emit_neutral _ trivial⟩
      · exact ⟨_, _, runTasks_inv pruneObjs _ plan.tasks _ h3⟩

end CliUtils.OrderL
