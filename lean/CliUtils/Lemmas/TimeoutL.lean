import CliUtils.Model.Sys
import CliUtils.Lemmas.SysL
import CliUtils.Lemmas.WaitL
import CliUtils.Lemmas.GrammarL
import CliUtils.Props.C01
import CliUtils.Props.C06
import CliUtils.Props.C10
import CliUtils.Props.C13
/-
  Helpers for the run-level timeout / cancellation theorems of C12 (`Props/C12R.lean`) and the final inventory write of C03.

  * `waitFed` / `waitEnd`: the state of a wait phase after the scripted feed (and after the "cancel at the end" point), so
    that `runWait` is literally "three-way branch on `waitEnd`" (`runWait_eq`, by `rfl`);
  * `waitEnd_induct`: the induction principle over the scripted deliveries;
  * `NoTO`: "not a Timeout wait event", carried through every step of a run without a configured timeout;
  * `Calm`: "not cancelled, watcher alive", carried through a wait phase that has no cancellation / watcher-error point;
  * `PendInv`: "nothing pending ⇒ the phase has ended", so that the deadline branch always has something to report;
  * `replaceInv_ok_cases`: the two ways `ClusterClient.Replace` succeeds.
-/
namespace CliUtils.TimeoutL
open CliUtils CliUtils.Sys CliUtils.GrammarL

/-! ## `runWait` in three stages -/

/-- the wait phase after `Start` and the whole scripted status feed -/
def waitFed (group : String) (s : St) (ids : List Id) (cond : Wait.Cond) : WaitSt :=
  (ids.flatMap (scriptFor s.run cond)).foldl (deliverChain group s.waitIdx)
    { s := flushWait group { { s with waitIdx := s.waitIdx + 1 } with mgr := (Wait.start ids cond s.mgr s.cache).mgr }
        (Wait.start ids cond s.mgr s.cache) 0,
      w := Wait.start ids cond s.mgr s.cache }

/-- … and after the cancellation point "at the end of the script" -/
def waitEnd (group : String) (s : St) (ids : List Id) (cond : Wait.Cond) : WaitSt :=
  let ws := waitFed group s ids cond
  if !ws.stopped && !ws.w.cancelled && !ws.w.pending.isEmpty && ws.s.run.cancel = .wait s.waitIdx none then
    { ws with s := { ws.s with cancelled := true }, w := Wait.cancel ws.w, stopped := true }
  else ws

/-- `runWait` is a three-way branch on `waitEnd`: phase over (complete or cancelled), no deadline, deadline -/
theorem runWait_eq (group : String) (s : St) (ids : List Id) (cond : Wait.Cond) :
    runWait group s ids cond =
      (if (waitEnd group s ids cond).w.cancelled then ((waitEnd group s ids cond).s, none)
       else if !(waitEnd group s ids cond).s.run.opts.timeout then ((waitEnd group s ids cond).s, some "hang")
       else (flushWait group
              { (waitEnd group s ids cond).s with
                  mgr := (Wait.timeout { (waitEnd group s ids cond).w with mgr := (waitEnd group s ids cond).s.mgr }).mgr }
              (Wait.timeout { (waitEnd group s ids cond).w with mgr := (waitEnd group s ids cond).s.mgr })
              (waitEnd group s ids cond).w.events.length, none)) := rfl

/-- induction over the scripted deliveries of a wait phase -/
theorem waitFed_induct (P : WaitSt → Prop) (group : String) (s : St) (ids : List Id) (cond : Wait.Cond)
    (h0 : P { s := flushWait group { { s with waitIdx := s.waitIdx + 1 } with mgr := (Wait.start ids cond s.mgr s.cache).mgr }
                (Wait.start ids cond s.mgr s.cache) 0,
              w := Wait.start ids cond s.mgr s.cache })
    (hstep : ∀ ws d, P ws → P (deliverOne group s.waitIdx ws d).1) :
    P (waitFed group s ids cond) := by
  unfold waitFed
  have hchain : ∀ (ds : List Delivery) (ws : WaitSt), P ws → P (deliverChain group s.waitIdx ws ds) := by
    intro ds
    induction ds with
    | nil => intro ws h; exact h
    | cons d ds ih =>
      intro ws h
      simp only [deliverChain]
      split
      · exact ih _ (hstep ws d h)
      · exact hstep ws d h
  have hfold : ∀ (chains : List (List Delivery)) (ws : WaitSt), P ws → P (chains.foldl (deliverChain group s.waitIdx) ws) := by
    intro chains
    induction chains with
    | nil => intro ws h; exact h
    | cons c cs ih => intro ws h; exact ih _ (hchain c ws h)
  exact hfold _ _ h0

/-- … including the cancellation point at the end of the script -/
theorem waitEnd_induct (P : WaitSt → Prop) (group : String) (s : St) (ids : List Id) (cond : Wait.Cond)
    (h0 : P { s := flushWait group { { s with waitIdx := s.waitIdx + 1 } with mgr := (Wait.start ids cond s.mgr s.cache).mgr }
                (Wait.start ids cond s.mgr s.cache) 0,
              w := Wait.start ids cond s.mgr s.cache })
    (hstep : ∀ ws d, P ws → P (deliverOne group s.waitIdx ws d).1)
    (hend : ∀ ws, P ws → ws.s.run.cancel = .wait s.waitIdx none →
      P { ws with s := { ws.s with cancelled := true }, w := Wait.cancel ws.w, stopped := true }) :
    P (waitEnd group s ids cond) := by
  have h1 := waitFed_induct P group s ids cond h0 hstep
  unfold waitEnd
  simp only []
  split
  · rename_i hc
    simp only [Bool.and_eq_true, decide_eq_true_eq] at hc
    exact hend _ h1 hc.2
  · exact h1

/-! ## `flushWait` and `deliverState` in closed form -/

theorem foldl_emit_eq {β : Type} (f : β → Ev) (l : List β) (s : St) :
    l.foldl (fun s x => s.emit (f x)) s = { s with events := (l.map f).reverse ++ s.events } := by
  induction l generalizing s with
  | nil => rfl
  | cons x xs ih =>
    simp only [List.foldl_cons, List.map_cons, List.reverse_cons, List.append_assoc]
    rw [ih]
    simp [St.emit]

theorem flushWait_eq (group : String) (s : St) (w : Wait.WState Id) (n0 : Nat) :
    flushWait group s w n0 =
      { s with events := ((w.events.drop n0).map (fun e => Ev.wait group e.1 (wevName e.2))).reverse ++ s.events } := by
  unfold flushWait
  exact foldl_emit_eq (fun (e : Id × Wait.WEv) => Ev.wait group e.1 (wevName e.2)) _ s

theorem deliverState_fields (s : St) (d : Delivery) :
    (deliverState s d).run = s.run ∧ (deliverState s d).cancelled = s.cancelled ∧
    (deliverState s d).watcherFailed = s.watcherFailed ∧ (deliverState s d).mgr = s.mgr ∧
    (deliverState s d).muts = s.muts ∧ (deliverState s d).mutIdx = s.mutIdx := by
  unfold deliverState
  simp only []
  split <;> exact ⟨rfl, rfl, rfl, rfl, rfl, rfl⟩

/-! ## no Timeout event without a configured timeout -/

/-- not a Timeout wait event -/
def NoTO (e : Ev) : Prop := ∀ g id, e ≠ .wait g id "Timeout"

theorem wevName_timeout (e : Wait.WEv) (h : wevName e = "Timeout") : e = .timeout := by
  cases e <;> first | rfl | (exfalso; revert h; decide)

theorem Only.mono {P Q : Ev → Prop} (hPQ : ∀ e, P e → Q e) {s s' : St} (h : Only P s s') : Only Q s s' := by
  obtain ⟨hr, l, hl, hp⟩ := h
  exact ⟨hr, l, hl, fun e he => hPQ e (hp e he)⟩

theorem flushWait_noTO (group : String) (s : St) (w : Wait.WState Id) (n0 : Nat)
    (h : ∀ e ∈ w.events.drop n0, e.2 ≠ .timeout) : Only NoTO s (flushWait group s w n0) := by
  have hs := flushWait_spec group s w n0
  refine ⟨hs.2, _, hs.1, ?_⟩
  intro e he g id heq
  rw [List.mem_reverse] at he
  obtain ⟨x, hx, rfl⟩ := List.mem_map.mp he
  injection heq with _ _ h3
  exact h x hx (wevName_timeout _ h3)

theorem deliverState_noTO (s : St) (d : Delivery) : Only NoTO s (deliverState s d) := by
  unfold deliverState
  simp only []
  split
  · exact Only.one _ _ _ (.status d.id (kstatusName d.status)) rfl rfl (by intro g id h; cases h)
  · exact Only.of_eq _ _ _ rfl rfl

theorem deliverOne_noTO (group : String) (n : Nat) (ws : WaitSt) (d : Delivery) :
    Only NoTO ws.s (deliverOne group n ws d).1.s := by
  unfold deliverOne
  simp only []
  split
  · exact Only.refl _ _
  · split
    · exact Only.of_eq _ _ _ rfl rfl
    · split
      · exact Only.of_eq _ _ _ rfl rfl
      · refine Only.trans (deliverState_noTO ws.s d) (Only.trans (Only.of_eq _ _ _ rfl rfl) (flushWait_noTO group _ _ _ ?_))
        obtain ⟨l, hl, _, hl3⟩ := CliUtils.Props.C06.update_success_sound
          { ws.w with mgr := (deliverState ws.s d).mgr } d.id (obsOf (deliverState ws.s d).cl d)
        rw [hl]
        intro e he
        simp only [List.drop_left] at he
        exact (hl3 e he).2.2.2

theorem start_noTO (ids : List Id) (c : Wait.Cond) (m : Mgr Id) (cache : List (Id × Wait.Obs)) :
    ∀ e ∈ (Wait.start ids c m cache).events, e.2 ≠ .timeout := by
  intro e he
  exact (CliUtils.Props.C06.start_success_sound ids c m cache e.1 e.2 he).2.2.2.1

/-- up to the deadline, a wait phase emits no Timeout event (and never changes the run configuration) -/
theorem waitEnd_noTO (group : String) (s : St) (ids : List Id) (cond : Wait.Cond) :
    Only NoTO s (waitEnd group s ids cond).s := by
  apply waitEnd_induct (fun ws => Only NoTO s ws.s)
  · exact Only.trans (Only.of_eq NoTO s { s with waitIdx := s.waitIdx + 1 } rfl rfl)
      (Only.trans (Only.of_eq _ _ _ rfl rfl)
        (flushWait_noTO group _ _ 0 (by simpa using start_noTO ids cond s.mgr s.cache)))
  · intro ws d h
    exact Only.trans h (deliverOne_noTO group s.waitIdx ws d)
  · intro ws h _
    exact Only.trans h (Only.of_eq _ _ _ rfl rfl)

theorem waitEnd_run (group : String) (s : St) (ids : List Id) (cond : Wait.Cond) :
    (waitEnd group s ids cond).s.run = s.run := (waitEnd_noTO group s ids cond).1

theorem runWait_noTO (group : String) (s : St) (ids : List Id) (cond : Wait.Cond) (ht : s.run.opts.timeout = false) :
    Only NoTO s (runWait group s ids cond).1 := by
  have h := waitEnd_noTO group s ids cond
  rw [runWait_eq]
  split
  · exact h
  · split
    · exact h
    · rename_i _ hto
      rw [h.1, ht] at hto
      exact absurd rfl hto

theorem noTO_op (k g : String) (i : Id) (st r : String) : NoTO (.op k g i st r) := by intro g id h; cases h

theorem applyOne_noTO (group : String) (s : St) (id : Id) : Only NoTO s (applyOne group s id) := by
  cases hm : manifestOf s id with
  | none => exact Only.of_eq _ _ _ (by simp [applyOne, hm]) (by simp [applyOne, hm])
  | some m =>
    have hid := CliUtils.Props.C01.manifestOf_id s id m hm
    obtain ⟨st, r, h, _⟩ := CliUtils.Props.C13.applyOne_one_event group s id m hm hid
    exact Only.one _ _ _ _ (applyOne_run group s id) h (noTO_op _ _ _ _ _)

theorem pruneOne_noTO (group : String) (uids localNs : List String) (s : St) (live : Live) :
    Only NoTO s (pruneOne group uids localNs s live) := by
  obtain ⟨st, r, h, _⟩ := CliUtils.Props.C13.pruneOne_one_event group uids localNs s live
  exact Only.one _ _ _ _ (pruneOne_run group uids localNs s live) h (noTO_op _ _ _ _ _)

theorem runTask_noTO (s : St) (t : Task) (pruneObjs : List Live) (localNs : List String) (ht : s.run.opts.timeout = false) :
    Only NoTO s (runTask s t pruneObjs localNs).1 := by
  unfold runTask
  cases t.kind with
  | invAdd ids => exact Only.of_eq _ _ _ (runInvAdd_run s ids) (CliUtils.Props.C13.runInvAdd_events s ids)
  | apply ids => exact Only.fold _ (fun s b => applyOne_noTO t.name s b) ids s
  | prune ids => exact Only.fold _ (fun s b => pruneOne_noTO t.name _ localNs s b) _ s
  | wait ids c => exact runWait_noTO t.name s ids c ht
  | invSet prev pe => exact Only.of_eq _ _ _ (runInvSet_run s prev pe) (CliUtils.Props.C13.runInvSet_events s prev pe)

/-- no timeout configured, and no Timeout event so far -/
def AllNoTO (s : St) : Prop := s.run.opts.timeout = false ∧ ∀ e ∈ s.events, NoTO e

theorem AllNoTO.only {s s' : St} (h : AllNoTO s) (ho : Only NoTO s s') : AllNoTO s' := by
  obtain ⟨hr, l, hl, hp⟩ := ho
  refine ⟨by rw [hr]; exact h.1, ?_⟩
  intro e he
  rw [hl] at he
  rcases List.mem_append.mp he with he | he
  · exact hp e he
  · exact h.2 e he

theorem AllNoTO.emit {s : St} (h : AllNoTO s) (e : Ev) (he : NoTO e) : AllNoTO (s.emit e) :=
  h.only (Only.one _ _ _ e rfl rfl he)

theorem noTO_group (n a st : String) : NoTO (.group n a st) := by intro g id h; cases h
theorem noTO_error (k : String) : NoTO (.error k) := by intro g id h; cases h

theorem runTasks_noTO (pruneObjs : List Live) (localNs : List String) (ts : List Task) (s : St) (h : AllNoTO s) :
    AllNoTO (runTasks pruneObjs localNs s ts) := by
  induction ts generalizing s with
  | nil => simpa [runTasks] using h
  | cons t ts ih =>
    unfold runTasks
    simp only []
    have h1 : AllNoTO (s.emit (.group t.name (t.action s.run.destroy) "Started")) := h.emit _ (noTO_group _ _ _)
    have h2 := h1.only (runTask_noTO _ t pruneObjs localNs h1.1)
    generalize runTask (s.emit (.group t.name (t.action s.run.destroy) "Started")) t pruneObjs localNs = r at h2 ⊢
    have h3 : AllNoTO (r.1.emit (.group t.name (t.action s.run.destroy) "Finished")) := h2.emit _ (noTO_group _ _ _)
    split
    · exact h3.emit _ (noTO_error _)
    · split
      · exact h3.emit _ (noTO_error _)
      · split
        · exact h3.emit _ (noTO_error _)
        · exact ih _ h3

theorem runOne_noTO (c : Cluster) (run : Run) (ht : run.opts.timeout = false) : AllNoTO (runOne c run) := by
  unfold runOne
  simp only []
  generalize hs0 : ({ cl := run.envDel.foldl (fun c i => c.remove i) c, run := run } : St) = s0
  have hr0 : s0.run = run := by rw [← hs0]
  have hev0 : s0.events = [] := by rw [← hs0]
  generalize (if run.destroy then [] else run.objs) = applyMs
  have e1 := getPruneObjs_events s0 (applyMs.map (·.id))
  have q1 := getPruneObjs_run s0 (applyMs.map (·.id))
  generalize getPruneObjs s0 (applyMs.map (·.id)) = r1 at e1 q1 ⊢
  rw [hev0] at e1
  rw [hr0] at q1
  have a1 : AllNoTO r1.1 := ⟨by rw [q1]; exact ht, by rw [e1]; simp⟩
  cases hp : r1.2 with
  | none => exact a1.emit _ (noTO_error _)
  | some pruneObjs =>
    simp only []
    have a2 : AllNoTO r1.1.invRead.1 :=
      a1.only (Only.of_eq _ _ _ (CliUtils.Props.C10.invRead_run r1.1) (CliUtils.Props.C13.invRead_events r1.1))
    generalize buildPlan run applyMs pruneObjs _ _ = plan
    split
    · exact a2.emit _ (noTO_error _)
    · have a3 : AllNoTO (prepare r1.1.invRead.1 plan pruneObjs) := by
        refine ⟨by rw [prepare_run]; exact a2.1, ?_⟩
        rw [prepare_events]
        intro e he
        rcases List.mem_cons.mp he with he | he
        · subst he; intro g id h; cases h
        · rcases List.mem_append.mp he with he | he
          · rw [List.mem_reverse] at he
            obtain ⟨x, _, rfl⟩ := List.mem_map.mp he
            intro g id h; cases h
          · exact a2.2 e he
      have a4 : AllNoTO (initialStatuses (prepare r1.1.invRead.1 plan pruneObjs)) :=
        a3.only (Only.mono (fun e he => by intro g id heq; subst heq; exact he) (initialStatuses_only _))
      split
      · exact a4.emit _ (noTO_error _)
      · exact runTasks_noTO pruneObjs _ plan.tasks _ a4

/-! ## a wait phase without a cancellation / watcher-error point aborts nothing -/

/-- the run is neither cancelled nor has its watcher failed (and the run configuration is the one of `s0`) -/
structure Calm (s0 : St) (s : St) : Prop where
  run : s.run = s0.run
  canc : s.cancelled = false
  wf : s.watcherFailed = false
  muts : s.muts = s0.muts
  mutIdx : s.mutIdx = s0.mutIdx

theorem deliverOne_calm (group : String) (s0 : St) (n : Nat) (ws : WaitSt) (d : Delivery)
    (hc : ∀ j, s0.run.cancel ≠ .wait n j) (hw : ∀ k, s0.run.watchErr ≠ some (n, k)) (h : Calm s0 ws.s) :
    Calm s0 (deliverOne group n ws d).1.s := by
  unfold deliverOne
  simp only []
  split
  · exact h
  · split
    · rename_i _ hcond
      rw [h.run] at hcond
      exact absurd hcond (hc _)
    · split
      · rename_i _ _ hcond
        rw [h.run] at hcond
        exact absurd hcond (hw _)
      · rw [flushWait_eq]
        obtain ⟨d1, d2, d3, _, d5, d6⟩ := deliverState_fields ws.s d
        exact ⟨d1.trans h.run, d2.trans h.canc, d3.trans h.wf, d5.trans h.muts, d6.trans h.mutIdx⟩

theorem waitEnd_calm (group : String) (s : St) (ids : List Id) (cond : Wait.Cond)
    (hcn : s.cancelled = false) (hwf : s.watcherFailed = false)
    (hc : ∀ j, s.run.cancel ≠ .wait s.waitIdx j) (hw : ∀ k, s.run.watchErr ≠ some (s.waitIdx, k)) :
    Calm s (waitEnd group s ids cond).s := by
  apply waitEnd_induct (fun ws => Calm s ws.s)
  · rw [flushWait_eq]
    exact ⟨rfl, hcn, hwf, rfl, rfl⟩
  · intro ws d h
    exact deliverOne_calm group s s.waitIdx ws d hc hw h
  · intro ws h hcond
    rw [h.run] at hcond
    exact absurd hcond (hc _)

theorem runWait_calm (group : String) (s : St) (ids : List Id) (cond : Wait.Cond)
    (hcn : s.cancelled = false) (hwf : s.watcherFailed = false)
    (hc : ∀ j, s.run.cancel ≠ .wait s.waitIdx j) (hw : ∀ k, s.run.watchErr ≠ some (s.waitIdx, k)) :
    Calm s (runWait group s ids cond).1 := by
  have h := waitEnd_calm group s ids cond hcn hwf hc hw
  rw [runWait_eq]
  split
  · exact h
  · split
    · exact h
    · rw [flushWait_eq]
      exact ⟨h.run, h.canc, h.wf, h.muts, h.mutIdx⟩

/-- the error class of a wait task: none, or "hang" — and "hang" only without a configured timeout -/
theorem runWait_err (group : String) (s : St) (ids : List Id) (cond : Wait.Cond) :
    ((runWait group s ids cond).2 = none ∨ (runWait group s ids cond).2 = some "hang") ∧
    (s.run.opts.timeout = true → (runWait group s ids cond).2 = none) := by
  rw [runWait_eq]
  split
  · exact ⟨Or.inl rfl, fun _ => rfl⟩
  · split
    · rename_i _ hto
      refine ⟨Or.inr rfl, ?_⟩
      intro ht
      rw [waitEnd_run, ht] at hto
      exact absurd hto (by decide)
    · exact ⟨Or.inl rfl, fun _ => rfl⟩

/-! ## once stopped, the scripted feed changes nothing -/

theorem deliverOne_stopped (group : String) (n : Nat) (ws : WaitSt) (d : Delivery) (h : ws.stopped = true) :
    deliverOne group n ws d = (ws, false) := by
  unfold deliverOne
  simp [h]

theorem deliverChain_stopped (group : String) (n : Nat) (ws : WaitSt) (ds : List Delivery) (h : ws.stopped = true) :
    deliverChain group n ws ds = ws := by
  cases ds with
  | nil => rfl
  | cons d ds => simp only [deliverChain, deliverOne_stopped group n ws d h]; rfl

theorem deliverChains_stopped (group : String) (n : Nat) (chains : List (List Delivery)) (ws : WaitSt) (h : ws.stopped = true) :
    chains.foldl (deliverChain group n) ws = ws := by
  induction chains with
  | nil => rfl
  | cons c cs ih => rw [List.foldl_cons, deliverChain_stopped group n ws c h]; exact ih

/-- likewise once the phase has ended (all objects reconciled, or cancelled) -/
theorem deliverOne_ended (group : String) (n : Nat) (ws : WaitSt) (d : Delivery) (h : ws.w.cancelled = true) :
    deliverOne group n ws d = (ws, false) := by
  unfold deliverOne
  simp [h]

/-- `stopped` is set exactly together with the cancellation of the task and one of the two abort flags -/
def StopInv (ws : WaitSt) : Prop :=
  ws.stopped = true → ws.w.cancelled = true ∧ (ws.s.cancelled = true ∨ ws.s.watcherFailed = true)

theorem deliverOne_stopInv (group : String) (n : Nat) (ws : WaitSt) (d : Delivery) (h : StopInv ws) :
    StopInv (deliverOne group n ws d).1 := by
  unfold deliverOne
  simp only []
  split
  · exact h
  · split
    · intro _; exact ⟨rfl, Or.inl rfl⟩
    · split
      · intro _; exact ⟨rfl, Or.inr rfl⟩
      · rename_i hns _ _
        intro hst
        simp only at hst
        simp [hst] at hns

theorem waitEnd_stopInv (group : String) (s : St) (ids : List Id) (cond : Wait.Cond) : StopInv (waitEnd group s ids cond) := by
  apply waitEnd_induct StopInv
  · intro h; cases h
  · intro ws d h; exact deliverOne_stopInv group s.waitIdx ws d h
  · intro ws _ _ _; exact ⟨rfl, Or.inl rfl⟩

/-! ## nothing pending ⇒ the phase has ended -/

/-- `WaitTask` cancels itself as soon as no object is pending -/
def PendInv (w : Wait.WState Id) : Prop := w.pending = [] → w.cancelled = true

theorem start_pendInv (ids : List Id) (c : Wait.Cond) (m : Mgr Id) (cache : List (Id × Wait.Obs)) :
    PendInv (Wait.start ids c m cache) := by
  intro h
  rw [(CliUtils.Props.C06.start_spec ids c m cache).2.2, h]
  rfl

theorem statusUpdate_pendInv (w : Wait.WState Id) (id : Id) (o : Wait.Obs) (h : PendInv w) :
    PendInv (Wait.statusUpdate w id o) := by
  unfold Wait.statusUpdate
  simp only []
  split
  · intro hp
    rw [Wait.endIf_pending] at hp
    rw [Wait.endIf_cancelled, hp]
    simp
  · exact h

theorem deliverOne_pendInv (group : String) (n : Nat) (ws : WaitSt) (d : Delivery) (h : PendInv ws.w) :
    PendInv (deliverOne group n ws d).1.w := by
  unfold deliverOne
  simp only []
  split
  · exact h
  · split
    · intro _; rfl
    · split
      · intro _; rfl
      · exact statusUpdate_pendInv _ _ _ h

theorem waitEnd_pendInv (group : String) (s : St) (ids : List Id) (cond : Wait.Cond) : PendInv (waitEnd group s ids cond).w := by
  apply waitEnd_induct (fun ws => PendInv ws.w)
  · exact start_pendInv ids cond s.mgr s.cache
  · intro ws d h; exact deliverOne_pendInv group s.waitIdx ws d h
  · intro ws _ _ _; rfl

/-- events and pending objects of the wait task all belong to the phase (`GrammarL.WInv`), up to the end of the feed -/
theorem waitEnd_winv (group : String) (s : St) (ids : List Id) (cond : Wait.Cond) : WInv ids (waitEnd group s ids cond).w := by
  apply waitEnd_induct (fun ws => WInv ids ws.w)
  · exact start_inv ids cond s.mgr s.cache
  · intro ws d h
    unfold deliverOne
    simp only []
    split
    · exact h
    · split
      · exact h
      · split
        · exact h
        · exact statusUpdate_inv ids _ d.id _ h
  · intro ws h _; exact h

/-! ## the deadline branch -/

/-- recording Timeout for a list of ids, one after the other -/
def markTimeout (m : Mgr Id) (l : List Id) : Mgr Id := l.foldl (fun m id => (m.setReconcile id .timeout).getD m) m

theorem find_markTimeout (l : List Id) (m : Mgr Id) (x : Id) :
    (markTimeout m l).find? x = (m.find? x).map (fun r => if x ∈ l then { r with reconcile := .timeout } else r) := by
  induction l generalizing m with
  | nil => simp [markTimeout]
  | cons y ys ih =>
    have hstep : markTimeout m (y :: ys) = markTimeout ((m.setReconcile y .timeout).getD m) ys := rfl
    rw [hstep, ih, Wait.find_setReconcile_getD]
    cases m.find? x with
    | none => rfl
    | some r =>
      simp only [Option.map_some, List.mem_cons]
      by_cases hxy : x = y
      · subst hxy; simp
      · by_cases hx : x ∈ ys <;> simp [hxy, hx]

theorem timeout_mgr (w : Wait.WState Id) : (Wait.timeout w).mgr = markTimeout w.mgr w.pending := by
  unfold Wait.timeout markTimeout
  simp only []
  suffices ∀ (l : List Id) (st : Wait.WState Id),
      (l.foldl (fun st id => Wait.emit st id .timeout) st).mgr =
        l.foldl (fun m id => (m.setReconcile id .timeout).getD m) st.mgr from this w.pending w
  intro l
  induction l with
  | nil => intro st; rfl
  | cons x xs ih => intro st; simp only [List.foldl_cons]; rw [ih]; rfl

/-- **the deadline branch of `runWait`**: taken iff the phase is still running after the script (not complete, not
cancelled) and a timeout is configured; then exactly the pending objects get a Timeout event, in order, and the reconcile
state `timeout`; nothing else of the state changes -/
theorem runWait_deadline (group : String) (s : St) (ids : List Id) (cond : Wait.Cond)
    (hrun : (waitEnd group s ids cond).w.cancelled = false) (ht : s.run.opts.timeout = true) :
    runWait group s ids cond =
      ({ (waitEnd group s ids cond).s with
          mgr := markTimeout (waitEnd group s ids cond).s.mgr (waitEnd group s ids cond).w.pending,
          events := ((waitEnd group s ids cond).w.pending.map (fun id => Ev.wait group id "Timeout")).reverse ++
                      (waitEnd group s ids cond).s.events }, none) := by
  rw [runWait_eq, hrun, waitEnd_run, ht]
  simp only [Bool.false_eq_true, if_false, Bool.not_true]
  rw [flushWait_eq, timeout_mgr, (CliUtils.Props.C06.timeout_exactly_pending _).1]
  simp only [List.drop_left, List.map_map]
  rfl

/-! ## the final inventory write -/

open CliUtils.Props.C01 CliUtils.Props.C19 in
/-- the two ways `ClusterClient.Replace` reports success outside dry-run: nothing is written because the stored set already
has the same members (and the client stores no statuses), or the update request succeeded and the stored inventory is
exactly the (de-duplicated) set; no object is touched either way -/
theorem replaceInv_ok_cases (s : St) (objs : List Id) (hd : dryOf s = false) (hok : (replaceInv s objs).2 = none) :
    (replaceInv s objs).1.cl.objs = s.cl.objs ∧
    (((replaceInv s objs).1.cl.inv = s.cl.inv ∧ IdSet.equal objs (s.cl.inv.getD []) = true ∧
        (replaceInv s objs).1.muts = s.muts) ∨
     ((replaceInv s objs).1.cl.inv = some (dedup objs) ∧ s.cl.inv ≠ none)) := by
  unfold replaceInv at hok ⊢
  simp only [hd, Bool.false_eq_true, if_false] at hok ⊢
  rw [invRead_snd] at hok ⊢
  have hcl1 : s.invRead.1.cl = s.cl := by simp
  have hm1 : s.invRead.1.muts = s.muts := by simp
  by_cases hf1 : s.invReads ∈ s.run.failInvRead
  · simp [hf1] at hok
  · simp only [hf1, if_false] at hok ⊢
    generalize s.invRead.1 = t1 at *
    rw [invRead_snd] at hok ⊢
    have hcl2 : t1.invRead.1.cl = t1.cl := by simp
    have hm2 : t1.invRead.1.muts = t1.muts := by simp
    by_cases hf2 : t1.invReads ∈ t1.run.failInvRead
    · simp [hf2] at hok
    · simp only [hf2, if_false, hcl1] at hok ⊢
      generalize t1.invRead.1 = t2 at *
      split at hok
      · simp at hok
      · rename_i hst
        simp only [hst, Bool.false_eq_true, if_false]
        by_cases heq' : (IdSet.equal objs (s.cl.inv.getD []) && !t2.run.opts.statusAll) = true
        · simp only [heq', if_true]
          have heq : IdSet.equal objs (s.cl.inv.getD []) = true := by
            cases h1 : IdSet.equal objs (s.cl.inv.getD []) <;> simp [h1] at heq' ⊢
          exact ⟨by rw [hcl2, hcl1], Or.inl ⟨by rw [hcl2, hcl1], heq, by rw [hm2, hm1]⟩⟩
        · simp only [heq', if_false, Bool.false_eq_true] at hok ⊢
          have hres : (t2.mutReq "update" invObjId false "" "" (invUpdateEffect (dedup objs))).2 = "ok" := by
            unfold errOfRes at hok
            by_cases e : (t2.mutReq "update" invObjId false "" "" (invUpdateEffect (dedup objs))).2 = "ok"
            · exact e
            · simp [e] at hok
          obtain ⟨h1, h2⟩ := update_inv_ok t2 _ hres
          refine ⟨by rw [h2, hcl2, hcl1], Or.inr ⟨h1, ?_⟩⟩
          -- the update found the inventory object
          intro hnone
          have hs := mutReq_spec t2 "update" invObjId false "" "" (invUpdateEffect (dedup objs))
          simp only [] at hs
          rw [hs.2.2.1] at hres
          split at hres
          · exact absurd hres (by decide)
          · have : t2.cl.inv = none := by rw [hcl2, hcl1]; exact hnone
            simp [invUpdateEffect, this] at hres

end CliUtils.TimeoutL
