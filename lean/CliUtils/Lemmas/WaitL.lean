import CliUtils.Model.Wait
namespace CliUtils.Wait
open CliUtils

variable {α : Type} [DecidableEq α]

/-- the fields of a record that the wait task never writes -/
def static (r : Rec α) : α × Strategy × Actuation × String × Int := (r.id, r.strategy, r.actuation, r.uid, r.gen)

theorem find_setReconcile_getD (m : Mgr α) (id x : α) (rc : Reconcile) :
    ((m.setReconcile id rc).getD m).find? x =
      (m.find? x).map (fun r => if x = id then { r with reconcile := rc } else r) := by
  induction m with
  | nil => simp [Mgr.setReconcile, Mgr.find?]
  | cons y ys ih =>
    simp only [Mgr.setReconcile]
    by_cases hy : y.id = id
    · simp only [hy, if_true, Option.getD_some, Mgr.find?, List.find?_cons]
      by_cases hx : id = x
      · subst hx; simp [hy]
      · have hx' : ¬ x = id := fun e => hx e.symm
        simp [hy, hx, hx']
    · simp only [hy, if_false]
      cases hs : Mgr.setReconcile ys id rc with
      | none =>
        simp only [Option.getD_none]
        rw [hs] at ih; simp only [Option.getD_none] at ih
        simp only [Mgr.find?, List.find?_cons]
        by_cases hyx : y.id = x
        · have : ¬ x = id := fun e => hy (hyx.trans e)
          simp [hyx, this]
        · simp only [hyx, decide_false]; exact ih
      | some ys' =>
        simp only [Option.getD_some]
        rw [hs] at ih; simp only [Option.getD_some] at ih
        simp only [Mgr.find?, List.find?_cons]
        by_cases hyx : y.id = x
        · have : ¬ x = id := fun e => hy (hyx.trans e)
          simp [hyx, this]
        · simp only [hyx, decide_false]; exact ih

/-- everything the decision functions read from the table is unchanged by recording a reconcile outcome -/
theorem decisions_setReconcile (m : Mgr α) (id : α) (rc : Reconcile) (c : Cond) (o : Obs) (x : α) :
    let m' := (m.setReconcile id rc).getD m
    skipped c m' x = skipped c m x ∧ changedUID m' o x = changedUID m o x ∧ reconciled c m' o x = reconciled c m o x := by
  intro m'
  have h := find_setReconcile_getD m id x rc
  refine ⟨?_, ?_, ?_⟩
  · simp only [skipped, Mgr.isActuation, m', h]
    cases m.find? x with
    | none => rfl
    | some r => simp only [Option.map_some]; split <;> rfl
  · simp only [changedUID, m', h]
    cases m.find? x with
    | none => rfl
    | some r => simp only [Option.map_some]; split <;> rfl
  · have hg : (Mgr.appliedGen m' x) = (Mgr.appliedGen m x) := by
      simp only [Mgr.appliedGen, m', h]
      cases hf : m.find? x with
      | none => rfl
      | some r => simp only [Option.map_some]; split <;> rfl
    simp only [reconciled, hg]

end CliUtils.Wait

namespace CliUtils.Wait
open CliUtils
variable {α : Type} [DecidableEq α]

@[simp] theorem emit_events (s : WState α) (id : α) (e : WEv) : (emit s id e).events = s.events ++ [(id, e)] := rfl
@[simp] theorem emit_pending (s : WState α) (id : α) (e : WEv) : (emit s id e).pending = s.pending := rfl
@[simp] theorem emit_failed (s : WState α) (id : α) (e : WEv) : (emit s id e).failed = s.failed := rfl
@[simp] theorem emit_ids (s : WState α) (id : α) (e : WEv) : (emit s id e).ids = s.ids := rfl
@[simp] theorem emit_cond (s : WState α) (id : α) (e : WEv) : (emit s id e).cond = s.cond := rfl
@[simp] theorem emit_cache (s : WState α) (id : α) (e : WEv) : (emit s id e).cache = s.cache := rfl
@[simp] theorem emit_cancelled (s : WState α) (id : α) (e : WEv) : (emit s id e).cancelled = s.cancelled := rfl
@[simp] theorem emit_mgr (s : WState α) (id : α) (e : WEv) :
    (emit s id e).mgr = (s.mgr.setReconcile id (rcOfEv e)).getD s.mgr := rfl

theorem handleChangedUID_eq (s : WState α) (id : α) :
    handleChangedUID s id = emit s id (match s.cond with | .allNotFound => .successful | .allCurrent => .failed) := by
  unfold handleChangedUID; cases s.cond <;> rfl

@[simp] theorem endIf_events (s : WState α) : (endIfNonePending s).events = s.events := by
  unfold endIfNonePending; split <;> rfl
@[simp] theorem endIf_pending (s : WState α) : (endIfNonePending s).pending = s.pending := by
  unfold endIfNonePending; split <;> rfl
@[simp] theorem endIf_failed (s : WState α) : (endIfNonePending s).failed = s.failed := by
  unfold endIfNonePending; split <;> rfl
@[simp] theorem endIf_mgr (s : WState α) : (endIfNonePending s).mgr = s.mgr := by
  unfold endIfNonePending; split <;> rfl
@[simp] theorem endIf_ids (s : WState α) : (endIfNonePending s).ids = s.ids := by
  unfold endIfNonePending; split <;> rfl
@[simp] theorem endIf_cond (s : WState α) : (endIfNonePending s).cond = s.cond := by
  unfold endIfNonePending; split <;> rfl
@[simp] theorem endIf_cache (s : WState α) : (endIfNonePending s).cache = s.cache := by
  unfold endIfNonePending; split <;> rfl
theorem endIf_cancelled (s : WState α) :
    (endIfNonePending s).cancelled = (s.cancelled || s.pending.isEmpty) := by
  unfold endIfNonePending; split
  · rename_i h; simp [h]
  · rename_i h; simp [h]

@[simp] theorem getObs_cons_self (cache : List (α × Obs)) (id : α) (o : Obs) : getObs ((id, o) :: cache) id = o := by
  simp [getObs, List.lookup]

/-- what one status update may do: at most one event, for this id, never Skipped/Timeout -/
inductive Outcome | nothing | ev (e : WEv)

/-- the event decision of `statusUpdateInner`, as a pure function of what it reads -/
def decide? (s : WState α) (id : α) (o : Obs) : Option WEv :=
  if id ∈ s.pending then
    if changedUID s.mgr o id then some (match s.cond with | .allNotFound => .successful | .allCurrent => .failed)
    else if reconciled s.cond s.mgr o id then some .successful
    else if o.status = .failed then some .failed
    else none
  else if id ∉ s.ids then none
  else if skipped s.cond s.mgr id then none
  else if id ∈ s.failed then
    if changedUID s.mgr o id then some (match s.cond with | .allNotFound => .successful | .allCurrent => .failed)
    else if reconciled s.cond s.mgr o id then some .successful
    else if o.status ≠ .failed then some .pending
    else none
  else if !(reconciled s.cond s.mgr o id) then some .pending
  else none

/-- `statusUpdateInner` changes table and event list exactly by emitting the decided event (if any) -/
theorem inner_mgr_events (s : WState α) (id : α) (h : getObs s.cache id = o) :
    (statusUpdateInner s id).events = s.events ++ (match decide? s id o with | some e => [(id, e)] | none => []) ∧
    (statusUpdateInner s id).mgr = (match decide? s id o with
      | some e => (s.mgr.setReconcile id (rcOfEv e)).getD s.mgr | none => s.mgr) ∧
    (statusUpdateInner s id).ids = s.ids ∧ (statusUpdateInner s id).cond = s.cond ∧
    (statusUpdateInner s id).cache = s.cache ∧ (statusUpdateInner s id).cancelled = s.cancelled := by
  unfold statusUpdateInner decide?
  simp only [h, handleChangedUID_eq]
  split
  · split
    · cases hc : s.cond <;> simp [hc]
    · split
      · simp
      · split <;> simp
  · split
    · simp
    · split
      · simp
      · split
        · split
          · cases hc : s.cond <;> simp [hc]
          · split
            · simp
            · split <;> simp
        · split <;> simp

end CliUtils.Wait
