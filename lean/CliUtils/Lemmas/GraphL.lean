import CliUtils.Spec.Graph
import CliUtils.Model.IdSet
import CliUtils.Lemmas.ListL
/-
  Helper lemmas for C14 (graph layering).
-/
namespace CliUtils.Graph
variable {α : Type} [DecidableEq α]

/-! ### adjacency lists -/

omit [DecidableEq α] in
theorem mem_verts {g : Adj α} {v : α} : v ∈ verts g ↔ ∃ ds, (v, ds) ∈ g := by
  unfold verts
  rw [List.mem_map]
  constructor
  · rintro ⟨⟨a, ds⟩, h, rfl⟩; exact ⟨ds, h⟩
  · rintro ⟨ds, h⟩; exact ⟨(v, ds), h, rfl⟩

omit [DecidableEq α] in
theorem Edge.src_mem {g : Adj α} {v d : α} (h : Edge g v d) : v ∈ verts g := by
  obtain ⟨ds, h1, _⟩ := h
  exact mem_verts.mpr ⟨ds, h1⟩

omit [DecidableEq α] in
theorem adj_unique {g : Adj α} (h : KeysNodup g) {v : α} {ds ds' : List α}
    (h1 : (v, ds) ∈ g) (h2 : (v, ds') ∈ g) : ds = ds' := by
  unfold KeysNodup verts at h
  induction g with
  | nil => cases h1
  | cons p g ih =>
    rw [List.map_cons, List.nodup_cons] at h
    rcases List.mem_cons.mp h1 with e1 | m1 <;> rcases List.mem_cons.mp h2 with e2 | m2
    · rw [← e1] at e2; injection e2 with _ e; exact e.symm
    · exfalso; apply h.1; rw [← e1]; exact List.mem_map.mpr ⟨(v, ds'), m2, rfl⟩
    · exfalso; apply h.1; rw [← e2]; exact List.mem_map.mpr ⟨(v, ds), m1, rfl⟩
    · exact ih h.2 m1 m2

omit [DecidableEq α] in
theorem mem_leaves {g : Adj α} {v : α} : v ∈ leaves g ↔ (v, []) ∈ g := by
  unfold leaves
  rw [List.mem_map]
  constructor
  · rintro ⟨⟨a, ds⟩, h, rfl⟩
    rw [List.mem_filter] at h
    have : ds = [] := List.isEmpty_iff.mp h.2
    subst this; exact h.1
  · intro h
    exact ⟨(v, []), List.mem_filter.mpr ⟨h, rfl⟩, rfl⟩

theorem mem_removeVs {g : Adj α} {ls : List α} {v : α} {ds : List α} :
    (v, ds) ∈ removeVs g ls ↔
      ∃ ds0, (v, ds0) ∈ g ∧ v ∉ ls ∧ ds = ds0.filter (fun d => decide (d ∉ ls)) := by
  unfold removeVs
  rw [List.mem_map]
  constructor
  · rintro ⟨⟨a, ds0⟩, h, e⟩
    rw [List.mem_filter] at h
    injection e with e1 e2
    subst e1
    exact ⟨ds0, h.1, by simpa using h.2, e2.symm⟩
  · rintro ⟨ds0, h1, h2, h3⟩
    refine ⟨(v, ds0), List.mem_filter.mpr ⟨h1, by simpa using h2⟩, ?_⟩
    rw [h3]

theorem verts_removeVs (g : Adj α) (ls : List α) :
    verts (removeVs g ls) = (verts g).filter (fun v => decide (v ∉ ls)) := by
  unfold verts removeVs
  rw [List.map_map, List.filter_map]
  rfl

theorem mem_verts_removeVs {g : Adj α} {ls : List α} {v : α} :
    v ∈ verts (removeVs g ls) ↔ v ∈ verts g ∧ v ∉ ls := by
  rw [verts_removeVs, List.mem_filter]; simp

theorem edge_removeVs {g : Adj α} {ls : List α} {v d : α} :
    Edge (removeVs g ls) v d ↔ Edge g v d ∧ v ∉ ls ∧ d ∉ ls := by
  constructor
  · rintro ⟨ds, h1, h2⟩
    obtain ⟨ds0, m, hv, e⟩ := mem_removeVs.mp h1
    rw [e, List.mem_filter] at h2
    exact ⟨⟨ds0, m, h2.1⟩, hv, by simpa using h2.2⟩
  · rintro ⟨⟨ds0, m, hd⟩, hv, hd'⟩
    refine ⟨ds0.filter (fun d => decide (d ∉ ls)), mem_removeVs.mpr ⟨ds0, m, hv, rfl⟩, ?_⟩
    rw [List.mem_filter]; exact ⟨hd, by simpa using hd'⟩

theorem keysNodup_removeVs {g : Adj α} (h : KeysNodup g) (ls : List α) : KeysNodup (removeVs g ls) := by
  unfold KeysNodup at *
  rw [verts_removeVs]
  exact List.Pairwise.filter _ h

theorem closed_removeVs {g : Adj α} (h : Closed g) (ls : List α) : Closed (removeVs g ls) := by
  intro v d he
  obtain ⟨h1, _, h3⟩ := edge_removeVs.mp he
  exact mem_verts_removeVs.mpr ⟨h v d h1, h3⟩

omit [DecidableEq α] in
theorem leaves_nodup {g : Adj α} (h : KeysNodup g) : (leaves g).Nodup := by
  unfold KeysNodup verts at h
  unfold leaves
  exact List.Nodup.sublist (List.Sublist.map _ List.filter_sublist) h

/-- a leaf is a key whose adjacency list is empty: under unique keys the two filters of `Sort`'s round
(leaf test on the value, deletion test on the key) split the map. -/
theorem leaves_append_perm {g : Adj α} (h : KeysNodup g) :
    (leaves g ++ verts (removeVs g (leaves g))).Perm (verts g) := by
  have hf : g.filter (fun p => decide (p.1 ∉ leaves g)) = g.filter (fun p => !p.2.isEmpty) := by
    apply List.filter_congr
    intro p hp
    have hp' : (p.1, p.2) ∈ g := hp
    by_cases he : p.2 = []
    · have : p.1 ∈ leaves g := mem_leaves.mpr (by rw [← he]; exact hp')
      simp [this, he]
    · have : p.1 ∉ leaves g := by
        intro hl
        exact he (adj_unique h hp' (mem_leaves.mp hl))
      simp [this, he]
  have hv : verts (removeVs g (leaves g)) = (g.filter (fun p => !p.2.isEmpty)).map Prod.fst := by
    unfold verts removeVs
    rw [List.map_map, hf]
    rfl
  rw [hv]
  unfold leaves verts
  rw [← List.map_append]
  exact List.Perm.map _ (List.filter_append_perm _ _)

theorem removeVs_length_lt (g : Adj α) (h : leaves g ≠ []) :
    (removeVs g (leaves g)).length < g.length := by
  unfold removeVs
  rw [List.length_map]
  obtain ⟨v, hv⟩ := List.exists_mem_of_ne_nil _ h
  apply List.length_filter_lt_length_iff_exists.mpr
  exact ⟨(v, []), mem_leaves.mp hv, by simpa using hv⟩

/-! ### layer membership -/

omit [DecidableEq α] in
@[simp] theorem inLayer_nil (i : Nat) (v : α) : InLayer ([] : List (List α)) i v ↔ False := by
  simp [InLayer]

omit [DecidableEq α] in
@[simp] theorem inLayer_cons_zero (l : List α) (L : List (List α)) (v : α) : InLayer (l :: L) 0 v ↔ v ∈ l := by
  simp [InLayer]

omit [DecidableEq α] in
@[simp] theorem inLayer_cons_succ (l : List α) (L : List (List α)) (i : Nat) (v : α) :
    InLayer (l :: L) (i + 1) v ↔ InLayer L i v := by
  simp [InLayer]

omit [DecidableEq α] in
theorem mem_flatten_iff_inLayer {L : List (List α)} {v : α} : v ∈ L.flatten ↔ ∃ i, InLayer L i v := by
  induction L with
  | nil => simp
  | cons l L ih =>
    rw [List.flatten_cons, List.mem_append, ih]
    constructor
    · rintro (h | ⟨i, h⟩)
      · exact ⟨0, by simpa using h⟩
      · exact ⟨i + 1, by simpa using h⟩
    · rintro ⟨i, h⟩
      cases i with
      | zero => left; simpa using h
      | succ i => right; exact ⟨i, by simpa using h⟩

omit [DecidableEq α] in
theorem InLayer.lt_length {L : List (List α)} {i : Nat} {v : α} (h : InLayer L i v) : i < L.length := by
  obtain ⟨l, h1, _⟩ := h
  exact (List.getElem?_eq_some_iff.mp h1).1

/-! ### the loop of `Sort` -/

theorem sortAux_zero (g : Adj α) : sortAux 0 g = ([], g) := rfl

theorem sortAux_stop (n : Nat) (g : Adj α) (h : leaves g = []) : sortAux (n + 1) g = ([], g) := by
  simp [sortAux, h]

theorem sortAux_step (n : Nat) (g : Adj α) (h : leaves g ≠ []) :
    sortAux (n + 1) g =
      (leaves g :: (sortAux n (removeVs g (leaves g))).1, (sortAux n (removeVs g (leaves g))).2) := by
  simp [sortAux, h]

/-- partition, loop form -/
theorem sortAux_perm (n : Nat) (g : Adj α) (h : KeysNodup g) :
    ((sortAux n g).1.flatten ++ verts (sortAux n g).2).Perm (verts g) := by
  induction n generalizing g with
  | zero => simp [sortAux_zero]
  | succ n ih =>
    by_cases hl : leaves g = []
    · simp [sortAux_stop n g hl]
    · rw [sortAux_step n g hl]
      simp only [List.flatten_cons, List.append_assoc]
      exact (List.Perm.append_left _ (ih _ (keysNodup_removeVs h _))).trans (leaves_append_perm h)

theorem inLayer_mem_verts {n : Nat} {g : Adj α} (h : KeysNodup g) {i : Nat} {v : α}
    (hv : InLayer (sortAux n g).1 i v) : v ∈ verts g := by
  apply (sortAux_perm n g h).mem_iff.mp
  exact List.mem_append_left _ (mem_flatten_iff_inLayer.mpr ⟨i, hv⟩)

theorem layers_ne_nil (n : Nat) (g : Adj α) : ∀ l ∈ (sortAux n g).1, l ≠ [] := by
  induction n generalizing g with
  | zero => simp [sortAux_zero]
  | succ n ih =>
    by_cases hl : leaves g = []
    · simp [sortAux_stop n g hl]
    · rw [sortAux_step n g hl]
      intro l hm
      rcases List.mem_cons.mp hm with e | m
      · rw [e]; exact hl
      · exact ih _ l m

theorem layers_nodup (n : Nat) (g : Adj α) (h : KeysNodup g) : ∀ l ∈ (sortAux n g).1, l.Nodup := by
  induction n generalizing g with
  | zero => simp [sortAux_zero]
  | succ n ih =>
    by_cases hl : leaves g = []
    · simp [sortAux_stop n g hl]
    · rw [sortAux_step n g hl]
      intro l hm
      rcases List.mem_cons.mp hm with e | m
      · rw [e]; exact leaves_nodup h
      · exact ih _ (keysNodup_removeVs h _) l m

/-- the first layer is the set of leaves -/
theorem inLayer_zero_leaf {n : Nat} {g : Adj α} {v : α} (h : InLayer (sortAux n g).1 0 v) : v ∈ leaves g := by
  cases n with
  | zero => simp [sortAux_zero] at h
  | succ n =>
    by_cases hl : leaves g = []
    · simp [sortAux_stop n g hl] at h
    · rw [sortAux_step n g hl] at h
      simpa using h

/-- strictness, loop form (needs no closedness: a dangling dependency is never removed) -/
theorem sortAux_strict (n : Nat) (g : Adj α) (h : KeysNodup g) {i : Nat} {v d : α}
    (hv : InLayer (sortAux n g).1 i v) (he : Edge g v d) : ∃ j, j < i ∧ InLayer (sortAux n g).1 j d := by
  induction n generalizing g i with
  | zero => simp [sortAux_zero] at hv
  | succ n ih =>
    by_cases hl : leaves g = []
    · simp [sortAux_stop n g hl] at hv
    · rw [sortAux_step n g hl] at hv ⊢
      cases i with
      | zero =>
        exfalso
        have hv' : (v, []) ∈ g := mem_leaves.mp (by simpa using hv)
        obtain ⟨ds, h1, h2⟩ := he
        have := adj_unique h h1 hv'
        subst this; cases h2
      | succ i =>
        have hv' : InLayer (sortAux n (removeVs g (leaves g))).1 i v := by simpa using hv
        by_cases hd : d ∈ leaves g
        · exact ⟨0, Nat.succ_pos _, by simpa using hd⟩
        · have hvn : v ∉ leaves g :=
            (mem_verts_removeVs.mp (inLayer_mem_verts (keysNodup_removeVs h _) hv')).2
          obtain ⟨j, hj, hjd⟩ := ih _ (keysNodup_removeVs h _) hv' (edge_removeVs.mpr ⟨he, hvn, hd⟩)
          exact ⟨j + 1, Nat.succ_lt_succ hj, by simpa using hjd⟩

/-- minimality, loop form -/
theorem sortAux_minimal (n : Nat) (g : Adj α) (h : KeysNodup g) {k : Nat} {v : α}
    (hv : InLayer (sortAux n g).1 (k + 1) v) : ∃ d, InLayer (sortAux n g).1 k d ∧ Edge g v d := by
  induction n generalizing g k with
  | zero => simp [sortAux_zero] at hv
  | succ n ih =>
    by_cases hl : leaves g = []
    · simp [sortAux_stop n g hl] at hv
    · rw [sortAux_step n g hl] at hv ⊢
      have hv' : InLayer (sortAux n (removeVs g (leaves g))).1 k v := by simpa using hv
      cases k with
      | zero =>
        have hleaf := mem_leaves.mp (inLayer_zero_leaf hv')
        obtain ⟨ds0, m, hvn, e⟩ := mem_removeVs.mp hleaf
        have hne : ds0 ≠ [] := by
          intro e0; subst e0; exact hvn (mem_leaves.mpr m)
        obtain ⟨d, hd⟩ := List.exists_mem_of_ne_nil _ hne
        have hdl : d ∈ leaves g := by
          have := List.filter_eq_nil_iff.mp e.symm d hd
          simpa using this
        exact ⟨d, by simpa using hdl, ⟨ds0, m, hd⟩⟩
      | succ k =>
        obtain ⟨d, hd, he⟩ := ih _ (keysNodup_removeVs h _) hv'
        exact ⟨d, by simpa using hd, (edge_removeVs.mp he).1⟩

/-! ### what remains when the loop stops -/

theorem rest_edge_sub (n : Nat) (g : Adj α) {v d : α} (he : Edge (sortAux n g).2 v d) : Edge g v d := by
  induction n generalizing g with
  | zero => simpa [sortAux_zero] using he
  | succ n ih =>
    by_cases hl : leaves g = []
    · simpa [sortAux_stop n g hl] using he
    · rw [sortAux_step n g hl] at he
      exact (edge_removeVs.mp (ih _ he)).1

theorem rest_keysNodup (n : Nat) (g : Adj α) (h : KeysNodup g) : KeysNodup (sortAux n g).2 := by
  induction n generalizing g with
  | zero => simpa [sortAux_zero] using h
  | succ n ih =>
    by_cases hl : leaves g = []
    · simpa [sortAux_stop n g hl] using h
    · rw [sortAux_step n g hl]
      exact ih _ (keysNodup_removeVs h _)

theorem rest_closed (n : Nat) (g : Adj α) (h : Closed g) : Closed (sortAux n g).2 := by
  induction n generalizing g with
  | zero => simpa [sortAux_zero] using h
  | succ n ih =>
    by_cases hl : leaves g = []
    · simpa [sortAux_stop n g hl] using h
    · rw [sortAux_step n g hl]
      exact ih _ (closed_removeVs h _)

/-- the fuel is sufficient: the loop stopped because no leaf is left -/
theorem rest_no_leaves (n : Nat) (g : Adj α) (hn : g.length ≤ n) : leaves (sortAux n g).2 = [] := by
  induction n generalizing g with
  | zero =>
    have : g = [] := List.length_eq_zero_iff.mp (Nat.le_zero.mp hn)
    subst this; rfl
  | succ n ih =>
    by_cases hl : leaves g = []
    · simpa [sortAux_stop n g hl] using hl
    · rw [sortAux_step n g hl]
      apply ih
      have := removeVs_length_lt g hl
      omega

/-- every remaining vertex has a remaining dependency -/
theorem rest_has_dep (n : Nat) (g : Adj α) (hc : Closed g) (hn : g.length ≤ n) {v : α}
    (hv : v ∈ verts (sortAux n g).2) : ∃ d, d ∈ verts (sortAux n g).2 ∧ Edge g v d := by
  obtain ⟨ds, m⟩ := mem_verts.mp hv
  have hne : ds ≠ [] := by
    intro e; subst e
    have : v ∈ leaves (sortAux n g).2 := mem_leaves.mpr m
    rw [rest_no_leaves n g hn] at this
    cases this
  obtain ⟨d, hd⟩ := List.exists_mem_of_ne_nil _ hne
  have he : Edge (sortAux n g).2 v d := ⟨ds, m, hd⟩
  exact ⟨d, rest_closed n g hc v d he, rest_edge_sub n g he⟩

/-! ### walks and chains -/

omit [DecidableEq α] in
theorem Walk.append {g : Adj α} {a b c : α} {l1 l2 : List α} (w1 : Walk g a b l1) (w2 : Walk g b c l2) :
    Walk g a c (l1 ++ l2) := by
  induction w1 with
  | nil a => simpa using w2
  | cons he _ ih => exact Walk.cons he (ih w2)

omit [DecidableEq α] in
/-- cut a walk at a vertex it leaves behind -/
theorem Walk.split {g : Adj α} {a c x : α} {s t : List α} (w : Walk g a c (s ++ x :: t)) :
    Walk g a x s ∧ Walk g x c (x :: t) := by
  induction s generalizing a with
  | nil =>
    cases w with
    | cons he w' => exact ⟨Walk.nil _, Walk.cons he w'⟩
  | cons y s ih =>
    cases w with
    | cons he w' =>
      obtain ⟨w1, w2⟩ := ih w'
      exact ⟨Walk.cons he w1, w2⟩

omit [DecidableEq α] in
/-- every vertex a walk leaves behind is the source of an edge, hence a vertex of the graph -/
theorem Walk.mem_verts {g : Adj α} {a c : α} {l : List α} (w : Walk g a c l) : ∀ x ∈ l, x ∈ verts g := by
  induction w with
  | nil a => intro x hx; cases hx
  | cons he _ ih =>
    intro x hx
    rcases List.mem_cons.mp hx with e | m
    · rw [e]; exact he.src_mem
    · exact ih x m

omit [DecidableEq α] in
theorem Walk.mono {g g' : Adj α} (h : ∀ v d, Edge g v d → Edge g' v d) {a c : α} {l : List α}
    (w : Walk g a c l) : Walk g' a c l := by
  induction w with
  | nil a => exact Walk.nil a
  | cons he _ ih => exact Walk.cons (h _ _ he) ih

omit [DecidableEq α] in
theorem hasChain_zero (g : Adj α) (v : α) : HasChain g v 0 := ⟨v, [], Walk.nil v, rfl⟩

omit [DecidableEq α] in
theorem hasChain_succ {g : Adj α} {v : α} {n : Nat} :
    HasChain g v (n + 1) ↔ ∃ d, Edge g v d ∧ HasChain g d n := by
  constructor
  · rintro ⟨c, l, w, hl⟩
    cases w with
    | nil => simp at hl
    | cons he w' => exact ⟨_, he, c, _, w', by simpa using hl⟩
  · rintro ⟨d, he, c, l, w, hl⟩
    exact ⟨c, v :: l, Walk.cons he w, by simp [hl]⟩

omit [DecidableEq α] in
theorem hasChain_pred {g : Adj α} {n : Nat} : ∀ {v : α}, HasChain g v (n + 1) → HasChain g v n := by
  induction n with
  | zero => intro v _; exact hasChain_zero g v
  | succ n ih =>
    intro v h
    obtain ⟨d, he, hd⟩ := hasChain_succ.mp h
    exact hasChain_succ.mpr ⟨d, he, ih hd⟩

omit [DecidableEq α] in
theorem hasChain_le {g : Adj α} {v : α} {m n : Nat} (hmn : m ≤ n) (h : HasChain g v n) : HasChain g v m := by
  induction hmn with
  | refl => exact h
  | step _ ih => exact ih (hasChain_pred h)

omit [DecidableEq α] in
theorem HasChain.mono {g g' : Adj α} (h : ∀ v d, Edge g v d → Edge g' v d) {v : α} {n : Nat}
    (hc : HasChain g v n) : HasChain g' v n := by
  obtain ⟨c, l, w, hl⟩ := hc
  exact ⟨c, l, w.mono h, hl⟩

/-! ### pigeonhole -/

theorem nodup_length_le_of_subset {l m : List α} (hn : l.Nodup) (hs : ∀ x ∈ l, x ∈ m) : l.length ≤ m.length := by
  induction l generalizing m with
  | nil => simp
  | cons x l ih =>
    rw [List.nodup_cons] at hn
    have hx : x ∈ m := hs x List.mem_cons_self
    have hsub : ∀ y ∈ l, y ∈ m.erase x := by
      intro y hy
      have hne : y ≠ x := by intro e; subst e; exact hn.1 hy
      exact (List.mem_erase_of_ne hne).mpr (hs y (List.mem_cons_of_mem _ hy))
    have h1 := ih hn.2 hsub
    have h2 := List.length_erase_of_mem hx
    have h3 : 0 < m.length := List.length_pos_of_mem hx
    simp only [List.length_cons]
    omega

theorem exists_dup_of_not_nodup {l : List α} (h : ¬ l.Nodup) :
    ∃ x s t u, l = s ++ x :: (t ++ x :: u) := by
  induction l with
  | nil => exact absurd List.nodup_nil h
  | cons y l ih =>
    rw [List.nodup_cons] at h
    by_cases hy : y ∈ l
    · obtain ⟨t, u, e⟩ := List.append_of_mem hy
      exact ⟨y, [], t, u, by simp [e]⟩
    · have hn : ¬ l.Nodup := fun hn => h ⟨hy, hn⟩
      obtain ⟨x, s, t, u, e⟩ := ih hn
      exact ⟨x, y :: s, t, u, by simp [e]⟩

/-- a walk longer than the number of vertices passes a vertex twice: it reaches a cycle -/
theorem walk_reaches_cycle {g : Adj α} {a c : α} {l : List α} (w : Walk g a c l)
    (hlen : (verts g).length < l.length) : ∃ x, Reach g a x ∧ OnCycle g x := by
  have hnd : ¬ l.Nodup := by
    intro hn
    have := nodup_length_le_of_subset hn w.mem_verts
    omega
  obtain ⟨x, s, t, u, e⟩ := exists_dup_of_not_nodup hnd
  subst e
  obtain ⟨w1, w2⟩ := w.split
  have w2' : Walk g x c ((x :: t) ++ x :: u) := by simpa using w2
  obtain ⟨w3, _⟩ := w2'.split
  exact ⟨x, ⟨s, w1⟩, ⟨x :: t, by simp, w3⟩⟩

omit [DecidableEq α] in
/-- going round a cycle often enough gives chains of any length -/
theorem onCycle_hasChain {g : Adj α} {x : α} (h : OnCycle g x) (k : Nat) : HasChain g x k := by
  obtain ⟨l, hne, w⟩ := h
  have hpos : 0 < l.length := List.length_pos_iff.mpr hne
  have : ∀ k : Nat, ∃ l', Walk g x x l' ∧ k ≤ l'.length := by
    intro k
    induction k with
    | zero => exact ⟨[], Walk.nil x, Nat.le_refl _⟩
    | succ k ih =>
      obtain ⟨l', w', hk⟩ := ih
      exact ⟨l ++ l', w.append w', by simp only [List.length_append]; omega⟩
  obtain ⟨l', w', hk⟩ := this k
  exact hasChain_le hk ⟨x, l', w', rfl⟩

omit [DecidableEq α] in
theorem reach_cycle_hasChain {g : Adj α} {a x : α} (hr : Reach g a x) (hc : OnCycle g x) (k : Nat) :
    HasChain g a k := by
  obtain ⟨l, w⟩ := hr
  obtain ⟨c, l', w', hl'⟩ := onCycle_hasChain hc k
  exact hasChain_le (by simp only [List.length_append]; omega) ⟨c, l ++ l', w.append w', rfl⟩

/-- **pigeonhole characterisation**: dependency chains of every length start at `a` iff `a` reaches a cycle -/
theorem hasChain_all_iff_reaches_cycle {g : Adj α} {a : α} :
    (∀ k, HasChain g a k) ↔ ∃ x, Reach g a x ∧ OnCycle g x := by
  constructor
  · intro h
    obtain ⟨c, l, w, hl⟩ := h ((verts g).length + 1)
    exact walk_reaches_cycle w (by omega)
  · rintro ⟨x, hr, hc⟩ k
    exact reach_cycle_hasChain hr hc k

/-! ### layer index = length of the longest chain; the remaining set -/

theorem inLayer_hasChain (n : Nat) (g : Adj α) (h : KeysNodup g) :
    ∀ {i : Nat} {v : α}, InLayer (sortAux n g).1 i v → HasChain g v i := by
  intro i
  induction i with
  | zero => intro v _; exact hasChain_zero g v
  | succ i ih =>
    intro v hv
    obtain ⟨d, hd, he⟩ := sortAux_minimal n g h hv
    exact hasChain_succ.mpr ⟨d, he, ih hd⟩

theorem inLayer_no_longer_chain (n : Nat) (g : Adj α) (h : KeysNodup g) :
    ∀ {i : Nat} {v : α}, InLayer (sortAux n g).1 i v → ¬ HasChain g v (i + 1) := by
  intro i
  induction i using Nat.strongRecOn with
  | _ i ih =>
    intro v hv hc
    obtain ⟨d, he, hd⟩ := hasChain_succ.mp hc
    obtain ⟨j, hj, hjd⟩ := sortAux_strict n g h hv he
    exact ih j hj hjd (hasChain_le (by omega) hd)

theorem rest_hasChain (n : Nat) (g : Adj α) (hc : Closed g) (hn : g.length ≤ n) (k : Nat) :
    ∀ {v : α}, v ∈ verts (sortAux n g).2 → HasChain g v k := by
  induction k with
  | zero => intro v _; exact hasChain_zero g v
  | succ k ih =>
    intro v hv
    obtain ⟨d, hd, he⟩ := rest_has_dep n g hc hn hv
    exact hasChain_succ.mpr ⟨d, he, ih hd⟩

theorem mem_rest_iff (n : Nat) (g : Adj α) (h : KeysNodup g) (hc : Closed g) (hn : g.length ≤ n) {v : α}
    (hv : v ∈ verts g) : v ∈ verts (sortAux n g).2 ↔ ∀ k, HasChain g v k := by
  constructor
  · intro hr k; exact rest_hasChain n g hc hn k hr
  · intro hall
    rcases List.mem_append.mp ((sortAux_perm n g h).mem_iff.mpr hv) with hl | hr
    · obtain ⟨i, hi⟩ := mem_flatten_iff_inLayer.mp hl
      exact absurd (hall (i + 1)) (inLayer_no_longer_chain n g h hi)
    · exact hr

/-! ### the layering is determined by the vertex set and the edge relation alone -/

theorem inLayer_transfer {n n' : Nat} {g g' : Adj α} (h : KeysNodup g) (h' : KeysNodup g') (hc' : Closed g')
    (hn' : g'.length ≤ n')
    (hv : ∀ v, v ∈ verts g → v ∈ verts g') (he : ∀ v d, Edge g v d ↔ Edge g' v d)
    {i : Nat} {v : α} (hi : InLayer (sortAux n g).1 i v) : InLayer (sortAux n' g').1 i v := by
  have hto : ∀ {w k}, HasChain g w k → HasChain g' w k := fun hc => hc.mono (fun a b e => (he a b).mp e)
  have hfrom : ∀ {w k}, HasChain g' w k → HasChain g w k := fun hc => hc.mono (fun a b e => (he a b).mpr e)
  have hv' : v ∈ verts g' := hv v (inLayer_mem_verts h hi)
  have hci := inLayer_hasChain n g h hi
  have hni := inLayer_no_longer_chain n g h hi
  rcases List.mem_append.mp ((sortAux_perm n' g' h').mem_iff.mpr hv') with hl | hr
  · obtain ⟨j, hj⟩ := mem_flatten_iff_inLayer.mp hl
    have hcj := inLayer_hasChain n' g' h' hj
    have hnj := inLayer_no_longer_chain n' g' h' hj
    have hij : i = j := by
      rcases Nat.lt_trichotomy i j with hlt | heq | hgt
      · exact absurd (hfrom (hasChain_le (by omega) hcj)) hni
      · exact heq
      · exact absurd (hto (hasChain_le (by omega) hci)) hnj
    subst hij; exact hj
  · exact absurd (hfrom (rest_hasChain n' g' hc' hn' (i + 1) hr)) hni

theorem layers_length_le {n n' : Nat} {g g' : Adj α}
    (ht : ∀ i v, InLayer (sortAux n g).1 i v → InLayer (sortAux n' g').1 i v) :
    (sortAux n g).1.length ≤ (sortAux n' g').1.length := by
  apply Nat.le_of_not_lt
  intro hlt
  have hsome : ∃ l, (sortAux n g).1[(sortAux n' g').1.length]? = some l :=
    ⟨_, List.getElem?_eq_getElem hlt⟩
  obtain ⟨l, hl⟩ := hsome
  have hne : l ≠ [] := layers_ne_nil n g l (List.mem_of_getElem? hl)
  obtain ⟨v, hv⟩ := List.exists_mem_of_ne_nil _ hne
  have := (ht _ v ⟨l, hl, hv⟩).lt_length
  omega

/-! ### sorting with a strict total order -/

omit [DecidableEq α] in
theorem insertBy_perm (lt : α → α → Bool) (x : α) (l : List α) : (insertBy lt x l).Perm (x :: l) := by
  induction l with
  | nil => simp [insertBy]
  | cons y ys ih =>
    simp only [insertBy]
    split
    · exact List.Perm.refl _
    · exact (List.Perm.cons y ih).trans (List.Perm.swap x y ys)

omit [DecidableEq α] in
theorem isort_perm (lt : α → α → Bool) (l : List α) : (isort lt l).Perm l := by
  induction l with
  | nil => simp [isort]
  | cons x xs ih =>
    simp only [isort]
    exact (insertBy_perm lt x _).trans (List.Perm.cons x ih)

omit [DecidableEq α] in
theorem StrictTotal.asymm {lt : α → α → Bool} (h : StrictTotal lt) {a b : α} (hab : lt a b = true) : lt b a = false := by
  cases hba : lt b a with
  | false => rfl
  | true =>
    have := h.trans a b a hab hba
    rw [h.irrefl a] at this
    cases this

omit [DecidableEq α] in
/-- "not less" is transitive for a strict total order -/
theorem StrictTotal.le_trans {lt : α → α → Bool} (h : StrictTotal lt) {a b c : α}
    (hab : lt b a = false) (hbc : lt c b = false) : lt c a = false := by
  cases hca : lt c a with
  | false => rfl
  | true =>
    cases hab' : lt a b with
    | false =>
      have : a = b := h.tri a b hab' hab
      subst this; rw [hca] at hbc; cases hbc
    | true =>
      have := h.trans c a b hca hab'
      rw [this] at hbc; cases hbc

omit [DecidableEq α] in
theorem insertBy_sorted {lt : α → α → Bool} (h : StrictTotal lt) (x : α) (l : List α) (hs : Sorted lt l) :
    Sorted lt (insertBy lt x l) := by
  unfold Sorted at *
  induction l with
  | nil => simp [insertBy]
  | cons y ys ih =>
    rw [List.pairwise_cons] at hs
    simp only [insertBy]
    split
    · rename_i hxy
      rw [List.pairwise_cons]
      refine ⟨?_, List.pairwise_cons.mpr hs⟩
      intro z hz
      rcases List.mem_cons.mp hz with e | m
      · rw [e]; exact h.asymm hxy
      · exact h.le_trans (h.asymm hxy) (hs.1 z m)
    · rename_i hxy
      have hxy' : lt x y = false := by simpa using hxy
      rw [List.pairwise_cons]
      refine ⟨?_, ih hs.2⟩
      intro z hz
      have hz' := (insertBy_perm lt x ys).mem_iff.mp hz
      rcases List.mem_cons.mp hz' with e | m
      · rw [e]; exact hxy'
      · exact hs.1 z m

omit [DecidableEq α] in
theorem isort_sorted {lt : α → α → Bool} (h : StrictTotal lt) (l : List α) : Sorted lt (isort lt l) := by
  induction l with
  | nil => simp [isort, Sorted]
  | cons x xs ih => exact insertBy_sorted h x _ ih

omit [DecidableEq α] in
/-- a sorted rearrangement is unique -/
theorem sorted_perm_unique {lt : α → α → Bool} (h : StrictTotal lt) {l₁ l₂ : List α}
    (h1 : Sorted lt l₁) (h2 : Sorted lt l₂) (hp : l₁.Perm l₂) : l₁ = l₂ :=
  List.Perm.eq_of_pairwise (le := fun a b => lt b a = false)
    (fun a b _ _ hab hba => h.tri a b hba hab) h1 h2 hp

omit [DecidableEq α] in
theorem isort_eq_of_perm {lt : α → α → Bool} (h : StrictTotal lt) {l l' : List α} (hp : l.Perm l') :
    isort lt l = isort lt l' :=
  sorted_perm_unique h (isort_sorted h l) (isort_sorted h l')
    ((isort_perm lt l).trans (hp.trans (isort_perm lt l').symm))

/-! ### graphs built with `AddVertex` / `AddEdge` -/

theorem mem_verts_addVertex {g : Adj α} {v x : α} : x ∈ verts (addVertex g v) ↔ x ∈ verts g ∨ x = v := by
  unfold addVertex
  split
  · rename_i h
    constructor
    · exact Or.inl
    · rintro (h1 | h1)
      · exact h1
      · rw [h1]; exact h
  · simp [verts]

theorem keysNodup_addVertex {g : Adj α} (h : KeysNodup g) (v : α) : KeysNodup (addVertex g v) := by
  unfold addVertex
  split
  · exact h
  · rename_i hv
    unfold KeysNodup verts at *
    rw [List.map_append, List.nodup_append]
    refine ⟨h, by simp, ?_⟩
    intro a ha b hb
    simp only [List.map_cons, List.map_nil, List.mem_singleton] at hb
    intro e; subst e; subst hb; exact hv ha

theorem edge_addVertex {g : Adj α} {v a b : α} : Edge (addVertex g v) a b ↔ Edge g a b := by
  unfold addVertex
  split
  · exact Iff.rfl
  · constructor
    · rintro ⟨ds, h1, h2⟩
      rcases List.mem_append.mp h1 with m | m
      · exact ⟨ds, m, h2⟩
      · simp only [List.mem_singleton, Prod.mk.injEq] at m
        rw [m.2] at h2; cases h2
    · rintro ⟨ds, h1, h2⟩
      exact ⟨ds, List.mem_append_left _ h1, h2⟩

theorem verts_addTo (g : Adj α) (f t : α) : verts (addTo g f t) = verts g := by
  unfold verts addTo
  rw [List.map_map]
  apply List.map_congr_left
  intro p _
  simp only [Function.comp]
  split <;> rfl

theorem edge_addTo {g : Adj α} {f t a b : α} :
    Edge (addTo g f t) a b ↔ Edge g a b ∨ (a = f ∧ b = t ∧ f ∈ verts g) := by
  constructor
  · rintro ⟨ds, h1, h2⟩
    unfold addTo at h1
    obtain ⟨⟨pa, pds⟩, hp, e⟩ := List.mem_map.mp h1
    by_cases hpf : pa = f
    · simp only [hpf, ↓reduceIte, Prod.mk.injEq] at e
      obtain ⟨e1, e2⟩ := e
      subst e1
      subst hpf
      by_cases ht : t ∈ pds
      · simp only [ht, ↓reduceIte] at e2
        subst e2
        exact Or.inl ⟨pds, hp, h2⟩
      · simp only [ht, ↓reduceIte] at e2
        subst e2
        rcases List.mem_append.mp h2 with m | m
        · exact Or.inl ⟨pds, hp, m⟩
        · simp only [List.mem_singleton] at m
          exact Or.inr ⟨rfl, m, mem_verts.mpr ⟨pds, hp⟩⟩
    · simp only [hpf, ↓reduceIte, Prod.mk.injEq] at e
      obtain ⟨e1, e2⟩ := e
      subst e1; subst e2
      exact Or.inl ⟨pds, hp, h2⟩
  · rintro (⟨ds, h1, h2⟩ | ⟨ha, hb, hf⟩)
    · by_cases haf : a = f
      · refine ⟨if t ∈ ds then ds else ds ++ [t], ?_, ?_⟩
        · unfold addTo
          exact List.mem_map.mpr ⟨(a, ds), h1, by simp [haf]⟩
        · split
          · exact h2
          · exact List.mem_append_left _ h2
      · refine ⟨ds, ?_, h2⟩
        unfold addTo
        exact List.mem_map.mpr ⟨(a, ds), h1, by simp [haf]⟩
    · subst ha; subst hb
      obtain ⟨ds, hd⟩ := mem_verts.mp hf
      refine ⟨if b ∈ ds then ds else ds ++ [b], ?_, ?_⟩
      · unfold addTo
        exact List.mem_map.mpr ⟨(a, ds), hd, by simp⟩
      · split
        · assumption
        · simp

theorem mem_verts_addEdge {g : Adj α} {f t x : α} : x ∈ verts (addEdge g f t) ↔ x ∈ verts g ∨ x = f ∨ x = t := by
  unfold addEdge
  rw [verts_addTo, mem_verts_addVertex, mem_verts_addVertex]
  constructor
  · rintro ((h | h) | h)
    · exact Or.inl h
    · exact Or.inr (Or.inl h)
    · exact Or.inr (Or.inr h)
  · rintro (h | h | h)
    · exact Or.inl (Or.inl h)
    · exact Or.inl (Or.inr h)
    · exact Or.inr h

theorem keysNodup_addEdge {g : Adj α} (h : KeysNodup g) (f t : α) : KeysNodup (addEdge g f t) := by
  unfold addEdge KeysNodup
  rw [verts_addTo]
  exact keysNodup_addVertex (keysNodup_addVertex h f) t

theorem edge_addEdge {g : Adj α} {f t a b : α} : Edge (addEdge g f t) a b ↔ Edge g a b ∨ (a = f ∧ b = t) := by
  unfold addEdge
  rw [edge_addTo, edge_addVertex, edge_addVertex]
  constructor
  · rintro (h | ⟨h1, h2, _⟩)
    · exact Or.inl h
    · exact Or.inr ⟨h1, h2⟩
  · rintro (h | ⟨h1, h2⟩)
    · exact Or.inl h
    · refine Or.inr ⟨h1, h2, ?_⟩
      rw [mem_verts_addVertex, mem_verts_addVertex]
      exact Or.inl (Or.inr rfl)

theorem closed_addEdge {g : Adj α} (h : Closed g) (f t : α) : Closed (addEdge g f t) := by
  intro a b he
  rw [mem_verts_addEdge]
  rcases edge_addEdge.mp he with h1 | ⟨_, h2⟩
  · exact Or.inl (h a b h1)
  · exact Or.inr (Or.inr h2)

theorem foldl_addVertex_spec (vs : List α) (g : Adj α) (h : KeysNodup g) :
    KeysNodup (vs.foldl addVertex g) ∧ (∀ x, x ∈ verts (vs.foldl addVertex g) ↔ x ∈ verts g ∨ x ∈ vs) ∧
    (∀ a b, Edge (vs.foldl addVertex g) a b ↔ Edge g a b) := by
  induction vs generalizing g with
  | nil => simp [h]
  | cons v vs ih =>
    obtain ⟨h1, h2, h3⟩ := ih (addVertex g v) (keysNodup_addVertex h v)
    refine ⟨h1, ?_, ?_⟩
    · intro x
      rw [List.foldl_cons, h2, mem_verts_addVertex, List.mem_cons]
      constructor
      · rintro ((h | h) | h)
        · exact Or.inl h
        · exact Or.inr (Or.inl h)
        · exact Or.inr (Or.inr h)
      · rintro (h | h | h)
        · exact Or.inl (Or.inl h)
        · exact Or.inl (Or.inr h)
        · exact Or.inr h
    · intro a b
      rw [List.foldl_cons, h3, edge_addVertex]

theorem foldl_addEdge_spec (es : List (α × α)) (g : Adj α) (h : KeysNodup g) (hc : Closed g) :
    KeysNodup (es.foldl (fun g e => addEdge g e.1 e.2) g) ∧ Closed (es.foldl (fun g e => addEdge g e.1 e.2) g) ∧
    (∀ x, x ∈ verts (es.foldl (fun g e => addEdge g e.1 e.2) g) ↔ x ∈ verts g ∨ ∃ e ∈ es, x = e.1 ∨ x = e.2) ∧
    (∀ a b, Edge (es.foldl (fun g e => addEdge g e.1 e.2) g) a b ↔ Edge g a b ∨ (a, b) ∈ es) := by
  induction es generalizing g with
  | nil => simp [h, hc]
  | cons e es ih =>
    obtain ⟨h1, h2, h3, h4⟩ := ih (addEdge g e.1 e.2) (keysNodup_addEdge h _ _) (closed_addEdge hc _ _)
    refine ⟨h1, h2, ?_, ?_⟩
    · intro x
      rw [List.foldl_cons, h3, mem_verts_addEdge]
      constructor
      · rintro ((h | h) | ⟨e', he', h⟩)
        · exact Or.inl h
        · exact Or.inr ⟨e, List.mem_cons_self, h⟩
        · exact Or.inr ⟨e', List.mem_cons_of_mem _ he', h⟩
      · rintro (h | ⟨e', he', h⟩)
        · exact Or.inl (Or.inl h)
        · rcases List.mem_cons.mp he' with e1 | m
          · subst e1; exact Or.inl (Or.inr h)
          · exact Or.inr ⟨e', m, h⟩
    · intro a b
      rw [List.foldl_cons, h4, edge_addEdge, List.mem_cons]
      constructor
      · rintro ((h | ⟨h1, h2⟩) | h)
        · exact Or.inl h
        · exact Or.inr (Or.inl (by rw [h1, h2]))
        · exact Or.inr (Or.inr h)
      · rintro (h | h | h)
        · exact Or.inl (Or.inl h)
        · exact Or.inl (Or.inr ⟨by rw [← h], by rw [← h]⟩)
        · exact Or.inr h

omit [DecidableEq α] in
theorem not_edge_nil (a b : α) : ¬ Edge ([] : Adj α) a b := by
  rintro ⟨ds, h, _⟩; cases h

/-- everything the theorems need about `build`: unique keys, closed, vertex set, edge relation -/
theorem build_spec (vs : List α) (es : List (α × α)) :
    KeysNodup (build vs es) ∧ Closed (build vs es) ∧
    (∀ x, x ∈ verts (build vs es) ↔ x ∈ vs ∨ ∃ e ∈ es, x = e.1 ∨ x = e.2) ∧
    (∀ a b, Edge (build vs es) a b ↔ (a, b) ∈ es) := by
  have h0 : KeysNodup ([] : Adj α) := by simp [KeysNodup, verts]
  obtain ⟨v1, v2, v3⟩ := foldl_addVertex_spec vs [] h0
  have hc : Closed (vs.foldl addVertex []) := by
    intro a b he
    exact absurd ((v3 a b).mp he) (not_edge_nil a b)
  obtain ⟨e1, e2, e3, e4⟩ := foldl_addEdge_spec es _ v1 hc
  refine ⟨e1, e2, ?_, ?_⟩
  · intro x
    unfold build
    rw [e3, v2]
    simp [verts]
  · intro a b
    unfold build
    rw [e4, v3]
    constructor
    · rintro (h | h)
      · exact absurd h (not_edge_nil a b)
      · exact h
    · exact Or.inr

/-! ### the remaining graph is the induced subgraph on the remaining vertices -/

theorem rest_edge_iff (n : Nat) (g : Adj α) (h : KeysNodup g) (hc : Closed g) {a b : α} :
    Edge (sortAux n g).2 a b ↔ Edge g a b ∧ a ∈ verts (sortAux n g).2 ∧ b ∈ verts (sortAux n g).2 := by
  constructor
  · intro he
    exact ⟨rest_edge_sub n g he, he.src_mem, rest_closed n g hc a b he⟩
  · induction n generalizing g with
    | zero => rintro ⟨he, _, _⟩; simpa [sortAux_zero] using he
    | succ n ih =>
      by_cases hl : leaves g = []
      · rintro ⟨he, _, _⟩; simpa [sortAux_stop n g hl] using he
      · rw [sortAux_step n g hl]
        rintro ⟨he, ha, hb⟩
        have hk := keysNodup_removeVs h (leaves g)
        have hmem : ∀ x, x ∈ verts (sortAux n (removeVs g (leaves g))).2 → x ∉ leaves g := by
          intro x hx
          have := (sortAux_perm n _ hk).mem_iff.mp (List.mem_append_right _ hx)
          exact (mem_verts_removeVs.mp this).2
        exact ih _ hk (closed_removeVs hc _) ⟨edge_removeVs.mpr ⟨he, hmem a ha, hmem b hb⟩, ha, hb⟩

omit [DecidableEq α] in
theorem mem_edgesOf {g : Adj α} {a b : α} : (a, b) ∈ edgesOf g ↔ Edge g a b := by
  unfold edgesOf Edge
  rw [List.mem_flatMap]
  constructor
  · rintro ⟨⟨pa, pds⟩, hp, hm⟩
    obtain ⟨d, hd, e⟩ := List.mem_map.mp hm
    simp only [Prod.mk.injEq] at e
    obtain ⟨e1, e2⟩ := e
    subst e1; subst e2
    exact ⟨pds, hp, hd⟩
  · rintro ⟨ds, h1, h2⟩
    exact ⟨(a, ds), h1, List.mem_map.mpr ⟨b, h2, rfl⟩⟩

/-! ### hydrate / reverse -/

omit [DecidableEq α] in
theorem hydrate_congr {lt : α → α → Bool} (h : StrictTotal lt) (p : α → Bool) {L L' : List (List α)}
    (hlen : L.length = L'.length)
    (hp : ∀ (i : Nat) (l l' : List α), L[i]? = some l → L'[i]? = some l' → l.Perm l') :
    hydrate lt p L = hydrate lt p L' := by
  unfold hydrate
  congr 1
  apply List.ext_getElem?
  intro i
  rw [List.getElem?_map, List.getElem?_map]
  cases h1 : L[i]? with
  | none =>
    have : L'[i]? = none := by
      rw [List.getElem?_eq_none_iff] at h1 ⊢; omega
    rw [this]
  | some l =>
    cases h2 : L'[i]? with
    | none =>
      exfalso
      have := (List.getElem?_eq_some_iff.mp h1).1
      rw [List.getElem?_eq_none_iff] at h2; omega
    | some l' =>
      simp only [Option.map_some]
      rw [isort_eq_of_perm h ((hp i l l' h1 h2).filter p)]

omit [DecidableEq α] in
theorem reverseSetList_flatten (L : List (List α)) : (reverseSetList L).flatten = L.flatten.reverse := by
  unfold reverseSetList
  rw [List.reverse_flatten]

omit [DecidableEq α] in
theorem reverseSetList_length (L : List (List α)) : (reverseSetList L).length = L.length := by
  simp [reverseSetList]

omit [DecidableEq α] in
theorem reverseSetList_involutive (L : List (List α)) : reverseSetList (reverseSetList L) = L := by
  unfold reverseSetList
  rw [List.map_reverse, List.reverse_reverse, List.map_map]
  have : (List.reverse ∘ List.reverse : List α → List α) = id := by
    funext l; simp
  rw [this, List.map_id]

omit [DecidableEq α] in
theorem inLayer_reverseSetList {L : List (List α)} {i : Nat} {v : α} (hi : i < L.length) :
    InLayer (reverseSetList L) i v ↔ InLayer L (L.length - 1 - i) v := by
  unfold InLayer reverseSetList
  rw [List.getElem?_reverse (by simpa using hi), List.length_map, List.getElem?_map]
  constructor
  · rintro ⟨l, h1, h2⟩
    cases h3 : L[L.length - 1 - i]? with
    | none => rw [h3] at h1; cases h1
    | some l0 =>
      rw [h3] at h1
      simp only [Option.map_some, Option.some.injEq] at h1
      subst h1
      exact ⟨l0, rfl, List.mem_reverse.mp h2⟩
  · rintro ⟨l, h1, h2⟩
    exact ⟨l.reverse, by rw [h1]; rfl, List.mem_reverse.mpr h2⟩

/-! ### why `removeVertex` may be modelled as filtering: adjacency lists never hold repeats -/

/-- adjacency lists without repeats (the invariant the `isAdjacent` guard of `AddEdge` maintains) -/
def AdjNodup (g : Adj α) : Prop := ∀ p ∈ g, p.2.Nodup

/-- on a list without repeats `ObjMetadataSet.Remove` (swap with the last element, shorten by one) removes
exactly the element: same members as filtering. -/
theorem mem_remove_of_nodup (l : List α) (hn : l.Nodup) (x z : α) :
    z ∈ IdSet.remove l x ↔ z ∈ l ∧ z ≠ x := by
  induction l with
  | nil => simp [IdSet.remove]
  | cons y ys ih =>
    rw [List.nodup_cons] at hn
    simp only [IdSet.remove]
    split
    · rename_i hyx
      subst hyx
      have hys : ∀ w, w ∈ ys → w ≠ y := fun w hw e => hn.1 (e ▸ hw)
      cases hl : ys.getLast? with
      | none =>
        have : ys = [] := List.getLast?_eq_none_iff.mp hl
        subst this
        simp
      | some last =>
        have hrec := dropLast_append_of_getLast? ys last hl
        have hm : z ∈ last :: ys.dropLast ↔ z ∈ ys := by
          have h2 : z ∈ ys ↔ z ∈ ys.dropLast ++ [last] := by rw [hrec]
          rw [h2, List.mem_cons, List.mem_append, List.mem_singleton]
          exact Or.comm
        simp only [hm, List.mem_cons]
        constructor
        · intro h; exact ⟨Or.inr h, hys z h⟩
        · rintro ⟨h | h, hne⟩
          · exact absurd h hne
          · exact h
    · rename_i hyx
      simp only [List.mem_cons, ih hn.2]
      constructor
      · rintro (h | ⟨h, hne⟩)
        · exact ⟨Or.inl h, by rw [h]; exact hyx⟩
        · exact ⟨Or.inr h, hne⟩
      · rintro ⟨h | h, hne⟩
        · exact Or.inl h
        · exact Or.inr ⟨h, hne⟩

theorem adjNodup_addVertex {g : Adj α} (h : AdjNodup g) (v : α) : AdjNodup (addVertex g v) := by
  unfold addVertex
  split
  · exact h
  · intro p hp
    rcases List.mem_append.mp hp with m | m
    · exact h p m
    · simp only [List.mem_singleton] at m
      subst m; exact List.nodup_nil

theorem adjNodup_addTo {g : Adj α} (h : AdjNodup g) (f t : α) : AdjNodup (addTo g f t) := by
  intro p hp
  unfold addTo at hp
  obtain ⟨q, hq, e⟩ := List.mem_map.mp hp
  subst e
  split
  · split
    · exact h q hq
    · rename_i ht
      show (q.2 ++ [t]).Nodup
      rw [List.nodup_append]
      refine ⟨h q hq, by simp, ?_⟩
      intro a ha b hb
      simp only [List.mem_singleton] at hb
      subst hb
      intro e; subst e; exact ht ha
  · exact h q hq

theorem adjNodup_build (vs : List α) (es : List (α × α)) : AdjNodup (build vs es) := by
  have h0 : AdjNodup ([] : Adj α) := fun p hp => by cases hp
  have hv : ∀ (vs : List α) (g : Adj α), AdjNodup g → AdjNodup (vs.foldl addVertex g) := by
    intro vs
    induction vs with
    | nil => intro g h; exact h
    | cons v vs ih => intro g h; exact ih _ (adjNodup_addVertex h v)
  have he : ∀ (es : List (α × α)) (g : Adj α), AdjNodup g →
      AdjNodup (es.foldl (fun g e => addEdge g e.1 e.2) g) := by
    intro es
    induction es with
    | nil => intro g h; exact h
    | cons e es ih =>
      intro g h
      exact ih _ (adjNodup_addTo (adjNodup_addVertex (adjNodup_addVertex h _) _) _ _)
  exact he es _ (hv vs _ h0)

theorem adjNodup_removeVs {g : Adj α} (h : AdjNodup g) (ls : List α) : AdjNodup (removeVs g ls) := by
  intro p hp
  obtain ⟨ds0, m, _, e⟩ := mem_removeVs.mp (show (p.1, p.2) ∈ removeVs g ls from hp)
  rw [e]
  exact List.Pairwise.filter _ (h (p.1, ds0) m)

end CliUtils.Graph
