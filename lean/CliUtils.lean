-- root import of everything the audit looks at (kept in sync by `check`, which fails if a Props file is missing here)
import CliUtils.Props.C19
import CliUtils.Props.C15
import CliUtils.Props.C06
import CliUtils.Props.C20
import CliUtils.Props.C17
import CliUtils.Props.C14
import CliUtils.Props.C07
import CliUtils.Props.C08
import CliUtils.Props.C09
import CliUtils.Props.C16
import CliUtils.Props.C18
import CliUtils.Props.C02
import CliUtils.Props.C04
import CliUtils.Props.C05
import CliUtils.Props.C10
