import Lean
import CliUtils
/-
  Audit: enumerate every theorem under `CliUtils.Props.*` and `CliUtils.Tie.*`, print its axioms as JSON lines.
  Run: lake env lean Audit.lean
-/
open Lean Elab Command

#eval show CommandElabM Unit from do
  let env ← getEnv
  let mut names : Array Name := #[]
  for (n, ci) in env.constants.toList do
    if (`CliUtils.Props).isPrefixOf n || (`CliUtils.Tie).isPrefixOf n then
      if n.isInternal then continue
      match ci with
      | .thmInfo _ => names := names.push n
      | _ => pure ()
  let sorted := names.qsort (fun a b => a.toString < b.toString)
  for n in sorted do
    let axs ← liftCoreM (collectAxioms n)
    let axsJ := Json.arr (axs.map (fun a => Json.str a.toString))
    IO.println (Json.mkObj [("theorem", n.toString), ("axioms", axsJ)]).compress
