#!/bin/bash
# run_seeded.sh <seeded-name e.g. C19-a> <property> [tier]: run a check against a scratch worktree with the seeded change applied
S=$1; P=$2; T=${3:-quick}
WT=/tmp/seedrun-$S-$$
git -C /repo worktree add -q $WT HEAD || exit 2
(cd $WT && git apply /verif/seeded/$S/patch.diff) || { git -C /repo worktree remove --force $WT; echo "patch failed"; exit 3; }
VERIF_REPO=$WT /verif/check $P $T
rc=$?
git -C /repo worktree remove --force $WT
exit $rc
