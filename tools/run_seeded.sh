#!/bin/bash
# run_seeded.sh <seeded-name e.g. C19-a> <property> [tier]: run a check against a scratch worktree with the seeded change applied
S=$1; P=$2; T=${3:-quick}
WT=/tmp/seedrun-$S-$$
git -C /repo worktree add -q $WT HEAD || exit 2
(cd $WT && git apply /verif/seeded/$S/patch.diff) || { git -C /repo worktree remove --force $WT; echo "patch failed"; exit 3; }
VERIF_REPO=$WT /verif/check $P $T
rc=$?
H=$(printf %s "$WT" | md5sum | cut -c1-8)
mkdir -p /verif/replays/seeded && rm -rf /verif/replays/seeded/$S-$P && mv /verif/replays/scratch-alt-$H /verif/replays/seeded/$S-$P 2>/dev/null
rm -rf /verif/harness/bin-alt-$H /verif/harness/go-alt-$H.mod /verif/harness/go-alt-$H.sum /verif/harness/overlay/overlay-alt-$H.json
git -C /repo worktree remove --force $WT
exit $rc
