#!/bin/bash
# coverage.sh [tier] : statement coverage of /repo's packages reached by ALL correspondence domains (quick tier by default).
# Not a registered check: a development aid that tells which statements of the anchored files no generated input reaches.
# Builds an instrumented harness against a physical copy of /repo (go -cover does not combine with -overlay), runs every
# domain once, writes /tmp/cov-profile.txt and prints the per-function table of the files named in properties.jsonl.
set -u
TIER=${1:-quick}
export GOFLAGS=-mod=mod GOPROXY=off GOSUMDB=off GOTOOLCHAIN=local CGO_ENABLED=0
rm -rf /tmp/cov-repo /tmp/cov-data && mkdir -p /tmp/cov-data
rsync -a --exclude .git /repo/ /tmp/cov-repo/
while read -r src dst; do
  case "$src" in \#*|"") continue;; esac
  cp /verif/harness/overlay/$src /tmp/cov-repo/$dst
done < /verif/harness/overlay/MAP
cd /verif/harness
sed 's|=> /repo|=> /tmp/cov-repo|' go.mod > /tmp/cov.mod; cp go.sum /tmp/cov.sum
go build -tags verif -modfile=/tmp/cov.mod -cover -coverpkg=verif/harness/...,sigs.k8s.io/cli-utils/... -o /tmp/cov-corr ./cmd/corr || exit 2
DOMS=$(/tmp/cov-corr 2>&1 | sed -n 's/.*domains: \[\(.*\)\]/\1/p')
for d in $DOMS; do
  case $d in watcher-unsched) continue;; esac
  ( GOCOVERDIR=/tmp/cov-data VERIF_TIER=$TIER VERIF_SEED=1 timeout 900 /tmp/cov-corr $d > /dev/null 2>&1 ) &
done
wait
for f in /verif/corpus/*/*.jsonl; do GOCOVERDIR=/tmp/cov-data timeout 300 /tmp/cov-corr replay $f > /dev/null 2>&1; done
go tool covdata textfmt -i=/tmp/cov-data -o=/tmp/cov-profile.txt
python3 - <<'EOF'
import json,re,collections
files=set()
for l in open('/verif/properties.jsonl'):
    for f in json.loads(l)['anchors']['files']: files.add(f)
un=collections.defaultdict(list); tot=collections.Counter(); cov=collections.Counter()
for l in open('/tmp/cov-profile.txt'):
    m=re.match(r'sigs.k8s.io/cli-utils/(\S+):(\d+)\.\d+,(\d+)\.\d+ (\d+) (\d+)',l)
    if not m: continue
    f,a,b,n,c=m.group(1),int(m.group(2)),int(m.group(3)),int(m.group(4)),int(m.group(5))
    if f not in files: continue
    tot[f]+=n
    if c>0: cov[f]+=n
    else: un[f].append((a,b))
for f in sorted(files):
    if tot[f]==0: print(f"{f}: no statements seen"); continue
    print(f"{f}: {cov[f]}/{tot[f]} statements ({100*cov[f]//tot[f]}%)  uncovered lines: "+" ".join(f"{a}-{b}" if a!=b else str(a) for a,b in sorted(set(un[f]))))
EOF
rm -rf /tmp/cov-repo
