#!/bin/bash
# confirm_mutant.sh <PID> <tag>  : independently confirms a sub-agent's change from /tmp/m-<PID>-<tag>-out in a FRESH scratch worktree:
#   applies patch.diff, builds, runs the whole existing suite (except test/e2e, test/stress which need a cluster), runs the demo with
#   the change (must fail) and without (must pass). Stores patch+demo+meta.json under /verif/seeded/<PID>-<tag>/ and removes the worktree.
set -u
PID=$1; TAG=$2
OUT=/tmp/m-$PID-$TAG-out
WT=/tmp/confirm-$PID-$TAG
DEST=/verif/seeded/$PID-$TAG
export GOFLAGS=-mod=mod GOPROXY=off GOSUMDB=off GOTOOLCHAIN=local
git -C /repo worktree remove --force $WT 2>/dev/null
git -C /repo worktree add -q $WT HEAD || exit 2
cd $WT
res() { echo "$1"; }
git apply $OUT/patch.diff || { echo "patch does not apply"; git -C /repo worktree remove --force $WT; exit 3; }
BUILD=ok; go build ./... 2>/tmp/confirm-$PID-$TAG.build || BUILD=fail
PKGS=$(go list ./... | grep -v '/test/e2e\|/test/stress')
SUITE=ok; go test -vet=off -count=1 $PKGS > /tmp/confirm-$PID-$TAG.suite 2>&1 || SUITE=fail
SUITE_NOTE=""
if [ "$SUITE" = fail ]; then
  # pkg/kstatus/watcher has a test that times out now and then under parallel load (on the pristine tree too):
  # packages that failed are run once more, alone
  FAILED=$(grep '^FAIL\s' /tmp/confirm-$PID-$TAG.suite | awk '{print $2}' | grep '^sigs' | sort -u)
  if [ -n "$FAILED" ] && go test -vet=off -count=1 $FAILED > /tmp/confirm-$PID-$TAG.suite2 2>&1; then
    SUITE=ok; SUITE_NOTE="packages that failed in the full parallel run passed when re-run alone with the change applied: $(echo $FAILED | tr '\n' ' ')"
  fi
fi
# demo with change
cp -r $OUT/demo/. $WT/
DEMOPKGS=$(cd $OUT/demo && find . -name '*.go' -exec dirname {} \; | sort -u | sed 's|^\./||')
DEMO_WITH=pass
for p in $DEMOPKGS; do
  if [ -f $OUT/demo/$p/main.go ]; then go run ./$p > /tmp/confirm-$PID-$TAG.demo_with 2>&1 || DEMO_WITH=fail
  else go test -vet=off -count=1 -run 'ZZ|Zz|zz|Demo' ./$p > /tmp/confirm-$PID-$TAG.demo_with 2>&1 || DEMO_WITH=fail; fi
done
# demo without change
git apply -R $OUT/patch.diff
DEMO_WITHOUT=pass
for p in $DEMOPKGS; do
  if [ -f $OUT/demo/$p/main.go ]; then go run ./$p > /tmp/confirm-$PID-$TAG.demo_without 2>&1 || DEMO_WITHOUT=fail
  else go test -vet=off -count=1 -run 'ZZ|Zz|zz|Demo' ./$p > /tmp/confirm-$PID-$TAG.demo_without 2>&1 || DEMO_WITHOUT=fail; fi
done
cd /
git -C /repo worktree remove --force $WT
mkdir -p $DEST
cp $OUT/patch.diff $DEST/; rm -rf $DEST/demo; cp -r $OUT/demo $DEST/demo; cp $OUT/README.md $DEST/AGENT_README.md 2>/dev/null
cat > $DEST/confirm.json <<J
{"property":"$PID","tag":"$TAG","base_commit":"$(git -C /repo rev-parse --short HEAD)","build":"$BUILD","existing_suite":"$SUITE","existing_suite_note":"$SUITE_NOTE","demo_with_change":"$DEMO_WITH","demo_without_change":"$DEMO_WITHOUT",
 "ran":"fresh worktree of /repo HEAD; git apply patch.diff; go build ./...; go test -vet=off -count=1 <all packages except test/e2e,test/stress>; demo (go test -run 'ZZ|Demo' / go run) with and without the patch"}
J
cat $DEST/confirm.json
