#!/bin/sh
# Build the framework from files on disk only (offline): Lean library + driver, Go harness.
set -e
cd "$(dirname "$0")/.."
export GOFLAGS=-mod=mod GOPROXY=off GOSUMDB=off GOTOOLCHAIN=local CGO_ENABLED=0
(cd lean && { lake build > .lake/build.log 2>&1; rc=$?; tail -3 .lake/build.log; [ $rc -eq 0 ] || { echo "setup: lake build FAILED (lean/.lake/build.log)"; exit $rc; }; })
cp /repo/go.sum harness/go.sum
mkdir -p harness/bin harness/overlay
python3 - <<'PY'
import sys
sys.argv=['check']
sys.path.insert(0,'.')
import importlib.machinery, importlib.util
l=importlib.machinery.SourceFileLoader('chk','./check'); s=importlib.util.spec_from_loader('chk',l); m=importlib.util.module_from_spec(s); l.exec_module(m)
m.gen_overlay(m.os.path.join(m.HARN,'overlay','overlay.json'))
PY
(cd harness && go build -tags verif -overlay overlay/overlay.json -o bin/ ./cmd/...)
echo setup-ok
