#!/usr/bin/env python3
"""Prints the prompt for an independent mutant-writing sub-agent for one property (property text only; nothing from /verif)."""
import json, sys
pid, tag = sys.argv[1], sys.argv[2]
p = next(json.loads(l) for l in open('/verif/properties.jsonl') if json.loads(l)['id'] == pid)
wt = f"/tmp/m-{pid}-{tag}"
print(f"""You are helping to test a verification effort for the Go library kubernetes-sigs/cli-utils. You get ONE semantic property of the library and your own scratch git worktree of the repository at {wt} (already created; Go module, builds offline). Work only inside {wt} and {wt}-out (create it). Do not read or write /verif or /repo (treat them as off limits); the sandbox has no network.

Go environment for every shell command: export GOFLAGS=-mod=mod GOPROXY=off GOSUMDB=off GOTOOLCHAIN=local

THE PROPERTY ({pid}: {p['title']})
Statement: {p['statement']}
Quantified over: {p['quantifier']['text']}
Code it is anchored in: {', '.join(p['anchors']['files'])}
Mechanisms meant to make it hold: {'; '.join(m['name'] + ' @ ' + m.get('where','') for m in p['anchors']['mechanism'])}

YOUR JOB: write a realistic change (a plausible bug a developer could introduce in a refactor or "optimisation": 1-15 changed lines, in non-test files only) to the library that BREAKS this property, while
  (a) the module still compiles (go build ./... && go vet-free `go test -vet=off -count=1 -run '^$' ./...`), and
  (b) the existing test suite still passes: run `go test -vet=off -count=1 ./...` in {wt} (takes a few minutes; at least all packages under the directories of the files you touch and their importers must pass — report exactly what you ran and the result), and
  (c) the breakage needs something SPECIFIC to manifest — a particular interleaving, a crash or fault at a particular point, a multi-step sequence of operations, an unusual input shape, or two cooperating sites that each look fine alone — NOT something ordinary use would expose at once. Subtle beats blatant.
Then write a DEMONSTRATION: a Go test file (placed in the appropriate package directory of the worktree, name it zz_demo_test.go) or a small Go program under {wt}/cmd/zzdemo, that exercises the real library code and FAILS with your change applied and PASSES on the unchanged code. Verify both directions yourself (git diff > patch; git apply -R patch; run; git apply patch; run). NEVER use `git stash`: the stash is shared between all worktrees of the repository and other people work in sibling worktrees.

Deliverables in {wt}-out/:
  patch.diff   — `git diff` of the non-test change only (must apply to the pristine tree with `git apply`)
  demo/        — the demonstration file(s) with their path relative to the repo root preserved (e.g. demo/pkg/apply/filter/zz_demo_test.go)
  README.md    — which behaviour of the property breaks, what exactly is needed for it to manifest, the exact commands you ran (suite + demo, with and without the change) and their results
{"VARIETY (round c/d): many people have already done this exercise for this property and the obvious spots are taken. Pick something DIFFERENT: an interplay of two packages, an option default or a rarely-set option, an error / early-return path, a boundary value (empty set, single element, zero timeout), concurrency or ordering between goroutines, or a helper OUTSIDE the listed files that the mechanism silently relies on (but the observable breakage must still be a violation of THIS property's statement). Avoid: moving the AddInvalidObject loop in applier.go, AddAbandonedObject ordering in prune.go, `statusChannel = nil` in runner.go, the Stalled condition of the Deployment ProgressDeadlineExceeded result, AppliedResourceUIDs, dropping the generation check in WaitTask. " if tag in ("c", "d") else ""}{"Also already taken (round d): trimming the cycle error in Graph.Sort, retrying a DELETE with a fresh UID, destroySuccessful requiring all stored ids deleted, shallow edge-map copy in Sort + in-place Remove, SetGraph only without graph error, pending := w.Ids[:0], merging Merge's early returns, overwriting depends-on errors in DependencyGraph, unlocked alias in sendTimeoutEvents, missing return in InvAddTask, GetLegacyConditionsFn fallback to bare Kind, getCrashLoopingContainers early return / map iteration order, AddEdge without adjacency guard, memoised keys in ConfigMap.Store, onNamespaceDelete using GetNamespace, %v-wrapping of context errors in the polling engine or caching reader, dropping same-revision status events in the runner, shared scratch slice in inventory.Manager, stats counters kept in the printer object, DeleteFunc pointer assertion, less() comparing concatenated namespace+name. " if tag == "d" else ""}{"VARIETY: several people are doing this exercise for the same property. To avoid everyone picking the same spot, target a clause of the statement OTHER than its first / most obvious one, and a code site other than the most central function (glue code, option handling, an error path, a rarely-taken branch, a helper in another package that the mechanism relies on). " if tag == "b" else ""}Leave the worktree with the change applied. Your final message: a 5-10 line summary (what you changed, why the suite misses it, how the demo shows it).""")
