#!/usr/bin/env python3
"""Regenerates MANIFEST.json from tools/propcfg.py (checks, engines, not_applicable)."""
import json, os, sys
ROOT = os.path.dirname(os.path.dirname(os.path.abspath(__file__)))
sys.path.insert(0, os.path.join(ROOT, "tools"))
from propcfg import PROPS, NOT_APPLICABLE

ids = [json.loads(l)["id"] for l in open(os.path.join(ROOT, "properties.jsonl"))]
checks = []
for pid in ids:
    if pid not in PROPS:
        continue
    c = PROPS[pid]
    checks.append({
        "property_id": pid,
        "quick_cmd": f"./check {pid} quick",
        "thorough_cmd": f"./check {pid} thorough",
        "evidence_file": f"/verif/evidence/{pid}.json",
        "replay_cmd_template": f"./check {pid} quick --replay {{path}}",
        "engine": "lean-proof+correspondence",
        "level_claimed": {"category": "proof", "text": c["level_text"], "design_ref": c.get("design_ref", "DESIGN.md section 5")},
        "level_note": c["level_note"],
        "technique": c.get("technique", "Lean 4 theorems over an executable model + differential correspondence with the Go code"),
    })
na = [{"property_id": p, "reason": NOT_APPLICABLE.get(p, "check under construction in this session; not claimed yet")} for p in ids if p not in PROPS]
m = {
    "version": 1,
    "setup_cmd": "cd /verif && ./tools/setup.sh",
    "hooks": {
        "guard": "verif",
        "enable": "go build -tags verif -overlay /verif/harness/overlay/overlay.json (no hook files are added to /repo; unexported access uses go build -overlay with files kept under /verif/harness/overlay)",
        "baseline_off_cmd": "cd /repo && go test -mod=mod -json -vet=off -count=1 -timeout 25m ./...",
        "source_commits": [],
        "add_only": True,
    },
    "engines": [{
        "name": "lean-proof+correspondence", "path": "/verif/check", "serves_properties": [c["property_id"] for c in checks],
        "kind_free_text": "Lean 4 theorems over a hand-written executable model (lean/CliUtils); the model is tied to /repo on every run by a differential correspondence harness (harness/, Go, calls the real code in-process) and by facts regenerated from the source (factgen -> Generated/Facts.lean, Tie.lean)",
    }],
    "checks": checks,
    "not_applicable": na,
    "notes": "All checks share ./check <id> quick|thorough; see DESIGN.md. known-findings.txt lists recorded findings and fixed defects.",
}
json.dump(m, open(os.path.join(ROOT, "MANIFEST.json"), "w"), indent=1)
print(f"{len(checks)} checks, {len(na)} not claimed")
