"""Per-property configuration of ./check: which correspondence domains run, what counts as non-trivial, trusted base."""

NOT_APPLICABLE = {}

PROPS = {
    "C19": {
        "level_text": ("Machine-checked Lean 4 theorems (all lists, all operation sequences) that the model of the identifier-set operations has "
                       "set semantics and that the actuation-table model keeps one record per object, returns the latest record, is total and "
                       "partitions by outcome. The model is tied to the code by running the real ObjMetadataSet/Manager on the same inputs "
                       "(exhaustive over short lists, random longer) and comparing every output; a unit test cannot quantify over all lists/sequences."),
        "level_note": ("Trusted: Lean kernel (+propext, Quot.sound, Classical.choice), the hand-written model, the Go harness and driver. "
                       "The proof is about the model; the code is covered as far as the correspondence run explores (reported in evidence)."),
        "technique": "Lean 4 proof (induction over lists / op sequences) + differential correspondence against the real Go code",
        "domains": ["set", "mgr"],
        "rule": ("set: every pair of id lists (with repeats) of length <= 3 (quick) / <= 4 (thorough) over a 3-id universe, crossed with "
                 "probe ids, plus random lists of length <= 8 over 4 ids; mgr: random sequences of 1..14 record/set/query operations on the "
                 "real inventory.Manager over 4 ids. A case is non-trivial if the two lists together have >= 2 elements (set) or the "
                 "sequence has >= 2 operations (mgr); distinct = distinct canonical input JSON."),
        "exhaustive_quick": False,
        "explanation": ("Theorems: set operations have mathematical set semantics for all lists; one record per id after any op sequence; "
                        "lookups return the latest record; queries total; outcome queries partition. Tie: the real ObjMetadataSet methods and "
                        "the real Manager are run on the same inputs and every output is compared with the model's; the property predicate "
                        "(set semantics / partition / no panic) is evaluated on the implementation's outputs."),
        "assumptions": ["Go map iteration order only affects Unique()/AppliedResourceUIDs(), which are compared as sorted lists"],
        "trusted_base": ["model: lean/CliUtils/Model/{IdSet,Manager,IdStr}.lean (hand-written; FNV-1a and sort.Strings modelled, fmt.Sprintf trusted)"],
    },
    "C15": {
        "domains": ["idstr", "invstore", "dep"],
        "level_text": ("Machine-checked Lean 4 theorems over all identifiers (strings as List Char): every id whose fields are free of the separator "
                       "round-trips through String/ParseObjMetadata (with ':'<->'__' transcoding for RBAC kinds); accepted ids never share a key; "
                       "Store rejects every id that does not round-trip; whatever Store wrote, Load reads back as the same set; depends-on "
                       "references round-trip and malformed ones are rejected. The model (format/parse/store/load/depFormat/depParse) is tied to the "
                       "code by exhaustive short-string enumeration over the critical alphabet plus random fields through the real functions and "
                       "the real ConfigMap Store/GetObject/Load."),
        "level_note": ("Trusted: Lean kernel (+propext, Quot.sound, Classical.choice), hand-written model of strings.Index/LastIndex/ReplaceAll/Split/TrimSpace "
                       "(validated by the correspondence run incl. unicode), fmt.Sprintf, unstructured.SetNestedStringMap, Go harness and driver."),
        "technique": "Lean 4 proof (induction over List Char) + exhaustive/differential correspondence against the real Go code",
        "rule": ("idstr: every name of length <= 4 (quick) / <= 5 (thorough) over {a,-,.,:,_} x 4 (group,kind) pairs x namespaces, random ids with "
                 "separators/unicode in every field, every string of length <= 6/7 over {a,_,:,R} and random 4-field strings through ParseObjMetadata; "
                 "invstore: singletons and pairs from a pool of colliding/lossy/valid ids + random sets of <= 6 ids through the real ConfigMap "
                 "Store->GetObject->Load; dep: names of length <= 3/4 over {a,:,/,',',space,_} x kinds x namespaces (incl. the literal 'namespaces'), "
                 "strings over {a,/,namespaces,space,','} through ParseObjMetadata/ParseDependencySet, random dependency sets. "
                 "non-trivial: name/string not empty (>= 1..3 chars); distinct = distinct canonical input JSON."),
        "explanation": ("Spec predicates evaluated on the implementation: a well-formed id reads back as itself; Store either errors or what it wrote "
                        "loads back as exactly the distinct ids with one key each; an accepted dependency reference consists of the '/'-separated fields."),
        "assumptions": ["names containing ',' or leading/trailing blanks in a depends-on annotation are outside the property's alphabet: recorded (tags dep:not-wf), not alarmed"],
        "trusted_base": ["model: lean/CliUtils/Model/IdStr.lean"],
    },
    "C06": {
        "domains": ["wait", "runnercache"],
        "level_text": ("Machine-checked Lean 4 theorems about the wait-task state machine for ALL finite interleaved sequences of status updates "
                       "(any status, generation, UID, missing resource), deadline and cancellation: a Successful event is emitted only on an "
                       "observation that satisfies the phase condition (Current, generation >= applied, UID unchanged / NotFound or replaced UID); "
                       "at most one event per update; Skipped exactly for failed/skipped actuation; the phase ends early only after a moment with "
                       "nothing pending; failed-then-current and regress clauses; Timeout for exactly the pending objects; recorded reconcile "
                       "state = last event (invariant by induction over the operation list). The model (start/statusUpdate/timeout/cancel) is tied "
                       "to the real WaitTask by driving it through Start/StatusUpdate/Cancel with the same sequences (exhaustive short, random long)."),
        "level_note": ("Trusted: Lean kernel (+propext, Quot.sound, Classical.choice), hand-written model, harness, driver. Each entry point of the "
                       "WaitTask is atomic in the model (the code holds its mutex); the deadline goroutine is invoked through an overlay-exported "
                       "sendTimeoutEvents; Go's context/timer machinery and the memory model are not modelled."),
        "technique": "Lean 4 proof (invariants by induction over update sequences) + differential correspondence against the real WaitTask",
        "rule": ("wait: for both conditions, one object with every sequence of <= 3 (quick) / <= 4 (thorough) observations from a 14-value grid "
                 "(5 statuses x stale/same generation x same/changed UID, missing resource), every pair (initial cache, first update), plus random "
                 "phases of 1-3 objects (records: none / failed / skipped / other strategy / applied) with <= 8 interleaved updates, foreign ids, "
                 "deadline or cancel, updates after the end. non-trivial: at least one operation; distinct = distinct canonical input JSON."),
        "explanation": ("Spec predicate on the implementation's events (independent re-play of the observation feed): one start event per object, "
                        "Skipped iff actuation failed/skipped, Successful only if the latest observation meets the condition, <= 1 event per update, "
                        "failed->met => Successful, met->regress => Pending, deadline => Timeout for exactly the pending ones, ended iff a "
                        "none-pending moment or explicit end, recorded state = last event."),
        "assumptions": ["histories in which an object gets its ORIGINAL uid back after having been observed with another one cannot occur in a cluster; "
                        "the code's behaviour on them is compared with the model but the two 'is reported again' clauses are not judged there"],
        "trusted_base": ["model: lean/CliUtils/Model/Wait.lean; overlay export harness/overlay/taskrunner_export.go"],
    },
    "C20": {
        "level_text": ("Machine-checked Lean 4 theorems over ALL event streams accepted by the C13 event grammar (any plan, any length): "
                       "the model of BaseListPrinter.Print + JSON formatter + stats collector writes exactly one line per printed event, "
                       "each line identifies its event, the counters of group-finished and summary lines equal the counts of the events "
                       "seen so far (the running statistics are proved equal to List.countP over the prefix, for all streams), and the "
                       "result is an error iff the stream holds an error event, a failed actuation, a failed reconcile or a timeout. "
                       "The model is tied to the code by pushing grammar-generated streams through the real printers.GetPrinter(\"json\") "
                       "and comparing every parsed output line and the returned error; the property predicate (Spec.printSpec, computed "
                       "from the input stream by counting events) is evaluated on the real output. Whole-stream counting and the "
                       "error/no-error result are not quantified over by the unit tests."),
        "level_note": ("Trusted: Lean kernel (+propext, Quot.sound, Classical.choice), the hand-written model and grammar, the Go harness "
                       "(stream generator, line canonicalisation) and driver. Byte-level JSON encoding is encoding/json's; every output "
                       "line is re-parsed by the harness. The proof is about the model; the code is covered as far as the correspondence "
                       "run explores (reported in evidence)."),
        "technique": "Lean 4 proof (induction over event streams / grammar automaton invariants) + differential correspondence against the real Go printer",
        "domains": ["print", "grammar-neg"],
        "rule": ("print: random streams generated from the grammar — plan of 1..5 groups (apply/prune/delete/wait/inventory, applier-like, "
                 "destroyer-like or random order) over 1..6 objects, random successful/skipped/failed/timeout outcomes, optional "
                 "validation events, optional interleaved status events, optional truncation of the plan and final error, early exit "
                 "without plan event; status printing on/off. grammar-neg: the same streams with one of 17 grammar violations planted "
                 "(must be rejected by eventsWellFormed; also printed, covering the panic and formatter-error branches). A case is "
                 "non-trivial if at least one group finished and the stream holds at least one apply/prune/delete/wait event; "
                 "distinct = distinct canonical input JSON."),
        "exhaustive_quick": False,
        "explanation": ("Theorems: wellFormed_printable, stats_equal_counts (all streams), print_satisfies_spec, one_line_per_printed_event, "
                        "line_identifies_event, counts_equal_events_so_far, summary_counts, print_error_iff (+ off-grammar branches: id-less "
                        "validation rejected, Pending result panics). Tie: the real JSON printer is run on each generated stream with a "
                        "bytes.Buffer; each output line is parsed with encoding/json and canonicalised by the keys it carries; lines and "
                        "error kind are compared with the model's, and Spec.printSpec is evaluated on the real output."),
        "assumptions": ["error values are modelled by their message text; the timestamp field is only checked to be RFC3339",
                        "ErrorEvent.Err and ValidationEvent.Error are non-nil and StatusEvent.PollResourceInfo is non-nil (the printer dereferences them)"],
        "trusted_base": ["model: lean/CliUtils/Model/{Event,Print}.lean, grammar: lean/CliUtils/Spec/EventGrammar.lean, predicate: lean/CliUtils/Spec/PrintSpec.lean (hand-written)",
                         "harness/cmd/corr/dom_c20.go (generator from the grammar, canonicalisation of output lines)"],
    },
    "C17": {
        "level_text": ("Machine-checked Lean 4 theorems over a model of the polling engine, ResourceStatusEqual, AggregateStatus, the "
                       "collector and the pod-controller rule: for every list of statuses and every desired status the aggregate follows the "
                       "stated rule and is order- and multiplicity-independent; ResourceStatusEqual is an equivalence relation on the "
                       "status-relevant fields; for every sequence of per-poll snapshots the emitted stream is, poll by poll, exactly one update "
                       "per distinct resource whose fresh status differs from the last update emitted for it (all of them on the first poll); "
                       "for every script (cancellation or errors at any Sync / ReadStatus call) at most one error event occurs and only as the "
                       "last event, none if only context errors occur; the collector's latest observation is the last update per resource. "
                       "The model is tied to the code by driving the REAL PollerEngine.Poll with a scripted ClusterReader/StatusReader/"
                       "RESTMapper, and the real AggregateStatus (exhaustively over short lists), ResourceStatusEqual, collector and "
                       "podControllerStatusReader.readStatus on the same inputs. Unit tests sample 3-5 hand-written cases; they cannot quantify "
                       "over all snapshot sequences, multisets and cancellation points."),
        "level_note": ("Trusted: Lean kernel (+propext, Quot.sound, Classical.choice), the hand-written model (Model/Poll.lean), the Go harness "
                       "and driver. The ticker is replaced by 'one poll per scripted snapshot' (the real ticker only decides WHEN the next poll "
                       "happens); goroutine scheduling of the engine is exercised by the harness but not modelled. The proof is about the "
                       "model; the code is covered as far as the correspondence run explores (reported in evidence)."),
        "technique": "Lean 4 proof (induction over snapshot scripts / status lists, nested-inductive equivalence) + differential correspondence against the real Go code",
        "domains": ["aggregate", "rsequal", "poll", "pollcache", "cachereader", "dynreader", "collector", "podctl", "readstatus"],
        "rule": ("aggregate: EVERY list of the 6 statuses of length <= 4 (quick) / <= 5 (thorough) x every desired status through the real "
                 "AggregateStatus, plus random lists of length 6..25; rsequal: generated pairs of ResourceStatus trees (clone / one-field "
                 "mutation anywhere in the tree incl. nil-resource vs generation 0, error present/absent/text, generated list length and order "
                 "/ unrelated) through the real ResourceStatusEqual in both directions; poll: the real PollerEngine.Poll over scripts of 0-6 polls "
                 "for 0-4 identifiers (repeated ids, not-found, read errors, generated resources; Sync/ReadStatus returning context or fatal "
                 "errors or cancelling the context at any point; validation / reader-factory errors), incl. every sequence of length <= 4 over "
                 "three variants of one resource x 8 endings; collector: random event streams through the real ResourceStatusCollector; podctl: "
                 "the real podControllerStatusReader.readStatus with scripted pod statuses / compute results / errors; readstatus: the real generic "
                 "status reader (mapper lookup, Get, status function) over every combination of outcomes and error kinds; pollcache: the real "
                 "polling.NewStatusPoller (engine + default CachingClusterReader + default status readers) whose context is cancelled / times out "
                 "while the k-th LIST of the cluster reader is in flight (k = 0..8, context error returned bare, wrapped in *url.Error or with %w) or "
                 "between two polls: the channel must close without an error event; cachereader: the real "
                 "clusterreader.NewCachingClusterReader over a scripted client.Reader and RESTMapper, driven through scripts of sync / get / "
                 "listns / listcluster operations (1-3 identifiers incl. Deployment / StatefulSet / ReplicaSet so that generated kinds are "
                 "tracked, root-scoped kinds, a CRD kind whose mapping appears later; 1-4 Syncs with changing cluster content and mapper "
                 "table; per (GroupKind, LIST namespace) the LIST ends ok in 1..n pages (the reader honours Limit / Continue), or its k-th page "
                 "request fails with an other / NotFound / Expired error or a context error (bare, *url.Error-wrapped, %w-wrapped, or a real "
                 "cancellation), or the context is cancelled while a page request succeeds; reads of tracked, generated and untracked pairs with "
                 "selectors everything / equality / inequality / existence / a label nobody has / nothing, before the first Sync and after failed "
                 "Syncs), plus a fixed grid: content A, then content B with ONE LIST of the second Sync disturbed in every way, all pairs read after "
                 "each Sync; dynreader: the real clusterreader.DynamicClusterReader (the status watcher's reader) over client-go's fake dynamic "
                 "client: scripts of put / delete / make-GET-or-LIST-fail operations interleaved with get / listns / listcluster, every read "
                 "must answer the CURRENT content (a labels.Nothing() selector is compared with the model only: it travels as \"\" and selects "
                 "everything). Non-trivial: aggregate "
                 "lists of length >= 2, poll scripts with >= 2 polls and >= 1 id, collector streams with >= 2 events; distinct = distinct canonical input JSON."),
        "exhaustive_quick": False,
        "explanation": ("Theorems (CliUtils.Props.C17): aggregate_rule, aggregate_perm_invariant, aggregate_set_invariant, rsEqual_equivalence, "
                        "rsEqual_compares, poll_first_emits_all(_run), poll_once_events, poll_emits_iff_changed(_per_resource), "
                        "poll_emits_iff_differs_from_previous_snapshot, poll_prev_is_last_emitted, poll_cancel_no_error, "
                        "poll_at_most_one_error_and_last, poll_fatal_(read_)exactly_one_error_then_close, poll_setup_error_exactly_one_error, "
                        "collector_latest_is_last, pod_controller_failed_rule, pod_controller_errors. Tie: every domain compares the model's "
                        "output with the real code's on the same input; the property predicate (aggregation rule; emitted-iff-changed computed "
                        "from the script and the observed stream alone with a JSON-level comparison; no error event on cancellation; exactly one, "
                        "final error event on a fatal error; channel closed) is evaluated on the implementation's output."),
        "assumptions": ["status readers return a status carrying the identifier they were asked for (true of every reader in statusreaders/); "
                        "scripts violating this are still compared model-vs-code but are outside the property predicate",
                        "a nil Resource counts as generation 0 (getGeneration), as in the code",
                        "event sequences never depend on wall-clock time: the scripted reader advances one snapshot per Sync and cancels from inside the engine goroutine"],
        "trusted_base": ["model: lean/CliUtils/Model/Poll.lean (hand-written); spec notions: lean/CliUtils/Spec/C17.lean",
                         "harness/overlay/zz_verif_c17_statusreaders.go (build-time overlay exposing podControllerStatusReader.readStatus; /repo untouched)"],
    },
    "C14": {
        "level_text": ("Machine-checked Lean 4 theorems, for every graph (any vertex type, any size): the model of Graph.Sort partitions the "
                       "vertices into layers plus a remaining set; every dependency of a layered vertex is in a strictly earlier layer; a "
                       "vertex of layer k+1 has a dependency in layer k (layer index = length of the longest dependency chain); the "
                       "remaining set is exactly the set of vertices that reach a cycle; any two presentations of the same graph give the "
                       "same layers, and after sorting with the documented order (proved to be a strict total order on ids) identical "
                       "lists; ReverseSetList yields the exact reverse. The model is tied to the code by running the real "
                       "Graph.Sort/HydrateSetList/ReverseSetList/DependencyGraph/SortObjs/ReverseSortObjs on the same inputs."),
        "level_note": ("Trusted: Lean kernel (+propext, Quot.sound, Classical.choice), the hand-written model, the Go harness and driver. "
                       "The proof is about the model; the code is covered as far as the correspondence run explores (reported in evidence)."),
        "technique": "Lean 4 proof (induction over the sort loop, walks, pigeonhole) + differential correspondence against the real Go code",
        "domains": ["graph", "depgraph"],
        "rule": ("graph: every digraph with self-loops on <= 3 (quick) / <= 4 (thorough) labelled vertices over 5 id universes, each in "
                 "several vertex/edge orders (every case carries two shuffled presentations of the same graph), plus random graphs "
                 "(hidden DAG + 0..4 arbitrary edges) on <= 12 and <= 40 ids drawn from all kinds of the ordering table and kinds outside "
                 "it; variants with repeated AddVertex/AddEdge, vertices introduced only by AddEdge, objects for a subset of the ids, "
                 "namespace edges arriving implicitly, explicitly or both. depgraph: random object sets (<= 14 objects incl. Namespace and "
                 "CRD objects) with depends-on and apply-time-mutation annotations (well-formed, duplicated, external, unparsable) run "
                 "through the real DependencyGraph and SortObjs. A case is non-trivial if it has >= 1 edge and >= 2 vertices (graph) / "
                 ">= 1 edge (depgraph); distinct = distinct canonical input JSON."),
        "exhaustive_quick": False,
        "explanation": ("Theorems: sort_partition, sort_edges_strict, sort_minimal, layer_is_longest_chain, cycle_set_exact, "
                        "sort_perm_invariant, less_strict_total, hydrate_deterministic, reverse_is_reverse (see lean/CliUtils/Props/C14.lean). "
                        "Tie: the real graph package is run on the same vertex/edge sequences (plain API and unstructured objects with "
                        "depends-on annotations) and every output is compared with the model's. Search: an oracle that shares nothing "
                        "with the model (Warshall reachability, cyclic = reaches a self-reaching vertex, layer = longest chain, "
                        "lexicographic key order) judges the implementation's own outputs: partition, strictness, minimality, exact "
                        "cycle set and cycle edges, order inside each layer, exact reversal, equality of the two presentations."),
        "assumptions": ["Go map iteration order is unobservable after the sorts the code applies; raw Sort layers are compared as sets",
                        "Go string comparison (bytewise) and Lean String.lt (by code point) agree on valid UTF-8"],
        "trusted_base": ["model: lean/CliUtils/Model/Graph.lean (hand-written; removeVertex modelled as filtering, justified by theorem removeVertex_is_filter)",
                         "model: lean/CliUtils/Model/DepEdges.lean (edge builders of DependencyGraph on parsed annotations; annotation parsing itself is C15/C18)"],
    },
    "C16": {
        "level_text": ("Machine-checked Lean 4 theorems about (1) the event multiplexer of the status watcher as a labelled transition system "
                       "under every interleaving of its goroutines with cancellation, the owners of the input channels and the consumer "
                       "(counter invariant, no send on / second close of the closed output, no stuck decrement or add, per-input FIFO with no "
                       "loss or duplication, output closed only after cancellation and after every accepted input is closed and drained, "
                       "termination measure, last event per object preserved) and (2) the sequential decision logic of ObjectStatusReporter "
                       "(allow-list filter, handler output incl. NotFound for deletes, start/stop table as a closed form of the namespace / CRD / "
                       "watch-error history per REST scope, watch-error classes, at most one error event with the once-guard). The model is tied "
                       "to the code by trace inclusion: histories of the REAL eventFunnel driven by random goroutine programs must be accepted "
                       "by the model's checker (proved sound), and the REAL DefaultStatusWatcher / ObjectStatusReporter over a fake dynamic client "
                       "is compared with the model on schedule-independent observables."),
        "level_note": ("Data races, goroutine leaks and deadlocks of the Go runtime cannot be exhibited by the model; they are observed by the "
                       "harness only (recovered panics / dead child process, goroutine count before/after with settle time, timeouts), as "
                       "supporting validation. The theorems are about the model: interleaving semantics with atomic channel rendezvous; informers, "
                       "contexts and the fake API server are environment. Trusted: Lean kernel (+propext, Quot.sound, Classical.choice), the "
                       "hand-written model, the Go harness (incl. its LIST/WATCH gate for the resourceVersion-less fake tracker) and the driver."),
        "technique": "Lean 4 proof (invariants of a transition system, trace-checker soundness) + trace-inclusion / differential correspondence against the real Go code",
        "domains": ["funnel", "watcher", "watcher-fatal", "watcher-unsched", "watcher-late"],
        "rule": ("funnel: random programs (1-4 producers, 0-3 events each, add/send/close with seeded delays of 0-0.8 ms, cancellation at a random "
                 "point, optionally slow consumer) run against the real eventFunnel, one case at a time in child processes; a case is non-trivial "
                 "if it has >= 2 producers or >= 2 events. watcher: 6 hand-written reporter configurations + random scripts (2-9 mutation rounds of "
                 "create/update/delete on watched and unwatched Pods, ConfigMaps, a Deployment in 2 namespaces, optional watched Namespace object "
                 "deleted and re-created, optional CRD + custom resource installed/removed (incl. a CRD that is served only from its first status-only "
                 "update on), watch connections expired with 410 and a watched object deleted while the watch is down (the delete arrives through the "
                 "re-list), root / namespace / automatic scope, optional slow "
                 "LIST, racing (no barriers) or strict mode, cancellation at a random step in 1/6 of the cases); non-trivial if >= 2 mutations. "
                 "watcher-fatal: LIST Forbidden on 0-3 of 3 watched kinds, both scopes, consumer delayed 0-30 ms, 48 trials (quick); quick runs 5000 funnel programs and 706 watcher scripts; "
                 "non-trivial if >= 2 kinds fail. watcher-unsched: an unschedulable pod (InProgress inside the library's 15 s schedule window, Failed "
                 "after it, with no change of the object) left alone / scheduled after 1 s / deleted after 1 s, both scopes: the delayed re-read from the "
                 "cluster must deliver the final status (6 cases of 16 s, run concurrently). distinct = distinct canonical input JSON."),
        "exhaustive_quick": False,
        "timeout_quick": 300,
        "explanation": ("Theorems: see level_text. Tie: (a) every observed history of the real funnel (successful / rejected adds, sends, input "
                        "closes, cancel, output deliveries, output close; logged under a mutex at points where log order is a sound linearisation) "
                        "is checked for acceptance by Model.Funnel.accepts, which is proved to accept only traces of the transition system; the "
                        "property predicate (no panic, closed, no leak, each accepted input delivered once in order, closed only after cancel and "
                        "after every accepted input was closed) is evaluated on the history independently of the model. (b) the real watcher runs "
                        "scripted cluster histories; per-object event sequences, final statuses, sync/error counts, closure, the target list and (for "
                        "directly configured reporters) the informer table are compared with Model.Reporter run on the same script, and the property "
                        "(one sync after the initial LISTs, last event per watched object = status the library computes for its final version or "
                        "NotFound, nothing for unwatched ids, at most one error, channel closed, no panic) is evaluated on the observations."),
        "assumptions": ["the fake tracker has no resourceVersions, so the harness never mutates the cluster between an informer's LIST and its WATCH",
                        "a Namespace / CRD is deleted the way a cluster does it: contents first",
                        "timeouts (4-6 s) stand for 'never'"],
        "trusted_base": ["model: lean/CliUtils/Model/{Funnel,Reporter}.lean (hand-written; reduction: 'receive on counterCh then test the exit condition' is one atomic step)"],
    },
    "C18": {
        "level_text": ("Machine-checked Lean 4 theorems over an executable model of jsonpath.Get/Set (child, index and wildcard steps) and of "
                       "ApplyTimeMutator.Mutate: after a Set every matched field holds the written value, every field neither inside nor above "
                       "a matched field is unchanged, every node outside the matched fields keeps kind/keys/length, key uniqueness is "
                       "preserved, a path without match changes nothing; strings.ReplaceAll = Join(Split) with token-free pieces; a successful "
                       "substitution implies every acceptance condition (so each rejection branch is an error without output object) and its "
                       "result is exactly that Set. For all trees, paths, values, tokens. The model (including the identity modelling of the "
                       "marshal/ajson/yaml.v3 glue) is tied to the code by running the real jsonpath.Get/Set, readFieldValue/writeFieldValue/"
                       "valueToString and the real Mutate on the same inputs and comparing every output."),
        "level_note": ("Trusted: Lean kernel (+propext, Quot.sound, Classical.choice), the hand-written model, the Go harness and driver. "
                       "Known finding C18.array-length (ajson `length` pseudo-node on arrays): real behaviour modelled, read-back theorems carry "
                       "the decidable hypothesis lenFree (`_partial`), witness theorem set_get_fails_in_region. Not modelled: '..', slices, "
                       "unions, filters, scripts, `$` as a Set target, negative/non-canonical index texts after a wildcard (ajson resolves them "
                       "against the first array only), member names with control characters inside expressions, annotation YAML parsing."),
        "technique": "Lean 4 proof (induction over paths / strings, case analysis of Mutate) + differential correspondence against the real Go code",
        "domains": ["jsonpath", "mutate", "runnercache"],
        "rule": ("jsonpath: one fixed tree x every path of length <= 2 (quick) / <= 3 (thorough) over a 15-step alphabet x 3 values "
                 "(exhaustive), plus random trees (depth <= 4: nested maps/lists, number-/bool-/null-/YAML-looking strings, ints up to "
                 "+-2^63 and uint64, floats 1e21/1e-7/5e-324/2^63/2^64, unicode incl. U+0085/U+2028/BOM, empty containers, odd keys) x "
                 "paths (existing leaf/container, missing key, index out of range, negative index, through a scalar, wildcard, `length`) "
                 "x written values of every type, through the real jsonpath.Get/Set and readFieldValue/writeFieldValue/valueToString; "
                 "mutate: random target and source objects, 1-3 substitutions, with/without token, sources in cache (current/stale) or "
                 "cluster or missing, explicit/implicit namespace, by apiVersion or group, self-references, unknown kinds/versions, "
                 "absent/invalid annotation, through the real ApplyTimeMutator.Mutate (annotation written by mutation.WriteAnnotation). "
                 "A case is non-trivial if the path matches at least one node (jsonpath) or the annotation is present and valid (mutate); "
                 "distinct = distinct canonical input JSON."),
        "exhaustive_quick": False,
        "explanation": ("Theorems: set_get(_partial), set_at_matches, set_below_matches, set_frame, set_skeleton, set_preserves_wf, "
                        "set_no_match_unchanged, replaceAll_spec/split_join/split_pieces_tokfree/replaceAll_leftmost/"
                        "replaceAll_no_token_identity, mutateOne_ok (success implies every acceptance condition), mutate_rejects_* (one per "
                        "rejection branch), mutate_effect/_frame/_readback_partial/_wf, mutate_error_no_output. Tie: every output of the real "
                        "code is compared with the model's; the predicates jpSpec/mutSpec (own path evaluation and confinement check on the "
                        "canonical JSON, Lean's String.replace) are evaluated on the implementation's outputs: read-back yields the written "
                        "value, the change is confined to the denoted fields, found = number of denoted fields, exactly-one-match on read and "
                        "write, each must-reject situation yields an error with the object untouched."),
        "assumptions": ["canonical JSON: numbers compared as the decimal literal encoding/json writes (a float64 whose literal is an integer "
                        "in [-2^63, 2^64-1] is that integer); object member order irrelevant",
                        "REST mapper and dynamic client are the apimachinery DefaultRESTMapper and client-go fake; the resource cache is the real ResourceCacheMap"],
        "trusted_base": ["model: lean/CliUtils/Model/{JTree,Mutate}.lean (hand-written; ajson path evaluation, encoding/json rendering, "
                         "strings.ReplaceAll modelled; the marshal->ajson->yaml.v3->unmarshal glue modelled as identity and checked by the correspondence run)",
                         "harness/overlay/c18_mutator_export.go (exports readFieldValue/writeFieldValue/valueToString via go build -overlay)"],
    },
}

_KS_TRUSTED = ["model: lean/CliUtils/Model/{Json,Status}.lean (hand-written from pkg/kstatus/status/{status,generic,core,util}.go and the "
               "apimachinery accessors NestedFieldNoCopy/NestedString/NestedInt64/NestedSlice/SetNestedSlice and FromUnstructured for the "
               "4-string-field BasicCondition struct); predicates: lean/CliUtils/Spec/Status.lean",
               "objects are JSON-shaped trees as produced by the apimachinery JSON decoder (nil/bool/int64/float64/string/slice/map); "
               "Go-only value types (int, int32, json.Number) and a nil top-level map are outside the model"]

_KS_ASSUME = ["messages are never compared (wording), only status, condition type/status/reason, error-or-not, panic-or-not",
              "the wall clock enters through one boolean (creation timestamp within the 15 s schedule window); the generators only use "
              "creation timestamps decades away from now, absent or unparsable, so the bit cannot flip during a run",
              "Go int arithmetic is modelled on unbounded Int (overflow of spec.replicas - partition is not part of the property)"]

PROPS["C07"] = {
    "level_text": ("Machine-checked Lean 4 theorems over a model of status.Compute/Augment: for EVERY dispatch key (built-in or not) a deletion "
                   "timestamp gives Terminating, else a generation mismatch gives InProgress, else the first true Reconciling/Stalled condition "
                   "decides; kinds without rules follow their first Ready condition and are Current without any signal; Augment leaves every "
                   "other condition untouched and in order and never changes the status computed afterwards. All quantified over all JSON trees "
                   "(any kind, any condition list, unbounded integers). The model is tied to the code by running the real Compute/Augment on "
                   "generated objects (every combination of deletionTimestamp x generation/observedGeneration x up to two Reconciling/Stalled/"
                   "Ready conditions before or after the kind's own conditions, over all built-in kinds and custom kinds) and comparing every "
                   "output; a unit test cannot quantify over all kinds and states."),
    "level_note": ("Trusted: Lean kernel (+propext, Quot.sound, Classical.choice), the hand-written model, the Go harness and driver. "
                   "The proof is about the model; the code is covered as far as the correspondence run explores (reported in evidence)."),
    "technique": "Lean 4 proof (case analysis over accessor results, induction over condition lists) + differential correspondence against the real Go code",
    "domains": ["status-c07", "augment"],
    "rule": ("status-c07: base objects of all 16 built-in keys and 9 custom apiVersion/kind shapes x {no, empty, set deletionTimestamp} x 7 "
             "generation/observedGeneration states x all sequences of <= 2 conditions from {Reconciling,Stalled,Ready}x{True,False,Unknown} x "
             "{before, after the kind's conditions} (sampled by a bijection of the index space in quick, complete in thorough), plus random "
             "sequences of 3-5 generic conditions, plus a tenth of the C08 grids; augment: random objects of all kinds with pre-existing "
             "standard conditions in assorted shapes (repeats, extra keys, wrong types), Augment then Compute again, whole object compared. "
             "Non-trivial: C07 constrains the status (status-c07) / Augment had a condition to write and succeeded (augment)."),
    "exhaustive_quick": False,
    "exhaustive_thorough": True,
    "explanation": ("Theorems: generic_terminating / generic_generation / generic_first_condition for every key; ready_fallback; "
                    "no_signal_current; demand_met (the executable C07 predicate holds of the model for every input); "
                    "augment_preserves_others; augment_status_stable; augment_error_unchanged. Tie: real Compute and Augment run on the same "
                    "inputs, every output compared; the C07 predicate is evaluated on the implementation's outputs."),
    "assumptions": _KS_ASSUME + ["Augment's timestamps are compared as '<now>' when they fall between the harness's clock readings around the call"],
    "trusted_base": _KS_TRUSTED,
}

PROPS["C08"] = {
    "level_text": ("Machine-checked Lean 4 theorems: for each built-in kind, with no generic signal, the model of the kind's rule returns "
                   "Current exactly when an independently written rollout predicate (from the API semantics, over unbounded Int fields) holds, "
                   "Failed exactly on explicit failure evidence, InProgress otherwise; never Current while a replica count lags; and (generation "
                   "fields present, rolling-update strategy, partition >= 0) Current implies that a Lean transcription of kubectl's "
                   "rollout_status.go reports the rollout done. Tie: the real Compute (and the real kubectl StatusViewers) run on per-kind grids "
                   "(absent/0..3 per count, every relevant condition/reason/phase/strategy value) plus random large values, all outputs compared."),
    "level_note": ("Trusted: Lean kernel (+propext, Quot.sound, Classical.choice), the hand-written model and rollout predicates, the Go harness "
                   "and driver. The proof is about the model; the code is covered as far as the correspondence run explores."),
    "technique": "Lean 4 proof (unfolding + linear integer arithmetic, induction over condition lists) + differential correspondence against the real Go code and kubectl",
    "domains": ["status-c08", "kubectl"],
    "rule": ("status-c08: per-kind grids (Deployment 5^5 counts x 3 deadlines x 6 Progressing x 3 Available x 2 groups = 337500 cells, "
             "StatefulSet 187500, DaemonSet 45000, ReplicaSet 18750, Pod 4800, Job/PVC/Service/CRD/always/custom complete) — quick: 30000 / "
             "30000 / 12000 / 9375 cells sampled by a bijection of the index space, the small grids complete; thorough: every cell; one in 12 "
             "again under a random generic context; plus 1500 (quick) / 20000 (thorough) objects per kind with random large or negative counts. "
             "kubectl: the three workload grids with generation fields mostly present and equal, real StatusViewer next to Compute. "
             "Non-trivial: built-in kind and no generic signal (status-c08) / the hypotheses of the kubectl comparison hold (kubectl)."),
    "exhaustive_quick": False,
    "exhaustive_thorough": True,
    "explanation": ("Theorems: <kind>_current_iff / <kind>_failed_iff per kind, c08_holds (the executable C08 predicate holds of the model for "
                    "every input), never_current_while_lagging, current_implies_kubectl_done_{deployment,sts,ds}. Tie: real Compute on the "
                    "grids, real kubectl viewers against the Lean transcription; the C08 predicate (rollout predicate vs status) is evaluated "
                    "on the implementation's outputs."),
    "assumptions": _KS_ASSUME + ["kubectl comparison: generation >= 1 and partition >= 0 (enforced by the API server), counts within int32"],
    "trusted_base": _KS_TRUSTED + ["transcription of k8s.io/kubectl@v0.31.1 pkg/polymorphichelpers/rollout_status.go in Spec/Status.lean (tied by the kubectl domain)"],
}

PROPS["C09"] = {
    "level_text": ("Machine-checked Lean 4 theorems: the model of status.Compute is a total function into result-or-error (no partiality), and "
                   "every result has one of the four statuses with exactly one true Reconciling condition when InProgress, exactly one true "
                   "Stalled condition when Failed and no conditions when Current/Terminating — for every JSON tree. Never-panics, input-unchanged "
                   "and equal-answers are facts about the Go code: they are observed by running the real Compute under recover(), twice, with a "
                   "deep comparison of the input before/after, on well-typed grids and on a kind-directed malformed stream (wrong-typed values at "
                   "exactly the paths each rule reads), and compared with the model (which implements checked assertions)."),
    "level_note": ("Trusted: Lean kernel (+propext, Quot.sound, Classical.choice), the hand-written model, the Go harness and driver. Totality "
                   "and purity of the model are by construction; for the code they hold as far as the correspondence run explores."),
    "technique": "Lean 4 proof (case analysis over every rule) + differential correspondence with panic capture against the real Go code",
    "domains": ["status", "status-malformed"],
    "rule": ("status: half of the C08 grids plus 40000 of the C07 generic-signal combinations (thorough: all); status-malformed: 30000 (quick) / "
             "400000 (thorough) objects of all kinds, a third of them Pods steered into the Running-not-Ready branch, with 1-3 subtrees at the "
             "paths the kind's rule reads replaced by null, strings, numbers, floats, booleans, empty/non-empty lists and maps. "
             "Every case is non-trivial (distinct canonical input)."),
    "exhaustive_quick": False,
    "explanation": ("Theorems: compute_total, result_shape (+ the strong form conditions = [c]), status_four_values, pure (structural). Tie: real "
                    "Compute under recover(), called twice, input deep-compared; outputs compared with the model; the C09 predicate (no panic, "
                    "unchanged, pure, status in the four values, condition shape) is evaluated on the implementation's outputs."),
    "assumptions": _KS_ASSUME,
    "trusted_base": _KS_TRUSTED,
}

# ---------------------------------------------------------------------------------------------------------------
# properties judged on whole runs of the real Applier / Destroyer (domain sys-Cxx) plus component domains
_SYS_RULE = ("sys: histories of 1-3 apply/destroy runs of the REAL Applier/Destroyer (assembled through the exported builder) over a stateful "
             "fake API server, with a scripted status watcher that imposes a deterministic schedule: 12 hand-written histories + 500 (quick) / "
             "8000 (thorough) generated ones over a catalogue of 12 manifests (namespaces, ConfigMaps, Secrets, a ClusterRole with ':' in its name; "
             "explicit depends-on chains, apply-time mutation, both deletion-prevention annotations), pre-existing un-owned / foreign-owned objects, "
             "all three inventory policies, prune on/off, client/server dry-run, client/server-side apply, exit-early / skip-invalid with 14 families of "
             "invalid objects (incl. catalogue objects that earlier runs applied in their valid form and that turn invalid through their dependency "
             "annotation, and a mutation annotation listing an external source first), inventory client with StatusPolicyNone / StatusPolicyAll, rejected mutating request k, failed inventory LIST n, failing GET of an object, controllers that never reconcile / "
             "report stale generations / fail / fail-then-recover / fail-then-report-a-stale-Current / replace the object, distinct real reconcile and prune "
             "timeouts (a Timeout event must not come earlier than the one configured for its phase), a watcher that closes its stream by itself after "
             "a fatal error, finalizers, cancellation before sync / in a wait phase / while "
             "request k is in flight, watcher failure, deletions by another actor, repeated identical applies. Every history is non-trivial "
             "(>= 1 run); distinct = distinct canonical input JSON. Compared with the Lean run model: events, every mutating request with the "
             "full store snapshot after it, final store.")
_SYS_TRUSTED = ["model: lean/CliUtils/Model/Sys.lean (hand-written from applier.go, destroyer.go, solver.go, runner.go, the task files, prune.go, "
                "the filters, inventory-client.go, policy.go) on top of Model/{Wait,Graph,DepEdges,Manager,IdSet,IdStr}.lean",
                "environment modelled, not verified: harness/internal/fakecluster (in-memory API server: uid counter, generation bump on content "
                "change, delete with UID precondition, finalizers as deletionTimestamp, merge-patch semantics), kubectl's ApplyOptions.Run as "
                "GET + (POST | PATCH-if-changed) or one server-side-apply PATCH, the scripted status feed of harness/cmd/corr/sys_run.go",
                "property predicates: lean/CliUtils/Spec/SysSpec.lean (evaluated on the implementation's observed behaviour)"]
_SYS_ASSUME = ["a failed request has no effect on the store (atomic requests); no garbage collector / namespace cascade in the environment",
               "status events are delivered only inside wait phases (rendezvous with the runner's select loop makes the schedule deterministic)"]

def _sys(pid, extra_domains, level_text, explanation, extra_assume=()):
    return {
        "domains": extra_domains + ["sys-" + pid],
        "timeout_quick": 600, "timeout_thorough": 3000,
        "level_text": level_text,
        "level_note": ("Trusted: Lean kernel (+propext, Quot.sound, Classical.choice); the hand-written run model, tied to the code by replaying "
                       "every generated history on the real Applier/Destroyer and comparing complete traces; the fake API server and kubectl's "
                       "request pattern are modelled, not verified; Go scheduling inside a task is irrelevant (one goroutine per task), the "
                       "runner's select loop is driven by rendezvous."),
        "technique": "Lean 4 theorems over the run model (case analysis, induction over task lists) + trace correspondence with the real Applier/Destroyer",
        "rule": _SYS_RULE,
        "explanation": explanation,
        "assumptions": _SYS_ASSUME + list(extra_assume),
        "trusted_base": _SYS_TRUSTED,
    }

PROPS["C02"] = _sys("C02", ["policy", "mgr", "prunestep"],
    "Theorems: the CanApply/CanPrune matrix (all owners, all policies); a delete request is sent by the prune step only if every guard of the "
    "filter chain holds (UID present, no deletion-prevention annotation, policy accepts the owner, namespace not in use, every dependent deleted "
    "and reconciled, not the UID of an object just applied, not dry-run) and then names the object with the planning-time UID as precondition and "
    "the configured propagation policy; the only other request is the annotation removal for a prevention-annotated object; such an object is "
    "abandoned and loses the annotation, any other spared object is recorded as skipped (hence retained, C03); an existing object is handed to "
    "kubectl only if the policy accepts its owner. Whole run (request_provenance, for EVERY cluster and run): every mutating request is an inventory "
    "write, the bootstrap create of the inventory namespace, a create/patch of a VALID object of the apply set, or a delete / annotation removal of a "
    "VALID prune candidate — an object listed in the stored inventory at the start of the run, existing, and not in the apply set (delete_only_tracked, "
    "apply_only_manifests). Tie: exhaustive grid through the real policy functions and stateless filters (domain policy), "
    "the real inventory Manager whose AppliedResourceUIDs feeds the just-applied filter (domain mgr, shared with C19), "
    "ONE prune step through the real PruneTask + Pruner + the filter chain as applier.go / destroyer.go assemble it, with the manager table as an "
    "input so that two ids can share a UID (API-group alias of a just-applied object) — compared with Sys.pruneOne (domain prunestep), "
    "whole runs with a recording API server that sees Delete options (domain sys-C02).",
    "Spec predicates on the implementation: every observed DELETE is authorised (in previous inventory, not in apply set, policy, annotations, "
    "namespace, UID precondition = planning-time UID, propagation), every apply over an existing object satisfies CanApply, spared objects are "
    "abandoned / retained as stated.")
PROPS["C02"]["rule"] = _SYS_RULE + (
    " prunestep: ONE prune step through the real task.PruneTask + prune.Pruner with the real filter chain (PreventRemove, InventoryPolicyPrune, "
    "LocalNamespaces for apply runs, Dependency, CurrentUID built by PruneTask.Start from the real Manager): exhaustive grid owner {none, this "
    "inventory, another} x {plain, keep, detach} x 3 policies x 3 dry-run modes x apply/destroy x 13 relations between the object's UID and the "
    "manager table (no applied record, other UID, unknown UID, same UID on a failed / skipped / pending apply or a successful delete, same UID on a "
    "SUCCESSFUL apply of an alias id with each of the 5 reconcile statuses, alias behind another record) x 4 dependent situations (reduced behind a "
    "prevention annotation); request grid (object gone / replaced / unchanged in the store x finalizer x rejected request x propagation x missing "
    "planning-time UID); namespaces in use; one dependent with every manager record / invalid / unregistered (all 82 cells, with and without an alias) "
    "and a sample (thorough: all) of the pairs; 8000 (quick) / 120000 (thorough) random mixes of all dimensions. Compared with Sys.pruneOne: result "
    "event, every mutating request (verb, id, dry-run flag, UID precondition, propagation, result), abandoned flag, manager record, store afterwards.")
PROPS["C02"]["trusted_base"] = _SYS_TRUSTED + [
    "step-level property predicate and St construction for the prunestep domain: lean/CliUtils/Drv/PruneStep.lean (violations, stOf)"]
PROPS["C04"] = _sys("C04", ["depfilter", "wait", "depgraph"],
    "Theorems: the dependency gate passes exactly when EVERY dependency is valid, registered with the same strategy, actuated successfully and "
    "(outside dry-run) recorded as reconciled (iff, for all tables and dependency lists); an object is handed to kubectl only if the gate passed "
    "for all edges of the run's graph; if any dependency blocks (failed/skipped/pending actuation, failed/timed-out/skipped/pending reconcile, "
    "invalid, unregistered, scheduled for deletion) no request is sent, the store is unchanged and exactly one Skipped/Failed event is emitted. "
    "Reconciled means, by C06, last observed Current at a generation >= the applied one. Whole run (apply_requests_ordered, for EVERY cluster and run): "
    "every create/patch request of a run is preceded in the run's own event list by a Successful apply result of each dependency (every edge of the run's "
    "graph) whose last wait event before the request is Successful (outside dry-run) — the predicate the correspondence evaluates, proved on the model "
    "(apply_requests_ordered_spec restates it with the Spec functions). Tie: exhaustive cells through the real DependencyFilter "
    "(domain depfilter: 2 strategies x 3 dry-run modes x 82 relation states, singles and pairs), the real WaitTask that records 'reconciled' "
    "(domain wait, shared with C06), whole runs (sys-C04).",
    "Spec predicate: for every observed apply request, each dependency (explicit, mutation source, namespace) has an earlier Successful apply event "
    "and, outside dry-run, its last wait event before the request is Successful.")
PROPS["C05"] = _sys("C05", ["depfilter", "depgraph"],
    "Theorems: a delete request is sent only if every dependent (all incoming edges of the run's graph: apply set and stored inventory) has been "
    "deleted successfully and (outside dry-run) recorded as reconciled; a dependent that is still applied, whose delete failed/was skipped/did not "
    "complete, or that is invalid blocks the delete (no request); the reversed layering puts a dependency in a strictly later delete layer than its "
    "dependents (from C14). Whole run (delete_requests_ordered, for EVERY cluster and run): every delete request is preceded by a Successful delete result of "
    "every dependent whose last wait event before the request is Successful (outside dry-run). Blocked dependencies are recorded as skipped/failed deletes and therefore stay in the inventory (C03 formula). "
    "Tie: domain depfilter (strategy delete), whole runs (sys-C05).",
    "Spec predicate: for every observed DELETE, each existing dependent has an earlier Successful delete event and, outside dry-run, its last wait "
    "event before the request is Successful; no delete while a dependent is in the apply set.")
PROPS["C10"] = _sys("C10", [],
    "Theorem run_dry_changes_nothing: for EVERY cluster state and EVERY run configuration with client or server dry-run (any apply set, options, "
    "injected failures, cancellation point), the store after the run equals the store before it and every mutating request of the run is a "
    "server-side-apply patch carrying the dry-run directive (none under client dry-run) — proved by a per-step 'Harmless' lemma for kubectl apply, "
    "the prune step, inventory merge/replace/delete, lifted by induction over object lists and task lists; the plan of a dry-run has no wait task. "
    "Tie: whole runs in both dry-run modes x client/server-side apply on states produced by earlier real runs (sys-C10).",
    "Spec predicate: no executed mutation in the request log (client: none at all; server: only dry-run patches, no delete), store snapshot before = after.")

PROPS["C01"] = _sys("C01", [],
    "Theorems (per-step facts of the no-orphan argument, for all states and inputs): a successful merge stores a superset of the previously "
    "stored ids and of the apply set before any apply request (merge_superset); apply and prune steps never touch the stored inventory "
    "(applyOne_keeps_inv, pruneOne_keeps_inv); the final replace keeps every successfully applied object and every tracked object in a "
    "retention class or invalid, and drops only abandoned objects and objects in no retention class (keeps_*, dropped_only_if, via the "
    "inventory formula of C03); the inventory object is deleted only when nothing is left to retain (C03.destroy_successful_nothing_retained); "
    "an aborted run never reaches the final replace (abort_stops). WHOLE RUN AND HISTORIES (Props/C01F.lean, C01H.lean; Lemmas/FinalL.lean, HistoryL.lean): "
    "no_orphan_run — for every cluster and every non-dry run, after EVERY mutating request (the snapshot taken after each) and at the end, every live "
    "annotated object is listed in the stored inventory, whatever request fails, whatever the status feed reports, whenever the run is cancelled — via the "
    "invariant Tracked (each live annotated object is tracked-invalid, or has an apply record consistent with the remaining plan, or a delete record that "
    "is not 'succeeded and observed gone'), established by the merge, preserved by every apply / prune step and every wait phase (all scripts), and "
    "implying that the final task retains it (final_task_safe, tracked_retained); no_orphan_history lifts it to every finite history of apply / dry-run / "
    "destroy runs (store well-formedness, known kinds and orphan-freedom are re-established by every run: runOne_storeWF, runOne_kindsKnown). The end-to-end invariant — no live annotated object outside the stored "
    "inventory at ANY prefix of the mutating-request trace, including after a rejected request — is evaluated on every store snapshot of every "
    "generated history of the real implementation (and of the model), with every request index injected as failure point by the generator.",
    "Spec predicate noOrphans on every snapshot: every object carrying this inventory's annotation is listed in the stored inventory (the inventory "
    "namespace is exempt until the stored inventory has listed it once).",
    ["no_orphan_run / no_orphan_history hypotheses: the start store is a well-formed API-server store (one object per id, one id per uid, no uid the "
     "server hands out later), every stored object is of a kind the mapper knows, the delete-wait scripts are the three the harness produces, and the "
     "documented exception: a non-dry apply run that has the inventory namespace in its apply set starts from a store in which it exists "
     "(known finding C01.inventory-namespace-apply-failed); Props/C01F.lean proves each hypothesis necessary in the model by a decide-checked example"])
PROPS["C03"] = _sys("C03", [],
    "Theorems: the inventory formula as an exact membership characterisation of the final inventory (successful applies + tracked objects whose "
    "apply/delete failed or was skipped or whose reconcile failed/timed out, minus abandoned, + tracked invalid), no repeats, nothing foreign; "
    "a successful destroy leaves nothing to retain; fixpoint components: kubectl's client-side apply of an unchanged object sends no request, the "
    "merge and the final replace write nothing when the set is unchanged (StatusPolicyNone); the final task, when it succeeds, stores exactly the formula "
    "and touches no object (final_task_writes_formula), a timed-out tracked object stays (timed_out_object_stays). WHOLE RUN (Props/C03R.lean, "
    "Lemmas/ConvergeL.lean, for every cluster and non-dry run): every object whose apply is recorded successful is live and annotated at every exit "
    "of the run (applied_objects_live); an object whose delete succeeded and was observed gone is not in the store (deleted_objects_gone); a run "
    "without error event stores exactly the inventory formula evaluated on its final manager table and the inventory it started from "
    "(completed_run_inventory); a destroy without error event in which destroySuccessful held leaves no inventory object and no annotated object "
    "(destroy_leaves_nothing); after a clean apply (every record applied and reconciled, nothing invalid) the stored inventory is exactly the apply set "
    "and re-running an apply with the same valid apply ids — under ANY faults, cancellation or controller behaviour — sends no delete, no create other "
    "than the idempotent bootstrap create of the inventory namespace, and leaves the stored inventory unchanged (reapply_is_fixpoint_partial / _noprune; "
    "partial: the re-run's plan is assumed to have the same valid apply ids when the first run pruned, and client-side patches are not excluded). Model equivalence itself is the trace correspondence: the Lean run model "
    "stepped with the same histories produces the same stored inventory and store as the implementation after every run.",
    "Spec predicate: after every run without error event: applied objects live+annotated, completed deletes gone, stored inventory = formula from "
    "the observed events; an identical clean re-apply sends no effective create/delete and leaves the inventory unchanged; destroy leaves nothing managed.",
    ["a create answered AlreadyExists (the idempotent creation of the inventory namespace) is not counted as a create request of a fixpoint run"])
PROPS["C11"] = _sys("C11", ["depgraph", "scope"],
    "Theorems: every invalid id is named in a validation error (invalid_named); no task of any plan — inventory-add, apply, prune, wait — names "
    "an invalid id, so none is ever sent or merged into the inventory (plan_excludes_invalid, merged_ids_valid); under exit-early a run with "
    "validation errors makes no mutating request and emits only the error event (exit_early_no_mutation, for every cluster and run); objects "
    "depending on an invalid object are not applied (dependent_of_invalid_not_applied); tracked invalid objects stay in the inventory (C01.keeps_invalid). "
    "Whole run (invalid_never_sent, named_never_sent, field_invalid_never_sent, for EVERY cluster and run): no request of a run other than inventory writes "
    "is for an id of the plan's invalid set; an id named in any validation error, and any manifest failing field validation, is the id of no request.",
    "Spec predicate: invalid objects (9 generated families) never appear in the request log, are named in validation events, are not added to any "
    "inventory snapshot, stay if tracked; exit-early runs have an empty request log and an error event; dependents are not applied.")
PROPS["C12"] = _sys("C12", ["wait"],
    "Theorems: when the deadline fires Timeout is reported for exactly the pending objects (C06); after an abort (cancellation, watcher failure, "
    "task error) the running task is finished and exactly one error event ends the run, no later task starts (cancel_no_new_phase); at most one "
    "error event, only last (single_error_last); cancelling emits nothing and apply/prune steps leave the stored inventory as merged "
    "(cancel_keeps_inventory). Whole run: no Timeout event without a configured timeout (timeout_only_if_configured); when the deadline fires the appended "
    "events are Timeout for exactly the pending objects, they are recorded as timed out, nothing else changes and the task reports no error "
    "(timeout_for_exactly_pending_in_run); a timeout is not an error and the later phases are run (timeout_is_not_an_error, timeout_run_continues); once "
    "cancelled no further status delivery changes anything (cancel_stops_wait_deliveries); every request of a run that ended with an error event was made "
    "before that event was emitted (no_request_after_error). Real time (a deadline never fires early, termination within bounded time) is a runtime fact: the harness configures "
    "distinct short real reconcile / prune timeouts, requires every Timeout event to come no earlier than the timeout configured for its phase, and that a "
    "run which hangs ends within 3 s of cancelling the context.",
    "Spec predicate: Timeout only with a timeout configured and only for objects whose last wait event was Pending; nothing after the error event; "
    "no request after the channel closed (C13) and no orphan after cancellation (C01).",
    ["Go's context.WithTimeout / timers are trusted not to fire early"])
PROPS["C13"] = _sys("C13", ["print"],
    "Theorems: apply and prune steps emit exactly one non-pending result event per object naming their group (applyOne_one_event, "
    "pruneOne_one_event); a wait phase emits exactly one wait event per object at its start; every step emits only item events "
    "(runTask_onlyItems, incl. the whole wait-phase machinery); the runner brackets every task with started/finished and emits at most one "
    "error event, only as the last event (runTasks_error_last). run_stream_well_formed: for EVERY cluster and EVERY run (any options, faults, cancellation "
    "point, watcher error) the complete event stream of the model is accepted by the C13 grammar for the plan carried by its own init event — the very "
    "predicate evaluated on the implementation's streams. The run model is a total function: every run terminates with a complete stream. "
    "The full event grammar (Spec.eventsWellFormed, shared with C20 where properties of well-formed streams are proved) is evaluated on every "
    "stream of the real implementation; channel closure, hangs (20 s watchdog) and requests after close are observed by the harness.",
    "Spec predicate: stream accepted by the grammar for its own plan event, channel closed, no request after close, no hang / panic.",
    ["closure of the Go channel and absence of late goroutines are observed, not proved"])

PROPS["C11"]["level_text"] += (
    " Scope / namespace validation (Props/C11S.lean, over ALL mapper answers and CRD lists of any length and shape): the RESTMapper's answer "
    "wins whatever the CRDs say (mapper_hit_decides); for well-formed CRD lists a type is unknown iff the mapper answers NoMatch and no CRD has its "
    "group+kind or the first such CRD lacks the version, and its scope is that of the first such CRD (lookup_wellformed, unknown_type_iff, crd_scope); "
    "a CRD that cannot be read fails the lookup even if a later CRD defines the type (malformed_crd_errors); Validate collects nothing for an object "
    "iff kind and name are set, the scope is known and the namespace agrees with it, every defect is named and nothing else is "
    "(validate_valid_iff, validate_names_every_defect, validate_only_real_defects); InvalidIds = the ids named in the collected errors "
    "(invalid_iff, scope_invalid_named). Tie: the real object.LookupResourceScope and validation.Validator.Validate on generated object+CRD sets "
    "(domain scope).")
PROPS["C11"]["rule"] = PROPS["C11"]["rule"] + (
    " scope: the real LookupResourceScope + Validator{Mapper, Collector}.Validate on [object] ++ CRDs: one CRD with every combination of "
    "spec.group (absent, null, \"\", number, matching, other) x spec.names/kind (absent, null, not a map, kind absent/null/\"\"/number/matching/other) x "
    "spec.versions (absent, null, not a list, empty, 1-2 items from {null, string, {}, name null/number/v1/v2}) x spec.scope (absent, null, "
    "Namespaced, Cluster, other, number) (10368 cells); every ordered pair of 30 representative CRDs x 6 mapper answers (namespaced, root, three "
    "NoMatch forms, other error) x namespace set/empty; the object grid (group, version, kind \"\", name \"\", namespace \"\") x mapper answer x 9 CRD "
    "sets; the CRD objects themselves (name, namespace, what the mapper says about the CRD type); 16000 (quick) / 400000 (thorough) random mixes "
    "of 0-3 CRDs incl. look-alikes that are not CRDs, an object under test that is itself a CRD, and a real meta.DefaultRESTMapper. Compared: "
    "scope class / error (type + field path), Collector.Errors (id + classes, in order), InvalidIds.")
PROPS["C06"]["rule"] += (
    " RESTMapper reset: optional input field crd (object i is a CustomResourceDefinition id); the task then gets a counting "
    "meta.ResettableRESTMapper and the number of Reset() calls once the task result has been delivered (or when the phase is found not to have "
    "ended) is compared with Wait.resets: 1-2 objects x 8 actuation records x CRD or not x 6 ways of (not) ending the phase, and half of the random phases.")
PROPS["C04"]["level_text"] += (
    " CRD phases (Props/C04S.lean mapper_reset_iff, no_reset_otherwise, for every phase and operation sequence): the wait task resets the "
    "RESTMapper exactly once iff the phase has ended and contains a CRD that was not skipped (by the actuation table the phase started with), "
    "never while it runs and never otherwise — tied to WaitTask.updateRESTMapper by counting Reset() calls in domain wait.")

PROPS["C18"]["domains"].append("sys-C18")
PROPS["C18"]["rule"] += (" sys-C18: the whole-run histories of the system-level properties (" + _SYS_RULE[:60] + "…): store snapshots now carry the field apply-time "
    "mutation writes; after every successful apply of an object with a mutation annotation that field must equal the source's value in the same snapshot.")
for _p in ("C18", "C06"):
    PROPS[_p]["rule"] += (
        " runnercache: the real TaskStatusRunner.Run with one task held open while a scripted watcher feeds 0-6 status events for 1-3 objects "
        "(any status, message, with / without object body, generation, UID, and a content field that is neither status nor generation; half of the "
        "events repeat an earlier one with only that content field changed): afterwards the resource cache must hold the LAST report per object "
        "(status, message, and the object body with its content), the running task must have been told of every event for one of its objects, and "
        "every event is forwarded iff EmitStatusEvents — the cache the wait phases and the apply-time mutator ('source looked up from the reconciled cache') read.")

_LATE = (" watcher-late: the real DefaultStatusWatcher over a dynamic client whose pod LIST is served in 40 slow pages and honours the context it is "
         "given; the caller's context is cancelled when page 1, 2 or 5 has been requested (i.e. before the watcher has synced), both scopes: the event "
         "channel must close and no LIST page request may reach the server after it has closed.")
PROPS["C16"]["rule"] += _LATE
for _p in ("C12", "C13"):
    PROPS[_p]["domains"].append("watcher-late")
    PROPS[_p]["rule"] += _LATE

_SYNCRACE = (" sync-race: histories whose last run is cancelled at the very moment the watcher's sync event becomes ready, while the runner is kept busy "
             "forwarding a status event to a consumer that is not reading — when the runner returns to its select both are ready and Go picks. Each "
             "history is played 6 (thorough: 40) times; the implementation must show one of the model's two behaviours (`runOneAtSync … false`: nothing "
             "started; `… true`: the first task is started, finished, and the run ends with the context error), and in either the stream is well-formed, "
             "the channel closes, no request follows, and the status watcher the runner started has been stopped by then (every exit of the runner goes "
             "through its `complete`). The whole-run sys domains check the last point on every run too (`watcherStopped`), and additionally schedule the "
             "watcher's fatal error while a mutating request is in flight, alone and together with a cancellation at the same, an earlier or a later "
             "request: a cancelled run ends with the context error (theorem C12.cancelled_run_ends_with_the_context_error).")
for _p in ("C12", "C13"):
    PROPS[_p]["domains"].append("sync-race")
    PROPS[_p]["rule"] += _SYNCRACE

# C11: the unknown-type check of the validator asks the (caching) RESTMapper; whether a type is known in the NEXT run of the same
# applier depends on the mapper having been reset after a CRD was applied or deleted — WaitTask.updateRESTMapper, driven by the
# `wait` domain with CRD ids in apply and delete phases (theorems C04S.mapper_reset_iff / no_reset_otherwise)
PROPS["C11"]["domains"].append("wait")
PROPS["C11"]["rule"] += (" wait (CRD ids): after a wait phase that holds a CustomResourceDefinition whose apply or delete was not skipped the RESTMapper is "
                         "reset exactly once (counting ResettableRESTMapper), otherwise never — the freshness the validator's unknown-type check relies on.")

PROPS["C10"]["domains"].append("apisvc")
PROPS["C10"]["rule"] += (" apisvc: one APIService applied through the real Applier under every dry-run strategy, with / without server-side apply, with / without "
                         "the first apply request breaking with an HTTP/2 stream error (the error on which ApplyTask retries an APIService with client-side apply), "
                         "object present or not — 24 cases against a table; the predicate: a dry-run sends no mutating request without the dry-run directive "
                         "(a client dry-run none at all) and leaves the store unchanged.")

# C13 "exactly one result event per object of a prune / delete group" also for the single-object prune step driven with every
# manager table / fault / annotation combination (domain prunestep, shared with C02)
PROPS["C13"]["domains"].append("prunestep")
PROPS["C13"]["rule"] += (" prunestep: the real PruneTask / Pruner / filter chain on ONE object under every combination of manager table, lifecycle annotation, "
                         "owner, dry-run strategy and request outcome (the annotation-removal UPDATE and the DELETE each succeed, fail or hit NotFound): exactly one result event.")

_SYSREAL = (" sys-real: whole histories (apply, re-apply with prune, destroy; dependencies, apply-time mutation, keep / detach, finalizers, an object of an "
            "unregistered type under SkipInvalid, a Deployment that never becomes Current) run with the library's REAL DefaultStatusWatcher — dynamic informers "
            "over the fake cluster's LIST and WATCH — instead of the scripted watcher; the scripts of the input only describe what kstatus computes. Same run model; "
            "agreement up to `realProj` (Pending wait events, the order inside a block of wait events and the event index of requests are the scheduler's); the "
            "C13, C12, C05, C04, C02 and C01 predicates judge the implementation's behaviour as it is: grammar, one result per object, Timeout only after the configured time, channel "
            "closed, no request and no open WATCH stream after it.")
for _p in ("C12", "C13", "C05", "C04"):
    PROPS[_p]["domains"].append("sys-real")
    PROPS[_p]["rule"] += _SYSREAL

PROPS["C16"]["domains"].append("fatalseq")
PROPS["C16"]["rule"] += (" fatalseq: every sequence of ≤ 3 (and random longer) errors — bare or wrapped context errors, as a handler gets when its own informer "
                         "was stopped under it, and real failures — handed to the reporter's handleFatalError: the first real failure is reported by exactly one "
                         "error event and stops the reporter, context errors are never reported and do not use up that one report.")

_PRECANCEL = (" pre-cancel: dry-runs (client and server; the library then uses its own BlindStatusWatcher) started under an ALREADY cancelled context, each history "
              "played 5 (thorough: 40) times: the stream is the un-cancelled run cut after the Finished event of one of its tasks plus the context error, or nothing "
              "was started, or the complete run (how often the runner's select takes a task result before the cancellation is Go's choice); the channel closes, "
              "nothing is changed, C13 / C12 / C10 hold on the stream as it is.")
for _p in ("C13", "C12"):
    PROPS[_p]["domains"].append("pre-cancel")
    PROPS[_p]["rule"] += _PRECANCEL

PROPS["C04"]["domains"].append("apisvc")
PROPS["C04"]["rule"] += (" apisvc: the APIService retry path, also with the client-side retry failing after the stream error: an apply all of whose requests failed is reported "
                         "Failed (never Successful — the record a dependent's gate reads).")
